/-
  C14 — key-credential blobs (msDS-KeyCredentialLink).

  Model (what the Go code does, following its control flow, with the repairs of
  `fixes/C14-*.diff` applied):
    windows/keycredential/KeyCredential.go      NewKeyCredential, ToBytes, FromBytes, ComputeKeyHash, CheckIntegrity
    windows/keycredential/DNWithBinary.go        Parse, ToString
    windows/keycredential/crypto/RSAKeyMaterial.go   ToBytes, FromBytes (BCRYPT_RSAKEY_BLOB)
    windows/keycredential/key/CustomKeyInformation.go  ToBytes, FromBytes (both threshold ladders)
    windows/keycredential/key/KeyCredentialVersion.go  ToBytes, FromBytes
    windows/keycredential/utils/utils.go         ConvertTo/FromBinaryIdentifier, ConvertFromBinaryTime, ComputeHash
    windows/keycredential/utils/DateTime.go      DateTime.ToBytes (ticks only; tick <-> Go time is C15)
    windows/guid/Guid.go                         ToBytes, FromRawBytes

  SHA-256 is NOT implemented here: it is a parameter `H : Bytes → Bytes` of every function that
  hashes.  For execution the functions that hash are written over the one-question oracle monad
  `Ask`; the driver answers the question from a table supplied by the harness (Go crypto/sha256).

  Spec (`namespace Spec`): the MS-ADTS KEYCREDENTIALLINK_BLOB grammar — version, then entries
  `(length : uint16 LE, identifier : uint8, value)` — BCRYPT_RSAKEY_BLOB, the MS-DTYP GUID packet
  layout, and the Object(DN-Binary) syntax `B:<hex char count>:<hex>:<dn>`.
-/
import Manticore.Basic
namespace Manticore.C14
open Manticore

/-! ## text primitives (Go strings are byte lists) -/

def hexDigitB (n : Nat) : UInt8 := if n < 10 then UInt8.ofNat (48 + n) else UInt8.ofNat (87 + n)

/-- `hex.EncodeToString` (lower case) -/
def hexEncode (b : Bytes) : Bytes :=
  b.flatMap (fun x => [hexDigitB (x.toNat / 16), hexDigitB (x.toNat % 16)])

def hexValB (c : UInt8) : Option Nat :=
  if 48 ≤ c.toNat ∧ c.toNat ≤ 57 then some (c.toNat - 48)
  else if 97 ≤ c.toNat ∧ c.toNat ≤ 102 then some (c.toNat - 87)
  else if 65 ≤ c.toNat ∧ c.toNat ≤ 70 then some (c.toNat - 55)
  else none

/-- `hex.DecodeString`: an error for odd length or any non-hex character -/
def hexDecode : Bytes → Option Bytes
  | [] => some []
  | [_] => none
  | a :: b :: rest =>
    match hexValB a, hexValB b, hexDecode rest with
    | some x, some y, some r => some (UInt8.ofNat (x * 16 + y) :: r)
    | _, _, _ => none

/-- the standard base64 alphabet -/
def b64Char (n : Nat) : UInt8 :=
  if n < 26 then UInt8.ofNat (65 + n)
  else if n < 52 then UInt8.ofNat (97 + (n - 26))
  else if n < 62 then UInt8.ofNat (48 + (n - 52))
  else if n = 62 then 43 else 47

def b64Val (c : UInt8) : Option Nat :=
  if 65 ≤ c.toNat ∧ c.toNat ≤ 90 then some (c.toNat - 65)
  else if 97 ≤ c.toNat ∧ c.toNat ≤ 122 then some (c.toNat - 97 + 26)
  else if 48 ≤ c.toNat ∧ c.toNat ≤ 57 then some (c.toNat - 48 + 52)
  else if c.toNat = 43 then some 62
  else if c.toNat = 47 then some 63
  else none

/-- `base64.StdEncoding.EncodeToString` (with `=` padding) -/
def b64Encode : Bytes → Bytes
  | [] => []
  | [a] => [b64Char (a.toNat / 4), b64Char (a.toNat % 4 * 16), 61, 61]
  | [a, b] => [b64Char (a.toNat / 4), b64Char (a.toNat % 4 * 16 + b.toNat / 16), b64Char (b.toNat % 16 * 4), 61]
  | a :: b :: c :: rest =>
    b64Char (a.toNat / 4) :: b64Char (a.toNat % 4 * 16 + b.toNat / 16) ::
      b64Char (b.toNat % 16 * 4 + c.toNat / 64) :: b64Char (c.toNat % 64) :: b64Encode rest

/-- sextets to bytes, as Go's non-strict decoder does it: a final group of 2 or 3 sextets yields
    1 or 2 bytes (left-over bits are ignored), a final group of 1 sextet is an error -/
def b64Sextets : List Nat → Option Bytes
  | [] => some []
  | [_] => none
  | [s0, s1] => some [UInt8.ofNat (s0 * 4 + s1 / 16)]
  | [s0, s1, s2] => some [UInt8.ofNat (s0 * 4 + s1 / 16), UInt8.ofNat (s1 % 16 * 16 + s2 / 4)]
  | s0 :: s1 :: s2 :: s3 :: rest =>
    match b64Sextets rest with
    | some r => some (UInt8.ofNat (s0 * 4 + s1 / 16) :: UInt8.ofNat (s1 % 16 * 16 + s2 / 4) ::
        UInt8.ofNat (s2 % 4 * 64 + s3) :: r)
    | none => none

/-- `base64.RawStdEncoding.DecodeString`: `\r` and `\n` are skipped, every other byte must be in
    the alphabet (`=` is not) -/
def b64DecodeRaw (s : Bytes) : Option Bytes :=
  match (s.filter (fun c => c != 10 && c != 13)).mapM b64Val with
  | some vals => b64Sextets vals
  | none => none

/-- `strings.TrimRight(s, "=")` -/
def trimRightEq (s : Bytes) : Bytes := (s.reverse.dropWhile (· == 61)).reverse

/-- decimal digits of `n`, most significant first, in front of `acc` -/
def decAux (n : Nat) (acc : Bytes) : Bytes :=
  if n < 10 then UInt8.ofNat (48 + n) :: acc
  else decAux (n / 10) (UInt8.ofNat (48 + n % 10) :: acc)

/-- `fmt` verb `%d` on a non-negative int -/
def dec (n : Nat) : Bytes := decAux n []

def isDigit (c : UInt8) : Bool := 48 ≤ c.toNat && c.toNat ≤ 57

def digitsVal (l : Bytes) (init : Nat) : Nat := l.foldl (fun a c => a * 10 + (c.toNat - 48)) init

/-- `strconv.Atoi` on a 64-bit platform: optional sign, at least one digit, only digits,
    value within int64 -/
def atoi (s : Bytes) : Option Int :=
  let neg := s.head? = some 45
  let ds := if s.head? = some 45 ∨ s.head? = some 43 then s.drop 1 else s
  if ds.isEmpty || !ds.all isDigit then none
  else
    let v := digitsVal ds 0
    if neg then (if v ≤ 2 ^ 63 then some (-(v : Int)) else none)
    else (if v < 2 ^ 63 then some (v : Int) else none)

/-! ## the hash oracle -/

/-- a computation that may ask for the SHA-256 digest of byte strings -/
inductive Ask (α : Type) where
  | done (a : α)
  | ask (x : Bytes) (k : Bytes → Ask α)

namespace Ask
/-- run with a concrete hash function -/
def run {α} (H : Bytes → Bytes) : Ask α → α
  | done a => a
  | ask x k => run H (k (H x))

/-- run against a finite table; `Sum.inl x` = the table has no answer for `x` -/
def runTable {α} (tbl : List (Bytes × Bytes)) : Ask α → Sum Bytes α
  | done a => .inr a
  | ask x k =>
    match tbl.lookup x with
    | some h => runTable tbl (k h)
    | none => .inl x

def bind {α β} : Ask α → (α → Ask β) → Ask β
  | done a, f => f a
  | ask x k, f => ask x (fun h => bind (k h) f)

instance : Monad Ask where
  pure := done
  bind := bind

@[simp] theorem run_done {α} (H) (a : α) : run H (done a) = a := rfl
@[simp] theorem run_ask {α} (H) (x) (k : Bytes → Ask α) : run H (ask x k) = run H (k (H x)) := rfl
theorem run_bind {α β} (H) (m : Ask α) (f : α → Ask β) : run H (m >>= f) = run H (f (run H m)) := by
  show run H (bind m f) = _
  induction m with
  | done a => rfl
  | ask x k ih => exact ih (H x)
end Ask

/-! ## GUID (`windows/guid/Guid.go`) -/

structure Guid where
  a : UInt32
  b : UInt16
  c : UInt16
  d : UInt16
  e : UInt64
  deriving DecidableEq, Repr, Inhabited

/-- `GUID.ToBytes`: A, B, C little-endian; D big-endian; the low 48 bits of E big-endian -/
def Guid.toBytes (g : Guid) : Bytes :=
  putLe32 g.a ++ putLe16 g.b ++ putLe16 g.c ++ putBe16 g.d ++
    [(g.e >>> 40).toUInt8, (g.e >>> 32).toUInt8, (g.e >>> 24).toUInt8, (g.e >>> 16).toUInt8,
     (g.e >>> 8).toUInt8, g.e.toUInt8]

/-- `GUID.FromRawBytes`: reads `data[0]` … `data[15]`; on fewer than 16 bytes the receiver becomes
    the nil GUID (after `fixes/C07-guid-fromrawbytes-short.diff`; the method has no error result) -/
def Guid.fromRawBytes (data : Bytes) : Outcome Guid :=
  match data with
  | d0 :: d1 :: d2 :: d3 :: d4 :: d5 :: d6 :: d7 :: d8 :: d9 :: d10 :: d11 :: d12 :: d13 :: d14 :: d15 :: _ =>
    .ok { a := le32 d0 d1 d2 d3, b := le16 d4 d5, c := le16 d6 d7, d := be16 d8 d9,
          e := (d10.toUInt64 <<< 40) ||| (d11.toUInt64 <<< 32) ||| (d12.toUInt64 <<< 24) |||
               (d13.toUInt64 <<< 16) ||| (d14.toUInt64 <<< 8) ||| d15.toUInt64 }
  | _ => .ok ⟨0, 0, 0, 0, 0⟩

/-! ## RSA key material (`crypto/RSAKeyMaterial.go`) -/

structure RSAKeyMaterial where
  keySize : UInt32 := 0
  exponent : UInt32 := 0
  modulus : Bytes := []
  prime1 : Bytes := []
  prime2 : Bytes := []
  /-- internal `RawBytes` (`RawBytesSize` is its length) -/
  rawBytes : Bytes := []
  deriving DecidableEq, Repr, Inhabited

def magicRSA1 : Bytes := [82, 83, 65, 49]

/-- `RSAKeyMaterial.ToBytes`: "RSA1", key size, the four sizes (exponent size is always 4), then
    exponent (big-endian, 4 bytes), modulus, primes -/
def RSAKeyMaterial.toBytes (rk : RSAKeyMaterial) : Bytes :=
  magicRSA1 ++ putLe32 rk.keySize ++ putLe32 4 ++ putLe32 (UInt32.ofNat rk.modulus.length) ++
    putLe32 (UInt32.ofNat rk.prime1.length) ++ putLe32 (UInt32.ofNat rk.prime2.length) ++
    putBe32 rk.exponent ++ rk.modulus ++ rk.prime1 ++ rk.prime2

def le32At (b : Bytes) (off : Nat) : UInt32 :=
  match b.drop off with
  | b0 :: b1 :: b2 :: b3 :: _ => le32 b0 b1 b2 b3
  | _ => 0

/-- `RSAKeyMaterial.FromBytes(value)` (after `fixes/C07-rsakeymaterial-bounds.diff`: fewer than the
    24 header bytes, or announced sizes that exceed what follows the header, are an error; every
    slice and index that follows is then inside `value`).  `extra` are the bytes that follow `value`
    inside its capacity (inside `KeyCredential.FromBytes` the entry value is a sub-slice of the blob):
    since the repair nothing depends on them any more; the parameter is kept for the callers.
    Result: the mutated receiver and whether an `error` was returned. -/
def RSAKeyMaterial.fromBytes (rk : RSAKeyMaterial) (value _extra : Bytes) : Outcome (RSAKeyMaterial × Bool) :=
  let rk := { rk with rawBytes := value }
  if value.length < 24 then .ok (rk, true)                -- "RSA key material too short"
  else if value.take 4 != magicRSA1 then .ok (rk, true)   -- "invalid blob type"
  else
    let rk := { rk with keySize := le32At value 4 }
    let eSize := (le32At value 8).toNat
    let mSize := (le32At value 12).toNat
    let p1Size := (le32At value 16).toNat
    let p2Size := (le32At value 20).toNat
    if eSize + mSize + p1Size + p2Size > value.length - 24 then .ok (rk, true)   -- sizes exceed the body
    else
      -- for i := 0; i < exponentSize; i++ { e = e<<8 | value[24+i] }
      let e := ((value.drop 24).take eSize).foldl (fun (acc : UInt32) x => (acc <<< 8) ||| x.toUInt32) 0
      let o1 := 24 + eSize
      .ok ({ rk with exponent := e, modulus := (value.drop o1).take mSize,
                     prime1 := (value.drop (o1 + mSize)).take p1Size,
                     prime2 := (value.drop (o1 + mSize + p1Size)).take p2Size }, false)

/-! ## custom key information (`key/CustomKeyInformation.go`) -/

structure CKI where
  version : Nat := 0
  flags : UInt8 := 0
  volumeType : UInt8 := 0
  supportsNotification : Bool := false
  fekKeyVersion : UInt8 := 0
  strength : UInt32 := 0
  reserved : Bytes := []
  extended : Bytes := []
  rawBytes : Bytes := []
  rawBytesSize : Nat := 0
  deriving DecidableEq, Repr, Inhabited

/-- `CustomKeyInformation.FromBytes` (the reading ladder: 2, 3, 4, 5, 9, 19, >19).  No slice or index
    is reached without its guard.  Result: mutated receiver, and whether an error was returned. -/
def CKI.fromBytes (c : CKI) (blob : Bytes) : CKI × Bool :=
  let n := blob.length
  let c := { c with rawBytes := blob, rawBytesSize := n }
  match blob with
  | v :: f :: rest =>
    let c := { c with version := v.toNat }
    if v != 1 then (c, true)
    else
      let c := { c with flags := f }
      if n < 3 then (c, false) else
      let c := { c with volumeType := blob.getD 2 0 }
      if n < 4 then (c, false) else
      let c := { c with supportsNotification := blob.getD 3 0 != 0 }
      if n < 5 then (c, false) else
      let c := { c with fekKeyVersion := blob.getD 4 0 }
      if n < 9 then (c, false) else
      let c := { c with strength := le32At blob 5 }
      if n < 19 then (c, false) else
      let c := { c with reserved := (blob.drop 9).take 10 }
      if n ≤ 19 then (c, false) else
      ({ c with extended := rest.drop 17 }, false)
  | _ => (c, true)

/-- `CustomKeyInformation.ToBytes` (after `fixes/C14-cki-ladder.diff`: version and flags always,
    the optional fields on the same thresholds as `FromBytes`) -/
def CKI.toBytes (c : CKI) : Bytes :=
  [UInt8.ofNat c.version, c.flags] ++
  (if c.rawBytesSize ≥ 3 then [c.volumeType] else []) ++
  (if c.rawBytesSize ≥ 4 then [if c.supportsNotification then 1 else 0] else []) ++
  (if c.rawBytesSize ≥ 5 then [c.fekKeyVersion] else []) ++
  (if c.rawBytesSize ≥ 9 then putLe32 c.strength else []) ++
  (if c.rawBytesSize ≥ 19 then c.reserved else []) ++
  (if c.rawBytesSize > 19 then c.extended else [])

/-! ## identifiers and times (`utils/utils.go`) -/

def isHexVersion (v : UInt32) : Bool := v == 0 || v == 0x100

/-- `ConvertFromBinaryIdentifier`: hex for versions 0 and 1, padded base64 for every other value -/
def fromBinaryId (d : Bytes) (v : UInt32) : Bytes :=
  if isHexVersion v then hexEncode d else b64Encode d

/-- `ConvertToBinaryIdentifier` (after `fixes/C14-identifier-base64-padding.diff`) -/
def toBinaryId (s : Bytes) (v : UInt32) : Option Bytes :=
  if isHexVersion v then hexDecode s else b64DecodeRaw (trimRightEq s)

/-- `ConvertFromBinaryTime(..).Ticks`: fewer than 8 bytes read as tick 0 (after
    `fixes/C07-keycredential-binarytime-short.diff`).
    A non-zero stamp goes through `NewDateTime`, whose `Ticks` is the stamp; a zero stamp stays zero
    (after `fixes/C14-zero-timestamp.diff`).  The `time.Time` half of `DateTime` is C15's. -/
def readTicks (d : Bytes) : Outcome UInt64 :=
  match d with
  | b0 :: b1 :: b2 :: b3 :: b4 :: b5 :: b6 :: b7 :: _ => .ok (le64 b0 b1 b2 b3 b4 b5 b6 b7)
  | _ => .ok 0

/-- `KeyCredentialVersion.FromBytes`: the value and `RawBytesSize`; fewer than 4 bytes read nothing
    (value 0, size 0; after `fixes/C07-keycredential-fixed-width-readers.diff`) -/
def versionFromBytes (b : Bytes) : UInt32 × Nat :=
  match b with
  | v0 :: v1 :: v2 :: v3 :: _ => (le32 v0 v1 v2 v3, 4)
  | _ => (0, 0)

/-! ## the key credential (`KeyCredential.go`) -/

structure KeyCredential where
  version : UInt32 := 0
  identifier : Bytes := []
  keyHash : Bytes := []
  material : RSAKeyMaterial := {}
  usage : UInt8 := 0
  legacyUsage : Bytes := []
  source : UInt8 := 0
  cki : CKI := {}
  deviceId : Guid := ⟨0, 0, 0, 0, 0⟩
  lastLogon : UInt64 := 0
  creation : UInt64 := 0
  /-- internal `RawBytes` -/
  rawBytes : Bytes := []
  deriving DecidableEq, Repr, Inhabited

/-- `writeEntry`: `uint16(len(data))` little-endian, the entry type, the data -/
def writeEntry (t : UInt8) (data : Bytes) : Bytes :=
  putLe16 (UInt16.ofNat data.length) ++ [t] ++ data

/-- everything `ToBytes` writes after the KeyHash entry -/
def KeyCredential.tailBytes (k : KeyCredential) : Bytes :=
  writeEntry 3 k.material.toBytes ++
  writeEntry 4 [k.usage] ++
  (if k.legacyUsage.length > 0 then writeEntry 4 k.legacyUsage else []) ++
  writeEntry 5 [k.source] ++
  writeEntry 6 k.deviceId.toBytes ++
  (if k.cki.toBytes.length > 0 then writeEntry 7 k.cki.toBytes else []) ++
  writeEntry 8 (putLe64 k.lastLogon) ++
  writeEntry 9 (putLe64 k.creation)

/-- `KeyCredential.ToBytes`: version; KeyID if the identifier is not empty (error if it does not
    convert); KeyHash (32 zero bytes when the field is empty); KeyMaterial; KeyUsage; a second
    KeyUsage entry for a legacy usage string; KeySource; DeviceId; CustomKeyInformation; the two times -/
def KeyCredential.toBytes (k : KeyCredential) : Outcome Bytes :=
  let idPart : Outcome Bytes :=
    if k.identifier.length > 0 then
      match toBinaryId k.identifier k.version with
      | some b => .ok (writeEntry 1 b)
      | none => .err
    else .ok []
  match idPart with
  | .ok idp =>
    .ok (putLe32 k.version ++ idp ++
      writeEntry 2 (if k.keyHash.length > 0 then k.keyHash else List.replicate 32 0) ++ k.tailBytes)
  | .err => .err
  | .panic => .panic

/-- the `switch entryType.Value` of `FromBytes`; `extra` is what follows the entry in the blob.
    After `fixes/C07-keycredential-frombytes-bounds.diff`: an error of `RSAKeyMaterial.FromBytes` is
    returned; an empty KeySource entry, a DeviceId entry under 16 bytes and a time entry under 8 bytes
    are errors (before the helpers are reached). -/
def applyEntry (k : KeyCredential) (t : UInt8) (data extra : Bytes) : Outcome KeyCredential :=
  if t = 1 then .ok { k with identifier := fromBinaryId data k.version }
  else if t = 2 then .ok { k with keyHash := data }
  else if t = 3 then
    match k.material.fromBytes data extra with
    | .ok (m, false) => .ok { k with material := m }
    | .ok (_, true) => .err
    | .err => .err
    | .panic => .panic
  else if t = 4 then
    match data with
    | [u] => .ok { k with usage := u }
    | _ => .ok { k with legacyUsage := data }
  else if t = 5 then
    match data with
    | s :: _ => .ok { k with source := s }
    | [] => .err
  else if t = 6 then
    if data.length < 16 then .err else
    match Guid.fromRawBytes data with
    | .ok g => .ok { k with deviceId := g }
    | .err => .err
    | .panic => .panic
  else if t = 7 then .ok { k with cki := (k.cki.fromBytes data).1 }
  else if t = 8 then
    if data.length < 8 then .err else
    match readTicks data with
    | .ok x => .ok { k with lastLogon := x }
    | .err => .err
    | .panic => .panic
  else if t = 9 then
    if data.length < 8 then .err else
    match readTicks data with
    | .ok x => .ok { k with creation := x }
    | .err => .err
    | .panic => .panic
  else .ok k

/-- the loop `for len(remainder) > 3 { … }` of `FromBytes` -/
def parseLoop (k : KeyCredential) (rem : Bytes) : Outcome KeyCredential :=
  match rem with
  | l0 :: l1 :: t :: x :: rest' =>
    let rest := x :: rest'
    let n := (le16 l0 l1).toNat
    if n > rest.length then .err              -- "entry … announces n bytes, … are left"
    else
      match applyEntry k t (rest.take n) (rest.drop n) with
      | .ok k' => parseLoop k' (rest.drop n)
      | .err => .err
      | .panic => .panic
  | _ => .ok k
termination_by rem.length
decreasing_by simp [List.length_drop]; omega

/-- `KeyCredential.FromBytes` on a receiver `k` (the callers use the zero value) -/
def KeyCredential.fromBytes (k : KeyCredential) (b : Bytes) : Outcome KeyCredential :=
  match b with
  | v0 :: v1 :: v2 :: v3 :: rest =>
    parseLoop { k with rawBytes := b, version := le32 v0 v1 v2 v3 } rest
  | _ => .err                                  -- "blob too short for its version field"

/-- the loop of `ComputeKeyHash`: after every KeyHash-typed entry, everything that follows it is
    appended to `data` -/
def hashLoop (rem data : Bytes) : Outcome Bytes :=
  match rem with
  | l0 :: l1 :: t :: x :: rest' =>
    let rest := x :: rest'
    let n := (le16 l0 l1).toNat
    if n > rest.length then .ok data          -- `break` (fixes/C07-keycredential-keyhash-walk.diff)
    else hashLoop (rest.drop n) (if t = 2 then data ++ rest.drop n else data)
  | _ => .ok data
termination_by rem.length
decreasing_by simp [List.length_drop]; omega

/-- the part of `ComputeKeyHash` before the hash call: the (possibly refreshed) receiver and the
    bytes to hash; `none` = `ToBytes` failed and the method returns nil -/
def hashInput (k : KeyCredential) : Outcome (KeyCredential × Option Bytes) :=
  let refreshed : Outcome (Option KeyCredential) :=
    if k.rawBytes.length < 4 then
      match k.toBytes with
      | .ok rb => .ok (some { k with rawBytes := rb })
      | .err => .ok none
      | .panic => .panic
    else .ok (some k)
  match refreshed with
  | .ok (some k') =>
    match sliceFrom k'.rawBytes 4 with
    | .ok rem =>
      match hashLoop rem [] with
      | .ok data => .ok (k', some data)
      | .err => .err
      | .panic => .panic
    | .err => .err
    | .panic => .panic
  | .ok none => .ok (k, none)
  | .err => .err
  | .panic => .panic

/-- `ComputeKeyHash`: the hash, and the receiver (whose `RawBytes` may have been refreshed) -/
def computeKeyHashA (k : KeyCredential) : Ask (Outcome (Bytes × KeyCredential)) :=
  match hashInput k with
  | .ok (k', some data) => .ask data (fun h => .done (.ok (h, k')))
  | .ok (k', none) => .done (.ok ([], k'))
  | .err => .done .err
  | .panic => .done .panic

/-- `CheckIntegrity`: equal lengths and equal bytes -/
def checkIntegrityA (k : KeyCredential) : Ask (Outcome (Bool × KeyCredential)) := do
  match ← computeKeyHashA k with
  | .ok (h, k') => pure (.ok (h == k'.keyHash, k'))
  | .err => pure .err
  | .panic => pure .panic

/-- `NewKeyCredential`: usage NGC, source AD, custom key information version 1 / flags 0, then
    `kc.KeyHash = kc.ComputeKeyHash()` -/
def newKeyCredentialA (version : UInt32) (identifier : Bytes) (material : RSAKeyMaterial)
    (deviceId : Guid) (lastLogon creation : UInt64) : Ask (Outcome KeyCredential) := do
  let k : KeyCredential :=
    { version := version, identifier := identifier, keyHash := [], material := material,
      usage := 1, legacyUsage := [], source := 0, cki := { version := 1, flags := 0 },
      deviceId := deviceId, lastLogon := lastLogon, creation := creation, rawBytes := [] }
  match ← computeKeyHashA k with
  | .ok (h, k') => pure (.ok { k' with keyHash := h })
  | .err => pure .err
  | .panic => pure .panic

def computeKeyHash (H : Bytes → Bytes) (k : KeyCredential) := (computeKeyHashA k).run H
def checkIntegrity (H : Bytes → Bytes) (k : KeyCredential) := (checkIntegrityA k).run H
def newKeyCredential (H : Bytes → Bytes) (version : UInt32) (identifier : Bytes) (material : RSAKeyMaterial)
    (deviceId : Guid) (lastLogon creation : UInt64) :=
  (newKeyCredentialA version identifier material deviceId lastLogon creation).run H

/-- the fields the property speaks about (everything but the internal `RawBytes` copies) -/
structure Fields where
  version : UInt32
  identifier : Bytes
  keyHash : Bytes
  keySize : UInt32
  exponent : UInt32
  modulus : Bytes
  prime1 : Bytes
  prime2 : Bytes
  usage : UInt8
  legacyUsage : Bytes
  source : UInt8
  ckiVersion : Nat
  ckiFlags : UInt8
  deviceId : Guid
  lastLogon : UInt64
  creation : UInt64
  deriving DecidableEq, Repr

def KeyCredential.fields (k : KeyCredential) : Fields :=
  { version := k.version, identifier := k.identifier, keyHash := k.keyHash,
    keySize := k.material.keySize, exponent := k.material.exponent, modulus := k.material.modulus,
    prime1 := k.material.prime1, prime2 := k.material.prime2, usage := k.usage,
    legacyUsage := k.legacyUsage, source := k.source, ckiVersion := k.cki.version,
    ckiFlags := k.cki.flags, deviceId := k.deviceId, lastLogon := k.lastLogon, creation := k.creation }

/-! ## vocabulary for the tampering clause -/

/-- the identifiers of the entries that the loop of `FromBytes` / `ComputeKeyHash` meets in `rem`
    (the walk stops at the first entry whose declared length exceeds what is left) -/
def walkTypes (rem : Bytes) : List UInt8 :=
  match rem with
  | l0 :: l1 :: t :: x :: rest' =>
    let rest := x :: rest'
    let n := (le16 l0 l1).toNat
    if n > rest.length then [] else t :: walkTypes (rest.drop n)
  | _ => []
termination_by rem.length
decreasing_by simp [List.length_drop]; omega

/-- no entry met in `c` claims to be a KeyHash entry -/
def hashFree (c : Bytes) : Bool := !(walkTypes c).contains 2

/-- flip bit `i` (bit `i % 8` of byte `i / 8`); out of range: unchanged -/
def flipBit : Bytes → Nat → Bytes
  | [], _ => []
  | x :: xs, i => if i < 8 then (x ^^^ (1 <<< UInt8.ofNat i)) :: xs else x :: flipBit xs (i - 8)

/-- the domain of the round-trip clauses: the binary identifier and the key material fit the 16-bit
    entry length (`writeEntry` truncates `len(data)` to uint16), and the GUID is a 128-bit value (the
    Go struct keeps its last 48 bits in a uint64) -/
structure Fits (idb : Bytes) (m : RSAKeyMaterial) (g : Guid) : Prop where
  id : idb.length ≤ 65535
  mat : 28 + m.modulus.length + m.prime1.length + m.prime2.length ≤ 65535
  guid : g.e.toNat < 2 ^ 48

/-- SHA-256 digests are 32 bytes long (the only fact about `H` the round-trip clauses use) -/
def HashLen32 (H : Bytes → Bytes) : Prop := ∀ x, (H x).length = 32

/-- the verdict of `CheckIntegrity` -/
def integrityOk (H : Bytes → Bytes) (k : KeyCredential) : Outcome Bool :=
  match checkIntegrity H k with
  | .ok (b, _) => .ok b
  | .err => .err
  | .panic => .panic

/-- a pair of distinct messages with the same digest -/
def Collision (H : Bytes → Bytes) : Prop := ∃ x y, x ≠ y ∧ H x = H y
/-- a message that contains its own digest as a contiguous part -/
def SelfContained (H : Bytes → Bytes) : Prop := ∃ d, H d <:+: d

/-! ## DN-with-binary (`DNWithBinary.go`) -/

def colon : UInt8 := 58

/-- split at the first `:` -/
def splitColon : Bytes → Option (Bytes × Bytes)
  | [] => none
  | c :: r =>
    if c = colon then some ([], r)
    else match splitColon r with
      | some (a, b) => some (c :: a, b)
      | none => none

/-- `DNWithBinary.ToString`: `B:` + `%d` of twice the byte count + `:` + hex + `:` + the DN -/
def dnToString (bin dn : Bytes) : Bytes :=
  [66, colon] ++ dec (bin.length * 2) ++ [colon] ++ hexEncode bin ++ [colon] ++ dn

/-- `DNWithBinary.Parse` (after `fixes/C14-dn-colon.diff`: `bytes.SplitN(raw, ":", 4)`): the first
    part is not inspected; the size must be an `Atoi` integer equal to twice the decoded length -/
def dnParse (raw : Bytes) : Outcome (Bytes × Bytes) :=
  match splitColon raw with
  | some (_, r1) =>
    match splitColon r1 with
    | some (p1, r2) =>
      match splitColon r2 with
      | some (p2, p3) =>
        match atoi p1 with
        | some size =>
          match hexDecode p2 with
          | some bin => if ((bin.length * 2 : Nat) : Int) ≠ size then .err else .ok (bin, p3)
          | none => .err
        | none => .err
      | none => .err
    | none => .err
  | none => .err

/-! ## Specification -/
namespace Spec

/-- KEYCREDENTIALLINK_ENTRY: `Length` (uint16, little-endian, of `Value`), `Identifier`, `Value` -/
structure Entry where
  id : UInt8
  value : Bytes
  deriving DecidableEq, Repr

def entryBytes (e : Entry) : Bytes := natLe 2 e.value.length ++ [e.id] ++ e.value

/-- KEYCREDENTIALLINK_BLOB: `Version` (uint32 little-endian) followed by the entries -/
def blob (version : Nat) (es : List Entry) : Bytes := natLe 4 version ++ es.flatMap entryBytes

/-- strict reading of an entry sequence: every entry complete, nothing left over -/
def parseEntries (b : Bytes) : Option (List Entry) :=
  match b with
  | [] => some []
  | l0 :: l1 :: t :: rest =>
    let n := l0.toNat + 256 * l1.toNat
    if n ≤ rest.length then
      match parseEntries (rest.drop n) with
      | some es => some (⟨t, rest.take n⟩ :: es)
      | none => none
    else none
  | _ => none
termination_by b.length
decreasing_by simp [List.length_drop]; omega

/-- BCRYPT_RSAKEY_BLOB of a public key (+ optional primes): Magic "RSA1", BitLength, cbPublicExp,
    cbModulus, cbPrime1, cbPrime2 (all uint32 little-endian), then PublicExponent (big-endian,
    `ew` bytes), Modulus, Prime1, Prime2 -/
def bcryptRsaBlob (bitLength ew exponent : Nat) (modulus prime1 prime2 : Bytes) : Bytes :=
  [0x52, 0x53, 0x41, 0x31] ++ natLe 4 bitLength ++ natLe 4 ew ++ natLe 4 modulus.length ++
    natLe 4 prime1.length ++ natLe 4 prime2.length ++ natBe ew exponent ++ modulus ++ prime1 ++ prime2

/-- MS-DTYP 2.3.4.2 GUID packet: Data1 (4, LE), Data2 (2, LE), Data3 (2, LE), Data4 (8 bytes);
    here Data4 is given as the 16-bit `d` and 48-bit `e` the library keeps, most significant first -/
def guidPacket (a b c d e : Nat) : Bytes := natLe 4 a ++ natLe 2 b ++ natLe 2 c ++ natBe 2 d ++ natBe 6 e

/-- entry identifiers (MS-ADTS 2.2.20.6) -/
def idKeyID : UInt8 := 1
def idKeyHash : UInt8 := 2
def idKeyMaterial : UInt8 := 3
def idKeyUsage : UInt8 := 4
def idKeySource : UInt8 := 5
def idDeviceId : UInt8 := 6
def idCustomKeyInformation : UInt8 := 7
def idLastLogon : UInt8 := 8
def idCreation : UInt8 := 9

/-- what a freshly built credential consists of, in the standard's terms -/
structure Cred where
  version : Nat
  keyId : Bytes                 -- binary identifier; empty = no KeyID entry
  bitLength : Nat
  exponent : Nat
  modulus : Bytes
  prime1 : Bytes
  prime2 : Bytes
  deviceId : Bytes              -- 16-byte GUID packet
  lastLogon : Nat
  creation : Nat

/-- the entries that follow KeyHash, in ascending identifier order: KeyMaterial, KeyUsage = NGC (1),
    KeySource = AD (0), DeviceId, CustomKeyInformation (version 1, flags 0), the two FILETIME-style
    stamps as uint64 little-endian -/
def Cred.covered (c : Cred) : List Entry :=
  [⟨idKeyMaterial, bcryptRsaBlob c.bitLength 4 c.exponent c.modulus c.prime1 c.prime2⟩,
   ⟨idKeyUsage, [1]⟩, ⟨idKeySource, [0]⟩, ⟨idDeviceId, c.deviceId⟩,
   ⟨idCustomKeyInformation, [1, 0]⟩,
   ⟨idLastLogon, natLe 8 c.lastLogon⟩, ⟨idCreation, natLe 8 c.creation⟩]

/-- the blob: KeyID (if any), KeyHash = `H` of the bytes of all entries that follow it, then those -/
def Cred.encode (H : Bytes → Bytes) (c : Cred) : Bytes :=
  blob c.version ((if c.keyId.isEmpty then [] else [⟨idKeyID, c.keyId⟩]) ++
    [⟨idKeyHash, H (c.covered.flatMap entryBytes)⟩] ++ c.covered)

/-- Object(DN-Binary): `B:<number of hex characters>:<hex>:<dn>` -/
def dnBinary (bin dn : Bytes) : Bytes :=
  [66, 58] ++ dec (2 * bin.length) ++ [58] ++ hexEncode bin ++ [58] ++ dn

end Spec

end Manticore.C14
