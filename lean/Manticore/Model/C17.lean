/-
  C17 — NBNS name table (`network/netbios/nbtns/nbtns.go`).

  * `step`   : value-level model of the six methods of `NetBIOSNameServer` (each method runs under
               `mu.Lock`/`mu.RLock`, so one call = one atomic step; that atomicity is justified by the
               extracted lock facts `Gen/NbtnsLocks.lean` + the contract of `sync.RWMutex`).
  * `hstep`  : the same methods on a heap of backing arrays: `record.Owners` is a Go slice
               (array identity + length), `append` writes in place when capacity allows, the group
               release `append(Owners[:i], Owners[i+1:]...)` shifts in place, `QueryName` allocates a
               fresh array and copies.  Used for `query_result_is_copy` and by the driver.
  * `Spec`   : what the property says — an atomic map  name ↦ (type, active?, finite set of owners).

  Time is abstracted to one bit per registration: "is `now + ttl` already in the past?"
  (`ttlPast`; the harness uses TTLs of ±1 h so the wall clock never decides).
  Names and addresses are `Nat` (an address stands for a class of `net.IP.Equal`).
  Core Lean only.
-/
import Manticore.Basic
namespace Manticore.C17

inductive NameType | unique | group
  deriving DecidableEq, Repr, Inhabited
inductive Status | active | conflict | releasing
  deriving DecidableEq, Repr, Inhabited

abbrev IP := Nat
abbrev Name := Nat

/-- the operations of the table; `ttlPast` = the sign of the `ttl` argument of `RegisterName` -/
inductive Op
  | register (name : Name) (t : NameType) (owner : IP) (ttlPast : Bool)
  | query (name : Name)
  | release (name : Name) (owner : IP)
  | refresh (name : Name) (owner : IP)
  | markConflict (name : Name)
  | clean
  deriving DecidableEq, Repr, Inhabited

/-! ## 1. value-level model -/

structure Rec where
  type : NameType
  status : Status
  owners : List IP           -- `Owners []net.IP`, in slice order
  expired : Bool             -- `time.Now().After(TTL)` from now on
  refreshExpired : Bool      -- sign of `RefreshInterval`
  deriving DecidableEq, Repr

/-- `names map[string]*NameRecord` as an association list (at most one entry per name, see `Inv`) -/
abbrev State := List (Name × Rec)

def lookup : State → Name → Option Rec
  | [], _ => none
  | (m, r) :: s, n => if m = n then some r else lookup s n
def erase (s : State) (n : Name) : State := s.filter (fun p => decide (p.1 ≠ n))
def put (s : State) (n : Name) (r : Rec) : State := (n, r) :: erase s n

/-- result of a method call: `nil` error / non-nil error / run-time panic / `QueryName`'s pair -/
inductive Out
  | ok | err | panic
  | owners (l : List IP) (t : NameType)
  deriving DecidableEq, Repr, Inhabited

def init : State := []

/-- transliteration of nbtns.go, one locked method = one step -/
def step (s : State) : Op → State × Out
  | .register n t o past =>
    match lookup s n with
    | some r =>
      if r.type = .group ∧ t = .group then
        if r.owners.contains o then (s, .ok)                     -- "Already registered"
        else (put s n { r with owners := r.owners ++ [o], expired := past }, .ok)
      else if r.type = .unique ∨ t = .unique then (s, .err)       -- "name conflict"
      else (put s n ⟨t, .active, [o], past, past⟩, .ok)           -- (dead with two name types)
    | none => (put s n ⟨t, .active, [o], past, past⟩, .ok)
  | .query n =>
    match lookup s n with
    | some r => if r.status = .active then (s, .owners r.owners r.type) else (s, .err)
    | none => (s, .err)
  | .release n o =>
    match lookup s n with
    | none => (s, .err)
    | some r =>
      if r.type = .group then
        if r.owners.contains o then
          let os := r.owners.erase o
          if os.isEmpty then (erase s n, .ok) else (put s n { r with owners := os }, .ok)
        else (s, .err)
      else
        match r.owners with
        | o' :: _ => if o' = o then (erase s n, .ok) else (s, .err)
        | [] => (s, .panic)                                      -- `record.Owners[0]` on an empty slice
  | .refresh n o =>
    match lookup s n with
    | none => (s, .err)
    | some r =>
      if r.owners.contains o then (put s n { r with expired := r.refreshExpired }, .ok) else (s, .err)
  | .markConflict n =>
    match lookup s n with
    | none => (s, .err)
    | some r => (put s n { r with status := .conflict }, .ok)
  | .clean => (s.filter (fun p => !p.2.expired), .ok)

def run (s : State) (ops : List Op) : State := ops.foldl (fun s op => (step s op).1) s

/-- the results of a history, in order -/
def outputs : State → List Op → List Out
  | _, [] => []
  | s, op :: ops => (step s op).2 :: outputs (step s op).1 ops

/-- the name a call is about (`CleanExpiredNames` sweeps all) -/
def Op.target : Op → Option Name
  | .register n _ _ _ => some n
  | .query n => some n
  | .release n _ => some n
  | .refresh n _ => some n
  | .markConflict n => some n
  | .clean => none

/-- ownership invariant of one record: some owner; owners pairwise distinct; a unique name has exactly one -/
def RecOk (r : Rec) : Prop :=
  r.owners ≠ [] ∧ r.owners.Nodup ∧ (r.type = .unique → r.owners.length = 1)

/-- invariant of the table: one record per name, every record `RecOk` -/
def Inv (s : State) : Prop := (s.map (·.1)).Nodup ∧ ∀ p ∈ s, RecOk p.2

/-- address `a` currently holds name `m` -/
def Holds (s : State) (m : Name) (a : IP) : Prop := ∃ r, lookup s m = some r ∧ a ∈ r.owners

/-! ## 2. heap-level model: `Owners` as a Go slice -/

/-- a Go slice of `net.IP` with offset 0: backing array identity and length (capacity = array size) -/
structure Slice where
  arr : Nat
  len : Nat
  deriving DecidableEq, Repr

/-- all backing arrays ever allocated, by identity -/
abbrev Heap := List (List IP)

def Heap.read (h : Heap) (sl : Slice) : List IP := (h[sl.arr]?.getD []).take sl.len

/-- `make` + fill: a fresh array holding exactly `c` -/
def Heap.alloc (h : Heap) (c : List IP) : Heap × Slice := (h ++ [c], ⟨h.length, c.length⟩)

/-- capacity chosen by `append` when it must grow (Go doubles small slices); unobservable -/
def growCap (n : Nat) : Nat := max (2 * n) 1

/-- `append(sl, x)`: in place if `len < cap`, otherwise a new array with the old contents -/
def Heap.append (h : Heap) (sl : Slice) (x : IP) : Heap × Slice :=
  let a := h[sl.arr]?.getD []
  if sl.len < a.length then (h.set sl.arr (a.set sl.len x), ⟨sl.arr, sl.len + 1⟩)
  else (h ++ [a.take sl.len ++ [x] ++ List.replicate (growCap sl.len - sl.len - 1) 0], ⟨h.length, sl.len + 1⟩)

/-- `append(sl[:i], sl[i+1:]...)` where `i` is the first index holding `o`: the tail is shifted
    left in place; the last slot keeps its old value; the slice gets one shorter -/
def Heap.removeFirst (h : Heap) (sl : Slice) (o : IP) : Heap × Slice :=
  let a := h[sl.arr]?.getD []
  let c := a.take sl.len
  (h.set sl.arr (c.erase o ++ c.drop (sl.len - 1) ++ a.drop sl.len), ⟨sl.arr, sl.len - 1⟩)

structure HRec where
  type : NameType
  status : Status
  owners : Slice
  expired : Bool
  refreshExpired : Bool
  deriving DecidableEq, Repr

structure HState where
  names : List (Name × HRec)
  heap : Heap
  deriving Repr

def hlookup : List (Name × HRec) → Name → Option HRec
  | [], _ => none
  | (m, r) :: s, n => if m = n then some r else hlookup s n
def herase (s : List (Name × HRec)) (n : Name) : List (Name × HRec) := s.filter (fun p => decide (p.1 ≠ n))
def hput (s : List (Name × HRec)) (n : Name) (r : HRec) : List (Name × HRec) := (n, r) :: herase s n

inductive HOut
  | ok | err | panic
  | owners (sl : Slice) (t : NameType)
  deriving DecidableEq, Repr, Inhabited

def hinit : HState := ⟨[], []⟩

/-- the methods on the heap.  `copyOnQuery` is what `QueryName` does with `record.Owners`:
    `true` = `make` + `copy` (the code; extracted fact `Gen.NbtnsLocks.queryCopies`),
    `false` = hand out the internal slice (used only to show the copy matters). -/
def hstep (copyOnQuery : Bool) (s : HState) : Op → HState × HOut
  | .register n t o past =>
    let fresh : HState × HOut :=
      let (h', sl) := s.heap.alloc [o]
      (⟨hput s.names n ⟨t, .active, sl, past, past⟩, h'⟩, .ok)
    match hlookup s.names n with
    | some r =>
      if r.type = .group ∧ t = .group then
        if (s.heap.read r.owners).contains o then (s, .ok)
        else
          let (h', sl) := s.heap.append r.owners o
          (⟨hput s.names n { r with owners := sl, expired := past }, h'⟩, .ok)
      else if r.type = .unique ∨ t = .unique then (s, .err)
      else fresh
    | none => fresh
  | .query n =>
    match hlookup s.names n with
    | some r =>
      if r.status = .active then
        if copyOnQuery then
          let (h', sl) := s.heap.alloc (s.heap.read r.owners)
          (⟨s.names, h'⟩, .owners sl r.type)
        else (s, .owners r.owners r.type)
      else (s, .err)
    | none => (s, .err)
  | .release n o =>
    match hlookup s.names n with
    | none => (s, .err)
    | some r =>
      if r.type = .group then
        if (s.heap.read r.owners).contains o then
          let (h', sl) := s.heap.removeFirst r.owners o
          if sl.len = 0 then (⟨herase s.names n, h'⟩, .ok)
          else (⟨hput s.names n { r with owners := sl }, h'⟩, .ok)
        else (s, .err)
      else
        match s.heap.read r.owners with
        | o' :: _ => if o' = o then (⟨herase s.names n, s.heap⟩, .ok) else (s, .err)
        | [] => (s, .panic)
  | .refresh n o =>
    match hlookup s.names n with
    | none => (s, .err)
    | some r =>
      if (s.heap.read r.owners).contains o then
        (⟨hput s.names n { r with expired := r.refreshExpired }, s.heap⟩, .ok)
      else (s, .err)
  | .markConflict n =>
    match hlookup s.names n with
    | none => (s, .err)
    | some r => (⟨hput s.names n { r with status := .conflict }, s.heap⟩, .ok)
  | .clean => (⟨s.names.filter (fun p => !p.2.expired), s.heap⟩, .ok)

def hrun (c : Bool) (s : HState) (ops : List Op) : HState := ops.foldl (fun s op => (hstep c s op).1) s

def houtputs (c : Bool) : HState → List Op → List HOut
  | _, [] => []
  | s, op :: ops => (hstep c s op).2 :: houtputs c (hstep c s op).1 ops

/-- what a heap state denotes at value level: every slice read through the heap -/
def viewRec (h : Heap) (r : HRec) : Rec := ⟨r.type, r.status, h.read r.owners, r.expired, r.refreshExpired⟩
def view (s : HState) : State := s.names.map (fun p => (p.1, viewRec s.heap p.2))
def viewOut (h : Heap) : HOut → Out
  | .ok => .ok | .err => .err | .panic => .panic
  | .owners sl t => .owners (h.read sl) t

/-- heap well-formedness: every record's slice lies inside its own, unshared backing array -/
def WF (s : HState) : Prop :=
  (∀ p ∈ s.names, ∀ q ∈ s.names, p.2.owners.arr = q.2.owners.arr → p = q) ∧
  ∀ p ∈ s.names, p.2.owners.arr < s.heap.length ∧ p.2.owners.len ≤ (s.heap[p.2.owners.arr]?.getD []).length

/-! ## 3. specification: an atomic map from names to holdings -/
namespace Spec

/-- a held name: its type, whether it is active, the finite *set* of owners (membership predicate
    and cardinality), and the two abstract clock bits -/
structure Rec where
  type : NameType
  active : Bool
  owners : IP → Bool
  size : Nat
  expired : Bool
  refreshExpired : Bool

abbrev State := Name → Option Rec

inductive Out
  | ok | err
  | owners (set : IP → Bool) (t : NameType)

def init : State := fun _ => none
def update (s : State) (n : Name) (v : Option Rec) : State := fun m => if m = n then v else s m
def single (o : IP) : IP → Bool := fun a => decide (a = o)
def insert (set : IP → Bool) (o : IP) : IP → Bool := fun a => set a || decide (a = o)
def remove (set : IP → Bool) (o : IP) : IP → Bool := fun a => set a && decide (a ≠ o)

def step (s : State) : Op → State × Out
  | .register n t o past =>
    match s n with
    | none => (update s n (some ⟨t, true, single o, 1, past, past⟩), .ok)
    | some r =>
      -- a held name keeps its type; only a group accepts further (distinct) owners
      if r.type = .group ∧ t = .group then
        if r.owners o then (s, .ok)
        else (update s n (some { r with owners := insert r.owners o, size := r.size + 1, expired := past }), .ok)
      else (s, .err)
  | .query n =>
    match s n with
    | some r => if r.active then (s, .owners r.owners r.type) else (s, .err)
    | none => (s, .err)
  | .release n o =>
    match s n with
    | none => (s, .err)
    | some r =>
      if r.owners o then
        if r.size ≤ 1 then (update s n none, .ok)              -- last (or only) owner leaves
        else (update s n (some { r with owners := remove r.owners o, size := r.size - 1 }), .ok)
      else (s, .err)
  | .refresh n o =>
    match s n with
    | none => (s, .err)
    | some r => if r.owners o then (update s n (some { r with expired := r.refreshExpired }), .ok) else (s, .err)
  | .markConflict n =>
    match s n with
    | none => (s, .err)
    | some r => (update s n (some { r with active := false }), .ok)
  | .clean => (fun m => match s m with | some r => if r.expired then none else some r | none => none, .ok)

def run (s : State) (ops : List Op) : State := ops.foldl (fun s op => (step s op).1) s

def outputs : State → List Op → List Out
  | _, [] => []
  | s, op :: ops => (step s op).2 :: outputs (step s op).1 ops

end Spec

/-- abstraction: the table as the spec's atomic map -/
def absRec (r : Rec) : Spec.Rec :=
  ⟨r.type, decide (r.status = .active), fun a => r.owners.contains a, r.owners.length, r.expired, r.refreshExpired⟩
def abs (s : State) : Spec.State := fun n => (lookup s n).map absRec

/-- a model result and a spec result say the same thing (owners compared as a set) -/
def OutRel : Out → Spec.Out → Prop
  | .ok, .ok => True
  | .err, .err => True
  | .owners l t, .owners set t' => t = t' ∧ l.Nodup ∧ ∀ a, l.contains a = set a
  | _, _ => False

/-- result lists related position by position -/
def OutsRel : List Out → List Spec.Out → Prop
  | [], [] => True
  | o :: os, t :: ts => OutRel o t ∧ OutsRel os ts
  | _, _ => False

/-! ## 4. linearizability checker (Wing–Gong search over the sequential model `step`) -/

/-- a completed call: operation, observed result, invocation and response time stamps -/
structure Ev where
  op : Op
  out : Out
  inv : Nat
  res : Nat
  deriving DecidableEq, Repr

/-- all ways of taking one element out of a list -/
def picks {α} : List α → List (α × List α)
  | [] => []
  | x :: xs => (x, xs) :: (picks xs).map (fun p => (p.1, x :: p.2))

/-- `e` may be linearized first: no other pending call returned before `e` was invoked -/
def minimal (e : Ev) (rest : List Ev) : Bool := rest.all (fun f => !(decide (f.res < e.inv)))

def search : Nat → State → List Ev → Bool
  | 0, _, evs => evs.isEmpty
  | k + 1, s, evs =>
    evs.isEmpty ||
    (picks evs).any (fun p =>
      minimal p.1 p.2 && decide ((step s p.1.op).2 = p.1.out) && search k (step s p.1.op).1 p.2)

/-- is the recorded concurrent history explained by some sequential order of its calls that
    respects real time? -/
def linz (evs : List Ev) : Bool := search evs.length init evs

/-- Herlihy–Wing linearizability of a complete history w.r.t. the sequential model `step`:
    some ordering of all calls respects real time (a call that returned before another was invoked
    is not placed after it) and, run sequentially from the empty table, yields exactly the observed results. -/
def Linearizable (evs : List Ev) : Prop :=
  ∃ order : List Ev, order.Perm evs ∧
    order.Pairwise (fun e f => ¬ f.res < e.inv) ∧
    outputs init (order.map (·.op)) = order.map (·.out)

end Manticore.C17
