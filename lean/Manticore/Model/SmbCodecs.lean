/-
  Codecs of the nested wire types used inside SMB commands, in the flattened `Tup` form
  (numbers and byte strings in declaration order).  Each follows the Go `Marshal`/`Unmarshal` of the
  type as it is.
-/
import Manticore.Model.SmbIR
namespace Manticore.SmbCodecs
open Manticore Manticore.SmbIR

def encBytes (typ : String) (v : Tup) : Outcome Bytes :=
  match typ, v with
  | "FILETIME", ([lo, hi], []) => .ok (natLe 4 lo ++ natLe 4 hi)
  | "SMB_TIME", ([lo, hi], []) => .ok (natLe 4 lo ++ natLe 4 hi)
  | "SMB_DATE", ([y, m, d], []) =>
    -- value := (Year-1980)<<9 | uint16(Month)<<5 | uint16(Day), all in uint16
    let vy := ((y + 65536 - 1980) % 65536 * 512) % 65536
    .ok (natLe 2 (vy ||| (m * 32) ||| d))
  | "SMB_FILE_ATTRIBUTES", ([a], []) => .ok (natBe 2 a)
  | "SMB_NMPIPE_STATUS", ([i, f], []) => .ok [UInt8.ofNat i, UInt8.ofNat f]
  | "LOCKING_ANDX_RANGE64", ([p, pad, oh, ol, lh, ll], []) =>
    .ok (natLe 2 p ++ natLe 2 pad ++ natLe 4 oh ++ natLe 4 ol ++ natLe 4 lh ++ natLe 4 ll)
  | _, _ => .err

def dec (typ : String) (b : Bytes) : Outcome (Tup × Nat) :=
  match typ with
  | "SMB_DATE" =>
    if b.length < 2 then .err else
    let v := leNat (b.take 2)
    .ok (([((v &&& 0xFE00) >>> 9) + 1980, (v &&& 0x01E0) >>> 5, v &&& 0x001F], []), 2)
  | "SMB_FILE_ATTRIBUTES" =>
    -- binary.BigEndian.Uint16(data): panics when fewer than two bytes
    if b.length < 2 then .panic else .ok (([beNat (b.take 2)], []), 2)
  | "SMB_NMPIPE_STATUS" =>
    match b with
    | [i, f] => .ok (([i.toNat, f.toNat], []), 2)
    | _ => .err
  | "LOCKING_ANDX_RANGE64" =>
    if b.length < 20 then .err else
    let g (o w : Nat) := leNat ((b.drop o).take w)
    .ok (([g 0 2, g 2 2, g 4 4, g 8 4, g 12 4, g 16 4], []), 20)
  | _ => .err

def setFmt (k : Nat) (v : Tup) : Tup :=
  match v with
  | (_ :: rest, bs) => (k :: rest, bs)
  | _ => v

def enc (typ : String) (v : Tup) : Outcome (Bytes × Tup) := (encBytes typ v).map' (fun b => (b, v))

def std : Codecs := { enc := enc, dec := dec, setFmt := setFmt }

end Manticore.SmbCodecs
