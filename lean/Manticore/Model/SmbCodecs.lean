/-
  Codecs of the nested wire types used inside SMB commands, in the flattened `Tup` form of the
  command IR (numbers and byte strings in declaration order, nested structs flattened depth-first —
  the same walk `tools/harness/smb.go` does by reflection).  They are thin adapters around the C06
  models (`Manticore/Model/C06.lean`), which follow the Go `Marshal`/`Unmarshal` of each type and carry
  the C06 round-trip theorems; `Dialects` (not a C06 type) is modelled here.
-/
import Manticore.Model.SmbIR
import Manticore.Model.C06
namespace Manticore.SmbCodecs
open Manticore Manticore.SmbIR Manticore.C06

def u8 (n : Nat) : UInt8 := UInt8.ofNat n
def u16 (n : Nat) : UInt16 := UInt16.ofNat n
def u32 (n : Nat) : UInt32 := UInt32.ofNat n

/-! ### Tup <-> typed values -/

def strOf : Tup → Option SmbString.V
  | ([f, l], [b]) => some ⟨u8 f, u16 l, b⟩
  | _ => none
def strTo (s : SmbString.V) : Tup := ([s.format.toNat, s.length.toNat], [s.buffer])

def dateOf : Tup → Option SmbDate.V
  | ([y, m, d], []) => some ⟨u16 y, u8 m, u8 d⟩
  | _ => none
def dateTo (d : SmbDate.V) : Tup := ([d.year.toNat, d.month.toNat, d.day.toNat], [])

def timeOf : Tup → Option FileTime.V
  | ([lo, hi], []) => some ⟨u32 lo, u32 hi⟩
  | _ => none
def timeTo (t : FileTime.V) : Tup := ([t.low.toNat, t.high.toNat], [])

def attrOf : Tup → Option FileAttributes.V
  | ([a], []) => some ⟨u16 a⟩
  | _ => none
def attrTo (a : FileAttributes.V) : Tup := ([a.attributes.toNat], [])

def pipeOf : Tup → Option PipeStatus.V
  | ([i, f], []) => some ⟨u8 i, u8 f⟩
  | _ => none
def pipeTo (p : PipeStatus.V) : Tup := ([p.icount.toNat, p.flags.toNat], [])

def r64Of : Tup → Option Range64.V
  | ([p, pad, oh, ol, lh, ll], []) => some ⟨u16 p, u16 pad, u32 oh, u32 ol, u32 lh, u32 ll⟩
  | _ => none
def r64To (r : Range64.V) : Tup :=
  ([r.pid.toNat, r.pad.toNat, r.byteOffsetHigh.toNat, r.byteOffsetLow.toNat, r.lengthInBytesHigh.toNat, r.lengthInBytesLow.toNat], [])

def rkOf : Tup → Option ResumeKey.V
  | ([f, l, r], [b, ss, cs]) => some ⟨⟨u8 f, u16 l, b⟩, u8 r, ss, cs⟩
  | _ => none
def rkTo (r : ResumeKey.V) : Tup :=
  ([r.str.format.toNat, r.str.length.toNat, r.reserved.toNat], [r.str.buffer, r.serverState, r.clientState])

def dirOf : Tup → Option DirInfo.V
  | ([rf, rl, rr, attr, lo, hi, y, m, d, size, nf, nl], [rb, ss, cs, nb]) =>
    some ⟨⟨⟨u8 rf, u16 rl, rb⟩, u8 rr, ss, cs⟩, u8 attr, ⟨u32 lo, u32 hi⟩, ⟨u16 y, u8 m, u8 d⟩, u32 size, ⟨u8 nf, u16 nl, nb⟩⟩
  | _ => none
def dirTo (d : DirInfo.V) : Tup :=
  ([d.resumeKey.str.format.toNat, d.resumeKey.str.length.toNat, d.resumeKey.reserved.toNat, d.fileAttributes.toNat,
    d.lastWriteTime.low.toNat, d.lastWriteTime.high.toNat,
    d.lastWriteDate.year.toNat, d.lastWriteDate.month.toNat, d.lastWriteDate.day.toNat,
    d.fileSize.toNat, d.fileName.format.toNat, d.fileName.length.toNat],
   [d.resumeKey.str.buffer, d.resumeKey.serverState, d.resumeKey.clientState, d.fileName.buffer])

/-! ### Dialects (dialects/dialects.go): a sequence of `02 name 00` entries -/

/-- `Marshal`: each dialect is introduced by its own buffer format byte and NUL-terminated -/
def dialectsEnc (names : List Bytes) : Bytes := names.flatMap (fun n => 2 :: n ++ [0])

/-- `Unmarshal`: loop `for bytesRead < len(data)`: format byte must be 0x02, then scan for the NUL.
    `fuel` is the structural argument (every iteration consumes at least two bytes). -/
def dialectsDecAux : (fuel : Nat) → Bytes → List Bytes → Nat → Outcome (List Bytes × Nat)
  | 0, _, acc, n => .ok (acc, n)
  | fuel+1, rest, acc, n =>
    match rest with
    | [] => .ok (acc, n)
    | f :: body =>
      if f ≠ 2 then .err
      else match nulIndex body with
        | none => .err
        | some i => dialectsDecAux fuel (body.drop (i + 1)) (acc ++ [body.take i]) (n + i + 2)

def dialectsDec (b : Bytes) : Outcome (List Bytes × Nat) := dialectsDecAux (b.length + 1) b [] 0

/-! ### the codec table -/

def lift {α} (of : Tup → Option α) (f : α → Outcome (Bytes × α)) (to : α → Tup) (v : Tup) : Outcome (Bytes × Tup) :=
  match of v with
  | some a => (f a).map' (fun (b, a') => (b, to a'))
  | none => .err

def pure' {α} (enc : α → Outcome Bytes) (a : α) : Outcome (Bytes × α) := (enc a).map' (fun b => (b, a))

def enc (typ : String) (v : Tup) : Outcome (Bytes × Tup) :=
  match typ with
  | "SMB_STRING" => lift strOf SmbString.marshal strTo v
  | "OEM_STRING" => lift strOf OemString.marshal strTo v
  | "SMB_DATE" => lift dateOf (pure' SmbDate.encode) dateTo v
  | "SMB_TIME" => lift timeOf (pure' FileTime.encode) timeTo v
  | "FILETIME" => lift timeOf (pure' FileTime.encode) timeTo v
  | "SMB_FILE_ATTRIBUTES" => lift attrOf (pure' FileAttributes.encode) attrTo v
  | "SMB_NMPIPE_STATUS" => lift pipeOf (pure' PipeStatus.encode) pipeTo v
  | "LOCKING_ANDX_RANGE64" => lift r64Of (pure' Range64.encode) r64To v
  | "SMB_RESUME_KEY" => lift rkOf ResumeKey.marshal rkTo v
  | "SMB_DIRECTORY_INFORMATION" => lift dirOf DirInfo.marshal dirTo v
  | "Dialects" => match v with
    | ([], names) => .ok (dialectsEnc names, v)
    | _ => .err
  | _ => .err

def liftD {α} (d : Bytes → Outcome (α × Nat)) (to : α → Tup) (b : Bytes) : Outcome (Tup × Nat) :=
  (d b).map' (fun (a, n) => (to a, n))

def dec (typ : String) (b : Bytes) : Outcome (Tup × Nat) :=
  match typ with
  | "SMB_STRING" => liftD SmbString.decode strTo b
  | "OEM_STRING" => liftD OemString.decode strTo b
  | "SMB_DATE" => liftD SmbDate.decode dateTo b
  | "SMB_TIME" => liftD FileTime.decode timeTo b
  | "FILETIME" => liftD FileTime.decode timeTo b
  | "SMB_FILE_ATTRIBUTES" => liftD FileAttributes.decode attrTo b
  | "SMB_NMPIPE_STATUS" => liftD PipeStatus.decode pipeTo b
  | "LOCKING_ANDX_RANGE64" => liftD Range64.decode r64To b
  | "SMB_RESUME_KEY" => liftD ResumeKey.decode rkTo b
  | "SMB_DIRECTORY_INFORMATION" => liftD DirInfo.decode dirTo b
  | "Dialects" => (dialectsDec b).map' (fun (names, n) => ((([] : List Nat), names), n))
  | _ => .err

/-- `SetBufferFormat k` on an SMB_STRING-shaped value: the first number is the format -/
def setFmt (k : Nat) (v : Tup) : Tup :=
  match v with
  | (_ :: rest, bs) => (k :: rest, bs)
  | _ => v

/-- what a failing `SMB_STRING.Unmarshal` has assigned before it gives up: `s.BufferFormat = buffer[0]` first; in the
    counted formats 0x01, 0x03, 0x05 with at least three bytes there also `s.Length`; the buffer is untouched.
    (Found by the tie once WriteRequest, the one caller that drops this error, had its data in the data block.) -/
def strDecFail (b : Bytes) (old : Tup) : Tup :=
  match b, old with
  | f :: rest, ([_, l], [buf]) =>
    if f = 1 ∨ f = 3 ∨ f = 5 then
      match rest with
      | l0 :: l1 :: _ => ([f.toNat, l0.toNat + 256 * l1.toNat], [buf])
      | _ => ([f.toNat, l], [buf])
    else ([f.toNat, l], [buf])
  | _, _ => old

/-- partial effect of a failing nested decoder; modelled for `SMB_STRING` (the only type decoded by a caller that drops
    the error where the decoder can fail — the other such call, RenameRequest's attributes through a two-byte window,
    cannot: `C04.rename_request_unchecked_decode_total`); the fixed-size decoders check the length before they assign -/
def decFail (typ : String) (b : Bytes) (old : Tup) : Tup :=
  match typ with
  | "SMB_STRING" => strDecFail b old
  | _ => old

def std : Codecs := { enc := enc, dec := dec, setFmt := setFmt, decFail := decFail }

/-- the nested types whose decoder reads a prefix of its input and leaves the rest alone (all but
    `SMB_NMPIPE_STATUS`, which rejects trailing bytes — finding `nmpipe_trailing` —, `Dialects`, which
    decodes to the end of its input, and `SMB_DIRECTORY_INFORMATION`) -/
def openTypes : List String :=
  ["SMB_STRING", "OEM_STRING", "SMB_DATE", "SMB_TIME", "FILETIME", "SMB_FILE_ATTRIBUTES", "LOCKING_ANDX_RANGE64",
   "SMB_RESUME_KEY"]

/-- the types for which the codec laws of the generic C04 round trip are proved: `openTypes`, and
    `SMB_NMPIPE_STATUS`, whose decoder accepts exactly its two bytes (`SmbIR.exactLen`: lawful through a
    window of that size only) -/
def lawfulTypes : List String := openTypes ++ ["SMB_NMPIPE_STATUS"]

end Manticore.SmbCodecs
