/-
  C06 — hand models of the SMB wire data types' `Marshal` / `Unmarshal`, following the Go control
  flow (guards as written, slice / index expressions through `slice` / `index`, which yield
  `Outcome.panic` exactly when Go's bounds check would; returned byte counts as the code computes
  them), in one uniform shape so that the SMB command models can use them as building blocks:

      <Type>.V                                   the Go struct (exported fields)
      <Type>.encode : V → Outcome Bytes          `Marshal()` bytes
      <Type>.decode : Bytes → Outcome (V × Nat)  `Unmarshal(data)` = (fields after the call, n)
      <Type>.Dom    : V → Prop   (decidable)     the representable domain of the property
      <Type>.wireSize : V → Nat                  SPEC: the size MS-CIFS / MS-NLMP give the encoding

  Types whose `Marshal` writes to its receiver (SMB_STRING sets `Length`, OEM_STRING sets
  `BufferFormat`, SMB_RESUME_KEY rebuilds the embedded string, SMB_DIRECTORY_INFORMATION pads the
  file name) additionally have
      <Type>.marshal : V → Outcome (Bytes × V)   bytes and the receiver after the call
      <Type>.norm    : V → V                     the receiver after a successful `Marshal`
  and `encode` is the first component of `marshal`.

  The models are of the code *with* the repairs fixes/C06-*.diff applied (see KNOWN_FINDINGS.txt);
  SMB_NMPIPE_STATUS is modelled with its `len(data) != 2` test, which the suite pins (finding
  `nmpipe_trailing`).  Integer endianness on the wire is as in the code (SMB_FILE_ATTRIBUTES,
  AndXOffset and parameter words are big-endian there); whether that is the prescribed one is C05.
-/
import Manticore.Basic
namespace Manticore.C06
open Manticore

/-! ## shared readers -/

/-- `binary.LittleEndian.Uint16(b[lo:lo+2])` -/
def rdLe16 (b : Bytes) (lo : Nat) : Outcome UInt16 :=
  match slice b lo (lo + 2) with
  | .ok [x, y] => .ok (le16 x y)
  | .ok _ => .panic
  | .err => .err
  | .panic => .panic

/-- `binary.BigEndian.Uint16(b[lo:lo+2])` -/
def rdBe16 (b : Bytes) (lo : Nat) : Outcome UInt16 :=
  match slice b lo (lo + 2) with
  | .ok [x, y] => .ok (be16 x y)
  | .ok _ => .panic
  | .err => .err
  | .panic => .panic

/-- `binary.LittleEndian.Uint32(b[lo:lo+4])` -/
def rdLe32 (b : Bytes) (lo : Nat) : Outcome UInt32 :=
  match slice b lo (lo + 4) with
  | .ok [x, y, z, w] => .ok (le32 x y z w)
  | .ok _ => .panic
  | .err => .err
  | .panic => .panic

/-- position of the first NUL byte of a byte string -/
def nulIndexFrom : Bytes → Nat → Option Nat
  | [], _ => none
  | c :: cs, i => if c = 0 then some i else nulIndexFrom cs (i + 1)
def nulIndex (b : Bytes) : Option Nat := nulIndexFrom b 0

/-! ## SMB_STRING (types/SMB_STRING.go) -/
namespace SmbString

structure V where
  format : UInt8
  length : UInt16
  buffer : Bytes
  deriving DecidableEq, Repr, Inhabited

/-- `Marshal`: the 16-bit-length formats store `USHORT(len(Buffer))` into the receiver's `Length` -/
def marshal (s : V) : Outcome (Bytes × V) :=
  if s.format = 1 ∨ s.format = 5 then
    if s.buffer.length > 65535 then .err
    else
      let len := UInt16.ofNat s.buffer.length
      .ok (s.format :: (putLe16 len ++ s.buffer), { s with length := len })
  else if s.format = 2 ∨ s.format = 4 then
    .ok (s.format :: (s.buffer ++ [0]), s)
  else if s.format = 3 then
    if s.buffer.length > 65535 then .err
    else
      let len := UInt16.ofNat s.buffer.length
      .ok (s.format :: (putLe16 len ++ s.buffer ++ [0]), { s with length := len })
  else .err

def encode (s : V) : Outcome Bytes := (marshal s).map' (·.1)

/-- the receiver after a successful `Marshal` -/
def norm (s : V) : V :=
  if s.format = 1 ∨ s.format = 3 ∨ s.format = 5 then { s with length := UInt16.ofNat s.buffer.length } else s

/-- length-prefixed body shared by formats 0x01, 0x05 (`extra = 0`) and 0x03 (`extra = 1`: the
    terminator is counted as consumed, so it has to be there) -/
def decodeCounted (f : UInt8) (b : Bytes) (extra : Nat) : Outcome (V × Nat) :=
  if b.length < 3 then .err
  else
    match rdLe16 b 1 with
    | .ok len =>
      if b.length < len.toNat + 3 + extra then .err
      else
        match slice b 3 (3 + len.toNat) with
        | .ok buf => .ok (⟨f, len, buf⟩, len.toNat + 3 + extra)
        | .err => .err
        | .panic => .panic
    | .err => .err
    | .panic => .panic

/-- NUL-terminated body of formats 0x02 and 0x04: the scan `for i := 1; i < len(buffer); i++` -/
def decodeTerminated (f : UInt8) (b : Bytes) : Outcome (V × Nat) :=
  match nulIndex (b.drop 1) with
  | none => .err
  | some i =>
    let nullPos := i + 1
    match slice b 1 nullPos with
    | .ok buf => .ok (⟨f, UInt16.ofNat buf.length, buf⟩, nullPos + 1)
    | .err => .err
    | .panic => .panic

def decode (b : Bytes) : Outcome (V × Nat) :=
  if b.length < 1 then .err
  else
    match index b 0 with
    | .ok f =>
      if f = 1 then decodeCounted f b 0
      else if f = 2 then decodeTerminated f b
      else if f = 3 then decodeCounted f b 1
      else if f = 4 then decodeTerminated f b
      else if f = 5 then decodeCounted f b 0
      else .err
    | .err => .err
    | .panic => .panic

/-- the representable domain: a known format, at most 65535 bytes, `Length` in step with the
    buffer (as every constructor leaves it), and no NUL inside a NUL-terminated string -/
def Dom (s : V) : Prop :=
  (s.format = 1 ∨ s.format = 2 ∨ s.format = 3 ∨ s.format = 4 ∨ s.format = 5) ∧
  s.buffer.length ≤ 65535 ∧ s.length.toNat = s.buffer.length ∧
  ((s.format = 2 ∨ s.format = 4) → (0 : UInt8) ∉ s.buffer)

instance (s : V) : Decidable (Dom s) := by unfold Dom; exact inferInstance

/-- SPEC (MS-CIFS 2.2.1.1 / 2.2.4.x buffer formats): format byte, an optional 16-bit length,
    the bytes, an optional terminator -/
def wireSize (s : V) : Nat :=
  1 + (if s.format = 1 ∨ s.format = 3 ∨ s.format = 5 then 2 else 0) + s.buffer.length +
    (if s.format = 2 ∨ s.format = 3 ∨ s.format = 4 then 1 else 0)

end SmbString

/-! ## OEM_STRING (types/OEM_STRING.go): an SMB_STRING whose `Marshal` forces format 0x04 -/
namespace OemString

abbrev V := SmbString.V

def marshal (s : V) : Outcome (Bytes × V) := SmbString.marshal { s with format := 4 }
def encode (s : V) : Outcome Bytes := (marshal s).map' (·.1)
def norm (s : V) : V := { s with format := 4 }
/-- `Unmarshal` delegates to `SMB_STRING.Unmarshal` (and therefore accepts every format byte) -/
def decode (b : Bytes) : Outcome (V × Nat) := SmbString.decode b

def Dom (s : V) : Prop := s.format = 4 ∧ SmbString.Dom s
instance (s : V) : Decidable (Dom s) := by unfold Dom; exact inferInstance
def wireSize (s : V) : Nat := s.buffer.length + 2

end OemString

/-! ## SMB_DATE (types/SMB_DATE.go) -/
namespace SmbDate

structure V where
  year : UInt16
  month : UInt8
  day : UInt8
  deriving DecidableEq, Repr, Inhabited

/-- `(Year-1980)<<9 | Month<<5 | Day` in `uint16` -/
def pack (d : V) : UInt16 :=
  ((d.year - 1980) <<< 9) ||| (d.month.toUInt16 <<< 5) ||| d.day.toUInt16

def unpack (w : UInt16) : V :=
  ⟨((w &&& 0xFE00) >>> 9) + 1980, ((w &&& 0x01E0) >>> 5).toUInt8, (w &&& 0x001F).toUInt8⟩

def encode (d : V) : Outcome Bytes := .ok (putLe16 (pack d))

def decode (b : Bytes) : Outcome (V × Nat) :=
  if b.length < 2 then .err
  else
    match rdLe16 b 0 with
    | .ok w => .ok (unpack w, 2)
    | .err => .err
    | .panic => .panic

def Dom (d : V) : Prop := 1980 ≤ d.year.toNat ∧ d.year.toNat ≤ 2107 ∧ d.month.toNat < 16 ∧ d.day.toNat < 32
instance (d : V) : Decidable (Dom d) := by unfold Dom; exact inferInstance
def wireSize (_ : V) : Nat := 2

end SmbDate

/-! ## FILETIME (windows/ms_dtyp/common/data_structures/FILETIME.go; `SMB_TIME` is an alias) -/
namespace FileTime

structure V where
  low : UInt32
  high : UInt32
  deriving DecidableEq, Repr, Inhabited

def encode (t : V) : Outcome Bytes := .ok (putLe32 t.low ++ putLe32 t.high)

def decode (b : Bytes) : Outcome (V × Nat) :=
  if b.length < 8 then .err
  else
    match rdLe32 b 0, rdLe32 b 4 with
    | .ok lo, .ok hi => .ok (⟨lo, hi⟩, 8)
    | .panic, _ => .panic
    | _, .panic => .panic
    | _, _ => .err

def Dom (_ : V) : Prop := True
instance (t : V) : Decidable (Dom t) := by unfold Dom; exact inferInstance
def wireSize (_ : V) : Nat := 8

end FileTime

/-! ## LOCKING_ANDX_RANGE32 / RANGE64 -/
namespace Range32

structure V where
  pid : UInt16
  byteOffset : UInt32
  lengthInBytes : UInt32
  deriving DecidableEq, Repr, Inhabited

def encode (r : V) : Outcome Bytes := .ok (putLe16 r.pid ++ putLe32 r.byteOffset ++ putLe32 r.lengthInBytes)

def decode (b : Bytes) : Outcome (V × Nat) :=
  if b.length < 10 then .err
  else
    match rdLe16 b 0, rdLe32 b 2, rdLe32 b 6 with
    | .ok p, .ok o, .ok l => .ok (⟨p, o, l⟩, 10)
    | .panic, _, _ => .panic
    | _, .panic, _ => .panic
    | _, _, .panic => .panic
    | _, _, _ => .err

def Dom (_ : V) : Prop := True
instance (r : V) : Decidable (Dom r) := by unfold Dom; exact inferInstance
def wireSize (_ : V) : Nat := 10

end Range32

namespace Range64

structure V where
  pid : UInt16
  pad : UInt16
  byteOffsetHigh : UInt32
  byteOffsetLow : UInt32
  lengthInBytesHigh : UInt32
  lengthInBytesLow : UInt32
  deriving DecidableEq, Repr, Inhabited

def encode (r : V) : Outcome Bytes :=
  .ok (putLe16 r.pid ++ putLe16 r.pad ++ putLe32 r.byteOffsetHigh ++ putLe32 r.byteOffsetLow ++
       putLe32 r.lengthInBytesHigh ++ putLe32 r.lengthInBytesLow)

def decode (b : Bytes) : Outcome (V × Nat) :=
  if b.length < 20 then .err
  else
    match rdLe16 b 0, rdLe16 b 2, rdLe32 b 4, rdLe32 b 8, rdLe32 b 12, rdLe32 b 16 with
    | .ok p, .ok q, .ok oh, .ok ol, .ok lh, .ok ll => .ok (⟨p, q, oh, ol, lh, ll⟩, 20)
    | .panic, _, _, _, _, _ => .panic
    | _, .panic, _, _, _, _ => .panic
    | _, _, .panic, _, _, _ => .panic
    | _, _, _, .panic, _, _ => .panic
    | _, _, _, _, .panic, _ => .panic
    | _, _, _, _, _, .panic => .panic
    | _, _, _, _, _, _ => .err

def Dom (_ : V) : Prop := True
instance (r : V) : Decidable (Dom r) := by unfold Dom; exact inferInstance
def wireSize (_ : V) : Nat := 20

end Range64

/-! ## SMB_NMPIPE_STATUS -/
namespace PipeStatus

structure V where
  icount : UInt8
  flags : UInt8
  deriving DecidableEq, Repr, Inhabited

def encode (s : V) : Outcome Bytes := .ok [s.icount, s.flags]

/-- `if len(data) != 2 { return 0, err }` — the code as it is (pinned by the suite) -/
def decode (b : Bytes) : Outcome (V × Nat) :=
  if b.length ≠ 2 then .err
  else
    match index b 0, index b 1 with
    | .ok i, .ok f => .ok (⟨i, f⟩, 2)
    | .panic, _ => .panic
    | _, .panic => .panic
    | _, _ => .err

/-- the 16-bit status word (MS-CIFS 2.2.1.3): ICount in the low byte, the flags in the high byte -/
def packWord (s : V) : UInt16 := le16 s.icount s.flags
def unpackWord (w : UInt16) : V := ⟨w.toUInt8, (w >>> 8).toUInt8⟩

def Dom (_ : V) : Prop := True
instance (s : V) : Decidable (Dom s) := by unfold Dom; exact inferInstance
def wireSize (_ : V) : Nat := 2

/-- finding `nmpipe_trailing`: any byte after the two status bytes makes `Unmarshal` fail -/
def KnownBad_nmpipe_trailing (suffix : Bytes) : Prop := suffix ≠ []
instance (s : Bytes) : Decidable (KnownBad_nmpipe_trailing s) := by unfold KnownBad_nmpipe_trailing; exact inferInstance

end PipeStatus

/-! ## SMB_RESUME_KEY: an embedded SMB_STRING (format 0x05) carrying 1 + 16 + 4 bytes -/
namespace ResumeKey

structure V where
  str : SmbString.V            -- the embedded SMB_STRING
  reserved : UInt8
  serverState : Bytes          -- [16]UCHAR
  clientState : Bytes          -- [4]UCHAR
  deriving DecidableEq, Repr, Inhabited

/-- `Marshal` rebuilds the embedded string from the three fields, then marshals it -/
def marshal (r : V) : Outcome (Bytes × V) :=
  let byteStream := r.reserved :: (r.serverState ++ r.clientState)
  match SmbString.marshal ⟨5, UInt16.ofNat byteStream.length, byteStream⟩ with
  | .ok (bs, s') => .ok (bs, { r with str := s' })
  | .err => .err
  | .panic => .panic

def encode (r : V) : Outcome Bytes := (marshal r).map' (·.1)

def norm (r : V) : V :=
  { r with str := ⟨5, UInt16.ofNat (1 + (r.serverState ++ r.clientState).length), r.reserved :: (r.serverState ++ r.clientState)⟩ }

/-- `Unmarshal`: any SMB_STRING whose buffer has at least 21 bytes -/
def decode (b : Bytes) : Outcome (V × Nat) :=
  match SmbString.decode b with
  | .ok (s, n) =>
    if s.buffer.length < 21 then .err
    else
      match index s.buffer 0, slice s.buffer 1 17, slice s.buffer 17 21 with
      | .ok r, .ok ss, .ok cs => .ok (⟨s, r, ss, cs⟩, n)
      | .panic, _, _ => .panic
      | _, .panic, _ => .panic
      | _, _, .panic => .panic
      | _, _, _ => .err
  | .err => .err
  | .panic => .panic

/-- the Go array sizes -/
def WF (r : V) : Prop := r.serverState.length = 16 ∧ r.clientState.length = 4
instance (r : V) : Decidable (WF r) := by unfold WF; exact inferInstance

/-- array sizes, and the embedded string in step with the fields (as `Marshal` / `Unmarshal` leave it) -/
def Dom (r : V) : Prop := WF r ∧ r.str = ⟨5, 21, r.reserved :: (r.serverState ++ r.clientState)⟩
instance (r : V) : Decidable (Dom r) := by unfold Dom; exact inferInstance
def wireSize (_ : V) : Nat := 24

end ResumeKey

/-! ## SMB_FILE_ATTRIBUTES (big-endian in the code) -/
namespace FileAttributes

structure V where
  attributes : UInt16
  deriving DecidableEq, Repr, Inhabited

def encode (a : V) : Outcome Bytes := .ok (putBe16 a.attributes)

def decode (b : Bytes) : Outcome (V × Nat) :=
  if b.length < 2 then .err
  else
    match rdBe16 b 0 with
    | .ok w => .ok (⟨w⟩, 2)
    | .err => .err
    | .panic => .panic

def Dom (_ : V) : Prop := True
instance (a : V) : Decidable (Dom a) := by unfold Dom; exact inferInstance
def wireSize (_ : V) : Nat := 2

end FileAttributes

/-! ## SMB_DIRECTORY_INFORMATION -/
namespace DirInfo

structure V where
  resumeKey : ResumeKey.V
  fileAttributes : UInt8
  lastWriteTime : FileTime.V
  lastWriteDate : SmbDate.V
  fileSize : UInt32
  fileName : OemString.V
  deriving DecidableEq, Repr, Inhabited

/-- `fileName + strings.Repeat(" ", 12-len(fileName))` -/
def padName (n : Bytes) : Bytes := n ++ List.replicate (12 - n.length) 32

def marshal (d : V) : Outcome (Bytes × V) :=
  match ResumeKey.marshal d.resumeKey with
  | .ok (rk, rk') =>
    match FileTime.encode d.lastWriteTime, SmbDate.encode d.lastWriteDate with
    | .ok t, .ok dt =>
      if d.fileName.buffer.length > 12 then .err
      else
        let name := padName d.fileName.buffer
        -- `d.FileName.SetString(fileName)`
        match OemString.marshal { d.fileName with buffer := name, length := UInt16.ofNat name.length } with
        | .ok (fn, fn') =>
          .ok (rk ++ [d.fileAttributes] ++ t ++ dt ++ putLe32 d.fileSize ++ fn,
               { d with resumeKey := rk', fileName := fn' })
        | .err => .err
        | .panic => .panic
    | .panic, _ => .panic
    | _, .panic => .panic
    | _, _ => .err
  | .err => .err
  | .panic => .panic

def encode (d : V) : Outcome Bytes := (marshal d).map' (·.1)

def norm (d : V) : V :=
  { d with resumeKey := ResumeKey.norm d.resumeKey,
           fileName := ⟨4, UInt16.ofNat (padName d.fileName.buffer).length, padName d.fileName.buffer⟩ }

def decode (data : Bytes) : Outcome (V × Nat) := do
  let offset := 0
  let d0 ← sliceFrom data offset
  let (rk, n) ← ResumeKey.decode d0
  let offset := offset + n
  if offset ≥ data.length then .err else
  let attr ← index data offset
  let offset := offset + 1
  if offset + 2 > data.length then .err else
  let d1 ← sliceFrom data offset
  let (t, n) ← FileTime.decode d1
  let offset := offset + n
  if offset + 2 > data.length then .err else
  let d2 ← slice data offset (offset + 2)
  let (dt, n) ← SmbDate.decode d2
  let offset := offset + n
  if offset + 4 > data.length then .err else
  let size ← rdLe32 data offset
  let offset := offset + 4
  if offset + 14 > data.length then .err else
  let d3 ← slice data offset (offset + 14)
  let (fn, n) ← OemString.decode d3
  let offset := offset + n
  pure (⟨rk, attr, t, dt, size, fn⟩, offset)

/-- file names of at most 12 bytes without NUL ("modulo space padding": `Marshal` pads them) -/
def WF (d : V) : Prop :=
  ResumeKey.WF d.resumeKey ∧ SmbDate.Dom d.lastWriteDate ∧
  d.fileName.buffer.length ≤ 12 ∧ (0 : UInt8) ∉ d.fileName.buffer
instance (d : V) : Decidable (WF d) := by unfold WF; exact inferInstance

/-- `WF` and already in the form `Marshal` leaves: embedded strings in step, name padded to 12 -/
def Dom (d : V) : Prop :=
  ResumeKey.Dom d.resumeKey ∧ SmbDate.Dom d.lastWriteDate ∧
  d.fileName.format = 4 ∧ d.fileName.length = 12 ∧ d.fileName.buffer.length = 12 ∧
  (0 : UInt8) ∉ d.fileName.buffer
instance (d : V) : Decidable (Dom d) := by unfold Dom; exact inferInstance
/-- resume key 24, attributes 1, time 8 (a FILETIME in this code base), date 2, size 4, name 14 -/
def wireSize (_ : V) : Nat := 53

end DirInfo

/-! ## AndX block (message/commands/andx/andx.go; offset big-endian in the code) -/
namespace AndX

structure V where
  command : UInt8
  reserved : UInt8
  offset : UInt16
  deriving DecidableEq, Repr, Inhabited

def encode (a : V) : Outcome Bytes := .ok ([a.command, a.reserved] ++ putBe16 a.offset)

def decode (b : Bytes) : Outcome (V × Nat) :=
  if b.length < 4 then .err
  else
    match index b 0, index b 1, rdBe16 b 2 with
    | .ok c, .ok r, .ok o => .ok (⟨c, r, o⟩, 4)
    | .panic, _, _ => .panic
    | _, .panic, _ => .panic
    | _, _, .panic => .panic
    | _, _, _ => .err

def Dom (_ : V) : Prop := True
instance (a : V) : Decidable (Dom a) := by unfold Dom; exact inferInstance
def wireSize (_ : V) : Nat := 4

end AndX

/-! ## Parameters block (message/parameters/parameters.go; words big-endian in the code) -/
namespace Parameters

structure V where
  wordCount : UInt8
  words : List UInt16
  deriving DecidableEq, Repr, Inhabited

def encode (p : V) : Outcome Bytes :=
  if p.wordCount ≠ UInt8.ofNat p.words.length then .err
  else if p.wordCount > 0 then .ok (p.wordCount :: p.words.flatMap putBe16)
  else .ok [p.wordCount]

/-- `for i := 0; i < int(WordCount); i++ { Words[i] = be16(data[i*2 : 2+i*2]) }`, as recursion on
    the number of remaining iterations -/
def readWords (data : Bytes) : (i remaining : Nat) → Outcome (List UInt16)
  | _, 0 => .ok []
  | i, n + 1 =>
    match rdBe16 data (i * 2) with
    | .ok w =>
      match readWords data (i + 1) n with
      | .ok ws => .ok (w :: ws)
      | .err => .err
      | .panic => .panic
    | .err => .err
    | .panic => .panic

def decode (b : Bytes) : Outcome (V × Nat) :=
  if b.length = 0 then .err
  else
    match index b 0 with
    | .ok wc =>
      match sliceFrom b 1 with
      | .ok data =>
        if wc > 0 then
          if data.length < wc.toNat * 2 then .err
          else
            match readWords data 0 wc.toNat with
            | .ok ws => .ok (⟨wc, ws⟩, 1 + wc.toNat * 2)
            | .err => .err
            | .panic => .panic
        else .ok (⟨wc, []⟩, 1)
      | .err => .err
      | .panic => .panic
    | .err => .err
    | .panic => .panic

def Dom (p : V) : Prop := p.words.length ≤ 255 ∧ p.wordCount.toNat = p.words.length
instance (p : V) : Decidable (Dom p) := by unfold Dom; exact inferInstance
def wireSize (p : V) : Nat := 1 + 2 * p.words.length

end Parameters

/-! ## Data block (message/data/data.go) -/
namespace Data

structure V where
  byteCount : UInt16
  bytes : Bytes
  deriving DecidableEq, Repr, Inhabited

/-- `Marshal` writes the `ByteCount` field as it stands, then all of `Bytes` -/
def encode (d : V) : Outcome Bytes := .ok (putLe16 d.byteCount ++ d.bytes)

def decode (b : Bytes) : Outcome (V × Nat) :=
  if b.length = 0 then .err
  else if b.length < 2 then .err
  else
    match rdLe16 b 0 with
    | .ok bc =>
      match sliceFrom b 2 with
      | .ok data =>
        if bc > 0 then
          if data.length < bc.toNat then .err
          else
            match slice data 0 bc.toNat with
            | .ok bytes => .ok (⟨bc, bytes⟩, 2 + bc.toNat)
            | .err => .err
            | .panic => .panic
        else .ok (⟨bc, []⟩, 2)
      | .err => .err
      | .panic => .panic
    | .err => .err
    | .panic => .panic

def Dom (d : V) : Prop := d.bytes.length ≤ 65535 ∧ d.byteCount.toNat = d.bytes.length
instance (d : V) : Decidable (Dom d) := by unfold Dom; exact inferInstance
def wireSize (d : V) : Nat := 2 + d.bytes.length

end Data

/-! ## NTLM Version (spnego/ntlm/version/version.go) -/
namespace Version

structure V where
  major : UInt8
  minor : UInt8
  build : UInt16
  reserved : Bytes             -- [3]byte
  ntlmRevision : UInt8
  deriving DecidableEq, Repr, Inhabited

/-- `copy(data[4:7], v.Reserved[:])` into the zeroed 8-byte buffer -/
def encode (v : V) : Outcome Bytes :=
  .ok ([v.major, v.minor] ++ putLe16 v.build ++ (v.reserved.take 3 ++ List.replicate (3 - v.reserved.length) 0) ++ [v.ntlmRevision])

def decode (b : Bytes) : Outcome (V × Nat) :=
  if b.length < 8 then .err
  else
    match index b 0, index b 1, rdLe16 b 2, slice b 4 7, index b 7 with
    | .ok ma, .ok mi, .ok bu, .ok rs, .ok nr => .ok (⟨ma, mi, bu, rs, nr⟩, 8)
    | .panic, _, _, _, _ => .panic
    | _, .panic, _, _, _ => .panic
    | _, _, .panic, _, _ => .panic
    | _, _, _, .panic, _ => .panic
    | _, _, _, _, .panic => .panic
    | _, _, _, _, _ => .err

/-- the Go array size -/
def Dom (v : V) : Prop := v.reserved.length = 3
instance (v : V) : Decidable (Dom v) := by unfold Dom; exact inferInstance
def wireSize (_ : V) : Nat := 8

end Version

end Manticore.C06
