/-
  The C05 static predicate `Conforms` on a command's extracted marshal program: what has to hold
  of the program so that, for *all* field values, the bytes `Marshal` emits are the bytes the
  MS-CIFS encoder `Spec.Cifs.encode` (written from the declared field list) produces.  It is a
  decidable `Bool` function, evaluated by the kernel on the regenerated programs in
  `Props/C05.lean`; its soundness (`conforms_sound`) is proved in `Lemmas/SmbConforms.lean`.

  It lives behind `Spec/Cifs.lean` because two of its clauses speak about the specification's
  reading of the declared types (`fieldEnc`: which declared types are byte arrays, which are nested
  structures of which kind) and about the block a declared field belongs to (`blockOf`).
  Core Lean only.
-/
import Manticore.Model.SmbCmd
import Manticore.Spec.Cifs
namespace Manticore.SmbIR
open Manticore Manticore.Spec.Cifs

/-- per statement: the declared type of the emitted field is of the kind the statement writes —
    `append(raw, c.F...)` only for `UCHAR` arrays, `c.F.Marshal()` only for a field declared as that
    nested structure (a list of them for the `range` loop) -/
def typedStmt (c : Cmd) : MStmt → Bool
  | .bytes _ f | .arr _ f => (c.typeOf f).bind fieldEnc == some .bytes
  | .sub _ f typ => (c.typeOf f).bind fieldEnc == some (.nested typ)
  | .forSub _ f typ => (c.typeOf f).bind fieldEnc == some (.nestedList typ)
  | _ => true

/-- the field a statement assigns on the command itself (`Marshal` of a nested value updates it,
    `SetBufferFormat`, `c.F = T(len(c.G))`) -/
def writesField : MStmt → Option String
  | .sub _ f _ | .setFmt f _ | .assignLen f _ _ | .subHead f _ => some f
  | _ => none

/-- once a field has been emitted nothing assigns it any more (so the command after `Marshal`
    holds, for every field, the value that went out); in particular no field is emitted twice
    through its own `Marshal` -/
def noWriteAfterEmit : List MStmt → Bool
  | [] => true
  | s :: r =>
    (match emittedField s with
      | some (_, f) => r.all (fun s' => writesField s' != some f)
      | none => true) && noWriteAfterEmit r

/-- names emitted into block `b`, in the order of emission -/
def emittedNames (b : Blk) (ms : List MStmt) : List String :=
  ((ms.filterMap emittedField).filter (·.1 == b)).map (·.2)

def emittedIn (c : Cmd) (b : Blk) : List String := emittedNames b c.marshal

/-- declared names of block `b` (the block being read off the program: `Spec.Cifs.blockOf`), in
    declaration order -/
def declaredIn (c : Cmd) (b : Blk) : List String :=
  (c.fields.filter (fun ft => blockOf c ft.1 == some b)).map (·.1)

def nodupNames : List String → Bool
  | [] => true
  | a :: r => !r.contains a && nodupNames r

/-- no declared field is silently dropped: each one is emitted by some statement (possibly under a
    condition) -/
def allEmitted (c : Cmd) : Bool :=
  (c.fields.map (·.1)).all (fun f => (emittedDeep c.marshal).contains f)

/-- the AndX words go out in the prologue, ahead of every statement: like an emitted field, the AndX
    block is not assigned afterwards (so the command after `Marshal` holds the block that went out) -/
def andxUntouched (ms : List MStmt) : Bool := ms.all (fun s => writesField s != some andxField)

/-- C05 static predicate.
    * `conformsStmts`: every integer little-endian and exactly as wide as its declared type; nothing
      ahead of the parameter block;
    * `typedStmt`: raw appends only of `UCHAR` arrays, nested `Marshal` only of the declared structure;
    * `nodupNames`: declared names are distinct (a name denotes one field);
    * `emittedIn c b == declaredIn c b`: within each block the emissions are exactly the declared
      fields of that block, each once, in declaration order (this also makes the block of a field
      unambiguous: a field emitted into both blocks fails it);
    * `noWriteAfterEmit`: a field's value does not change after it has been emitted;
    * `andxUntouched`: nor does the AndX block, which the prologue emits;
    these six are `ConformsCore`, what `conforms_sound` rests on (`Props/C05.lean` has, for each, a
    program failing only that rule whose bytes are not the MS-CIFS bytes).  Two more clauses are part
    of conformance without being needed by that theorem:
    * `isSublistOf (wireOrder c) …`: parameters are declared before data (`Spec.Cifs.encode` encodes
      the two blocks separately, so it cannot see an interleaved declaration);
    * `allEmitted`: no declared field is dropped (`Spec.Cifs.encode` only places the fields that have
      a block; this clause is what makes that encoder cover the whole declared list —
      `conforms_covers_all_fields`). -/
def Conforms (c : Cmd) : Bool :=
  conformsStmts c c.marshal &&
  isSublistOf (wireOrder c) (c.fields.map (·.1)) &&
  c.marshal.all (typedStmt c) &&
  nodupNames (c.fields.map (·.1)) &&
  emittedIn c .P == declaredIn c .P &&
  emittedIn c .D == declaredIn c .D &&
  noWriteAfterEmit c.marshal &&
  andxUntouched c.marshal &&
  allEmitted c

/-- the part of `Conforms` that `conforms_sound` uses -/
def ConformsCore (c : Cmd) : Bool :=
  conformsStmts c c.marshal &&
  c.marshal.all (typedStmt c) &&
  nodupNames (c.fields.map (·.1)) &&
  emittedIn c .P == declaredIn c .P &&
  emittedIn c .D == declaredIn c .D &&
  noWriteAfterEmit c.marshal &&
  andxUntouched c.marshal

/-- which clause of `Conforms` a command fails (for reporting) -/
def conformsFailures (c : Cmd) : List String :=
  (if conformsStmts c c.marshal then [] else ["int-width/endianness or bytes ahead of the parameter block"]) ++
  (if isSublistOf (wireOrder c) (c.fields.map (·.1)) then [] else ["declaration order"]) ++
  (if c.marshal.all (typedStmt c) then [] else ["declared type of a raw/nested emission"]) ++
  (if nodupNames (c.fields.map (·.1)) then [] else ["duplicate declared name"]) ++
  (if emittedIn c .P == declaredIn c .P then [] else ["parameter block order"]) ++
  (if emittedIn c .D == declaredIn c .D then [] else ["data block order"]) ++
  (if noWriteAfterEmit c.marshal then [] else ["write after emission"]) ++
  (if andxUntouched c.marshal then [] else ["AndX block assigned by a statement"]) ++
  (if allEmitted c then [] else
    ["never emitted: " ++ ", ".intercalate ((c.fields.map (·.1)).filter (fun f => !(emittedDeep c.marshal).contains f))])

/-! ### nested structures -/

/-- the nested encoder of type `typ` agrees with the MS-CIFS encoding of that nested structure,
    wherever MS-CIFS has one, on the value `Marshal` leaves in the field -/
def NestedConformsAt (C : Codecs) (typ : String) (v' : Tup) : Prop :=
  ∀ v bs, C.enc typ v = .ok (bs, v') → ∀ sb, nestedEnc typ v' = some sb → bs = sb

/-- the nested encoders agree with the MS-CIFS encoding of nested structures on the types listed as conforming -/
def NestedConforms (C : Codecs) (typ : String) : Prop :=
  ∀ v bs v', C.enc typ v = .ok (bs, v') → ∀ sb, nestedEnc typ v' = some sb → bs = sb

theorem NestedConforms.at {C : Codecs} {typ : String} (h : NestedConforms C typ) (v' : Tup) :
    NestedConformsAt C typ v' := fun v bs he sb hs => h v bs v' he sb hs

/-! ### beyond the straight-line fragment: loops over list fields, one optional parameter field -/

/-- the body of `if c.F != 0 { … }` emits exactly `F`, as one integer into the parameter block -/
def optBody (f : String) : List MStmt → Bool
  | [.int .P _ _ g] => f == g
  | _ => false

/-- the body of `if c.F != [n]T{0,…} { … }` emits exactly the array `F` into the parameter block -/
def optBodyArr (f : String) : List MStmt → Bool
  | [.forInt .P _ _ g] => f == g
  | _ => false

/-- statement shapes of the extended fragment, `opt` being the names emitted under "is non-zero": the
    straight-line statements and the two `range` loops, none of which emits a name of `opt`; and
    `if c.F != 0 { emit F }` for the names of `opt` (nothing else inside the condition).  No condition on
    `WordCount`, nothing ahead of the parameter block. -/
def extShape (opt : List String) : MStmt → Bool
  | .ifNonZero f body => opt.contains f && optBody f body
  | .ifNonZeroArr f body => opt.contains f && optBodyArr f body
  | .ifWordCount _ _ | .subHead _ _ => false
  | .zeros _ _ => false      -- literal bytes that belong to no declared field (a string terminator): none of the
                             -- three encoders over the declared field list has a notion of them
  | .int _ _ _ f | .quad _ _ _ f | .u8 _ f | .bytes _ f | .arr _ f | .sub _ f _ | .forSub _ f _
  | .forInt _ _ _ f => !opt.contains f
  | .setFmt _ _ | .assignLen _ _ _ => true

/-- the field `f` is declared as an array of `w`-byte integers (MS-CIFS `USHORT[]` / `ULONG[]`, as
    `Spec.Cifs.fieldEnc` reads the declared type) -/
def arrTyped (c : Cmd) (w : Nat) (f : String) : Bool := (c.typeOf f).bind fieldEnc == some (.uintArr w)

/-- `for _, x := range c.F { PutUint… }` only over a field declared as an array of integers of that
    width (also inside `if c.F != [n]T{0,…}`) -/
def typedLoop (c : Cmd) : MStmt → Bool
  | .forInt _ w _ f => arrTyped c w f
  | .ifNonZeroArr _ body => body.all (fun s => match s with | .forInt _ w _ f => arrTyped c w f | _ => true)
  | _ => true

/-- C05 static predicate for the structures whose `Marshal` loops over a list field: `Conforms` (the
    per-statement checks of which cover the loops: `forInt` little-endian at the element width,
    `forSub` of a field declared as a list of that structure), nothing but straight-line statements and
    loops (`Spec.Cifs.loopsOnly`), integer loops over declared integer arrays (`typedLoop`).  Sound with
    respect to `Spec.Cifs.encodeLists`: `conforms_lists_sound`. -/
def ConformsLists (c : Cmd) : Bool := Conforms c && loopsOnly c.marshal && c.marshal.all (typedLoop c)

/-- C05 static predicate for the structures with one optional parameter field (`OffsetHigh` of the
    14-word WRITE_ANDX / WRITE_RAW requests, `Reserved` of the 12-word WRITE_AND_CLOSE): `Conforms`,
    exactly one statement `if c.F != 0 { … }`, whose body emits `F` and nothing else, into the parameter
    block; no other statement emits `F`; everything else straight-line or a loop (`extShape`, `typedLoop`).  Sound with respect
    to `Spec.Cifs.encodeOptional`: `conforms_optional_sound`. -/
def ConformsOptional (c : Cmd) : Bool :=
  Conforms c && (optionalFields c.marshal).length == 1 && c.marshal.all (extShape (optionalFields c.marshal)) &&
    c.marshal.all (typedLoop c)

/-- why a command is in neither proved fragment beyond the straight-line one (for reporting) -/
def extFailures (c : Cmd) : List String :=
  (if c.marshal.any (fun s => match s with | .ifWordCount .. => true | _ => false) then
    ["a field emitted under a condition on WordCount"] else []) ++
  (if c.marshal.any (fun s => match s with | .subHead .. => true | _ => false) then
    ["bytes ahead of the parameter block"] else []) ++
  (if (optionalFields c.marshal).length > 1 then ["more than one optional field"] else []) ++
  (if c.marshal.all (extShape (optionalFields c.marshal)) then [] else ["statement shape"]) ++
  (if c.marshal.all (typedLoop c) then [] else ["integer loop over a field not declared as an integer array"]) ++
  (if Conforms c then [] else conformsFailures c)

/-- list elements: `for _, x := range c.F { x.Marshal() }` marshals a *copy*, so the command keeps the
    element it had; the nested encoder of type `typ` has to agree with MS-CIFS on the value it is
    handed (where `NestedConforms` speaks of the value `Marshal` leaves in a field) -/
def NestedConformsIn (C : Codecs) (typ : String) : Prop :=
  ∀ v bs v', C.enc typ v = .ok (bs, v') → ∀ sb, nestedEnc typ v = some sb → bs = sb

/-- `NestedConforms` gives `NestedConformsIn` for a type whose MS-CIFS encoding does not distinguish a
    value from what `Marshal` leaves of it (e.g. every type whose `Marshal` leaves its receiver alone) -/
theorem NestedConforms.toIn {C : Codecs} {typ : String} (h : NestedConforms C typ)
    (hst : ∀ v bs v', C.enc typ v = .ok (bs, v') → nestedEnc typ v = nestedEnc typ v') :
    NestedConformsIn C typ := fun v bs v' he sb hs => h v bs v' he sb (hst v bs v' he ▸ hs)

end Manticore.SmbIR
