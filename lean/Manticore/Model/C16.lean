/-
  C16 — model of `network/ldap/sid.go: ParseSIDFromBytes` and
  `network/ldap/utils.go: GetDomainFromDistinguishedName` (+ `splitDistinguishedName`),
  following the Go control flow; and the MS-DTYP / dot-join specifications.
-/
import Manticore.Basic
namespace Manticore.C16
open Manticore

/-! ## SID: model -/

/-- `binary.LittleEndian.Uint32(b[off:])` — the slice expression panics when `off > len`, the
    `Uint32` call panics (bounds-check hint `_ = b[3]`) when fewer than 4 bytes remain. -/
def readLe32From (b : Bytes) (off : Nat) : Outcome UInt32 :=
  match sliceFrom b off with
  | .ok (b0 :: b1 :: b2 :: b3 :: _) => .ok (le32 b0 b1 b2 b3)
  | .ok _ => .panic
  | .err => .err
  | .panic => .panic

/-- the loop `for k := 0; k < count; k++ { parts = append(parts, Sprintf("%d", le32(b[8+4k:]))) }`,
    written as recursion on the number of remaining iterations -/
def subLoop (b : Bytes) : (k remaining : Nat) → List String → Outcome (List String)
  | _, 0, acc => .ok acc
  | k, n+1, acc =>
    match readLe32From b (8 + 4 * k) with
    | .ok v => subLoop b (k+1) n (acc ++ [toString v.toNat])
    | .err => .err
    | .panic => .panic

/-- the six shifts of the identifier authority, in `uint64` -/
def authority (b2 b3 b4 b5 b6 b7 : UInt8) : UInt64 :=
  (b2.toUInt64 <<< 40) ||| (b3.toUInt64 <<< 32) ||| (b4.toUInt64 <<< 24) |||
  (b5.toUInt64 <<< 16) ||| (b6.toUInt64 <<< 8) ||| b7.toUInt64

/-- `ParseSIDFromBytes`: `""` stands for "not a SID" exactly as in Go. -/
def parseSID (b : Bytes) : Outcome String :=
  match b with
  | r :: c :: b2 :: b3 :: b4 :: b5 :: b6 :: b7 :: _ =>
    if r != 1 then .ok ""
    else if b.length < 8 + 4 * c.toNat then .ok ""
    else
      match subLoop b 0 c.toNat ["S-" ++ toString r.toNat ++ "-" ++ toString (authority b2 b3 b4 b5 b6 b7).toNat] with
      | .ok parts => .ok ("-".intercalate parts)
      | .err => .err
      | .panic => .panic
  | _ => .ok ""

/-! ## SID: specification (MS-DTYP 2.4.2.1 / 2.4.2.2) -/

/-- binary SID: revision 1, count, 48-bit big-endian authority, little-endian sub-authorities -/
def encodeSID (auth : Nat) (subs : List UInt32) : Bytes :=
  [1, UInt8.ofNat subs.length] ++ natBe 6 auth ++ subs.flatMap putLe32

/-- `S-1-<authority>-<sub1>-…-<subN>`, every number in decimal, single dashes -/
def sidString (auth : Nat) (subs : List Nat) : String :=
  "-".intercalate ("S-1" :: (auth :: subs).map toString)

/-! ## DN → DNS domain: model -/

def comma : UInt8 := 44
def backslash : UInt8 := 92
def dot : UInt8 := 46
def dcPrefix : Bytes := [68, 67, 61]   -- "DC="

/-- `splitDistinguishedName`: scan left to right; a backslash makes the next byte part of the
    value whatever it is (`esc`); an unescaped comma closes the current part.  `cur` is the
    current part reversed. -/
def splitDNAux : Bytes → (esc : Bool) → (cur : Bytes) → List Bytes
  | [], _, cur => [cur.reverse]
  | c :: rest, true, cur => splitDNAux rest false (c :: cur)
  | c :: rest, false, cur =>
    if c = backslash then splitDNAux rest true (c :: cur)
    else if c = comma then cur.reverse :: splitDNAux rest false []
    else splitDNAux rest false (c :: cur)

def splitDN (dn : Bytes) : List Bytes := splitDNAux dn false []

def hasPrefix (p s : Bytes) : Bool := p.isPrefixOf s

/-- the accumulation `domain += TrimPrefix(part,"DC=") + "."` over the parts -/
def accumulate (parts : List Bytes) : Bytes :=
  (parts.filter (hasPrefix dcPrefix)).flatMap (fun p => p.drop 3 ++ [dot])

/-- `strings.TrimSuffix(s, ".")` -/
def trimDotSuffix (s : Bytes) : Bytes :=
  match s.reverse with
  | c :: r => if c = dot then r.reverse else s
  | [] => s

def domainOfDN (dn : Bytes) : Bytes := trimDotSuffix (accumulate (splitDN dn))

/-! ## DN: specification -/

/-- characters Active Directory escapes with a backslash inside an attribute value -/
def special (c : UInt8) : Bool :=
  c = 44 || c = 92 || c = 35 || c = 43 || c = 60 || c = 62 || c = 59 || c = 34 || c = 61

def escape (v : Bytes) : Bytes := v.flatMap (fun c => if special c then [backslash, c] else [c])

/-- `type=value` with the value escaped -/
def formatRDN (r : Bytes × Bytes) : Bytes := r.1 ++ [61] ++ escape r.2

/-- join with a separator between consecutive elements (and nowhere else) -/
def joinWith (sep : Bytes) : List Bytes → Bytes
  | [] => []
  | [x] => x
  | x :: y :: rest => x ++ sep ++ joinWith sep (y :: rest)

/-- an RDN sequence in the text form AD emits: RDNs joined by single commas -/
def formatDN (rdns : List (Bytes × Bytes)) : Bytes := joinWith [comma] (rdns.map formatRDN)

def dotJoin (ls : List Bytes) : Bytes := joinWith [dot] ls

def dcValues (rdns : List (Bytes × Bytes)) : List Bytes :=
  (rdns.filter (fun r => r.1 = [68, 67])).map (·.2)

/-- attribute types contain no special character and are not empty; DC values are DNS labels (no
    special character) -/
def WellFormedRDN (r : Bytes × Bytes) : Prop :=
  r.1 ≠ [] ∧ (∀ c ∈ r.1, special c = false) ∧ (r.1 = [68, 67] → ∀ c ∈ r.2, special c = false)

end Manticore.C16
