/-
  C17 — the six methods of `NetBIOSNameServer` as critical sections of the readers–writer-lock machine
  (`Model/RWLock.lean`): the shared state is the name table of `Model/C17.lean`; each method is
  `mu.Lock()` / `mu.RLock()`, a few micro-steps (individual accesses of `n.names` and of the records behind
  it, split where the Go body reads first and writes later), the deferred unlock.

      RegisterName       write   look up `n.names[name]`            | update the record / insert a new one
      QueryName          read    look up, read `Status`             | read `Owners`, `Type` again through the map
      ReleaseName        write   look up | shrink `Owners` (group) or delete (unique) | delete if `Owners` is empty
      RefreshName        write   look up                            | set the TTL
      MarkNameConflict   write   look up                            | set the status
      CleanExpiredNames  write   range: collect the expired entries | delete them

  Between two micro-steps of `ReleaseName` the table may hold a group record with no owner (it violates
  `Inv`): the invariant is one of *released* states only.  `Props/C17Locks.lean` proves that the micro-steps
  of each method compose to `step`, that the modes are the lock kinds found in the source, and that every
  interleaving is equivalent to a sequential history.  Core Lean only.
-/
import Manticore.Model.C17
import Manticore.Model.RWLock
namespace Manticore.C17
open Manticore.RWLock (Call RawCall Mode Step)

/-- what a micro-step leaves in the call's local variables -/
inductive Obs
  | found (r : Option Rec)            -- `record, exists := n.names[name]`
  | shrunk (owners : List IP)         -- `record.Owners` after the in-place removal
  | expired (es : List (Name × Rec))  -- the entries the sweep found expired
  | out (o : Out)                     -- the value the method is going to return
  deriving DecidableEq, Repr

/-- the record the call looked up (first micro-step) -/
def foundOf : List Obs → Option Rec
  | .found r :: _ => r
  | _ => none

/-- the method's result: what its last micro-step decided -/
def resultOf (obs : List Obs) : Out :=
  match obs.getLast? with
  | some (.out o) => o
  | _ => .panic

/-- `record, exists := n.names[name]` -/
def lookupW (n : Name) : List Obs → State → State × Obs := fun _ s => (s, .found (lookup s n))

/-- second micro-step of the two-step writers: acts on the looked-up record -/
def updateW (u : Option Rec → State → State × Out) : List Obs → State → State × Obs :=
  fun obs s => ((u (foundOf obs) s).1, .out (u (foundOf obs) s).2)

def registerUpdate (n : Name) (t : NameType) (o : IP) (past : Bool) : Option Rec → State → State × Out
  | some r, s =>
    if r.type = .group ∧ t = .group then
      if r.owners.contains o then (s, .ok)
      else (put s n { r with owners := r.owners ++ [o], expired := past }, .ok)
    else if r.type = .unique ∨ t = .unique then (s, .err)
    else (put s n ⟨t, .active, [o], past, past⟩, .ok)
  | none, s => (put s n ⟨t, .active, [o], past, past⟩, .ok)

def refreshUpdate (n : Name) (o : IP) : Option Rec → State → State × Out
  | none, s => (s, .err)
  | some r, s => if r.owners.contains o then (put s n { r with expired := r.refreshExpired }, .ok) else (s, .err)

def conflictUpdate (n : Name) : Option Rec → State → State × Out
  | none, s => (s, .err)
  | some r, s => (put s n { r with status := .conflict }, .ok)

/-- `ReleaseName`, second micro-step: group — remove the owner from `record.Owners` (the record stays in
    the map, possibly with no owner left); unique — check the owner and delete -/
def releaseShrink (n : Name) (o : IP) : List Obs → State → State × Obs := fun obs s =>
  match foundOf obs with
  | none => (s, .out .err)
  | some r =>
    if r.type = .group then
      if r.owners.contains o then (put s n { r with owners := r.owners.erase o }, .shrunk (r.owners.erase o))
      else (s, .out .err)
    else
      match r.owners with
      | o' :: _ => if o' = o then (erase s n, .out .ok) else (s, .out .err)
      | [] => (s, .out .panic)

/-- `ReleaseName`, third micro-step: `if len(record.Owners) == 0 { delete(n.names, name) }` -/
def releaseDrop (n : Name) : List Obs → State → State × Obs := fun obs s =>
  match obs.getLast? with
  | some (.shrunk os) => if os.isEmpty then (erase s n, .out .ok) else (s, .out .ok)
  | some (.out o) => (s, .out o)
  | _ => (s, .out .panic)

/-- `CleanExpiredNames`: the range loop finds the expired entries … -/
def sweepFind : List Obs → State → State × Obs := fun _ s => (s, .expired (s.filter (fun p => p.2.expired)))
/-- … and deletes them -/
def sweepDelete : List Obs → State → State × Obs := fun obs s =>
  match obs.getLast? with
  | some (.expired es) => (s.filter (fun p => !es.contains p), .out .ok)
  | _ => (s, .out .panic)

/-- `QueryName`, first read: the map entry and its status -/
def queryFind (n : Name) : List Obs → State → Obs := fun _ s => .found (lookup s n)
/-- `QueryName`, second read: `Owners` and `Type`, read through the table again -/
def queryCopy (n : Name) : List Obs → State → Obs := fun obs s =>
  match foundOf obs with
  | none => .out .err
  | some r =>
    if r.status = .active then
      match lookup s n with
      | some r' => .out (.owners r'.owners r'.type)
      | none => .out .err
    else .out .err

/-- **the methods as critical sections** -/
def critical : Op → Call State Obs Out
  | .register n t o past => .writer [lookupW n, updateW (registerUpdate n t o past)] resultOf
  | .query n => .reader [queryFind n, queryCopy n] resultOf
  | .release n o => .writer [lookupW n, releaseShrink n o, releaseDrop n] resultOf
  | .refresh n o => .writer [lookupW n, updateW (refreshUpdate n o)] resultOf
  | .markConflict n => .writer [lookupW n, updateW (conflictUpdate n)] resultOf
  | .clean => .writer [sweepFind, sweepDelete] resultOf

/-- the Go method a call stands for -/
def Op.method : Op → String
  | .register .. => "RegisterName"
  | .query _ => "QueryName"
  | .release .. => "ReleaseName"
  | .refresh .. => "RefreshName"
  | .markConflict _ => "MarkNameConflict"
  | .clean => "CleanExpiredNames"

/-! ## concurrent runs of the table -/

/-- threads, each a sequence of method calls, as a program of the lock machine -/
def tableProgram (threads : List (List Op)) : RWLock.Program State Obs Out :=
  RWLock.compile (threads.map (fun ops => ops.map critical))

/-- run a schedule on a fresh table -/
def runTable (threads : List (List Op)) (sched : List Nat) : RWLock.Config State Obs Out :=
  RWLock.run (tableProgram threads) init sched

/-- the operation a call id names (`clean` for an id outside the program; never used there) -/
def opAt (threads : List (List Op)) (id : RWLock.CallId) : Op :=
  ((threads[id.1]?.getD [])[id.2]?).getD .clean

/-- a call of a run as an event of a concurrent history: invocation = its acquire, response = its release -/
def evOf (threads : List (List Op)) (cfg : RWLock.Config State Obs Out) (id : RWLock.CallId) : Ev :=
  ⟨opAt threads id, (cfg.resultOf id).getD .panic, cfg.acqTime id, cfg.relTime id⟩

/-- the concurrent history of a run -/
def tableEvents (threads : List (List Op)) (sched : List Nat) : List Ev :=
  (RWLock.allCalls (tableProgram threads)).map (evOf threads (runTable threads sched))

/-! ## what the discipline is for: `RegisterName` under the *read* lock -/

/-- `RegisterName` with `mu.Lock()` replaced by `mu.RLock()`: same body, read mode -/
def registerUnderRLock (n : Name) (t : NameType) (o : IP) (past : Bool) : RawCall State Obs Out :=
  ⟨.read, [lookupW n, updateW (registerUpdate n t o past)], resultOf⟩

/-- two threads register the same unique name for different addresses -/
def racyProgram : RWLock.Program State Obs Out :=
  [[registerUnderRLock 0 .unique 1 false], [registerUnderRLock 0 .unique 2 false]]

/-- both acquire (read locks are shared), both look up (nothing there), both insert, both release -/
def racySchedule : List Nat := [0, 1, 0, 1, 0, 1, 0, 1]

end Manticore.C17
