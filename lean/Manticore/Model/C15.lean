/-
  C15 — model of the Windows time / duration conversions:
    windows/ms_dtyp/common/data_structures/FILETIME.go   NewFILETIMEFromTime, ToInt64, GetTime, GetUnixTimestamp
    network/ldap/utils.go                                ConvertLDAPTimeStampToUnixTimeStamp, ConvertUnixTimeStampToLDAPTimeStamp,
                                                         ConvertLDAPDurationToSeconds, ConvertSecondsToLDAPDuration
    windows/keycredential/utils/{DateTime,utils}.go      NewDateTime, ToTicks, ToBytes, ConvertFromBinaryTime, ConvertToBinaryTime
    crypto/uuid/uuid_v1, uuid_v2                          GetTime, SetTime
  in the exact Go arithmetic (`Int64` / `UInt64` with wrap-around, truncating division), and the
  same conversions in unbounded integers (`Spec.*`).

  A Go `time.Time` is observed through `Unix()` (seconds, `int64`) and `Nanosecond()` (0 ≤ ns < 10⁹);
  `time.Unix(sec, nsec)` is modelled with its normalisation.  The decimal-text primitives
  (`strconv.ParseUint`, `fmt %d`) are the ones of `Manticore/Model/C20.lean`.

  The model is of the tree with the patches `fixes/C15-*.diff` applied.
-/
import Manticore.Basic
import Manticore.Model.C20
namespace Manticore.C15
open Manticore

/-! ## Go primitives -/

/-- `time.Unix(sec, nsec)` observed as `(t.Unix(), t.Nanosecond())`: `nsec` outside `[0, 10⁹)` is
    carried into the seconds (Go's code, line by line) -/
def goUnix (sec nsec : Int64) : Int64 × Int64 :=
  if nsec < 0 || nsec ≥ 1000000000 then
    let n := nsec / 1000000000
    let sec := sec + n
    let nsec := nsec - n * 1000000000
    if nsec < 0 then (sec - 1, nsec + 1000000000) else (sec, nsec)
  else (sec, nsec)

/-- `strconv.ParseInt(s, 10, 64)`: optional sign, then `ParseUint(rest, 10, 64)`, then the range
    check `[-2⁶³, 2⁶³)`; `none` is a returned error -/
def parseInt64 (s : Bytes) : Option Int64 :=
  match s with
  | [] => none
  | c :: rest =>
    let neg := c == 45
    let digits := if c == 43 || c == 45 then rest else s
    match C20.parseUint 10 64 digits with
    | none => none
    | some un =>
      if !neg && un ≥ 2 ^ 63 then none
      else if neg && un > 2 ^ 63 then none
      else some (if neg then Int64.ofInt (-(un : Int)) else Int64.ofInt un)

/-- `fmt.Sprintf("%d", v)` for an `int64` -/
def showInt64 (v : Int64) : Bytes :=
  if v < 0 then 45 :: C20.dec (-v.toInt).toNat else C20.dec v.toInt.toNat

/-! ## FILETIME -/

/-- `UnixTimestampIn100NsIntervals` = `UnixTimestampStart` -/
def epochTicks : Int64 := 116444736000000000

/-- `NewFILETIMEFromTime` (patched), as the 64-bit value before it is split into two halves -/
def filetimeOfTime (sec nsec : Int64) : Int64 :=
  sec * 10000000 + nsec / 100 + epochTicks

/-- the two halves stored in the structure: `uint32(value & 0xFFFFFFFF)`, `uint32((value >> 32) & 0xFFFFFFFF)` -/
def filetimeSplit (value : Int64) : UInt32 × UInt32 :=
  ((value &&& 0xFFFFFFFF).toUInt64.toUInt32, ((value >>> 32) &&& 0xFFFFFFFF).toUInt64.toUInt32)

/-- `ToInt64`: `(int64(hi) & 0xFFFFFFFF << 32) | (int64(lo) & 0xFFFFFFFF)`
    (`&` and `<<` have the same precedence in Go and associate to the left) -/
def filetimeToInt64 (lo hi : UInt32) : Int64 :=
  ((hi.toUInt64.toInt64 &&& 0xFFFFFFFF) <<< 32) ||| (lo.toUInt64.toInt64 &&& 0xFFFFFFFF)

/-- `GetTime` (patched) on the 64-bit value -/
def filetimeGetTime (ticks : Int64) : Int64 × Int64 :=
  goUnix (ticks / 10000000 - epochTicks / 10000000) ((ticks % 10000000) * 100)

/-- `GetUnixTimestamp` = `GetTime().Unix()` -/
def filetimeUnix (ticks : Int64) : Int64 := (filetimeGetTime ticks).1

/-! ## LDAP -/

/-- `ConvertLDAPTimeStampToUnixTimeStamp` (patched): empty or unparsable input gives 0, tick
    counts before 1970 are clamped to 0 -/
def ldapToUnix (value : Bytes) : Int64 :=
  if value.length ≠ 0 then
    match parseInt64 value with
    | none => 0
    | some v => if v < epochTicks then 0 else (v - epochTicks) / 10000000
  else 0

/-- `ConvertUnixTimeStampToLDAPTimeStamp`: `value.Unix() * 1e7 + UnixTimestampStart` -/
def unixToLdap (sec : Int64) : Int64 := sec * 10000000 + epochTicks

/-- `ConvertLDAPDurationToSeconds` (patched) -/
def ldapDurationToSeconds (value : Bytes) : Int64 :=
  if value.length ≠ 0 then
    match parseInt64 value with
    | none => 0
    | some v =>
      let q := v / 10000000
      if q < 0 then -q else q
  else 0

/-- `ConvertSecondsToLDAPDuration`: `fmt.Sprintf("%d", value*int64(1e7))` -/
def secondsToLdapDuration (v : Int64) : Bytes := showInt64 (v * 10000000)

/-! ## key credentials -/

/-- result of `NewDateTime`: for tick count 0 the function reads the clock -/
inductive KcTime where
  | now
  | at (ticks : UInt64) (sec nsec : Int64)
  deriving DecidableEq, Repr

/-- `NewDateTime` (patched): `Ticks` is kept, `Time = time.Unix(int64(ticks/1e7) - 11644473600, int64(ticks%1e7)*100)` -/
def newDateTime (ticks : UInt64) : KcTime :=
  if ticks == 0 then .now
  else
    let t := goUnix ((ticks / 10000000).toInt64 - 11644473600) ((ticks % 10000000).toInt64 * 100)
    .at ticks t.1 t.2

/-- `ConvertFromBinaryTime`: `binary.LittleEndian.Uint64(raw)`; fewer than 8 bytes read as tick 0
    (after `fixes/C07-keycredential-binarytime-short.diff`; the function has no error result); a
    stored zero stays tick 0 = 1601-01-01 (it does not go through `NewDateTime`'s "now" branch);
    otherwise `NewDateTime` on every version/source branch -/
def convertFromBinaryTime (raw : Bytes) : Outcome KcTime :=
  match raw with
  | b0 :: b1 :: b2 :: b3 :: b4 :: b5 :: b6 :: b7 :: _ =>
    let ticks := le64 b0 b1 b2 b3 b4 b5 b6 b7
    if ticks == 0 then .ok (.at 0 (-11644473600) 0) else .ok (newDateTime ticks)
  | _ => .ok (.at 0 (-11644473600) 0)

/-- `ConvertToBinaryTime` (patched): `uint64(date.Unix()+11644473600)*1e7 + uint64(date.Nanosecond()/100)`, little endian -/
def binaryTimeTicks (sec nsec : Int64) : UInt64 :=
  (sec + 11644473600).toUInt64 * 10000000 + (nsec / 100).toUInt64

def convertToBinaryTime (sec nsec : Int64) : Bytes := putLe64 (binaryTimeTicks sec nsec)

/-! ## UUID v1 / v2 timestamps (epoch 1582-10-15) -/

/-- `UUIDv1Epoch` = `UUIDv2Epoch` -/
def uuidEpoch : UInt64 := 122192928000000000

/-- `GetTime` (patched) -/
def uuidGetTime (ts : UInt64) : Int64 × Int64 :=
  goUnix ((ts / 10000000).toInt64 - (uuidEpoch / 10000000).toInt64) ((ts % 10000000).toInt64 * 100)

/-- `SetTime` (patched): the stored `Time` field -/
def uuidSetTime (sec nsec : Int64) : UInt64 :=
  (sec + (uuidEpoch / 10000000).toInt64).toUInt64 * 10000000 + (nsec / 100).toUInt64

/-! ## Specification: the same conversions in unbounded integers -/
namespace Spec

/-- a point in time: whole seconds since 1970-01-01T00:00:00Z and nanoseconds within the second -/
structure Time where
  sec : Int
  nsec : Nat
  deriving DecidableEq, Repr

/-- seconds from 1601-01-01 to 1970-01-01 (MS-DTYP FILETIME epoch) -/
def sec1601 : Int := 11644473600
/-- seconds from 1582-10-15 to 1970-01-01 (RFC 4122 epoch) -/
def sec1582 : Int := 12219292800

/-- tick count (100 ns units since the epoch `e` seconds before 1970) of a time, rounded down -/
def ticksOfTime (e : Int) (t : Time) : Int := (t.sec + e) * 10000000 + t.nsec / 100

/-- the time a tick count denotes (`/` and `%` round towards −∞ on `Int`) -/
def timeOfTicks (e : Int) (k : Int) : Time := ⟨k / 10000000 - e, (k % 10000000).toNat * 100⟩

/-- Unix seconds of an LDAP tick count, with the library's documented clamp of pre-1970 values to 0 -/
def ldapToUnix (v : Int) : Int := if v < sec1601 * 10000000 then 0 else (v - sec1601 * 10000000) / 10000000

/-- LDAP tick count of whole Unix seconds -/
def unixToLdap (sec : Int) : Int := sec * 10000000 + sec1601 * 10000000

/-- seconds in an LDAP interval (intervals are stored negated; the magnitude counts) -/
def durationToSeconds (v : Int) : Int := v.natAbs / 10000000

/-- LDAP interval of a number of seconds, as the library defines it (sign kept) -/
def secondsToDuration (s : Int) : Int := s * 10000000

/-- arbitrary-precision decimal text of an integer (`%d`) -/
def showInt (n : Int) : Bytes := if n < 0 then 45 :: C20.dec n.natAbs else C20.dec n.toNat

/-- a time truncated to the 100 ns resolution of a tick count -/
def trunc100 (t : Time) : Time := ⟨t.sec, t.nsec / 100 * 100⟩

end Spec

/-- the model's `(Unix(), Nanosecond())` pair as a `Spec.Time` -/
def toTime (p : Int64 × Int64) : Spec.Time := ⟨p.1.toInt, p.2.toInt.toNat⟩

/-- executable predicate of the recorded finding `sec2dur.overflow`: `value * 1e7` leaves `int64` -/
def KnownBad_sec2dur_overflow (v : Int64) : Bool :=
  decide (v.toInt * 10000000 < -9223372036854775808 ∨ 9223372036854775807 < v.toInt * 10000000)

/-- executable predicate of the recorded finding `kc.tick0-is-now` -/
def KnownBad_kc_tick0 (ticks : UInt64) : Bool := ticks == 0

end Manticore.C15
