/-
  C18 — the mechanisms behind "stops cleanly" and "isolates", as small transition systems.  Each has a parameter
  that is a FACT of the source, regenerated on every run (`Gen/ServerFacts2.lean`, tools/extract/server_facts2.go):

  A. `llmnr.Client.readLoop` handing a response to the waiting `Query` through the query's 1-buffered channel:
     `nb` = "the send is a `case` of a `select` with a `default:`" (fact `Handoff.nonBlocking`).
  B. `nbtns.TCPServer`: the registry `tcpConns` of live connections, `handleConnection`, and `Stop` closing what the
     registry holds: the keys are a parameter (fact `Registry.keyKind`: the peer address of the connection).
  C. `sync.WaitGroup` of the NBNS servers: `addBefore` = "`wg.Add(1)` is a statement before the `go` statement, executed
     by a goroutine that holds a count itself" and `doneAlways` = "`wg.Done()` is deferred as the first statement of the
     goroutine" (facts `Spawn.addBeforeGo/addInGoroutine/done/siteHoldsCount`, `Stop.closeBeforeWait`).
  D. where the private copy of a datagram is taken: in the loop body before the `go` statement, or by the goroutine
     (fact `Spawn.copyPlace`), on the world model of `Model/C18.lean`.
  E. `logger.LoggerLock`, a non-reentrant mutex: threads as programs of acquire / release / work
     (fact `Held.calls`: what is called while `logger.Lock()` is held, and whether it acquires the lock).

  Core Lean only.
-/
import Manticore.Model.C18
import Manticore.Gen.ServerFacts2
namespace Manticore.C18
open Manticore

/-! ## association lists keyed by numbers (`sync.Map` as a value) -/

def alookup {α : Type} : List (Nat × α) → Nat → Option α
  | [], _ => none
  | (k, v) :: l, id => if k = id then some v else alookup l id
def aerase {α : Type} (l : List (Nat × α)) (id : Nat) : List (Nat × α) := l.filter (fun p => decide (p.1 ≠ id))
def aput {α : Type} (l : List (Nat × α)) (id : Nat) (v : α) : List (Nat × α) := (id, v) :: aerase l id

/-! ## A. the read loop of the LLMNR client and the channel of a query -/

/-- an entry of `Client.Queries`: the channel `make(chan *Message, 1)` (`buf` = what it holds) and whether `Query`
    has received from it (`Query` receives at most once: its `select` returns, then the deferred `Delete` runs) -/
structure QChan where
  buf : Option Msg
  taken : Bool
  deriving DecidableEq, Repr

/-- `readLoop` blocked in `ch <- msg`; `live`: `ch` is still the channel registered under `msg.id` -/
structure Parked where
  msg : Msg
  live : Bool
  deriving DecidableEq, Repr

structure Client where
  qs : List (Nat × QChan)
  parked : Option Parked
  closed : Bool
  deriving DecidableEq, Repr

def cinit : Client := ⟨[], none, false⟩

inductive CEv
  | store (id : Nat)      -- `Query`: `c.Queries.Store(msg.ID, responseChan)`
  | delete (id : Nat)     -- `defer c.Queries.Delete(msg.ID)`
  | recv (m : Msg)        -- a datagram is there for `readLoop` to read
  | take (id : Nat)       -- `Query`: `case resp := <-responseChan`
  | close                 -- `Client.Close`
  deriving DecidableEq, Repr

/-- the loop no longer refers to the channel registered under `id` once that entry is replaced or deleted -/
def orphan (p : Option Parked) (id : Nat) : Option Parked :=
  p.map (fun p => if p.msg.id = id then { p with live := false } else p)

/-- `nb`: is the hand-off `select { case ch <- msg: default: }` (true) or a plain `ch <- msg` (false)? -/
def cstep (nb : Bool) (c : Client) : CEv → Client
  | .store id => { c with qs := aput c.qs id ⟨none, false⟩, parked := orphan c.parked id }
  | .delete id => { c with qs := aerase c.qs id, parked := orphan c.parked id }
  | .close => { c with closed := true }
  | .take id =>
    match alookup c.qs id with
    | some ⟨some _, false⟩ =>
      match c.parked with
      | some ⟨m, true⟩ =>
        if m.id = id then { c with qs := aput c.qs id ⟨some m, true⟩, parked := none }   -- the blocked send completes
        else { c with qs := aput c.qs id ⟨none, true⟩ }
      | _ => { c with qs := aput c.qs id ⟨none, true⟩ }
    | _ => c
  | .recv m =>
    if c.parked.isSome then c             -- the loop is in a send, not at its read: nothing is read
    else if !m.response then c
    else match alookup c.qs m.id with
      | some ⟨none, t⟩ => { c with qs := aput c.qs m.id ⟨some m, t⟩ }       -- room in the channel: sent
      | some ⟨some _, _⟩ => if nb then c else { c with parked := some ⟨m, true⟩ }   -- full: `default:` / blocks
      | none => c

def crun (nb : Bool) (c : Client) (evs : List CEv) : Client := evs.foldl (cstep nb) c

/-- the loop returns once `Closed` is closed — if it gets to its `select`, i.e. is not blocked in a send -/
def loopCanExit (c : Client) : Bool := c.closed && c.parked.isNone

/-- blocked for ever: on a channel nobody will receive from again (its `Query` has received already, or the entry is
    gone) -/
def wedged (c : Client) : Bool :=
  match c.parked with
  | none => false
  | some p => !p.live || (match alookup c.qs p.msg.id with | some ch => ch.taken | none => false)

/-! ## B. the TCP server's connection registry -/

inductive HPc | atStore | atSelect | inRead | exited
  deriving DecidableEq, Repr

/-- one accepted connection and its `handleConnection` goroutine -/
structure HConn where
  key : Nat          -- the value of the registry's key expression for this connection
  pc : HPc
  closed : Bool
  deriving DecidableEq, Repr

structure Tcp where
  n : Nat                    -- connections accepted so far
  conn : Nat → HConn
  reg : List (Nat × Nat)     -- `tcpConns`: key ↦ connection
  quit : Bool

def tinit : Tcp := ⟨0, fun _ => ⟨0, .exited, true⟩, [], false⟩

def upd {α : Type} (f : Nat → α) (i : Nat) (v : α) : Nat → α := fun j => if j = i then v else f j

inductive TEv
  | accept (key : Nat)             -- `serve`: `conn := Accept(); wg.Add(1); go s.handleConnection(conn)`
  | hstep (i : Nat) (ok : Bool)    -- the handler of connection `i` moves; `ok`: a pending read returns data
  | closeQuit                      -- `Stop`: `close(s.quit)` (and the listener)
  | rangeClose                     -- `Stop`: `s.tcpConns.Range(… conn.Close() …)`
  deriving DecidableEq, Repr

/-- the handler returns: deferred `tcpConns.Delete(key)`, then deferred `conn.Close(); wg.Done()` -/
def texit (t : Tcp) (i : Nat) : Tcp :=
  { t with reg := aerase t.reg (t.conn i).key, conn := upd t.conn i { t.conn i with pc := .exited, closed := true } }

def tstep (t : Tcp) : TEv → Tcp
  | .accept k => { t with n := t.n + 1, conn := upd t.conn t.n ⟨k, .atStore, false⟩ }
  | .hstep i ok =>
    match (t.conn i).pc with
    | .atStore => { t with reg := aput t.reg (t.conn i).key i, conn := upd t.conn i { t.conn i with pc := .atSelect } }
    | .atSelect => if t.quit then texit t i else { t with conn := upd t.conn i { t.conn i with pc := .inRead } }
    | .inRead => if ok then { t with conn := upd t.conn i { t.conn i with pc := .atSelect } } else texit t i
    | .exited => t
  | .closeQuit => { t with quit := true }
  | .rangeClose => { t with conn := fun j => if t.reg.any (fun p => p.2 == j) then { t.conn j with closed := true } else t.conn j }

def trun (t : Tcp) (evs : List TEv) : Tcp := evs.foldl tstep t

/-- what the environment may do: a new connection's key differs from the key of every connection that is still
    live (the hypothesis "the key is unique per live connection"); a read on a closed connection fails -/
def tvalid (t : Tcp) : TEv → Prop
  | .accept k => ∀ j, (t.conn j).pc ≠ .exited → (t.conn j).key ≠ k
  | .hstep i ok => (t.conn i).pc = .inRead → (t.conn i).closed = true → ok = false
  | _ => True

def TValid : Tcp → List TEv → Prop
  | _, [] => True
  | t, e :: es => tvalid t e ∧ TValid (tstep t e) es

/-- only "a read on a closed connection fails" (no assumption on the keys) -/
def treads (t : Tcp) : TEv → Prop
  | .hstep i ok => (t.conn i).pc = .inRead → (t.conn i).closed = true → ok = false
  | _ => True

/-- steps of handler `i` in a schedule -/
def hsteps (i : Nat) : List TEv → Nat
  | [] => 0
  | .hstep j _ :: es => (if j = i then 1 else 0) + hsteps i es
  | _ :: es => hsteps i es

/-! ## C. the WaitGroup of an NBNS server -/

/-- the serve goroutine: in its loop / has executed `wg.Add(1)` and is about to `go` / has returned -/
inductive SPc | running | added | exited
  deriving DecidableEq, Repr

structure WG where
  counter : Nat
  quit : Bool
  waiting : Bool        -- `Stop` has reached `wg.Wait()`
  returned : Bool       -- `Wait` has returned
  misuse : Bool         -- `Add` from zero while a `Wait` is in progress, or `Done` below zero (the documented misuses; panics)
  serve : SPc
  born : Nat            -- goroutines started whose `Add` (inside the goroutine) has not run yet
  working : Nat         -- goroutines running
  finished : Nat
  leaked : Nat          -- goroutines that returned without `Done`
  deriving DecidableEq, Repr

/-- after `Start`: `wg.Add(1); go s.serve()` -/
def wginit : WG := ⟨1, false, false, false, false, .running, 0, 0, 0, 0⟩

inductive WEv
  | serve (exit : Bool)     -- the serve goroutine moves; `exit`: it sees the closed quit channel and returns
  | hstart                  -- a started goroutine begins (with its `Add` when that is inside the goroutine)
  | hfinish (early : Bool)  -- a goroutine returns; `early`: through an early `return`
  | stopClose               -- `Stop`: `close(quit)`
  | waitStart               -- `Stop`: enters `wg.Wait()` (after the close: fact `closeBeforeWait`)
  | waitReturn              -- `Wait` returns: enabled iff the counter is zero
  deriving DecidableEq, Repr

def wgAdd (w : WG) : WG := { w with counter := w.counter + 1, misuse := w.misuse || (w.counter == 0 && w.waiting) }
def wgDone (w : WG) : WG := { w with counter := w.counter - 1, misuse := w.misuse || w.counter == 0 }

/-- `addBefore`: `wg.Add(1)` is executed by the spawning loop before the `go` statement (else: first thing in the
    goroutine); `doneAlways`: `defer wg.Done()` first in the goroutine (else: `wg.Done()` as last statement, skipped by
    early returns). -/
def wgstep (addBefore doneAlways : Bool) (w : WG) : WEv → WG
  | .serve exit =>
    match w.serve with
    | .exited => w
    | .running =>
      if exit && w.quit then { wgDone w with serve := .exited }            -- `return`; deferred `wg.Done()`
      else if addBefore then { wgAdd w with serve := .added }                -- `wg.Add(1)`
      else { w with born := w.born + 1 }                                     -- `go handle(…)`
    | .added => { w with serve := .running, working := w.working + 1 }       -- `go handle(…)`
  | .hstart => if w.born = 0 then w else { wgAdd w with born := w.born - 1, working := w.working + 1 }
  | .hfinish early =>
    if w.working = 0 then w
    else if early && !doneAlways then { w with working := w.working - 1, finished := w.finished + 1, leaked := w.leaked + 1 }
    else { wgDone w with working := w.working - 1, finished := w.finished + 1 }
  | .stopClose => { w with quit := true }
  | .waitStart => if w.quit then { w with waiting := true } else w
  | .waitReturn => if w.waiting && w.counter == 0 then { w with returned := true } else w

def wgrun (addBefore doneAlways : Bool) (w : WG) (evs : List WEv) : WG := evs.foldl (wgstep addBefore doneAlways) w

/-! ## D. where the goroutine's copy of the datagram is taken -/

inductive Step2
  | recv (client : Nat) (dgram : Bytes)   -- the loop reads a datagram and starts a goroutine
  | copy (i : Nat)                         -- goroutine `i` executes `data := make([]byte, n); copy(data, buf[:n])`
  | run (i : Nat)                          -- goroutine `i` handles its bytes and responds
  deriving DecidableEq, Repr

/-- `before`: the copy is a statement of the loop body before `go` (the goroutine is born with its own bytes);
    otherwise the goroutine is born with `buf` and `n` and copies when it is scheduled. -/
def wstep2 {σ : Type} (respond : σ → Bytes → σ × Bytes) (before : Bool) (w : World σ) : Step2 → World σ
  | .recv c d => wstep respond before w (.recv c d)
  | .copy i =>
    match w.tasks[i]? with
    | some ⟨c, .shared n⟩ => { w with tasks := w.tasks.set i ⟨c, .owned (w.buf.take n)⟩ }
    | _ => w
  | .run i => wstep respond before w (.run i)

def wrun2 {σ : Type} (respond : σ → Bytes → σ × Bytes) (before : Bool) (w : World σ) (sched : List Step2) : World σ :=
  sched.foldl (wstep2 respond before) w

/-! ## E. a non-reentrant mutex -/

inductive LInstr | acquire | release | work
  deriving DecidableEq, Repr

structure LState where
  owner : Option Nat
  prog : Nat → List LInstr      -- what each thread still has to execute

/-- can thread `t` take its next step? `sync.Mutex.Lock` proceeds iff nobody holds the mutex — the caller included -/
def lenabled (s : LState) (t : Nat) : Bool :=
  match s.prog t with
  | [] => false
  | .acquire :: _ => s.owner.isNone
  | _ => true

def lstep (s : LState) (t : Nat) : LState :=
  match s.prog t with
  | [] => s
  | .acquire :: rest => if s.owner.isNone then ⟨some t, upd s.prog t rest⟩ else s
  | .release :: rest => ⟨if s.owner = some t then none else s.owner, upd s.prog t rest⟩
  | .work :: rest => ⟨s.owner, upd s.prog t rest⟩

def lrun (s : LState) (sched : List Nat) : LState := sched.foldl lstep s

/-- a program that never acquires while holding, never releases what it does not hold, and ends without the lock;
    `held`: does the thread hold the mutex at this point -/
def wellNested : Bool → List LInstr → Bool
  | held, [] => !held
  | false, .acquire :: r => wellNested true r
  | true, .acquire :: _ => false
  | true, .release :: r => wellNested false r
  | false, .release :: _ => false
  | h, .work :: r => wellNested h r

/-- the program of a function that takes `logger.Lock()` and, holding it, calls the listed logger functions -/
def heldProgram (h : Gen.ServerFacts2.Held) : List LInstr :=
  .acquire :: h.calls.flatMap (fun c => if c.2 then [.acquire, .work, .release] else [.work]) ++ [.release]

end Manticore.C18
