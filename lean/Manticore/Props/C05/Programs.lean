/-
  C05 — the facts the kernel decides on the marshal programs regenerated from the Go source
  (`Gen/SmbCommands.lean`): which command structures pass the static predicate `Conforms`
  (Model/SmbConforms.lean), and for the others which clause they fail.
  Property theorems only.  What `Conforms` buys for all field values is `conforms_sound` in
  `Props/C05.lean`.
-/
import Manticore.Model.SmbConforms
import Manticore.Gen.SmbCommands
namespace Manticore.C05
open Manticore Manticore.SmbIR Manticore.Gen.SmbCommands

theorem command_count : commands.length = 115 := by decide +kernel

/-- **Every marshal program conforms** except the seven listed: all integer emissions are
    little-endian and exactly as wide as the declared type (UCHAR 1, USHORT 2, ULONG 4,
    LARGE_INTEGER 8); raw appends are of `UCHAR` arrays and nested `Marshal` calls of the declared
    nested structure; within the parameter block and within the data block the emissions are exactly
    the declared fields of that block, each once, in declaration order (parameters declared before
    data); no field is assigned after it went out; no declared field is left out.
    `WriteRequest` puts its data buffer ahead of the parameter block; the other six never emit one
    of their declared fields (`commands_dropping_fields`). -/
theorem non_conforming_commands :
    (commands.filter (fun c => !Conforms c)).map (·.name) =
      ["LockAndReadResponse", "NegotiateRequest", "NegotiateResponse", "OpenAndxResponse",
       "QueryInformationResponse", "ReadResponse", "WriteRequest"] := by decide +kernel

/-- the part of `Conforms` that `conforms_sound` rests on (everything but "no declared field is left
    out") fails for `WriteRequest` only -/
theorem core_non_conforming_commands :
    (commands.filter (fun c => !ConformsCore c)).map (·.name) = ["WriteRequest"] := by decide +kernel

/-- **Declared fields no statement of `Marshal` emits** (not even under a condition), per command:
    e.g. `OpenAndxResponse.Marshal` has the comment "Marshalling parameter NMPipeStatus" with no code
    under it and never mentions `Reserved`, so the structure goes out 8 bytes short of its declared
    layout.  (`WriteRequest.Data` is emitted, but ahead of the parameter block, so it is not listed.) -/
theorem commands_dropping_fields :
    (commands.filter (fun c => !allEmitted c)).map
        (fun c => (c.name, (c.fields.map (·.1)).filter (fun f => !(emittedDeep c.marshal).contains f))) =
      [("LockAndReadResponse", ["Reserved"]), ("NegotiateRequest", ["WordCount"]),
       ("NegotiateResponse", ["ServerName"]), ("OpenAndxResponse", ["NMPipeStatus", "Reserved"]),
       ("QueryInformationResponse", ["Reserved"]), ("ReadResponse", ["Reserved"])] := by decide +kernel

/-- the commands outside the straight-line fragment (a loop over a list field, a field emitted under
    a condition, bytes ahead of the parameter block): `Spec.Cifs.encode` is silent on them, so
    `conforms_sound` says nothing there and they are covered by the differential run only -/
theorem commands_outside_straight_line :
    (commands.filter (fun c => (layoutM c.marshal).isNone)).map (·.name) =
      ["FindResponse", "FindUniqueResponse", "LockingAndxRequest", "OpenAndxRequest", "ReadRawRequest",
       "TransactionRequest", "WriteAndCloseRequest", "WriteAndxRequest", "WriteRawRequest",
       "WriteRequest"] := by decide +kernel

end Manticore.C05
