/-
  C05 — the facts the kernel decides on the marshal programs regenerated from the Go source
  (`Gen/SmbCommands.lean`): which command structures pass the static predicate `Conforms`
  (Model/SmbConforms.lean), and for the others which clause they fail.
  Property theorems only.  What `Conforms` buys for all field values is `conforms_sound` in
  `Props/C05.lean`.
-/
import Manticore.Model.SmbConforms
import Manticore.Gen.SmbCommands
namespace Manticore.C05
open Manticore Manticore.SmbIR Manticore.Gen.SmbCommands

theorem command_count : commands.length = 115 := by decide +kernel

/-- **Every marshal program conforms**: all integer emissions are
    little-endian and exactly as wide as the declared type (UCHAR 1, USHORT 2, ULONG 4,
    LARGE_INTEGER 8); raw appends are of `UCHAR` arrays and nested `Marshal` calls of the declared
    nested structure; within the parameter block and within the data block the emissions are exactly
    the declared fields of that block, each once, in declaration order (parameters declared before
    data); no field is assigned after it went out; no declared field is left out; nothing goes ahead of the
    parameter block.  (`WriteRequest` once put its data buffer there — repaired, fixes/C04-writerequest-data-block.diff;
    six more once never emitted one of their declared fields — `commands_dropping_fields`, now empty, fixes/C04-*.diff.) -/
theorem non_conforming_commands :
    (commands.filter (fun c => !Conforms c)).map (·.name) = [] := by decide +kernel

/-- the part of `Conforms` that `conforms_sound` rests on (everything but "no declared field is left
    out") fails for no command -/
theorem core_non_conforming_commands :
    (commands.filter (fun c => !ConformsCore c)).map (·.name) = [] := by decide +kernel

/-- **Declared fields no statement of `Marshal` emits** (not even under a condition), per command: none any more.
    (Before the repairs: LockAndReadResponse.Reserved, NegotiateRequest.WordCount, NegotiateResponse.ServerName,
    OpenAndxResponse.NMPipeStatus and .Reserved, QueryInformationResponse.Reserved, ReadResponse.Reserved.
    `WriteRequest.Data` was emitted, but ahead of the parameter block, so it was never listed.) -/
theorem commands_dropping_fields :
    (commands.filter (fun c => !allEmitted c)).map
        (fun c => (c.name, (c.fields.map (·.1)).filter (fun f => !(emittedDeep c.marshal).contains f))) =
      [] := by decide +kernel

/-- the commands outside the straight-line fragment (a loop over a list field, a field emitted under
    a condition, literal terminator bytes): `Spec.Cifs.encode` is silent on them, so
    `conforms_sound` says nothing there and they are covered by the differential run only -/
theorem commands_outside_straight_line :
    (commands.filter (fun c => (layoutM c.marshal).isNone)).map (·.name) =
      ["FindResponse", "FindUniqueResponse", "LockAndReadResponse", "LockingAndxRequest",
       "NegotiateResponse", "OpenAndxRequest", "OpenAndxResponse", "QueryInformationResponse",
       "ReadRawRequest", "TransactionRequest", "WriteAndCloseRequest", "WriteAndxRequest",
       "WriteRawRequest"] := by decide +kernel

/-- **Loops over list fields, proved**: of the commands outside the straight-line fragment exactly these eight
    pass `ConformsLists` — `Conforms`, and nothing but straight-line statements and `range` loops over a
    field declared as an array of integers (little-endian at the element width) or as a list of the nested
    structure marshalled.  `conforms_lists_sound` (Props/C05.lean) turns this into: for all field values
    the bytes `Marshal` emits are those of `Spec.Cifs.encodeLists`. -/
theorem lists_conforming_commands :
    (commands.filter (fun c => (layoutM c.marshal).isNone && ConformsLists c)).map (·.name) =
      ["FindResponse", "FindUniqueResponse", "LockAndReadResponse", "LockingAndxRequest", "OpenAndxRequest",
       "OpenAndxResponse", "QueryInformationResponse", "TransactionRequest"] := by
  decide +kernel

/-- `ConformsLists` extends the straight-line case: every straight-line command that passes `Conforms`
    passes it too (there `Spec.Cifs.encodeLists` and `Spec.Cifs.encode` are the same encoder) -/
theorem lists_conforming_extends :
    commands.all (fun c => !(Conforms c && (layoutM c.marshal).isSome) || ConformsLists c) = true := by
  decide +kernel

/-- **One optional parameter field, proved**: exactly these four commands pass `ConformsOptional` —
    `Conforms`, one statement `if c.F != 0 { … }` whose body emits `F` (full declared width, little-endian)
    into the parameter block and nothing else, no other emission of `F`, everything else straight-line or
    a loop.  `conforms_optional_sound` turns this into: for all field values the bytes are those of
    `Spec.Cifs.encodeOptional` (short form for a zero field, long form otherwise). -/
theorem optional_conforming_commands :
    (commands.filter ConformsOptional).map (fun c => (c.name, Manticore.Spec.Cifs.optionalFields c.marshal)) =
      [("ReadRawRequest", ["OffsetHigh"]), ("WriteAndCloseRequest", ["Reserved"]),
       ("WriteAndxRequest", ["OffsetHigh"]), ("WriteRawRequest", ["OffsetHigh"])] := by decide +kernel

/-- **What is still outside every proved fragment**: of the thirteen commands outside the straight-line
    fragment, one passes neither `ConformsLists` nor `ConformsOptional` — `NegotiateResponse` writes the two-byte
    terminators of `DomainName` and `ServerName` as literal bytes, of which the encoders over the declared field list
    have no notion (its `Conforms` clauses hold).  On it the three MS-CIFS encoders are silent and only
    the differential run speaks.  (`ReadRawRequest` left this list with fixes/C04-readraw-request-offsethigh.diff:
    `OffsetHigh` is emitted iff non-zero now; `WriteRequest` with fixes/C04-writerequest-data-block.diff: its program is
    straight-line now and passes `Conforms`, so `conforms_sound` speaks about it.) -/
theorem commands_outside_proved_fragments :
    (commands.filter (fun c => (layoutM c.marshal).isNone && !ConformsLists c && !ConformsOptional c)).map
        (fun c => (c.name, extFailures c)) =
      [("NegotiateResponse", ["statement shape"])] := by decide +kernel

/-- the nested structures `Marshal` loops over (`for _, x := range c.F { x.Marshal() }`) are these two -/
theorem list_element_types :
    commands.all (fun c => c.marshal.all (fun s => match s with
      | .forSub _ _ typ => ["LOCKING_ANDX_RANGE64", "SMB_DIRECTORY_INFORMATION"].contains typ
      | _ => true)) = true := by decide +kernel

end Manticore.C05
