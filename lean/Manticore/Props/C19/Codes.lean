/-
  C19, named constants — theorems about the REGENERATED code → name tables (`Gen/C19Codes.lean`:
  command codes, the three sub-command families, session message types, the enumerations of
  ldap_attributes and keycredential/key), quantified over the whole generated list `Gen.codeTables`.
-/
import Manticore.Lemmas.C19
import Manticore.Gen.C19Codes
namespace Manticore.C19
open Manticore

/-! ### the side conditions, decided by the kernel on the generated tables
A removed row, a duplicated name, an empty or placeholder name in /repo makes one of these four theorems
fail to check (its name says which clause broke). -/

/-- no table lists a key twice -/
theorem code_tables_have_distinct_keys : ∀ t ∈ Gen.codeTables, t.keysNodupB = true := by decide +kernel
/-- no table lists a name twice -/
theorem code_tables_have_distinct_names : ∀ t ∈ Gen.codeTables, t.namesNodupB = true := by decide +kernel
/-- every declared constant is a key of its table -/
theorem code_tables_name_every_constant : ∀ t ∈ Gen.codeTables, t.constsNamedB = true := by decide +kernel
/-- every name is non-empty and differs from what the function returns for an undeclared value -/
theorem code_tables_have_no_placeholder : ∀ t ∈ Gen.codeTables, t.noPlaceholderB = true := by decide +kernel

/-- all side conditions of every generated code table -/
theorem code_tables_ok : ∀ t ∈ Gen.codeTables, t.okB = true := by
  intro t ht
  simp only [CodeTable.okB, code_tables_have_distinct_keys t ht, code_tables_have_distinct_names t ht,
    code_tables_name_every_constant t ht, code_tables_have_no_placeholder t ht, Bool.and_self]

/-- **Every declared constant has a name** (aliases share the name of their value). -/
theorem every_declared_const_has_a_name :
    ∀ t ∈ Gen.codeTables, ∀ v ∈ t.consts, ∃ n, t.rows.lookup v = some n ∧ t.string v = t.wrapPre ++ n ++ t.wrapPost := by
  intro t ht v hv
  obtain ⟨n, h1, _⟩ := (CodeTable.okB_sound (code_tables_ok t ht)).named v hv
  exact ⟨n, h1, by simp [CodeTable.string, h1]⟩

/-- **Names are unique**: distinct declared values map to distinct names. -/
theorem names_injective_on_values :
    ∀ t ∈ Gen.codeTables, ∀ v₁ ∈ t.consts, ∀ v₂ ∈ t.consts, v₁ ≠ v₂ → t.string v₁ ≠ t.string v₂ :=
  fun t ht => (CodeTable.okB_sound (code_tables_ok t ht)).injective

/-- **No placeholder**: the name of a declared constant is non-empty and is not the text an undeclared
    value would get (`"UNKNOWN"`, `"CommandCode(%d)"`, …). -/
theorem no_placeholder :
    ∀ t ∈ Gen.codeTables, ∀ v ∈ t.consts, nonPlaceholder t v (t.string v) = true :=
  fun t ht => (CodeTable.okB_sound (code_tables_ok t ht)).noPlaceholder

/-- no table lists a key twice: the lookup does not depend on the order of the rows (map iteration) -/
theorem code_table_keys_distinct : ∀ t ∈ Gen.codeTables, (t.rows.map (·.1)).Nodup :=
  fun t ht => (CodeTable.okB_sound (code_tables_ok t ht)).keysDistinct

/-- non-vacuity: sixteen tables, the command-code table has its 75 constants -/
example : Gen.codeTables.length = 16 ∧ Gen.tblCommandCode.consts.length = 75 ∧
    (Gen.codeTables.map (fun t => t.consts.length)).sum ≥ 190 := by decide +kernel

end Manticore.C19
