/-
  C19, flag words — theorems about the REGENERATED flag families (`Gen/C19Flags.lean`: Flags, Flags2,
  Capabilities, SecurityMode, UserAccountControl, key-credential flags), quantified over the whole
  generated list `Gen.families`.  The side conditions are evaluated by the kernel on the tables
  (`families_ok`); everything else follows from the generic lemmas for ALL words.
-/
import Manticore.Lemmas.C19
import Manticore.Gen.C19Flags
namespace Manticore.C19
open Manticore

/-! ### the side conditions, decided by the kernel on the generated tables
A mask typo, a duplicated or missing row, a duplicated name or a predicate on the wrong mask in /repo
makes one of these four theorems fail to check (its name says which clause broke). -/

/-- every declared flag constant is zero or a single bit; no bit and no identifier is declared twice -/
theorem flag_constants_are_distinct_single_bits : ∀ f ∈ Gen.families, f.constsOkB = true := by decide +kernel

/-- every row of a decomposition tests exactly one bit with `w&B == B` / `w&B != 0`, no bit is tested
    twice; names are distinct, non-empty, free of the separator and different from the empty-result marker -/
theorem flag_rows_test_distinct_single_bits : ∀ f ∈ Gen.families, f.rowsOkB = true := by decide +kernel

/-- every row is about a declared constant and carries its name; every declared non-reserved bit of a
    family that has a decomposition function has a row -/
theorem flag_rows_match_declared_constants : ∀ f ∈ Gen.families, f.declaredB = true := by decide +kernel

/-- every predicate is a single-bit test on a declared constant — on the constant, and with the
    polarity, that the spec table `predicateSpec` names — and no two predicates compute the same function -/
theorem flag_predicates_test_their_declared_bit : ∀ f ∈ Gen.families, f.predsOkB = true := by decide +kernel

/-- all side conditions of every generated flag family -/
theorem families_ok : ∀ f ∈ Gen.families, f.okB = true := by
  intro f hf
  simp only [Family.okB, flag_constants_are_distinct_single_bits f hf, flag_rows_test_distinct_single_bits f hf,
    flag_rows_match_declared_constants f hf, flag_predicates_test_their_declared_bit f hf, Bool.and_self]

/-- the spec table of predicates is not vacuous: every predicate it names exists in /repo -/
theorem spec_predicates_present : specPredsPresentB Gen.families = true := by decide +kernel

private theorem okB_parts {f : Family} (h : f.okB = true) :
    f.constsOkB = true ∧ f.rowsOkB = true ∧ f.declaredB = true ∧ f.predsOkB = true := by
  simp only [Family.okB, Bool.and_eq_true] at h
  exact ⟨h.1.1.1, h.1.1.2, h.1.2, h.2⟩

private theorem rows_parts {f : Family} (h : f.rowsOkB = true) :
    SingleBitDistinct f.rows ∧ (f.rows.map (·.name)).Nodup := by
  simp only [Family.rowsOkB, Bool.and_eq_true] at h
  exact ⟨singleBitDistinctB_sound h.1.1, nameListNodupB_sound h.1.2⟩

/-- every generated decomposition table tests single, pairwise distinct bits -/
theorem flag_tables_single_bit_distinct : ∀ f ∈ Gen.families, SingleBitDistinct f.rows :=
  fun f hf => (rows_parts (okB_parts (families_ok f hf)).2.1).1

/-- **Flag words decompose faithfully (every family, every word of every width).**
    The list collected by the decomposition function is exactly the names of the rows whose bit is set
    in `w`, in source order. -/
theorem flag_words_decompose_faithfully :
    ∀ f ∈ Gen.families, ∀ w : Nat, decompose f.rows w = (f.rows.filter (bitSet w)).map (·.name) := by
  intro f hf w
  have hs := flag_tables_single_bit_distinct f hf
  rw [decompose_eq_filter]
  congr 1
  apply List.filter_congr
  intro r hr
  obtain ⟨b, hb⟩ := hs.1 r hr
  rw [Test.eval_positive hb, bitSet_positive hb]

/-- **Each set named bit exactly once**: the collected names are pairwise distinct, and a row's name is
    collected iff its bit is set. -/
theorem flag_names_listed_once :
    ∀ f ∈ Gen.families, ∀ w : Nat, (decompose f.rows w).Nodup ∧
      ∀ r ∈ f.rows, (r.name ∈ decompose f.rows w ↔ bitSet w r = true) := by
  intro f hf w
  have hn := (rows_parts (okB_parts (families_ok f hf)).2.1).2
  rw [flag_words_decompose_faithfully f hf w]
  refine ⟨?_, ?_⟩
  · exact List.Nodup.sublist ((List.filter_sublist).map _) hn
  · intro r hr
    constructor
    · intro hm
      obtain ⟨r', hr', hname⟩ := List.mem_map.mp hm
      have hr'm := (List.mem_filter.mp hr').1
      -- names are distinct, so r' = r
      have : r' = r := by
        have inj : ∀ (l : List FlagRow), (l.map (·.name)).Nodup → ∀ a ∈ l, ∀ b ∈ l, a.name = b.name → a = b := by
          intro l
          induction l with
          | nil => intro _ a ha; cases ha
          | cons x xs ih =>
            intro hnd a ha b hb hab
            simp only [List.map_cons, List.nodup_cons] at hnd
            have ha' := List.mem_cons.mp ha
            have hb' := List.mem_cons.mp hb
            clear ha hb
            rcases ha' with ha | ha <;> rcases hb' with hb | hb
            · rw [ha, hb]
            · exact absurd (List.mem_map.mpr ⟨b, hb, by rw [← hab, ha]⟩) hnd.1
            · exact absurd (List.mem_map.mpr ⟨a, ha, by rw [hab, hb]⟩) hnd.1
            · exact ih hnd.2 a ha b hb hab
        exact inj f.rows hn r' hr'm r hr hname
      subst this
      exact (List.mem_filter.mp hr').2
    · intro hb
      exact List.mem_map.mpr ⟨r, List.mem_filter.mpr ⟨hr, hb⟩, rfl⟩

/-- **Every declared named bit is reported**: a declared, non-reserved single-bit constant has a row,
    and that row fires exactly when the constant's bit is set in the word. -/
theorem declared_bits_have_rows :
    ∀ f ∈ Gen.families, f.hasDecomp = true →
      ∀ c ∈ f.consts, isPow2 c.value = true → c.value ≠ 0 → c.isReserved = false →
      ∃ r ∈ f.rows, r.test.mask = c.value ∧ ∀ w : Nat, (r.test.eval w = true ↔ (w &&& c.value) ≠ 0) := by
  intro f hf hdec c hc hp hz hr
  have hd := (okB_parts (families_ok f hf)).2.2.1
  have hs := flag_tables_single_bit_distinct f hf
  unfold Family.declaredB at hd
  split at hd
  · simp only [Bool.and_eq_true] at hd
    have hcov := hd.2
    simp only [hdec, Bool.not_true, Bool.false_or, constsCoveredB, List.all_eq_true] at hcov
    have := hcov c hc
    have hz' : (c.value != 0) = true := by simpa using hz
    simp only [hp, hz', hr, Bool.and_self, Bool.not_true, Bool.false_or, List.any_eq_true, beq_iff_eq] at this
    obtain ⟨r, hrm, hmask⟩ := this
    refine ⟨r, hrm, hmask, ?_⟩
    intro w
    obtain ⟨b, hb⟩ := hs.1 r hrm
    have h1 := bitSet_positive hb w
    rw [Test.eval_positive hb, ← h1]
    simp [bitSet, hmask]
  · cases hd

/-- every row of every decomposition is about a declared constant of its family and carries that
    constant's name (identifier without the family prefix, compared letter-and-digit-wise) -/
theorem rows_are_declared_constants :
    ∀ f ∈ Gen.families, ∃ pfx, familyPrefix f.id = some pfx ∧
      ∀ r ∈ f.rows, ∃ c ∈ f.consts, c.value = r.test.mask ∧ norm (c.ident.drop pfx.length) = norm r.name := by
  intro f hf
  have hd := (okB_parts (families_ok f hf)).2.2.1
  unfold Family.declaredB at hd
  split at hd
  · rename_i pfx hpfx
    refine ⟨pfx, hpfx, ?_⟩
    simp only [Bool.and_eq_true] at hd
    have h1 := hd.1
    simp only [rowsDeclaredB, List.all_eq_true, List.any_eq_true, Bool.and_eq_true, beq_iff_eq] at h1
    intro r hr
    obtain ⟨c, hc, h2, h3⟩ := h1 r hr
    exact ⟨c, hc, h2, h3⟩
  · cases hd

/-- **Every predicate on a flag word depends only on its own bit**: for each generated predicate there
    is one bit `b` — the bit of a declared constant of the family — such that the predicate is either
    `testBit b` or its negation; in particular two words that agree on bit `b` get the same answer. -/
theorem predicates_depend_only_on_their_bit :
    ∀ f ∈ Gen.families, ∀ p ∈ f.preds, ∃ b, (∃ c ∈ f.consts, c.value = 2 ^ b) ∧
      ((∀ w : Nat, p.test.eval w = w.testBit b) ∨ (∀ w : Nat, p.test.eval w = !w.testBit b)) ∧
      ∀ w w' : Nat, w.testBit b = w'.testBit b → p.test.eval w = p.test.eval w' := by
  intro f hf p hp
  have hq := (okB_parts (families_ok f hf)).2.2.2
  simp only [Family.predsOkB, Bool.and_eq_true, List.all_eq_true] at hq
  have h := hq.1 p hp
  simp only [predOkB, Bool.and_eq_true, Bool.or_eq_true, List.any_eq_true, beq_iff_eq] at h
  obtain ⟨⟨hpn, c, hc, hcv⟩, _⟩ := h
  rcases hpn with hpos | hneg
  · have hb := Test.positiveB_sound hpos
    refine ⟨p.test.mask.log2, ⟨c, hc, by rw [hcv]; exact hb.1⟩, Or.inl (Test.eval_positive hb), ?_⟩
    intro w w' hww
    rw [Test.eval_positive hb, Test.eval_positive hb, hww]
  · have hb := Test.negativeB_sound hneg
    refine ⟨p.test.mask.log2, ⟨c, hc, by rw [hcv]; exact hb.1⟩, Or.inr (Test.eval_negative hb), ?_⟩
    intro w w' hww
    rw [Test.eval_negative hb, Test.eval_negative hb, hww]

/-- **Predicates test the flag they are named after**: whenever the spec table (`predicateSpec`: which
    declared constant a predicate is about, and with which polarity) knows a generated predicate, the
    predicate's value is the spec's value, for every word. -/
theorem predicates_agree_with_spec :
    ∀ f ∈ Gen.families, ∀ p ∈ f.preds, ∀ (w : Nat) (v : Bool), specPred f p.fn w = some v → p.test.eval w = v := by
  intro f hf p hp w v hv
  have hq := (okB_parts (families_ok f hf)).2.2.2
  simp only [Family.predsOkB, Bool.and_eq_true, List.all_eq_true] at hq
  have h := hq.1 p hp
  simp only [predOkB, Bool.and_eq_true] at h
  have h3 := h.2
  unfold specPred at hv
  split at hv
  · rename_i fid fn ident pos hfind
    rw [hfind] at h3
    simp only at h3
    split at hv
    · rename_i c hc
      rw [hc] at h3
      simp only [Bool.and_eq_true, beq_iff_eq] at h3
      obtain ⟨hval, hpol⟩ := h3
      simp only [Option.some.injEq] at hv
      rw [← hv, hval]
      cases pos
      · simp only [Bool.false_eq_true, if_false] at hpol
        have hb := Test.negativeB_sound hpol
        generalize p.test.mask.log2 = b at hb
        rw [Test.eval_negative hb, hb.1, and_two_pow]
        cases w.testBit b <;> simp
      · simp only [if_true] at hpol
        have hb := Test.positiveB_sound hpol
        generalize p.test.mask.log2 = b at hb
        rw [Test.eval_positive hb, hb.1, and_two_pow]
        cases w.testBit b <;> simp
    · cases hv
  · cases hv

/-- no two predicates of a family compute the same function of the word -/
theorem predicates_pairwise_distinct :
    ∀ f ∈ Gen.families, (f.preds.map (fun p => 2 * p.test.mask + (if p.test.positiveB then 1 else 0))).Nodup := by
  intro f hf
  have hq := (okB_parts (families_ok f hf)).2.2.2
  simp only [Family.predsOkB, Bool.and_eq_true] at hq
  exact nodupB_sound hq.2

/-- non-vacuity: the generated list really contains the six families, with rows and predicates -/
example : Gen.families.length = 6 ∧ (Gen.families.map (fun f => f.rows.length)).sum ≥ 60 ∧
    (Gen.families.map (fun f => f.preds.length)).sum ≥ 26 := by decide +kernel

end Manticore.C19
