/-
  C19 — the generic theorems: statements about the table interpreters for ALL tables and ALL words
  (no `decide` here; induction over the table and bit algebra, via `Lemmas/C19.lean`).
-/
import Manticore.Lemmas.C19
namespace Manticore.C19
open Manticore

/-- **Decomposition is sound and complete** (clause "yields exactly the named bits that are set … in a
    deterministic order").  If every row of a table tests one bit and no bit twice, then running the chain
    of `if w&M == M { list = append(list, name) }` statements on ANY word `w` collects exactly the names of
    the rows whose bit is set in `w`, in source order — a function of `w` alone. -/
theorem decompose_sound_complete {tbl : List FlagRow} (h : SingleBitDistinct tbl) :
    ∀ w : Nat, decompose tbl w = (tbl.filter (bitSet w)).map (·.name) := by
  intro w
  rw [decompose_eq_filter]
  congr 1
  apply List.filter_congr
  intro r hr
  obtain ⟨b, hb⟩ := h.1 r hr
  rw [Test.eval_positive hb, bitSet_positive hb]

/-- **Each set named bit exactly once**: under the same hypothesis a row is selected once if its bit is
    set and not at all otherwise. -/
theorem decompose_each_set_bit_exactly_once {tbl : List FlagRow} (h : SingleBitDistinct tbl) (w : Nat) :
    ∀ r ∈ tbl, (tbl.filter (bitSet w)).count r = if bitSet w r = true then 1 else 0 := by
  have hnd : tbl.Nodup := by
    have := h.2
    unfold List.Nodup at *
    rw [List.pairwise_map] at this
    exact this.imp (fun hne heq => hne (by rw [heq]))
  have count_one : ∀ (l : List FlagRow), l.Nodup → ∀ r ∈ l, l.count r = 1 := by
    intro l
    induction l with
    | nil => intro _ r hr; cases hr
    | cons x xs ih =>
      intro hn r hr
      simp only [List.nodup_cons] at hn
      by_cases hx : x = r
      · subst hx
        have : List.count x xs = 0 := List.count_eq_zero.mpr hn.1
        simp [this]
      · have hr' : r ∈ xs := by
          rcases List.mem_cons.mp hr with h | h
          · exact absurd h.symm hx
          · exact h
        have hbeq : (x == r) = false := by simpa using hx
        rw [List.count_cons, ih hn.2 r hr', hbeq]; simp
  intro r hr
  by_cases hb : bitSet w r = true
  · rw [if_pos hb, List.count_filter hb]; exact count_one tbl hnd r hr
  · rw [if_neg hb]
    apply List.count_eq_zero.mpr
    intro hm
    exact hb (List.mem_filter.mp hm).2

/-- **A predicate depends only on its own bit**: a test `w&B == B`, `w&B != 0` (positive) or `w&B == 0`,
    `w&B != B` (negative) on the single bit `B = 2^b` gives the same answer on any two words that agree
    on bit `b`; it *is* that bit, respectively its complement. -/
theorem predicate_depends_only_on_its_bit {t : Test} {b : Nat} (h : t.positiveOn b ∨ t.negativeOn b) :
    (∀ w w' : Nat, w.testBit b = w'.testBit b → t.eval w = t.eval w') ∧
    ((∀ w : Nat, t.eval w = w.testBit b) ∨ (∀ w : Nat, t.eval w = !w.testBit b)) := by
  rcases h with h | h
  · exact ⟨fun w w' hw => by rw [Test.eval_positive h, Test.eval_positive h, hw], Or.inl (Test.eval_positive h)⟩
  · exact ⟨fun w w' hw => by rw [Test.eval_negative h, Test.eval_negative h, hw], Or.inr (Test.eval_negative h)⟩

/-- **Map iteration order is eliminated by the sort** (userAccountControl): model the `range` over the
    Go map as a visit of the rows in ANY order `order` (a permutation of the map's entries); then the
    names, the joined `String()` and the sorted `GetFlags()` result do not depend on `order`. -/
theorem sorted_decomposition_independent_of_iteration_order (f : Family) (hs : f.sorted = true)
    (order : List FlagRow) (h : order.Perm f.rows) (w : Nat) :
    f.namesIn order w = f.names w ∧ f.stringIn order w = f.string w ∧
      Family.getFlagsIn order w = Family.getFlagsIn f.rows w := by
  have hn : f.namesIn order w = f.names w := by
    simp only [Family.names, Family.namesIn, hs, if_true]
    rw [sortNames_perm (decompose_perm h w)]
  refine ⟨hn, ?_, ?_⟩
  · simp only [Family.string, Family.stringIn]
    have hn' : f.namesIn order w = f.namesIn f.rows w := hn
    rw [hn']
  · simp only [Family.getFlagsIn]
    exact sortNats_perm ((h.filter _).map _)

/-- … and what the sort returns is the sorted list of the names of the set bits. -/
theorem sorted_decomposition_is_sorted_names {tbl : List FlagRow} (h : SingleBitDistinct tbl)
    (order : List FlagRow) (hp : order.Perm tbl) (w : Nat) :
    sortNames (decompose order w) = sortNames ((tbl.filter (bitSet w)).map (·.name)) := by
  rw [sortNames_perm (decompose_perm hp w), decompose_sound_complete h]

/-- **The error text mentions the code**: whatever the literal parts of the `fmt.Errorf` format and
    whatever the mapped text, a format that contains a `%x`/`%08x`/`%X`/`%d` verb applied to the status
    renders a text in which the numeric code occurs. -/
theorem error_text_mentions_code (fmt : List Seg) (h : fmt.any Seg.isCode = true) (code : Nat) (txt : Name) :
    mentionsCode code (renderFmt fmt code txt) = true :=
  renderFmt_mentions_code fmt h code txt

/-! ### non-vacuity of the hypotheses -/

example : SingleBitDistinct [⟨⟨2, 2, false⟩, [66]⟩, ⟨⟨16, 0, true⟩, [67]⟩] :=
  singleBitDistinctB_sound (by decide)
example : (⟨4, 0, false⟩ : Test).negativeOn 2 := ⟨rfl, Or.inl ⟨rfl, rfl⟩⟩
example : decompose [⟨⟨2, 2, false⟩, [66]⟩, ⟨⟨16, 0, true⟩, [67]⟩, ⟨⟨1, 1, false⟩, [65]⟩] 19 = [[66], [67], [65]] := by decide

end Manticore.C19
