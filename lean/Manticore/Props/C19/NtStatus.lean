/-
  C19, NT status — theorems about the REGENERATED NT status tables (`Gen/C19NtStatus.lean`: ~1 800
  declared constants and the rows of `NTStatusToStringName`; `Gen/C19NtErrors.lean`: the rows of
  `NTStatusToGoErrorMap`, the success value and the `fmt.Errorf` format of `NT_STATUS.Error()`).
  Every check is `decide +kernel` over the full tables (sorted inside the kernel, `n log n`).
-/
import Manticore.Lemmas.C19
import Manticore.Gen.C19NtStatus
import Manticore.Gen.C19NtErrors
namespace Manticore.C19
open Manticore

set_option maxRecDepth 100000

/-- no NT status value is a key of `NTStatusToStringName` twice -/
theorem nt_name_keys_distinct : Gen.tblNtStatus.keysNodupB = true := by decide +kernel
/-- no two rows of `NTStatusToStringName` carry the same name -/
theorem nt_names_distinct : Gen.tblNtStatus.namesNodupB = true := by decide +kernel
/-- every declared `NT_STATUS_*` constant is a key of `NTStatusToStringName` -/
theorem nt_consts_named : Gen.tblNtStatus.constsNamedB = true := by decide +kernel
/-- no name is empty or equal to the fallback `"UNKNOWN"` -/
theorem nt_no_placeholder : Gen.tblNtStatus.noPlaceholderB = true := by decide +kernel

/-- every declared constant other than the success value is a key of `NTStatusToGoErrorMap` -/
theorem nt_consts_have_errors :
    subsetB (Gen.ntConstValues.filter (fun v => v != Gen.ntSuccess)) (Gen.ntErrRows.map (·.1)) = true := by
  decide +kernel
/-- no NT status value is a key of `NTStatusToGoErrorMap` twice -/
theorem nt_error_keys_distinct : nodupB (Gen.ntErrRows.map (·.1)) = true := by decide +kernel
/-- the format of `NT_STATUS.Error()` prints the numeric code -/
theorem nt_error_format_prints_code : Gen.ntErrFormat.any Seg.isCode = true := by decide

private theorem nt_good : Gen.tblNtStatus.Good := by
  apply CodeTable.okB_sound
  simp only [CodeTable.okB, nt_name_keys_distinct, nt_names_distinct, nt_consts_named, nt_no_placeholder, Bool.and_self]

/-- **Every declared NT status has a name.** -/
theorem nt_every_declared_status_has_a_name :
    ∀ v ∈ Gen.ntConstValues, ∃ n, Gen.ntNameRows.lookup v = some n ∧ Gen.tblNtStatus.string v = n := by
  intro v hv
  obtain ⟨n, h1, _⟩ := nt_good.named v hv
  have h1' : List.lookup v Gen.ntNameRows = some n := h1
  refine ⟨n, h1', ?_⟩
  show (match List.lookup v Gen.ntNameRows with
    | some n => ([] : Name) ++ n ++ []
    | none => Gen.tblNtStatus.fallback.render v) = n
  rw [h1']; simp

/-- **NT status names are unique**: distinct declared values map to distinct names
    (`NT_STATUS_WAIT_0 = NT_STATUS_SUCCESS` are one value, hence one name). -/
theorem nt_names_injective_on_values :
    ∀ v₁ ∈ Gen.ntConstValues, ∀ v₂ ∈ Gen.ntConstValues, v₁ ≠ v₂ →
      Gen.tblNtStatus.string v₁ ≠ Gen.tblNtStatus.string v₂ := nt_good.injective

/-- **No NT status name is a placeholder** (empty or `"UNKNOWN"`). -/
theorem nt_no_placeholder_name :
    ∀ v ∈ Gen.ntConstValues, nonPlaceholder Gen.tblNtStatus v (Gen.tblNtStatus.string v) = true :=
  nt_good.noPlaceholder

/-- **Every declared non-success NT status maps to a non-nil error that mentions its numeric code.** -/
theorem every_nonzero_status_has_error :
    ∀ v ∈ Gen.ntConstValues, v ≠ Gen.ntSuccess →
      ∃ e, ntError Gen.ntSuccess Gen.ntErrRows Gen.ntErrFormat v = some e ∧ mentionsCode v e = true := by
  intro v hv hs
  have hmem : v ∈ Gen.ntConstValues.filter (fun v => v != Gen.ntSuccess) :=
    List.mem_filter.mpr ⟨hv, by simpa using hs⟩
  exact ntError_of_key _ _ _ nt_error_format_prints_code v (subsetB_sound nt_consts_have_errors v hmem) hs

/-- the success value itself maps to `nil` -/
theorem success_has_no_error : ntError Gen.ntSuccess Gen.ntErrRows Gen.ntErrFormat Gen.ntSuccess = none := by
  simp [ntError]

/-- non-vacuity: the tables are the big ones -/
example : Gen.ntConstValues.length ≥ 1700 ∧ Gen.ntNameRows.length ≥ 1700 ∧ Gen.ntErrRows.length ≥ 1700 := by
  decide +kernel

end Manticore.C19
