/-
  C10 — NetBIOS name encoding and NBNS packets round-trip and follow RFC 1001/1002.
  Property theorems only.  Model (the Go code with fixes/C10-*.diff applied) and the RFC 1001 §14.1 /
  RFC 1002 §4.1 specification: `Manticore/Model/C10.lean`; RFC 1035 message grammar and reader (which
  RFC 1002 §4.2 reuses): `Manticore/Spec/DNS.lean`; helper lemmas: `Manticore/Lemmas/C10.lean`,
  `Manticore/Lemmas/DNS.lean`.
-/
import Manticore.Model.C10
import Manticore.Lemmas.DNS
import Manticore.Lemmas.C10
namespace Manticore.C10
open Manticore Manticore.Spec.DNS

/-! ### first-level encoding (RFC 1001 §14.1) -/

/-- **Per byte, all 256 values**: the Go nibble arithmetic `((b >> 4) & 0x0F) + 'A'`, `(b & 0x0F) + 'A'`
    is "each half-octet plus ASCII 'A'" (checked for every byte value by kernel evaluation). -/
theorem l1_byte_spec (b : UInt8) : encByte b = halfAscii b := encByte_eq_halfAscii b

/-- the two characters are in 'A'..'P', for every byte value -/
theorem l1_chars_in_range (b : UInt8) : ∀ c ∈ halfAscii b, 65 ≤ c.toNat ∧ c.toNat ≤ 80 := halfAscii_range b

/-- **First-level encoding.**  For every name of at most 16 bytes (any byte values, `*` included) and
    every valid scope identifier (or none), `FirstLevelEncode` yields the 32-character half-ASCII form
    of the name padded with spaces to 16 bytes — all positions by list induction over the per-byte
    fact — followed, when there is a scope, by a dot and the scope. -/
theorem l1_encode_spec (n : NBName) (hv : validate n = true) :
    firstLevelEncode n = .ok (if n.scope = [] then l1 (pad16 n.name) else l1 (pad16 n.name) ++ dot :: n.scope)
    ∧ (l1 (pad16 n.name)).length = 32 :=
  ⟨firstLevelEncode_ok n hv, l1_pad16_length n hv⟩

/-- a name longer than 16 bytes has no first-level form and is refused -/
theorem l1_refuses_long (n : NBName) (h : n.name.length > 16) : firstLevelEncode n = .err := by
  simp [firstLevelEncode, validate, h]

/-- **First-level round trip** modulo the space padding: decoding the encoding returns the name
    without its trailing spaces, and the scope unchanged. -/
theorem l1_roundtrip (n : NBName) (hv : validate n = true) :
    ∃ e, firstLevelEncode n = .ok e ∧ firstLevelDecode e = .ok (canonName n) :=
  ⟨_, firstLevelEncode_ok n hv, firstLevelDecode_encode n hv _ (firstLevelEncode_ok n hv)⟩

/-- … and exactly the same name and scope when the name does not end in a space -/
theorem l1_roundtrip_exact (n : NBName) (hv : validate n = true) (hs : n.name.getLast? ≠ some space) :
    ∃ e, firstLevelEncode n = .ok e ∧ firstLevelDecode e = .ok n := by
  obtain ⟨e, h1, h2⟩ := l1_roundtrip n hv
  refine ⟨e, h1, ?_⟩
  have : trimRight n.name = n.name := by
    unfold trimRight
    cases hr : n.name.reverse with
    | nil => simp [List.reverse_eq_nil_iff.mp hr]
    | cons c r =>
      have hl : n.name.getLast? = some c := by
        rw [List.getLast?_eq_head?_reverse, hr]; rfl
      have hc : c ≠ space := fun e => hs (by rw [hl, e])
      simp only [List.dropWhile_cons, beq_iff_eq, hc, if_false]
      rw [← hr, List.reverse_reverse]
  rw [h2]; simp [canonName, this]

/-- space padding is not significant: the trimmed name has the same encoding (so encode ∘ decode ∘ encode = encode) -/
theorem l1_padding_insensitive (n : NBName) (hv : validate n = true) :
    firstLevelEncode (canonName n) = firstLevelEncode n :=
  firstLevelEncode_canonName n hv

/-! ### NBNS packets (RFC 1002 §4.2) -/

/-- **The name on the wire** (RFC 1002 §4.1): the label `0x20` + 32 half-ASCII characters, one
    length-prefixed label per scope label, then the root label. -/
theorem name_wire_spec (n : NBName) (hv : ValidNB n) (buf e : Bytes) (he : firstLevelEncode n = .ok e) :
    appendEncodedName buf e = .ok (buf ++ nameWire (nbLabels n)) := by
  rw [firstLevelEncode_text n hv.1] at he
  simp only [Outcome.ok.injEq] at he; subst he
  exact appendEncodedName_spec n hv buf

/-- **`Marshal` emits the RFC 1002 message**: the six header words, then every question and every
    record of the answer, authority and additional sections in the RFC 1035 §4.1 layout. -/
theorem marshal_eq_spec (p : Packet) (hw : WF p) : marshal p = .ok (plain (toDNS p)) := marshal_eq_plain p hw

/-- **An independent RFC 1002 / RFC 1035 parser reads the bytes to the same content.** -/
theorem rfc1002_parses_model (p : Packet) (hw : WF p) (w : Bytes) (h : marshal p = .ok w) :
    Spec.DNS.parse w = .ok (toDNS p) := by
  rw [marshal_eq_spec p hw] at h
  simp only [Outcome.ok.injEq] at h; subst h
  have := parse_serialize (fun _ => none) (toDNS p) (toDNS_valid p hw) _ (serialize_plain _) []
  simpa using this

/-- **Packet round trip**: for every well-formed packet (all header words, 0..65535 entries in each
    of the four sections, all types/classes/TTLs, RDATA of 0..65535 bytes with `RDLength = |RData|`,
    all names of at most 16 bytes with a valid scope) `Unmarshal (Marshal p)` consumes all bytes and
    returns every header field, question and record; names come back without their space padding. -/
theorem packet_roundtrip (p : Packet) (hw : WF p) :
    ∃ w, marshal p = .ok w ∧ unmarshal w = .ok (w.length, canonPkt p) :=
  ⟨_, marshal_eq_spec p hw, unmarshal_plain p hw⟩

/-- no byte string makes `Unmarshal` panic -/
theorem unmarshal_never_panics (data : Bytes) : unmarshal data ≠ .panic := unmarshal_no_panic data

/-- no string makes `FirstLevelDecode` panic -/
theorem l1_decode_never_panics (e : Bytes) : firstLevelDecode e ≠ .panic := firstLevelDecode_no_panic e

/-! ### non-vacuity -/

private def wildcard : NBName := { name := 42 :: List.replicate 15 0, scope := [] }
private def fileServer : NBName := { name := [70, 83], scope := [99, 111, 114, 112, 46, 101, 120] }   -- "FS", "corp.ex"

example : validate wildcard = true := by decide
example : ValidNB fileServer := by decide
/-- `*` + 15 NUL = "CKAAAAAAAAAAAAAAAAAAAAAAAAAAAAAA" -/
example : firstLevelEncode wildcard = .ok (67 :: 75 :: List.replicate 30 65) := by decide
example : firstLevelEncode fileServer = .ok ([69, 71, 70, 68] ++ (List.replicate 14 [67, 65]).flatten ++ [46, 99, 111, 114, 112, 46, 101, 120]) := by decide
example : nameWire (nbLabels fileServer) =
    [32, 69, 71, 70, 68] ++ (List.replicate 14 [67, 65]).flatten ++ [4, 99, 111, 114, 112, 2, 101, 120, 0] := by decide

private def examplePkt : Packet :=
  { hdr := { id := 7, flags := 0x2910, questions := 1, answers := 0, authority := 0, additional := 1 },
    questions := [{ name := fileServer, qtype := 0x20, qclass := 1 }],
    answers := [], authority := [],
    additional := [{ name := wildcard, rtype := 0x20, rclass := 1, ttl := 300000, rdlength := 6, rdata := [0, 0, 10, 0, 0, 1] }] }

example : WF examplePkt := by decide
example : (marshal examplePkt).isOk = true := by decide

end Manticore.C10
