/-
  C15 — Windows time and duration conversions are exact, inverse and overflow-free.
  Property theorems only.  Model and spec: `Manticore/Model/C15.lean`; helper lemmas:
  `Manticore/Lemmas/C15{Int,Text,Bits}.lean`.

  The model is of the repository tree with `fixes/C15-*.diff` applied: every conversion splits a tick
  count into whole seconds and a remainder before scaling.  On the unpatched tree the conversions
  went through an `int64` count of nanoseconds and were wrong outside 1677..2262 (KNOWN_FINDINGS.txt).

  Reading of the statements: `x.toInt` / `x.toNat` is the mathematical value of a 64-bit machine
  integer; the right-hand sides (`Spec.*`) are computed in unbounded integers.
-/
import Manticore.Lemmas.C15Int
import Manticore.Lemmas.C15Text
import Manticore.Lemmas.C15Bits
import Manticore.Lemmas.Endian
namespace Manticore.C15
open Manticore

/-! ### the unbounded conversions are mutually inverse -/

/-- ticks → time → ticks is the identity, for every integer tick count and every epoch -/
theorem spec_ticks_time_ticks (e k : Int) : Spec.ticksOfTime e (Spec.timeOfTicks e k) = k := by
  unfold Spec.ticksOfTime Spec.timeOfTicks
  simp only
  have h1 : 0 ≤ k % 10000000 := Int.emod_nonneg _ (by omega)
  rw [Int.natCast_mul, Int.toNat_of_nonneg h1]
  omega

/-- time → ticks → time truncates to the 100 ns resolution and loses nothing else -/
theorem spec_time_ticks_time (e : Int) (t : Spec.Time) (h : t.nsec < 1000000000) :
    Spec.timeOfTicks e (Spec.ticksOfTime e t) = Spec.trunc100 t := by
  unfold Spec.ticksOfTime Spec.timeOfTicks Spec.trunc100
  congr 1
  · omega
  · omega

/-! ### FILETIME -/

/-- `ToInt64` is the 64-bit pattern `hi·2³² + lo` (an `int64`, i.e. read as two's complement). -/
theorem filetime_toInt64_value (lo hi : UInt32) :
    (filetimeToInt64 lo hi).toUInt64.toNat = hi.toNat * 4294967296 + lo.toNat := toInt64_value lo hi

/-- the two 32-bit halves and the 64-bit value determine each other (both directions, all values) -/
theorem filetime_halves_inverse :
    (∀ lo hi : UInt32, filetimeSplit (filetimeToInt64 lo hi) = (lo, hi)) ∧
    (∀ v : Int64, filetimeToInt64 (filetimeSplit v).1 (filetimeSplit v).2 = v) :=
  ⟨split_toInt64, toInt64_split⟩

/-- **FILETIME → time, all 2⁶⁴ values.**  For every 64-bit tick count (including the "never"
    values `0x7FFFFFFFFFFFFFFF` and `-0x8000000000000000`) `GetTime` is the exact time
    `1601-01-01 + ticks·100 ns`, with no wrap-around. -/
theorem filetime_getTime_exact (ticks : Int64) :
    toTime (filetimeGetTime ticks) = Spec.timeOfTicks Spec.sec1601 ticks.toInt := by
  unfold filetimeGetTime
  have := split_time ticks (epochTicks / 10000000) (by rw [lit_epochSec]; omega) (by rw [lit_epochSec]; omega)
  rw [lit_epochSec] at this
  exact this

/-- `GetUnixTimestamp` is the floor of the exact Unix time, for all 2⁶⁴ values. -/
theorem filetime_unix_exact (ticks : Int64) :
    (filetimeUnix ticks).toInt = ticks.toInt / 10000000 - 11644473600 := by
  have := congrArg Spec.Time.sec (filetime_getTime_exact ticks)
  simpa [toTime, filetimeUnix, Spec.timeOfTicks, Spec.sec1601] using this

/-- **time → FILETIME, exact wherever the result exists.**  For every Go time (seconds any
    `int64`, 0 ≤ nanoseconds < 10⁹) whose tick count fits in 64 bits — which contains all of
    1601-01-01 .. 30828-09-14T02:48:05.4775807Z — `NewFILETIMEFromTime` is
    `⌊(t − 1601-01-01) / 100 ns⌋` exactly; intermediate wrap-around cannot change it.
    FULL STATEMENT (false outside the range, where no 64-bit result exists):
    `∀ sec nsec, (filetimeOfTime sec nsec).toInt = Spec.ticksOfTime …`; see `filetime_fromTime_wraps_outside`. -/
theorem filetime_fromTime_exact (sec nsec : Int64) (h0 : 0 ≤ nsec.toInt) (_h1 : nsec.toInt < 1000000000)
    (hlo : -9223372036854775808 ≤ Spec.ticksOfTime Spec.sec1601 ⟨sec.toInt, nsec.toInt.toNat⟩)
    (hhi : Spec.ticksOfTime Spec.sec1601 ⟨sec.toInt, nsec.toInt.toNat⟩ < 9223372036854775808) :
    (filetimeOfTime sec nsec).toInt = Spec.ticksOfTime Spec.sec1601 ⟨sec.toInt, nsec.toInt.toNat⟩ := by
  rw [filetimeOfTime_ofInt sec nsec h0]
  exact Int64.toInt_ofInt_of_le (by simpa using hlo) (by simpa using hhi)

/-- one second past the last representable FILETIME the 64-bit result wraps (so the range above is sharp) -/
theorem filetime_fromTime_wraps_outside :
    (filetimeOfTime 910692730086 0).toInt ≠ Spec.ticksOfTime Spec.sec1601 ⟨910692730086, 0⟩ := by decide

/-- **FILETIME → time → FILETIME is the identity on all 2⁶⁴ values.** -/
theorem filetime_inverse_ticks (ticks : Int64) :
    filetimeOfTime (filetimeGetTime ticks).1 (filetimeGetTime ticks).2 = ticks := by
  have h := filetime_getTime_exact ticks
  have hsec := congrArg Spec.Time.sec h
  have hns := congrArg Spec.Time.nsec h
  simp only [toTime, Spec.timeOfTicks] at hsec hns
  have hm : 0 ≤ ticks.toInt % 10000000 := Int.emod_nonneg _ (by omega)
  have hm2 : ticks.toInt % 10000000 < 10000000 := Int.emod_lt_of_pos _ (by omega)
  -- the nanosecond component is non-negative (it is what `time.Unix` normalised)
  have hnn : 0 ≤ (filetimeGetTime ticks).2.toInt := by
    unfold filetimeGetTime
    generalize hs : ticks / 10000000 - epochTicks / 10000000 = s
    generalize hn : ticks % 10000000 * 100 = n
    have hn' : n.toInt = ticks.toInt.tmod 10000000 * 100 := by
      rw [← hn, toInt_mul_of _ _ (by rw [lit_100, Int64.toInt_mod, lit_1e7, tmod_eq]; split <;> omega)
        (by rw [lit_100, Int64.toInt_mod, lit_1e7, tmod_eq]; split <;> omega), lit_100, Int64.toInt_mod, lit_1e7]
    rw [tmod_eq] at hn'
    unfold goUnix
    have ⟨r1, r2⟩ := i64_range ticks
    have hlt : (n < 0) ↔ n.toInt < 0 := by rw [Int64.lt_iff_toInt_lt, lit_0]
    by_cases hneg : n.toInt < 0
    · have c1 : (decide (n < 0) || decide (n ≥ 1000000000)) = true := by simp [hlt.mpr hneg]
      have hz : n / 1000000000 = 0 := by
        rw [← Int64.toInt_inj, toInt_div_lit _ _ (by rw [lit_1e9]; omega), lit_1e9, lit_0, tdiv_eq, if_neg (by omega)]
        have : -1000000000 < n.toInt := by rw [hn']; split <;> omega
        omega
      rw [if_pos c1]
      simp only [hz, Int64.add_zero, Int64.zero_mul, Int64.sub_zero]
      rw [if_pos (hlt.mpr hneg)]
      simp only
      rw [toInt_add_of _ _ (by rw [lit_1e9, hn']; split <;> omega) (by rw [lit_1e9, hn']; split <;> omega), lit_1e9, hn']
      split <;> omega
    · have a1 : ¬ (n < 0) := fun h => hneg (hlt.mp h)
      have hge : (n ≥ 1000000000) ↔ 1000000000 ≤ n.toInt := by rw [ge_iff_le, Int64.le_iff_toInt_le, lit_1e9]
      have a2 : ¬ (n ≥ 1000000000) := fun h => by
        have := hge.mp h; rw [hn'] at this; split at this <;> omega
      have c1 : (decide (n < 0) || decide (n ≥ 1000000000)) = false := by simp [a1, a2]
      rw [c1]; simp only [Bool.false_eq_true, if_false]; omega
  rw [filetimeOfTime_ofInt _ _ hnn, hsec, hns, ← Int64.ofInt_toInt ticks]
  congr 1
  have := spec_ticks_time_ticks Spec.sec1601 ticks.toInt
  unfold Spec.timeOfTicks at this
  simpa using this

/-- **time → FILETIME → time** returns the time truncated to 100 ns, over the whole range in
    which the FILETIME exists (in particular 1601 .. 30828). -/
theorem filetime_inverse_time (sec nsec : Int64) (h0 : 0 ≤ nsec.toInt) (h1 : nsec.toInt < 1000000000)
    (hlo : -9223372036854775808 ≤ Spec.ticksOfTime Spec.sec1601 ⟨sec.toInt, nsec.toInt.toNat⟩)
    (hhi : Spec.ticksOfTime Spec.sec1601 ⟨sec.toInt, nsec.toInt.toNat⟩ < 9223372036854775808) :
    toTime (filetimeGetTime (filetimeOfTime sec nsec)) = Spec.trunc100 ⟨sec.toInt, nsec.toInt.toNat⟩ := by
  rw [filetime_getTime_exact, filetime_fromTime_exact sec nsec h0 h1 hlo hhi]
  exact spec_time_ticks_time _ _ (by simp only; omega)

/-- the "never" values: `0x7FFFFFFFFFFFFFFF` is 30828-09-14T02:48:05.4775807Z and
    `-0x8000000000000000` is the symmetric instant before 1601; neither wraps -/
theorem filetime_never_sentinels :
    filetimeGetTime 9223372036854775807 = (910692730085, 477580700) ∧
    filetimeGetTime (-9223372036854775808) = (-933981677286, 522419200) := by decide

/-! ### LDAP timestamps and intervals -/

/-- **Decimal strings of tick values.**  Every `int64` printed with `%d` is read back by
    `strconv.ParseInt(·, 10, 64)` as the same value (both sentinels included). -/
theorem int64_print_parse (v : Int64) : parseInt64 (showInt64 v) = some v := parseInt64_showInt64 v

/-- **LDAP timestamp → Unix seconds, all 2⁶⁴ values.**  On the decimal string of any 64-bit tick
    count, `ConvertLDAPTimeStampToUnixTimeStamp` is `⌊(v − 116444736000000000) / 10⁷⌋` for
    `v ≥ 1970-01-01` and 0 below (the library's documented clamp) — no wrap-around anywhere. -/
theorem ldap_timestamp_exact (v : Int64) :
    (ldapToUnix (showInt64 v)).toInt = Spec.ldapToUnix v.toInt :=
  ldapToUnix_of_parse _ v (parseInt64_showInt64 v) (showInt64_ne_nil v)

/-- from 1970 on, the result is the seconds component of the exact time of the tick count -/
theorem ldap_timestamp_is_time_of_ticks (v : Int) (h : 116444736000000000 ≤ v) :
    Spec.ldapToUnix v = (Spec.timeOfTicks Spec.sec1601 v).sec := by
  unfold Spec.ldapToUnix Spec.timeOfTicks Spec.sec1601
  rw [if_neg (by omega)]
  simp only
  omega

/-- **time → LDAP timestamp**, exact whenever the tick count fits in `int64` (contains 1601 .. 30828).
    FULL STATEMENT (false outside, no 64-bit result exists): `∀ sec, (unixToLdap sec).toInt = Spec.unixToLdap sec.toInt`;
    see `ldap_timestamp_of_time_wraps_outside`. -/
theorem ldap_timestamp_of_time_exact (sec : Int64)
    (hlo : -9223372036854775808 ≤ Spec.unixToLdap sec.toInt) (hhi : Spec.unixToLdap sec.toInt < 9223372036854775808) :
    (unixToLdap sec).toInt = Spec.unixToLdap sec.toInt := by
  rw [unixToLdap_ofInt]
  exact Int64.toInt_ofInt_of_le (by simpa using hlo) (by simpa using hhi)

theorem ldap_timestamp_of_time_wraps_outside :
    (unixToLdap 910692730086).toInt ≠ Spec.unixToLdap 910692730086 := by decide

/-- **seconds → LDAP timestamp → text → seconds** is the identity from 1970 up to the last
    representable tick count. -/
theorem ldap_timestamp_inverse (sec : Int64) (h0 : 0 ≤ sec.toInt)
    (hhi : Spec.unixToLdap sec.toInt < 9223372036854775808) :
    ldapToUnix (showInt64 (unixToLdap sec)) = sec := by
  have hlo : -9223372036854775808 ≤ Spec.unixToLdap sec.toInt := by
    unfold Spec.unixToLdap Spec.sec1601; omega
  rw [← Int64.toInt_inj, ldap_timestamp_exact, ldap_timestamp_of_time_exact sec hlo hhi]
  unfold Spec.ldapToUnix Spec.unixToLdap Spec.sec1601
  rw [if_neg (by omega)]
  omega

/-- **LDAP interval → seconds, all 2⁶⁴ values.**  On the decimal string of any 64-bit value,
    `ConvertLDAPDurationToSeconds` is `⌊|v| / 10⁷⌋`; in particular the "never" interval
    `-0x8000000000000000` gives 922337203685 (unpatched: −922337203685). -/
theorem ldap_duration_exact (v : Int64) :
    (ldapDurationToSeconds (showInt64 v)).toInt = Spec.durationToSeconds v.toInt :=
  ldapDur_of_parse _ v (parseInt64_showInt64 v) (showInt64_ne_nil v)

/- FULL STATEMENT (not provable on this tree: see finding sec2dur.overflow):
     ∀ v : Int64, secondsToLdapDuration v = Spec.showInt (Spec.secondsToDuration v.toInt)
   `value * 1e7` is computed in int64 and the function has no error result; outside
   |v| ≤ 922337203685 the exact interval does not fit the 64-bit LDAP attribute at all. -/

/-- **seconds → LDAP interval** is the exact decimal text of `v·10⁷` for every `v` whose interval fits
    in 64 bits, i.e. outside the recorded finding. -/
theorem ldap_seconds_to_duration_partial (v : Int64) (h : KnownBad_sec2dur_overflow v = false) :
    secondsToLdapDuration v = Spec.showInt (Spec.secondsToDuration v.toInt) := by
  unfold secondsToLdapDuration Spec.secondsToDuration
  simp only [KnownBad_sec2dur_overflow, decide_eq_false_iff_not, not_or, Int.not_lt] at h
  rw [showInt64_spec, toInt_mul_of _ _ (by rw [lit_1e7]; omega) (by rw [lit_1e7]; omega), lit_1e7]

/-- the finding's witness: 922337203686 s prints as a negative interval -/
theorem ldap_seconds_to_duration_counterexample_sec2dur_overflow :
    KnownBad_sec2dur_overflow 922337203686 = true ∧
    secondsToLdapDuration 922337203686 ≠ Spec.showInt (Spec.secondsToDuration 922337203686) := by decide

/-- **seconds → interval text → seconds** gives back `|v|` (intervals are stored with either sign)
    for every `v` outside the finding. -/
theorem ldap_duration_inverse_partial (v : Int64) (h : KnownBad_sec2dur_overflow v = false) :
    (ldapDurationToSeconds (secondsToLdapDuration v)).toInt = v.toInt.natAbs := by
  unfold secondsToLdapDuration
  simp only [KnownBad_sec2dur_overflow, decide_eq_false_iff_not, not_or, Int.not_lt] at h
  rw [ldap_duration_exact, toInt_mul_of _ _ (by rw [lit_1e7]; omega) (by rw [lit_1e7]; omega), lit_1e7]
  unfold Spec.durationToSeconds
  omega

/-! ### key credentials -/

/- FULL STATEMENT (not provable on this tree: see finding kc.tick0-is-now):
     ∀ ticks : UInt64, ∃ s n, newDateTime ticks = .at ticks s n ∧ toTime (s, n) = Spec.timeOfTicks Spec.sec1601 ticks.toNat
   `NewDateTime(0)` is documented to return the current time instead. -/

/-- **ticks → DateTime** for every non-zero `uint64` tick count: the tick count is kept and the
    time is exactly `1601-01-01 + ticks·100 ns` (up to the year 60056, no wrap-around). -/
theorem kc_newDateTime_partial (ticks : UInt64) (h : KnownBad_kc_tick0 ticks = false) :
    ∃ s n, newDateTime ticks = .at ticks s n ∧ toTime (s, n) = Spec.timeOfTicks Spec.sec1601 ticks.toNat := by
  unfold newDateTime
  unfold KnownBad_kc_tick0 at h
  rw [h]
  refine ⟨_, _, rfl, ?_⟩
  have := split_time_u ticks 11644473600 (by decide) (by decide)
  simpa [Spec.sec1601] using this

/-- the finding's witness: tick count 0 is not converted at all -/
theorem kc_newDateTime_counterexample_kc_tick0 :
    KnownBad_kc_tick0 0 = true ∧ newDateTime 0 = .now := by decide

/-- `ConvertFromBinaryTime` reads the little-endian 64-bit tick count (trailing bytes ignored) -/
theorem kc_fromBinary_reads_le (k : UInt64) (extra : Bytes) :
    convertFromBinaryTime (putLe64 k ++ extra) =
      .ok (if k == 0 then .at 0 (-11644473600) 0 else newDateTime k) := by
  simp only [putLe64, List.cons_append, List.nil_append, convertFromBinaryTime, le64_bytes]
  split <;> rfl

/-- **stored ticks → DateTime, all 2⁶⁴ values, zero included**: a tick count read from a blob keeps
    its value and its time is exactly `1601-01-01 + ticks·100 ns` (a stored zero does not become "now"). -/
theorem kc_fromBinary_exact (k : UInt64) (extra : Bytes) :
    ∃ s n, convertFromBinaryTime (putLe64 k ++ extra) = .ok (.at k s n) ∧
      toTime (s, n) = Spec.timeOfTicks Spec.sec1601 k.toNat := by
  rw [kc_fromBinary_reads_le]
  by_cases hk : k = 0
  · subst hk
    exact ⟨-11644473600, 0, rfl, by decide⟩
  · have hb : (k == 0) = false := by simpa using hk
    obtain ⟨s, n, hd, ht⟩ := kc_newDateTime_partial k (by unfold KnownBad_kc_tick0; exact hb)
    exact ⟨s, n, by rw [hb]; simp [hd], ht⟩

/-- **time → binary time**, exact for every time from 1601 whose tick count fits in `uint64`.
    (Unpatched: the function wrote Unix nanoseconds, not ticks.)
    FULL STATEMENT (false before 1601 / beyond 2⁶⁴ ticks, where no result exists) has no range hypotheses. -/
theorem kc_toBinary_exact (sec nsec : Int64) (h0 : 0 ≤ nsec.toInt) (_h1 : nsec.toInt < 1000000000)
    (hlo : 0 ≤ Spec.ticksOfTime Spec.sec1601 ⟨sec.toInt, nsec.toInt.toNat⟩)
    (hhi : Spec.ticksOfTime Spec.sec1601 ⟨sec.toInt, nsec.toInt.toNat⟩ < 18446744073709551616) :
    convertToBinaryTime sec nsec = putLe64 (binaryTimeTicks sec nsec) ∧
    ((binaryTimeTicks sec nsec).toNat : Int) = Spec.ticksOfTime Spec.sec1601 ⟨sec.toInt, nsec.toInt.toNat⟩ := by
  refine ⟨rfl, ?_⟩
  unfold binaryTimeTicks
  unfold Spec.ticksOfTime Spec.sec1601 at *
  simp only at hlo hhi ⊢
  rw [Int.toNat_of_nonneg h0] at hlo hhi ⊢
  have hc : (11644473600 : Int64).toInt = 11644473600 := by decide
  rw [ticks_u sec nsec 11644473600 h0 (by rw [hc]; exact hlo) (by rw [hc]; exact hhi), hc, Int.toNat_of_nonneg hlo]

/-- **time → bytes → DateTime** returns the tick count and the time truncated to 100 ns, for every
    time after 1601-01-01T00:00:00Z whose tick count fits in `uint64` (tick 0 itself is the finding). -/
theorem kc_inverse_partial (sec nsec : Int64) (h0 : 0 ≤ nsec.toInt) (h1 : nsec.toInt < 1000000000)
    (hlo : 0 < Spec.ticksOfTime Spec.sec1601 ⟨sec.toInt, nsec.toInt.toNat⟩)
    (hhi : Spec.ticksOfTime Spec.sec1601 ⟨sec.toInt, nsec.toInt.toNat⟩ < 18446744073709551616) :
    ∃ s n, convertFromBinaryTime (convertToBinaryTime sec nsec) = .ok (.at (binaryTimeTicks sec nsec) s n) ∧
      toTime (s, n) = Spec.trunc100 ⟨sec.toInt, nsec.toInt.toNat⟩ := by
  have ⟨_, hv⟩ := kc_toBinary_exact sec nsec h0 h1 (by omega) hhi
  have hnz : KnownBad_kc_tick0 (binaryTimeTicks sec nsec) = false := by
    unfold KnownBad_kc_tick0
    apply eq_false_of_ne_true
    intro e
    have : binaryTimeTicks sec nsec = 0 := by simpa using e
    rw [this] at hv
    have hz : (((0 : UInt64).toNat : Nat) : Int) = 0 := by decide
    rw [hz] at hv
    omega
  obtain ⟨s, n, hd, ht⟩ := kc_newDateTime_partial _ hnz
  refine ⟨s, n, ?_, ?_⟩
  · have := kc_fromBinary_reads_le (binaryTimeTicks sec nsec) []
    simp only [List.append_nil] at this
    unfold convertToBinaryTime
    have hb : (binaryTimeTicks sec nsec == 0) = false := by unfold KnownBad_kc_tick0 at hnz; exact hnz
    rw [this, hb]
    simp [hd]
  · rw [ht, hv]
    exact spec_time_ticks_time _ _ (by simp only; omega)

/-! ### UUID v1 / v2 timestamps -/

/-- **UUID timestamp → time, all 2⁶⁴ values** (the 60-bit field covers 1582 .. 5236): `GetTime` is
    exactly `1582-10-15 + ts·100 ns`. -/
theorem uuid_getTime_exact (ts : UInt64) :
    toTime (uuidGetTime ts) = Spec.timeOfTicks Spec.sec1582 ts.toNat := by
  unfold uuidGetTime
  have hc : (uuidEpoch / 10000000).toInt64.toInt = 12219292800 := by decide
  have := split_time_u ts (uuidEpoch / 10000000).toInt64 (by rw [hc]; omega) (by rw [hc]; omega)
  rw [hc] at this
  exact this

/-- **time → UUID timestamp**, exact for every time from 1582-10-15 whose tick count fits in `uint64`
    (contains 1601 .. 30828 and the whole 60-bit range).
    FULL STATEMENT (false before 1582, where no unsigned result exists) has no range hypotheses. -/
theorem uuid_setTime_exact (sec nsec : Int64) (h0 : 0 ≤ nsec.toInt) (_h1 : nsec.toInt < 1000000000)
    (hlo : 0 ≤ Spec.ticksOfTime Spec.sec1582 ⟨sec.toInt, nsec.toInt.toNat⟩)
    (hhi : Spec.ticksOfTime Spec.sec1582 ⟨sec.toInt, nsec.toInt.toNat⟩ < 18446744073709551616) :
    ((uuidSetTime sec nsec).toNat : Int) = Spec.ticksOfTime Spec.sec1582 ⟨sec.toInt, nsec.toInt.toNat⟩ := by
  unfold uuidSetTime
  unfold Spec.ticksOfTime Spec.sec1582 at *
  simp only at hlo hhi ⊢
  rw [Int.toNat_of_nonneg h0] at hlo hhi ⊢
  have hc : (uuidEpoch / 10000000).toInt64.toInt = 12219292800 := by decide
  rw [ticks_u sec nsec _ h0 (by rw [hc]; exact hlo) (by rw [hc]; exact hhi), hc, Int.toNat_of_nonneg hlo]

/-- **time → timestamp → time** returns the time truncated to 100 ns over that whole range. -/
theorem uuid_inverse_time (sec nsec : Int64) (h0 : 0 ≤ nsec.toInt) (h1 : nsec.toInt < 1000000000)
    (hlo : 0 ≤ Spec.ticksOfTime Spec.sec1582 ⟨sec.toInt, nsec.toInt.toNat⟩)
    (hhi : Spec.ticksOfTime Spec.sec1582 ⟨sec.toInt, nsec.toInt.toNat⟩ < 18446744073709551616) :
    toTime (uuidGetTime (uuidSetTime sec nsec)) = Spec.trunc100 ⟨sec.toInt, nsec.toInt.toNat⟩ := by
  rw [uuid_getTime_exact, uuid_setTime_exact sec nsec h0 h1 hlo hhi]
  exact spec_time_ticks_time _ _ (by simp only; omega)

/-! ### non-vacuity and witnesses of the repaired defects -/

/-- the hypotheses of the range theorems hold e.g. for 2400-01-01 (outside 1677..2262) -/
example : (filetimeOfTime 13569465600 0).toInt = 252139392000000000 := by decide
example : toTime (filetimeGetTime 252139392000000000) = ⟨13569465600, 0⟩ := by decide
/-- 1 ns before 1970-01-01T00:00:00Z − 1 s: floor, not truncation towards zero -/
example : (filetimeOfTime (-2) 1).toInt = 116444735980000000 := by decide
example : ldapToUnix [50, 50, 48, 48, 48, 48, 48, 48, 48, 48, 48, 48, 48, 48, 48, 48, 48, 48] = 10355526400 := by decide
example : (ldapDurationToSeconds (showInt64 (-9223372036854775808))).toInt = 922337203685 := by decide
example : KnownBad_sec2dur_overflow 922337203685 = false ∧ KnownBad_sec2dur_overflow (-922337203685) = false := by decide
example : KnownBad_kc_tick0 1 = false := by decide
example : newDateTime 1 = .at 1 (-11644473600) 100 := by decide
example : uuidSetTime 13569465600 0 = 257887584000000000 := by decide
example : uuidGetTime 257887584000000000 = (13569465600, 0) := by decide
example : (binaryTimeTicks 0 0).toNat = 116444736000000000 := by decide

end Manticore.C15
