/-
  C03 — SMB1 message envelope: header, framing and type dispatch exact and repeatable.
  Property theorems only.  Model and spec: `Manticore/Model/C03.lean`; dispatch tables regenerated
  from the source: `Manticore/Gen/SmbDispatch.lean`; helper lemmas: `Manticore/Lemmas/C03*.lean`.

  The model is of the tree with fixes/C03-marshal-repeatable.diff, fixes/C03-data-unmarshal-guard.diff
  and fixes/C03-odd-parameter-byte.diff applied.  The `*_before_fix` theorems record, on the old
  transliterations, the three defects those patches repair.
-/
import Manticore.Model.C03
import Manticore.Lemmas.C03
import Manticore.Lemmas.C03Dispatch
namespace Manticore.C03
open Manticore
open Manticore.Gen.SmbDispatch (Kind)

/-! ## 1. Header round trip -/

/-- **Header round trip** (clause "decoding the bytes returns the same 32-byte header fields").
    For every header whose `Flags` value fits the one byte the wire format gives it, `Marshal` yields
    exactly 32 bytes and `Unmarshal` of them returns every field unchanged and reports 32 bytes read.
    The eight security-feature bytes come back as the same eight bytes, held in the `Reserved`
    variant (the wire does not say which of the three interpretations is meant; see `secfeat_roundtrip`). -/
theorem header_roundtrip (h : Header) (hf : h.flags ≤ 0xFF) :
    ∃ b, marshalHeader h = .ok b ∧ b.length = 32 ∧
      unmarshalHeader b = .ok ({ h with sec := .reserved h.sec.bytes }, 32) := by
  refine ⟨headerBytes h, marshalHeader_eq h, rfl, ?_⟩
  rw [unmarshal_headerBytes, and_ff_of_le h.flags hf]

/-- The same without the hypothesis: the only thing lost is the high byte of the 16-bit `Flags`
    field (`byte(h.Flags)`), everything else round-trips for all values. -/
theorem header_roundtrip_flags_truncated (h : Header) :
    ∃ b, marshalHeader h = .ok b ∧ b.length = 32 ∧
      unmarshalHeader b = .ok ({ h with flags := h.flags &&& 0xFF, sec := .reserved h.sec.bytes }, 32) :=
  ⟨headerBytes h, marshalHeader_eq h, rfl, unmarshal_headerBytes h⟩

/-- **Truncation witness** for the hypothesis of `header_roundtrip`: `Flags = 0x1FF` (settable because
    `flags.Flags` is declared `uint16`) is emitted as the byte `0xFF` and read back as `0x00FF`. -/
theorem header_flags_truncation_witness :
    marshalHeader { Header.new with flags := 0x1FF } = marshalHeader { Header.new with flags := 0xFF } ∧
    (∀ b, marshalHeader { Header.new with flags := 0x1FF } = .ok b →
      unmarshalHeader b = .ok ({ Header.new with flags := 0xFF }, 32)) := by
  constructor
  · decide
  · intro b hb
    rw [marshalHeader_eq] at hb
    cases hb
    decide

/-- Each of the three `SecurityFeatures` variants round-trips through its own `Marshal`/`Unmarshal`:
    8 bytes out, the same value and `8` back. -/
theorem secfeat_roundtrip (s : SecFeat) :
    s.marshal = .ok s.bytes.toList ∧ SecFeat.unmarshalAs s s.bytes.toList = .ok (s, 8) := by
  refine ⟨sec_marshal s, ?_⟩
  cases s <;>
    simp [SecFeat.unmarshalAs, SecFeat.bytes, Arr8.toList, rdArr8, rdLe16, rdLe32, slice, le16_bytes, le32_bytes]

/-- `Header.Unmarshal` is exact on every input: fewer than 32 bytes is an error (never a panic), and
    any 32 or more bytes decode to a header that marshals back to precisely the first 32 bytes
    (so no slot is read from the wrong place, for any byte values). -/
theorem header_unmarshal_exact (data : Bytes) :
    (data.length < 32 → unmarshalHeader data = .err) ∧
    (32 ≤ data.length → ∃ h, unmarshalHeader data = .ok (h, 32) ∧ marshalHeader h = .ok (data.take 32)) := by
  constructor
  · intro hl; simp [unmarshalHeader, hl]
  · exact unmarshalHeader_ok data

/-! ## 2. Header layout = MS-CIFS 2.2.3.1 -/

/-- The offset table itself is consistent: slots are contiguous from offset 0 and end at 32. -/
theorem header_table_tiles :
    (Spec.headerTable.map (·.offset)) =
      (List.range Spec.headerTable.length).map (fun i => ((Spec.headerTable.take i).map (·.width)).sum) ∧
    (Spec.headerTable.map (·.width)).sum = 32 := by decide

/-- **Header layout** (clause "the header is laid out exactly as MS-CIFS 2.2.3.1 specifies").
    For every header, `Marshal` produces exactly the bytes the MS-CIFS table prescribes: each field
    little-endian in its slot, slots in table order. -/
theorem header_layout_eq_spec (h : Header) : marshalHeader h = .ok (Spec.encodeHeader h) := by
  rw [marshalHeader_eq, encodeHeader_eq]

/-- Per-field slot form: the bytes at `[offset, offset+width)` of the marshalled header are the
    little-endian bytes of that field, for every row of the table. -/
theorem header_slot_eq_spec (h : Header) (b : Bytes) (hb : marshalHeader h = .ok b) :
    ∀ s ∈ Spec.headerTable, slice b s.offset (s.offset + s.width) = .ok (natLe s.width (Spec.fieldNat h s.field)) := by
  rw [marshalHeader_eq] at hb
  cases hb
  exact headerBytes_slot h

/-- All field values fit their slots exactly when `Flags ≤ 0xFF` (every other Go field type has the
    width of its slot) … -/
theorem header_fits_iff (h : Header) : Spec.Fits h ↔ h.flags ≤ 0xFF := by
  constructor
  · intro hf
    have := hf ⟨.flags, 9, 1⟩ (by simp [Spec.headerTable])
    simp only [Spec.fieldNat] at this
    rw [UInt16.le_iff_toNat_le]
    simp; omega
  · intro hf s hs
    have hfl : h.flags.toNat < 256 := by
      have : h.flags.toNat ≤ 255 := by simpa [UInt16.le_iff_toNat_le] using hf
      omega
    have h4 : leNat h.protocol.toList < 256 ^ 4 := by
      have := h.protocol.b0.toNat_lt; have := h.protocol.b1.toNat_lt
      have := h.protocol.b2.toNat_lt; have := h.protocol.b3.toNat_lt
      simp [Arr4.toList, leNat]; omega
    have h8 : Spec.secNat h.sec < 256 ^ 8 := by
      rw [secNat_eq]
      have := h.sec.bytes.b0.toNat_lt; have := h.sec.bytes.b1.toNat_lt
      have := h.sec.bytes.b2.toNat_lt; have := h.sec.bytes.b3.toNat_lt
      have := h.sec.bytes.b4.toNat_lt; have := h.sec.bytes.b5.toNat_lt
      have := h.sec.bytes.b6.toNat_lt; have := h.sec.bytes.b7.toNat_lt
      simp [Arr8.toList, leNat]; omega
    have := h.command.toNat_lt; have := h.status.toNat_lt; have := h.flags2.toNat_lt
    have := h.pidHigh.toNat_lt; have := h.reserved.toNat_lt; have := h.tid.toNat_lt
    have := h.pidLow.toNat_lt; have := h.uid.toNat_lt; have := h.mid.toNat_lt
    simp only [Spec.headerTable, List.mem_cons, List.not_mem_nil, or_false] at hs
    rcases hs with rfl | rfl | rfl | rfl | rfl | rfl | rfl | rfl | rfl | rfl | rfl | rfl <;>
      simp only [Spec.fieldNat] <;> omega

/-- … and then every slot, read as a little-endian number, is exactly the field's value. -/
theorem header_slot_value (h : Header) (hf : h.flags ≤ 0xFF) (b : Bytes) (hb : marshalHeader h = .ok b) :
    ∀ s ∈ Spec.headerTable, ∃ bs, slice b s.offset (s.offset + s.width) = .ok bs ∧ leNat bs = Spec.fieldNat h s.field := by
  intro s hs
  refine ⟨_, header_slot_eq_spec h b hb s hs, ?_⟩
  exact leNat_natLe _ _ ((header_fits_iff h).2 hf s hs)

/-! ## 3. PID -/

/-- **GetPID/SetPID** are mutually inverse for all values, and the PID is `PIDHigh·2^16 + PIDLow`
    (MS-CIFS: PIDHigh holds the high-order bytes); `SetPID` touches no other field. -/
theorem pid_get_set (h : Header) (pid : UInt32) :
    getPID (setPID h pid) = pid ∧
    setPID h (getPID h) = h ∧
    (getPID h).toNat = h.pidHigh.toNat * 65536 + h.pidLow.toNat ∧
    setPID h pid = { h with pidHigh := (setPID h pid).pidHigh, pidLow := (setPID h pid).pidLow } := by
  refine ⟨?_, ?_, ?_, rfl⟩
  · simp only [getPID, setPID]
    apply UInt32.eq_of_toBitVec_eq
    simp only [UInt32.toBitVec_or, UInt32.toBitVec_shiftLeft, UInt16.toBitVec_toUInt32, UInt32.toBitVec_toUInt16,
      UInt32.toBitVec_shiftRight, UInt32.toBitVec_and, UInt32.toBitVec_ofNat]
    bv_bits32
  · have h1 : ((h.pidHigh.toUInt32 <<< 16 ||| h.pidLow.toUInt32) >>> 16).toUInt16 = h.pidHigh := by
      apply UInt16.eq_of_toBitVec_eq
      simp
      bv_bits16
    have h2 : ((h.pidHigh.toUInt32 <<< 16 ||| h.pidLow.toUInt32) &&& 0xFFFF).toUInt16 = h.pidLow := by
      apply UInt16.eq_of_toBitVec_eq
      simp
      bv_bits16
    simp only [getPID, setPID, h1, h2]
  · have h1 := h.pidHigh.toNat_lt
    have h2 := h.pidLow.toNat_lt
    simp only [getPID, UInt32.toNat_or, UInt32.toNat_shiftLeft, UInt16.toNat_toUInt32, Nat.shiftLeft_eq]
    simp only [UInt32.toNat_ofNat, Nat.reducePow, Nat.reduceMod] at *
    rw [Nat.mod_eq_of_lt (by omega)]
    have : h.pidHigh.toNat * 65536 = h.pidHigh.toNat <<< 16 := by simp [Nat.shiftLeft_eq]
    rw [this, ← Nat.shiftLeft_add_eq_or_of_lt (by omega)]

/-! ## 4. Type dispatch -/

/-- **Dispatch** (clause "a command structure of the type that the header's command code and reply
    flag designate"), for all 256 codes × both directions, on the tables regenerated from
    0.command_casting.go, the `New*` constructors and codes.go:
    * when the factory returns a command, the command's own code is the requested code, it is an AndX
      type exactly for the MS-CIFS AndX commands, its Go type is the one MS-CIFS names for this
      code and direction (`<Name>Request` / `<Name>Response`, `WriteRawFinal` for the 0x1D reply), and the code
      is a `case` of the switch;
    * the factory returns an error exactly when the code is not a `case` of the switch;
    * it never panics. -/
theorem dispatch_total (reply : Bool) (code : UInt8) :
    (∀ k, factory reply code = .ok k →
        k.ownCode = code ∧ k.isAndX = Spec.andxCodes.contains code ∧ Spec.typeName reply code = some k.goName ∧
        code ∈ (caseTable reply).map (·.1)) ∧
    (factory reply code = .err ↔ code ∉ (caseTable reply).map (·.1)) ∧
    factory reply code ≠ .panic := by
  have h := dispatchRowOK_all reply code
  unfold dispatchRowOK at h
  cases hf : factory reply code with
  | ok k =>
    rw [hf] at h
    simp only [Bool.and_eq_true, beq_iff_eq, List.contains_iff_mem] at h
    obtain ⟨⟨⟨h1, h2⟩, h3⟩, h4⟩ := h
    refine ⟨?_, ?_, by simp⟩
    · intro k' hk'
      cases hk'
      exact ⟨h1, h2, h3, h4⟩
    · simp [h4]
  | err =>
    rw [hf] at h
    simp only [Bool.not_eq_true', List.contains_eq_mem, decide_eq_false_iff_not] at h
    exact ⟨(by intro k hk; cases hk), (by simp [h]), (by simp)⟩
  | panic =>
    rw [hf] at h
    cases h

/-! ## 5. Framing -/

/-- **Message bytes = specification, without size assumptions.**  For every message with a command,
    `Message.Marshal` succeeds and yields the MS-CIFS header followed by what the command template
    emits from empty blocks (`Cmd.frame`: truncated counts as written in the code). -/
theorem marshal_eq_header_frame (m : Msg) (c : Cmd) (hc : m.command = some c) :
    (msgMarshal m).2 = .ok (Spec.encodeHeader m.header ++ c.frame) := by
  simp only [msgMarshal, marshalHeader_eq, hc, cmdMarshal_fresh, encodeHeader_eq]

/-- **Framing** (clause "the parameter and data blocks are introduced by a word count and a byte
    count equal to the lengths actually emitted").  Up to the 255-word / 65535-byte limits of the
    count fields the message is exactly `header ‖ WordCount ‖ Words ‖ ByteCount(LE) ‖ Bytes`, where
    Words are the AndX words (AndX types) followed by the command's parameter bytes IN ORDER, padded
    with one zero byte to a whole word, and Bytes are the command's data bytes. -/
theorem marshal_eq_spec (m : Msg) (c : Cmd) (hc : m.command = some c)
    (hw : c.wordsEmitted ≤ 255) (hb : c.rawD.length ≤ 65535) :
    (msgMarshal m).2 = .ok (Spec.frame m.header c) := by
  rw [marshal_eq_header_frame m c hc]
  have hlen : c.words.length = c.wordsEmitted := by
    cases hx : c.isAndX <;>
      simp [Cmd.words, Cmd.andxWords, Cmd.wordsEmitted, hx, AndX.words, wordsOfStream_length] <;> omega
  have hwb : Spec.wordBytes c.words = Spec.paramBytes c := by
    cases hx : c.isAndX <;>
      simp [Cmd.words, Cmd.andxWords, Spec.paramBytes, hx, wordBytes_append, wordBytes_wordsOfStream, wordBytes_andx]
  have hcount : (Spec.paramBytes c).length / 2 = c.words.length := by
    rw [← hwb, wordBytes_length]; omega
  have hwords : (if UInt8.ofNat c.words.length > 0 then c.words.flatMap putBe16 else []) = Spec.paramBytes c := by
    rw [← hwb]
    by_cases h0 : c.words.length = 0
    · have : c.words = [] := List.eq_nil_of_length_eq_zero h0
      simp [this, Spec.wordBytes]
    · have : UInt8.ofNat c.words.length > 0 := (u8_pos_iff _).2 (by rw [ofNat8_toNat _ (by omega)]; exact h0)
      simp [this, Spec.wordBytes]
  have hbc : putLe16 (UInt16.ofNat c.rawD.length) = natLe 2 c.rawD.length := by
    rw [← natLe2, ofNat16_toNat _ hb]
  simp only [Spec.frame, Spec.blocks, Cmd.frame, hwords, hbc, hcount, List.cons_append, List.nil_append,
    List.append_assoc]

/-- **Frame length** (clause "so the message length is 32 + 1 + 2*words + 2 + bytes"), with the two
    count fields located: byte 32 is the number of words emitted, and the two bytes after the words
    are the little-endian number of data bytes emitted. -/
theorem frame_length (m : Msg) (c : Cmd) (hc : m.command = some c)
    (hw : c.wordsEmitted ≤ 255) (hb : c.rawD.length ≤ 65535) :
    ∃ bytes, (msgMarshal m).2 = .ok bytes ∧
      bytes.length = 32 + 1 + 2 * c.wordsEmitted + 2 + c.rawD.length ∧
      bytes[32]? = some (UInt8.ofNat c.wordsEmitted) ∧
      (bytes.drop (32 + 1 + 2 * c.wordsEmitted)).take 2 = natLe 2 c.rawD.length ∧
      bytes.drop (32 + 1 + 2 * c.wordsEmitted + 2) = c.rawD := by
  refine ⟨_, marshal_eq_spec m c hc hw hb, ?_⟩
  have hpl : (Spec.paramBytes c).length = 2 * c.wordsEmitted := by
    cases hx : c.isAndX <;>
      simp [Spec.paramBytes, padEven_length, Cmd.wordsEmitted, hx, Spec.andxBytes, putBe16] <;> omega
  have hh : (Spec.encodeHeader m.header).length = 32 := by rw [encodeHeader_eq]; rfl
  have e : Spec.frame m.header c =
      Spec.encodeHeader m.header ++ ([UInt8.ofNat c.wordsEmitted] ++ (Spec.paramBytes c ++ (natLe 2 c.rawD.length ++ c.rawD))) := by
    simp [Spec.frame, Spec.blocks, hpl]
  rw [e]
  have hA : (Spec.encodeHeader m.header ++ ([UInt8.ofNat c.wordsEmitted] ++ Spec.paramBytes c)).length = 32 + 1 + 2 * c.wordsEmitted := by
    simp [hh, hpl]; omega
  have hB : (Spec.encodeHeader m.header ++ ([UInt8.ofNat c.wordsEmitted] ++ Spec.paramBytes c) ++ natLe 2 c.rawD.length).length
      = 32 + 1 + 2 * c.wordsEmitted + 2 := by
    rw [List.length_append, hA, natLe_length]
  have e1 : Spec.encodeHeader m.header ++ ([UInt8.ofNat c.wordsEmitted] ++ (Spec.paramBytes c ++ (natLe 2 c.rawD.length ++ c.rawD)))
      = (Spec.encodeHeader m.header ++ ([UInt8.ofNat c.wordsEmitted] ++ Spec.paramBytes c)) ++ (natLe 2 c.rawD.length ++ c.rawD) := by
    simp
  have e2 : Spec.encodeHeader m.header ++ ([UInt8.ofNat c.wordsEmitted] ++ (Spec.paramBytes c ++ (natLe 2 c.rawD.length ++ c.rawD)))
      = (Spec.encodeHeader m.header ++ ([UInt8.ofNat c.wordsEmitted] ++ Spec.paramBytes c) ++ natLe 2 c.rawD.length) ++ c.rawD := by
    simp
  refine ⟨?_, ?_, ?_, ?_⟩
  · rw [e2, List.length_append, hB]
  · rw [List.getElem?_append_right (by omega)]; simp [hh]
  · rw [e1, ← hA, List.drop_left]
    have h2 : (natLe 2 c.rawD.length).length = 2 := natLe_length _ _
    exact List.take_left' h2
  · rw [e2, ← hB, List.drop_left]

/-- **The guard's error branch.**  `Parameters.Marshal` fails exactly when `WordCount ≠ uint8(len(Words))`;
    it is reached by `AddWord` alone (which stores `2·len`), e.g. one `AddWord` on fresh parameters; and it is
    never reached from `Message.Marshal`, whose template always ends with `AddWordsFromBytesStream`. -/
theorem params_guard_error_branch :
    (∀ p : Params, p.marshal = .err ↔ p.wordCount ≠ UInt8.ofNat p.words.length) ∧
    (∀ w, (Params.new.addWord w).marshal = .err) ∧
    (∀ (p : Params) (s : Bytes), (p.addStream s).marshal ≠ .err) := by
  refine ⟨?_, ?_, ?_⟩
  · intro p
    unfold Params.marshal
    split <;> simp_all
  · intro w
    simp [Params.new, Params.addWord, Params.marshal]
  · intro p s
    rw [addStream_marshal]; simp

/-- **Truncation witnesses** for the two hypotheses of `marshal_eq_spec`/`frame_length`
    (`uint8(len(Words))`, `uint16(len(Bytes))` wrap around):
    * 256 parameter words: WordCount byte 0 and NOT ONE word is written (the frame is 35 bytes long);
    * 257 parameter words: WordCount byte 1 in front of 514 bytes of words;
    * 65536 data bytes: ByteCount 0 in front of 65536 bytes. -/
theorem frame_truncation_witnesses (m : Msg) (c : Cmd) (hc : m.command = some c) (hx : c.isAndX = false) :
    (c.rawP.length = 512 → c.rawD = [] → (msgMarshal m).2 = .ok (Spec.encodeHeader m.header ++ [0, 0, 0])) ∧
    (c.rawP.length = 514 → ∃ rest, (msgMarshal m).2 = .ok (Spec.encodeHeader m.header ++ 1 :: rest) ∧
        rest.length = 514 + 2 + c.rawD.length) ∧
    (c.rawD.length = 65536 → ∃ ws, (msgMarshal m).2 = .ok (Spec.encodeHeader m.header ++ ws ++ [0, 0] ++ c.rawD)) := by
  have hlen : c.words.length = (c.rawP.length + 1) / 2 := by
    simp [Cmd.words, Cmd.andxWords, hx, wordsOfStream_length]
  refine ⟨?_, ?_, ?_⟩
  · intro hp hd
    rw [marshal_eq_header_frame m c hc]
    have h0 : UInt8.ofNat c.words.length = 0 := by rw [hlen, hp]; decide
    simp [Cmd.frame, h0, hd, putLe16]
  · intro hp
    rw [marshal_eq_header_frame m c hc]
    have h1 : UInt8.ofNat c.words.length = 1 := by rw [hlen, hp]; decide
    have hwl : (c.words.flatMap putBe16).length = 514 := by
      have := wordBytes_length c.words
      simp only [Spec.wordBytes] at this
      rw [this, hlen, hp]
    refine ⟨_, by simp only [Cmd.frame, h1]; rfl, ?_⟩
    simp [hwl, putLe16]
    omega
  · intro hd
    rw [marshal_eq_header_frame m c hc]
    have h0 : UInt16.ofNat c.rawD.length = 0 := by rw [hd]; decide
    refine ⟨UInt8.ofNat c.words.length :: (if UInt8.ofNat c.words.length > 0 then c.words.flatMap putBe16 else []), ?_⟩
    simp [Cmd.frame, h0, putLe16]

/-- The parameter byte stream survives `AddWordsFromBytesStream` → `GetBytesStream` in order, padded
    with one zero byte when its length is odd (fixes/C03-odd-parameter-byte.diff). -/
theorem params_stream_roundtrip (s : Bytes) :
    (Params.new.addStream s).bytesStream = Spec.padEven s := by
  rw [bytesStream_eq]
  simp [Params.addStream, Params.new, wordBytes_wordsOfStream]

/-- `Parameters.Unmarshal` inverts `Marshal` up to 255 words and consumes exactly `1 + 2·wc` bytes,
    whatever follows; it returns an error or a value for every input (no panic), never reads past the
    input, and its `WordCount` equals the number of words it holds. -/
theorem params_unmarshal_exact :
    (∀ (ws : List UInt16) (extra : Bytes), ws.length ≤ 255 →
      ∃ b, (Params.mk (UInt8.ofNat ws.length) ws).marshal = .ok b ∧
        Params.unmarshal (b ++ extra) = .ok (⟨UInt8.ofNat ws.length, ws⟩, 1 + 2 * ws.length)) ∧
    (∀ data, Params.unmarshal data = .err ∨ ∃ p n, Params.unmarshal data = .ok (p, n) ∧ n ≤ data.length ∧
      n = 1 + 2 * p.words.length ∧ p.wordCount.toNat = p.words.length) := by
  refine ⟨?_, params_unmarshal_total⟩
  intro ws extra h
  refine ⟨UInt8.ofNat ws.length :: Spec.wordBytes ws, ?_, ?_⟩
  · by_cases h0 : ws.length = 0
    · have : ws = [] := List.eq_nil_of_length_eq_zero h0
      subst this; rfl
    · have : UInt8.ofNat ws.length > 0 := (u8_pos_iff _).2 (by rw [ofNat8_toNat _ h]; exact h0)
      simp [Params.marshal, this, Spec.wordBytes]
  · simpa using params_unmarshal_spec ws extra h

/-- `Data.Unmarshal` inverts `Marshal` up to 65535 bytes and consumes exactly `2 + bc` bytes; it
    returns an error or a value for every input — in particular for a 1-byte buffer
    (fixes/C03-data-unmarshal-guard.diff). -/
theorem data_unmarshal_exact :
    (∀ (bs extra : Bytes), bs.length ≤ 65535 →
      ∃ b, (DataBlk.new.add bs).marshal = .ok b ∧
        DataBlk.unmarshal (b ++ extra) = .ok (⟨UInt16.ofNat bs.length, bs⟩, 2 + bs.length)) ∧
    (∀ data, DataBlk.unmarshal data = .err ∨ ∃ d n, DataBlk.unmarshal data = .ok (d, n)) ∧
    (∀ b, DataBlk.unmarshal [b] = .err) := by
  refine ⟨?_, data_unmarshal_total, fun b => rfl⟩
  intro bs extra h
  refine ⟨putLe16 (UInt16.ofNat bs.length) ++ bs, by simp [DataBlk.new, DataBlk.add, DataBlk.marshal], ?_⟩
  simpa using data_unmarshal_spec bs extra h

/-! ## 6. Repeatable encoding -/

private theorem msgMarshal_idem (m : Msg) : (msgMarshal (msgMarshal m).1).2 = (msgMarshal m).2 := by
  cases hc : m.command with
  | none => simp [msgMarshal, hc, marshalHeader_eq]
  | some c =>
    have hf : ∀ p d, Cmd.frame { c with andx := if c.isAndX then some c.effAndX else c.andx, params := p, data := d } = c.frame := by
      intro p d
      cases hx : c.isAndX <;> cases ha : c.andx <;>
        simp [Cmd.frame, Cmd.words, Cmd.andxWords, Cmd.effAndX, hx, ha]
    have h1 : (msgMarshal m).1 =
        { m with command := some { c with andx := if c.isAndX then some c.effAndX else c.andx,
                                           params := some ⟨UInt8.ofNat c.words.length, c.words⟩,
                                           data := some ⟨UInt16.ofNat c.rawD.length, c.rawD⟩ } } := by
      simp only [msgMarshal, marshalHeader_eq, hc, cmdMarshal_fresh]
    rw [marshal_eq_header_frame m c hc, marshal_eq_header_frame (msgMarshal m).1 _ (by rw [h1]), h1, hf]

/-- **Repeatable encoding** (clause "encoding the same message again yields identical bytes"; quantifier
    "every number of repeated Marshal calls on one message").  For every message — with or without a
    command, AndX or not, whatever state its blocks are in — the `(k+1)`-th call of `Marshal()` returns
    what the first call returned, for every `k`. -/
theorem marshal_repeatable (k : Nat) (m : Msg) : nthMarshal k m = (msgMarshal m).2 := by
  induction k generalizing m with
  | zero => rfl
  | succ k ih => rw [nthMarshal, ih, msgMarshal_idem]

/-- a Close request with FID 0x1234 (commands/CloseRequest.go: FID, then 8 bytes LastTimeModified) in a fresh message -/
def closeRequestExample : Msg :=
  addCommand Msg.new { code := 0x04, isAndX := false, andx := none, params := none, data := none,
                       rawP := [0x34, 0x12, 0, 0, 0, 0, 0, 0, 0, 0], rawD := [] }

/-- **Before fixes/C03-marshal-repeatable.diff** the second `Marshal` of a Close request
    (5 parameter words, no data) announced 10 words and carried the words twice. -/
theorem marshal_not_repeatable_before_fix :
    (BeforeFix.msgMarshal (BeforeFix.msgMarshal closeRequestExample).1).2 ≠ (BeforeFix.msgMarshal closeRequestExample).2 ∧
    (∃ b, (BeforeFix.msgMarshal (BeforeFix.msgMarshal closeRequestExample).1).2 = .ok b ∧
      b[32]? = some 10 ∧ b.length = 32 + 1 + 20 + 2) :=
  ⟨by decide, _, rfl, by decide, by decide⟩

/-- **Before fixes/C03-odd-parameter-byte.diff** an odd trailing parameter byte `b` came out as `00 b`:
    the stream `01 02 03` was emitted as `01 02 00 03`; now it is `01 02 03 00`. -/
theorem odd_parameter_byte_before_fix :
    Spec.wordBytes (BeforeFix.wordsOfStream [1, 2, 3]) = [1, 2, 0, 3] ∧
    Spec.wordBytes (wordsOfStream [1, 2, 3]) = [1, 2, 3, 0] := by decide

/-- **Before fixes/C03-data-unmarshal-guard.diff** `Data.Unmarshal` of a 1-byte buffer panicked (`data[:2]`). -/
theorem data_unmarshal_panics_before_fix : BeforeFix.dataUnmarshal [5] = .panic := by decide

/-! ## 7. Whole message round trip -/

private theorem roundtrip_aux (h0 : Header) (c : Cmd) (extra : Bytes) (kind : Kind)
    (hf : h0.flags ≤ 0xFF) (hk : factory (isResponse h0) h0.command = .ok kind)
    (hw : c.wordsEmitted ≤ 255) (hb : c.rawD.length ≤ 65535) :
    msgUnmarshal (Spec.encodeHeader h0 ++ c.frame ++ extra) (.ok ()) =
      .ok { header := { h0 with sec := .reserved h0.sec.bytes }, kind := kind,
            params := ⟨UInt8.ofNat c.wordsEmitted, c.words⟩,
            data := ⟨UInt16.ofNat c.rawD.length, c.rawD⟩ } := by
  have hlen : c.words.length = c.wordsEmitted := by
    cases hx : c.isAndX <;>
      simp [Cmd.words, Cmd.andxWords, Cmd.wordsEmitted, hx, AndX.words, wordsOfStream_length] <;> omega
  have hwords : (if UInt8.ofNat c.words.length > 0 then c.words.flatMap putBe16 else []) = Spec.wordBytes c.words := by
    by_cases h0 : c.words.length = 0
    · have : c.words = [] := List.eq_nil_of_length_eq_zero h0
      simp [this, Spec.wordBytes]
    · have : UInt8.ofNat c.words.length > 0 := (u8_pos_iff _).2 (by rw [ofNat8_toNat _ (by omega)]; exact h0)
      simp [this, Spec.wordBytes]
  have hhl : (Spec.encodeHeader h0).length = 32 := by rw [encodeHeader_eq]; rfl
  have e : Spec.encodeHeader h0 ++ c.frame ++ extra =
      Spec.encodeHeader h0 ++ (UInt8.ofNat c.words.length :: (Spec.wordBytes c.words ++
        (putLe16 (UInt16.ofNat c.rawD.length) ++ (c.rawD ++ extra)))) := by
    simp [Cmd.frame, hwords]
  have h1 : slice (Spec.encodeHeader h0 ++ (UInt8.ofNat c.words.length :: (Spec.wordBytes c.words ++
        (putLe16 (UInt16.ofNat c.rawD.length) ++ (c.rawD ++ extra))))) 0 32 = .ok (Spec.encodeHeader h0) := by
    have := slice_append_left (Spec.encodeHeader h0) (UInt8.ofNat c.words.length :: (Spec.wordBytes c.words ++
        (putLe16 (UInt16.ofNat c.rawD.length) ++ (c.rawD ++ extra))))
    rwa [hhl] at this
  have h2 : sliceFrom (Spec.encodeHeader h0 ++ (UInt8.ofNat c.words.length :: (Spec.wordBytes c.words ++
        (putLe16 (UInt16.ofNat c.rawD.length) ++ (c.rawD ++ extra))))) 32 = .ok (UInt8.ofNat c.words.length :: (Spec.wordBytes c.words ++
        (putLe16 (UInt16.ofNat c.rawD.length) ++ (c.rawD ++ extra)))) := by
    have := sliceFrom_append (Spec.encodeHeader h0) (UInt8.ofNat c.words.length :: (Spec.wordBytes c.words ++
        (putLe16 (UInt16.ofNat c.rawD.length) ++ (c.rawD ++ extra))))
    rwa [hhl] at this
  have h3 : unmarshalHeader (Spec.encodeHeader h0) = .ok ({ h0 with sec := .reserved h0.sec.bytes }, 32) := by
    rw [encodeHeader_eq, unmarshal_headerBytes, and_ff_of_le h0.flags hf]
  have h4 := params_unmarshal_spec c.words (putLe16 (UInt16.ofNat c.rawD.length) ++ (c.rawD ++ extra)) (by omega)
  have h5 : sliceFrom (UInt8.ofNat c.words.length :: (Spec.wordBytes c.words ++
        (putLe16 (UInt16.ofNat c.rawD.length) ++ (c.rawD ++ extra)))) (1 + 2 * c.words.length)
        = .ok (putLe16 (UInt16.ofNat c.rawD.length) ++ (c.rawD ++ extra)) := by
    have := sliceFrom_append (UInt8.ofNat c.words.length :: Spec.wordBytes c.words) (putLe16 (UInt16.ofNat c.rawD.length) ++ (c.rawD ++ extra))
    simp only [List.length_cons, wordBytes_length, List.cons_append] at this
    rw [show 1 + 2 * c.words.length = 2 * c.words.length + 1 by omega]
    exact this
  have h6 := data_unmarshal_spec c.rawD extra hb
  have hresp : isResponse { h0 with sec := SecFeat.reserved h0.sec.bytes } = isResponse h0 := rfl
  have hlong : ¬ (Spec.encodeHeader h0 ++ (UInt8.ofNat c.words.length :: (Spec.wordBytes c.words ++
        (putLe16 (UInt16.ofNat c.rawD.length) ++ (c.rawD ++ extra))))).length < 32 := by
    simp [hhl]
  rw [e]
  unfold msgUnmarshal
  rw [if_neg hlong]
  simp only [h1, Outcome.bind_ok, h3, h2, hresp, hk, h4, h5, h6, Outcome.pure_eq]
  rw [hlen]

/-- **Message round trip** (clause "encoding an SMB1 message and decoding the bytes returns the same
    header fields and a command structure of the type that the header's command code and reply flag
    designate").  Take any message built by `AddCommand` whose command code the factory for the header's
    direction knows, with `Flags ≤ 0xFF` and blocks within the count limits.  Then `Unmarshal` of the
    marshalled bytes (followed by anything) succeeds as far as the envelope is concerned and yields the same
    header, a command of the factory's type for (reply flag, code) — which by `dispatch_total` carries
    that very code —, the parameter words that were emitted and the data bytes that were given. -/
theorem message_roundtrip (h : Header) (c : Cmd) (extra : Bytes) (kind : Kind)
    (hf : h.flags ≤ 0xFF) (hk : factory (isResponse h) c.code = .ok kind)
    (hw : c.wordsEmitted ≤ 255) (hb : c.rawD.length ≤ 65535) :
    ∃ bytes, (msgMarshal (addCommand ⟨h, none⟩ c)).2 = .ok bytes ∧
      msgUnmarshal (bytes ++ extra) (.ok ()) =
        .ok { header := { h with command := c.code, sec := .reserved h.sec.bytes }, kind := kind,
              params := ⟨UInt8.ofNat c.wordsEmitted, c.words⟩,
              data := ⟨UInt16.ofNat c.rawD.length, c.rawD⟩ } :=
  ⟨_, marshal_eq_header_frame (addCommand ⟨h, none⟩ c) c rfl,
    roundtrip_aux { h with command := c.code } c extra kind hf hk hw hb⟩

/-- The envelope part of `Message.Unmarshal` returns an error or a value on EVERY input: when the
    command-specific reading does not panic, nothing does. -/
theorem message_unmarshal_envelope_total (data : Bytes) (specific : Outcome Unit) (hs : specific ≠ .panic) :
    msgUnmarshal data specific ≠ .panic := by
  unfold msgUnmarshal
  by_cases hl : data.length < 32
  · simp [hl]
  · rw [if_neg hl]
    have h1 : slice data 0 32 = .ok (data.take 32) := by simp [slice]; omega
    obtain ⟨hd, hu, -⟩ := unmarshalHeader_ok (data.take 32) (by simp; omega)
    have h2 : sliceFrom data 32 = .ok (data.drop 32) := by simp [sliceFrom]; omega
    simp only [h1, Outcome.bind_ok, hu, h2]
    cases hfac : factory (isResponse hd) hd.command with
    | panic => exact absurd hfac (dispatch_total _ _).2.2
    | err => simp
    | ok kind =>
      simp only [Outcome.bind_ok]
      rcases params_unmarshal_total (data.drop 32) with hp | ⟨p, n, hp, hn, -, -⟩
      · simp [hp]
      · have h3 : sliceFrom (data.drop 32) n = .ok ((data.drop 32).drop n) := by simp [sliceFrom]; simpa using hn
        simp only [hp, Outcome.bind_ok, h3]
        rcases data_unmarshal_total ((data.drop 32).drop n) with hdd | ⟨d, k, hdd⟩
        · simp only [hdd, Outcome.bind_err]; simp
        · simp only [hdd, Outcome.bind_ok]
          cases specific with
          | ok u => simp
          | err => simp
          | panic => exact absurd rfl hs

/-! ## non-vacuity: the hypotheses are satisfiable, on concrete instances -/

/-- a header with every field non-trivial, connectionless security features -/
example : ∃ b, marshalHeader { protocol := ⟨0xFF, 0x53, 0x4D, 0x42⟩, command := 0x2B, status := 0xC0000022, flags := 0x98,
                               flags2 := 0xC807, pidHigh := 0x1234, sec := .connectionless 0xDEADBEEF 0x0102 0x0304,
                               reserved := 0, tid := 0x0A0B, pidLow := 0x5678, uid := 0x0C0D, mid := 0x0E0F } = .ok b ∧
    b = [0xFF, 0x53, 0x4D, 0x42, 0x2B, 0x22, 0x00, 0x00, 0xC0, 0x98, 0x07, 0xC8, 0x34, 0x12,
         0xEF, 0xBE, 0xAD, 0xDE, 0x02, 0x01, 0x04, 0x03, 0x00, 0x00, 0x0B, 0x0A, 0x78, 0x56, 0x0D, 0x0C, 0x0F, 0x0E] :=
  ⟨_, by decide, rfl⟩
example : (0x98 : UInt16) ≤ 0xFF := by decide
example : getPID { Header.new with pidHigh := 0x1234, pidLow := 0x5678 } = 0x12345678 := by decide
/-- dispatch: Close request / response, an AndX command, the WriteRaw reply, an unknown code, a code with no reply type -/
example : factory false 0x04 = .ok .CloseRequest ∧ factory true 0x04 = .ok .CloseResponse ∧
    factory false 0x73 = .ok .SessionSetupAndxRequest ∧ factory true 0x1D = .ok .WriteRawFinal ∧
    factory false 0x15 = .err ∧ factory true 0xA4 = .err := by decide +kernel
/-- an Echo request: 1 parameter word (EchoCount = 1), 3 data bytes -/
def echoExample : Cmd :=
  { code := 0x2B, isAndX := false, andx := none, params := none, data := none, rawP := [1, 0], rawD := [0x41, 0x42, 0x43] }
/-- a Logoff AndX request: an AndX type with no parameter bytes of its own -/
def logoffExample : Cmd :=
  { code := 0x74, isAndX := true, andx := none, params := none, data := none, rawP := [], rawD := [] }

/-- the Echo frame, its length `32 + 1 + 2·1 + 2 + 3`, its repetition, and its type -/
example : echoExample.wordsEmitted = 1 ∧
    (msgMarshal (addCommand Msg.new echoExample)).2 =
      .ok (Spec.encodeHeader { Header.new with command := 0x2B } ++ [1, 1, 0, 3, 0, 0x41, 0x42, 0x43]) ∧
    nthMarshal 3 (addCommand Msg.new echoExample) = (msgMarshal (addCommand Msg.new echoExample)).2 ∧
    factory (isResponse (addCommand Msg.new echoExample).header) echoExample.code = .ok .EchoRequest := by
  decide +kernel
/-- the two AndX words `FF 00 00 00` of a default AndX block -/
example : logoffExample.wordsEmitted = 2 ∧
    (msgMarshal (addCommand Msg.new logoffExample)).2 =
      .ok (Spec.encodeHeader { Header.new with command := 0x74 } ++ [2, 0xFF, 0, 0, 0, 0, 0]) := by
  decide +kernel
/-- the whole round trip on the Echo request -/
example : ∃ b, (msgMarshal (addCommand Msg.new echoExample)).2 = .ok b ∧
    (msgUnmarshal b (.ok ())).map' (fun d => (d.kind, d.params.words, d.data.bytes)) = .ok (.EchoRequest, [0x0100], [0x41, 0x42, 0x43]) :=
  ⟨_, rfl, by decide +kernel⟩

end Manticore.C03
