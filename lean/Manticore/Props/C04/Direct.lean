/-
  C04 — round trips proved for one regenerated program at a time (the commands whose programs are outside the
  fragment predicates `Mirror` / `MirrorLoops` of Model/SmbCmd.lean, Model/SmbLoops.lean).  Same statement, same
  hypothesis (`consistent`) and same conclusion as `mirror_loops_roundtrip`; the program is the one regenerated from
  /repo on this run, so a change of `Marshal` or `Unmarshal` breaks the proof.  Property theorems only.
-/
import Manticore.Model.SmbCmd
import Manticore.Model.SmbCodecs
import Manticore.Gen.SmbCommands
import Manticore.Lemmas.SmbMirror
import Manticore.Model.SmbLoops
namespace Manticore.C04
open Manticore Manticore.SmbIR Manticore.Gen.SmbCommands

/-- **NEGOTIATE request round trip** (outside `MirrorLoops`: `Dialects.Unmarshal` reads to the end of its input, so it
    satisfies the decode law only with nothing behind its encoding, and the guard `len(D) < 1` in front of it is not
    sized by the type).  For every internally consistent assignment and every receiver: `Marshal` succeeds,
    `Unmarshal` of the bytes succeeds and `Dialects` comes back as `Marshal` left it.  `consistent` asks here exactly
    that the dialect list is in the domain of its codec (`tupOk`: its own encoding decodes back to it, consuming all of
    it — an identifier with a NUL byte inside is outside, as in the wire format, whose entries are NUL-terminated: the
    examples below), that the data block is not empty (at least one
    dialect: a request with none is the empty message on which `Unmarshal` returns early) and fits 65535 bytes. -/
theorem negotiate_request_roundtrip (env0 env : Env)
    (hc : consistent Manticore.SmbCodecs.std cmd_NegotiateRequest env = true) :
    ∃ bs env' d, encodeCmd Manticore.SmbCodecs.std cmd_NegotiateRequest env = .ok bs ∧
      envAfterMarshal Manticore.SmbCodecs.std cmd_NegotiateRequest env = .ok env' ∧
      decodeCmd Manticore.SmbCodecs.std cmd_NegotiateRequest env0 bs = .ok d ∧
      ∀ f ∈ cmd_NegotiateRequest.roundTripFields, d.get f = env'.get f := by
  unfold consistent at hc
  rw [Bool.and_eq_true] at hc
  obtain ⟨_, hc⟩ := hc
  split at hc
  case h_2 => cases hc
  rename_i sM hrun
  simp only [Bool.and_eq_true, decide_eq_true_eq, beq_iff_eq, Bool.or_eq_true, List.isEmpty_iff] at hc
  obtain ⟨⟨⟨⟨⟨_, hrel⟩, _⟩, _⟩, hdl⟩, hne⟩ := hc
  -- Marshal: the dialect list into the data block
  have hM : ∃ names, sM = MState.mk [] (Manticore.SmbCodecs.dialectsEnc names) [] (env.set "Dialects" (.t ([], names))) := by
    simp only [runM, cmd_NegotiateRequest, runMStmts, runMStmt, prologueEnv, Bool.false_and, Bool.false_eq_true, if_false] at hrun
    split at hrun
    · rename_i v hv
      obtain ⟨nums, names⟩ := v
      cases nums with
      | cons _ _ => simp [Manticore.SmbCodecs.std, Manticore.SmbCodecs.enc] at hrun
      | nil =>
        simp only [Manticore.SmbCodecs.std, Manticore.SmbCodecs.enc, Outcome.bind_ok, Outcome.pure_eq, Outcome.ok.injEq] at hrun
        exact ⟨names, by rw [← hrun]; rfl⟩
    · cases hrun
  obtain ⟨names, rfl⟩ := hM
  -- the relation `consistent` checked: the list is in the domain of its codec
  have htup : tupOk Manticore.SmbCodecs.std "Dialects" ([], names) = true := by
    simp only [relationsHold, cmd_NegotiateRequest, Env.get_set_self, Bool.and_true] at hrel
    exact hrel
  have hdec : Manticore.SmbCodecs.std.dec "Dialects" (Manticore.SmbCodecs.dialectsEnc names) =
      .ok (([], names), (Manticore.SmbCodecs.dialectsEnc names).length) := by
    unfold tupOk at htup
    simp only [Manticore.SmbCodecs.std, Manticore.SmbCodecs.enc] at htup
    split at htup
    · rename_i dv k hd
      simp only [Bool.and_eq_true, beq_iff_eq] at htup
      rw [show Manticore.SmbCodecs.std.dec = Manticore.SmbCodecs.dec from rfl, hd, htup.1, htup.2]
    · cases htup
  have hD : Manticore.SmbCodecs.dialectsEnc names ≠ [] := by
    rcases hne with (h | h) | h
    · simp at h
    · intro e; rw [e] at h; simp at h
    · simp [cmd_NegotiateRequest] at h
  refine ⟨paramBlock false [] [] ++ dataBlock (Manticore.SmbCodecs.dialectsEnc names), env.set "Dialects" (.t ([], names)), (env0.set "Dialects" (.t ([], names))), ?_, ?_, ?_, ?_⟩
  · simp only [encodeCmd, hrun]; rfl
  · simp only [envAfterMarshal, hrun]
  · unfold decodeCmd
    have hsp : splitParams (paramBlock false [] [] ++ dataBlock (Manticore.SmbCodecs.dialectsEnc names)) =
        .ok (0, [], dataBlock (Manticore.SmbCodecs.dialectsEnc names)) := by
      simp [paramBlock, wordCountOf, andxWords, splitParams]
    rw [hsp]
    simp only []
    rw [splitData_dataBlock _ hdl]
    simp only [runU, cmd_NegotiateRequest]
    cases hE : Manticore.SmbCodecs.dialectsEnc names with
    | nil => exact absurd hE hD
    | cons x xs =>
      rw [hE] at hdec
      simp [runU.go, runUStmt, evalExpr, UState.blk, sliceFrom, hdec]
  · intro f hf
    have : f = "Dialects" := by simpa [Cmd.roundTripFields, cmd_NegotiateRequest] using hf
    subst this
    rw [Env.get_set_self, Env.get_set_self]

/-! ### non-vacuity -/

/-- the request every client sends first: one dialect, "NT LM 0.12" -/
def negotiateEnv : Env := [("Dialects", .t ([], [[0x4e, 0x54, 0x20, 0x4c, 0x4d, 0x20, 0x30, 0x2e, 0x31, 0x32]]))]

example : MirrorLoops cmd_NegotiateRequest = false := by decide +kernel
example : consistent Manticore.SmbCodecs.std cmd_NegotiateRequest negotiateEnv = true := by
  have hrun : runM Manticore.SmbCodecs.std cmd_NegotiateRequest negotiateEnv =
      .ok { P := [], D := [2, 0x4e, 0x54, 0x20, 0x4c, 0x4d, 0x20, 0x30, 0x2e, 0x31, 0x32, 0], head := [], env := negotiateEnv } := by rfl
  have h1 : tupOk Manticore.SmbCodecs.std "Dialects" ([], [[0x4e, 0x54, 0x20, 0x4c, 0x4d, 0x20, 0x30, 0x2e, 0x31, 0x32]]) = true := by
    decide +kernel
  unfold consistent
  rw [hrun]
  simp [intsFit, relationsHold, cmd_NegotiateRequest, negotiateEnv, Env.get, h1, wordCountOf, andxWords, andxOk]
example : encodeCmd Manticore.SmbCodecs.std cmd_NegotiateRequest negotiateEnv =
    .ok [0x00, 0x0c, 0x00, 0x02, 0x4e, 0x54, 0x20, 0x4c, 0x4d, 0x20, 0x30, 0x2e, 0x31, 0x32, 0x00] := by decide +kernel
/-- the well-formedness condition inside `consistent`: identifiers are NUL-free.  `["A\x00B"]` goes out as
    `02 41 00 42 00`, which no decoder can tell from a malformed second entry — outside the codec's domain -/
example : tupOk Manticore.SmbCodecs.std "Dialects" ([], [[0x41, 0x00, 0x42]]) = false ∧
    tupOk Manticore.SmbCodecs.std "Dialects" ([], [[0x41], [0x42, 0x43]]) = true := by decide +kernel

end Manticore.C04
