/-
  C04 — round trips proved for one regenerated program at a time (the commands whose programs are outside the
  fragment predicates `Mirror` / `MirrorLoops` of Model/SmbCmd.lean, Model/SmbLoops.lean).  Same statement, same
  hypothesis (`consistent`) and same conclusion as `mirror_loops_roundtrip`; the program is the one regenerated from
  /repo on this run, so a change of `Marshal` or `Unmarshal` breaks the proof.  Property theorems only:
  `negotiate_request_roundtrip`, `write_request_roundtrip`.
-/
import Manticore.Model.SmbCmd
import Manticore.Model.SmbCodecs
import Manticore.Gen.SmbCommands
import Manticore.Lemmas.SmbMirror
import Manticore.Model.SmbLoops
import Manticore.Lemmas.SmbStd
namespace Manticore.C04
open Manticore Manticore.SmbIR Manticore.Gen.SmbCommands

/-- **NEGOTIATE request round trip** (outside `MirrorLoops`: `Dialects.Unmarshal` reads to the end of its input, so it
    satisfies the decode law only with nothing behind its encoding, and the guard `len(D) < 1` in front of it is not
    sized by the type).  For every internally consistent assignment and every receiver: `Marshal` succeeds,
    `Unmarshal` of the bytes succeeds and `Dialects` comes back as `Marshal` left it.  `consistent` asks here exactly
    that the dialect list is in the domain of its codec (`tupOk`: its own encoding decodes back to it, consuming all of
    it — an identifier with a NUL byte inside is outside, as in the wire format, whose entries are NUL-terminated: the
    examples below), that the data block is not empty (at least one
    dialect: a request with none is the empty message on which `Unmarshal` returns early) and fits 65535 bytes. -/
theorem negotiate_request_roundtrip (env0 env : Env)
    (hc : consistent Manticore.SmbCodecs.std cmd_NegotiateRequest env = true) :
    ∃ bs env' d, encodeCmd Manticore.SmbCodecs.std cmd_NegotiateRequest env = .ok bs ∧
      envAfterMarshal Manticore.SmbCodecs.std cmd_NegotiateRequest env = .ok env' ∧
      decodeCmd Manticore.SmbCodecs.std cmd_NegotiateRequest env0 bs = .ok d ∧
      ∀ f ∈ cmd_NegotiateRequest.roundTripFields, d.get f = env'.get f := by
  unfold consistent at hc
  rw [Bool.and_eq_true] at hc
  obtain ⟨_, hc⟩ := hc
  split at hc
  case h_2 => cases hc
  rename_i sM hrun
  simp only [Bool.and_eq_true, decide_eq_true_eq, beq_iff_eq, Bool.or_eq_true, List.isEmpty_iff] at hc
  obtain ⟨⟨⟨⟨⟨_, hrel⟩, _⟩, _⟩, hdl⟩, hne⟩ := hc
  -- Marshal: the dialect list into the data block
  have hM : ∃ names, sM = MState.mk [] (Manticore.SmbCodecs.dialectsEnc names) [] (env.set "Dialects" (.t ([], names))) := by
    simp only [runM, cmd_NegotiateRequest, runMStmts, runMStmt, prologueEnv, Bool.false_and, Bool.false_eq_true, if_false] at hrun
    split at hrun
    · rename_i v hv
      obtain ⟨nums, names⟩ := v
      cases nums with
      | cons _ _ => simp [Manticore.SmbCodecs.std, Manticore.SmbCodecs.enc] at hrun
      | nil =>
        simp only [Manticore.SmbCodecs.std, Manticore.SmbCodecs.enc, Outcome.bind_ok, Outcome.pure_eq, Outcome.ok.injEq] at hrun
        exact ⟨names, by rw [← hrun]; rfl⟩
    · cases hrun
  obtain ⟨names, rfl⟩ := hM
  -- the relation `consistent` checked: the list is in the domain of its codec
  have htup : tupOk Manticore.SmbCodecs.std "Dialects" ([], names) = true := by
    simp only [relationsHold, cmd_NegotiateRequest, Env.get_set_self, Bool.and_true] at hrel
    exact hrel
  have hdec : Manticore.SmbCodecs.std.dec "Dialects" (Manticore.SmbCodecs.dialectsEnc names) =
      .ok (([], names), (Manticore.SmbCodecs.dialectsEnc names).length) := by
    unfold tupOk at htup
    simp only [Manticore.SmbCodecs.std, Manticore.SmbCodecs.enc] at htup
    split at htup
    · rename_i dv k hd
      simp only [Bool.and_eq_true, beq_iff_eq] at htup
      rw [show Manticore.SmbCodecs.std.dec = Manticore.SmbCodecs.dec from rfl, hd, htup.1, htup.2]
    · cases htup
  have hD : Manticore.SmbCodecs.dialectsEnc names ≠ [] := by
    rcases hne with (h | h) | h
    · simp at h
    · intro e; rw [e] at h; simp at h
    · simp [cmd_NegotiateRequest] at h
  refine ⟨paramBlock false [] [] ++ dataBlock (Manticore.SmbCodecs.dialectsEnc names), env.set "Dialects" (.t ([], names)), (env0.set "Dialects" (.t ([], names))), ?_, ?_, ?_, ?_⟩
  · simp only [encodeCmd, hrun]; rfl
  · simp only [envAfterMarshal, hrun]
  · unfold decodeCmd
    have hsp : splitParams (paramBlock false [] [] ++ dataBlock (Manticore.SmbCodecs.dialectsEnc names)) =
        .ok (0, [], dataBlock (Manticore.SmbCodecs.dialectsEnc names)) := by
      simp [paramBlock, wordCountOf, andxWords, splitParams]
    rw [hsp]
    simp only []
    rw [splitData_dataBlock _ hdl]
    simp only [runU, cmd_NegotiateRequest]
    cases hE : Manticore.SmbCodecs.dialectsEnc names with
    | nil => exact absurd hE hD
    | cons x xs =>
      rw [hE] at hdec
      simp [runU.go, runUStmt, evalExpr, UState.blk, sliceFrom, hdec]
  · intro f hf
    have : f = "Dialects" := by simpa [Cmd.roundTripFields, cmd_NegotiateRequest] using hf
    subst this
    rw [Env.get_set_self, Env.get_set_self]

/-! ## WriteRequest (repaired: fixes/C04-writerequest-data-block.diff) -/

private theorem bind_eq_ok' {α β} {x : Outcome α} {f : α → Outcome β} {b : β} (h : (x >>= f) = .ok b) :
    ∃ a, x = .ok a ∧ f a = .ok b := by
  cases x with
  | ok a => exact ⟨a, rfl, h⟩
  | err => cases h
  | panic => cases h

private theorem stmts_cons' {C : Codecs} {andx : Bool} {s s' : MState} {st : MStmt} {r : List MStmt}
    (h : runMStmts C andx s (st :: r) = .ok s') :
    ∃ s1, runMStmt C andx s st = .ok s1 ∧ runMStmts C andx s1 r = .ok s' := by
  simp only [runMStmts] at h
  exact bind_eq_ok' h

/-- an integer statement appends the integer's bytes to the parameter stream and touches nothing else -/
private theorem int_step {C : Codecs} {andx : Bool} {s s' : MState} {w : Nat} {e : End} {f : String}
    (h : runMStmt C andx s (.int .P w e f) = .ok s') :
    ∃ x, s.env.get f = some (.n x) ∧ s' = { s with P := s.P ++ intBytes w e x } := by
  simp only [runMStmt] at h
  obtain ⟨x, hx, h⟩ := bind_eq_ok' h
  simp only [Outcome.pure_eq, Outcome.ok.injEq] at h
  exact ⟨x, getN_ok hx, by rw [← h]; rfl⟩

/-- `SMB_STRING.Marshal` after `SetBufferFormat(0x01)`: the format byte, two length bytes, the buffer; the value it
    leaves behind has its two numbers (format, length) -/
private theorem enc_fmt1_shape {v : Tup} {bs : Bytes} {v' : Tup}
    (h : Manticore.SmbCodecs.std.enc "SMB_STRING" (Manticore.SmbCodecs.std.setFmt 1 v) = .ok (bs, v')) :
    (∃ a b rest, bs = 1 :: a :: b :: rest) ∧ ∃ f l buf, v' = ([f, l], [buf]) := by
  obtain ⟨nums, bss⟩ := v
  simp only [Manticore.SmbCodecs.std, Manticore.SmbCodecs.enc, Manticore.SmbCodecs.lift] at h
  match nums, bss, h with
  | [], _, h => simp [Manticore.SmbCodecs.setFmt, Manticore.SmbCodecs.strOf] at h
  | [_], _, h => simp [Manticore.SmbCodecs.setFmt, Manticore.SmbCodecs.strOf] at h
  | _ :: _ :: _ :: _, _, h => simp [Manticore.SmbCodecs.setFmt, Manticore.SmbCodecs.strOf] at h
  | [_, l], [], h => simp [Manticore.SmbCodecs.setFmt, Manticore.SmbCodecs.strOf] at h
  | [_, l], _ :: _ :: _, h => simp [Manticore.SmbCodecs.setFmt, Manticore.SmbCodecs.strOf] at h
  | [_, l], [buf], h =>
    simp only [Manticore.SmbCodecs.setFmt, Manticore.SmbCodecs.strOf] at h
    have hf : Manticore.SmbCodecs.u8 1 = 1 := rfl
    simp only [Manticore.C06.SmbString.marshal, hf, true_or, if_true] at h
    split at h
    · cases h
    · simp only [Outcome.map', Outcome.ok.injEq, Prod.mk.injEq] at h
      exact ⟨⟨_, _, buf, by rw [← h.1]; rfl⟩, ⟨_, _, _, by rw [← h.2]; rfl⟩⟩

/-- `if len(P) < offset+w {err}; c.F = LE(P[offset:offset+w]); offset += w` on a parameter stream that holds the
    integer's bytes at `offset` -/
private theorem read_int_block (C : Codecs) (s : UState) (w : Nat) (f : String) (x : Nat) (pre post : Bytes) (r : List UStmt)
    (hblk : s.P = pre ++ (intBytes w .le x ++ post)) (hoff : s.offset = pre.length) (hx : x < 256 ^ w) :
    runU.go C s (.guard .P (.lit w) :: .readInt .P w .le f :: .advance (.lit w) :: r) =
      runU.go C { s with env := s.env.set f (.n x), offset := s.offset + w } r := by
  have hblk' : s.blk .P = pre ++ (intBytes w .le x ++ post) := hblk
  have hg : runUStmt C s (.guard .P (.lit w)) = .next s := by
    rw [runUStmt]
    simp only [evalExpr]
    rw [if_neg (by rw [hblk', hoff]; simp only [List.length_append, intBytes_length]; omega)]
  have h1 := step_readInt C s .P w .le f pre (intBytes w .le x) post hblk hoff (intBytes_length w .le x).symm
  rw [intVal_intBytes w .le x hx] at h1
  have h2 := step_advance C { s with env := s.env.set f (.n x) } (.lit w) w rfl
  rw [go_next _ hg, go_next2 r h1 h2]

private theorem step_reset (C : Codecs) (s : UState) : runUStmt C s .resetOffset = .next { s with offset := 0 } := by
  rw [runUStmt]

/-- `if len(D) < 2 {err}; c.Data.Unmarshal(D[offset:]); offset += int(c.Data.Length)` at `offset = 0` on a data block the
    string decoder accepts -/
private theorem tail_block (s : UState) (v' : Tup) (k l : Nat) (hoff : s.offset = 0) (hD : 2 ≤ s.D.length)
    (hdec : Manticore.SmbCodecs.std.dec "SMB_STRING" s.D = .ok (v', k)) (hl : v'.1[1]? = some l) :
    runU.go Manticore.SmbCodecs.std s [.guard .D (.lit 2), .readSub .D "Data" "SMB_STRING" none false false false,
      .advance (.fsub "Data" 1)] = .ok (s.env.set "Data" (.t v')) := by
  have hg : runUStmt Manticore.SmbCodecs.std s (.guard .D (.lit 2)) = .next s := by
    rw [runUStmt]
    simp only [evalExpr]
    rw [if_neg (by show ¬ s.D.length < s.offset + 2; omega)]
  have hsl : sliceFrom (s.blk .D) s.offset = .ok s.D := by
    rw [hoff]; show sliceFrom s.D 0 = _; simp [sliceFrom]
  have hr : runUStmt Manticore.SmbCodecs.std s (.readSub .D "Data" "SMB_STRING" none false false false) =
      .next { s with env := s.env.set "Data" (.t v') } := by
    simp only [runUStmt, Bool.false_eq_true, if_false, hsl, hdec]
  have ha : runUStmt Manticore.SmbCodecs.std { s with env := s.env.set "Data" (.t v') } (.advance (.fsub "Data" 1)) =
      .next { s with env := s.env.set "Data" (.t v'), offset := s.offset + l } := by
    rw [runUStmt]
    simp only [evalExpr, Env.get_set_self, hl]
  rw [go_next _ hg, go_next2 _ hr ha, go_nil]

/-- **WRITE request round trip** (outside `MirrorLoops`: `Unmarshal` decodes `Data` without looking at the error or the
    count, behind a guard `len(D) < 2` that is not sized by the type, and then moves `offset` by `c.Data.Length`).
    The program is the repaired one (fixes/C04-writerequest-data-block.diff: the marshalled string goes into the data
    block).  For every internally consistent assignment and every receiver: `Marshal` succeeds, `Unmarshal` of the
    bytes succeeds and the five declared fields come back as `Marshal` left them (`Data` with buffer format 0x01 and
    its length field set).  `consistent` asks here that the four integers fit their widths, that `Data` is in the
    domain of its codec (`tupOk`: a buffer of at most 65535 bytes) and that the data block fits its count. -/
theorem write_request_roundtrip (env0 env : Env)
    (hc : consistent Manticore.SmbCodecs.std cmd_WriteRequest env = true) :
    ∃ bs env' d, encodeCmd Manticore.SmbCodecs.std cmd_WriteRequest env = .ok bs ∧
      envAfterMarshal Manticore.SmbCodecs.std cmd_WriteRequest env = .ok env' ∧
      decodeCmd Manticore.SmbCodecs.std cmd_WriteRequest env0 bs = .ok d ∧
      ∀ f ∈ cmd_WriteRequest.roundTripFields, d.get f = env'.get f := by
  unfold consistent at hc
  rw [Bool.and_eq_true] at hc
  obtain ⟨_, hc⟩ := hc
  split at hc
  case h_2 => cases hc
  rename_i sM hrun
  simp only [Bool.and_eq_true, decide_eq_true_eq, beq_iff_eq, Bool.or_eq_true, List.isEmpty_iff] at hc
  obtain ⟨⟨⟨⟨⟨hints, hrel⟩, _⟩, _⟩, hdl⟩, _⟩ := hc
  have hrun0 := hrun
  -- Marshal, statement by statement
  simp only [runM, cmd_WriteRequest, prologueEnv, Bool.false_and, Bool.false_eq_true, if_false] at hrun
  obtain ⟨s1, h1, hrun⟩ := stmts_cons' hrun
  obtain ⟨s2, h2, hrun⟩ := stmts_cons' hrun
  obtain ⟨s3, h3, hrun⟩ := stmts_cons' hrun
  obtain ⟨s4, h4, hrun⟩ := stmts_cons' hrun
  obtain ⟨s5, h5, hrun⟩ := stmts_cons' hrun
  obtain ⟨s6, h6, hrun⟩ := stmts_cons' hrun
  simp only [runMStmts, Outcome.ok.injEq] at hrun
  subst hrun
  have hs1 : ∃ v, s1 = { env := env.set "Data" (.t (Manticore.SmbCodecs.std.setFmt 1 v)) } := by
    simp only [runMStmt] at h1
    split at h1
    · rename_i v _
      simp only [Outcome.ok.injEq] at h1
      exact ⟨v, h1.symm⟩
    · cases h1
  obtain ⟨v, rfl⟩ := hs1
  have hs2 : ∃ db v', Manticore.SmbCodecs.std.enc "SMB_STRING" (Manticore.SmbCodecs.std.setFmt 1 v) = .ok (db, v') ∧
      s2 = MState.mk [] db [] ((env.set "Data" (.t (Manticore.SmbCodecs.std.setFmt 1 v))).set "Data" (.t v')) := by
    simp only [runMStmt, Env.get_set_self] at h2
    obtain ⟨⟨db, v'⟩, he, h2⟩ := bind_eq_ok' h2
    simp only [Outcome.pure_eq, Outcome.ok.injEq] at h2
    exact ⟨db, v', he, by rw [← h2]; rfl⟩
  obtain ⟨db, v', he, rfl⟩ := hs2
  obtain ⟨x1, hx1, rfl⟩ := int_step h3
  obtain ⟨x2, hx2, rfl⟩ := int_step h4
  obtain ⟨x3, hx3, rfl⟩ := int_step h5
  obtain ⟨x4, hx4, rfl⟩ := int_step h6
  simp only [List.nil_append] at hrun0 hints hrel hdl
  -- what `consistent` checked
  have hb : x1 < 256 ^ 2 ∧ x2 < 256 ^ 2 ∧ x3 < 256 ^ 4 ∧ x4 < 256 ^ 2 := by
    simp only [intsFit, cmd_WriteRequest, hx1, hx2, hx3, hx4, Bool.and_eq_true, decide_eq_true_eq, Bool.and_true] at hints
    exact ⟨hints.1, hints.2.1, hints.2.2.1, hints.2.2.2⟩
  have htup : tupOk Manticore.SmbCodecs.std "SMB_STRING" v' = true := by
    simp only [relationsHold, cmd_WriteRequest, Env.get_set_self, Bool.and_true] at hrel
    exact hrel
  have hidem := Manticore.SmbStd.std_lawful_core.idem "SMB_STRING" _ db v' (by decide) he
  have hdec : Manticore.SmbCodecs.std.dec "SMB_STRING" db = .ok (v', db.length) := by
    unfold tupOk at htup
    rw [hidem] at htup
    simp only [] at htup
    split at htup
    · rename_i dv k hd
      simp only [Bool.and_eq_true, beq_iff_eq] at htup
      rw [hd, htup.1, htup.2]
    · cases htup
  obtain ⟨⟨a, b, tl, rfl⟩, ⟨vf, vl, vbuf, rfl⟩⟩ := enc_fmt1_shape he
  -- the wire
  let P : Bytes := intBytes 2 .le x1 ++ (intBytes 2 .le x2 ++ (intBytes 4 .le x3 ++ intBytes 2 .le x4))
  have hP : [] ++ intBytes 2 .le x1 ++ intBytes 2 .le x2 ++ intBytes 4 .le x3 ++ intBytes 2 .le x4 = P := by
    simp [P, List.append_assoc]
  have hPlen : P.length = 10 := by simp [P, intBytes_length]
  refine ⟨paramBlock false [] P ++ dataBlock (1 :: a :: b :: tl),
    (env.set "Data" (.t (Manticore.SmbCodecs.std.setFmt 1 v))).set "Data" (.t ([vf, vl], [vbuf])),
    ((((env0.set "FID" (.n x1)).set "CountOfBytesToWrite" (.n x2)).set "WriteOffsetInBytes" (.n x3)).set
      "EstimateOfRemainingBytesToBeWritten" (.n x4)).set "Data" (.t ([vf, vl], [vbuf])), ?_, ?_, ?_, ?_⟩
  · simp only [encodeCmd, hrun0, MState.app, hP]; rfl
  · simp only [envAfterMarshal, hrun0]
  · unfold decodeCmd
    have hsp := splitParams_paramBlock false [] P (dataBlock (1 :: a :: b :: tl)) (by rw [hPlen]) (by
      simp [wordCountOf, andxWords, hPlen]) rfl
    rw [hsp]
    simp only []
    rw [splitData_dataBlock _ hdl]
    simp only [runU, cmd_WriteRequest, List.nil_append]
    have key : ∀ s0 : UState, s0.P = P → s0.D = 1 :: a :: b :: tl → s0.env = env0 →
        runU.go Manticore.SmbCodecs.std s0 cmd_WriteRequest.unmarshal =
          .ok (((((env0.set "FID" (.n x1)).set "CountOfBytesToWrite" (.n x2)).set "WriteOffsetInBytes" (.n x3)).set
            "EstimateOfRemainingBytesToBeWritten" (.n x4)).set "Data" (.t ([vf, vl], [vbuf]))) := by
      intro s0 hP0 hD0 hE0
      have hPne : s0.P.isEmpty = false := by
        rw [hP0]
        cases hp : P with
        | nil => rw [hp] at hPlen; cases hPlen
        | cons _ _ => rfl
      have e0 : runUStmt Manticore.SmbCodecs.std s0 (.retIfEmpty true true) = .next s0 := by
        rw [runUStmt]; simp [hPne]
      have e1 : runUStmt Manticore.SmbCodecs.std s0 .resetOffset = .next { s0 with offset := 0 } := by rw [runUStmt]
      simp only [cmd_WriteRequest]
      rw [go_next _ e0, go_next _ e1]
      rw [read_int_block (w := 2) (f := "FID") (x := x1) (pre := [])
        (post := intBytes 2 .le x2 ++ (intBytes 4 .le x3 ++ intBytes 2 .le x4)) (hx := hb.1)]
      rotate_left
      · show s0.P = _; rw [hP0]; rfl
      · rfl
      rw [read_int_block (w := 2) (f := "CountOfBytesToWrite") (x := x2) (pre := intBytes 2 .le x1)
        (post := intBytes 4 .le x3 ++ intBytes 2 .le x4) (hx := hb.2.1)]
      rotate_left
      · show s0.P = _; rw [hP0]
      · show 0 + 2 = _; rw [intBytes_length]
      rw [read_int_block (w := 4) (f := "WriteOffsetInBytes") (x := x3) (pre := intBytes 2 .le x1 ++ intBytes 2 .le x2)
        (post := intBytes 2 .le x4) (hx := hb.2.2.1)]
      rotate_left
      · show s0.P = _; rw [hP0]; simp [P, List.append_assoc]
      · show 0 + 2 + 2 = _; simp [intBytes_length]
      rw [read_int_block (w := 2) (f := "EstimateOfRemainingBytesToBeWritten") (x := x4)
        (pre := intBytes 2 .le x1 ++ intBytes 2 .le x2 ++ intBytes 4 .le x3) (post := []) (hx := hb.2.2.2)]
      rotate_left
      · show s0.P = _; rw [hP0]; simp [P, List.append_assoc]
      · show 0 + 2 + 2 + 4 = _; simp [intBytes_length]
      rw [go_next _ (step_reset _ _)]
      rw [tail_block (v' := ([vf, vl], [vbuf])) (k := (1 :: a :: b :: tl).length) (l := vl) (hl := rfl)]
      rotate_left
      · rfl
      · show 2 ≤ s0.D.length; rw [hD0]; simp
      · show Manticore.SmbCodecs.std.dec "SMB_STRING" s0.D = _; rw [hD0]; exact hdec
      simp only [hE0]
    exact key _ rfl rfl rfl
  · intro f hf
    simp only [Cmd.roundTripFields, cmd_WriteRequest, List.map_cons, List.map_nil, Bool.false_eq_true, if_false,
      List.append_nil, List.mem_cons, List.not_mem_nil, or_false] at hf
    rcases hf with rfl | rfl | rfl | rfl | rfl <;>
      simp [Env.get_set, hx1, hx2, hx3, hx4]

/-! ### non-vacuity -/

/-- the request every client sends first: one dialect, "NT LM 0.12" -/
def negotiateEnv : Env := [("Dialects", .t ([], [[0x4e, 0x54, 0x20, 0x4c, 0x4d, 0x20, 0x30, 0x2e, 0x31, 0x32]]))]

example : MirrorLoops cmd_NegotiateRequest = false := by decide +kernel
example : consistent Manticore.SmbCodecs.std cmd_NegotiateRequest negotiateEnv = true := by
  have hrun : runM Manticore.SmbCodecs.std cmd_NegotiateRequest negotiateEnv =
      .ok { P := [], D := [2, 0x4e, 0x54, 0x20, 0x4c, 0x4d, 0x20, 0x30, 0x2e, 0x31, 0x32, 0], head := [], env := negotiateEnv } := by rfl
  have h1 : tupOk Manticore.SmbCodecs.std "Dialects" ([], [[0x4e, 0x54, 0x20, 0x4c, 0x4d, 0x20, 0x30, 0x2e, 0x31, 0x32]]) = true := by
    decide +kernel
  unfold consistent
  rw [hrun]
  simp [intsFit, relationsHold, cmd_NegotiateRequest, negotiateEnv, Env.get, h1, wordCountOf, andxWords, andxOk]
example : encodeCmd Manticore.SmbCodecs.std cmd_NegotiateRequest negotiateEnv =
    .ok [0x00, 0x0c, 0x00, 0x02, 0x4e, 0x54, 0x20, 0x4c, 0x4d, 0x20, 0x30, 0x2e, 0x31, 0x32, 0x00] := by decide +kernel
/-- the well-formedness condition inside `consistent`: identifiers are NUL-free.  `["A\x00B"]` goes out as
    `02 41 00 42 00`, which no decoder can tell from a malformed second entry — outside the codec's domain -/
example : tupOk Manticore.SmbCodecs.std "Dialects" ([], [[0x41, 0x00, 0x42]]) = false ∧
    tupOk Manticore.SmbCodecs.std "Dialects" ([], [[0x41], [0x42, 0x43]]) = true := by decide +kernel

/-- `WriteRequest{FID: 0x1234, CountOfBytesToWrite: 2, Data: "ab"}`: the assignment that did not decode before the repair -/
def writeReqEnv : Env :=
  [("FID", .n 0x1234), ("CountOfBytesToWrite", .n 2), ("WriteOffsetInBytes", .n 0),
   ("EstimateOfRemainingBytesToBeWritten", .n 0), ("Data", .t ([1, 2], [[0x61, 0x62]]))]

example : MirrorLoops cmd_WriteRequest = false := by decide +kernel
example : consistent Manticore.SmbCodecs.std cmd_WriteRequest writeReqEnv = true := by
  have hrun : runM Manticore.SmbCodecs.std cmd_WriteRequest writeReqEnv =
      .ok { P := [0x34, 0x12, 2, 0, 0, 0, 0, 0, 0, 0], D := [1, 2, 0, 0x61, 0x62], head := [], env := writeReqEnv } := by rfl
  have h1 : tupOk Manticore.SmbCodecs.std "SMB_STRING" ([1, 2], [[0x61, 0x62]]) = true := by decide +kernel
  unfold consistent
  rw [hrun]
  simp [intsFit, relationsHold, cmd_WriteRequest, writeReqEnv, Env.get, h1, wordCountOf, andxWords, andxOk]
/-- parameter words first, the string inside the data block (before the repair: `01 0200 6162 | 05 … | 0000`) -/
example : encodeCmd Manticore.SmbCodecs.std cmd_WriteRequest writeReqEnv =
    .ok [0x05, 0x34, 0x12, 0x02, 0x00, 0, 0, 0, 0, 0, 0, 0x05, 0x00, 0x01, 0x02, 0x00, 0x61, 0x62] := by decide +kernel

end Manticore.C04
