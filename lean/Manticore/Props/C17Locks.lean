/-
  C17 — from the lock discipline to atomicity of the methods.  Property theorems only.

  Machine: `Manticore/Model/RWLock.lean` (threads, critical sections made of micro-steps, a readers–writer
  lock with Go's enabling conditions, arbitrary schedules).  Proofs: `Manticore/Lemmas/RWLock.lean`.
  Name table as critical sections: `Manticore/Model/C17Locks.lean`.

  1. `rwlock_mutual_exclusion`, `rwlock_writer_uninterrupted`, `rwlock_reader_sees_stable_state`:
     what the lock gives, in every reachable configuration, for every program.
  2. `rwlock_serializable` (+ `rwlock_serializable_of_discipline`): every complete schedule of a program whose
     readers only read is equivalent to running the calls one whole critical section at a time, in the order
     of their acquire events: same final state, same result for every call, real-time order respected.
  3. The six methods of the name table are such critical sections; their micro-steps compose to `step`
     (`critical_sections_compose_to_step`); their modes are the lock kinds regenerated from nbtns.go
     (`critical_section_modes_are_the_source_lock_kinds`); hence
     `name_table_interleavings_are_sequential_histories`.
  4. `write_under_read_lock_is_not_serializable`: the discipline is needed.

  What remains assumed (DESIGN.md §6): that `sync.RWMutex` has the enabling conditions of `Lock.canAcquire`,
  and that the bodies of the Go methods perform the micro-steps of `Model/C17Locks.lean` (tied by the
  correspondence runs through `critical_sections_compose_to_step`, and by the extracted lock facts).
-/
import Manticore.Lemmas.C17
import Manticore.Lemmas.RWLock
import Manticore.Model.C17Locks
import Manticore.Gen.NbtnsLocks
namespace Manticore.C17
open Manticore
open Manticore.RWLock (Program Call RawCall Config CallId Mode Thread Event acqLog allCalls seqRun compile callAt)

/-! ### 1. what the lock gives -/

/-- **Mutual exclusion.**  In every configuration reachable by any schedule of any program (disciplined or
    not): a thread inside a critical section under the write lock is the only thread inside any critical
    section; a thread inside under the read lock shares it with readers only; and the lock word is exact —
    `writer` is set iff a writer is inside, `readers` counts the readers inside, both never at once.
    (Invariant by induction over the schedule: `Lemmas/RWLock.lean`, `LockOk`.) -/
theorem rwlock_mutual_exclusion {σ ω ρ : Type} (P : Program σ ω ρ) (s0 : σ) (sched : List Nat)
    (cfg : Config σ ω ρ) (hreach : cfg = RWLock.run P s0 sched) :
    (∀ (t : Nat) th, cfg.threads[t]? = some th → th.inside = some .write →
        ∀ (u : Nat) thu m, cfg.threads[u]? = some thu → thu.inside = some m → u = t) ∧
    (∀ (t : Nat) th, cfg.threads[t]? = some th → th.inside = some .read →
        ∀ (u : Nat) thu m, cfg.threads[u]? = some thu → thu.inside = some m → m = .read) ∧
    (cfg.lock.writer = true ↔ ∃ (t : Nat) (th : Thread σ ω ρ), cfg.threads[t]? = some th ∧ th.inside = some .write) ∧
    cfg.lock.readers = cfg.threads.countP (fun th => decide (th.inside = some .read)) ∧
    (cfg.lock.writer = true → cfg.lock.readers = 0) := by
  subst hreach
  have hL := (RWLock.reach_run_undisciplined P s0 sched).2.1
  generalize RWLock.run P s0 sched = cfg at hL
  refine ⟨?_, ?_, ?_, ?_, hL.excl⟩
  · intro t th ht hi u thu m hu hiu
    exact hL.alone_of_writer ht hi hu hiu
  · intro t th ht hi u thu m hu hiu
    cases m with
    | read => rfl
    | write =>
      have := hL.alone_of_writer hu hiu ht hi
      subst this
      rw [ht] at hu; cases hu
      rw [hi] at hiu; cases hiu
  · constructor
    · intro hw
      have h1 := hL.writers
      rw [hw] at h1
      have : 0 < List.countP Thread.isW cfg.threads := by simp only [↓reduceIte] at h1; omega
      obtain ⟨th, hth, hp⟩ := List.countP_pos_iff.mp this
      obtain ⟨t, ht⟩ := List.getElem?_of_mem hth
      exact ⟨t, th, ht, by simpa [Thread.isW] using hp⟩
    · rintro ⟨t, th, ht, hi⟩
      exact hL.writer_of_inside ht hi
  · exact hL.readers.symm

/-- **A writer's micro-steps are contiguous.**  While a thread is inside under the write lock, a schedule
    entry of any other thread does nothing at all (that thread is outside every critical section and its
    acquire is not enabled): the shared state, the lock and all threads stay as they are. -/
theorem rwlock_writer_uninterrupted {σ ω ρ : Type} (P : Program σ ω ρ) (s0 : σ) (sched : List Nat)
    (cfg : Config σ ω ρ) (hreach : cfg = RWLock.run P s0 sched)
    (t : Nat) (th : Thread σ ω ρ) (ht : cfg.threads[t]? = some th) (hw : th.inside = some .write)
    (u : Nat) (hu : u ≠ t) : cfg.step u = { cfg with trace := cfg.trace ++ [.skip u] } := by
  subst hreach
  have hL := (RWLock.reach_run_undisciplined P s0 sched).2.1
  generalize RWLock.run P s0 sched = cfg at hL ht
  have hwr := hL.writer_of_inside ht hw
  have hm := RWLock.step_move cfg u
  generalize cfg.step u = cfg' at hm
  cases hm with
  | skip => rfl
  | acquire thu c hut hc hcur hl =>
    cases hmode : c.mode <;> rw [hmode] at hl <;> simp [RWLock.Lock.canAcquire, hwr] at hl
  | micro thu c f rem obs hut hc hcur =>
    exact absurd (hL.alone_of_writer ht hw hut (RWLock.inside_of_cur_some hcur hc)) hu
  | release thu c obs hut hc hcur =>
    exact absurd (hL.alone_of_writer ht hw hut (RWLock.inside_of_cur_some hcur hc)) hu

/-- **Readers commute.**  While a thread is inside under the read lock, no schedule entry of any thread
    (itself, other readers, threads outside) changes the shared state: reader micro-steps can be moved past
    each other and past everything else that can happen meanwhile. -/
theorem rwlock_reader_sees_stable_state {σ ω ρ : Type} (P : List (List (Call σ ω ρ))) (s0 : σ) (sched : List Nat)
    (cfg : Config σ ω ρ) (hreach : cfg = RWLock.run (compile P) s0 sched)
    (t : Nat) (th : Thread σ ω ρ) (ht : cfg.threads[t]? = some th) (hr : th.inside = some .read)
    (u : Nat) : (cfg.step u).shared = cfg.shared := by
  subst hreach
  have hR := RWLock.reach_run (compile P) s0 (RWLock.compile_disciplined P) sched
  generalize RWLock.run (compile P) s0 sched = cfg at hR ht
  have hnw : cfg.lock.writer = false := by
    cases hw : cfg.lock.writer with
    | false => rfl
    | true =>
      have h0 := hR.lock.excl hw
      have := RWLock.countP_pos_of_getElem? Thread.isR ht (by simp [Thread.isR, hr])
      have := hR.lock.readers
      omega
  have hm := RWLock.step_move cfg u
  generalize cfg.step u = cfg' at hm
  cases hm with
  | skip => rfl
  | acquire => rfl
  | release => rfl
  | micro thu c f rem obs hut hc hcur =>
    have hmode := hR.lock.read_of_no_writer hnw hut (RWLock.inside_of_cur_some hcur hc)
    exact hR.sim.ro u thu (f :: rem) obs c hut hcur hc hmode f (by simp) obs cfg.shared

/-! ### 2. serializability at method granularity -/

/-- **Serializability, for machine-level programs that keep the discipline** (every micro-step of a call
    in read mode hands the shared state back unchanged).  See `rwlock_serializable`. -/
theorem rwlock_serializable_of_discipline {σ ω ρ : Type} (P : Program σ ω ρ) (hP : RWLock.Program.Disciplined P)
    (s0 : σ) (sched : List Nat) (cfg : Config σ ω ρ) (hrun : cfg = RWLock.run P s0 sched) (hc : cfg.Complete) :
    ∃ order : List CallId,
      order = acqLog cfg.trace ∧
      order.Perm (allCalls P) ∧
      cfg.shared = (seqRun P s0 order).1 ∧
      (seqRun P s0 order).2.map (fun p => (p.1, some p.2)) = order.map (fun id => (id, cfg.resultOf id)) ∧
      order.Pairwise (fun a b => ¬ cfg.relTime b < cfg.acqTime a) ∧
      (∀ id ∈ allCalls P, cfg.acqTime id < cfg.relTime id ∧ cfg.relTime id < sched.length) := by
  subst hrun
  obtain ⟨h1, h2, h3, h4, h5⟩ := RWLock.serializable_raw P s0 hP sched hc
  exact ⟨_, rfl, h1, h2, h3, h4, h5⟩

/-- **Every complete schedule is equivalent to a sequential order of whole critical sections.**
    Threads run sequences of calls; a call is acquire (read | write), micro-steps, release; readers' micro-steps
    cannot write (by type).  For every schedule after which all threads have finished there is an order of all
    the calls of the program — each exactly once — such that running the calls *one whole critical section at
    a time* in that order
      (a) ends in the same shared state,
      (b) gives every call the result the concurrent run gave it,
      (c) respects real time: a call released before another was acquired stands before it
          (`Pairwise`: no later element was released before an earlier one was acquired; all acquire and release
          events exist, acquire first — times are positions in the schedule).  Since a method is invoked before
          its acquire and returns after its release, this implies Herlihy–Wing's real-time order.
    **Linearization point: the acquire event** — the order is `acqLog`, the calls by acquire time.  It works
    because at a write acquire nobody is inside (every earlier call has taken its full effect), nobody enters
    before the release, and readers inside together leave the state alone (`Lemmas/RWLock.lean`, `Sim`). -/
theorem rwlock_serializable {σ ω ρ : Type} (P : List (List (Call σ ω ρ))) (s0 : σ) (sched : List Nat)
    (cfg : Config σ ω ρ) (hrun : cfg = RWLock.run (compile P) s0 sched) (hc : cfg.Complete) :
    ∃ order : List CallId,
      order = acqLog cfg.trace ∧
      order.Perm (allCalls (compile P)) ∧
      cfg.shared = (seqRun (compile P) s0 order).1 ∧
      (seqRun (compile P) s0 order).2.map (fun p => (p.1, some p.2)) = order.map (fun id => (id, cfg.resultOf id)) ∧
      order.Pairwise (fun a b => ¬ cfg.relTime b < cfg.acqTime a) ∧
      (∀ id ∈ allCalls (compile P), cfg.acqTime id < cfg.relTime id ∧ cfg.relTime id < sched.length) :=
  rwlock_serializable_of_discipline (compile P) (RWLock.compile_disciplined P) s0 sched cfg hrun hc

/-- a schedule has one trace event per entry: time is the position in the schedule -/
theorem rwlock_trace_is_the_schedule {σ ω ρ : Type} (P : Program σ ω ρ) (s0 : σ) (sched : List Nat) :
    (RWLock.run P s0 sched).trace.length = sched.length := RWLock.trace_length_run P s0 sched

/-! ### 3. the name table -/

private theorem erase_put (s : State) (n : Name) (r : Rec) : erase (put s n r) n = erase s n := by
  simp [erase, put, List.filter_filter]

/-- **The micro-steps of each method compose to the sequential model**: running the critical section of a
    method alone (look up, then update, …) is `step`, in every state of the table. -/
theorem critical_sections_compose_to_step (op : Op) (s : State) : (critical op).exec s = step s op := by
  cases op with
  | register n t o past =>
    simp only [critical, Call.exec, Call.raw, RawCall.exec, RWLock.finishFrom, RWLock.runSteps, lookupW, updateW,
      foundOf, List.nil_append, resultOf, step]
    cases lookup s n <;> simp [registerUpdate] <;> (repeat' split) <;> simp_all
  | query n =>
    simp only [critical, Call.exec, Call.raw, RawCall.exec, RWLock.finishFrom, RWLock.runSteps, List.map,
      RWLock.readStep, queryFind, queryCopy, foundOf, List.nil_append, resultOf, step]
    cases lookup s n <;> simp <;> (repeat' split) <;> simp_all
  | release n o =>
    simp only [critical, Call.exec, Call.raw, RawCall.exec, RWLock.finishFrom, RWLock.runSteps, lookupW, releaseShrink,
      releaseDrop, foundOf, List.nil_append, resultOf, step]
    cases lookup s n with
    | none => simp
    | some r =>
      simp only
      by_cases hg : r.type = .group
      · by_cases hc : o ∈ r.owners
        · by_cases he : r.owners.erase o = [] <;> simp [hg, hc, he, erase_put]
        · simp [hg, hc]
      · cases hro : r.owners with
        | nil => simp [hg]
        | cons o' rest => by_cases ho : o' = o <;> simp [hg, ho]
  | refresh n o =>
    simp only [critical, Call.exec, Call.raw, RawCall.exec, RWLock.finishFrom, RWLock.runSteps, lookupW, updateW,
      foundOf, List.nil_append, resultOf, step]
    cases lookup s n <;> simp [refreshUpdate] <;> (repeat' split) <;> simp_all
  | markConflict n =>
    simp only [critical, Call.exec, Call.raw, RawCall.exec, RWLock.finishFrom, RWLock.runSteps, lookupW, updateW,
      foundOf, List.nil_append, resultOf, step]
    cases lookup s n <;> simp [conflictUpdate]
  | clean =>
    simp only [critical, Call.exec, Call.raw, RawCall.exec, RWLock.finishFrom, RWLock.runSteps, sweepFind, sweepDelete,
      List.nil_append, resultOf, step]
    simp only [List.getLast?_singleton, Prod.mk.injEq]
    refine ⟨?_, by simp⟩
    apply List.filter_congr
    intro p hp
    cases he : p.2.expired <;> simp [he, hp]

open Manticore.Gen.NbtnsLocks in
/-- **The modes of the critical sections are the lock kinds of the source.**  For each of the six methods,
    the function of that name found in nbtns.go (regenerated facts) takes `mu.Lock()` where the model's
    critical section is a writer and `mu.RLock()` where it is a reader.  Changing a lock kind in the source
    breaks this theorem (kernel evaluation on the regenerated table). -/
theorem critical_section_modes_are_the_source_lock_kinds :
    ∀ op : Op, (methods.find? (fun m => m.name == op.method)).map (·.lockKind) =
      some (match (critical op).mode with | .read => LockKind.rlock | .write => LockKind.lock) := by
  intro op
  cases op <;> (simp only [Op.method, critical, Call.mode]; decide)

private theorem callAt_table (threads : List (List Op)) (id : CallId) :
    callAt (tableProgram threads) id =
      ((threads[id.1]?).bind (fun ops => ops[id.2]?)).map (fun op => (critical op).raw) := by
  simp only [callAt, tableProgram, compile, List.map_map, List.getElem?_map]
  cases threads[id.1]? with
  | none => rfl
  | some ops => simp [List.getElem?_map, Function.comp_def]

private theorem callAt_of_mem (threads : List (List Op)) (id : CallId) (h : id ∈ allCalls (tableProgram threads)) :
    callAt (tableProgram threads) id = some (critical (opAt threads id)).raw := by
  obtain ⟨t, k⟩ := id
  obtain ⟨calls, hcalls, hk⟩ := (RWLock.mem_allCalls _ t k).mp h
  have h1 : callAt (tableProgram threads) (t, k) = some calls[k] := by
    simp [callAt, hcalls, List.getElem?_eq_getElem hk]
  rw [callAt_table] at h1
  rw [callAt_table]
  simp only [Option.map_eq_some_iff] at h1
  obtain ⟨op, hop, _⟩ := h1
  rw [hop]
  simp only [Option.map_some, opAt, Option.some.injEq]
  cases hth : threads[t]? with
  | none => simp [hth] at hop
  | some ops =>
    simp only [hth, Option.bind_some] at hop
    simp [hop]

/-- on calls of the program, the lock machine's sequential run is the sequential model's history -/
private theorem seqRun_table (threads : List (List Op)) (order : List CallId)
    (hv : ∀ id ∈ order, id ∈ allCalls (tableProgram threads)) (s : State) :
    (seqRun (tableProgram threads) s order).1 = C17.run s (order.map (opAt threads)) ∧
    (seqRun (tableProgram threads) s order).2.map (·.2) = outputs s (order.map (opAt threads)) := by
  induction order generalizing s with
  | nil => exact ⟨rfl, rfl⟩
  | cons id ids ih =>
    have hc := callAt_of_mem threads id (hv id (by simp))
    rw [RWLock.seqRun_cons_of_call _ _ _ _ _ hc]
    have he : (critical (opAt threads id)).raw.exec s = step s (opAt threads id) :=
      critical_sections_compose_to_step _ s
    rw [he]
    obtain ⟨h1, h2⟩ := ih (fun i hi => hv i (by simp [hi])) (step s (opAt threads id)).1
    exact ⟨by simpa [C17.run] using h1, by simp only [List.map_cons, outputs, h2]⟩

/-- **Every interleaving of the name table's methods is a sequential history.**  Any number of threads, each
    calling any sequence of the six methods on a fresh table; any complete schedule of their critical sections'
    micro-steps under the readers–writer lock.  Then some order of all the calls (each once; by acquire time)
    run on the *sequential* model `step` — one method at a time — ends in the same table, returns to every call
    what the concurrent run returned to it, and respects real time.  So all that is proved of histories
    (`inv_reachable`, `refines_history`, `no_panic_reachable`, …) holds of every concurrent execution. -/
theorem name_table_interleavings_are_sequential_histories (threads : List (List Op)) (sched : List Nat)
    (hc : (runTable threads sched).Complete) :
    ∃ order : List CallId,
      order.Perm (allCalls (tableProgram threads)) ∧
      (runTable threads sched).shared = C17.run init (order.map (opAt threads)) ∧
      order.map (runTable threads sched).resultOf = (outputs init (order.map (opAt threads))).map some ∧
      order.Pairwise (fun a b => ¬ (runTable threads sched).relTime b < (runTable threads sched).acqTime a) ∧
      (∀ id ∈ order, (runTable threads sched).acqTime id < (runTable threads sched).relTime id ∧
        (runTable threads sched).relTime id < sched.length) := by
  obtain ⟨order, _, hperm, hst, hres, hrt, htimes⟩ :=
    rwlock_serializable (threads.map (fun ops => ops.map critical)) init sched (runTable threads sched) rfl hc
  have hv : ∀ id ∈ order, id ∈ allCalls (tableProgram threads) := fun id hid => hperm.subset hid
  obtain ⟨h1, h2⟩ := seqRun_table threads order hv init
  refine ⟨order, hperm, hst.trans h1, ?_, hrt, fun id hid => htimes id (hv id hid)⟩
  have := congrArg (List.map (·.2)) hres
  simp only [List.map_map, Function.comp_def] at this
  rw [← h2, List.map_map]
  exact this.symm

/-! ### 4. the discipline is needed -/

/-- **A write under the read lock is not serializable.**  `RegisterName` with `RLock` instead of `Lock`
    (same body): two threads register the same *unique* name for two addresses; the read lock lets both in, both
    look the name up before either inserts, **both registrations succeed** — while in each sequential order of
    the two calls the second one fails: no order of whole critical sections reproduces the results. -/
theorem write_under_read_lock_is_not_serializable :
    (RWLock.run racyProgram init racySchedule).Complete ∧
    (RWLock.run racyProgram init racySchedule).resultOf (0, 0) = some .ok ∧
    (RWLock.run racyProgram init racySchedule).resultOf (1, 0) = some .ok ∧
    ¬ ∃ order : List CallId, order.Perm (allCalls racyProgram) ∧
        (seqRun racyProgram init order).2.map (fun p => (p.1, some p.2)) =
          order.map (fun id => (id, (RWLock.run racyProgram init racySchedule).resultOf id)) := by
  refine ⟨by decide, by decide, by decide, ?_⟩
  rintro ⟨order, hp, hres⟩
  have hall : allCalls racyProgram = [(0, 0), (1, 0)] := by decide
  rw [hall] at hp
  have hlen := hp.length_eq
  match order, hlen with
  | [a, b], _ =>
    have ha : a ∈ [((0 : Nat), (0 : Nat)), (1, 0)] := hp.subset (by simp)
    have hb : b ∈ [((0 : Nat), (0 : Nat)), (1, 0)] := hp.subset (by simp)
    have hn : [a, b].Nodup := hp.nodup_iff.mpr (by decide)
    simp only [List.mem_cons, List.not_mem_nil, or_false] at ha hb
    rcases ha with rfl | rfl <;> rcases hb with rfl | rfl
    · simp at hn
    · revert hres; decide
    · revert hres; decide
    · simp at hn

/-- the same two calls under the write lock (the real `RegisterName`): the second fails, in every schedule -/
example : (runTable [[.register 0 .unique 1 false], [.register 0 .unique 2 false]]
    (racySchedule ++ [1, 1, 1])).resultOf (1, 0) = some .err := by decide

/-! ### non-vacuity -/

/-- a three-thread program and a schedule in which two queries overlap: complete, so the theorems apply -/
example : (runTable [[.register 0 .group 1 false, .query 0], [.register 0 .group 2 false], [.query 0]]
    [0, 0, 0, 0, 1, 1, 1, 1, 0, 2, 0, 2, 0, 2, 2, 0]).Complete := by decide

/-- … also with blocked threads being scheduled (round robin, 60 entries, 31 of them skipped) -/
example : (runTable [[.register 0 .group 1 false, .query 0], [.register 0 .group 2 false, .release 0 1], [.query 0, .clean]]
    (List.replicate 20 [0, 1, 2]).flatten).Complete := by decide +kernel

/-- readers do overlap: two threads are inside under the read lock at the same time -/
example : ((runTable [[.query 0], [.query 0]] [0, 1]).threads.map Thread.inside) = [some .read, some .read] := by decide

/-- a writer blocks: thread 1's acquire is skipped while thread 0 is inside under the write lock -/
example : (runTable [[.register 0 .unique 1 false], [.query 0]] [0, 1, 1]).trace = [.acq 0 0, .skip 1, .skip 1] := by
  decide

/-- the order found is by acquire time, not by release time: thread 1 (a reader) acquires first, thread 0's
    reader overlaps and releases first -/
example : acqLog (runTable [[.query 0], [.query 0]] [1, 0, 0, 0, 0, 1, 1, 1]).trace = [(1, 0), (0, 0)] := by decide

/-- between two micro-steps of `ReleaseName` the table holds a group record without owner — a state no
    sequential history reaches (`inv_reachable`); it is never observed, by the theorems above -/
example : (runTable [[.register 0 .group 1 false, .release 0 1]] [0, 0, 0, 0, 0, 0, 0]).shared
    = [(0, ⟨.group, .active, [], false, false⟩)] := by decide

end Manticore.C17
