/-
  C18 — Name-service servers/clients isolate concurrent requests and stop cleanly.
  Property theorems only.  Model: `Manticore/Model/C18.lean`; helper lemmas: `Manticore/Lemmas/C18.lean`;
  facts regenerated from the source on every run: `Gen/NbnsDispatch.lean` (mask and case constants of the
  three `switch packet.Header.Flags & MASK` sites and of the two query guards) and `Gen/ServerFacts.lean`
  (what each receive loop hands to the goroutines it starts; how Stop/Close signal shutdown).

  Proved here: routing of all 65 536 flag words; what a response carries; id routing of the LLMNR client;
  isolation for *every schedule* of the interleaving model when goroutines get copies (and the leak when
  they do not); termination / double-Stop behaviour of the shutdown transition system.
  PARTIAL (see props_config): Go's scheduler, the race detector's verdict, prompt exit and goroutine
  counts of the real processes are *observed* by the harness on loopback sockets; Lean proves them only of
  these models, whose link to the code is the extracted facts plus that observation.
-/
import Manticore.Lemmas.C18
import Manticore.Lemmas.C18Stop
namespace Manticore.C18
open Manticore
open Manticore.Gen.NbnsDispatch (Handler Site Guard sites guards)
open Manticore.Gen.ServerFacts (loops stops)
open Manticore.Gen.ServerFacts2 (handoffs registries spawns held)

/-! ### 1. every NBNS opcode is routed to the handler RFC 1002 assigns it -/

/-- **opcode_dispatch.**  For each of the three servers and for *all* 65 536 flag words, the handler chosen by
    the code's `switch packet.Header.Flags & MASK` (mask and case constants as found in the source) is the
    handler RFC 1002 §4.2.1.1 assigns to the opcode in bits 11..14 — whatever R, NM_FLAGS and RCODE are.
    Proof: `f &&& 0x7800` is the 4 opcode bits shifted (bit extensionality), then the 16 opcode values. -/
theorem opcode_dispatch : ∀ site ∈ sites, ∀ f : BitVec 16, dispatch site f = rfc1002Handler (opcode f) := by
  intro site hs f
  obtain ⟨hm, hc⟩ := sites_facts site hs
  unfold dispatch
  rw [hm]
  have : BitVec.ofNat 16 0x7800 = 0x7800#16 := rfl
  rw [this, and_opmask_toNat, hc _ (opcode f).isLt, BitVec.ofNat_toNat, BitVec.setWidth_eq]


/-- **The "only name queries" guards** of `DefendName` and `HandleRedirect` let a packet through exactly when
    it is a request (R = 0) whose opcode is 0. -/
theorem query_guard_exact : ∀ g ∈ guards, ∀ f : BitVec 16,
    guardPasses g f = true ↔ (isResponse f = false ∧ opcode f = 0#4) := by
  intro g hg f
  obtain ⟨hm, hc⟩ := guards_facts g hg
  unfold guardPasses isResponse
  rw [hm, hc]
  have : BitVec.ofNat 16 0xF800 = 0xF800#16 := rfl
  rw [this, ← guard_iff]
  simp


/-- the three dispatch sites and the two guards are the ones modelled (none missing, none extra) -/
theorem dispatch_sites_are_the_source_sites :
    sites.map (·.name) = ["Server.handlePacket", "TCPServer.handleMessage", "UDPServer.handlePacket"] ∧
    guards.map (·.name) = ["NameChallenger.DefendName", "RedirectManager.HandleRedirect"] := by
  decide

/-- consequently a server's answer is the answer of the RFC-routed specification -/
theorem handle_eq_spec : ∀ site ∈ sites, ∀ tbl req, handle site tbl req = handleSpec tbl req := by
  intro site hs tbl req
  unfold handle handleSpec
  rw [opcode_dispatch site hs]

/-! ### 2. every response carries the transaction id of, and the answer for, its own request -/

/-- **response_carries_request_id.** -/
theorem response_carries_request_id (site : Site) (tbl : C17.State) (req : Request) :
    (handle site tbl req).2.id = req.id := by
  unfold handle
  simp only
  split
  · simp [handleQuery_id]
  · simp [handleUpdates_id]
  · simp [handleUpdates_id]
  · simp [handleUpdates_id]
  · rfl


/-- **…and the answer for exactly that request**: every answer record repeats name, type and class of a
    question of this request and carries an address that holds that name in the table. -/
theorem response_answers_the_request (site : Site) (tbl : C17.State) (req : Request) :
    ∀ a ∈ (handle site tbl req).2.answers,
      ∃ q ∈ req.questions, a.name = q.name ∧ a.qtype = q.qtype ∧ a.qclass = q.qclass ∧ C17.Holds tbl q.name a.addr := by
  intro a ha
  unfold handle at ha
  simp only at ha
  split at ha
  · cases handleQuery_answers tbl req.questions _ a ha with
    | inl h => cases h
    | inr h => exact h
  · rw [handleUpdates_answers] at ha; cases ha
  · rw [handleUpdates_answers] at ha; cases ha
  · rw [handleUpdates_answers] at ha; cases ha
  · cases ha


/-- a response is a response (R and AA set), has no question section, and keeps these bits whatever the handler adds -/
theorem response_header (site : Site) (tbl : C17.State) (req : Request) :
    (handle site tbl req).2.qdcount = 0 := by
  have hq : ∀ qs resp, (handleQuery tbl qs resp).qdcount = resp.qdcount := by
    intro qs
    induction qs with
    | nil => intro resp; rfl
    | cons q qs ih =>
      intro resp
      simp only [handleQuery]
      split
      · rw [ih]; split <;> rfl
      · rfl
  have hu : ∀ mk rc rrs tbl resp, (handleUpdates mk rc tbl rrs resp).2.qdcount = resp.qdcount := by
    intro mk rc rrs
    induction rrs with
    | nil => intro tbl resp; rfl
    | cons rr rrs ih =>
      intro tbl resp
      simp only [handleUpdates]
      split
      · exact ih _ _
      · rfl
  unfold handle
  simp only
  split <;> simp [hq, hu]

/-! ### 3. LLMNR: handler chain and client routing -/

/-- **Handler chain with short-circuit** (`Server.processHandlers`): the handlers run in registration order
    up to and including the first one that returns `false`; none after it. -/
theorem handlers_short_circuit {μ : Type} (hs : List (μ → Bool)) (m : μ) :
    processHandlers hs m [] 0 = List.range (min (firstStop hs m + 1) hs.length) := by
  rw [processHandlers_spec, List.nil_append, List.range_eq_range']

/-- **route_matching_id.**  Whatever the order of `Query` registrations, deletions, receptions and reads: a
    message found in the channel of the query with id `id` is a *response* whose id is `id`, and one that
    `readLoop` actually received. -/
theorem route_matching_id (evs : List ClientEv) (id : Nat) (m : Msg)
    (h : qlookup (clientRun [] evs) id = some (some m)) :
    m.id = id ∧ m.response = true ∧ m ∈ received evs := by
  have := qinv_run evs [] [] (by intro id m h; cases h) id m h
  simpa using this

/-- a waiting query gets the response with its id … -/
theorem route_delivers (qs : Queries) (m : Msg) (hr : m.response = true) (hw : qlookup qs m.id = some none) :
    qlookup (clientStep qs (.recv m)) m.id = some (some m) := by
  simp [clientStep, hr, hw, qlookup_qput]

/-- … and no other query's channel is touched by it -/
theorem route_leaves_others (qs : Queries) (m : Msg) (id : Nat) (hne : id ≠ m.id) :
    qlookup (clientStep qs (.recv m)) id = qlookup qs id := by
  simp only [clientStep]
  split
  · rfl
  · split
    · rw [qlookup_qput]; simp [hne]
    · rfl
    · rfl

/-! handler chain -/

/-! ### 4. receive loop + handler goroutines: isolation for every schedule -/

/-- **isolated_if_copied.**  If the loop gives every goroutine its own copy of the datagram, then for every
    buffer size, every sequence of datagrams and *every schedule* of the goroutines: each response that was sent
    went to a client that sent some datagram `d`, and is the handler's response to exactly that `d`. -/
theorem isolated_if_copied {σ : Type} (respond : σ → Bytes → σ × Bytes) (cap : Nat) (s : σ) (sched : List Step) :
    ∀ p ∈ (wrun respond true (winit cap s) sched).outbox,
      ∃ d s', (p.1, d) ∈ (wrun respond true (winit cap s) sched).sent ∧ p.2 = (respond s' d).2 :=
  (isolated_run respond sched _ (isolated_init respond cap s)).outbox

/-- with an id-preserving handler: every response carries the id of a datagram that client sent -/
theorem isolated_ids {σ : Type} (respond : σ → Bytes → σ × Bytes) (idOf : Bytes → Nat)
    (hid : ∀ s d, idOf (respond s d).2 = idOf d) (cap : Nat) (s : σ) (sched : List Step) :
    ∀ p ∈ (wrun respond true (winit cap s) sched).outbox,
      ∃ d, (p.1, d) ∈ (wrun respond true (winit cap s) sched).sent ∧ idOf p.2 = idOf d := by
  intro p hp
  obtain ⟨d, s', hd, hr⟩ := isolated_if_copied respond cap s sched p hp
  exact ⟨d, hd, by rw [hr, hid]⟩


/-- **…exactly one request**: nothing is answered twice — responses sent plus goroutines still pending equals
    datagrams received, in every reachable world. -/
theorem one_response_per_request {σ : Type} (respond : σ → Bytes → σ × Bytes) (cap : Nat) (s : σ) (sched : List Step) :
    (wrun respond true (winit cap s) sched).outbox.length + (wrun respond true (winit cap s) sched).tasks.length
      = (wrun respond true (winit cap s) sched).sent.length :=
  (isolated_run respond sched _ (isolated_init respond cap s)).count

/-- **shared_view_leaks.**  If the goroutine is given the window `buf[:n]` of the reused buffer, there is a
    schedule of two datagrams after which client 1 is sent a response that answers no datagram of client 1
    (it carries client 2's id). -/
theorem shared_view_leaks :
    ∃ (sched : List Step), ∃ p ∈ (wrun echoId false (winit 4 ()) sched).outbox,
      ¬ ∃ d s', (p.1, d) ∈ (wrun echoId false (winit 4 ()) sched).sent ∧ p.2 = (echoId s' d).2 := by
  refine ⟨[.recv 1 [0, 1, 9, 9], .recv 2 [0, 2, 7, 7], .run 0], (1, [0, 2]), by decide, ?_⟩
  rintro ⟨d, s', hd, hr⟩
  have hs : (wrun echoId false (winit 4 ()) [.recv 1 [0, 1, 9, 9], .recv 2 [0, 2, 7, 7], .run 0]).sent
      = [(1, [0, 1, 9, 9]), (2, [0, 2, 7, 7])] := by decide
  rw [hs] at hd
  simp only [List.mem_cons, Prod.mk.injEq, List.mem_nil_iff, or_false] at hd
  rcases hd with ⟨_, rfl⟩ | ⟨h1, _⟩
  · simp [echoId] at hr
  · simp at h1


/-- **Which of the two applies is a fact of the source**: no receive loop of the LLMNR / NBNS servers or of
    the LLMNR client hands a goroutine a slice of a buffer allocated outside the loop. -/
theorem no_loop_shares_its_buffer : ∀ l ∈ loops, l.sharesBuffer = false := by decide

/-- the loops found are the ones the property names -/
theorem loops_are_the_source_loops :
    loops.map (·.name) = ["llmnr.Client.readLoop", "llmnr.Server.Serve", "nbtns.Server.serve",
      "nbtns.TCPServer.handleConnection", "nbtns.TCPServer.serve", "nbtns.UDPServer.serve"] := by
  decide

/-! ### 5. stopping -/

/-- **stop_terminates.**  Once Stop/Close has closed the quit channel and the socket, and assuming that a
    closed socket makes a blocked read return its error (`Consistent`), the serve goroutine has exited after at
    most two more of its own steps — under every interleaving with further Stop calls, pending reads of
    any kind and finishing handlers.  No step is ever disabled, so there is no deadlock in the model. -/
theorem stop_terminates (once : Bool) (s : Srv) (evs : List SrvEv)
    (hq : s.quitClosed = true) (hs : s.sockClosed = true) (hc : Consistent once s evs)
    (h2 : 2 ≤ loopSteps evs) : (srvRun once s evs).pc = .exited := by
  have := stop_terminates_gen once evs s hq hs hc
  have hd : dist s.pc ≤ 2 := by cases s.pc <;> simp [dist]
  have h0 : dist (srvRun once s evs).pc = 0 := by omega
  cases hp : (srvRun once s evs).pc <;> simp [hp, dist] at h0
  rfl

theorem first_stop_closes (once : Bool) (s : Srv) (h : s.quitClosed = false) :
    (srvStep once s .stop).quitClosed = true ∧ (srvStep once s .stop).sockClosed = true ∧
    (srvStep once s .stop).panicked = s.panicked := by
  simp [srvStep, h]

/-- **stop_twice** without `sync.Once`: a second Stop closes a closed channel — a panic. -/
theorem stop_twice_panics_without_once (s : Srv) (h : s.quitClosed = true) :
    (srvStep false s .stop).panicked = true := by
  simp [srvStep, h]


/-- with the `sync.Once` no sequence of Stop calls and loop steps panics -/
theorem stop_any_number_of_times_with_once (evs : List SrvEv) : (srvRun true srvInit evs).panicked = false :=
  no_panic_with_once evs srvInit rfl

/-- **Facts of the source**: every Stop/Close closes its quit channel inside a `sync.Once` and closes the
    socket; every receive loop begins each iteration by checking the quit channel. -/
theorem stops_close_once_and_unblock :
    (∀ st ∈ stops, st.closeUnderOnce = true ∧ st.closesSocket = true) ∧ (∀ l ∈ loops, l.checksQuit = true) := by
  decide

/-- the NBNS servers' Stop also waits for the serve goroutines (`wg.Wait()`); the LLMNR `Close` does not
    (its `Serve` / `readLoop` return on their own) -/
theorem nbns_stop_waits :
    (stops.filter (·.waitsForLoops)).map (·.name) = ["nbtns.Server.Stop", "nbtns.TCPServer.Stop", "nbtns.UDPServer.Stop"] := by
  decide


/-! ### 6. the mechanisms behind "stops cleanly" and "isolates": fact + theorem (`Model/C18Stop.lean`)

Each block: a theorem for every schedule of a small model whose parameter is a fact of the source, a witness schedule
showing what happens when the fact is false, and the fact itself decided on `Gen/ServerFacts2.lean`. -/

/-! #### 6a. the hand-off from `readLoop` to a waiting `Query` -/

/-- **readloop_never_blocks.**  With the hand-off `select { case ch <- msg: default: }`: whatever queries register,
    receive, give up and deregister, whatever datagrams arrive (any ids, any number of duplicates), the read loop is
    never parked in a send — it is always back at its `select`, so once `Closed` is closed it can return. -/
theorem readloop_never_blocks (evs : List CEv) :
    (crun true cinit evs).parked = none ∧
    ((crun true cinit evs).closed = true → loopCanExit (crun true cinit evs) = true) := by
  have h := crun_nb_parked evs cinit rfl
  exact ⟨h, fun hc => by simp [loopCanExit, hc, h]⟩

/-- **blocking_handoff_wedges.**  With a plain `ch <- msg` into the 1-buffered channel: one query and three responses
    carrying its id (the first fills the buffer, the second blocks until `Query` receives — its only receive —, the
    third blocks on a channel nobody will receive from again).  From then on, whatever happens — further datagrams,
    other queries, `Close` — the loop stays parked: nothing is delivered any more and the loop cannot return. -/
theorem blocking_handoff_wedges :
    ∃ evs : List CEv, ∀ more : List CEv,
      (crun false cinit (evs ++ more)).parked.isSome = true ∧ loopCanExit (crun false cinit (evs ++ more)) = false := by
  refine ⟨[.store 7, .recv ⟨7, true, 1⟩, .recv ⟨7, true, 2⟩, .take 7, .recv ⟨7, true, 3⟩], fun more => ?_⟩
  have hw : wedged (crun false cinit [.store 7, .recv ⟨7, true, 1⟩, .recv ⟨7, true, 2⟩, .take 7, .recv ⟨7, true, 3⟩]) = true := by
    decide
  have := wedged_run false more _ hw
  simp only [crun, List.foldl_append] at this ⊢
  exact wedged_parked _ this

/-- **Fact of the source**: the only channel send of the two packages is the one in `Client.readLoop`, it is a `case`
    of a `select` with a `default:`; the channel `Query` registers has capacity 1 and is deregistered by a deferred
    `Delete` under the same key. -/
theorem handoff_is_nonblocking :
    handoffs.map (·.fn) = ["llmnr.Client.readLoop"] ∧ (∀ h ∈ handoffs, h.nonBlocking = true) ∧
    (registries.filter (·.field == "Queries")).map (fun r => (r.fn, r.chanCap, r.deleteDeferred, r.sameKey))
      = [("llmnr.Client.Query", some 1, true, true)] := by
  decide

/-! #### 6b. the registry of live TCP connections -/

/-- **stop_closes_every_connection.**  If the registry key is unique per live connection (`TValid`: a new
    connection's key differs from the key of every connection whose handler has not returned; a read on a closed
    connection fails), then for every interleaving of accepts and handler steps before, between and after the two
    steps of `Stop` (`close(quit)`, then the `Range` that closes what the registry holds): right after the `Range`
    every connection whose handler sits in a read has been closed, and every handler that existed then has returned
    after at most two more steps of its own. -/
theorem stop_closes_every_connection (pre mid post : List TEv)
    (hv : TValid tinit (pre ++ .closeQuit :: (mid ++ .rangeClose :: post))) :
    (∀ i, ((trun tinit (pre ++ .closeQuit :: (mid ++ [.rangeClose]))).conn i).pc = .inRead →
        ((trun tinit (pre ++ .closeQuit :: (mid ++ [.rangeClose]))).conn i).closed = true) ∧
    (∀ i, i < (trun tinit (pre ++ .closeQuit :: (mid ++ [.rangeClose]))).n → 2 ≤ hsteps i post →
        ((trun tinit (pre ++ .closeQuit :: (mid ++ .rangeClose :: post))).conn i).pc = .exited) :=
  stop_closes_gen pre mid post hv

/-- **constant_key_leaves_connection_open.**  With a key that is the same for every accepted connection (the
    listener's own address): two connections, both handlers waiting in their read; the second `Store` replaced the
    first, so `Stop`'s `Range` closes one connection — the other handler stays in its read on an open connection (in
    the code: until the 30 s deadline). -/
theorem constant_key_leaves_connection_open :
    ∃ evs : List TEv, (trun tinit evs).quit = true ∧
      ((trun tinit evs).conn 0).pc = .inRead ∧ ((trun tinit evs).conn 0).closed = false ∧
      ((trun tinit evs).conn 1).closed = true :=
  ⟨[.accept 5, .accept 5, .hstep 0 true, .hstep 0 true, .hstep 1 true, .hstep 1 true, .closeQuit, .rangeClose],
    by decide⟩

/-- **Fact of the source**: `tcpConns` is keyed by `conn.RemoteAddr().String()` of the stored connection (the peer's
    endpoint: unique among the live connections accepted by one listener), stored and deleted (deferred) under the
    same expression; every failed read of the connection makes the handler return; `Stop` ranges over the registry
    after closing the quit channel and before waiting, closing every value. -/
theorem registry_key_is_peer_address :
    (registries.filter (·.field == "tcpConns")).map (fun r => (r.fn, r.keyKind))
      = [("nbtns.TCPServer.handleConnection", .peerAddr)] ∧
    (∀ r ∈ registries, r.field = "tcpConns" → r.deleteDeferred = true ∧ r.sameKey = true ∧
      r.readErrorReturns = true ∧ r.stopRanges = true ∧ r.rangeClosesEvery = true) ∧
    (Gen.ServerFacts2.stops.filter (·.ranges)).map (fun s => (s.name, s.rangeAfterClose, s.rangeBeforeWait))
      = [("nbtns.TCPServer.Stop", true, true)] := by
  decide

/-! #### 6c. the WaitGroup -/

/-- **waitgroup_discipline_sound.**  Discipline: `wg.Add(1)` is a statement before the `go` statement, executed by a
    goroutine that holds a count itself (the serve loop, counted by `Start` before `Stop` can run); the goroutine's
    first statement is `defer wg.Done()`; `Stop` enters `wg.Wait()` after closing the quit channel.  Then for every
    schedule: no `Add` ever happens from zero while a `Wait` is in progress and no `Done` goes below zero; `Wait` has
    returned only if the serve goroutine and every goroutine it started have returned; and when they all have, `Wait`
    does return. -/
theorem waitgroup_discipline_sound (evs : List WEv) :
    (wgrun true true wginit evs).misuse = false ∧
    ((wgrun true true wginit evs).returned = true →
      (wgrun true true wginit evs).serve = .exited ∧ (wgrun true true wginit evs).working = 0 ∧
      (wgrun true true wginit evs).born = 0) ∧
    ((wgrun true true wginit evs).waiting = true → (wgrun true true wginit evs).serve = .exited →
      (wgrun true true wginit evs).working = 0 →
      (wgstep true true (wgrun true true wginit evs) .waitReturn).returned = true) := by
  have h := winv_run true evs wginit winv_init
  have hl := noleak_run evs wginit rfl
  refine ⟨h.misuse, fun hr => ⟨(h.ret hr).1, (h.ret hr).2.1, h.born⟩, ?_⟩
  intro hw hs h0
  have hc := h.count
  rw [hs, h0, hl] at hc
  simp [wgstep, hw, hc, alive, pending]

/-- **add_inside_goroutine_races.**  With the `Add` inside the goroutine: the loop starts a goroutine, `Stop` closes
    the quit channel, the loop returns, `Wait` finds the counter at zero and returns while the goroutine has not even
    begun — and the goroutine's `Add` then hits a zero counter with a `Wait` in progress (the documented misuse;
    "WaitGroup is reused before previous Wait has returned"). -/
theorem add_inside_goroutine_races :
    ∃ evs : List WEv, (wgrun false true wginit evs).returned = true ∧ (wgrun false true wginit evs).born = 1 ∧
      (wgrun false true wginit evs).misuse = false ∧
      (wgstep false true (wgrun false true wginit evs) .hstart).misuse = true :=
  ⟨[.serve false, .stopClose, .serve true, .waitStart, .waitReturn], by decide⟩

/-- **done_not_deferred_blocks_wait.**  With `wg.Done()` as the goroutine's last statement instead of a deferred
    first one: a single goroutine leaving through an early `return` keeps its count for ever — whatever happens
    afterwards, `Wait` (and so `Stop`) never returns. -/
theorem done_not_deferred_blocks_wait :
    ∃ evs : List WEv, ∀ more : List WEv, (wgrun true false wginit (evs ++ more)).returned = false := by
  refine ⟨[.serve false, .serve false, .hfinish true], fun more => ?_⟩
  have hi := winv_run false [.serve false, .serve false, .hfinish true] wginit winv_init
  have := leaked_run false more _ hi (by decide) (by decide)
  simp only [wgrun, List.foldl_append] at this ⊢
  exact this.2

/-- **Fact of the source**: every `go` statement either is tracked — `wg.Add(1)` before it in the same block, none
    after it, none inside the goroutine, the goroutine's first statement defers `wg.Done()` (its only `Done`), and the
    statement is executed by a goroutine that holds a count itself or, outside every receive loop, by `Start` — or is
    not tracked at all (no `Add`, no `Done`); every `Stop` that waits does so as its last statement, after the
    `Once` that closes the quit channel. -/
theorem waitgroup_discipline_holds :
    (∀ sp ∈ spawns,
      (sp.addBeforeGo = true ∧ sp.addN = 1 ∧ sp.addAfterGo = false ∧ sp.addInGoroutine = false ∧
        sp.done = .deferredFirst ∧ (sp.siteHoldsCount = true ∨ sp.inReceiveLoop = false)) ∨
      (sp.addBeforeGo = false ∧ sp.addAfterGo = false ∧ sp.addInGoroutine = false ∧ sp.done = .absent)) ∧
    (spawns.filter (·.addBeforeGo)).map (fun sp => (sp.site, sp.callee))
      = [("nbtns.Server.Start", "Server.serve"), ("nbtns.TCPServer.Start", "TCPServer.serve"),
         ("nbtns.TCPServer.serve", "TCPServer.handleConnection"), ("nbtns.UDPServer.Start", "UDPServer.serve")] ∧
    (∀ s ∈ Gen.ServerFacts2.stops, s.waits = true → s.closeBeforeWait = true ∧ s.waitLast = true) ∧
    (Gen.ServerFacts2.stops.filter (·.waits)).map (·.name)
      = ["nbtns.Server.Stop", "nbtns.TCPServer.Stop", "nbtns.UDPServer.Stop"] := by
  decide

/-! #### 6d. where the private copy of the datagram is taken -/

/-- **isolated_if_copied_before_go.**  `isolated_if_copied` on the finer model in which taking the copy is a step of
    its own: when the copy is a statement of the loop body before `go`, every schedule of receptions, copy steps and
    handler runs sends each response to a client that sent some datagram `d`, computed from exactly that `d`. -/
theorem isolated_if_copied_before_go {σ : Type} (respond : σ → Bytes → σ × Bytes) (cap : Nat) (s : σ)
    (sched : List Step2) :
    ∀ p ∈ (wrun2 respond true (winit cap s) sched).outbox,
      ∃ d s', (p.1, d) ∈ (wrun2 respond true (winit cap s) sched).sent ∧ p.2 = (respond s' d).2 :=
  (isolated_run2 respond sched _ (isolated_init respond cap s)).outbox

/-- **copy_inside_goroutine_leaks.**  When the goroutine takes the copy itself, the copy races with the next read
    into the same buffer: two datagrams, then the first goroutine copies — client 1 is sent client 2's id. -/
theorem copy_inside_goroutine_leaks :
    ∃ (sched : List Step2), ∃ p ∈ (wrun2 echoId false (winit 4 ()) sched).outbox,
      ¬ ∃ d s', (p.1, d) ∈ (wrun2 echoId false (winit 4 ()) sched).sent ∧ p.2 = (echoId s' d).2 := by
  refine ⟨[.recv 1 [0, 1, 9, 9], .recv 2 [0, 2, 7, 7], .copy 0, .run 0], (1, [0, 2]), by decide, ?_⟩
  rintro ⟨d, s', hd, hr⟩
  have hs : (wrun2 echoId false (winit 4 ()) [.recv 1 [0, 1, 9, 9], .recv 2 [0, 2, 7, 7], .copy 0, .run 0]).sent
      = [(1, [0, 1, 9, 9]), (2, [0, 2, 7, 7])] := by decide
  rw [hs] at hd
  simp only [List.mem_cons, Prod.mk.injEq, List.mem_nil_iff, or_false] at hd
  rcases hd with ⟨_, rfl⟩ | ⟨h1, _⟩
  · simp [echoId] at hr
  · simp at h1

/-- **Fact of the source**: in every receive loop that reuses a buffer, what the goroutine gets is a copy made in the
    loop body before the `go` statement (`make` + `copy`) or a value decoded from the buffer there; no goroutine takes
    its copy itself or is handed a view. -/
theorem copy_taken_before_go :
    (spawns.filter (·.inReceiveLoop)).map (fun sp => (sp.site, sp.copyPlace))
      = [("llmnr.Server.Serve", .decodedBeforeGo), ("nbtns.Server.serve", .beforeGo),
         ("nbtns.TCPServer.serve", .noBuffer), ("nbtns.UDPServer.serve", .beforeGo)] ∧
    (∀ sp ∈ spawns, sp.copyPlace = .beforeGo ∨ sp.copyPlace = .decodedBeforeGo ∨ sp.copyPlace = .noBuffer) := by
  decide

/-! #### 6e. the logger's mutex -/

/-- **no_deadlock_without_reentry.**  Any number of threads, each a program of acquire / release / work on one
    non-reentrant mutex that never acquires while holding (`wellNested`): under every schedule, as long as some thread
    has something left to do, some thread can move.  -/
theorem no_deadlock_without_reentry (progs : Nat → List LInstr) (h : ∀ t, wellNested false (progs t) = true)
    (sched : List Nat) (t : Nat) (ht : (lrun (linit progs) sched).prog t ≠ []) :
    ∃ u, lenabled (lrun (linit progs) sched) u = true :=
  linv_enabled _ (linv_run sched _ (fun u => by simpa [linit, LInv] using h u)) t ht

/-- **reentrant_lock_deadlocks.**  A thread that holds the mutex and calls something that acquires it: it never
    moves again, the mutex is never released, and every thread that is waiting for the mutex (every later log call
    of the process) waits for ever — under every schedule. -/
theorem reentrant_lock_deadlocks (s : LState) (t : Nat) (r : List LInstr) (ho : s.owner = some t)
    (hp : s.prog t = .acquire :: r) (sched : List Nat) :
    (lrun s sched).owner = some t ∧ (lrun s sched).prog t = .acquire :: r ∧
    ∀ u r', s.prog u = .acquire :: r' → (lrun s sched).prog u = .acquire :: r' :=
  self_deadlock_run t r sched s ho hp

/-- the program of a lock holder is well nested exactly when nothing it calls under the lock acquires the lock -/
theorem held_program_well_nested_iff (h : Gen.ServerFacts2.Held) :
    wellNested false (heldProgram h) = h.calls.all (fun c => !c.2) := by
  simp only [heldProgram]
  exact wellNested_calls h.calls

/-- **Fact of the source**: the one function that takes `logger.Lock()` (`llmnr.HandlerDescribePacket`) calls, while
    holding it, no function of package logger that acquires `LoggerLock` — directly or through the package's call
    graph: its program is well nested. -/
theorem logger_calls_under_lock_do_not_reacquire :
    held.map (·.fn) = ["llmnr.HandlerDescribePacket"] ∧
    (∀ h ∈ held, h.reacquires = false ∧ wellNested false (heldProgram h) = true) := by
  decide

/-! ### non-vacuity -/

private def site0 : Site :=
  ⟨"example", 0x7800, [(0x0000, .query), (0x2800, .registration), (0x3000, .release), (0x4000, .refresh)]⟩
example : dispatch site0 0x2810#16 = .registration := by decide
example : rfc1002Handler (opcode 0x3800#16) = .notImpl := by decide     -- WACK has no request handler
example : (handle site0 [(0, ⟨.unique, .active, [7], false, false⟩)]
    ⟨42, 0x0110#16, [⟨0, 32, 1⟩], []⟩).2 = ⟨42, 0x8400#16, 0, [⟨0, 32, 1, 7⟩]⟩ := by decide
example : Consistent true ⟨true, true, .inRead, 0, 1, false⟩ [.loop .closedErr, .stop, .loop .timeout] := by
  simp [Consistent, consistent, srvStep]
example : (srvRun true srvInit [.loop .timeout, .stop, .loop .closedErr, .stop, .loop .data]).pc = .exited := by decide
example : (wrun echoId true (winit 4 ()) [.recv 1 [0, 1, 9, 9], .recv 2 [0, 2, 7, 7], .run 0]).outbox = [(1, [0, 1])] := by
  decide
-- the hypotheses of §6 are satisfiable, and the positive models do what the witnesses of the negative ones cannot
example : TValid tinit [.accept 5, .accept 6, .hstep 0 true, .hstep 0 true, .hstep 1 true, .closeQuit, .hstep 1 true,
    .rangeClose, .hstep 0 false, .hstep 1 false] := by
  simp [TValid, tvalid, tstep, tinit, upd, aput, aerase, texit]
  intro j; split <;> simp
example : ((trun tinit [.accept 5, .accept 6, .hstep 0 true, .hstep 0 true, .hstep 1 true, .hstep 1 true, .closeQuit,
    .rangeClose]).conn 0).closed = true := by decide
example : (wgrun true true wginit [.serve false, .serve false, .stopClose, .serve true, .waitStart, .waitReturn]).returned
    = false := by decide
example : (wgrun true true wginit [.serve false, .serve false, .stopClose, .serve true, .waitStart, .hfinish true,
    .waitReturn]).returned = true := by decide
example : (crun true cinit [.store 7, .recv ⟨7, true, 1⟩, .recv ⟨7, true, 2⟩, .take 7, .recv ⟨7, true, 3⟩, .close]).qs
    = [(7, ⟨some ⟨7, true, 3⟩, true⟩)] := by decide
example : wellNested false [.acquire, .work, .work, .release] = true := by decide
example : (lrun (linit (fun t => if t = 0 then [.acquire, .acquire, .work, .release, .release] else [.acquire, .work, .release]))
    [0]).owner = some 0 := by decide

end Manticore.C18
