/-
  C18 — Name-service servers/clients isolate concurrent requests and stop cleanly.
  Property theorems only.  Model: `Manticore/Model/C18.lean`; helper lemmas: `Manticore/Lemmas/C18.lean`;
  facts regenerated from the source on every run: `Gen/NbnsDispatch.lean` (mask and case constants of the
  three `switch packet.Header.Flags & MASK` sites and of the two query guards) and `Gen/ServerFacts.lean`
  (what each receive loop hands to the goroutines it starts; how Stop/Close signal shutdown).

  Proved here: routing of all 65 536 flag words; what a response carries; id routing of the LLMNR client;
  isolation for *every schedule* of the interleaving model when goroutines get copies (and the leak when
  they do not); termination / double-Stop behaviour of the shutdown transition system.
  PARTIAL (see props_config): Go's scheduler, the race detector's verdict, prompt exit and goroutine
  counts of the real processes are *observed* by the harness on loopback sockets; Lean proves them only of
  these models, whose link to the code is the extracted facts plus that observation.
-/
import Manticore.Lemmas.C18
namespace Manticore.C18
open Manticore
open Manticore.Gen.NbnsDispatch (Handler Site Guard sites guards)
open Manticore.Gen.ServerFacts (loops stops)

/-! ### 1. every NBNS opcode is routed to the handler RFC 1002 assigns it -/

/-- **opcode_dispatch.**  For each of the three servers and for *all* 65 536 flag words, the handler chosen by
    the code's `switch packet.Header.Flags & MASK` (mask and case constants as found in the source) is the
    handler RFC 1002 §4.2.1.1 assigns to the opcode in bits 11..14 — whatever R, NM_FLAGS and RCODE are.
    Proof: `f &&& 0x7800` is the 4 opcode bits shifted (bit extensionality), then the 16 opcode values. -/
theorem opcode_dispatch : ∀ site ∈ sites, ∀ f : BitVec 16, dispatch site f = rfc1002Handler (opcode f) := by
  intro site hs f
  obtain ⟨hm, hc⟩ := sites_facts site hs
  unfold dispatch
  rw [hm]
  have : BitVec.ofNat 16 0x7800 = 0x7800#16 := rfl
  rw [this, and_opmask_toNat, hc _ (opcode f).isLt, BitVec.ofNat_toNat, BitVec.setWidth_eq]


/-- **The "only name queries" guards** of `DefendName` and `HandleRedirect` let a packet through exactly when
    it is a request (R = 0) whose opcode is 0. -/
theorem query_guard_exact : ∀ g ∈ guards, ∀ f : BitVec 16,
    guardPasses g f = true ↔ (isResponse f = false ∧ opcode f = 0#4) := by
  intro g hg f
  obtain ⟨hm, hc⟩ := guards_facts g hg
  unfold guardPasses isResponse
  rw [hm, hc]
  have : BitVec.ofNat 16 0xF800 = 0xF800#16 := rfl
  rw [this, ← guard_iff]
  simp


/-- the three dispatch sites and the two guards are the ones modelled (none missing, none extra) -/
theorem dispatch_sites_are_the_source_sites :
    sites.map (·.name) = ["Server.handlePacket", "TCPServer.handleMessage", "UDPServer.handlePacket"] ∧
    guards.map (·.name) = ["NameChallenger.DefendName", "RedirectManager.HandleRedirect"] := by
  decide

/-- consequently a server's answer is the answer of the RFC-routed specification -/
theorem handle_eq_spec : ∀ site ∈ sites, ∀ tbl req, handle site tbl req = handleSpec tbl req := by
  intro site hs tbl req
  unfold handle handleSpec
  rw [opcode_dispatch site hs]

/-! ### 2. every response carries the transaction id of, and the answer for, its own request -/

/-- **response_carries_request_id.** -/
theorem response_carries_request_id (site : Site) (tbl : C17.State) (req : Request) :
    (handle site tbl req).2.id = req.id := by
  unfold handle
  simp only
  split
  · simp [handleQuery_id]
  · simp [handleUpdates_id]
  · simp [handleUpdates_id]
  · simp [handleUpdates_id]
  · rfl


/-- **…and the answer for exactly that request**: every answer record repeats name, type and class of a
    question of this request and carries an address that holds that name in the table. -/
theorem response_answers_the_request (site : Site) (tbl : C17.State) (req : Request) :
    ∀ a ∈ (handle site tbl req).2.answers,
      ∃ q ∈ req.questions, a.name = q.name ∧ a.qtype = q.qtype ∧ a.qclass = q.qclass ∧ C17.Holds tbl q.name a.addr := by
  intro a ha
  unfold handle at ha
  simp only at ha
  split at ha
  · cases handleQuery_answers tbl req.questions _ a ha with
    | inl h => cases h
    | inr h => exact h
  · rw [handleUpdates_answers] at ha; cases ha
  · rw [handleUpdates_answers] at ha; cases ha
  · rw [handleUpdates_answers] at ha; cases ha
  · cases ha


/-- a response is a response (R and AA set), has no question section, and keeps these bits whatever the handler adds -/
theorem response_header (site : Site) (tbl : C17.State) (req : Request) :
    (handle site tbl req).2.qdcount = 0 := by
  have hq : ∀ qs resp, (handleQuery tbl qs resp).qdcount = resp.qdcount := by
    intro qs
    induction qs with
    | nil => intro resp; rfl
    | cons q qs ih =>
      intro resp
      simp only [handleQuery]
      split
      · rw [ih]; split <;> rfl
      · rfl
  have hu : ∀ mk rc rrs tbl resp, (handleUpdates mk rc tbl rrs resp).2.qdcount = resp.qdcount := by
    intro mk rc rrs
    induction rrs with
    | nil => intro tbl resp; rfl
    | cons rr rrs ih =>
      intro tbl resp
      simp only [handleUpdates]
      split
      · exact ih _ _
      · rfl
  unfold handle
  simp only
  split <;> simp [hq, hu]

/-! ### 3. LLMNR: handler chain and client routing -/

/-- **Handler chain with short-circuit** (`Server.processHandlers`): the handlers run in registration order
    up to and including the first one that returns `false`; none after it. -/
theorem handlers_short_circuit {μ : Type} (hs : List (μ → Bool)) (m : μ) :
    processHandlers hs m [] 0 = List.range (min (firstStop hs m + 1) hs.length) := by
  rw [processHandlers_spec, List.nil_append, List.range_eq_range']

/-- **route_matching_id.**  Whatever the order of `Query` registrations, deletions, receptions and reads: a
    message found in the channel of the query with id `id` is a *response* whose id is `id`, and one that
    `readLoop` actually received. -/
theorem route_matching_id (evs : List ClientEv) (id : Nat) (m : Msg)
    (h : qlookup (clientRun [] evs) id = some (some m)) :
    m.id = id ∧ m.response = true ∧ m ∈ received evs := by
  have := qinv_run evs [] [] (by intro id m h; cases h) id m h
  simpa using this

/-- a waiting query gets the response with its id … -/
theorem route_delivers (qs : Queries) (m : Msg) (hr : m.response = true) (hw : qlookup qs m.id = some none) :
    qlookup (clientStep qs (.recv m)) m.id = some (some m) := by
  simp [clientStep, hr, hw, qlookup_qput]

/-- … and no other query's channel is touched by it -/
theorem route_leaves_others (qs : Queries) (m : Msg) (id : Nat) (hne : id ≠ m.id) :
    qlookup (clientStep qs (.recv m)) id = qlookup qs id := by
  simp only [clientStep]
  split
  · rfl
  · split
    · rw [qlookup_qput]; simp [hne]
    · rfl
    · rfl

/-! handler chain -/

/-! ### 4. receive loop + handler goroutines: isolation for every schedule -/

/-- **isolated_if_copied.**  If the loop gives every goroutine its own copy of the datagram, then for every
    buffer size, every sequence of datagrams and *every schedule* of the goroutines: each response that was sent
    went to a client that sent some datagram `d`, and is the handler's response to exactly that `d`. -/
theorem isolated_if_copied {σ : Type} (respond : σ → Bytes → σ × Bytes) (cap : Nat) (s : σ) (sched : List Step) :
    ∀ p ∈ (wrun respond true (winit cap s) sched).outbox,
      ∃ d s', (p.1, d) ∈ (wrun respond true (winit cap s) sched).sent ∧ p.2 = (respond s' d).2 :=
  (isolated_run respond sched _ (isolated_init respond cap s)).outbox

/-- with an id-preserving handler: every response carries the id of a datagram that client sent -/
theorem isolated_ids {σ : Type} (respond : σ → Bytes → σ × Bytes) (idOf : Bytes → Nat)
    (hid : ∀ s d, idOf (respond s d).2 = idOf d) (cap : Nat) (s : σ) (sched : List Step) :
    ∀ p ∈ (wrun respond true (winit cap s) sched).outbox,
      ∃ d, (p.1, d) ∈ (wrun respond true (winit cap s) sched).sent ∧ idOf p.2 = idOf d := by
  intro p hp
  obtain ⟨d, s', hd, hr⟩ := isolated_if_copied respond cap s sched p hp
  exact ⟨d, hd, by rw [hr, hid]⟩


/-- **…exactly one request**: nothing is answered twice — responses sent plus goroutines still pending equals
    datagrams received, in every reachable world. -/
theorem one_response_per_request {σ : Type} (respond : σ → Bytes → σ × Bytes) (cap : Nat) (s : σ) (sched : List Step) :
    (wrun respond true (winit cap s) sched).outbox.length + (wrun respond true (winit cap s) sched).tasks.length
      = (wrun respond true (winit cap s) sched).sent.length :=
  (isolated_run respond sched _ (isolated_init respond cap s)).count

/-- **shared_view_leaks.**  If the goroutine is given the window `buf[:n]` of the reused buffer, there is a
    schedule of two datagrams after which client 1 is sent a response that answers no datagram of client 1
    (it carries client 2's id). -/
theorem shared_view_leaks :
    ∃ (sched : List Step), ∃ p ∈ (wrun echoId false (winit 4 ()) sched).outbox,
      ¬ ∃ d s', (p.1, d) ∈ (wrun echoId false (winit 4 ()) sched).sent ∧ p.2 = (echoId s' d).2 := by
  refine ⟨[.recv 1 [0, 1, 9, 9], .recv 2 [0, 2, 7, 7], .run 0], (1, [0, 2]), by decide, ?_⟩
  rintro ⟨d, s', hd, hr⟩
  have hs : (wrun echoId false (winit 4 ()) [.recv 1 [0, 1, 9, 9], .recv 2 [0, 2, 7, 7], .run 0]).sent
      = [(1, [0, 1, 9, 9]), (2, [0, 2, 7, 7])] := by decide
  rw [hs] at hd
  simp only [List.mem_cons, Prod.mk.injEq, List.mem_nil_iff, or_false] at hd
  rcases hd with ⟨_, rfl⟩ | ⟨h1, _⟩
  · simp [echoId] at hr
  · simp at h1


/-- **Which of the two applies is a fact of the source**: no receive loop of the LLMNR / NBNS servers or of
    the LLMNR client hands a goroutine a slice of a buffer allocated outside the loop. -/
theorem no_loop_shares_its_buffer : ∀ l ∈ loops, l.sharesBuffer = false := by decide

/-- the loops found are the ones the property names -/
theorem loops_are_the_source_loops :
    loops.map (·.name) = ["llmnr.Client.readLoop", "llmnr.Server.Serve", "nbtns.Server.serve",
      "nbtns.TCPServer.handleConnection", "nbtns.TCPServer.serve", "nbtns.UDPServer.serve"] := by
  decide

/-! ### 5. stopping -/

/-- **stop_terminates.**  Once Stop/Close has closed the quit channel and the socket, and assuming that a
    closed socket makes a blocked read return its error (`Consistent`), the serve goroutine has exited after at
    most two more of its own steps — under every interleaving with further Stop calls, pending reads of
    any kind and finishing handlers.  No step is ever disabled, so there is no deadlock in the model. -/
theorem stop_terminates (once : Bool) (s : Srv) (evs : List SrvEv)
    (hq : s.quitClosed = true) (hs : s.sockClosed = true) (hc : Consistent once s evs)
    (h2 : 2 ≤ loopSteps evs) : (srvRun once s evs).pc = .exited := by
  have := stop_terminates_gen once evs s hq hs hc
  have hd : dist s.pc ≤ 2 := by cases s.pc <;> simp [dist]
  have h0 : dist (srvRun once s evs).pc = 0 := by omega
  cases hp : (srvRun once s evs).pc <;> simp [hp, dist] at h0
  rfl

theorem first_stop_closes (once : Bool) (s : Srv) (h : s.quitClosed = false) :
    (srvStep once s .stop).quitClosed = true ∧ (srvStep once s .stop).sockClosed = true ∧
    (srvStep once s .stop).panicked = s.panicked := by
  simp [srvStep, h]

/-- **stop_twice** without `sync.Once`: a second Stop closes a closed channel — a panic. -/
theorem stop_twice_panics_without_once (s : Srv) (h : s.quitClosed = true) :
    (srvStep false s .stop).panicked = true := by
  simp [srvStep, h]


/-- with the `sync.Once` no sequence of Stop calls and loop steps panics -/
theorem stop_any_number_of_times_with_once (evs : List SrvEv) : (srvRun true srvInit evs).panicked = false :=
  no_panic_with_once evs srvInit rfl

/-- **Facts of the source**: every Stop/Close closes its quit channel inside a `sync.Once` and closes the
    socket; every receive loop begins each iteration by checking the quit channel. -/
theorem stops_close_once_and_unblock :
    (∀ st ∈ stops, st.closeUnderOnce = true ∧ st.closesSocket = true) ∧ (∀ l ∈ loops, l.checksQuit = true) := by
  decide

/-- the NBNS servers' Stop also waits for the serve goroutines (`wg.Wait()`); the LLMNR `Close` does not
    (its `Serve` / `readLoop` return on their own) -/
theorem nbns_stop_waits :
    (stops.filter (·.waitsForLoops)).map (·.name) = ["nbtns.Server.Stop", "nbtns.TCPServer.Stop", "nbtns.UDPServer.Stop"] := by
  decide

/-! ### non-vacuity -/

private def site0 : Site :=
  ⟨"example", 0x7800, [(0x0000, .query), (0x2800, .registration), (0x3000, .release), (0x4000, .refresh)]⟩
example : dispatch site0 0x2810#16 = .registration := by decide
example : rfc1002Handler (opcode 0x3800#16) = .notImpl := by decide     -- WACK has no request handler
example : (handle site0 [(0, ⟨.unique, .active, [7], false, false⟩)]
    ⟨42, 0x0110#16, [⟨0, 32, 1⟩], []⟩).2 = ⟨42, 0x8400#16, 0, [⟨0, 32, 1, 7⟩]⟩ := by decide
example : Consistent true ⟨true, true, .inRead, 0, 1, false⟩ [.loop .closedErr, .stop, .loop .timeout] := by
  simp [Consistent, consistent, srvStep]
example : (srvRun true srvInit [.loop .timeout, .stop, .loop .closedErr, .stop, .loop .data]).pc = .exited := by decide
example : (wrun echoId true (winit 4 ()) [.recv 1 [0, 1, 9, 9], .recv 2 [0, 2, 7, 7], .run 0]).outbox = [(1, [0, 1])] := by
  decide

end Manticore.C18
