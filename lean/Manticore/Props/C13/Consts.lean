/-
  C13 — the nibble layout of `uuid.UUID`, the field layout of UUIDv1/UUIDv2 and the byte layout of `guid.GUID` in the hand
  model are those of the current source.  `Gen/ConstsC13.lean` is regenerated on every run from crypto/uuid/uuid.go,
  uuid_v1.go, uuid_v2.go and windows/guid/Guid.go (tools/extract/consts_c13.go).
-/
import Manticore.Model.C13
import Manticore.Lemmas.Consts
import Manticore.Gen.ConstsC13
namespace Manticore.C13
open Manticore
open Manticore.Gen
open Manticore.Consts (byteAt window)

-- `UUID.Marshal`: the nibble masks and shifts
theorem consts_match_model_marshal (u : UUID) :
    marshal u =
    (
      let d := u.data
      let data6high := (d.d6 &&& UInt8.ofNat ConstsC13.m_d6hi_mask) >>> UInt8.ofNat ConstsC13.m_d6hi_shift
      let data6low := d.d6 &&& UInt8.ofNat ConstsC13.m_d6lo_mask
      let data7high := (d.d7 &&& UInt8.ofNat ConstsC13.m_d7hi_mask) >>> UInt8.ofNat ConstsC13.m_d7hi_shift
      let data7low := d.d7 &&& UInt8.ofNat ConstsC13.m_d7lo_mask
      [d.d0, d.d1, d.d2, d.d3, d.d4, d.d5,
       ((u.version &&& UInt8.ofNat ConstsC13.m_b0_maskA) <<< UInt8.ofNat ConstsC13.m_b0_shift) ||| (data6high &&& UInt8.ofNat ConstsC13.m_b0_maskB),
       ((data6low &&& UInt8.ofNat ConstsC13.m_b1_maskA) <<< UInt8.ofNat ConstsC13.m_b1_shift) ||| (data7high &&& UInt8.ofNat ConstsC13.m_b1_maskB),
       ((u.variant &&& UInt8.ofNat ConstsC13.m_b2_maskA) <<< UInt8.ofNat ConstsC13.m_b2_shift) ||| (data7low &&& UInt8.ofNat ConstsC13.m_b2_maskB),
       d.d8, d.d9, d.d10, d.d11, d.d12, d.d13, d.d14]) := by exact rfl

-- `UUID.Marshal`: size, the two copied ranges, which data bytes are split into nibbles and which output bytes take them
theorem consts_match_model_marshal_layout (u : UUID) :
    (marshal u).length = ConstsC13.m_size
      ∧ window (marshal u) ConstsC13.m_copy0_dstLo ConstsC13.m_copy0_dstHi
          = window u.data.toList ConstsC13.m_copy0_srcLo ConstsC13.m_copy0_srcHi
      ∧ window (marshal u) ConstsC13.m_copy1_dstLo (ConstsC13.m_copy1_dstBase + ConstsC13.m_copy1_dstLen)
          = window u.data.toList ConstsC13.m_copy1_srcLo (ConstsC13.m_copy1_srcBase + ConstsC13.m_copy1_srcLen)
      ∧ byteAt (marshal u) ConstsC13.m_b0_idx
          = ((u.version &&& 0xF) <<< 4) ||| (((byteAt u.data.toList ConstsC13.m_d6hi_idx &&& 0xF0) >>> 4) &&& 0xF)
      ∧ byteAt (marshal u) ConstsC13.m_b1_idx
          = (((byteAt u.data.toList ConstsC13.m_d6lo_idx &&& 0x0F) &&& 0xF) <<< 4)
              ||| (((byteAt u.data.toList ConstsC13.m_d7hi_idx &&& 0xF0) >>> 4) &&& 0xF)
      ∧ byteAt (marshal u) ConstsC13.m_b2_idx
          = ((u.variant &&& 0xF) <<< 4) ||| ((byteAt u.data.toList ConstsC13.m_d7lo_idx &&& 0x0F) &&& 0xF) := by
  exact ⟨rfl, rfl, rfl, rfl, rfl, rfl⟩

theorem consts_match_model_marshal_shape :
    [ConstsC13.m_b0_shape, ConstsC13.m_b1_shape, ConstsC13.m_b2_shape]
      = ["(| (<< (& u.Version 15) 4) (& data6high 15))", "(| (<< (& data6low 15) 4) (& data7high 15))",
         "(| (<< (& u.Variant 15) 4) (& data7low 15))"]
      ∧ [ConstsC13.u_d6_shape, ConstsC13.u_d7_shape]
      = ["(| (<< (& (index marshalledData 6) 15) 4) (>> (& (index marshalledData 7) 240) 4))",
         "(| (<< (& (index marshalledData 7) 15) 4) (& (index marshalledData 8) 15))"] := ⟨rfl, rfl⟩

-- `UUID.Unmarshal` on 16 bytes or more: minimum length, where version and variant sit, the copied ranges, the two
-- re-assembled data bytes with their masks and shifts
theorem consts_match_model_unmarshal (m0 m1 m2 m3 m4 m5 m6 m7 m8 m9 m10 m11 m12 m13 m14 m15 : UInt8) (rest : Bytes) :
    let m := m0 :: m1 :: m2 :: m3 :: m4 :: m5 :: m6 :: m7 :: m8 :: m9 :: m10 :: m11 :: m12 :: m13 :: m14 :: m15 :: rest
    unmarshal m =
      if m.length < ConstsC13.u_minLen then .err
      else
        match Data15.ofList?
            (window m ConstsC13.u_copy0_srcLo ConstsC13.u_copy0_srcHi
              ++ [((byteAt m ConstsC13.u_d6_idxA &&& UInt8.ofNat ConstsC13.u_d6_maskA) <<< UInt8.ofNat ConstsC13.u_d6_shiftA)
                    ||| ((byteAt m ConstsC13.u_d6_idxB &&& UInt8.ofNat ConstsC13.u_d6_maskB) >>> UInt8.ofNat ConstsC13.u_d6_shiftB),
                  ((byteAt m ConstsC13.u_d7_idxA &&& UInt8.ofNat ConstsC13.u_d7_maskA) <<< UInt8.ofNat ConstsC13.u_d7_shiftA)
                    ||| (byteAt m ConstsC13.u_d7_idxB &&& UInt8.ofNat ConstsC13.u_d7_maskB)]
              ++ window m ConstsC13.u_copy1_srcLo (ConstsC13.u_copy1_srcBase + ConstsC13.u_copy1_srcLen)) with
        | some d =>
          .ok { version := (byteAt m ConstsC13.u_version_idx &&& UInt8.ofNat ConstsC13.u_version_mask) >>> UInt8.ofNat ConstsC13.u_version_shift
                variant := (byteAt m ConstsC13.u_variant_idx &&& UInt8.ofNat ConstsC13.u_variant_mask) >>> UInt8.ofNat ConstsC13.u_variant_shift
                data := d }
        | none => .panic := by exact rfl

-- the destinations of `UUID.Unmarshal` tile `Data[0:15]` in order, and 16 bytes are reported consumed
theorem consts_match_model_unmarshal_layout :
    [ConstsC13.u_copy0_dstLo, ConstsC13.u_copy0_dstHi, ConstsC13.u_d6_idx, ConstsC13.u_d7_idx, ConstsC13.u_copy1_dstLo,
     ConstsC13.u_copy1_dstBase + ConstsC13.u_copy1_dstLen] = [0, 6, 6, 7, 8, 15] ∧ ConstsC13.u_consumed = ConstsC13.u_minLen := by decide

theorem consts_match_model_unmarshal_short (m : Bytes) (h : m.length < ConstsC13.u_minLen) : unmarshal m = .err := by
  unfold unmarshal; exact if_pos h

-- `UUIDv1.Marshal`: field masks and shifts
theorem consts_match_model_v1Data (v : V1) :
    v1Data v =
    (
      let timeLow : UInt32 := (v.time &&& UInt64.ofNat ConstsC13.v1_timeLow_mask).toUInt32
      let timeMid : UInt16 := ((v.time &&& UInt64.ofNat ConstsC13.v1_timeMid_mask) >>> UInt64.ofNat ConstsC13.v1_timeMid_shift).toUInt16
      let timeHigh : UInt16 := ((v.time &&& UInt64.ofNat ConstsC13.v1_timeHigh_mask) >>> UInt64.ofNat ConstsC13.v1_timeHigh_shift).toUInt16
      { d0 := (timeLow >>> 24).toUInt8, d1 := (timeLow >>> 16).toUInt8, d2 := (timeLow >>> 8).toUInt8, d3 := timeLow.toUInt8
        d4 := (timeMid >>> 8).toUInt8, d5 := timeMid.toUInt8
        d6 := ((timeHigh >>> UInt16.ofNat ConstsC13.v1_b6_shift) &&& UInt16.ofNat ConstsC13.v1_b6_mask).toUInt8
        d7 := ((timeHigh &&& UInt16.ofNat ConstsC13.v1_b7_maskA).toUInt8 <<< UInt8.ofNat ConstsC13.v1_b7_shiftA) ||| ((v.clockSeq &&& UInt16.ofNat ConstsC13.v1_b7_maskB) >>> UInt16.ofNat ConstsC13.v1_b7_shiftB).toUInt8
        d8 := (v.clockSeq &&& UInt16.ofNat ConstsC13.v1_b8_mask).toUInt8
        d9 := v.n0, d10 := v.n1, d11 := v.n2, d12 := v.n3, d13 := v.n4, d14 := v.n5 }) := by exact rfl

-- `UUIDv1.Marshal`: the version written
theorem consts_match_model_v1Marshal (v : V1) :
    v1Marshal v =
    (
    marshal { version := UInt8.ofNat ConstsC13.v1_version, variant := v.variant, data := v1Data v }) := by exact rfl

-- `UUIDv1.Marshal`: big-endian 32- and 16-bit stores at [0:4] and [4:6], bytes 6, 7, 8, node at [9:15] — the positions of
-- the model's `d0`…`d14`
theorem consts_match_model_v1Data_layout :
    [ConstsC13.v1_put32_dst_lo, ConstsC13.v1_put32_dst_hi, ConstsC13.v1_put16_dst_lo, ConstsC13.v1_put16_dst_hi, ConstsC13.v1_b6_idx,
     ConstsC13.v1_b7_idx, ConstsC13.v1_b8_idx, ConstsC13.v1_node_dst_lo, ConstsC13.v1_node_dst_hi] = [0, 4, 4, 6, 6, 7, 8, 9, 15]
      ∧ ConstsC13.v1_put_what = ["timeLow", "timeMid"]
      ∧ ConstsC13.v1_b7_shape = "(| (<< (byte (& timeHigh 15)) 4) (byte (>> (& u.ClockSeq 3840) 8)))" ∧ ConstsC13.v1_b8_shape = "(byte (& u.ClockSeq 255))" := ⟨by decide, rfl, rfl, rfl⟩

-- `UUIDv1.Unmarshal`: field masks and shifts
theorem consts_match_model_v1OfUUID (u : UUID) :
    v1OfUUID u =
    (
      let d := u.data
      let timeLow : UInt32 := be32 d.d0 d.d1 d.d2 d.d3
      let timeMid : UInt16 := be16 d.d4 d.d5
      let timeHigh : UInt16 := (d.d6.toUInt16 <<< UInt16.ofNat ConstsC13.v1_u_timeHigh_shiftA) ||| ((d.d7 >>> UInt8.ofNat ConstsC13.v1_u_timeHigh_shiftB).toUInt16 &&& UInt16.ofNat ConstsC13.v1_u_timeHigh_mask)
      { variant := u.variant
        clockSeq := ((d.d7 &&& UInt8.ofNat ConstsC13.v1_u_clockSeq_mask).toUInt16 <<< UInt16.ofNat ConstsC13.v1_u_clockSeq_shift) ||| d.d8.toUInt16
        time := (timeHigh.toUInt64 <<< UInt64.ofNat ConstsC13.v1_u_time_shiftHigh) ||| (timeMid.toUInt64 <<< UInt64.ofNat ConstsC13.v1_u_time_shiftMid) ||| timeLow.toUInt64
        n0 := d.d9, n1 := d.d10, n2 := d.d11, n3 := d.d12, n4 := d.d13, n5 := d.d14 }) := by exact rfl

-- `UUIDv1.Unmarshal`: which data bytes feed which field (the model's `d0`…`d14`), big-endian reads of 32 and 16 bits
theorem consts_match_model_v1OfUUID_layout :
    [ConstsC13.v1_u_first_lo, ConstsC13.v1_u_first_hi, ConstsC13.v1_u_timeMid_lo, ConstsC13.v1_u_timeMid_hi, ConstsC13.v1_u_timeHigh_idxA,
     ConstsC13.v1_u_timeHigh_idxB, ConstsC13.v1_u_clockSeq_idxA, ConstsC13.v1_u_clockSeq_idxB, ConstsC13.v1_u_node_src_lo,
     ConstsC13.v1_u_node_src_hi] = [0, 4, 4, 6, 6, 7, 7, 8, 9, 15]
      ∧ ConstsC13.v1_u_first_le = false ∧ ConstsC13.v1_u_timeMid_le = false
      ∧ ConstsC13.v1_u_first_width = 32 ∧ ConstsC13.v1_u_timeMid_width = 16
      ∧ ConstsC13.v1_u_timeHigh_shape = "(| (<< (uint16 (index u.UUID.Data 6)) 4) (& (uint16 (>> (index u.UUID.Data 7) 4)) 15))"
      ∧ ConstsC13.v1_u_time_shape = "(| (| (<< (uint64 timeHigh) 48) (<< (uint64 timeMid) 32)) (uint64 timeLow))" := ⟨by decide, rfl, rfl, rfl, rfl, rfl, rfl⟩

-- `UUIDv1.Unmarshal`: minimum length and the accepted version
theorem consts_match_model_v1Unmarshal (m : Bytes) :
    v1Unmarshal m =
    (
      if m.length < ConstsC13.v1_u_minLen then .err
      else match unmarshal m with
        | .ok u => if u.version != UInt8.ofNat ConstsC13.v1_u_version then .err else .ok (v1OfUUID u)
        | .err => .err
        | .panic => .panic) := by exact rfl

-- `UUIDv2.Marshal`: field masks and shifts
theorem consts_match_model_v2Data (v : V2) :
    v2Data v =
    (
      let ldn := v.localDomainNumber
      let timeMid : UInt16 := ((v.time &&& UInt64.ofNat ConstsC13.v2_timeMid_mask) >>> UInt64.ofNat ConstsC13.v2_timeMid_shift).toUInt16
      let timeHigh : UInt16 := ((v.time &&& UInt64.ofNat ConstsC13.v2_timeHigh_mask) >>> UInt64.ofNat ConstsC13.v2_timeHigh_shift).toUInt16
      { d0 := (ldn >>> 24).toUInt8, d1 := (ldn >>> 16).toUInt8, d2 := (ldn >>> 8).toUInt8, d3 := ldn.toUInt8
        d4 := (timeMid >>> 8).toUInt8, d5 := timeMid.toUInt8
        d6 := ((timeHigh >>> UInt16.ofNat ConstsC13.v2_b6_shift) &&& UInt16.ofNat ConstsC13.v2_b6_mask).toUInt8
        d7 := ((timeHigh &&& UInt16.ofNat ConstsC13.v2_b7_maskA).toUInt8 <<< UInt8.ofNat ConstsC13.v2_b7_shiftA) ||| (v.clock &&& UInt8.ofNat ConstsC13.v2_b7_maskB)
        d8 := v.localDomain
        d9 := v.n0, d10 := v.n1, d11 := v.n2, d12 := v.n3, d13 := v.n4, d14 := v.n5 }) := by exact rfl

-- `UUIDv2.Marshal`: the version written
theorem consts_match_model_v2Marshal (v : V2) :
    v2Marshal v =
    (
    marshal { version := UInt8.ofNat ConstsC13.v2_version, variant := v.variant, data := v2Data v }) := by exact rfl

-- `UUIDv2.Marshal`: big-endian 32- and 16-bit stores at [0:4] and [4:6], bytes 6, 7, 8, node at [9:15] — the positions of
-- the model's `d0`…`d14`
theorem consts_match_model_v2Data_layout :
    [ConstsC13.v2_put32_dst_lo, ConstsC13.v2_put32_dst_hi, ConstsC13.v2_put16_dst_lo, ConstsC13.v2_put16_dst_hi, ConstsC13.v2_b6_idx,
     ConstsC13.v2_b7_idx, ConstsC13.v2_b8_idx, ConstsC13.v2_node_dst_lo, ConstsC13.v2_node_dst_hi] = [0, 4, 4, 6, 6, 7, 8, 9, 15]
      ∧ ConstsC13.v2_put_what = ["u.LocalDomainNumber", "timeMid"]
      ∧ ConstsC13.v2_b7_shape = "(| (<< (byte (& timeHigh 15)) 4) (byte (& u.Clock 15)))" ∧ ConstsC13.v2_b8_shape = "u.LocalDomain" := ⟨by decide, rfl, rfl, rfl⟩

-- `UUIDv2.Unmarshal`: field masks and shifts
theorem consts_match_model_v2OfUUID (u : UUID) :
    v2OfUUID u =
    (
      let d := u.data
      let timeMid : UInt16 := be16 d.d4 d.d5
      let timeHigh : UInt16 := (d.d6.toUInt16 <<< UInt16.ofNat ConstsC13.v2_u_timeHigh_shiftA) ||| ((d.d7 >>> UInt8.ofNat ConstsC13.v2_u_timeHigh_shiftB).toUInt16 &&& UInt16.ofNat ConstsC13.v2_u_timeHigh_mask)
      { variant := u.variant
        localDomainNumber := be32 d.d0 d.d1 d.d2 d.d3
        clock := d.d7 &&& UInt8.ofNat ConstsC13.v2_u_clock_mask
        localDomain := d.d8
        time := (timeHigh.toUInt64 <<< UInt64.ofNat ConstsC13.v2_u_time_shiftHigh) ||| (timeMid.toUInt64 <<< UInt64.ofNat ConstsC13.v2_u_time_shiftMid)
        n0 := d.d9, n1 := d.d10, n2 := d.d11, n3 := d.d12, n4 := d.d13, n5 := d.d14 }) := by exact rfl

-- `UUIDv2.Unmarshal`: which data bytes feed which field (the model's `d0`…`d14`), big-endian reads of 32 and 16 bits
theorem consts_match_model_v2OfUUID_layout :
    [ConstsC13.v2_u_first_lo, ConstsC13.v2_u_first_hi, ConstsC13.v2_u_timeMid_lo, ConstsC13.v2_u_timeMid_hi, ConstsC13.v2_u_timeHigh_idxA,
     ConstsC13.v2_u_timeHigh_idxB, ConstsC13.v2_u_clock_idx, ConstsC13.v2_u_localDomain_idx, ConstsC13.v2_u_node_src_lo,
     ConstsC13.v2_u_node_src_hi] = [0, 4, 4, 6, 6, 7, 7, 8, 9, 15]
      ∧ ConstsC13.v2_u_first_le = false ∧ ConstsC13.v2_u_timeMid_le = false
      ∧ ConstsC13.v2_u_first_width = 32 ∧ ConstsC13.v2_u_timeMid_width = 16
      ∧ ConstsC13.v2_u_timeHigh_shape = "(| (<< (uint16 (index u.UUID.Data 6)) 4) (& (uint16 (>> (index u.UUID.Data 7) 4)) 15))"
      ∧ ConstsC13.v2_u_time_shape = "(| (<< (uint64 timeHigh) 48) (<< (uint64 timeMid) 32))" := ⟨by decide, rfl, rfl, rfl, rfl, rfl, rfl⟩

-- `UUIDv2.Unmarshal`: minimum length and the accepted version
theorem consts_match_model_v2Unmarshal (m : Bytes) :
    v2Unmarshal m =
    (
      if m.length < ConstsC13.v2_u_minLen then .err
      else match unmarshal m with
        | .ok u => if u.version != UInt8.ofNat ConstsC13.v2_u_version then .err else .ok (v2OfUUID u)
        | .err => .err
        | .panic => .panic) := by exact rfl

-- `GUID.FromRawBytes` on 16 bytes or more: which byte goes where with which shift (A, B, C little-endian; D, E big-endian)
theorem consts_match_model_fromRawBytes (b0 b1 b2 b3 b4 b5 b6 b7 b8 b9 b10 b11 b12 b13 b14 b15 : UInt8) (rest : Bytes) :
    let data := b0 :: b1 :: b2 :: b3 :: b4 :: b5 :: b6 :: b7 :: b8 :: b9 :: b10 :: b11 :: b12 :: b13 :: b14 :: b15 :: rest
    fromRawBytes data =
      .ok { A := (byteAt data ConstsC13.g_A_i0).toUInt32 ||| ((byteAt data ConstsC13.g_A_i1).toUInt32 <<< UInt32.ofNat ConstsC13.g_A_s1)
                   ||| ((byteAt data ConstsC13.g_A_i2).toUInt32 <<< UInt32.ofNat ConstsC13.g_A_s2)
                   ||| ((byteAt data ConstsC13.g_A_i3).toUInt32 <<< UInt32.ofNat ConstsC13.g_A_s3)
            B := (byteAt data ConstsC13.g_B_i0).toUInt16 ||| ((byteAt data ConstsC13.g_B_i1).toUInt16 <<< UInt16.ofNat ConstsC13.g_B_s1)
            C := (byteAt data ConstsC13.g_C_i0).toUInt16 ||| ((byteAt data ConstsC13.g_C_i1).toUInt16 <<< UInt16.ofNat ConstsC13.g_C_s1)
            D := ((byteAt data ConstsC13.g_D_i0).toUInt16 <<< UInt16.ofNat ConstsC13.g_D_s0) ||| (byteAt data ConstsC13.g_D_i1).toUInt16
            E := ((byteAt data ConstsC13.g_E0_idx).toUInt64 <<< UInt64.ofNat ConstsC13.g_E0_shift)
                   ||| ((byteAt data ConstsC13.g_E1_idx).toUInt64 <<< UInt64.ofNat ConstsC13.g_E1_shift)
                   ||| ((byteAt data ConstsC13.g_E2_idx).toUInt64 <<< UInt64.ofNat ConstsC13.g_E2_shift)
                   ||| ((byteAt data ConstsC13.g_E3_idx).toUInt64 <<< UInt64.ofNat ConstsC13.g_E3_shift)
                   ||| ((byteAt data ConstsC13.g_E4_idx).toUInt64 <<< UInt64.ofNat ConstsC13.g_E4_shift)
                   ||| (byteAt data ConstsC13.g_E5_idx).toUInt64 } := by exact rfl

-- below the guard's minimum length the receiver becomes the nil GUID
theorem consts_match_model_fromRawBytes_short (data : Bytes) (h : data.length < ConstsC13.g_minLen) :
    fromRawBytes data = .ok ⟨0, 0, 0, 0, 0⟩ := by
  match data, h with
  | [], _ => rfl
  | [_], _ => rfl
  | [_, _], _ => rfl
  | [_, _, _], _ => rfl
  | [_, _, _, _], _ => rfl
  | [_, _, _, _, _], _ => rfl
  | [_, _, _, _, _, _], _ => rfl
  | [_, _, _, _, _, _, _], _ => rfl
  | [_, _, _, _, _, _, _, _], _ => rfl
  | [_, _, _, _, _, _, _, _, _], _ => rfl
  | [_, _, _, _, _, _, _, _, _, _], _ => rfl
  | [_, _, _, _, _, _, _, _, _, _, _], _ => rfl
  | [_, _, _, _, _, _, _, _, _, _, _, _], _ => rfl
  | [_, _, _, _, _, _, _, _, _, _, _, _, _], _ => rfl
  | [_, _, _, _, _, _, _, _, _, _, _, _, _, _], _ => rfl
  | [_, _, _, _, _, _, _, _, _, _, _, _, _, _, _], _ => rfl
  | _ :: _ :: _ :: _ :: _ :: _ :: _ :: _ :: _ :: _ :: _ :: _ :: _ :: _ :: _ :: _ :: _, h =>
    exact absurd h (by simp [ConstsC13.g_minLen])

theorem consts_match_model_guid_shape :
    ConstsC13.g_A_shape
        = "(| (| (| (uint32 (index data 0)) (<< (uint32 (index data 1)) 8)) (<< (uint32 (index data 2)) 16)) (<< (uint32 (index data 3)) 24))"
      ∧ ConstsC13.g_D_shape = "(| (<< (uint16 (index data 8)) 8) (uint16 (index data 9)))"
      ∧ [ConstsC13.t_A_shape, ConstsC13.t_B_shape, ConstsC13.t_C_shape, ConstsC13.t_D_shape, ConstsC13.t_E_shape]
        = ["(append data (byte guid.A) (byte (>> guid.A 8)) (byte (>> guid.A 16)) (byte (>> guid.A 24)))",
           "(append data (byte guid.B) (byte (>> guid.B 8)))", "(append data (byte guid.C) (byte (>> guid.C 8)))",
           "(append data (byte (>> guid.D 8)) (byte guid.D))", "(byte (& (>> guid.E (uint64 (* i 8))) 255))"] := ⟨rfl, rfl, rfl⟩

-- `GUID.ToBytes`: the shifts of A, B, C, D and the loop `eBytes[5-i] = byte((E >> (i*8)) & 0xff)` unrolled
theorem consts_match_model_toBytes (g : GUID) :
    toBytes g =
    (
      [g.A.toUInt8, (g.A >>> UInt32.ofNat ConstsC13.t_A_s1).toUInt8, (g.A >>> UInt32.ofNat ConstsC13.t_A_s2).toUInt8, (g.A >>> UInt32.ofNat ConstsC13.t_A_s3).toUInt8,
       g.B.toUInt8, (g.B >>> UInt16.ofNat ConstsC13.t_B_s1).toUInt8,
       g.C.toUInt8, (g.C >>> UInt16.ofNat ConstsC13.t_C_s1).toUInt8,
       (g.D >>> UInt16.ofNat ConstsC13.t_D_s0).toUInt8, g.D.toUInt8,
       ((g.E >>> UInt64.ofNat ((ConstsC13.t_E_last - 0) * ConstsC13.t_E_bits)) &&& UInt64.ofNat ConstsC13.t_E_mask).toUInt8, ((g.E >>> UInt64.ofNat ((ConstsC13.t_E_last - 1) * ConstsC13.t_E_bits)) &&& UInt64.ofNat ConstsC13.t_E_mask).toUInt8, ((g.E >>> UInt64.ofNat ((ConstsC13.t_E_last - 2) * ConstsC13.t_E_bits)) &&& UInt64.ofNat ConstsC13.t_E_mask).toUInt8,
       ((g.E >>> UInt64.ofNat ((ConstsC13.t_E_last - 3) * ConstsC13.t_E_bits)) &&& UInt64.ofNat ConstsC13.t_E_mask).toUInt8, ((g.E >>> UInt64.ofNat ((ConstsC13.t_E_last - 4) * ConstsC13.t_E_bits)) &&& UInt64.ofNat ConstsC13.t_E_mask).toUInt8, ((g.E >>> UInt64.ofNat ((ConstsC13.t_E_last - 5) * ConstsC13.t_E_bits)) &&& UInt64.ofNat ConstsC13.t_E_mask).toUInt8]) := by exact rfl

theorem consts_match_model_toBytes_loop :
    ConstsC13.t_E_size = 6 ∧ ConstsC13.t_E_count = ConstsC13.t_E_size ∧ ConstsC13.t_E_last + 1 = ConstsC13.t_E_size := by decide

end Manticore.C13
