/-
  C16 — Binary SIDs and distinguished names decode to their canonical text.
  Property theorems only.  Model and spec: `Manticore/Model/C16.lean`.
-/
import Manticore.Model.C16
import Manticore.Lemmas.Endian
namespace Manticore.C16
open Manticore

/-! ### helper facts (private) -/

private theorem or_eq_add_of_lt (a b k : Nat) (hb : b < 2^k) (ha : 2^k ∣ a) : a ||| b = a + b := by
  obtain ⟨q, rfl⟩ := ha
  rw [Nat.mul_comm, ← Nat.shiftLeft_eq]
  exact (Nat.shiftLeft_add_eq_or_of_lt hb q).symm

private theorem authority_toNat (b2 b3 b4 b5 b6 b7 : UInt8) :
    (authority b2 b3 b4 b5 b6 b7).toNat =
      b2.toNat * 2^40 + b3.toNat * 2^32 + b4.toNat * 2^24 + b5.toNat * 2^16 + b6.toNat * 2^8 + b7.toNat := by
  have h2 := b2.toNat_lt; have h3 := b3.toNat_lt; have h4 := b4.toNat_lt
  have h5 := b5.toNat_lt; have h6 := b6.toNat_lt; have h7 := b7.toNat_lt
  simp only [authority, UInt64.toNat_or, UInt64.toNat_shiftLeft, UInt8.toNat_toUInt64, Nat.shiftLeft_eq]
  simp only [UInt64.toNat_ofNat, Nat.reducePow, Nat.reduceMod] at *
  rw [Nat.mod_eq_of_lt (by omega), Nat.mod_eq_of_lt (by omega), Nat.mod_eq_of_lt (by omega),
    Nat.mod_eq_of_lt (by omega), Nat.mod_eq_of_lt (by omega)]
  rw [or_eq_add_of_lt (b2.toNat * 1099511627776) (b3.toNat * 4294967296) 40 (by omega) (by omega)]
  rw [or_eq_add_of_lt _ (b4.toNat * 16777216) 32 (by omega) (by omega)]
  rw [or_eq_add_of_lt _ (b5.toNat * 65536) 24 (by omega) (by omega)]
  rw [or_eq_add_of_lt _ (b6.toNat * 256) 16 (by omega) (by omega)]
  rw [or_eq_add_of_lt _ b7.toNat 8 (by omega) (by omega)]

/-- the sub-authority loop reads exactly the little-endian words that follow the 8-byte header -/
private theorem subLoop_spec (hdr : Bytes) (hh : hdr.length = 8) (extra : Bytes) :
    ∀ (subs done : List UInt32) (acc : List String),
      subLoop (hdr ++ (done ++ subs).flatMap putLe32 ++ extra) done.length subs.length acc
        = .ok (acc ++ subs.map (fun v => toString v.toNat)) := by
  intro subs
  induction subs with
  | nil => intro done acc; simp [subLoop]
  | cons v vs ih =>
    intro done acc
    have hlen : ∀ l : List UInt32, (l.flatMap putLe32).length = 4 * l.length := by
      intro l; induction l with
      | nil => rfl
      | cons x xs ihx => simp [List.flatMap_cons, putLe32, ihx]; omega
    have hread : readLe32From (hdr ++ (done ++ v :: vs).flatMap putLe32 ++ extra) (8 + 4 * done.length) = .ok v := by
      unfold readLe32From sliceFrom
      have e : hdr ++ (done ++ v :: vs).flatMap putLe32 ++ extra
          = (hdr ++ done.flatMap putLe32) ++ (putLe32 v ++ (vs.flatMap putLe32 ++ extra)) := by
        simp [List.flatMap_append, List.append_assoc]
      have hl : (hdr ++ done.flatMap putLe32).length = 8 + 4 * done.length := by simp [hh, hlen]
      rw [e, if_pos (by simp [hh, hlen]), ← hl, List.drop_left]
      simp only [putLe32, List.cons_append, List.nil_append]
      rw [le32_bytes]
    have := ih (done ++ [v]) (acc ++ [toString v.toNat])
    simp only [List.length_append, List.length_cons, List.length_nil, List.append_assoc,
      List.cons_append, List.nil_append] at this
    simp only [subLoop, List.length_cons, hread, List.map_cons]
    simpa using this

private theorem natBe6 (auth : Nat) :
    natBe 6 auth = [UInt8.ofNat (auth / 256^5 % 256), UInt8.ofNat (auth / 256^4 % 256),
      UInt8.ofNat (auth / 256^3 % 256), UInt8.ofNat (auth / 256^2 % 256),
      UInt8.ofNat (auth / 256 % 256), UInt8.ofNat (auth % 256)] := by
  simp [natBe, natLe, Nat.div_div_eq_div_mul]

/-! ### property theorems -/

/-- **MS-DTYP 2.4.2.1 string form.**  For every revision-1 SID with an authority below 2^48 and
    0..255 sub-authorities (the property asks for 0..15), followed by any trailing bytes, the
    library's string is `S-1-<authority>-<sub>…` with every number in decimal and single dashes. -/
theorem sid_string_spec (auth : Nat) (subs : List UInt32) (extra : Bytes)
    (ha : auth < 2^48) (hc : subs.length ≤ 255) :
    parseSID (encodeSID auth subs ++ extra) = .ok (sidString auth (subs.map (·.toNat))) := by
  have hlen : ∀ l : List UInt32, (l.flatMap putLe32).length = 4 * l.length := by
    intro l; induction l with
    | nil => rfl
    | cons x xs ihx => simp [List.flatMap_cons, putLe32, ihx]; omega
  have hcnt : (UInt8.ofNat subs.length).toNat = subs.length := by
    simp [UInt8.toNat_ofNat']; omega
  unfold encodeSID
  rw [natBe6]
  simp only [List.cons_append, List.nil_append, parseSID]
  rw [if_neg (by decide)]
  rw [if_neg (by simp [hlen, hcnt]; omega)]
  have := subLoop_spec
    [1, UInt8.ofNat subs.length, UInt8.ofNat (auth / 256^5 % 256), UInt8.ofNat (auth / 256^4 % 256),
      UInt8.ofNat (auth / 256^3 % 256), UInt8.ofNat (auth / 256^2 % 256),
      UInt8.ofNat (auth / 256 % 256), UInt8.ofNat (auth % 256)] rfl extra subs [] 
  simp only [List.nil_append, List.length_nil, List.cons_append] at this
  rw [hcnt, this, authority_toNat]
  have hauth : (UInt8.ofNat (auth / 256 ^ 5 % 256)).toNat * 2 ^ 40 + (UInt8.ofNat (auth / 256 ^ 4 % 256)).toNat * 2 ^ 32 +
            (UInt8.ofNat (auth / 256 ^ 3 % 256)).toNat * 2 ^ 24 + (UInt8.ofNat (auth / 256 ^ 2 % 256)).toNat * 2 ^ 16 +
            (UInt8.ofNat (auth / 256 % 256)).toNat * 2 ^ 8 + (UInt8.ofNat (auth % 256)).toNat = auth := by
    simp only [UInt8.toNat_ofNat', Nat.reducePow] at *
    omega
  rw [hauth]
  simp [sidString, List.map_map, Function.comp_def]
  decide

private theorem readLe32From_ok (b : Bytes) (off : Nat) (h : off + 4 ≤ b.length) :
    ∃ v, readLe32From b off = .ok v := by
  unfold readLe32From sliceFrom
  rw [if_pos (by omega)]
  have : (b.drop off).length ≥ 4 := by simp; omega
  match hd : b.drop off, this with
  | b0 :: b1 :: b2 :: b3 :: _, _ => exact ⟨_, rfl⟩

private theorem subLoop_ok (b : Bytes) : ∀ (n k : Nat) (acc : List String),
    8 + 4 * (k + n) ≤ b.length → ∃ r, subLoop b k n acc = .ok r := by
  intro n
  induction n with
  | zero => intro k acc _; exact ⟨acc, rfl⟩
  | succ n ih =>
    intro k acc h
    obtain ⟨v, hv⟩ := readLe32From_ok b (8 + 4 * k) (by omega)
    simp only [subLoop, hv]
    exact ih (k+1) _ (by omega)

/-- **Totality.**  `ParseSIDFromBytes` returns for every byte string: no slice or index
    expression of the model can go out of range. -/
theorem sid_total (b : Bytes) : ∃ s, parseSID b = .ok s := by
  unfold parseSID
  split
  next r c b2 b3 b4 b5 b6 b7 rest =>
    split
    · exact ⟨_, rfl⟩
    · split
      · exact ⟨_, rfl⟩
      next hlen =>
        have hlen' := Nat.le_of_not_lt hlen
        obtain ⟨p, hp⟩ := subLoop_ok (r :: c :: b2 :: b3 :: b4 :: b5 :: b6 :: b7 :: rest) c.toNat 0
          ["S-" ++ toString r.toNat ++ "-" ++ toString (authority b2 b3 b4 b5 b6 b7).toNat] (by simpa using hlen')
        rw [hp]; exact ⟨_, rfl⟩
  · exact ⟨_, rfl⟩

/-- anything shorter than the header plus the announced sub-authorities, or of another
    revision, is "not a SID" (the empty string), never a fabricated value -/
theorem sid_short_or_wrong_revision_is_empty (b : Bytes) :
    (b.length < 8 ∨ b.head? ≠ some 1 ∨ (∃ c, b[1]? = some c ∧ b.length < 8 + 4 * c.toNat)) →
    parseSID b = .ok "" := by
  intro h
  unfold parseSID
  split
  · rename_i r c b2 b3 b4 b5 b6 b7 rest
    by_cases hr : r = 1
    · subst hr
      rcases h with h | h | ⟨c', hc', hl⟩
      · simp at h; omega
      · simp at h
      · simp at hc'; subst hc'
        simp only [List.length_cons] at hl
        rw [if_neg (by decide), if_pos (by simpa using hl)]
    · simp [hr]
  · rfl

/-! ### distinguished names -/

private theorem split_plain (t rest cur : Bytes) (h : ∀ c ∈ t, special c = false) :
    splitDNAux (t ++ rest) false cur = splitDNAux rest false (t.reverse ++ cur) := by
  induction t generalizing cur with
  | nil => rfl
  | cons c t ih =>
    have hc := h c (by simp)
    have h1 : c ≠ backslash := by intro e; subst e; revert hc; decide
    have h2 : c ≠ comma := by intro e; subst e; revert hc; decide
    simp only [List.cons_append, splitDNAux, if_neg h1, if_neg h2]
    rw [ih _ (fun x hx => h x (by simp [hx]))]
    simp

private theorem split_escape (v rest cur : Bytes) :
    splitDNAux (escape v ++ rest) false cur = splitDNAux rest false ((escape v).reverse ++ cur) := by
  induction v generalizing cur with
  | nil => rfl
  | cons c v ih =>
    by_cases hs : special c = true
    · have : escape (c :: v) = backslash :: c :: escape v := by simp [escape, hs]
      rw [this]
      simp only [List.cons_append, splitDNAux, if_pos]
      rw [ih]; simp
    · have hs' : special c = false := by simpa using hs
      have h1 : c ≠ backslash := by intro e; subst e; revert hs'; decide
      have h2 : c ≠ comma := by intro e; subst e; revert hs'; decide
      have : escape (c :: v) = c :: escape v := by simp [escape, hs']
      rw [this]
      simp only [List.cons_append, splitDNAux, if_neg h1, if_neg h2]
      rw [ih]; simp

private theorem split_rdn (r : Bytes × Bytes) (rest cur : Bytes) (h : ∀ c ∈ r.1, special c = false) :
    splitDNAux (formatRDN r ++ rest) false cur = splitDNAux rest false ((formatRDN r).reverse ++ cur) := by
  unfold formatRDN
  rw [List.append_assoc, List.append_assoc, split_plain _ _ _ h]
  have : splitDNAux ([61] ++ (escape r.2 ++ rest)) false (r.1.reverse ++ cur)
       = splitDNAux (escape r.2 ++ rest) false (61 :: (r.1.reverse ++ cur)) := by
    simp [splitDNAux, backslash, comma]
  rw [this, split_escape]
  simp

private theorem split_formatDN (rdns : List (Bytes × Bytes)) (hne : rdns ≠ [])
    (h : ∀ r ∈ rdns, ∀ c ∈ r.1, special c = false) :
    splitDN (formatDN rdns) = rdns.map formatRDN := by
  unfold splitDN
  induction rdns with
  | nil => exact absurd rfl hne
  | cons r rs ih =>
    cases rs with
    | nil =>
      have := split_rdn r [] [] (h r (by simp))
      simp only [List.append_nil] at this
      simp [formatDN, joinWith, this, splitDNAux]
    | cons r2 rs =>
      have e : formatDN (r :: r2 :: rs) = formatRDN r ++ (comma :: formatDN (r2 :: rs)) := by
        simp [formatDN, joinWith]
      rw [e, split_rdn r _ [] (h r (by simp))]
      have hb : comma ≠ backslash := by decide
      simp only [splitDNAux, if_neg hb, if_true, List.append_nil, List.reverse_reverse]
      rw [ih (by simp) (fun x hx => h x (by simp [hx]))]
      simp

private theorem prefix_iff (r : Bytes × Bytes) (h1 : r.1 ≠ []) (h : ∀ c ∈ r.1, special c = false) :
    hasPrefix dcPrefix (formatRDN r) = decide (r.1 = [68, 67]) := by
  obtain ⟨t, v⟩ := r
  simp only [formatRDN, hasPrefix, dcPrefix] at *
  match t, h1, h with
  | [a], _, h => simp [List.isPrefixOf]
  | [a, b], _, h =>
    have e1 : ((68:UInt8) == a) = decide (a = 68) := by by_cases ha : a = 68 <;> simp [ha, Ne.symm]
    have e2 : ((67:UInt8) == b) = decide (b = 67) := by by_cases hb : b = 67 <;> simp [hb, Ne.symm]
    simp [List.isPrefixOf, e1, e2]
  | a :: b :: c :: t, _, h =>
    have : special c = false := h c (by simp)
    have : c ≠ 61 := by intro e; subst e; revert this; decide
    simp [List.isPrefixOf, Ne.symm this]
private theorem escape_id (v : Bytes) (h : ∀ c ∈ v, special c = false) : escape v = v := by
  induction v with
  | nil => rfl
  | cons c v ih =>
    have hc := h c (by simp)
    simp only [escape, List.flatMap_cons, hc] at *
    simp [ih (fun x hx => h x (by simp [hx]))]

private theorem accumulate_spec (rdns : List (Bytes × Bytes)) (h : ∀ r ∈ rdns, WellFormedRDN r) :
    accumulate (rdns.map formatRDN) = (dcValues rdns).flatMap (fun v => v ++ [dot]) := by
  induction rdns with
  | nil => rfl
  | cons r rs ih =>
    obtain ⟨h1, h2, h3⟩ := h r (by simp)
    have ih' := ih (fun x hx => h x (by simp [hx]))
    unfold accumulate dcValues at *
    simp only [List.map_cons, List.filter_cons, prefix_iff r h1 h2]
    by_cases hd : r.1 = [68, 67]
    · have hv := escape_id r.2 (h3 hd)
      simp only [hd, decide_true, if_true, List.flatMap_cons, List.map_cons, ih']
      simp [formatRDN, hd, hv]
    · simp only [hd, decide_false]
      exact ih'

private theorem trim_append_dot (s : Bytes) : trimDotSuffix (s ++ [dot]) = s := by
  simp [trimDotSuffix]

private theorem flat_join (vs : List Bytes) (hne : vs ≠ []) :
    vs.flatMap (fun v => v ++ [dot]) = dotJoin vs ++ [dot] := by
  induction vs with
  | nil => exact absurd rfl hne
  | cons v vs ih =>
    cases vs with
    | nil => simp [dotJoin, joinWith]
    | cons w ws =>
      have := ih (by simp)
      simp only [List.flatMap_cons] at *
      simp [dotJoin, joinWith, this]

/-- **DN → DNS domain.**  For every RDN sequence printed the way Active Directory prints it
    (types free of special characters, values escaped with a backslash, DC values being DNS labels),
    the derived domain is the dot-join of the DC values in order — whatever the other RDN values
    contain, including escaped commas followed by `DC=`. -/
theorem dn_domain_spec (rdns : List (Bytes × Bytes)) (h : ∀ r ∈ rdns, WellFormedRDN r) :
    domainOfDN (formatDN rdns) = dotJoin (dcValues rdns) := by
  unfold domainOfDN
  by_cases hne : rdns = []
  · subst hne; decide
  · rw [split_formatDN rdns hne (fun r hr => (h r hr).2.1), accumulate_spec rdns h]
    by_cases hd : dcValues rdns = []
    · rw [hd]; decide
    · rw [flat_join _ hd, trim_append_dot]

/-! ### non-vacuity: concrete instances meet the hypotheses -/

example : parseSID (encodeSID 5 [21, 3623811015, 3361044348, 30300820, 1013]) =
    .ok "S-1-5-21-3623811015-3361044348-30300820-1013" := by decide
example : parseSID (encodeSID 5 [18]) = .ok "S-1-5-18" := by decide
example : parseSID (encodeSID 5 []) = .ok "S-1-5" := by decide
/-- `CN=a\,DC=evil,DC=example,DC=com` -/
example : domainOfDN (formatDN [([67, 78], [97, 44, 68, 67, 61, 101, 118, 105, 108]),
    ([68, 67], [101, 120]), ([68, 67], [99, 111, 109])]) = [101, 120, 46, 99, 111, 109] := by decide
example : WellFormedRDN ([67, 78], [97, 44, 68, 67, 61, 101, 118, 105, 108]) := by
  refine ⟨by decide, by decide, by decide⟩

end Manticore.C16
