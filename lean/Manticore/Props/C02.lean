/-
  C02 — NTLMv1 / NTLMv2 responses verify under an independent MS-NLMP verifier.
  Property theorems only.  Model and spec: `Manticore/Model/C02.lean`; helper lemmas:
  `Manticore/Lemmas/C02Bits.lean`, `Manticore/Lemmas/C02Resp.lean`.
  All theorems hold for every interpretation `P : Prims` of MD4 / HMAC-MD5 / DES / hex / ToUpper / UTF-16
  (subject to the stated laws: HMAC-MD5 yields 16 bytes; hex decodes back; DES ignores key parity bits).
-/
import Manticore.Model.C02
import Manticore.Lemmas.C02Bits
import Manticore.Lemmas.C02Resp
namespace Manticore.C02
open Manticore Manticore.RExpr

/-! ### DES key parity expansion -/

/-- `ParityBit` on every byte value: 1 exactly when the number of one-bits is even (exhaustive) -/
theorem parity_bit_spec (b : UInt8) : parityBit b.toNat = if Spec.popcount b % 2 = 0 then 1 else 0 := by
  have : ∀ n : Fin 256, parityBit (UInt8.ofNat n.val).toNat = if Spec.popcount (UInt8.ofNat n.val) % 2 = 0 then 1 else 0 := by
    decide +kernel
  have h := this ⟨b.toNat, b.toNat_lt⟩
  simpa using h

/-- **ParityAdjust on a 7-byte key.**  The eight output octets carry, in their upper seven bits, exactly
    the 56 key bits in order (reading them back with the FIPS 46-3 layout returns the key), and every
    octet has odd parity. -/
theorem parity_adjust_spec (k0 k1 k2 k3 k4 k5 k6 : UInt8) :
    (parityAdjust [k0, k1, k2, k3, k4, k5, k6]).length = 8 ∧
    Spec.stripParity (parityAdjust [k0, k1, k2, k3, k4, k5, k6]) = [k0, k1, k2, k3, k4, k5, k6] ∧
    ∀ o ∈ parityAdjust [k0, k1, k2, k3, k4, k5, k6], Spec.oddParity o = true := by
  rw [parityAdjust7]
  refine ⟨rfl, ?_, ?_⟩
  · simp only [Spec.stripParity, List.flatMap_cons, List.flatMap_nil, (adjustByte_spec _ _ _ _ _ _ _).2,
      List.cons_append, List.nil_append, List.append_nil, Spec.pack8, pack_bits_of_byte]
  · intro o ho
    simp only [List.mem_cons, List.not_mem_nil, or_false] at ho
    rcases ho with rfl | rfl | rfl | rfl | rfl | rfl | rfl | rfl <;> exact (adjustByte_spec _ _ _ _ _ _ _).1


/-- **`createDesKey` (spnego/ntlm) = `ParityAdjust` (crypto/ntlmv1)** on every 7-byte input (after fix
    C02-createDesKey-parity; before it the parity of a group whose first bit is set was wrong). -/
theorem createDesKey_eq_parityAdjust (k0 k1 k2 k3 k4 k5 k6 : UInt8) :
    createDesKey [k0, k1, k2, k3, k4, k5, k6] = .ok (parityAdjust [k0, k1, k2, k3, k4, k5, k6]) :=
  createDesKey_eq k0 k1 k2 k3 k4 k5 k6

/-! ### NTLMv1 -/

/-- **whichever entry point computes it**: for every 16-byte hash and challenge, `NTLMv1.Hash`,
    `NTResponse`, `LMResponse` (on that hash) and `ntlm.desEncrypt` produce the same expression -/
theorem v1_paths_agree (hash chal : Bytes) (h : hash.length = 16) :
    ∃ e, v1Hash hash chal = .ok e ∧ ntResponse hash chal = .ok e ∧ lmResponse hash chal = .ok e ∧
      (chal.length = 8 → desEncrypt hash chal = .ok e) := by
  obtain ⟨a0,a1,a2,a3,a4,a5,a6,a7,a8,a9,a10,a11,a12,a13,a14,a15, rfl⟩ := len16 hash h
  refine ⟨_, v1Hash_eq .., ?_, response16_eq .., ?_⟩
  · simp only [ntResponse]; rw [if_neg (by simp)]; exact response16_eq ..
  · intro hc
    simp only [desEncrypt]
    rw [if_neg (by simp [hc])]
    have e1 : List.take 7 [a0,a1,a2,a3,a4,a5,a6,a7,a8,a9,a10,a11,a12,a13,a14,a15] = [a0,a1,a2,a3,a4,a5,a6] := rfl
    have e2 : List.take 7 (List.drop 7 [a0,a1,a2,a3,a4,a5,a6,a7,a8,a9,a10,a11,a12,a13,a14,a15]) = [a7,a8,a9,a10,a11,a12,a13] := rfl
    have e3 : List.drop 14 [a0,a1,a2,a3,a4,a5,a6,a7,a8,a9,a10,a11,a12,a13,a14,a15] ++ zeros 5 = [a14,a15,0,0,0,0,0] := rfl
    rw [e1, e2, e3, createDesKey_eq, createDesKey_eq, createDesKey_eq]
    rfl

/-- **NTLMv1 responses equal `DESL(hash, challenge)`** (MS-NLMP §6) for every 16-byte hash, every
    challenge and every DES that ignores the parity bits of its key (FIPS 46-3) -/
theorem v1_eq_DESL (P : Prims) (hP : Spec.DesIgnoresParity P) (hash chal : Bytes) (h : hash.length = 16) :
    ∃ e, response16 hash chal = .ok e ∧ eval P e = eval P (Spec.desl hash chal) := by
  obtain ⟨a0,a1,a2,a3,a4,a5,a6,a7,a8,a9,a10,a11,a12,a13,a14,a15, rfl⟩ := len16 hash h
  refine ⟨_, response16_eq .., ?_⟩
  simp only [des3, Spec.desl, eval_cat, eval_des, eval_des7, eval_lit, hP _ _, parity_adjust_strip]
  rfl

example : ∃ e, v1Hash [1,2,3,4,5,6,7,8,9,10,11,12,13,14,15,16] [1,2,3,4,5,6,7,8] = .ok e :=
  let ⟨e, h, _⟩ := v1_paths_agree [1,2,3,4,5,6,7,8,9,10,11,12,13,14,15,16] [1,2,3,4,5,6,7,8] rfl; ⟨e, h⟩

/-! ### NTLMv2 -/

/-- **NTLMv2 responses are accepted by the independent verifier** — `ntlmv2.NTLMv2.Hash` -/
theorem v2_accepted (P : Prims) (hL : Spec.HmacLen P) (pw user domain sc cc : Bytes) (ticks : Nat) (domain16 : Bytes) :
    Spec.verify P pw user domain sc (eval P (v2Hash pw user domain sc cc ticks domain16)) = true := by
  simp only [v2Hash, eval_cat, eval_hmac, eval_lit, ntowfv2_eq_spec]
  exact verify_of_shape P hL ..

/-- … and the NT and LM responses `ntlm.calculateNTLMv2Response` puts into the AUTHENTICATE message -/
theorem v2_accepted_ntlm (P : Prims) (hL : Spec.HmacLen P) (pw user domain sc ti : Bytes) (unixSecs : Nat)
    (cc lmcc : Bytes) (hlm : lmcc.length = 8) :
    Spec.verify P pw user domain sc (eval P (v2Response pw user domain sc ti unixSecs cc lmcc).2) = true ∧
    Spec.verifyLMv2 P pw user domain sc (eval P (v2Response pw user domain sc ti unixSecs cc lmcc).1) = true := by
  simp only [v2Response, proof, eval_cat, eval_hmac, eval_lit, ntowfv2_eq_spec]
  refine ⟨verify_of_shape P hL .., ?_⟩
  have h16 := hL (eval P (Spec.ntowfv2 pw user domain)) (sc ++ lmcc)
  simp only [Spec.verifyLMv2, Bool.and_eq_true, decide_eq_true_eq, beq_iff_eq]
  refine ⟨by simp [h16, hlm], ?_⟩
  rw [List.take_left' h16, List.drop_left' h16]

/-- the bytes after the first 16 of the response are the blob -/
theorem v2_response_blob (P : Prims) (hL : Spec.HmacLen P) (pw user domain sc cc : Bytes) (ticks : Nat) (domain16 : Bytes) :
    (eval P (v2Hash pw user domain sc cc ticks domain16)).drop 16 = v2Blob ticks cc domain16 := by
  simp only [v2Hash, eval_cat, eval_hmac, eval_lit]
  exact List.drop_left' (hL _ _)

/-- **the client blob is well-formed and carries the client challenge** — `ntlmv2.NTLMv2.Hash` -/
theorem v2_blob_wellformed (ticks : Nat) (cc domain16 : Bytes) (hcc : cc.length = 8)
    (ht : ticks + 116444736000000000 < 2^64) :
    Spec.blobWellFormed (v2Blob ticks cc domain16) cc = true := by
  obtain ⟨c0,c1,c2,c3,c4,c5,c6,c7, rfl⟩ := len8' cc hcc
  generalize hav : (if domain16.length > 0 ∧ domain16.length ≤ 0xFFFF
            then putLe16 0x0002 ++ putLe16 (UInt16.ofNat domain16.length) ++ domain16 else []) = av
  have havl : Spec.avList (av ++ [0, 0, 0, 0]) = true := by
    rw [← hav]
    split
    · rename_i h; exact avList_one_pair domain16 h.2
    · exact avList_eol
  generalize hts : UInt64.ofNat (ticks + 116444736000000000) = ts
  have htsv : ts.toNat = ticks + 116444736000000000 := by
    rw [← hts]; simp [UInt64.toNat_ofNat']; omega
  have hb : v2Blob ticks [c0,c1,c2,c3,c4,c5,c6,c7] domain16 =
      [1, 1, 0, 0, 0, 0, 0, 0] ++ (putLe64 ts ++ ([c0,c1,c2,c3,c4,c5,c6,c7] ++ ([0,0,0,0] ++ (av ++ ([0,0,0,0] ++ [0,0,0,0]))))) := by
    simp only [v2Blob, hav, hts]
    simp only [blobHeader, zeros, List.replicate, List.append_assoc]
  rw [hb]
  have hl : ([1, 1, 0, 0, 0, 0, 0, 0] ++ (putLe64 ts ++ ([c0,c1,c2,c3,c4,c5,c6,c7] ++ ([0,0,0,0] ++ (av ++ ([0,0,0,0] ++ [0,0,0,0])))))).length = 36 + av.length := by
    simp [putLe64]; omega
  simp only [Spec.blobWellFormed, hl, Bool.and_eq_true, decide_eq_true_eq, beq_iff_eq]
  refine ⟨⟨⟨⟨⟨⟨by omega, rfl⟩, ?_⟩, rfl⟩, rfl⟩, ?_⟩, ?_⟩
  · have : (List.drop 8 ([1, 1, 0, 0, 0, 0, 0, 0] ++ (putLe64 ts ++ ([c0,c1,c2,c3,c4,c5,c6,c7] ++ ([0,0,0,0] ++ (av ++ ([0,0,0,0] ++ [0,0,0,0]))))))).take 8 = putLe64 ts := rfl
    rw [this, leNat_putLe64, htsv]; simp [Spec.filetimeUnixEpoch]
  · have : (List.drop 28 ([1, 1, 0, 0, 0, 0, 0, 0] ++ (putLe64 ts ++ ([c0,c1,c2,c3,c4,c5,c6,c7] ++ ([0,0,0,0] ++ (av ++ ([0,0,0,0] ++ [0,0,0,0]))))))) = av ++ ([0,0,0,0] ++ [0,0,0,0]) := rfl
    rw [this, ← List.append_assoc, show 36 + av.length - 32 = (av ++ [0,0,0,0]).length by simp; omega, List.take_left]
    exact havl
  · have e : [1, 1, 0, 0, 0, 0, 0, 0] ++ (putLe64 ts ++ ([c0,c1,c2,c3,c4,c5,c6,c7] ++ ([0,0,0,0] ++ (av ++ ([0,0,0,0] ++ [0,0,0,0])))))
        = ([1, 1, 0, 0, 0, 0, 0, 0] ++ putLe64 ts ++ [c0,c1,c2,c3,c4,c5,c6,c7] ++ [0,0,0,0] ++ av ++ [0,0,0,0]) ++ [0,0,0,0] := by
      simp only [List.append_assoc]
    rw [e]
    exact List.drop_left' (by simp [putLe64]; omega)

/-- … and `ntlm.createNTLMv2Blob`, whenever the server's target info is a well-formed AV-pair list -/
theorem v2_blob_wellformed_ntlm (unixSecs : Nat) (cc ti : Bytes) (hcc : cc.length = 8) (hti : Spec.avList ti = true)
    (ht : (unixSecs + 11644473600) * 10000000 < 2^64) :
    Spec.blobWellFormed (createBlob unixSecs cc ti) cc = true := by
  obtain ⟨c0,c1,c2,c3,c4,c5,c6,c7, rfl⟩ := len8' cc hcc
  generalize hts : UInt64.ofNat ((unixSecs + 11644473600) * 10000000) = ts
  have htsv : ts.toNat = (unixSecs + 11644473600) * 10000000 := by
    rw [← hts]; simp [UInt64.toNat_ofNat']; omega
  have hb : createBlob unixSecs [c0,c1,c2,c3,c4,c5,c6,c7] ti =
      [1, 1, 0, 0, 0, 0, 0, 0] ++ (putLe64 ts ++ ([c0,c1,c2,c3,c4,c5,c6,c7] ++ ([0,0,0,0] ++ (ti ++ [0,0,0,0])))) := by
    simp only [createBlob, hts]
    simp only [blobHeader, zeros, List.replicate, List.append_assoc]
  rw [hb]
  have hl : ([1, 1, 0, 0, 0, 0, 0, 0] ++ (putLe64 ts ++ ([c0,c1,c2,c3,c4,c5,c6,c7] ++ ([0,0,0,0] ++ (ti ++ [0,0,0,0]))))).length = 32 + ti.length := by
    simp [putLe64]; omega
  have hti4 : 4 ≤ ti.length := by
    cases ti with
    | nil => simp [Spec.avList, Spec.avListLoop] at hti
    | cons a t1 => cases t1 with
      | nil => simp [Spec.avList, Spec.avListLoop] at hti
      | cons b t2 => cases t2 with
        | nil => simp [Spec.avList, Spec.avListLoop] at hti
        | cons c t3 => cases t3 with
          | nil => simp [Spec.avList, Spec.avListLoop] at hti
          | cons d t4 => simp
  simp only [Spec.blobWellFormed, hl, Bool.and_eq_true, decide_eq_true_eq, beq_iff_eq]
  refine ⟨⟨⟨⟨⟨⟨by omega, rfl⟩, ?_⟩, rfl⟩, rfl⟩, ?_⟩, ?_⟩
  · have : (List.drop 8 ([1, 1, 0, 0, 0, 0, 0, 0] ++ (putLe64 ts ++ ([c0,c1,c2,c3,c4,c5,c6,c7] ++ ([0,0,0,0] ++ (ti ++ [0,0,0,0])))))).take 8 = putLe64 ts := rfl
    rw [this, leNat_putLe64, htsv]; simp [Spec.filetimeUnixEpoch]; omega
  · have : (List.drop 28 ([1, 1, 0, 0, 0, 0, 0, 0] ++ (putLe64 ts ++ ([c0,c1,c2,c3,c4,c5,c6,c7] ++ ([0,0,0,0] ++ (ti ++ [0,0,0,0])))))) = ti ++ [0,0,0,0] := rfl
    rw [this, show 32 + ti.length - 32 = ti.length by omega, List.take_left]
    exact hti
  · have e : [1, 1, 0, 0, 0, 0, 0, 0] ++ (putLe64 ts ++ ([c0,c1,c2,c3,c4,c5,c6,c7] ++ ([0,0,0,0] ++ (ti ++ [0,0,0,0]))))
        = ([1, 1, 0, 0, 0, 0, 0, 0] ++ putLe64 ts ++ [c0,c1,c2,c3,c4,c5,c6,c7] ++ [0,0,0,0] ++ ti) ++ [0,0,0,0] := by
      simp only [List.append_assoc]
    rw [e]
    exact List.drop_left' (by simp [putLe64]; omega)

/-- **the exported hashcat line, re-parsed by hashcat's NetNTLMv2 field rules, verifies.**  For every
    password, user and domain without `:`, 8-byte server challenge: the line splits into the six fields,
    the hex fields decode, the parsed user / domain / server challenge are the supplied ones, the parsed
    NTProofStr is the HMAC-MD5 under NTOWFv2 of server challenge ‖ parsed blob, and the parsed blob is the
    well-formed client blob carrying the client challenge. -/
theorem hashcat_reparse_verifies (P : Prims) (hL : Spec.HmacLen P) (hH : Spec.HexLaw P)
    (pw user domain sc cc : Bytes) (ticks : Nat) (domain16 : Bytes)
    (hu : (58 : UInt8) ∉ user) (hd : (58 : UInt8) ∉ domain) (hsc : sc.length = 8) :
    ∃ l, Spec.parseHashcat (eval P (v2Hashcat pw user domain sc cc ticks domain16)) = some l ∧
      l.user = user ∧ l.domain = domain ∧ l.serverChallenge = sc ∧
      l.blob = v2Blob ticks cc domain16 ∧
      Spec.hashcatVerifies P pw l = true := by
  generalize hk : eval P (Spec.ntowfv2 pw user domain) = key
  generalize hb : v2Blob ticks cc domain16 = blob
  have h16 := hL key (sc ++ blob)
  have hline : eval P (v2Hashcat pw user domain sc cc ticks domain16) =
      user ++ 58 :: ([] ++ 58 :: (domain ++ 58 :: (P.hex sc ++ 58 :: (P.hex (P.hmacMd5 key (sc ++ blob)) ++ 58 :: P.hex blob)))) := by
    simp only [v2Hashcat, v2Hash, eval_cat, eval_hex, eval_take, eval_drop, eval_hmac, eval_lit, ntowfv2_eq_spec, hk, hb, colon]
    rw [List.take_left' h16, List.drop_left' h16]
    simp [List.append_assoc]
  have n1 := unhex_no_colon _ _ (hH sc)
  have n2 := unhex_no_colon _ _ (hH (P.hmacMd5 key (sc ++ blob)))
  have n3 := unhex_no_colon _ _ (hH blob)
  rw [hline]
  refine ⟨⟨user, domain, sc, P.hmacMd5 key (sc ++ blob), blob⟩, ?_, rfl, rfl, rfl, rfl, ?_⟩
  · simp only [Spec.parseHashcat]
    rw [splitOn_append 58 user _ hu, splitOn_append 58 [] _ (by simp), splitOn_append 58 domain _ hd,
      splitOn_append 58 _ _ n1, splitOn_append 58 _ _ n2, splitOn_no_sep 58 _ n3]
    simp [hH sc, hH blob, hH (P.hmacMd5 key (sc ++ blob)), hsc, h16]
  · simp [Spec.hashcatVerifies, hk]


/-- non-vacuity: an interpretation satisfying the three laws exists, and the hypotheses of the blob
    theorems are satisfiable -/
example : Spec.HmacLen demoPrims ∧ Spec.HexLaw demoPrims ∧ Spec.DesIgnoresParity demoPrims :=
  ⟨fun _ _ => rfl, unhex_hexEnc, fun _ _ => rfl⟩
example : Spec.avList [2, 0, 2, 0, 65, 0, 0, 0, 0, 0] = true := by decide
example : (1790000000 + 11644473600) * 10000000 < 2^64 := by decide

end Manticore.C02
