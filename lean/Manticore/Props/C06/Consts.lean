/-
  C06 — the bit layout of SMB_DATE, the format codes and offsets of SMB_STRING and the sizes and offsets of the fixed SMB
  types in the hand model are those of the current source.  `Gen/ConstsC06.lean` is regenerated on every run from
  network/smb/smb_v10/types and the FILETIME passthrough (tools/extract/consts_c06.go).
-/
import Manticore.Model.C06
import Manticore.Gen.ConstsC06
namespace Manticore.C06
open Manticore
open Manticore.Gen

open SmbDate in
-- `SMB_DATE.Marshal`: `(Year-1980)<<9 | Month<<5 | Day`
theorem consts_match_model_date_pack (d : SmbDate.V) :
    SmbDate.pack d =
    (
      ((d.year - UInt16.ofNat ConstsC06.date_year_base) <<< UInt16.ofNat ConstsC06.date_year_shift) ||| (d.month.toUInt16 <<< UInt16.ofNat ConstsC06.date_month_shift) ||| d.day.toUInt16) := by exact rfl

open SmbDate in
-- `SMB_DATE.Unmarshal`: the three masks, the two shifts, the base year
theorem consts_match_model_date_unpack (w : UInt16) :
    SmbDate.unpack w =
    (
      ⟨((w &&& UInt16.ofNat ConstsC06.date_uyear_mask) >>> UInt16.ofNat ConstsC06.date_uyear_shift) + UInt16.ofNat ConstsC06.date_ubase_base, ((w &&& UInt16.ofNat ConstsC06.date_umonth_mask) >>> UInt16.ofNat ConstsC06.date_umonth_shift).toUInt8, (w &&& UInt16.ofNat ConstsC06.date_uday_mask).toUInt8⟩) := by exact rfl

open SmbDate in
-- `SMB_DATE.Unmarshal`: minimum length and bytes consumed
theorem consts_match_model_date_decode (b : Bytes) :
    SmbDate.decode b =
    (
      if b.length < ConstsC06.date_minLen then .err
      else
        match rdLe16 b 0 with
        | .ok w => .ok (unpack w, ConstsC06.date_consumed)
        | .err => .err
        | .panic => .panic) := by exact rfl

theorem consts_match_model_date_layout :
    ConstsC06.date_put_le = true ∧ ConstsC06.date_read_le = true ∧ ConstsC06.date_read_hi = 2
      ∧ ConstsC06.date_value_shape = "(| (| valueYear valueMonth) valueDay)" := ⟨rfl, rfl, rfl, rfl⟩

open SmbString in
-- `SMB_STRING.Marshal`: which format code takes which layout
theorem consts_match_model_string_marshal (s : SmbString.V) :
    SmbString.marshal s =
    (
      if s.format = UInt8.ofNat ConstsC06.str_fmt1 ∨ s.format = UInt8.ofNat ConstsC06.str_fmt5 then
        if s.buffer.length > 65535 then .err
        else
          let len := UInt16.ofNat s.buffer.length
          .ok (s.format :: (putLe16 len ++ s.buffer), { s with length := len })
      else if s.format = UInt8.ofNat ConstsC06.str_fmt2 ∨ s.format = UInt8.ofNat ConstsC06.str_fmt4 then
        .ok (s.format :: (s.buffer ++ [0]), s)
      else if s.format = UInt8.ofNat ConstsC06.str_fmt3 then
        if s.buffer.length > 65535 then .err
        else
          let len := UInt16.ofNat s.buffer.length
          .ok (s.format :: (putLe16 len ++ s.buffer ++ [0]), { s with length := len })
      else .err) := by exact rfl

-- `SMB_STRING.Marshal`: what each case appends, in order (format, 16-bit length, bytes, terminator) and the length limit
theorem consts_match_model_string_marshal_order :
    [ConstsC06.str_m1_appends, ConstsC06.str_m2_appends, ConstsC06.str_m3_appends, ConstsC06.str_m4_appends, ConstsC06.str_m5_appends]
      = [["s.BufferFormat", "buf2", "s.Buffer"], ["s.BufferFormat", "s.Buffer", "0x00"], ["s.BufferFormat", "buf2", "s.Buffer", "0x00"],
         ["s.BufferFormat", "s.Buffer", "0x00"], ["s.BufferFormat", "buf2", "s.Buffer"]]
      ∧ ConstsC06.str_tooLong_shape = "(> (len s.Buffer) math.MaxUint16)" := ⟨rfl, rfl⟩

open SmbString in
-- the length-prefixed formats of `SMB_STRING.Unmarshal`: minimum length 3, the length at [1:3], the body from 3
theorem consts_match_model_string_decodeCounted (f : UInt8) (b : Bytes) (extra : Nat) :
    SmbString.decodeCounted f b extra =
    (
      if b.length < ConstsC06.str_f1_minLen then .err
      else
        match rdLe16 b ConstsC06.str_f1_len_lo with
        | .ok len =>
          if b.length < len.toNat + ConstsC06.str_f1_need_base + extra then .err
          else
            match slice b ConstsC06.str_f1_copy_lo (ConstsC06.str_f1_copy_base + len.toNat) with
            | .ok buf => .ok (⟨f, len, buf⟩, len.toNat + ConstsC06.str_f1_consumed_base + extra)
            | .err => .err
            | .panic => .panic
        | .err => .err
        | .panic => .panic) := by exact rfl

-- the three length-prefixed cases use the same numbers; format 3 additionally counts its terminator (`extra = 1`)
theorem consts_match_model_string_counted_alike :
    [ConstsC06.str_f3_minLen, ConstsC06.str_f3_len_lo, ConstsC06.str_f3_len_hi, ConstsC06.str_f3_need_base, ConstsC06.str_f3_copy_lo,
     ConstsC06.str_f3_copy_base, ConstsC06.str_f3_consumed_base]
      = [ConstsC06.str_f1_minLen, ConstsC06.str_f1_len_lo, ConstsC06.str_f1_len_hi, ConstsC06.str_f1_need_base, ConstsC06.str_f1_copy_lo,
         ConstsC06.str_f1_copy_base, ConstsC06.str_f1_consumed_base]
      ∧ [ConstsC06.str_f5_minLen, ConstsC06.str_f5_len_lo, ConstsC06.str_f5_len_hi, ConstsC06.str_f5_need_base, ConstsC06.str_f5_copy_lo,
         ConstsC06.str_f5_copy_base, ConstsC06.str_f5_consumed_base]
      = [ConstsC06.str_f1_minLen, ConstsC06.str_f1_len_lo, ConstsC06.str_f1_len_hi, ConstsC06.str_f1_need_base, ConstsC06.str_f1_copy_lo,
         ConstsC06.str_f1_copy_base, ConstsC06.str_f1_consumed_base]
      ∧ [ConstsC06.str_f3_need_extra, ConstsC06.str_f3_consumed_extra] = [1, 1]
      ∧ ConstsC06.str_f1_len_hi = ConstsC06.str_f1_len_lo + 2
      ∧ [ConstsC06.str_f1_len_le, ConstsC06.str_f3_len_le, ConstsC06.str_f5_len_le] = [true, true, true] := by decide

open SmbString in
-- the NUL-terminated formats: the scan starts at 1, the body is `[1:nullPos]`, `nullPos+1` bytes are consumed
theorem consts_match_model_string_decodeTerminated (f : UInt8) (b : Bytes) :
    SmbString.decodeTerminated f b =
    (
      match nulIndex (b.drop ConstsC06.str_f2_scanFrom) with
      | none => .err
      | some i =>
        let nullPos := i + ConstsC06.str_f2_scanFrom
        match slice b ConstsC06.str_f2_copy_lo nullPos with
        | .ok buf => .ok (⟨f, UInt16.ofNat buf.length, buf⟩, nullPos + ConstsC06.str_f2_consumed_plus)
        | .err => .err
        | .panic => .panic) := by exact rfl

theorem consts_match_model_string_terminated_alike :
    [ConstsC06.str_f4_scanFrom, ConstsC06.str_f4_terminator, ConstsC06.str_f4_copy_lo, ConstsC06.str_f4_consumed_plus, ConstsC06.str_f4_make_minus]
      = [ConstsC06.str_f2_scanFrom, ConstsC06.str_f2_terminator, ConstsC06.str_f2_copy_lo, ConstsC06.str_f2_consumed_plus, ConstsC06.str_f2_make_minus]
      ∧ ConstsC06.str_f2_terminator = 0 ∧ ConstsC06.str_f2_make_minus = ConstsC06.str_f2_copy_lo := by decide

open SmbString in
-- `SMB_STRING.Unmarshal`: the dispatch on the format byte
theorem consts_match_model_string_decode (b : Bytes) :
    SmbString.decode b =
    (
      if b.length < ConstsC06.str_minLen then .err
      else
        match index b ConstsC06.str_formatIdx with
        | .ok f =>
          if f = UInt8.ofNat ConstsC06.str_fmt1 then decodeCounted f b 0
          else if f = UInt8.ofNat ConstsC06.str_fmt2 then decodeTerminated f b
          else if f = UInt8.ofNat ConstsC06.str_fmt3 then decodeCounted f b ConstsC06.str_f3_need_extra
          else if f = UInt8.ofNat ConstsC06.str_fmt4 then decodeTerminated f b
          else if f = UInt8.ofNat ConstsC06.str_fmt5 then decodeCounted f b 0
          else .err
        | .err => .err
        | .panic => .panic) := by exact rfl

theorem consts_match_model_string_formats :
    ConstsC06.str_formats = [1, 2, 3, 4, 5]
      ∧ ConstsC06.str_caseOrder
        = ["SMB_STRING_BUFFER_FORMAT_VARIABLE_BLOCK_16BIT", "SMB_STRING_BUFFER_FORMAT_NULL_TERMINATED_OEM_STRING",
           "SMB_STRING_BUFFER_FORMAT_NULL_TERMINATED_OEM_STRING_16BIT", "SMB_STRING_BUFFER_FORMAT_NULL_TERMINATED_ASCII_STRING",
           "SMB_STRING_BUFFER_FORMAT_VARIABLE_BLOCK"] := ⟨by decide, rfl⟩

open ResumeKey in
-- `SMB_RESUME_KEY.Unmarshal`: 21 bytes = reserved [0], server state [1:17], client state [17:21]
theorem consts_match_model_resumeKey_decode (b : Bytes) :
    ResumeKey.decode b =
    (
      match SmbString.decode b with
      | .ok (s, n) =>
        if s.buffer.length < ConstsC06.rk_minBuffer then .err
        else
          match index s.buffer ConstsC06.rk_reservedIdx, slice s.buffer ConstsC06.rk_server_lo ConstsC06.rk_server_hi, slice s.buffer ConstsC06.rk_client_lo ConstsC06.rk_client_hi with
          | .ok r, .ok ss, .ok cs => .ok (⟨s, r, ss, cs⟩, n)
          | .panic, _, _ => .panic
          | _, .panic, _ => .panic
          | _, _, .panic => .panic
          | _, _, _ => .err
      | .err => .err
      | .panic => .panic) := by exact rfl

open DirInfo in
-- `SMB_DIRECTORY_INFORMATION.Marshal`: names are padded to 12 bytes
theorem consts_match_model_dirInfo_padName (n : Bytes) :
    DirInfo.padName n =
    (
    n ++ List.replicate (ConstsC06.dir_namePad_to - n.length) (UInt8.ofNat 32)) := by exact rfl

theorem consts_match_model_dirInfo_name :
    ConstsC06.dir_namePadWith = [32] ∧ ConstsC06.dir_namePadBelow = ConstsC06.dir_namePad_to ∧ ConstsC06.dir_nameMax = ConstsC06.dir_namePad_to
      ∧ ConstsC06.dir_nameSlice_len = ConstsC06.dir_namePad_to + 2 := by decide

open DirInfo in
-- `SMB_DIRECTORY_INFORMATION.Unmarshal`: the length checks and windows of date (2), size (4) and name (14)
theorem consts_match_model_dirInfo_decode (data : Bytes) :
    DirInfo.decode data =
    (
    do
      let offset := 0
      let d0 ← sliceFrom data offset
      let (rk, n) ← ResumeKey.decode d0
      let offset := offset + n
      if offset ≥ data.length then .err else
      let attr ← index data offset
      let offset := offset + 1
      if offset + ConstsC06.dir_timeNeeds > data.length then .err else
      let d1 ← sliceFrom data offset
      let (t, n) ← FileTime.decode d1
      let offset := offset + n
      if offset + ConstsC06.dir_dateNeeds > data.length then .err else
      let d2 ← slice data offset (offset + ConstsC06.dir_dateSlice_len)
      let (dt, n) ← SmbDate.decode d2
      let offset := offset + n
      if offset + ConstsC06.dir_sizeNeeds > data.length then .err else
      let size ← rdLe32 data offset
      let offset := offset + ConstsC06.dir_size_len
      if offset + ConstsC06.dir_nameNeeds > data.length then .err else
      let d3 ← slice data offset (offset + ConstsC06.dir_nameSlice_len)
      let (fn, n) ← OemString.decode d3
      let offset := offset + n
      pure (⟨rk, attr, t, dt, size, fn⟩, offset)) := by exact rfl

open Range32 in
-- `LOCKING_ANDX_RANGE32.Unmarshal`: 10 bytes = PID [0:2], offset [2:6], length [6:10]
theorem consts_match_model_range32_decode (b : Bytes) :
    Range32.decode b =
    (
      if b.length < ConstsC06.r32_minLen then .err
      else
        match rdLe16 b ConstsC06.r32_pid_lo, rdLe32 b ConstsC06.r32_offset_lo, rdLe32 b ConstsC06.r32_length_lo with
        | .ok p, .ok o, .ok l => .ok (⟨p, o, l⟩, ConstsC06.r32_length_hi)
        | .panic, _, _ => .panic
        | _, .panic, _ => .panic
        | _, _, .panic => .panic
        | _, _, _ => .err) := by exact rfl

open FileTime in
-- `FILETIME.Unmarshal`: 8 bytes = low [0:4], high [4:8]
theorem consts_match_model_fileTime_decode (b : Bytes) :
    FileTime.decode b =
    (
      if b.length < ConstsC06.ft_minLen then .err
      else
        match rdLe32 b ConstsC06.ft_lo_from, rdLe32 b ConstsC06.ft_hi_from with
        | .ok lo, .ok hi => .ok (⟨lo, hi⟩, ConstsC06.ft_consumed)
        | .panic, _ => .panic
        | _, .panic => .panic
        | _, _ => .err) := by exact rfl

open FileAttributes in
-- `SMB_FILE_ATTRIBUTES.Unmarshal`: minimum length
theorem consts_match_model_fileAttributes_decode (b : Bytes) :
    FileAttributes.decode b =
    (
      if b.length < ConstsC06.fa_minLen then .err
      else
        match rdBe16 b 0 with
        | .ok w => .ok (⟨w⟩, 2)
        | .err => .err
        | .panic => .panic) := by exact rfl

-- widths and byte orders of the fixed types: little-endian everywhere except SMB_FILE_ATTRIBUTES, which the code reads
-- and writes big-endian
theorem consts_match_model_byte_orders :
    ConstsC06.r32_anyBig = false ∧ ConstsC06.ft_anyBig = false ∧ ConstsC06.fa_le = false ∧ ConstsC06.dir_size_le = true
      ∧ [ConstsC06.r32_pid_hi - ConstsC06.r32_pid_lo, ConstsC06.r32_offset_hi - ConstsC06.r32_offset_lo,
         ConstsC06.r32_length_hi - ConstsC06.r32_length_lo, ConstsC06.ft_lo_to - ConstsC06.ft_lo_from, ConstsC06.ft_hi_to - ConstsC06.ft_hi_from]
        = [2, 4, 4, 4, 4]
      ∧ rdLe16 [0x12, 0x34] 0 = .ok 0x3412 ∧ rdBe16 [0x12, 0x34] 0 = .ok 0x1234 ∧ rdLe32 [0x12, 0x34, 0x56, 0x78] 0 = .ok 0x78563412 := by
  decide

theorem consts_match_model_encode_orders :
    ConstsC06.r32_encode = ["16l:uint16(l.PID)@result[0:2]", "32l:uint32(l.ByteOffset)@result[2:6]", "32l:uint32(l.LengthInBytes)@result[6:10]"]
      ∧ ConstsC06.fa_encode = ["16b:s.Attributes"] ∧ ConstsC06.ft_encode = ["32l:ft.DwLowDateTime", "32l:ft.DwHighDateTime"] :=
  ⟨rfl, rfl, rfl⟩

end Manticore.C06
