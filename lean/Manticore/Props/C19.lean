/-
  C19 — Flag words decompose faithfully and every named constant has a unique name.

  Property theorems only; they live in four files imported here:
    Props/C19/Generic.lean   for ALL tables and words: `decompose_sound_complete`,
                             `decompose_each_set_bit_exactly_once`, `predicate_depends_only_on_its_bit`,
                             `sorted_decomposition_independent_of_iteration_order`,
                             `sorted_decomposition_is_sorted_names`, `error_text_mentions_code`
    Props/C19/Flags.lean     the generated flag families (decided side conditions + consequences)
    Props/C19/Codes.lean     the generated code → name tables
    Props/C19/NtStatus.lean  the generated NT status tables (~1 800 rows) and `Error()`
  Model and spec: `Model/C19.lean`; helper lemmas: `Lemmas/C19.lean`; tables: `Gen/C19*.lean` (regenerated
  from /repo on every run; this file does not build if one of them cannot be regenerated).
-/
import Manticore.Props.C19.Generic
import Manticore.Props.C19.Flags
import Manticore.Props.C19.Codes
import Manticore.Props.C19.NtStatus
namespace Manticore.C19
open Manticore

/-- **userAccountControl: the result does not depend on Go's map iteration order.**  For every generated
    family whose decomposition ranges over a map and sorts (userAccountControl), for every visiting order
    of the map entries and every word: the collected names are the sorted names of the set bits, and
    `String()` / `GetFlags()` equal what the source-order visit gives. -/
theorem map_ranged_decomposition_is_order_independent :
    ∀ f ∈ Gen.families, f.sorted = true → ∀ order : List FlagRow, order.Perm f.rows → ∀ w : Nat,
      sortNames (decompose order w) = sortNames ((f.rows.filter (bitSet w)).map (·.name)) ∧
      f.stringIn order w = f.string w ∧ Family.getFlagsIn order w = Family.getFlagsIn f.rows w := by
  intro f hf hs order hp w
  have h := sorted_decomposition_independent_of_iteration_order f hs order hp w
  exact ⟨sorted_decomposition_is_sorted_names (flag_tables_single_bit_distinct f hf) order hp w, h.2.1, h.2.2⟩

/-- non-vacuity: userAccountControl is such a family, with its 22 named bits -/
example : ∃ f ∈ Gen.families, f.sorted = true ∧ f.rows.length = 22 :=
  ⟨Gen.famUserAccountControl, by simp [Gen.families], by decide +kernel, by decide +kernel⟩

end Manticore.C19
