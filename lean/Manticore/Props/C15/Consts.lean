/-
  C15 — the numbers of the hand model are the numbers of the current source.

  `Gen/ConstsC15.lean` is regenerated on every run from the Go functions named in `Model/C15.lean`
  (tools/extract/consts_c15.go): epoch constants, tick scales, masks and shift amounts, each read off
  the expression that uses it.  Every theorem below restates one model function with the regenerated
  numbers in place of its literals and is closed by `rfl`: a changed constant in the source changes the
  right-hand side and the theorem named after the function fails.
-/
import Manticore.Model.C15
import Manticore.Gen.ConstsC15
namespace Manticore.C15
open Manticore
open Manticore.Gen

/-- days since 1970-01-01 of a proleptic Gregorian date (years ≥ 1), the usual era/day-of-era count -/
def daysFromCivil (y m d : Nat) : Int :=
  let y' := if m ≤ 2 then y - 1 else y
  let era := y' / 400
  let yoe := y' - era * 400
  let mp := if m > 2 then m - 3 else m + 9
  let doy := (153 * mp + 2) / 5 + d - 1
  let doe := yoe * 365 + yoe / 4 - yoe / 100 + doy
  (era * 146097 + doe : Nat) - 719468

/-- seconds between the two `time.Date(y, m, d, 0, 0, 0, 0, UTC)` calls of `NewDateTime` -/
def kcSecondsBetween : Int :=
  match ConstsC15.kc_epoch1601_date, ConstsC15.kc_unixEpoch_date with
  | [y0, m0, d0, 0, 0, 0, 0], [y1, m1, d1, 0, 0, 0, 0] =>
    (daysFromCivil y1 m1 d1 - daysFromCivil y0 m0 d0) * 86400 * 1000000000 / ConstsC15.kc_secondsBetween_nsPerSec
  | _, _ => 0

/-- what `ConvertFromBinaryTime` returns for a stored zero: `DateTime{Ticks: t, Time: time.Date(y, m, d, 0, 0, 0, 0, UTC)}` -/
def kcZeroDate : Option (Outcome KcTime) :=
  match ConstsC15.kc_fromBinary_zeroDate with
  | [t, y, m, d, 0, 0, 0, 0] => some (.ok (.at (UInt64.ofNat t) (Int64.ofInt (daysFromCivil y m d * 86400)) 0))
  | _ => none

-- the three declarations of the 1601 epoch in ticks agree, and are the model's `epochTicks` and the spec's `sec1601`
theorem consts_match_model_epoch1601 :
    epochTicks = Int64.ofNat ConstsC15.ft_epoch ∧ ConstsC15.ldap_epoch = ConstsC15.ft_epoch
      ∧ Spec.sec1601 * 10000000 = ConstsC15.ft_epoch ∧ Spec.sec1601 = ConstsC15.kc_toBinary_sec1601
      ∧ Spec.sec1601 = kcSecondsBetween := by decide

-- `UUIDv1Epoch` = `UUIDv2Epoch` = the model's `uuidEpoch` = the spec's `sec1582` in ticks = 0x01B21DD213814000
theorem consts_match_model_epoch1582 :
    uuidEpoch = UInt64.ofNat ConstsC15.uuid1_epoch ∧ ConstsC15.uuid2_epoch = ConstsC15.uuid1_epoch
      ∧ Spec.sec1582 * 10000000 = ConstsC15.uuid1_epoch ∧ ConstsC15.uuid1_epoch = 0x01B21DD213814000 := by decide

-- `NewFILETIMEFromTime`: scale, sub-second divisor, epoch
theorem consts_match_model_filetimeOfTime (sec nsec : Int64) :
    filetimeOfTime sec nsec
      = sec * Int64.ofNat ConstsC15.ftNew_mul + nsec / Int64.ofNat ConstsC15.ftNew_div + Int64.ofNat ConstsC15.ftNew_epoch := by exact rfl

-- `NewFILETIMEFromTime`: masks and shift of the two halves
theorem consts_match_model_filetimeSplit (value : Int64) :
    filetimeSplit value
      = ((value &&& Int64.ofNat ConstsC15.ftNew_lo_mask).toUInt64.toUInt32,
         ((value >>> Int64.ofNat ConstsC15.ftNew_hi_shift) &&& Int64.ofNat ConstsC15.ftNew_hi_mask).toUInt64.toUInt32) := by exact rfl

-- `ToInt64`: masks, shift, and the nesting of `&`, `<<`, `|` in the source expression
theorem consts_match_model_filetimeToInt64 (lo hi : UInt32) :
    filetimeToInt64 lo hi
      = ((hi.toUInt64.toInt64 &&& Int64.ofNat ConstsC15.ftToInt64_himask) <<< Int64.ofNat ConstsC15.ftToInt64_shift)
          ||| (lo.toUInt64.toInt64 &&& Int64.ofNat ConstsC15.ftToInt64_lomask) := by exact rfl

theorem consts_match_model_filetimeToInt64_shape :
    ConstsC15.ftToInt64_shape
      = "(| (<< (& (int64 ft.DwHighDateTime) 4294967295) 32) (& (int64 ft.DwLowDateTime) 4294967295))" := by exact rfl

-- `GetTime`
theorem consts_match_model_filetimeGetTime (ticks : Int64) :
    filetimeGetTime ticks
      = goUnix (ticks / Int64.ofNat ConstsC15.ftGetTime_div - Int64.ofNat ConstsC15.ftGetTime_epoch / Int64.ofNat ConstsC15.ftGetTime_epochdiv)
          ((ticks % Int64.ofNat ConstsC15.ftGetTime_mod) * Int64.ofNat ConstsC15.ftGetTime_mul) := by exact rfl

theorem consts_match_model_filetimeGetTime_shape :
    ConstsC15.ftGetTime_shape
      = "(time.Unix (- (/ ticks 10000000) (/ 116444736000000000 10000000)) (* (% ticks 10000000) 100))" := by exact rfl

-- `strconv.ParseInt(value, 10, 64)`: base and width
theorem consts_match_model_parseInt64 (s : Bytes) :
    parseInt64 s =
      match s with
      | [] => none
      | c :: rest =>
        let neg := c == 45
        let digits := if c == 43 || c == 45 then rest else s
        match C20.parseUint ConstsC15.ldapParse_base ConstsC15.ldapParse_bits digits with
        | none => none
        | some un =>
          if !neg && un ≥ 2 ^ (ConstsC15.ldapParse_bits - 1) then none
          else if neg && un > 2 ^ (ConstsC15.ldapParse_bits - 1) then none
          else some (if neg then Int64.ofInt (-(un : Int)) else Int64.ofInt un) := by
  cases s <;> rfl

-- `ConvertLDAPTimeStampToUnixTimeStamp`: clamp bound, epoch, divisor
theorem consts_match_model_ldapToUnix (value : Bytes) :
    ldapToUnix value =
      if value.length ≠ 0 then
        match parseInt64 value with
        | none => 0
        | some v =>
          if v < Int64.ofNat ConstsC15.ldapToUnix_clampBelow then 0
          else (v - Int64.ofNat ConstsC15.ldapToUnix_epoch) / Int64.ofNat ConstsC15.ldapToUnix_div
      else 0 := by exact rfl

theorem consts_match_model_ldapToUnix_shape :
    ConstsC15.ldapToUnix_shape = "(/ (- valueInt 116444736000000000) (int64 10000000))" := by exact rfl

-- `ConvertUnixTimeStampToLDAPTimeStamp`
theorem consts_match_model_unixToLdap (sec : Int64) :
    unixToLdap sec = sec * Int64.ofNat ConstsC15.unixToLdap_mul + Int64.ofNat ConstsC15.unixToLdap_add_epoch := by exact rfl

-- `ConvertLDAPDurationToSeconds`
theorem consts_match_model_ldapDurationToSeconds (value : Bytes) :
    ldapDurationToSeconds value =
      if value.length ≠ 0 then
        match parseInt64 value with
        | none => 0
        | some v =>
          let q := v / Int64.ofNat ConstsC15.ldapDuration_div
          if q < 0 then -q else q
      else 0 := by exact rfl

-- `ConvertSecondsToLDAPDuration`
theorem consts_match_model_secondsToLdapDuration (v : Int64) :
    secondsToLdapDuration v = showInt64 (v * Int64.ofNat ConstsC15.secToLdapDuration_mul) := by exact rfl

-- `NewDateTime`: the epoch difference computed from the two `time.Date` calls, divisor, modulus, scale
theorem consts_match_model_newDateTime (ticks : UInt64) :
    newDateTime ticks =
      if ticks == 0 then .now
      else
        let t := goUnix ((ticks / UInt64.ofNat ConstsC15.kc_newDateTime_div).toInt64 - Int64.ofInt kcSecondsBetween)
                   ((ticks % UInt64.ofNat ConstsC15.kc_newDateTime_mod).toInt64 * Int64.ofNat ConstsC15.kc_newDateTime_mul)
        .at ticks t.1 t.2 := by exact rfl

-- `ConvertFromBinaryTime`: 64-bit little-endian read; a stored zero is the date literal 1601-01-01
theorem consts_match_model_convertFromBinaryTime :
    ConstsC15.kc_fromBinary_width = 64
      ∧ convertFromBinaryTime [1, 0, 0, 0, 0, 0, 0, 0]
          = .ok (newDateTime (if ConstsC15.kc_fromBinary_le then 1 else 0x0100000000000000))
      ∧ kcZeroDate = some (convertFromBinaryTime [0, 0, 0, 0, 0, 0, 0, 0]) := by decide

-- `ConvertToBinaryTime`
theorem consts_match_model_binaryTimeTicks (sec nsec : Int64) :
    binaryTimeTicks sec nsec
      = (sec + Int64.ofNat ConstsC15.kc_toBinary_sec1601).toUInt64 * UInt64.ofNat ConstsC15.kc_toBinary_mul
          + (nsec / Int64.ofNat ConstsC15.kc_toBinary_div).toUInt64 := by exact rfl

theorem consts_match_model_binaryTimeTicks_shape :
    ConstsC15.kc_toBinary_shape
      = "(+ (* (uint64 (+ (date.Unix) 11644473600)) 10000000) (uint64 (/ (date.Nanosecond) 100)))" := by exact rfl

-- `UUIDv1.GetTime` and `UUIDv2.GetTime`
theorem consts_match_model_uuidGetTime (ts : UInt64) :
    uuidGetTime ts
        = goUnix ((ts / UInt64.ofNat ConstsC15.uuid1_getTime_div).toInt64
                    - (UInt64.ofNat ConstsC15.uuid1_getTime_epoch / UInt64.ofNat ConstsC15.uuid1_getTime_epochdiv).toInt64)
            ((ts % UInt64.ofNat ConstsC15.uuid1_getTime_mod).toInt64 * Int64.ofNat ConstsC15.uuid1_getTime_mul)
      ∧ uuidGetTime ts
        = goUnix ((ts / UInt64.ofNat ConstsC15.uuid2_getTime_div).toInt64
                    - (UInt64.ofNat ConstsC15.uuid2_getTime_epoch / UInt64.ofNat ConstsC15.uuid2_getTime_epochdiv).toInt64)
            ((ts % UInt64.ofNat ConstsC15.uuid2_getTime_mod).toInt64 * Int64.ofNat ConstsC15.uuid2_getTime_mul) := ⟨rfl, rfl⟩

theorem consts_match_model_uuidGetTime_shape :
    ConstsC15.uuid1_getTime_shape
        = "(time.Unix (- (int64 (/ timestamp 10000000)) (int64 (/ 122192928000000000 10000000))) (* (int64 (% timestamp 10000000)) 100))"
      ∧ ConstsC15.uuid2_getTime_shape = ConstsC15.uuid1_getTime_shape := ⟨rfl, rfl⟩

-- `UUIDv1.SetTime` and `UUIDv2.SetTime`
theorem consts_match_model_uuidSetTime (sec nsec : Int64) :
    uuidSetTime sec nsec
        = (sec + (UInt64.ofNat ConstsC15.uuid1_setTime_epoch / UInt64.ofNat ConstsC15.uuid1_setTime_epochdiv).toInt64).toUInt64
              * UInt64.ofNat ConstsC15.uuid1_setTime_mul + (nsec / Int64.ofNat ConstsC15.uuid1_setTime_div).toUInt64
      ∧ uuidSetTime sec nsec
        = (sec + (UInt64.ofNat ConstsC15.uuid2_setTime_epoch / UInt64.ofNat ConstsC15.uuid2_setTime_epochdiv).toInt64).toUInt64
              * UInt64.ofNat ConstsC15.uuid2_setTime_mul + (nsec / Int64.ofNat ConstsC15.uuid2_setTime_div).toUInt64 := ⟨rfl, rfl⟩

theorem consts_match_model_uuidSetTime_shape :
    ConstsC15.uuid1_setTime_shape
        = "(+ (* (uint64 (+ (t.Unix) (int64 (/ 122192928000000000 10000000)))) 10000000) (uint64 (/ (t.Nanosecond) 100)))"
      ∧ ConstsC15.uuid2_setTime_shape = ConstsC15.uuid1_setTime_shape := ⟨rfl, rfl⟩

end Manticore.C15
