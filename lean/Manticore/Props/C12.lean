/-
  C12 — RC4, CMAC, PKCS#7 and GPP-AES match their standards and invert each other.
  Property theorems only.  Models and specifications: `Manticore/Model/C12.lean`;
  helper lemmas: `Manticore/Lemmas/C12*.lean`.
-/
import Manticore.Model.C12
import Manticore.Lemmas.C12RC4
import Manticore.Lemmas.C12CMAC
import Manticore.Lemmas.C12Subkeys
import Manticore.Lemmas.C12PKCS7
import Manticore.Lemmas.C12Prim
import Manticore.Lemmas.C12GPP
namespace Manticore.C12
open Manticore

/-! ## RC4 -/
section RC4
open RC4

/-- `NewRC4WithKey` accepts exactly the key sizes 1..256 (anything else is a `KeySizeError`, never a panic). -/
theorem rc4_key_size (key : Bytes) :
    (∃ st, newWithKey key = .ok st) ↔ (1 ≤ key.length ∧ key.length ≤ 256) := by
  unfold newWithKey
  split
  · constructor
    · rintro ⟨st, h⟩; cases h
    · intro h; omega
  · constructor
    · intro _; omega
    · intro _; exact ⟨_, rfl⟩

/-- **RC4 = textbook RC4, one call.**  For every key of 1..256 bytes and every message, the KSA followed by the
    PRGA loop of `XORKeyStream` produces exactly the standard cipher (naturals mod 256, keystream xor data). -/
theorem rc4_eq_spec (key : Bytes) (hk : 1 ≤ key.length ∧ key.length ≤ 256) (data : Bytes) :
    ∃ st, newWithKey key = .ok st ∧ (xorKeyStream st data).2 = Spec.rc4 key hk.1 data := by
  refine ⟨⟨ksa key hk.1, 0, 0⟩, ?_, ?_⟩
  · unfold newWithKey; rw [dif_neg (by omega)]
  · rw [prga_sim]
    simp only [Spec.rc4, Spec.keystream, ksa_eq_spec]
    rfl

/-- **Every split.**  Encrypting `a ++ b` in one call is the same as encrypting `a`, then `b` with the state the
    first call left behind — for every state (hence every key) and every split point. -/
theorem rc4_xor_chunking (st : State) (a b : Bytes) :
    xorKeyStream st (a ++ b) =
      ((xorKeyStream (xorKeyStream st a).1 b).1, (xorKeyStream st a).2 ++ (xorKeyStream (xorKeyStream st a).1 b).2) := by
  induction a generalizing st with
  | nil => rfl
  | cons v rest ih => simp only [List.cons_append, xorKeyStream, ih]

private theorem legal_eq (sl dl : Nat) (rel : Option Int) :
    Spec.legalCall sl dl rel = (!(decide (dl < sl)) && !(decide (sl > 0) && overlaps sl dl rel)) := by
  rw [Bool.eq_iff_iff]
  cases rel with
  | none => simp [Spec.legalCall, overlaps]
  | some d => simp [Spec.legalCall, overlaps] <;> omega

/-- The guards of `XORKeyStream`: a call returns normally iff it respects the documented contract
    (dst not shorter than src; dst and src identical or disjoint), and panics otherwise — before any state
    change (`run` keeps the state on a panic by construction of the model, which mirrors the code order). -/
theorem rc4_guard (st : State) (c : Call) :
    xorKeyStreamGo st c =
      if Spec.legalCall c.src.length c.dstLen c.rel then .ok (xorKeyStream st c.src) else .panic := by
  unfold xorKeyStreamGo
  rw [legal_eq]
  by_cases h1 : c.dstLen < c.src.length
  · simp [h1]
  · by_cases h2 : (decide (c.src.length > 0) && overlaps c.src.length c.dstLen c.rel) = true
    · simp [h1, h2]
    · simp [h1, h2]

private def outs : State → List Bytes → List Bytes
  | _, [] => []
  | st, c :: cs => (xorKeyStream st c).2 :: outs (xorKeyStream st c).1 cs

private theorem outs_flatten : ∀ (chunks : List Bytes) (st : State),
    (xorKeyStream st chunks.flatten).2 = (outs st chunks).flatten := by
  intro chunks
  induction chunks with
  | nil => intro st; rfl
  | cons c cs ih =>
    intro st
    simp only [List.flatten_cons, rc4_xor_chunking, outs, ih]

private theorem outs_lengths : ∀ (chunks : List Bytes) (st : State),
    (outs st chunks).map List.length = chunks.map List.length := by
  intro chunks
  induction chunks with
  | nil => intro st; rfl
  | cons c cs ih => intro st; simp [outs, xorKeyStream_length, ih]

private theorem splitLens_flatten : ∀ (l : List Bytes), Spec.splitLens (l.map List.length) l.flatten = l := by
  intro l
  induction l with
  | nil => rfl
  | cons x xs ih => simp [Spec.splitLens, ih]

private theorem run_legal : ∀ (calls : List Call) (st : State),
    (∀ c ∈ calls, Spec.legalCall c.src.length c.dstLen c.rel = true) →
    run st (calls.map .xor) = (outs st (calls.map (·.src))).map .ok
  | [], _, _ => rfl
  | c :: cs, st, h => by
    have hc : Spec.legalCall c.src.length c.dstLen c.rel = true := h c List.mem_cons_self
    have hg : xorKeyStreamGo st c = .ok (xorKeyStream st c.src) := by rw [rc4_guard, if_pos hc]
    have hrest := run_legal cs (xorKeyStream st c.src).1 (fun x hx => h x (List.mem_cons_of_mem _ hx))
    show run st (Op.xor c :: cs.map Op.xor) = _
    rw [run, stepOp, hg]
    simp only [hrest, List.map_cons, outs, List.singleton_append]

/-- **RC4 = textbook RC4, every history.**  For every key of 1..256 bytes and every sequence of contract-respecting
    `XORKeyStream` calls (any sizes, empty calls included, in place or into another buffer, longer destinations),
    what the calls return, concatenated, is standard RC4 of the concatenated inputs, cut at the call boundaries. -/
theorem rc4_history_eq_spec (key : Bytes) (hk : 1 ≤ key.length ∧ key.length ≤ 256) (calls : List Call)
    (hl : ∀ c ∈ calls, Spec.legalCall c.src.length c.dstLen c.rel = true) :
    ∃ st, newWithKey key = .ok st ∧
      run st (calls.map .xor) =
        (Spec.splitLens (calls.map (·.src.length)) (Spec.rc4 key hk.1 (calls.map (·.src)).flatten)).map .ok := by
  obtain ⟨st, hst, hspec⟩ := rc4_eq_spec key hk (calls.map (·.src)).flatten
  refine ⟨st, hst, ?_⟩
  rw [run_legal calls st hl, ← hspec, outs_flatten]
  have := outs_lengths (calls.map (·.src)) st
  rw [List.map_map] at this
  have e : (calls.map (·.src.length)) = (outs st (calls.map (·.src))).map List.length := by
    rw [this]; rfl
  rw [e, splitLens_flatten]

/-- decryption is encryption: standard RC4 is an involution under the same key -/
theorem rc4_involution (key : Bytes) (hk : 0 < key.length) (data : Bytes) :
    Spec.rc4 key hk (Spec.rc4 key hk data) = data := by
  have gen : ∀ (data : Bytes) (ks : List Nat), data.length ≤ ks.length →
      List.zipWith (fun d k => d ^^^ UInt8.ofNat k)
        (List.zipWith (fun d k => d ^^^ UInt8.ofNat k) data ks) ks = data := by
    intro data
    induction data with
    | nil => intro ks _; simp
    | cons d ds ih =>
      intro ks h
      cases ks with
      | nil => simp at h
      | cons k ks =>
        simp only [List.zipWith_cons_cons, List.cons.injEq]
        refine ⟨?_, ih ks (by simpa using h)⟩
        rw [UInt8.xor_assoc, UInt8.xor_self, UInt8.xor_zero]
  have hlen : (Spec.rc4 key hk data).length = data.length := by
    simp [Spec.rc4, Spec.keystream, prga_length]
  unfold Spec.rc4 at hlen ⊢
  rw [hlen]
  exact gen data _ (by simp [Spec.keystream, prga_length])

/-- non-vacuity: a 3-byte key is accepted, and "Key"/"Plaintext" gives the well-known vector -/
example : ∃ st, newWithKey [75, 101, 121] = .ok st := (rc4_key_size _).mpr (by decide)

end RC4

/-! ## CMAC -/
section CMAC
open CMAC
variable {n : Nat} (E : Block n → Block n)

/-- `New` accepts exactly 64- and 128-bit block ciphers (explicit panic otherwise, as in the code). -/
theorem cmac_new_ok_iff : (∃ s, new n E = .ok s) ↔ (n = 8 ∨ n = 16) := by
  unfold new
  split
  · simp [*]
  · constructor
    · rintro ⟨s, h⟩; cases h
    · intro h; contradiction

/-- **Subkeys (SP 800-38B §6.1).**  The `shift1` loop with its carry and the conditional `^= Rb` on the last byte
    compute K1 = dbl(CIPH_K(0^b)) and K2 = dbl(K1) in GF(2^b) (blocks read as big-endian numbers; R_64 = 0x1B,
    R_128 = 0x87), for any block function. -/
theorem cmac_subkeys_spec (s : State n) (h : new n E = .ok s) :
    s.k1 = (Spec.subkeys E).1 ∧ s.k2 = (Spec.subkeys E).2 ∧ s.ci = zero ∧ s.p = 0 := by
  unfold new at h
  split at h
  next hn =>
    have hpos : 0 < n := by omega
    have hr : (if n = 8 then (0x1b : UInt8) else 0x87).toNat = Spec.Rb n := by
      unfold Spec.Rb; split <;> rfl
    cases h
    have e1 := step_eq_dbl hpos (E zero) _ hr
    refine ⟨?_, ?_, rfl, rfl⟩
    · simp only [Spec.subkeys]
      rw [← e1, ofNatBE_beNat]
    · simp only [Spec.subkeys]
      have e2 := step_eq_dbl hpos
        (if (shift1V (E zero)).2 != 0 then xorLast (shift1V (E zero)).1 (if n = 8 then 0x1b else 0x87)
          else (shift1V (E zero)).1) _ hr
      rw [e1] at e2
      rw [← e2, ofNatBE_beNat]
  · cases h

/-- **Every history (SP 800-38B §6.2 / RFC 4493).**  For any block function of 8 or 16 bytes and any sequence of
    `Write`, `Sum(in)` and `Reset` calls: every `Sum` returns `in ‖ CMAC(bytes written since the last Reset)`.
    Hence the MAC does not depend on how the message was cut into writes, on earlier `Sum` calls, or on what
    was hashed before a `Reset`. -/
theorem cmac_history_eq_spec (hn : n = 8 ∨ n = 16) (ops : List Op) :
    newAndRun n E ops = .ok (Spec.history E (by omega) ops []) := by
  obtain ⟨s, hs⟩ := (cmac_new_ok_iff E).mpr hn
  obtain ⟨k1, k2, hci, hp⟩ := cmac_subkeys_spec E s hs
  unfold newAndRun
  rw [hs]
  exact run_spec E (by omega) ops s [] (rep_init E (by omega) s hp hci) k1 k2

/-- **Every chunking.**  Writing the message in any pieces (empty pieces included) and calling `Sum(nil)` gives
    the SP 800-38B MAC of the whole message. -/
theorem cmac_stream_eq_spec (hn : n = 8 ∨ n = 16) (chunks : List Bytes) :
    newAndRun n E (chunks.map .write ++ [.sum []]) = .ok [(Spec.cmac E chunks.flatten (by omega)).toList] := by
  rw [cmac_history_eq_spec E hn]
  congr 1
  have : ∀ (w : Bytes), Spec.history E (by omega : 0 < n) (chunks.map Op.write ++ [.sum []]) w
      = [(Spec.cmac E (w ++ chunks.flatten) (by omega)).toList] := by
    induction chunks with
    | nil => intro w; simp [Spec.history]
    | cons c cs ih => intro w; simp [Spec.history, ih, List.append_assoc]
  simpa using this []

/-- the bytes pending after a history (what has been written since the last Reset) -/
private def after : List Op → Bytes → Bytes
  | [], w => w
  | .write b :: ops, w => after ops (w ++ b)
  | .sum _ :: ops, w => after ops w
  | .reset :: ops, _ => after ops []

private theorem history_append (hn : 0 < n) (ops1 ops2 : List Op) : ∀ w,
    Spec.history E hn (ops1 ++ ops2) w = Spec.history E hn ops1 w ++ Spec.history E hn ops2 (after ops1 w) := by
  induction ops1 with
  | nil => intro w; rfl
  | cons op ops ih =>
    intro w
    cases op <;> simp [Spec.history, after, ih]

/-- **Sum is idempotent**: two `Sum` calls in a row, after any history, return the same value. -/
theorem cmac_sum_idempotent (hn : n = 8 ∨ n = 16) (ops : List Op) (p : Bytes) :
    ∃ pre x, newAndRun n E (ops ++ [.sum p, .sum p]) = .ok (pre ++ [x, x]) := by
  rw [cmac_history_eq_spec E hn, history_append]
  exact ⟨_, _, rfl⟩

/-- **Sum does not disturb later writes**: removing a `Sum` call from the middle of any history changes nothing
    but the absence of its own return value. -/
theorem cmac_sum_does_not_disturb_writes (hn : n = 8 ∨ n = 16) (ops1 ops2 : List Op) (p : Bytes) :
    ∃ o1 x o2, newAndRun n E (ops1 ++ .sum p :: ops2) = .ok (o1 ++ x :: o2) ∧
      newAndRun n E (ops1 ++ ops2) = .ok (o1 ++ o2) := by
  rw [cmac_history_eq_spec E hn, cmac_history_eq_spec E hn, history_append, history_append]
  exact ⟨_, _, _, rfl, rfl⟩

/-- **Reset = New**: after `Reset`, whatever came before, the object behaves like a fresh `New(c)`. -/
theorem cmac_reset_is_new (hn : n = 8 ∨ n = 16) (ops1 ops2 : List Op) :
    ∃ o1 o2, newAndRun n E ops1 = .ok o1 ∧ newAndRun n E ops2 = .ok o2 ∧
      newAndRun n E (ops1 ++ .reset :: ops2) = .ok (o1 ++ o2) := by
  rw [cmac_history_eq_spec E hn, cmac_history_eq_spec E hn, cmac_history_eq_spec E hn, history_append]
  exact ⟨_, _, rfl, rfl, rfl⟩

/-- non-vacuity: a block function on 16-byte blocks is accepted by `New` -/
example : ∃ s, new 16 (fun x => x) = .ok s := (cmac_new_ok_iff _).mpr (Or.inr rfl)

end CMAC

/-! ## PKCS#7 -/
section PKCS7
open PKCS7

/-- `Pad` is RFC 5652 §6.3 padding for every block size 1..255 (`blockSize` is a `uint8`; 0 is refused), and the
    result is a whole number of blocks. -/
theorem pkcs7_pad_spec (m : Bytes) (b : UInt8) :
    (b.toNat = 0 → pad m b = .err) ∧
    (1 ≤ b.toNat → pad m b = .ok (Spec.pad m b.toNat) ∧ (Spec.pad m b.toNat).length % b.toNat = 0 ∧
      Spec.Valid (Spec.pad m b.toNat) m) := by
  have hb := b.toNat_lt
  constructor
  · intro h0
    have : b = 0 := UInt8.toNat_inj.mp h0
    subst this; rfl
  · intro h1
    have hlt : ¬ b < 1 := by
      rw [UInt8.lt_iff_toNat_lt]; simp; omega
    refine ⟨?_, ?_, ?_⟩
    · unfold pad Spec.pad; rw [if_neg hlt]
    · simp only [Spec.pad, List.length_append, List.length_replicate]
      have hmod := Nat.mod_lt m.length (show 0 < b.toNat by omega)
      have hdm := Nat.div_add_mod m.length b.toNat
      have : m.length + (b.toNat - m.length % b.toNat) = b.toNat * (m.length / b.toNat + 1) := by
        rw [Nat.mul_add, Nat.mul_one]; omega
      rw [this, Nat.mul_mod_right]
    · have hmod := Nat.mod_lt m.length (show 0 < b.toNat by omega)
      exact ⟨b.toNat - m.length % b.toNat, by omega, by omega, rfl⟩

/-- **unpad(pad(m, b)) = m** for every message and every block size 1..255. -/
theorem pkcs7_unpad_pad (m : Bytes) (b : UInt8) (hb : 1 ≤ b.toNat) : (pad m b >>= unpad) = .ok m := by
  obtain ⟨hp, _, hv⟩ := (pkcs7_pad_spec m b).2 hb
  rw [hp, Outcome.bind_ok]
  exact (unpad_ok_iff _ _).mpr hv

/-- **Full characterisation of `Unpad`**: it returns `m` exactly when the buffer is `m` followed by `p` bytes of
    value `p` with 1 ≤ p ≤ 255 (the standard's validity) … -/
theorem pkcs7_unpad_ok_iff_valid (buf m : Bytes) : unpad buf = .ok m ↔ Spec.Valid buf m := unpad_ok_iff buf m

/-- … so **every buffer that is not validly padded is rejected** with an error (never a value, never a panic:
    no index or slice expression of the model goes out of range). -/
theorem pkcs7_unpad_rejects_invalid (buf : Bytes) (h : ¬ ∃ m, Spec.Valid buf m) : unpad buf = .err := by
  cases hu : unpad buf with
  | ok m => exact absurd ⟨m, (unpad_ok_iff buf m).mp hu⟩ h
  | err => rfl
  | panic => exact absurd hu (unpad_no_panic buf)

/-- `Unpad` never panics. -/
theorem pkcs7_unpad_total (buf : Bytes) : unpad buf ≠ .panic := unpad_no_panic buf

/-- The executable specification used as the run-time oracle decides the standard's validity predicate. -/
theorem pkcs7_spec_unpad_iff_valid (buf m : Bytes) : Spec.unpad buf = some m ↔ Spec.Valid buf m :=
  spec_unpad_iff buf m

/-- non-vacuity: a valid and an invalid buffer -/
example : Spec.Valid [7, 3, 3, 3] [7] := ⟨3, by decide, by decide, rfl⟩
example : ¬ ∃ m, Spec.Valid [1, 2, 3, 2] m := by
  rintro ⟨m, hm⟩
  have := (spec_unpad_iff _ _).mpr hm
  rw [show Spec.unpad [1, 2, 3, 2] = none by decide] at this
  cases this

end PKCS7

/-! ## Group Policy Preferences -/
section GPP
open GPP Prim
open GPP.Spec (IsScalar)

/-- **GPPPEncrypt = base64(AES-256-CBC with a zero IV over PKCS#7(UTF-16LE(password)))**, for every password made
    of Unicode scalar values (given as a Go string, i.e. its UTF-8 bytes), with `E` the block encryption under the
    key.  (That `E` is AES-256 under Microsoft's published key is the run-time part: the tables of block-cipher
    values are computed by Go's crypto/aes under the key `GPP.Spec.msKey`, which the spec op checks.) -/
theorem gpp_encrypt_eq_aes256cbc_zero_iv (E : Bytes → Bytes) (cps : List Nat) (h : ∀ c ∈ cps, IsScalar c) :
    encrypt E (stringOfRunes cps) = .ok (Spec.encrypt E cps) := by
  unfold encrypt Spec.encrypt
  rw [pad16]
  simp only [cbcEncrypt, pad16_length, ne_eq, not_true_eq_false, if_false]
  unfold encodeUTF16LE
  rw [runes_string cps h, utf16le_eq_spec cps h, cbcEnc_eq_spec]

/-- **decrypt ∘ encrypt = id** for every password of Unicode scalar values, given only that `D` undoes `E` on
    16-byte blocks (true of AES; AES itself is not modelled). -/
theorem gpp_decrypt_encrypt (E D : Bytes → Bytes)
    (hE : ∀ x, x.length = 16 → (E x).length = 16) (hDE : ∀ x, x.length = 16 → D (E x) = x)
    (cps : List Nat) (h : ∀ c ∈ cps, IsScalar c) :
    (encrypt E (stringOfRunes cps) >>= decryptBase64 D) = .ok (stringOfRunes cps) := by
  have hl := pad16_length (encodeUTF16LE (stringOfRunes cps))
  obtain ⟨hflat, hbl⟩ := flatten_blocks16 _ hl
  obtain ⟨hdec, hclen⟩ := cbc_dec_enc E D hE hDE _ zeroIV rfl hbl
  have hcl : (cbcEncBlocks E zeroIV (blocks16 (PKCS7.Spec.pad (encodeUTF16LE (stringOfRunes cps)) 16))).flatten.length % 16 = 0 := by
    rw [flatten_length16 _ hclen]; omega
  have henc : encrypt E (stringOfRunes cps) =
      .ok (b64Encode (cbcEncBlocks E zeroIV (blocks16 (PKCS7.Spec.pad (encodeUTF16LE (stringOfRunes cps)) 16))).flatten) := by
    unfold encrypt
    rw [pad16]
    simp only [cbcEncrypt, hl, ne_eq, not_true_eq_false, if_false]
  rw [henc, Outcome.bind_ok]
  unfold decryptBase64
  rw [repad_mod4 _ (b64Encode_shape _).1, b64Decode_encode]
  unfold decryptBytes
  simp only [hcl, ne_eq, not_true_eq_false, if_false, cbcDecrypt]
  rw [blocks16_flatten _ hclen, hdec, hflat, (PKCS7.unpad_ok_iff _ _).mpr (pad16_valid _)]
  simp only [encodeUTF16LE_even, not_true_eq_false, if_false]
  exact decode_encode_utf16le cps h

/-- **encrypt ∘ decrypt = id on cpassword strings** (the image of `GPPPEncrypt`): together with the previous
    theorem, encryption and decryption are mutually inverse bijections between Unicode passwords and their
    cpassword strings.  (On other inputs decryption is deliberately not injective: PKCS#7 accepts paddings
    longer than one block.) -/
theorem gpp_encrypt_decrypt (E D : Bytes → Bytes)
    (hE : ∀ x, x.length = 16 → (E x).length = 16) (hDE : ∀ x, x.length = 16 → D (E x) = x)
    (cps : List Nat) (h : ∀ c ∈ cps, IsScalar c) (s : Bytes) (hs : encrypt E (stringOfRunes cps) = .ok s) :
    (decryptBase64 D s >>= encrypt E) = .ok s := by
  have := gpp_decrypt_encrypt E D hE hDE cps h
  rw [hs, Outcome.bind_ok] at this
  rw [this, Outcome.bind_ok, hs]

/-- **Unpadded base64 is accepted**: for every ciphertext, dropping any number of the trailing '=' of its base64
    text changes nothing — `GPPPDecryptBase64` restores them and hands the same bytes to `GPPPDecryptBytes`. -/
theorem gpp_b64_repad (D : Bytes → Bytes) (c : Bytes) (j : Nat) (hj : j ≤ padCount c) :
    decryptBase64 D ((b64Encode c).take ((b64Encode c).length - j)) = decryptBytes D c := by
  obtain ⟨hlen, body, hbody⟩ := b64Encode_shape c
  unfold decryptBase64
  have := repad_strip body (padCount c) j (padCount_le c) hj (by rw [← hbody]; exact hlen)
  rw [← hbody] at this
  rw [this, b64Decode_encode]

/-- **Decryption is total** (with fixes/C12-gppp-odd-length.diff): for every ciphertext and every block
    function, `GPPPDecryptBytes` returns a value or an error — the odd-length plaintexts that made
    `DecodeUTF16LE` index out of range are turned into an error before they reach it. -/
theorem gpp_decrypt_total (D : Bytes → Bytes) (c : Bytes) : decryptBytes D c ≠ .panic := by
  unfold decryptBytes
  split
  · intro h; cases h
  next hlen =>
    have hlen' : c.length % 16 = 0 := by omega
    simp only [cbcDecrypt, hlen', ne_eq, not_true_eq_false, if_false]
    cases hu : PKCS7.unpad (cbcDecBlocks D zeroIV (blocks16 c)).flatten with
    | ok u =>
      simp only
      split
      · intro h; cases h
      next hodd =>
        obtain ⟨us, hus⟩ := unitsLE_even u (by omega)
        simp [decodeUTF16LE, hus]
    | err => intro h; cases h
    | panic => exact absurd hu (PKCS7.unpad_no_panic _)

/-- **Decryption agrees with the specification on every ciphertext**: whenever the specification (whole blocks,
    AES-CBC with zero IV, valid PKCS#7 padding, well-formed UTF-16LE) determines a password, `GPPPDecryptBytes`
    returns exactly it; whenever it demands rejection (partial block, empty input, invalid padding), an error is
    returned. -/
theorem gpp_decrypt_eq_spec (D : Bytes → Bytes) (c : Bytes) :
    (∀ cps, Spec.decryptBytes D c = .accept cps → decryptBytes D c = .ok (stringOfRunes cps)) ∧
    (Spec.decryptBytes D c = .reject → decryptBytes D c = .err) := by
  unfold Spec.decryptBytes decryptBytes
  by_cases hlen : c.length % 16 ≠ 0
  · simp [hlen]
  · have hlen' : c.length % 16 = 0 := by omega
    by_cases h0 : c.length = 0
    · have : c = [] := List.length_eq_zero_iff.mp h0
      subst this
      simp [cbcDecrypt, blocks16_short, cbcDecBlocks, PKCS7.unpad_nil]
    · simp only [hlen, h0, or_self, if_false, cbcDecrypt]
      cases hs : PKCS7.Spec.unpad (cbcDecBlocks D zeroIV (blocks16 c)).flatten with
      | none =>
        simp only [reduceCtorEq, false_implies, forall_const, true_and]
        have : ¬ ∃ m, PKCS7.Spec.Valid (cbcDecBlocks D zeroIV (blocks16 c)).flatten m := by
          rintro ⟨m, hm⟩
          rw [(PKCS7.spec_unpad_iff _ _).mpr hm] at hs; cases hs
        rw [pkcs7_unpad_rejects_invalid _ this]
      | some u =>
        have hu := (PKCS7.unpad_ok_iff _ _).mpr ((PKCS7.spec_unpad_iff _ _).mp hs)
        rw [hu]
        simp only
        cases hd : Spec.utf16leDecode? u with
        | none => simp
        | some cps' =>
          simp only [Spec.Verdict.accept.injEq, reduceCtorEq, false_implies, and_true]
          intro cps hc
          subst hc
          obtain ⟨us, hus, hdec⟩ := strict_utf16 u cps' hd
          rw [if_neg (by rw [strict_utf16_even u cps' hd]; simp)]
          simp [decodeUTF16LE, hus, hdec]

/-- non-vacuity: the hypotheses on `E`/`D` are satisfiable (identity), and astral code points are scalars -/
example : (∀ x : Bytes, x.length = 16 → ((fun y => y) x).length = 16) ∧
    (∀ x : Bytes, x.length = 16 → (fun y => y) ((fun y : Bytes => y) x) = x) := ⟨fun _ h => h, fun _ _ => rfl⟩
example : ∀ c ∈ [0x41, 0xE9, 0x1F600, 0x10FFFF], IsScalar c := by decide

end GPP
end Manticore.C12
