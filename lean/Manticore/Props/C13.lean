/-
  C13 — UUID/GUID text and binary forms are mutually inverse and standards-conformant.
  Property theorems only.  Model and specifications: `Manticore/Model/C13.lean`
  (the Go code with `fixes/C13-*.diff` applied); helper lemmas: `Manticore/Lemmas/C13*.lean`.

  Reading of the property used below.  "Reproduces the input, case-insensitively": formatting the parsed
  value gives the input lower-cased (`toLower`), for GUIDs also stripped of surrounding white space
  (`trimSpace`; every `FromFormat*` trims by design).  "Within the field widths": the `InWidth`
  predicates of the model file.  Timestamps: the 60-bit tick field only (conversion to `time.Time` is C15).
-/
import Manticore.Lemmas.C13Rfc
import Manticore.Lemmas.C13Guid
import Manticore.Lemmas.C13UuidText
import Manticore.Lemmas.C13GuidSpec
import Manticore.Lemmas.C13Nibbles
namespace Manticore.C13
open Manticore

/-! ### helper facts (private) -/

private theorem mask4 : ∀ x : UInt8, x.toNat < 16 → x &&& 0xF = x := by byte_decide

private theorem mask_of_lt (x : UInt64) (k : Nat) (m : UInt64) (hm : m.toNat = 2 ^ k - 1) (h : x.toNat < 2 ^ k) :
    x &&& m = x := by
  apply UInt64.toNat_inj.mp
  rw [UInt64.toNat_and, hm, Nat.and_two_pow_sub_one_eq_mod, Nat.mod_eq_of_lt h]

private theorem mask60 (x : UInt64) (h : x.toNat < 2 ^ 60) : x &&& 0x0FFFFFFFFFFFFFFF = x :=
  mask_of_lt x 60 _ (by decide) h

private theorem mask12 (x : UInt16) (h : x.toNat < 2 ^ 12) : x &&& 0x0FFF = x := by
  apply UInt16.toNat_inj.mp
  have : (0x0FFF : UInt16).toNat = 2 ^ 12 - 1 := by decide
  rw [UInt16.toNat_and, this, Nat.and_two_pow_sub_one_eq_mod, Nat.mod_eq_of_lt h]

private theorem mask_v2 (x : UInt64) (h1 : x.toNat < 2 ^ 60) (h2 : x.toNat % 2 ^ 32 = 0) :
    x &&& 0x0FFFFFFF00000000 = x := by
  apply UInt64.toNat_inj.mp
  have hm : (0x0FFFFFFF00000000 : UInt64).toNat = (2 ^ 28 - 1) <<< 32 := by decide
  have hx : x.toNat = (x.toNat / 2 ^ 32) <<< 32 := by rw [Nat.shiftLeft_eq]; omega
  have hq : x.toNat / 2 ^ 32 < 2 ^ 28 := by omega
  rw [UInt64.toNat_and, hm]
  conv => lhs; rw [hx]
  rw [← Nat.shiftLeft_and_distrib, Nat.and_two_pow_sub_one_eq_mod, Nat.mod_eq_of_lt hq, ← hx]

private theorem length16_take (m : Bytes) (h : m.length = 16) : m.take 16 = m := List.take_of_length_le (by omega)

/-! ## 1. The generic UUID: `Marshal` / `Unmarshal` / `String` / `FromString` -/

/-- **Fields → bytes → fields.**  For every version, variant (four bits each) and all 15 data bytes,
    unmarshalling the marshalled bytes returns the same fields. -/
theorem uuid_fields_roundtrip (u : UUID) (h : u.InWidth) : unmarshal (marshal u) = .ok u := by
  obtain ⟨ver, var, d⟩ := u
  rw [unmarshal_marshal]
  simp only [mask4 ver h.1, mask4 var h.2]

/-- **Bytes → fields → bytes.**  Every byte string `Unmarshal` accepts (16 bytes or more) re-marshals to
    its first 16 bytes — all 2^128 values — and the fields it returns are within their widths. -/
theorem uuid_bytes_roundtrip (m : Bytes) (u : UUID) (h : unmarshal m = .ok u) :
    marshal u = m.take 16 ∧ u.InWidth := by
  refine ⟨marshal_unmarshal m u h, ?_⟩
  obtain ⟨h1, h2⟩ := unmarshal_widths m u h
  have k : ∀ x : UInt8, x &&& 0xF = x → x.toNat < 16 := by byte_decide
  exact ⟨k _ h1, k _ h2⟩

/-- `Unmarshal` accepts exactly the inputs of at least 16 bytes and never panics. -/
theorem uuid_unmarshal_total (m : Bytes) :
    (16 ≤ m.length → ∃ u, unmarshal m = .ok u) ∧ (m.length < 16 → unmarshal m = .err) := by
  constructor
  · intro h
    obtain ⟨m0, m1, m2, m3, m4, m5, m6, m7, m8, m9, m10, m11, m12, m13, m14, m15, rest, rfl⟩ := exists_cons16 m h
    exact ⟨_, unmarshal_cons16 ..⟩
  · intro h; unfold unmarshal; rw [if_pos h]

/-- **`Marshal` is a bijection** between in-width field assignments and 16-byte strings: every 16-byte
    string is the image of exactly one in-width UUID. -/
theorem uuid_marshal_bijective (m : Bytes) (hm : m.length = 16) :
    ∃ u : UUID, (u.InWidth ∧ marshal u = m) ∧ ∀ u' : UUID, u'.InWidth ∧ marshal u' = m → u' = u := by
  obtain ⟨u, hu⟩ := (uuid_unmarshal_total m).1 (by omega)
  obtain ⟨h1, h2⟩ := uuid_bytes_roundtrip m u hu
  rw [length16_take m hm] at h1
  refine ⟨u, ⟨h2, h1⟩, ?_⟩
  intro u' ⟨hw, hm'⟩
  have a := uuid_fields_roundtrip u' hw
  rw [hm', hu] at a
  simpa using a.symm

/-- **Text → UUID → text.**  Whatever `FromString` accepts is printed back by `String` as the input
    lower-cased (so: 36 characters, hyphens at 8/13/18/23, hex digits of either case). -/
theorem uuid_parse_then_string (s : Bytes) (u : UUID) (h : uuidFromString s = .ok u) : uuidString u = toLower s := by
  unfold uuidFromString at h
  cases ht : textTo16 false s with
  | err => rw [ht] at h; simp at h
  | panic => rw [ht] at h; simp at h
  | ok m =>
    rw [ht] at h
    obtain ⟨hl, htx⟩ := textTo16_ok false s m ht
    unfold uuidString
    rw [marshal_unmarshal m u h, length16_take m hl, htx]

/-- **UUID → text → UUID**, in either letter case: any spelling `s` of the printed form of an in-width
    UUID (`toLower s = String()`) parses back to it. -/
theorem uuid_string_then_parse (u : UUID) (hw : u.InWidth) (s : Bytes) (hs : toLower s = uuidString u) :
    uuidFromString s = .ok u := by
  unfold uuidFromString
  rw [textTo16_of_text false s (marshal u) (length_marshal u) hs]
  exact uuid_fields_roundtrip u hw

/-! ## 2. UUID version 1 -/

/-- **v1 fields → bytes → fields**, within the widths the library gives the fields (12-bit clock sequence). -/
theorem v1_fields_roundtrip_partial (v : V1) (h : v.InWidth) : v1Unmarshal (v1Marshal v) = .ok v := by
  obtain ⟨hv, ht, hc⟩ := h
  unfold v1Unmarshal v1Marshal
  rw [if_neg (by rw [length_marshal]; omega), unmarshal_marshal]
  simp only [mask4 _ hv]
  have e : (((1 : UInt8) &&& 0xF) != 1) = false := by decide
  rw [e]
  simp only [Bool.false_eq_true, if_false, Outcome.ok.injEq]
  rw [v1OfUUID_v1Data, mask60 _ ht, mask12 _ hc]

/-
  FULL STATEMENT (not provable on this tree: see finding `clockseq12`):
    theorem v1_fields_roundtrip (v : V1) (h : v.InWidthRFC) : v1Unmarshal (v1Marshal v) = .ok v
  RFC 4122 gives the clock sequence 14 bits; `Marshal` stores `ClockSeq & 0x0FFF` and the two bits above
  are taken by the low half of the 4-bit `Variant`.  What is missing: bits 12 and 13 of the clock sequence.
-/

/-- the negation of the full statement at a witness: clock sequence 0x1000 reads back as 0 -/
theorem v1_fields_roundtrip_counterexample_clockseq12 :
    ∃ v : V1, v.InWidthRFC ∧ KnownBad_clockseq12 v.clockSeq.toNat = true ∧ v1Unmarshal (v1Marshal v) ≠ .ok v := by
  refine ⟨⟨0, 0, 0x1000, 0, 0, 0, 0, 0, 0⟩, ⟨by decide, by decide, by decide⟩, by decide, by decide⟩

/-- outside the finding, the RFC-width statement holds: `InWidthRFC` without `KnownBad` is `InWidth` -/
theorem v1_fields_roundtrip_outside_finding (v : V1) (h : v.InWidthRFC)
    (hk : KnownBad_clockseq12 v.clockSeq.toNat = false) : v1Unmarshal (v1Marshal v) = .ok v := by
  apply v1_fields_roundtrip_partial
  have : v.clockSeq.toNat < 2 ^ 12 := by simpa [KnownBad_clockseq12] using hk
  exact ⟨h.1, h.2.1, this⟩

/-- **v1 bytes → fields → bytes.**  Every byte string `UUIDv1.Unmarshal` accepts re-marshals to its first
    16 bytes (all version-1 values, whatever the variant bits). -/
theorem v1_bytes_roundtrip (m : Bytes) (v : V1) (h : v1Unmarshal m = .ok v) : v1Marshal v = m.take 16 := by
  unfold v1Unmarshal at h
  split at h
  · simp at h
  · cases hu : unmarshal m with
    | err => rw [hu] at h; simp at h
    | panic => rw [hu] at h; simp at h
    | ok u =>
      rw [hu] at h
      simp only at h
      split at h
      · simp at h
      · rename_i hver
        simp only [Outcome.ok.injEq] at h
        subst h
        have hv : u.version = 1 := by simpa using hver
        unfold v1Marshal
        rw [v1Data_v1OfUUID, ← marshal_unmarshal m u hu]
        obtain ⟨ver, var, d⟩ := u
        simp only at hv
        subst hv
        rfl

/-- `UUIDv1.Unmarshal` accepts a 16-byte value exactly when RFC 4122's version field says 1. -/
theorem v1_accepts_iff_version1 (m : Bytes) (hm : m.length = 16) :
    (∃ v, v1Unmarshal m = .ok v) ↔ RFC4122.version (RFC4122.number m) = 1 := by
  obtain ⟨m0, m1, m2, m3, m4, m5, m6, m7, m8, m9, m10, m11, m12, m13, m14, m15, rest, rfl⟩ := exists_cons16 m (by omega)
  have : rest = [] := by
    simp only [List.length_cons] at hm
    exact List.eq_nil_of_length_eq_zero (by omega)
  subst this
  rw [v1Unmarshal_16, (rfc_fields_16 m0 m1 m2 m3 m4 m5 m6 m7 m8 m9 m10 m11 m12 m13 m14 m15).1]
  by_cases h : m6.toNat / 16 = 1 <;> simp [h]

/-- **RFC 4122 conformance of timestamp, node and the variant nibble.**  For every 16-byte value the
    library accepts as version 1, `Time` is RFC 4122's 60-bit timestamp, `NodeID` its node, and the
    library's `Variant` the high four bits of `clock_seq_hi_and_reserved`; the clock sequence is RFC's
    modulo 2^12. -/
theorem v1_eq_rfc4122 (m : Bytes) (hm : m.length = 16) (v : V1) (h : v1Unmarshal m = .ok v) :
    let n := RFC4122.number m
    v.time.toNat = RFC4122.timestamp n ∧
    beNat [v.n0, v.n1, v.n2, v.n3, v.n4, v.n5] = RFC4122.node n ∧
    v.variant.toNat = RFC4122.clockSeqHiAndReserved n / 2 ^ 4 ∧
    v.clockSeq.toNat = RFC4122.clockSeq n % 2 ^ 12 := by
  obtain ⟨m0, m1, m2, m3, m4, m5, m6, m7, m8, m9, m10, m11, m12, m13, m14, m15, rest, rfl⟩ := exists_cons16 m (by omega)
  have : rest = [] := by
    simp only [List.length_cons] at hm
    exact List.eq_nil_of_length_eq_zero (by omega)
  subst this
  rw [v1Unmarshal_16] at h
  split at h
  · simp only [Outcome.ok.injEq] at h
    subst h
    intro n
    obtain ⟨-, r2, r3, r4, r5⟩ := rfc_fields_16 m0 m1 m2 m3 m4 m5 m6 m7 m8 m9 m10 m11 m12 m13 m14 m15
    obtain ⟨f1, f2, f3, f4⟩ := v1_fields_16 m0 m1 m2 m3 m4 m5 m6 m7 m8 m9 m10 m11 m12 m13 m14 m15
    have h8 := m8.toNat_lt
    refine ⟨?_, ?_, ?_, ?_⟩
    · rw [f1]; exact r2.symm
    · rw [f4]; show _ = RFC4122.node n; rw [r5]; simp only [beNat, List.foldl_cons, List.foldl_nil]; omega
    · rw [f3]; show _ = RFC4122.clockSeqHiAndReserved n / 2 ^ 4; rw [r4]
    · have k : ∀ a b : Nat, a < 256 → b < 256 → a + b % 16 * 2 ^ 8 = (a + b % 64 * 2 ^ 8) % 2 ^ 12 := by
        intro a b ha hb; omega
      rw [f2]; show _ = RFC4122.clockSeq n % 2 ^ 12; rw [r3]; exact k _ _ m9.toNat_lt h8
  · simp at h

/-- **RFC 4122 conformance of the clock sequence, outside finding `clockseq12`.** -/
theorem v1_clockseq_eq_rfc4122_partial (m : Bytes) (hm : m.length = 16) (v : V1) (h : v1Unmarshal m = .ok v)
    (hk : KnownBad_clockseq12 (RFC4122.clockSeq (RFC4122.number m)) = false) :
    v.clockSeq.toNat = RFC4122.clockSeq (RFC4122.number m) := by
  have := (v1_eq_rfc4122 m hm v h).2.2.2
  have hlt : RFC4122.clockSeq (RFC4122.number m) < 2 ^ 12 := by simpa [KnownBad_clockseq12] using hk
  rw [this, Nat.mod_eq_of_lt hlt]

/-
  FULL STATEMENT (not provable on this tree: see finding `clockseq12`):
    theorem v1_clockseq_eq_rfc4122 (m) (hm : m.length = 16) (v) (h : v1Unmarshal m = .ok v) :
      v.clockSeq.toNat = RFC4122.clockSeq (RFC4122.number m)
  What is missing: bits 13..12 of the clock sequence (bits 5..4 of octet 8) are read into `Variant`.
-/

/-- the negation of the full statement at a witness: `19c55c02-3406-11f0-b3c8-0242ac120002` has RFC clock
    sequence 13256 (as `google/uuid` reports), the library returns 968 -/
theorem v1_clockseq_eq_rfc4122_counterexample_clockseq12 :
    ∃ (m : Bytes) (v : V1), m.length = 16 ∧ v1Unmarshal m = .ok v ∧
      KnownBad_clockseq12 (RFC4122.clockSeq (RFC4122.number m)) = true ∧
      RFC4122.clockSeq (RFC4122.number m) = 13256 ∧ v.clockSeq.toNat = 968 := by
  refine ⟨[0x19, 0xc5, 0x5c, 0x02, 0x34, 0x06, 0x11, 0xf0, 0xb3, 0xc8, 0x02, 0x42, 0xac, 0x12, 0x00, 0x02],
    ⟨11, 139668789255298050, 968, 0x02, 0x42, 0xac, 0x12, 0x00, 0x02⟩, rfl, by decide, by decide, by decide, by decide⟩

/-- **v1 text → UUID → text.** -/
theorem v1_parse_then_string (s : Bytes) (v : V1) (h : v1FromString s = .ok v) : v1String v = toLower s := by
  unfold v1FromString at h
  cases ht : textTo16 true s with
  | err => rw [ht] at h; simp at h
  | panic => rw [ht] at h; simp at h
  | ok m =>
    rw [ht] at h
    obtain ⟨hl, htx⟩ := textTo16_ok true s m ht
    simp only [v1FromBytes] at h
    rw [if_neg (by simp [hl])] at h
    unfold v1String
    rw [v1_bytes_roundtrip m v h, length16_take m hl, htx]

/-- **v1 UUID → text → UUID**, either letter case. -/
theorem v1_string_then_parse (v : V1) (hw : v.InWidth) (s : Bytes) (hs : toLower s = v1String v) :
    v1FromString s = .ok v := by
  unfold v1FromString
  have hl : (v1Marshal v).length = 16 := length_marshal _
  rw [textTo16_of_text true s (v1Marshal v) hl hs]
  simp only [v1FromBytes]
  rw [if_neg (by simp [hl])]
  exact v1_fields_roundtrip_partial v hw

/-! ## 3. UUID version 2 and version 8 -/

/-- **v2 fields → bytes → fields** within the widths (28 timestamp bits 32..59, 4 clock bits). -/
theorem v2_fields_roundtrip (v : V2) (h : v.InWidth) : v2Unmarshal (v2Marshal v) = .ok v := by
  obtain ⟨hv, ht, ht2, hc⟩ := h
  unfold v2Unmarshal v2Marshal
  rw [if_neg (by rw [length_marshal]; omega), unmarshal_marshal]
  simp only [mask4 _ hv]
  have e : (((2 : UInt8) &&& 0xF) != 2) = false := by decide
  rw [e]
  simp only [Bool.false_eq_true, if_false, Outcome.ok.injEq]
  rw [v2OfUUID_v2Data, mask_v2 _ ht ht2, mask4 _ hc]

/-- **v2 bytes → fields → bytes**: the local identifier, domain, clock and node carry every bit. -/
theorem v2_bytes_roundtrip (m : Bytes) (v : V2) (h : v2Unmarshal m = .ok v) : v2Marshal v = m.take 16 := by
  unfold v2Unmarshal at h
  split at h
  · simp at h
  · cases hu : unmarshal m with
    | err => rw [hu] at h; simp at h
    | panic => rw [hu] at h; simp at h
    | ok u =>
      rw [hu] at h
      simp only at h
      split at h
      · simp at h
      · rename_i hver
        simp only [Outcome.ok.injEq] at h
        subst h
        have hv : u.version = 2 := by simpa using hver
        unfold v2Marshal
        rw [v2Data_v2OfUUID, ← marshal_unmarshal m u hu]
        obtain ⟨ver, var, d⟩ := u
        simp only at hv
        subst hv
        rfl

/-- **v2 text → UUID → text**: what `UUIDv2.FromString` accepts, `String` prints back lower-cased. -/
theorem v2_parse_then_string (s : Bytes) (v : V2) (h : v2FromString s = .ok v) : v2String v = toLower s := by
  unfold v2FromString at h
  cases ht : textTo16 true s with
  | err => rw [ht] at h; simp at h
  | panic => rw [ht] at h; simp at h
  | ok m =>
    rw [ht] at h
    obtain ⟨hl, htx⟩ := textTo16_ok true s m ht
    simp only [v2FromBytes] at h
    rw [if_neg (by simp [hl])] at h
    unfold v2String
    rw [v2_bytes_roundtrip m v h, length16_take m hl, htx]

/-- **v2 UUID → text → UUID**, either letter case, within the field widths. -/
theorem v2_string_then_parse (v : V2) (hw : v.InWidth) (s : Bytes) (hs : toLower s = v2String v) :
    v2FromString s = .ok v := by
  unfold v2FromString
  have hl : (v2Marshal v).length = 16 := length_marshal _
  rw [textTo16_of_text true s (v2Marshal v) hl hs]
  simp only [v2FromBytes]
  rw [if_neg (by simp [hl])]
  exact v2_fields_roundtrip v hw

/-- **v8 fields → bytes → fields**: all 120 data bits. -/
theorem v8_fields_roundtrip (v : V8) (h : v.InWidth) : v8Unmarshal (v8Marshal v) = .ok v := by
  unfold v8Unmarshal v8Marshal
  rw [if_neg (by rw [length_marshal]; omega), unmarshal_marshal]
  have e : (((8 : UInt8) &&& 0xF) != 8) = false := by decide
  simp only [mask4 _ h, e, Bool.false_eq_true, if_false]

/-- **v8 bytes → fields → bytes** for every accepted (version-8) value. -/
theorem v8_bytes_roundtrip (m : Bytes) (v : V8) (h : v8Unmarshal m = .ok v) : v8Marshal v = m.take 16 := by
  unfold v8Unmarshal at h
  split at h
  · simp at h
  · cases hu : unmarshal m with
    | err => rw [hu] at h; simp at h
    | panic => rw [hu] at h; simp at h
    | ok u =>
      rw [hu] at h
      simp only at h
      split at h
      · simp at h
      · rename_i hver
        simp only [Outcome.ok.injEq] at h
        subst h
        have hv : u.version = 8 := by simpa using hver
        unfold v8Marshal
        rw [← marshal_unmarshal m u hu]
        obtain ⟨ver, var, d⟩ := u
        simp only at hv
        subst hv
        rfl

/-- **v8 text → UUID → text.** -/
theorem v8_parse_then_string (s : Bytes) (v : V8) (h : v8FromString s = .ok v) : v8String v = toLower s := by
  unfold v8FromString at h
  cases ht : textTo16 true s with
  | err => rw [ht] at h; simp at h
  | panic => rw [ht] at h; simp at h
  | ok m =>
    rw [ht] at h
    obtain ⟨hl, htx⟩ := textTo16_ok true s m ht
    simp only [v8FromBytes] at h
    rw [if_neg (by simp [hl])] at h
    unfold v8String
    rw [v8_bytes_roundtrip m v h, length16_take m hl, htx]

/-- **v8 UUID → text → UUID**, either letter case. -/
theorem v8_string_then_parse (v : V8) (hw : v.InWidth) (s : Bytes) (hs : toLower s = v8String v) :
    v8FromString s = .ok v := by
  unfold v8FromString
  have hl : (v8Marshal v).length = 16 := length_marshal _
  rw [textTo16_of_text true s (v8Marshal v) hl hs]
  simp only [v8FromBytes]
  rw [if_neg (by simp [hl])]
  exact v8_fields_roundtrip v hw

/-! ## 4. GUID: the mixed-endian byte layout -/

/-- **MS-DTYP 2.3.4.2.**  `ToBytes` is the MS-DTYP packet of the GUID's value (`Data1..3` little-endian,
    then `D` and `E` big-endian as the eight bytes of `Data4`), and `FromRawBytes` of any 16 bytes is the
    GUID of the MS-DTYP reading of those bytes. -/
theorem guid_bytes_eq_msdtyp :
    (∀ g : GUID, toBytes g = MSDTYP.packet (toSpec g)) ∧
    (∀ b0 b1 b2 b3 b4 b5 b6 b7 b8 b9 b10 b11 b12 b13 b14 b15 : UInt8,
      fromRawBytes [b0, b1, b2, b3, b4, b5, b6, b7, b8, b9, b10, b11, b12, b13, b14, b15] =
        .ok (ofSpec (MSDTYP.ofPacket [b0, b1, b2, b3, b4, b5, b6, b7, b8, b9, b10, b11, b12, b13, b14, b15]))) :=
  ⟨toBytes_eq_packet, fromRaw_eq_ofPacket⟩

/-- **`FromRawBytes` and `ToBytes` are mutually inverse**: fields → bytes → fields for every `E < 2^48`;
    bytes → fields → bytes for all 2^128 values (and the `E` read is below 2^48). -/
theorem fromRaw_toBytes_inverse :
    (∀ g : GUID, g.InWidth → fromRawBytes (toBytes g) = .ok g) ∧
    (∀ (b : Bytes) (g : GUID), 16 ≤ b.length → fromRawBytes b = .ok g → toBytes g = b.take 16 ∧ g.InWidth) := by
  constructor
  · intro g hg
    rw [fromRaw_toBytes, E_mask_of_lt g.E hg]
  · intro b g hl h
    exact ⟨toBytes_fromRaw b g hl h, fromRaw_E_lt b g h⟩

/-- `FromRawBytes` has no error result and is total (after `fixes/C07-guid-fromrawbytes-short.diff`): below
    16 bytes the result is the nil GUID, and every result has `E` within its 48 bits.  (Stated here so
    that the domain of the two theorems above is explicit; decoder totality is C07's subject.) -/
theorem fromRaw_total (b : Bytes) :
    (∃ g, fromRawBytes b = .ok g ∧ g.InWidth) ∧ (b.length < 16 → fromRawBytes b = .ok ⟨0, 0, 0, 0, 0⟩) := by
  obtain ⟨g, hg⟩ := fromRawBytes_ok b
  exact ⟨⟨g, hg, fromRaw_E_lt b g hg⟩, fromRawBytes_short b⟩

/-! ## 5. GUID: the five text formats -/

private theorem dOf_split (n : Nat) : dOf (n / 256) (n % 256) = n := by unfold dOf; omega
private theorem eOf_split (n : Nat) (h : n < 2 ^ 48) :
    eOf (n / 2 ^ 40) (n / 2 ^ 32 % 256) (n / 2 ^ 24 % 256) (n / 2 ^ 16 % 256) (n / 2 ^ 8 % 256) (n % 256) = n := by
  unfold eOf; omega

/-- `ToFormat<F>` of an in-width GUID, as a rendering of numbers -/
private theorem format_shape (F : Fmt) (g : GUID) (hE : g.InWidth) :
    ∃ t, format F g = t ∧ (∀ s, toLower (trimSpace s) = t → parse F s = .ok g) ∧ toLower (trimSpace t) = t ∧
      toLower (trimSpace (toUpper t)) = t := by
  have hA := g.A.toNat_lt; have hB := g.B.toNat_lt; have hC := g.C.toNat_lt; have hD := g.D.toNat_lt
  have hE' : g.E.toNat < 2 ^ 48 := hE
  have ha : g.A.toNat < 16 ^ 8 := by rw [pow16_8]; exact hA
  have hb : g.B.toNat < 16 ^ 4 := by rw [pow16_4]; exact hB
  have hc : g.C.toNat < 16 ^ 4 := by rw [pow16_4]; exact hC
  have hd : g.D.toNat < 16 ^ 4 := by rw [pow16_4]; exact hD
  have he : g.E.toNat < 16 ^ 12 := by rw [pow16_12]; exact hE'
  cases F with
  | N =>
    refine ⟨_, toFormatN_eq_nText g hE', ?_, nText_clean .., nText_clean_upper ..⟩
    intro s hs
    show fromFormatN s = _
    rw [fromFormatN_eq, hs, nCore_nText _ _ _ _ _ ha hb hc hd he, guidOfValues_fields]
  | D =>
    refine ⟨_, dashed_eq_dText g hE', ?_, ?_, ?_⟩
    · intro s hs
      show fromFormatD s = _
      rw [fromFormatD_eq, hs, dCore_dText _ _ _ _ _ ha hb hc hd he, guidOfValues_fields]
    · rw [← render_patD]; exact render_clean .D _
    · rw [← render_patD]; exact render_clean_upper .D _
  | B =>
    refine ⟨lbrace :: (dText g.A.toNat g.B.toNat g.C.toNat g.D.toNat g.E.toNat ++ [rbrace]), ?_, ?_, ?_, ?_⟩
    · show toFormatB g = _
      simp [toFormatB, dashed_eq_dText g hE']
    · intro s hs
      show fromFormatB s = _
      rw [fromFormatB_eq, hs, bracketCore_text patB lbrace rbrace fits_patB render_patB _ _ _ _ _ ha hb hc hd he,
        guidOfValues_fields]
    · rw [← render_patB]; exact render_clean .B _
    · rw [← render_patB]; exact render_clean_upper .B _
  | P =>
    refine ⟨lparen :: (dText g.A.toNat g.B.toNat g.C.toNat g.D.toNat g.E.toNat ++ [rparen]), ?_, ?_, ?_, ?_⟩
    · show toFormatP g = _
      simp [toFormatP, dashed_eq_dText g hE']
    · intro s hs
      show fromFormatP s = _
      rw [fromFormatP_eq, hs, bracketCore_text patP lparen rparen fits_patP render_patP _ _ _ _ _ ha hb hc hd he,
        guidOfValues_fields]
    · rw [← render_patP]; exact render_clean .P _
    · rw [← render_patP]; exact render_clean_upper .P _
  | X =>
    have b0 : g.D.toNat / 256 < 256 := by omega
    have b1 : g.D.toNat % 256 < 256 := by omega
    have c0 : g.E.toNat / 2 ^ 40 < 256 := by omega
    have c1 : g.E.toNat / 2 ^ 32 % 256 < 256 := by omega
    have c2 : g.E.toNat / 2 ^ 24 % 256 < 256 := by omega
    have c3 : g.E.toNat / 2 ^ 16 % 256 < 256 := by omega
    have c4 : g.E.toNat / 2 ^ 8 % 256 < 256 := by omega
    have c5 : g.E.toNat % 256 < 256 := by omega
    refine ⟨_, toFormatX_bytes g _ _ _ _ _ _ _ _ b0 b1 c0 c1 c2 c3 c4 c5 (dOf_split _).symm (eOf_split _ hE').symm, ?_, ?_, ?_⟩
    · intro s hs
      show fromFormatX s = _
      rw [fromFormatX_eq, hs, xCore_xText _ _ _ _ _ _ _ _ _ _ _ ha hb hc b0 b1 c0 c1 c2 c3 c4 c5, dOf_split,
        eOf_split _ hE', guidOfValues_fields]
    · rw [← render_patX]; exact render_clean .X _
    · rw [← render_patX]; exact render_clean_upper .X _

/-- **GUID → text → GUID, all five formats, any letter case and surrounding white space.**  For every GUID
    with `E < 2^48` and every format F, any text that is `ToFormat<F>(g)` up to letter case and surrounding
    white space is parsed by `FromFormat<F>` back to `g`. -/
theorem guid_format_then_parse (F : Fmt) (g : GUID) (hE : g.InWidth) (s : Bytes)
    (hs : toLower (trimSpace s) = format F g) : parse F s = .ok g := by
  obtain ⟨t, ht, hp, -, -⟩ := format_shape F g hE
  exact hp s (by rw [hs, ht])

/-- the two instances the property names: the text as printed, and the same text in upper case -/
theorem guid_format_then_parse_both_cases (F : Fmt) (g : GUID) (hE : g.InWidth) :
    parse F (format F g) = .ok g ∧ parse F (toUpper (format F g)) = .ok g := by
  obtain ⟨t, ht, hp, h1, h2⟩ := format_shape F g hE
  rw [ht]
  exact ⟨hp t h1, hp _ h2⟩

/-- **text → GUID → text, all five formats.**  Whatever `FromFormat<F>` accepts is printed back by
    `ToFormat<F>` as the input, lower-cased and trimmed; and the GUID it returns has `E < 2^48`. -/
theorem guid_parse_then_format (F : Fmt) (s : Bytes) (g : GUID) (h : parse F s = .ok g) :
    format F g = toLower (trimSpace s) ∧ g.InWidth := by
  cases F with
  | N =>
    have h' : nCore (toLower (trimSpace s)) = .ok g := h
    obtain ⟨a, b, c, d, e, ht, rfl, ha, hb, hc, hd, he⟩ := nCore_ok _ g (toLower_idem _) h'
    refine ⟨?_, ?_⟩
    · show toFormatN _ = _
      rw [toFormatN_guidOfValues a b c d e ha hb hc hd he, ht]
    · show (guidOfValues a b c d e).E.toNat < 2 ^ 48
      rw [(guidOfValues_toNat a b c d e ha hb hc hd he).2.2.2.2, ← pow16_12]; exact he
  | D =>
    have h' : dCore (toLower (trimSpace s)) = .ok g := h
    obtain ⟨a, b, c, d, e, ht, rfl, ha, hb, hc, hd, he⟩ := dCore_ok _ g h'
    refine ⟨?_, ?_⟩
    · show dashed _ = _
      rw [dashed_guidOfValues a b c d e ha hb hc hd he, ht]
    · show (guidOfValues a b c d e).E.toNat < 2 ^ 48
      rw [(guidOfValues_toNat a b c d e ha hb hc hd he).2.2.2.2, ← pow16_12]; exact he
  | B =>
    have h' : bracketCore patB (toLower (trimSpace s)) = .ok g := h
    obtain ⟨a, b, c, d, e, ht, rfl, ha, hb, hc, hd, he⟩ := bracketCore_ok patB lbrace rbrace fits_patB render_patB _ g h'
    refine ⟨?_, ?_⟩
    · show toFormatB _ = _
      simp [toFormatB, dashed_guidOfValues a b c d e ha hb hc hd he, ht]
    · show (guidOfValues a b c d e).E.toNat < 2 ^ 48
      rw [(guidOfValues_toNat a b c d e ha hb hc hd he).2.2.2.2, ← pow16_12]; exact he
  | P =>
    have h' : bracketCore patP (toLower (trimSpace s)) = .ok g := h
    obtain ⟨a, b, c, d, e, ht, rfl, ha, hb, hc, hd, he⟩ := bracketCore_ok patP lparen rparen fits_patP render_patP _ g h'
    refine ⟨?_, ?_⟩
    · show toFormatP _ = _
      simp [toFormatP, dashed_guidOfValues a b c d e ha hb hc hd he, ht]
    · show (guidOfValues a b c d e).E.toNat < 2 ^ 48
      rw [(guidOfValues_toNat a b c d e ha hb hc hd he).2.2.2.2, ← pow16_12]; exact he
  | X =>
    have h' : xCore (toLower (trimSpace s)) = .ok g := h
    obtain ⟨a, b, c, d0, d1, e0, e1, e2, e3, e4, e5, ht, rfl, ha, hb, hc, h0, h1, g0, g1, g2, g3, g4, g5⟩ := xCore_ok _ g h'
    have hd := dOf_lt d0 d1 h0 h1
    have he := eOf_lt e0 e1 e2 e3 e4 e5 g0 g1 g2 g3 g4 g5
    obtain ⟨v1, v2, v3, v4, v5⟩ := guidOfValues_toNat a b c (dOf d0 d1) (eOf e0 e1 e2 e3 e4 e5) ha hb hc hd he
    refine ⟨?_, ?_⟩
    · show toFormatX _ = _
      rw [toFormatX_bytes _ d0 d1 e0 e1 e2 e3 e4 e5 h0 h1 g0 g1 g2 g3 g4 g5 v4 v5, v1, v2, v3, ht]
    · show (guidOfValues a b c (dOf d0 d1) (eOf e0 e1 e2 e3 e4 e5)).E.toNat < 2 ^ 48
      rw [v5, ← pow16_12]; exact he

/-- no `FromFormat<F>` panics, on any input (the empty-string panic of B and P is repaired) -/
theorem guid_parse_never_panics (F : Fmt) (s : Bytes) : parse F s ≠ .panic := by
  intro h
  cases F with
  | N =>
    have h' : nCore (toLower (trimSpace s)) = .panic := h
    by_cases hl : (toLower (trimSpace s)).length = 32
    · rw [nCore_of_length _ hl] at h'
      unfold guidOfParts at h'
      repeat (first | (split at h') | (simp at h'))
    · unfold nCore at h'; rw [if_pos (by simpa using hl)] at h'; simp at h'
  | D =>
    have h' : dCore (toLower (trimSpace s)) = .panic := h
    unfold dCore at h'
    split at h'
    · simp at h'
    · split at h'
      · unfold guidOfParts at h'
        repeat (first | (split at h') | (simp at h'))
      · simp at h'
  | B =>
    have h' : bracketCore patB (toLower (trimSpace s)) = .panic := h
    cases hm : matchPat patB (toLower (trimSpace s)) with
    | false => unfold bracketCore at h'; rw [hm] at h'; simp at h'
    | true =>
      rw [matchPat_eq_isSome] at hm
      cases hp : parsePat patB (toLower (trimSpace s)) with
      | none => rw [hp] at hm; simp at hm
      | some vs =>
        obtain ⟨hrn, hf⟩ := parsePat_sound _ _ _ hp
        obtain ⟨a, b, c, d, e, rfl, ha, hb, hc, hd, he⟩ := fits_patD vs ((fits_patB vs).mp hf)
        rw [render_patB] at hrn
        rw [← hrn, bracketCore_text patB lbrace rbrace fits_patB render_patB a b c d e ha hb hc hd he] at h'
        simp at h'
  | P =>
    have h' : bracketCore patP (toLower (trimSpace s)) = .panic := h
    cases hm : matchPat patP (toLower (trimSpace s)) with
    | false => unfold bracketCore at h'; rw [hm] at h'; simp at h'
    | true =>
      rw [matchPat_eq_isSome] at hm
      cases hp : parsePat patP (toLower (trimSpace s)) with
      | none => rw [hp] at hm; simp at hm
      | some vs =>
        obtain ⟨hrn, hf⟩ := parsePat_sound _ _ _ hp
        obtain ⟨a, b, c, d, e, rfl, ha, hb, hc, hd, he⟩ := fits_patD vs ((fits_patP vs).mp hf)
        rw [render_patP] at hrn
        rw [← hrn, bracketCore_text patP lparen rparen fits_patP render_patP a b c d e ha hb hc hd he] at h'
        simp at h'
  | X =>
    have h' : xCore (toLower (trimSpace s)) = .panic := h
    cases hm : matchPat patX (toLower (trimSpace s)) with
    | false => unfold xCore at h'; rw [hm] at h'; simp at h'
    | true =>
      rw [matchPat_eq_isSome] at hm
      cases hp : parsePat patX (toLower (trimSpace s)) with
      | none => rw [hp] at hm; simp at hm
      | some vs =>
        obtain ⟨hrn, hf⟩ := parsePat_sound _ _ _ hp
        obtain ⟨a, b, c, d0, d1, e0, e1, e2, e3, e4, e5, rfl, ha, hb, hc, h0, h1, g0, g1, g2, g3, g4, g5⟩ := fits_patX vs hf
        rw [render_patX] at hrn
        rw [← hrn, xCore_xText a b c d0 d1 e0 e1 e2 e3 e4 e5 ha hb hc h0 h1 g0 g1 g2 g3 g4 g5] at h'
        simp at h'

/-! ## 6. `guid.FromString`: dispatch over the five formats -/

private def core : Fmt → Bytes → Outcome GUID
  | .N => nCore
  | .D => dCore
  | .B => bracketCore patB
  | .P => bracketCore patP
  | .X => xCore

private theorem parse_eq_core (F : Fmt) (s : Bytes) : parse F s = core F (toLower (trimSpace s)) := by
  cases F <;> rfl

private theorem clean_of_match (F : Fmt) (data : Bytes) (h : matchPat (pat F) data = true) :
    toLower (trimSpace data) = data := by
  rw [matchPat_eq_isSome] at h
  cases hp : parsePat (pat F) data with
  | none => rw [hp] at h; simp at h
  | some vs =>
    obtain ⟨hr, -⟩ := parsePat_sound _ _ _ hp
    rw [← hr]; exact render_clean F vs

private theorem match_of_parse_ok (F : Fmt) (s : Bytes) (g : GUID) (h : parse F s = .ok g) :
    matchPat (pat F) (toLower (trimSpace s)) = true := by
  rw [parse_eq_core] at h
  cases F with
  | N =>
    obtain ⟨a, b, c, d, e, ht, -⟩ := nCore_ok _ g (toLower_idem _) h
    rw [ht]; exact matchPat_patN_nText a b c d e
  | D =>
    cases hm : matchPat patD (toLower (trimSpace s)) with
    | true => exact hm
    | false => simp only [core, dCore] at h; rw [hm] at h; simp at h
  | B =>
    cases hm : matchPat patB (toLower (trimSpace s)) with
    | true => exact hm
    | false => simp only [core, bracketCore] at h; rw [hm] at h; simp at h
  | P =>
    cases hm : matchPat patP (toLower (trimSpace s)) with
    | true => exact hm
    | false => simp only [core, bracketCore] at h; rw [hm] at h; simp at h
  | X =>
    cases hm : matchPat patX (toLower (trimSpace s)) with
    | true => exact hm
    | false => simp only [core, xCore] at h; rw [hm] at h; simp at h

/-- the five languages are pairwise disjoint (lengths 32, 36, 38, 38, 68; B and P differ in the first character) -/
private theorem match_unique (F F' : Fmt) (data : Bytes) (h : matchPat (pat F) data = true)
    (h' : matchPat (pat F') data = true) : F = F' := by
  have l := length_of_matchPat _ _ h
  have l' := length_of_matchPat _ _ h'
  cases F <;> cases F' <;> first
    | rfl
    | (simp [pat, patN, patD, patB, patP, patX, patLen, zx] at l l'; omega)
    | (simp only [pat, patB, patP, patD, List.cons_append, List.nil_append, matchPat, Bool.and_eq_true] at h h'
       have a := h.1; have b := h'.1
       match data, a, b with
       | [], a, _ => simp [List.isPrefixOf] at a
       | c :: _, a, b =>
         simp only [List.isPrefixOf, Bool.and_true, beq_iff_eq] at a b
         rw [← a] at b
         exact absurd b (by decide))

/-- **`FromString` is the union of the five format parsers**: it accepts a text exactly when one of
    `FromFormatN/D/B/P/X` does, with the same result (so every round-trip statement above holds for
    `FromString` as well; in particular format X, which the unrepaired code mis-read). -/
theorem fromString_dispatch (s : Bytes) (g : GUID) : fromString s = .ok g ↔ ∃ F, parse F s = .ok g := by
  have key : ∀ F, matchPat (pat F) (toLower (trimSpace s)) = true → parse F (toLower (trimSpace s)) = parse F s := by
    intro F hm
    rw [parse_eq_core, parse_eq_core, clean_of_match F _ hm]
  constructor
  · intro h
    simp only [fromString] at h
    by_cases hN : matchPat patN (toLower (trimSpace s)) = true
    · rw [if_pos hN] at h; exact ⟨.N, (key .N hN).symm.trans h⟩
    · rw [if_neg hN] at h
      by_cases hD : matchPat patD (toLower (trimSpace s)) = true
      · rw [if_pos hD] at h; exact ⟨.D, (key .D hD).symm.trans h⟩
      · rw [if_neg hD] at h
        by_cases hB : matchPat patB (toLower (trimSpace s)) = true
        · rw [if_pos hB] at h; exact ⟨.B, (key .B hB).symm.trans h⟩
        · rw [if_neg hB] at h
          by_cases hP : matchPat patP (toLower (trimSpace s)) = true
          · rw [if_pos hP] at h; exact ⟨.P, (key .P hP).symm.trans h⟩
          · rw [if_neg hP] at h
            by_cases hX : matchPat patX (toLower (trimSpace s)) = true
            · rw [if_pos hX] at h; exact ⟨.X, (key .X hX).symm.trans h⟩
            · rw [if_neg hX] at h; simp at h
  · intro ⟨F, h⟩
    have hm := match_of_parse_ok F s g h
    have hf : ∀ F', F' ≠ F → ¬ (matchPat (pat F') (toLower (trimSpace s)) = true) := by
      intro F' hne hm'
      exact hne (match_unique F' F _ hm' hm)
    have hk := (key F hm).trans h
    simp only [fromString]
    cases F with
    | N =>
      have pN : matchPat patN (toLower (trimSpace s)) = true := hm
      rw [if_pos pN]; exact hk
    | D =>
      have nN : ¬ (matchPat patN (toLower (trimSpace s)) = true) := hf .N (by decide)
      have pD : matchPat patD (toLower (trimSpace s)) = true := hm
      rw [if_neg nN, if_pos pD]; exact hk
    | B =>
      have nN : ¬ (matchPat patN (toLower (trimSpace s)) = true) := hf .N (by decide)
      have nD : ¬ (matchPat patD (toLower (trimSpace s)) = true) := hf .D (by decide)
      have pB : matchPat patB (toLower (trimSpace s)) = true := hm
      rw [if_neg nN, if_neg nD, if_pos pB]; exact hk
    | P =>
      have nN : ¬ (matchPat patN (toLower (trimSpace s)) = true) := hf .N (by decide)
      have nD : ¬ (matchPat patD (toLower (trimSpace s)) = true) := hf .D (by decide)
      have nB : ¬ (matchPat patB (toLower (trimSpace s)) = true) := hf .B (by decide)
      have pP : matchPat patP (toLower (trimSpace s)) = true := hm
      rw [if_neg nN, if_neg nD, if_neg nB, if_pos pP]; exact hk
    | X =>
      have nN : ¬ (matchPat patN (toLower (trimSpace s)) = true) := hf .N (by decide)
      have nD : ¬ (matchPat patD (toLower (trimSpace s)) = true) := hf .D (by decide)
      have nB : ¬ (matchPat patB (toLower (trimSpace s)) = true) := hf .B (by decide)
      have nP : ¬ (matchPat patP (toLower (trimSpace s)) = true) := hf .P (by decide)
      have pX : matchPat patX (toLower (trimSpace s)) = true := hm
      rw [if_neg nN, if_neg nD, if_neg nB, if_neg nP, if_pos pX]; exact hk

/-- `FromString` never panics -/
theorem fromString_never_panics (s : Bytes) : fromString s ≠ .panic := by
  intro h
  simp only [fromString] at h
  have np := fun F => guid_parse_never_panics F (toLower (trimSpace s))
  split at h
  · exact np .N h
  · split at h
    · exact np .D h
    · split at h
      · exact np .B h
      · split at h
        · exact np .P h
        · split at h
          · exact np .X h
          · simp at h

/-! ## 7. UUIDv1 `Marshal` against the RFC 4122 layout -/

set_option linter.unusedVariables false in
private theorem encodeV1_bytes (a0 a1 a2 a3 a4 a5 a6 a7 a8 a9 a10 a11 a12 a13 a14 a15 : Nat)
    (h0 : a0 < 256) (h1 : a1 < 256) (h2 : a2 < 256) (h3 : a3 < 256) (h4 : a4 < 256) (h5 : a5 < 256) (h6 : a6 < 256)
    (h7 : a7 < 256) (h8 : a8 < 256) (h9 : a9 < 256) (h10 : a10 < 256) (h11 : a11 < 256) (h12 : a12 < 256)
    (h13 : a13 < 256) (h14 : a14 < 256) (h15 : a15 < 256) (hv : a6 / 16 = 1) :
    a0 * 2^120 + a1 * 2^112 + a2 * 2^104 + a3 * 2^96 + a4 * 2^88 + a5 * 2^80 + a6 * 2^72 + a7 * 2^64 + a8 * 2^56 +
      a9 * 2^48 + a10 * 2^40 + a11 * 2^32 + a12 * 2^24 + a13 * 2^16 + a14 * 2^8 + a15 =
    RFC4122.encodeV1 (a8 / 16)
      (a3 + a2 * 2^8 + a1 * 2^16 + a0 * 2^24 + a5 * 2^32 + a4 * 2^40 + a7 * 2^48 + (a6 % 16) * 2^56)
      (a9 + (a8 % 16) * 2^8)
      ((((((0 * 256 + a10) * 256 + a11) * 256 + a12) * 256 + a13) * 256 + a14) * 256 + a15) := by
  unfold RFC4122.encodeV1
  omega

/-- **RFC 4122 §4.1.2 layout of what `UUIDv1.Marshal` writes.**  For every field assignment within the
    library's widths the 16 bytes are, as a 128-bit big-endian number, `time_low ‖ time_mid ‖ 1:time_hi ‖
    variant-nibble:clock_seq[11..8] ‖ clock_seq_low ‖ node`. -/
theorem v1_marshal_eq_rfc4122 (v : V1) (h : v.InWidth) :
    RFC4122.number (v1Marshal v) =
      RFC4122.encodeV1 v.variant.toNat v.time.toNat v.clockSeq.toNat (beNat [v.n0, v.n1, v.n2, v.n3, v.n4, v.n5]) := by
  have hrt := v1_fields_roundtrip_partial v h
  have hl : (v1Marshal v).length = 16 := length_marshal _
  obtain ⟨m0, m1, m2, m3, m4, m5, m6, m7, m8, m9, m10, m11, m12, m13, m14, m15, rest, hb⟩ :=
    exists_cons16 (v1Marshal v) (by omega)
  have : rest = [] := by
    rw [hb] at hl
    simp only [List.length_cons] at hl
    exact List.eq_nil_of_length_eq_zero (by omega)
  subst this
  rw [hb] at hrt ⊢
  rw [v1Unmarshal_16] at hrt
  split at hrt
  · rename_i hv
    simp only [Outcome.ok.injEq] at hrt
    obtain ⟨f1, f2, f3, f4⟩ := v1_fields_16 m0 m1 m2 m3 m4 m5 m6 m7 m8 m9 m10 m11 m12 m13 m14 m15
    rw [hrt] at f1 f2 f3 f4
    simp only [List.cons.injEq, and_true] at f4
    obtain ⟨g0, g1, g2, g3, g4, g5⟩ := f4
    rw [number16, f1, f2, f3, g0, g1, g2, g3, g4, g5]
    simp only [beNat, List.foldl_cons, List.foldl_nil]
    have := encodeV1_bytes m0.toNat m1.toNat m2.toNat m3.toNat m4.toNat m5.toNat m6.toNat m7.toNat m8.toNat m9.toNat
      m10.toNat m11.toNat m12.toNat m13.toNat m14.toNat m15.toNat m0.toNat_lt m1.toNat_lt m2.toNat_lt m3.toNat_lt
      m4.toNat_lt m5.toNat_lt m6.toNat_lt m7.toNat_lt m8.toNat_lt m9.toNat_lt m10.toNat_lt m11.toNat_lt m12.toNat_lt
      m13.toNat_lt m14.toNat_lt m15.toNat_lt hv
    exact this
  · simp at hrt

/-! ## 8. Agreement with the readable specifications used by the run-time oracle -/

/-- **Nibble view of `Marshal`/`Unmarshal`.**  In the 32 nibbles of the 16 bytes, nibble 12 is the version
    (RFC 4122 §4.1.3), nibble 16 the library's "variant", and the other thirty are `Data` in order. -/
theorem uuid_marshal_eq_spec :
    (∀ u : UUID, u.InWidth → marshal u = specJoin u.version.toNat u.variant.toNat u.data.toList) ∧
    (∀ m0 m1 m2 m3 m4 m5 m6 m7 m8 m9 m10 m11 m12 m13 m14 m15 : UInt8,
      ∃ u, unmarshal [m0, m1, m2, m3, m4, m5, m6, m7, m8, m9, m10, m11, m12, m13, m14, m15] = .ok u ∧
        specSplit [m0, m1, m2, m3, m4, m5, m6, m7, m8, m9, m10, m11, m12, m13, m14, m15] =
          (u.version.toNat, u.variant.toNat, u.data.toList)) :=
  ⟨marshal_eq_specJoin, unmarshal_eq_specSplit⟩

/-- **MS-DTYP 2.3.4.3 / .NET format specifiers.**  For every GUID with `E < 2^48`, each `ToFormat<F>` is the
    text of the GUID's MS-DTYP value: `Data1`, `Data2`, `Data3` as 8/4/4 hex digits and the eight bytes of
    `Data4` in order (B is the MS-DTYP curly-braced string). -/
theorem guid_text_eq_msdtyp (F : Fmt) (g : GUID) (hE : g.InWidth) : format F g = MSDTYP.text F (toSpec g) := by
  cases F with
  | N => exact toFormatN_eq_textN g hE
  | D => exact dashed_eq_textD g hE
  | B => show toFormatB g = MSDTYP.textB _; unfold toFormatB MSDTYP.textB; rw [dashed_eq_textD g hE]
  | P => show toFormatP g = MSDTYP.textP _; unfold toFormatP MSDTYP.textP; rw [dashed_eq_textD g hE]
  | X => exact toFormatX_eq_textX g hE

/-! ### non-vacuity: the hypotheses are met by concrete values, and the statements compute -/

example : (⟨4, 9, ⟨0, 1, 2, 3, 4, 5, 6, 7, 8, 9, 10, 11, 12, 13, 14⟩⟩ : UUID).InWidth := ⟨by decide, by decide⟩
example : marshal ⟨4, 9, ⟨0, 1, 2, 3, 4, 5, 6, 7, 8, 9, 10, 11, 12, 13, 14⟩⟩ =
    [0, 1, 2, 3, 4, 5, 0x40, 0x60, 0x97, 8, 9, 10, 11, 12, 13, 14] := by decide
/-- `6ba7b810-9dad-11d1-80b4-00c04fd430c8` (the RFC 4122 DNS namespace, a version-1 UUID) -/
example : v1Unmarshal [0x6b, 0xa7, 0xb8, 0x10, 0x9d, 0xad, 0x11, 0xd1, 0x80, 0xb4, 0x00, 0xc0, 0x4f, 0xd4, 0x30, 0xc8] =
    .ok ⟨8, 0x1d19dad6ba7b810, 0x0b4, 0x00, 0xc0, 0x4f, 0xd4, 0x30, 0xc8⟩ := by decide
example : (⟨8, 0x1d19dad6ba7b810, 0x0b4, 0x00, 0xc0, 0x4f, 0xd4, 0x30, 0xc8⟩ : V1).InWidth := ⟨by decide, by decide, by decide⟩
example : KnownBad_clockseq12 0x0b4 = false := by decide
example : (⟨8, 7, 0x1d19dad00000000, 3, 200, 1, 2, 3, 4, 5, 6⟩ : V2).InWidth := ⟨by decide, by decide, by decide, by decide⟩
example : (⟨0x12345678, 0x1234, 0x5678, 0x9abc, 0xdef012345678⟩ : GUID).InWidth := by unfold GUID.InWidth; decide
/-- `{0x12345678,0x1234,0x5678,{0x9A,0xbc,0xde,0xf0,0x12,0x34,0x56,0x78}}` with a leading blank -/
example : fromString ([32, 123, 48, 120] ++ asciiBytes "12345678,0x1234,0x5678,{0x9A,0xbc,0xde,0xf0,0x12,0x34,0x56,0x78}}") =
    .ok ⟨0x12345678, 0x1234, 0x5678, 0x9abc, 0xdef012345678⟩ := by decide
example : toFormatD ⟨0x12345678, 0x1234, 0x5678, 0x9abc, 0xdef012345678⟩ = asciiBytes "12345678-1234-5678-9abc-def012345678" := by
  decide
/-- the under-length text the unrepaired `FromFormatD` accepted -/
example : fromFormatD (asciiBytes "1-2-3-4-5") = .err := by decide
example : fromFormatB [] = .err := by decide
example : uuidFromString (asciiBytes "0123456789abcdef0123456789abcdef") = .err := by decide

end Manticore.C13
