/-
  C04 — Every SMB1 command structure round-trips all of its fields through the wire.
  Property theorems only.  The per-command facts are decided by the kernel on the marshal and
  unmarshal programs regenerated from /repo on this run.
-/
import Manticore.Model.SmbCmd
import Manticore.Model.SmbCodecs
import Manticore.Gen.SmbCommands
namespace Manticore.C04
open Manticore Manticore.SmbIR Manticore.Gen.SmbCommands

/-- the commands whose two programs are NOT established to mirror each other: exactly these 31.
    For the other 84 structures `Mirror` holds: same slots, same order, same widths, same byte order and
    same length dependencies in Marshal and Unmarshal.  Swapping two reads, changing a width or an
    endianness on one side only, or dropping a field in any of the 84 makes this fail to check. -/
theorem non_mirror_commands :
    (commands.filter (fun c => !Mirror c)).map (·.name) =
      ["CreateTemporaryResponse", "FindCloseResponse", "FindResponse", "FindUniqueResponse", "LockAndReadResponse",
       "LockingAndxRequest", "NegotiateRequest", "NegotiateResponse", "NtCreateAndxRequest", "NtCreateAndxResponse",
       "OpenAndxRequest", "OpenAndxResponse", "QueryInformation2Response", "ReadAndxRequest", "ReadAndxResponse",
       "ReadRawRequest", "ReadResponse", "RenameRequest", "SessionSetupAndxRequest", "SessionSetupAndxResponse",
       "TransactionRequest", "TreeConnectAndxRequest", "TreeConnectAndxResponse", "TreeConnectRequest",
       "WriteAndCloseRequest", "WriteAndUnlockRequest", "WriteAndxRequest", "WriteAndxResponse", "WriteMpxRequest",
       "WriteRawRequest", "WriteRequest"] := by decide +kernel

/-- the recorded round-trip findings, decided on the extracted programs: exactly these commands and
    reasons (KNOWN_FINDINGS.txt lists the same keys).  A new structural defect in another command
    changes this list. -/
theorem known_roundtrip_findings :
    commands.filterMap (fun c => (knownRtKind c).map (fun k => (k, c.name))) =
      [(.fieldNotUnmarshalled, "CreateTemporaryResponse"), (.fixedEntrySize, "FindResponse"), (.fixedEntrySize, "FindUniqueResponse"),
       (.fieldNotMarshalled, "LockAndReadResponse"), (.andxNotConsumed, "LockingAndxRequest"),
       (.fieldNotMarshalled, "NegotiateRequest"), (.fieldNotMarshalled, "NegotiateResponse"),
       (.andxNotConsumed, "NtCreateAndxRequest"), (.andxNotConsumed, "NtCreateAndxResponse"),
       (.andxNotConsumed, "OpenAndxRequest"), (.andxNotConsumed, "OpenAndxResponse"),
       (.fieldNotUnmarshalled, "QueryInformation2Response"), (.fieldNotMarshalled, "QueryInformationResponse"),
       (.andxNotConsumed, "ReadAndxRequest"), (.andxNotConsumed, "ReadAndxResponse"), (.conditionalField, "ReadRawRequest"),
       (.fieldNotMarshalled, "ReadResponse"), (.andxNotConsumed, "SessionSetupAndxRequest"),
       (.andxNotConsumed, "SessionSetupAndxResponse"), (.andxNotConsumed, "TreeConnectAndxRequest"),
       (.andxNotConsumed, "TreeConnectAndxResponse"), (.readsWholeBuffer, "TreeConnectRequest"),
       (.conditionalField, "WriteAndCloseRequest"), (.andxNotConsumed, "WriteAndxRequest"),
       (.andxNotConsumed, "WriteAndxResponse"), (.conditionalField, "WriteRawRequest")] := by decide +kernel

theorem command_count : commands.length = 115 := by decide +kernel

end Manticore.C04
