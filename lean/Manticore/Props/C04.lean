/-
  C04 — Every SMB1 command structure round-trips all of its fields through the wire.
  Property theorems only.  The per-command facts are decided by the kernel on the marshal and
  unmarshal programs regenerated from /repo on this run; the generic theorem `mirror_roundtrip`
  turns the decided `Mirror` facts into a statement about all field values.
  Helper lemmas: `Manticore/Lemmas/Smb{Basics,Marshal,Unmarshal,Mirror,Std}.lean`; for the loop fragment
  (`MirrorLoops`, Model/SmbLoops.lean) `Manticore/Lemmas/SmbLoops{,Unmarshal,Reencode,Mirror}.lean`.
-/
import Manticore.Model.SmbCmd
import Manticore.Model.SmbPinned
import Manticore.Model.SmbCodecs
import Manticore.Gen.SmbCommands
import Manticore.Lemmas.SmbMirror
import Manticore.Lemmas.SmbLoopsMirror
import Manticore.Lemmas.SmbStd
import Manticore.Lemmas.SmbLocality
import Manticore.Props.C04.Direct
namespace Manticore.C04
open Manticore Manticore.SmbIR Manticore.Gen.SmbCommands

/-- the commands whose two programs are NOT established to mirror each other: exactly these 19.
    For the other 96 structures `Mirror` holds: same slots, same order, same widths, same byte order and
    same length dependencies in Marshal and Unmarshal, no field changed after it was emitted, offsets
    reset between the blocks, lengths read before the buffers they describe, guards no larger than the
    reads they protect, every declared field on the wire, and — for the AndX commands — the AndX block
    read from the head of the parameter stream and exactly its four bytes cut off before the first field
    is read.  Swapping two reads, changing a width or an endianness on one side only, dropping a field,
    an `offset = 0` or the AndX stanza (or cutting off another number of bytes) in any of the 96 makes
    this fail to check.  Ten of the sixteen AndX commands are inside (the three without fields,
    NtCreateAndxRequest/Response, ReadAndxRequest/Response, TreeConnectAndxRequest/Response,
    WriteAndxResponse); the other six have loops, padding arithmetic or an optional field and are in the loop
    fragment (`loop_mirror_commands`).  A nested value decoded from the whole block right behind `offset = 0` is read
    as decoded from `blk[offset:]` (`normWhole`: ReadResponse, FindCloseResponse, WriteAndUnlockRequest). -/
theorem non_mirror_commands :
    (commands.filter (fun c => !Mirror c)).map (·.name) =
      ["FindResponse", "FindUniqueResponse", "LockAndReadResponse", "LockingAndxRequest",
       "NegotiateRequest", "NegotiateResponse", "OpenAndxRequest", "OpenAndxResponse",
       "QueryInformationResponse", "ReadRawRequest", "RenameRequest", "SessionSetupAndxRequest",
       "SessionSetupAndxResponse", "TransactionRequest", "WriteAndCloseRequest",
       "WriteAndxRequest", "WriteMpxRequest", "WriteRawRequest", "WriteRequest"] := by decide +kernel

/-- **every AndX command consumes its AndX block**: each of the 16 structures whose `IsAndX` returns
    true has the stanza (early returns on an empty parameter stream only, `AndX.Unmarshal` of the
    stream with its error checked, `P = P[4:]`) in front of its first read; no other structure has it. -/
theorem andx_consumed :
    commands.all (fun c => c.isAndX == (splitAndX c.unmarshal).isSome) = true ∧
      (commands.filter (·.isAndX)).length = 16 := by decide +kernel

/-- the recorded round-trip findings, decided on the extracted programs: exactly these commands and
    reasons (KNOWN_FINDINGS.txt lists the same keys): the two 43-byte entry windows, which are MS-CIFS's size.  The
    other fourteen entries this list once had were repaired in the repository (fixes/C04-*.diff): a field never
    marshalled or never unmarshalled, nested strings decoded from the start of the block, an optional field under a
    word count never reached or not reset.  A new structural defect in another command changes this list. -/
theorem known_roundtrip_findings :
    commands.filterMap (fun c => (knownRtKind c).map (fun k => (k, c.name))) =
      [(.fixedEntrySize, "FindResponse"), (.fixedEntrySize, "FindUniqueResponse")] := by decide +kernel

/-- **every buffer is sized by the field documented to size it**: the (command, buffer, length) and
    (command, list, count) relations the regenerated unmarshal programs rely on are exactly the pinned
    ones of `Spec/SmbRelations.lean` (54 relations: 50 buffers and lists, and the arithmetic behind the two `Pad`
    fields of SESSION_SETUP_ANDX — `padLen` starts from `UnicodePasswordLen` and is rounded up to even / starts from 0
    and is 1 when `len(P)+3` is odd).  A decoder that starts reading a buffer with another
    count field makes this fail, and the round-trip specification — which uses the pinned table —
    then exhibits an assignment that no longer survives. -/
theorem length_relations_pinned :
    extractedRelations commands = Manticore.Spec.SmbRelations.relations := by decide +kernel

theorem command_count : commands.length = 115 := by decide +kernel

/-! ## the generic round trip -/

/-- **Layer 1/2 — Marshal is the layout.**  For a marshal program of the straight-line fragment
    (`layoutM` accepts it) that does not change a field after emitting it, the two raw streams `runM`
    builds are exactly the `layoutBytes` of the layout's parameter and data slots, evaluated on the
    field values Marshal leaves behind (`s.env`); nothing is put ahead of the parameter block. -/
theorem marshal_is_layout {C : Codecs} {T : String → Prop} (hC : LawfulCodecs C T) (c : Cmd) (m : List Slot)
    (hl : layoutM c.marshal = some m) (hst : stableM c.marshal = true) (hT : ∀ t ∈ c.subTypes, T t)
    (env : Env) (s : MState) (hrun : runM C c env = .ok s) (hfit : intsFit s.env c.marshal = true) :
    s.P = layoutBytes C s.env (m.filter (·.blk == .P)) ∧ s.D = layoutBytes C s.env (m.filter (·.blk == .D)) ∧
      s.head = [] := by
  obtain ⟨hP, hD, hH, _⟩ := runMStmts_layout hC c.isAndX c.marshal m { env := prologueEnv c.isAndX env } s hl hst
    (fun b f t h => hT t (mem_subTypes h)) hrun hfit
  exact ⟨by simpa using hP, by simpa using hD, hH⟩

/-- **Layer 3 — Unmarshal reads the layout back.**  An unmarshal program of the straight-line
    fragment that keeps the offset discipline (`okU`), started at offset 0 on two streams that are the
    `layoutBytes` of its own layout `u` for field values `env'` (which satisfy the program's relations
    and fit the slots), whatever lies behind the streams in their backing arrays (`Pext`, `Dext`) and
    whatever the fields held before (`env0`), returns an environment; unless both tested blocks are
    empty, every field of the layout holds the value `env'` gives it. -/
theorem unmarshal_reads_layout {C : Codecs} {T : String → Prop} (hC : LawfulCodecs C T) (c : Cmd) (u : List Slot)
    (hl : layoutU c.unmarshal = some u)
    (hok : okU (!(u.filter (·.blk == .P)).isEmpty) (!(u.filter (·.blk == .D)).isEmpty) {} [] c.unmarshal = true)
    (hlast : ∀ b, restOnlyLast (u.filter (·.blk == b)) = true)
    (env' env0 : Env) (plen : Nat) (hrel : relationsHold C env' plen 0 c.unmarshal = true) (hfit : ∀ sl ∈ u, SlotFit C T env' sl)
    (wc : Nat) (Pext Dext : Bytes) :
    ∃ d, runU C c env0 wc (layoutBytes C env' (u.filter (·.blk == .P))) (layoutBytes C env' (u.filter (·.blk == .D)))
          Pext Dext = .ok d ∧
      (layoutBytes C env' (u.filter (·.blk == .P)) ≠ [] ∨ layoutBytes C env' (u.filter (·.blk == .D)) ≠ [] →
        ∀ f ∈ u.map Slot.field, d.get f = env'.get f) := by
  have hinv : Inv C env' {} (layoutBytes C env' (u.filter (·.blk == .P))) (layoutBytes C env' (u.filter (·.blk == .D))) 0 u :=
    ⟨fun b _ => (by cases b <;> exact Or.inr rfl), fun b hb => (by cases hb), fun _ => rfl⟩
  obtain ⟨d, hd, _, hag⟩ := runU_go_layout hC env' plen _ _ c.unmarshal u {} []
    { P := layoutBytes C env' (u.filter (·.blk == .P)), D := layoutBytes C env' (u.filter (·.blk == .D)),
      Pext := Pext, Dext := Dext, wordCount := wc, env := env0 } 0 hl hok hrel hfit hlast hinv (fun f hf => by cases hf)
  refine ⟨d, hd, fun hne f hf => hag ?_ f (Or.inr hf)⟩
  rcases hne with h | h
  · refine Or.inl ⟨?_, h⟩
    have : u.filter (·.blk == .P) ≠ [] := by intro e; apply h; rw [e]; rfl
    simpa using this
  · refine Or.inr ⟨?_, h⟩
    have : u.filter (·.blk == .D) ≠ [] := by intro e; apply h; rw [e]; rfl
    simpa using this

/-- **C04, generic round trip.**  For every command whose regenerated programs satisfy the
    kernel-decidable predicate `Mirror`, every codec table satisfying `LawfulCodecs` on the nested
    types the command uses, every internally consistent field assignment `env`, and every initial
    state `env0` of the receiving structure: `Marshal` succeeds, `Unmarshal` of the bytes succeeds, and
    every declared field — and, for an AndX command, the AndX block (`Cmd.roundTripFields`) — comes back
    with the value `Marshal` left in it (`SetBufferFormat`, nested `Marshal` normalise the sender's fields,
    the prologue gives a command without an AndX block the default one; `env'` is the sender after the call).
    Hypotheses on the presence/kind of fields are not needed: `consistent` already implies that
    `Marshal` ran, and `Unmarshal` assigns every declared field. -/
theorem mirror_roundtrip {C : Codecs} {T : String → Prop} (hC : LawfulCodecs C T) (c : Cmd)
    (hm : Mirror c = true) (hT : ∀ t ∈ c.subTypes, T t) (env0 env : Env) (hc : consistent C c env = true) :
    ∃ bs env' d, encodeCmd C c env = .ok bs ∧ envAfterMarshal C c env = .ok env' ∧
      decodeCmd C c env0 bs = .ok d ∧ ∀ f ∈ c.roundTripFields, d.get f = env'.get f :=
  mirror_roundtrip_core hC c hm hT env0 env hc

/-- **The standard codecs** (the C06 models behind `Manticore.SmbCodecs.std`) **satisfy the codec laws**
    on `SmbCodecs.lawfulTypes`: every nested type except `Dialects` (decodes to the end of its input) and
    `SMB_DIRECTORY_INFORMATION` (not attempted); neither occurs in a `Mirror` command.
    `SMB_NMPIPE_STATUS`, whose decoder rejects trailing bytes (C06 finding `nmpipe_trailing`), satisfies the
    decode law for its own two bytes only (`exactLen`), which is what `Mirror` asks of a command reading it:
    a window of exactly that size (NtCreateAndxResponse since fixes/C04-andx-nmpipe-window.diff). -/
theorem std_lawful : LawfulCodecs Manticore.SmbCodecs.std (· ∈ Manticore.SmbCodecs.lawfulTypes) :=
  Manticore.SmbStd.std_lawful_core

/-- every nested type a `Mirror` command marshals is one of the lawful ones (decided on the
    regenerated programs) -/
theorem mirror_types_lawful :
    commands.all (fun c => !Mirror c || c.subTypes.all (Manticore.SmbCodecs.lawfulTypes.contains ·)) = true := by
  decide +kernel

/-- **C04 for the regenerated commands.**  Each of the 96 `Mirror` command structures of this tree
    round-trips every declared field and its AndX block, for all internally consistent field values and all initial
    states of the receiver, with the C06 models as nested codecs. -/
theorem smb_roundtrip (c : Cmd) (hmem : c ∈ commands) (hm : Mirror c = true) (env0 env : Env)
    (hc : consistent Manticore.SmbCodecs.std c env = true) :
    ∃ bs env' d, encodeCmd Manticore.SmbCodecs.std c env = .ok bs ∧
      envAfterMarshal Manticore.SmbCodecs.std c env = .ok env' ∧
      decodeCmd Manticore.SmbCodecs.std c env0 bs = .ok d ∧ ∀ f ∈ c.roundTripFields, d.get f = env'.get f := by
  refine mirror_roundtrip std_lawful c hm ?_ env0 env hc
  intro t ht
  have h := List.all_eq_true.mp mirror_types_lawful c hmem
  rw [hm] at h
  simp only [Bool.not_true, Bool.false_or, List.all_eq_true, List.contains_iff_mem] at h
  exact h t ht

/-! ## re-encoding -/

/-- **C04, re-encoding (generic).**  Under the hypotheses of `mirror_roundtrip`, for a marshal program
    of the `Reencodable` shape (each `SetBufferFormat` immediately before the `Marshal` of the same
    field, nothing assigning `F` or `G` after a `c.F = len(c.G)`, only declared fields emitted or measured) and codecs whose `Marshal` keeps the
    buffer format just set (`LawfulFmt`): marshalling the decoded structure again yields the same bytes. -/
theorem mirror_reencode {C : Codecs} {T F : String → Prop} (hC : LawfulCodecs C T) (hF : LawfulFmt C F) (c : Cmd)
    (hm : Mirror c = true) (hre : Reencodable c = true) (hT : ∀ t ∈ c.subTypes, T t) (hFt : ∀ t ∈ c.fmtTypes, F t)
    (env0 env : Env) (hc : consistent C c env = true) :
    ∃ bs d, encodeCmd C c env = .ok bs ∧ decodeCmd C c env0 bs = .ok d ∧ encodeCmd C c d = .ok bs :=
  mirror_reencode_core hC hF c hm hre hT hFt env0 env hc

/-- `SMB_STRING.Marshal` keeps the buffer format `SetBufferFormat` has just set (the only nested type
    a command sets a format on) -/
theorem std_lawful_fmt : LawfulFmt Manticore.SmbCodecs.std (· = "SMB_STRING") :=
  Manticore.SmbStd.std_lawful_fmt_core

/-- every `Mirror` command of this tree has the `Reencodable` shape and sets buffer formats on
    `SMB_STRING` fields only (decided on the regenerated programs) -/
theorem mirror_reencodable :
    commands.all (fun c => !Mirror c || (Reencodable c && c.fmtTypes.all (· == "SMB_STRING"))) = true := by
  decide +kernel

/-- **C04, re-encoding, for the regenerated commands**: for each of the 96 `Mirror` structures,
    unmarshalling the bytes of a consistent structure and marshalling the result gives the same bytes. -/
theorem smb_reencode (c : Cmd) (hmem : c ∈ commands) (hm : Mirror c = true) (env0 env : Env)
    (hc : consistent Manticore.SmbCodecs.std c env = true) :
    ∃ bs d, encodeCmd Manticore.SmbCodecs.std c env = .ok bs ∧ decodeCmd Manticore.SmbCodecs.std c env0 bs = .ok d ∧
      encodeCmd Manticore.SmbCodecs.std c d = .ok bs := by
  have h1 := List.all_eq_true.mp mirror_types_lawful c hmem
  have h2 := List.all_eq_true.mp mirror_reencodable c hmem
  rw [hm] at h1 h2
  simp only [Bool.not_true, Bool.false_or, List.all_eq_true, List.contains_iff_mem, Bool.and_eq_true,
    beq_iff_eq] at h1 h2
  exact mirror_reencode std_lawful std_lawful_fmt c hm h2.1 h1 h2.2 env0 env hc

/-! ## the loop fragment: list fields marshalled by a `range` loop and read back by a counted loop -/

/-- **Which commands the loop fragment adds**: exactly these fourteen satisfy `MirrorLoops` without satisfying
    `Mirror`.  LockingAndxRequest: two lists of LOCKING_ANDX_RANGE64 written by `range` loops and read back by
    counted loops running to `NumberOfRequestedUnlocks` / `NumberOfRequestedLocks` through 20-byte windows;
    OpenAndxRequest, OpenAndxResponse, LockAndReadResponse, QueryInformationResponse: the fixed array `Reserved [n]USHORT`
    written by a `range` loop and filled in place (the last three since fixes/C04-reserved-words-marshalled.diff and
    fixes/C04-openandx-response-nmpipe-reserved.diff);
    TransactionRequest: `Setup []USHORT` read back by a loop running to `SetupCount` into a freshly made list;
    WriteAndxRequest, WriteRawRequest, ReadRawRequest: `OffsetHigh` written iff non-zero as the last parameter field,
    set to zero by Unmarshal and then read under `WordCount == 14` (10 for READ_RAW), the word count the block has
    with it (12, 8 without);
    WriteAndCloseRequest: the optional *array* `Reserved [3]ULONG`, written iff one element is non-zero, zeroed by
    Unmarshal and then read under `WordCount == 14` (8 without; the 8-byte `LastWriteTime` in front of it counts with
    its `fixedSize`);
    SessionSetupAndxRequest, SessionSetupAndxResponse: `Pad` read with a length computed by arithmetic
    (`UnicodePasswordLen` rounded up to even; one byte when `len(P)+3` is odd);
    WriteMpxRequest (and WriteAndxRequest): the last buffer read not followed by an advance of `offset`;
    RenameRequest: `c.SearchAttributes.Unmarshal(P[offset:offset+2]); offset += 2` — neither the error nor the count of
    the nested decoder is looked at, `offset` moves by the window: admitted through a window of the type's `fixedSize`
    only, where the decoder cannot fail on a value of the domain and would report that very count
    (`rename_request_unchecked_decode_total`: on this two-byte window it cannot fail on any bytes at all). -/
theorem loop_mirror_commands :
    (commands.filter (fun c => MirrorLoops c && !Mirror c)).map (·.name) =
      ["LockAndReadResponse", "LockingAndxRequest", "OpenAndxRequest", "OpenAndxResponse",
       "QueryInformationResponse", "ReadRawRequest", "RenameRequest", "SessionSetupAndxRequest",
       "SessionSetupAndxResponse", "TransactionRequest", "WriteAndCloseRequest",
       "WriteAndxRequest", "WriteMpxRequest", "WriteRawRequest"] := by decide +kernel

/-- `MirrorLoops` extends `Mirror`: each of the 96 `Mirror` commands satisfies it -/
theorem mirror_loops_extends : commands.all (fun c => !Mirror c || MirrorLoops c) = true := by decide +kernel

/-- **What is still outside the fragment predicates**: exactly these 5 commands satisfy neither.  NegotiateRequest
    (`Dialects` reads to the end of its input and is not among the lawful nested types) and WriteRequest (`Data` decoded
    with error and count dropped behind a guard the type does not size, `offset` then moved by `c.Data.Length`; its
    Marshal was repaired, fixes/C04-writerequest-data-block.diff) each have their own theorem with the statement of
    `mirror_loops_roundtrip`: `negotiate_request_roundtrip`, `write_request_roundtrip` (Props/C04/Direct.lean).  Two
    carry the recorded structural finding (`known_roundtrip_findings`: a 43-byte window for 53-byte entries);
    NegotiateResponse writes and reads two null-terminated strings (literal terminator bytes, `rawDataContent`
    re-sliced) and alone rests on the correspondence runs without a finding. -/
theorem non_mirror_loops_commands :
    (commands.filter (fun c => !MirrorLoops c)).map (·.name) =
      ["FindResponse", "FindUniqueResponse", "NegotiateRequest", "NegotiateResponse",
       "WriteRequest"] := by decide +kernel

/-- **C04, generic round trip over the loop fragment.**  As `mirror_roundtrip`, for every command whose
    regenerated programs satisfy `MirrorLoops`: the only statements outside the straight-line fragment are
    `for _, x := range c.F { PutUint…(x) }` against `c.F = make([]T, c.G); for i < int(c.G) {…}` or
    `for i := range c.F {…}` (fixed array), and `for _, x := range c.F { x.Marshal() }` against
    `c.F = []T{}; for i < int(c.G) { if len(blk) < offset+size {err}; x.Unmarshal(blk[offset:offset+size]); … }`.
    `consistent` asks of a counted list that it has `c.G` entries (the pinned relations of
    `Spec/SmbRelations.lean`, `length_relations_pinned`), that its integers fit their width, and of nested
    elements that each is in its type's domain and is left as it is by its own `Marshal` (`tupOk`, `tupFix`: the
    loop marshals a copy, so the sender keeps the element as it was).  The codec laws are needed on the element
    types too (`Cmd.subTypesL`).  An integer emitted iff non-zero (`if c.F != 0 { … }`, last parameter field behind
    fixed-width fields) against `c.F = 0; if WordCount == k { … }`: both forms round-trip, `WordCount` telling which
    (`optTrailing`: `k` is the word count with the field and not the one without), whatever the receiver held.  A buffer whose length is the
    local `padLen` (`padLen := int(c.G)` / `0`, then `if padLen%2 == 1 { padLen++ }` or `if (len(P)+3)%2 == 1 { padLen = 1 }`):
    `consistent` asks that the sender's buffer has the length that arithmetic gives (`relationsHold`).
    `receiverFits` is what Unmarshal takes from the receiving structure instead of from the wire: a fixed array has
    the length of the sender's — in Go both have the declared length `[n]T`; the model's environments are untyped.
    (It said more before fixes/C04-optional-offsethigh-reset.diff: an optional integer the sender holds as zero had to
    be zero in the receiver, because the short form left a stale value in place; the fragment now admits an optional
    integer only behind its reset, `optional_stale_reset`.) -/
theorem mirror_loops_roundtrip {C : Codecs} {T : String → Prop} (hC : LawfulCodecs C T) (c : Cmd)
    (hm : MirrorLoops c = true) (hT : ∀ t ∈ c.subTypesL, T t) (env0 env : Env) (hc : consistent C c env = true)
    (hrecv : receiverFits c env0 env = true) :
    ∃ bs env' d, encodeCmd C c env = .ok bs ∧ envAfterMarshal C c env = .ok env' ∧
      decodeCmd C c env0 bs = .ok d ∧ ∀ f ∈ c.roundTripFields, d.get f = env'.get f :=
  mirror_loops_roundtrip_core hC c hm hT env0 env hc hrecv

/-- **C04, re-encoding over the loop fragment** (as `mirror_reencode`): marshalling the decoded structure
    again yields the same bytes. -/
theorem mirror_loops_reencode {C : Codecs} {T F : String → Prop} (hC : LawfulCodecs C T) (hF : LawfulFmt C F) (c : Cmd)
    (hm : MirrorLoops c = true) (hre : ReencodableL c = true) (hT : ∀ t ∈ c.subTypesL, T t) (hFt : ∀ t ∈ c.fmtTypes, F t)
    (env0 env : Env) (hc : consistent C c env = true) (hrecv : receiverFits c env0 env = true) :
    ∃ bs d, encodeCmd C c env = .ok bs ∧ decodeCmd C c env0 bs = .ok d ∧ encodeCmd C c d = .ok bs :=
  mirror_loops_reencode_core hC hF c hm hre hT hFt env0 env hc hrecv

/-- every nested type a `MirrorLoops` command marshals — list elements included — is one of the lawful ones, and
    every such command has the re-encodable shape, setting buffer formats on `SMB_STRING` fields only -/
theorem mirror_loops_types_lawful :
    commands.all (fun c => !MirrorLoops c ||
      (c.subTypesL.all (Manticore.SmbCodecs.lawfulTypes.contains ·) && ReencodableL c &&
        c.fmtTypes.all (· == "SMB_STRING"))) = true := by
  decide +kernel

private theorem loops_side (c : Cmd) (hmem : c ∈ commands) (hm : MirrorLoops c = true) :
    (∀ t ∈ c.subTypesL, t ∈ Manticore.SmbCodecs.lawfulTypes) ∧ ReencodableL c = true ∧
      ∀ t ∈ c.fmtTypes, t = "SMB_STRING" := by
  have h := List.all_eq_true.mp mirror_loops_types_lawful c hmem
  rw [hm] at h
  simp only [Bool.not_true, Bool.false_or, List.all_eq_true, List.contains_iff_mem, Bool.and_eq_true,
    beq_iff_eq] at h
  exact ⟨h.1.1, h.1.2, h.2⟩

/-- **C04 for the regenerated commands, loop fragment.**  Each of the 110 `MirrorLoops` command structures of this
    tree round-trips every declared field and its AndX block, for all internally consistent field values and all
    initial states of the receiver that fit (`receiverFits`), with the C06 models as nested codecs. -/
theorem smb_loops_roundtrip (c : Cmd) (hmem : c ∈ commands) (hm : MirrorLoops c = true) (env0 env : Env)
    (hc : consistent Manticore.SmbCodecs.std c env = true) (hrecv : receiverFits c env0 env = true) :
    ∃ bs env' d, encodeCmd Manticore.SmbCodecs.std c env = .ok bs ∧
      envAfterMarshal Manticore.SmbCodecs.std c env = .ok env' ∧
      decodeCmd Manticore.SmbCodecs.std c env0 bs = .ok d ∧ ∀ f ∈ c.roundTripFields, d.get f = env'.get f :=
  mirror_loops_roundtrip std_lawful c hm (loops_side c hmem hm).1 env0 env hc hrecv

/-- **C04, re-encoding, for the regenerated commands of the loop fragment** -/
theorem smb_loops_reencode (c : Cmd) (hmem : c ∈ commands) (hm : MirrorLoops c = true) (env0 env : Env)
    (hc : consistent Manticore.SmbCodecs.std c env = true) (hrecv : receiverFits c env0 env = true) :
    ∃ bs d, encodeCmd Manticore.SmbCodecs.std c env = .ok bs ∧ decodeCmd Manticore.SmbCodecs.std c env0 bs = .ok d ∧
      encodeCmd Manticore.SmbCodecs.std c d = .ok bs := by
  obtain ⟨h1, h2, h3⟩ := loops_side c hmem hm
  exact mirror_loops_reencode std_lawful std_lawful_fmt c hm h2 h1 h3 env0 env hc hrecv

/-! ## slot locality -/

/-- **C04, slot locality.**  When `slotRange c f = some (lo, hi)` (straight-line marshal program — literal terminator
    bytes in the data block and `range` loops over integer arrays apart: `layoutZ` —,
    exactly one statement touches `f`, namely the emission of a fixed-width parameter slot preceded by
    fixed-width slots only; for an AndX command the range starts behind the four AndX bytes), replacing the value of `f` by anything else for which `Marshal` still
    succeeds changes no byte of the encoded command outside `[lo, hi)` and not its length.  Any codec
    table; no consistency hypothesis. -/
theorem slot_locality (C : Codecs) (c : Cmd) (f : String) (lo hi : Nat) (h : slotRange c f = some (lo, hi))
    (env : Env) (v : Val) (a b : Bytes) (ha : encodeCmd C c env = .ok a) (hb : encodeCmd C c (env.set f v) = .ok b) :
    a.length = b.length ∧ ∀ i, (i < lo ∨ hi ≤ i) → a[i]? = b[i]? :=
  slot_locality_core C c f lo hi h env v a b ha hb

/-- the theorem applies to 228 (command, field) pairs of this tree (224 before WriteRequest's marshal program became straight-line, fixes/C04-writerequest-data-block.diff; 206 before the layout was read through `layoutZ`:
    the fixed-width fields in front of a `range` loop over an integer array, and NegotiateResponse's, are among them) -/
theorem slot_ranges_defined :
    (commands.flatMap (fun c => (c.fields.map (·.1)).filterMap (fun f => slotRange c f))).length = 228 := by
  decide +kernel

/-! ### non-vacuity: a concrete command and concrete field values satisfy every hypothesis -/

/-- `CloseRequest{FID: 0x1234, LastTimeModified: FILETIME{1, 2}}` -/
def closeEnv : Env := [("FID", .n 0x1234), ("LastTimeModified", .t ([1, 2], []))]

example : cmd_CloseRequest ∈ commands := by simp [commands, chunk0]
example : Mirror cmd_CloseRequest = true := by decide
example : consistent Manticore.SmbCodecs.std cmd_CloseRequest closeEnv = true := by
  have hrun : runM Manticore.SmbCodecs.std cmd_CloseRequest closeEnv =
      .ok { P := [0x34, 0x12, 1, 0, 0, 0, 2, 0, 0, 0], D := [], head := [], env := closeEnv } := by rfl
  have htup : tupOk Manticore.SmbCodecs.std "FILETIME" ([1, 2], []) = true := by decide +kernel
  unfold consistent
  rw [hrun]
  simp [intsFit, relationsHold, cmd_CloseRequest, closeEnv, Env.get, htup, wordCountOf, andxWords, andxOk]
example : encodeCmd Manticore.SmbCodecs.std cmd_CloseRequest closeEnv =
    .ok [5, 0x34, 0x12, 1, 0, 0, 0, 2, 0, 0, 0, 0, 0] := by decide +kernel
example : Reencodable cmd_CloseRequest = true := by decide
example : slotRange cmd_CloseRequest "FID" = some (1, 3) := by decide
example : encodeCmd Manticore.SmbCodecs.std cmd_CloseRequest (closeEnv.set "FID" (.n 0xFFFF)) =
    .ok [5, 0xFF, 0xFF, 1, 0, 0, 0, 2, 0, 0, 0, 0, 0] := by decide +kernel

/-- an AndX command with an AndX block set: `ReadAndxRequest{FID: 0x1234, Offset: 1, …}` chained to a
    CLOSE (0x04) at offset 0x0102 — `Mirror` holds, the values are consistent, the AndX words go out at
    the head of the parameter block and come back with the six declared fields -/
def readAndxEnv : Env :=
  [("FID", .n 0x1234), ("Offset", .n 1), ("MaxCountOfBytesToReturn", .n 2), ("MinCountOfBytesToReturn", .n 3),
   ("Timeout", .n 4), ("Remaining", .n 5), (andxField, .ns [4, 0, 0x0102])]

def readAndxWire : Bytes :=
  [0x0a, 0x04, 0x00, 0x01, 0x02, 0x34, 0x12, 1, 0, 0, 0, 2, 0, 3, 0, 4, 0, 0, 0, 5, 0, 0, 0]

example : Mirror cmd_ReadAndxRequest = true := by decide
example : cmd_ReadAndxRequest.roundTripFields =
    ["FID", "Offset", "MaxCountOfBytesToReturn", "MinCountOfBytesToReturn", "Timeout", "Remaining", "AndX"] := by decide
example : consistent Manticore.SmbCodecs.std cmd_ReadAndxRequest readAndxEnv = true := by
  have hrun : runM Manticore.SmbCodecs.std cmd_ReadAndxRequest readAndxEnv =
      .ok { P := [0x34, 0x12, 1, 0, 0, 0, 2, 0, 3, 0, 4, 0, 0, 0, 5, 0], D := [], head := [], env := readAndxEnv } := by rfl
  have hax : andxOk true readAndxEnv = true := by decide
  unfold consistent
  rw [hrun]
  simp [intsFit, relationsHold, cmd_ReadAndxRequest, readAndxEnv, Env.get, wordCountOf, andxWords]
  exact hax
example : encodeCmd Manticore.SmbCodecs.std cmd_ReadAndxRequest readAndxEnv = .ok readAndxWire := by decide +kernel
example : (match decodeCmd Manticore.SmbCodecs.std cmd_ReadAndxRequest [] readAndxWire with
    | .ok d => cmd_ReadAndxRequest.roundTripFields.map d.get == cmd_ReadAndxRequest.roundTripFields.map readAndxEnv.get
    | _ => false) = true := by decide +kernel
/-- fewer than four parameter bytes: the AndX block cannot be read, `Unmarshal` returns an error -/
example : decodeCmd Manticore.SmbCodecs.std cmd_ReadAndxRequest [] [0x01, 0x04, 0x00, 0, 0] = .err := by decide +kernel
/-- without an AndX block set the prologue's default goes out: `ff 00 00 00` -/
example : encodeCmd Manticore.SmbCodecs.std cmd_LogoffAndxRequest [] = .ok [0x02, 0xFF, 0, 0, 0, 0, 0] := by
  decide +kernel


/-- a nested value decoded from the *whole* data block right behind `offset = 0` (`c.Bytes.Unmarshal(rawDataContent)`:
    ReadResponse, LockAndReadResponse, FindCloseResponse, WriteAndUnlockRequest) is read by the static predicates in the
    normal form `rawDataContent[offset:]` (`SmbIR.normWhole`; the run does not see the difference: `go_normWhole`) -/
example : Mirror cmd_ReadResponse = true ∧ Mirror cmd_FindCloseResponse = true ∧ Mirror cmd_WriteAndUnlockRequest = true ∧
    MirrorLoops cmd_LockAndReadResponse = true := by decide +kernel

/-! ### non-vacuity of the loop fragment -/

/-- a LOCKING_ANDX request with one unlock range and two lock ranges -/
def lockingEnv : Env :=
  [("FID", .n 0x1234), ("TypeOfLock", .n 0x10), ("NewOpLockLevel", .n 0), ("Timeout", .n 0x01020304),
   ("NumberOfRequestedUnlocks", .n 1), ("NumberOfRequestedLocks", .n 2),
   ("Unlocks", .ts [([0x0a0b, 0, 0, 1, 0, 2], [])]),
   ("Locks", .ts [([0x0c0d, 0, 0, 3, 0, 4], []), ([0x0e0f, 0, 0, 5, 0, 6], [])]), (andxField, .ns [0x24, 0, 0x0101])]

/-- PID, pad, offset high/low, length high/low of a LOCKING_ANDX_RANGE64 with small numbers -/
def r64Bytes (p0 p1 o l : UInt8) : Bytes := [p0, p1, 0, 0, 0, 0, 0, 0, o, 0, 0, 0, 0, 0, 0, 0, l, 0, 0, 0]

example : cmd_LockingAndxRequest ∈ commands := by simp [commands, chunk0, chunk1, chunk2, chunk3]
example : MirrorLoops cmd_LockingAndxRequest = true ∧ Mirror cmd_LockingAndxRequest = false := by decide +kernel
example : consistent Manticore.SmbCodecs.std cmd_LockingAndxRequest lockingEnv = true := by
  have hrun : runM Manticore.SmbCodecs.std cmd_LockingAndxRequest lockingEnv =
      .ok { P := [0x34, 0x12, 0x10, 0, 4, 3, 2, 1, 1, 0, 2, 0],
            D := r64Bytes 0x0b 0x0a 1 2 ++ r64Bytes 0x0d 0x0c 3 4 ++ r64Bytes 0x0f 0x0e 5 6, head := [], env := lockingEnv } := by rfl
  have hax : andxOk true lockingEnv = true := by decide
  unfold consistent
  rw [hrun]
  simp [intsFit, relationsHold, cmd_LockingAndxRequest, lockingEnv, Env.get, wordCountOf, andxWords, r64Bytes]
  refine ⟨hax, ?_⟩
  decide +kernel
example : receiverFits cmd_LockingAndxRequest [] lockingEnv = true := by decide +kernel
/-- the receiver held three stale lock ranges under another count: they are replaced, not appended to -/
example : (match encodeCmd Manticore.SmbCodecs.std cmd_LockingAndxRequest lockingEnv with
    | .ok bs => (match decodeCmd Manticore.SmbCodecs.std cmd_LockingAndxRequest
          [("Locks", .ts [([1, 2, 3, 4, 5, 6], []), ([1, 2, 3, 4, 5, 6], []), ([1, 2, 3, 4, 5, 6], [])]),
           ("NumberOfRequestedLocks", .n 3)] bs with
      | .ok d => cmd_LockingAndxRequest.roundTripFields.map d.get == cmd_LockingAndxRequest.roundTripFields.map lockingEnv.get
      | _ => false)
    | _ => false) = true := by decide +kernel
/-- `tupFix` is needed: `Marshal` keeps 16 bits of a PID, so an element holding 0x10a0b goes out — and comes back —
    as 0x0a0b while the sender still holds 0x10a0b (in Go the field is a USHORT: cannot happen) -/
example : tupFix Manticore.SmbCodecs.std "LOCKING_ANDX_RANGE64" ([0x10a0b, 0, 0, 1, 0, 2], []) = false ∧
    tupOk Manticore.SmbCodecs.std "LOCKING_ANDX_RANGE64" ([0x10a0b, 0, 0, 1, 0, 2], []) = true := by decide +kernel

/-- the fixed array of OPEN_ANDX: the receiver's `Reserved` has the declared two entries -/
def openAndxEnv : Env :=
  [("Flags", .n 1), ("AccessMode", .n 2), ("SearchAttrs", .t ([3], [])), ("FileAttrs", .t ([4], [])),
   ("CreationTime", .t ([5, 6], [])), ("OpenMode", .n 7), ("AllocationSize", .n 8), ("Timeout", .n 9),
   ("Reserved", .ns [0x0a0b, 0x0c0d]), ("FileName", .t ([4, 1], [[0x41]]))]

example : MirrorLoops cmd_OpenAndxRequest = true := by decide +kernel
example : receiverFits cmd_OpenAndxRequest [("Reserved", .ns [0, 0])] openAndxEnv = true ∧
    receiverFits cmd_OpenAndxRequest [] openAndxEnv = false := by decide +kernel
/-- `receiverFits` is needed: a receiver whose array had three entries reads three words (one of them from the
    zeroed capacity behind the parameter stream) -/
example : (match encodeCmd Manticore.SmbCodecs.std cmd_OpenAndxRequest openAndxEnv with
    | .ok bs => (match decodeCmd Manticore.SmbCodecs.std cmd_OpenAndxRequest [("Reserved", .ns [0, 0])] bs with
        | .ok d => d.get "Reserved" == some (.ns [0x0a0b, 0x0c0d]) | _ => false) &&
      (match decodeCmd Manticore.SmbCodecs.std cmd_OpenAndxRequest [("Reserved", .ns [0, 0, 0])] bs with
        | .ok d => d.get "Reserved" != some (.ns [0x0a0b, 0x0c0d]) | _ => true)
    | _ => false) = true := by decide +kernel

/-- TRANSACTION: the `Setup` words come back through the loop that runs to `SetupCount` -/
example : MirrorLoops cmd_TransactionRequest = true ∧ receiverFits cmd_TransactionRequest [] [] = true := by decide +kernel

/-- WRITE_ANDX, both forms: `OffsetHigh` zero → 12 words, non-zero → 14 words with the field last -/
def writeAndxEnv (hi : Nat) : Env :=
  [("FID", .n 0x1234), ("Offset", .n 0), ("Timeout", .n 0), ("WriteMode", .n 0), ("Remaining", .n 0),
   ("Reserved", .n 0), ("DataLength", .n 2), ("DataOffset", .n 0x40), ("OffsetHigh", .n hi), ("Pad", .n 0), ("Data", .b [0xAA, 0xBB])]

example : cmd_WriteAndxRequest ∈ commands := by simp [commands, chunk0, chunk1, chunk2, chunk3, chunk4, chunk5, chunk6, chunk7]
example : MirrorLoops cmd_WriteAndxRequest = true ∧ MirrorLoops cmd_WriteRawRequest = true := by decide +kernel
example : consistent Manticore.SmbCodecs.std cmd_WriteAndxRequest (writeAndxEnv 0) = true := by
  have hrun : runM Manticore.SmbCodecs.std cmd_WriteAndxRequest (writeAndxEnv 0) =
      .ok { P := [0x34, 0x12, 0, 0, 0, 0, 0, 0, 0, 0, 0, 0, 0, 0, 0, 0, 2, 0, 0x40, 0], D := [0, 0xAA, 0xBB], head := [],
            env := prologueEnv true (writeAndxEnv 0) } := by rfl
  have hax : andxOk true (writeAndxEnv 0) = true := by decide
  unfold consistent
  rw [hrun]
  simp [intsFit, relationsHold, cmd_WriteAndxRequest, writeAndxEnv, prologueEnv, Env.get, Env.set, wordCountOf, andxWords,
    andxField, defaultAndX, evalEnv]
  exact hax
example : consistent Manticore.SmbCodecs.std cmd_WriteAndxRequest (writeAndxEnv 0x01020304) = true := by
  have hrun : runM Manticore.SmbCodecs.std cmd_WriteAndxRequest (writeAndxEnv 0x01020304) =
      .ok { P := [0x34, 0x12, 0, 0, 0, 0, 0, 0, 0, 0, 0, 0, 0, 0, 0, 0, 2, 0, 0x40, 0, 4, 3, 2, 1], D := [0, 0xAA, 0xBB], head := [],
            env := prologueEnv true (writeAndxEnv 0x01020304) } := by rfl
  have hax : andxOk true (writeAndxEnv 0x01020304) = true := by decide
  unfold consistent
  rw [hrun]
  simp [intsFit, relationsHold, cmd_WriteAndxRequest, writeAndxEnv, prologueEnv, Env.get, Env.set, wordCountOf, andxWords,
    andxField, defaultAndX, evalEnv]
  exact hax
/-- an optional integer asks nothing of the receiver: whatever `OffsetHigh` held, `receiverFits` holds -/
example : receiverFits cmd_WriteAndxRequest [("OffsetHigh", .n 5)] (writeAndxEnv 0) = true ∧
    receiverFits cmd_WriteAndxRequest [] (writeAndxEnv 7) = true := by decide +kernel
/-- **the optional field is reset** (the repaired C04 finding kind `conditional-field`, fixes/C04-optional-offsethigh-reset.diff):
    the 12-word form of WRITE_ANDX decoded into a structure that still holds `OffsetHigh = 5` from an earlier message
    leaves 0 there, as it does in a fresh structure — `Unmarshal` sets the field to zero before the word-count test.
    (Before the repair the 5 survived, and `mirror_loops_roundtrip` had to ask the receiver to hold zero.) -/
theorem optional_stale_reset :
    (match encodeCmd Manticore.SmbCodecs.std cmd_WriteAndxRequest (writeAndxEnv 0) with
    | .ok bs => (match decodeCmd Manticore.SmbCodecs.std cmd_WriteAndxRequest [("OffsetHigh", .n 0)] bs,
                       decodeCmd Manticore.SmbCodecs.std cmd_WriteAndxRequest [("OffsetHigh", .n 5)] bs with
        | .ok d, .ok d5 => d.get "OffsetHigh" == some (.n 0) && d5.get "OffsetHigh" == some (.n 0)
        | _, _ => false)
    | _ => false) = true := by decide +kernel
/-- READ_RAW, both forms, into a receiver holding a stale `OffsetHigh`: 8 words → 0, 10 words → the value sent -/
def readRawEnv (hi : Nat) : Env :=
  [("FID", .n 0x1234), ("Offset", .n 1), ("MaxCountOfBytesToReturn", .n 2), ("MinCountOfBytesToReturn", .n 3),
   ("Timeout", .n 4), ("Reserved", .n 0), ("OffsetHigh", .n hi)]
example : MirrorLoops cmd_ReadRawRequest = true := by decide +kernel
example : encodeCmd Manticore.SmbCodecs.std cmd_ReadRawRequest (readRawEnv 5) =
    .ok [0x0a, 0x34, 0x12, 1, 0, 0, 0, 2, 0, 3, 0, 4, 0, 0, 0, 0, 0, 5, 0, 0, 0, 0, 0] := by decide +kernel
example : (match encodeCmd Manticore.SmbCodecs.std cmd_ReadRawRequest (readRawEnv 0),
                 encodeCmd Manticore.SmbCodecs.std cmd_ReadRawRequest (readRawEnv 5) with
    | .ok b0, .ok b5 => (match decodeCmd Manticore.SmbCodecs.std cmd_ReadRawRequest [("OffsetHigh", .n 9)] b0,
                               decodeCmd Manticore.SmbCodecs.std cmd_ReadRawRequest [("OffsetHigh", .n 9)] b5 with
        | .ok d0, .ok d5 => b0.length == 19 && d0.get "OffsetHigh" == some (.n 0) && d5.get "OffsetHigh" == some (.n 5)
        | _, _ => false)
    | _, _ => false) = true := by decide +kernel

/-- WRITE_AND_CLOSE, both forms, into a receiver that holds stale reserved words: 8 parameter words → zeros,
    14 words → the three values sent -/
def writeAndCloseEnv (r : List Nat) : Env :=
  [("FID", .n 0x1234), ("CountOfBytesToWrite", .n 2), ("WriteOffsetInBytes", .n 7), ("LastWriteTime", .t ([1, 2], [])),
   ("Reserved", .ns r), ("Pad", .n 0), ("Data", .b [0xAA, 0xBB])]
example : MirrorLoops cmd_WriteAndCloseRequest = true := by decide +kernel
example : receiverFits cmd_WriteAndCloseRequest [("Reserved", .ns [9, 9, 9])] (writeAndCloseEnv [0, 0, 0]) = true := by
  decide +kernel
example : (match encodeCmd Manticore.SmbCodecs.std cmd_WriteAndCloseRequest (writeAndCloseEnv [0, 0, 0]),
                 encodeCmd Manticore.SmbCodecs.std cmd_WriteAndCloseRequest (writeAndCloseEnv [1, 0, 3]) with
    | .ok b0, .ok b3 => (match decodeCmd Manticore.SmbCodecs.std cmd_WriteAndCloseRequest [("Reserved", .ns [9, 9, 9])] b0,
                               decodeCmd Manticore.SmbCodecs.std cmd_WriteAndCloseRequest [("Reserved", .ns [9, 9, 9])] b3 with
        | .ok d0, .ok d3 => b0.head? == some 8 && b3.head? == some 14 &&
            d0.get "Reserved" == some (.ns [0, 0, 0]) && d3.get "Reserved" == some (.ns [1, 0, 3])
        | _, _ => false)
    | _, _ => false) = true := by decide +kernel

/-- SESSION_SETUP_ANDX response: one parameter word, so `(len(P)+3)%2 == 1` and the decoder expects one pad byte -/
def sessionRespEnv : Env :=
  [("Action", .n 1), ("Pad", .b [0]), ("NativeOS", .t ([1, 1], [[0x41]])), ("NativeLanMan", .t ([1, 1], [[0x42]])),
   ("PrimaryDomain", .t ([1, 1], [[0x43]]))]

example : MirrorLoops cmd_SessionSetupAndxResponse = true ∧ MirrorLoops cmd_SessionSetupAndxRequest = true := by decide +kernel
example : (match encodeCmd Manticore.SmbCodecs.std cmd_SessionSetupAndxResponse sessionRespEnv with
    | .ok bs => (match decodeCmd Manticore.SmbCodecs.std cmd_SessionSetupAndxResponse [] bs with
      | .ok d => (cmd_SessionSetupAndxResponse.fields.map (·.1)).map d.get == (cmd_SessionSetupAndxResponse.fields.map (·.1)).map sessionRespEnv.get
      | _ => false)
    | _ => false) = true := by decide +kernel
example : consistent Manticore.SmbCodecs.std cmd_SessionSetupAndxResponse sessionRespEnv = true := by
  have hrun : runM Manticore.SmbCodecs.std cmd_SessionSetupAndxResponse sessionRespEnv =
      .ok { P := [1, 0], D := [0, 1, 1, 0, 0x41, 1, 1, 0, 0x42, 1, 1, 0, 0x43], head := [],
            env := prologueEnv true sessionRespEnv } := by rfl
  have hax : andxOk true sessionRespEnv = true := by decide
  have htup : ∀ v ∈ [([1, 1], [[0x41]]), ([1, 1], [[0x42]]), (([1, 1], [[0x43]]) : Tup)],
      tupOk Manticore.SmbCodecs.std "SMB_STRING" v = true := by decide +kernel
  unfold consistent
  rw [hrun]
  simp [intsFit, relationsHold, cmd_SessionSetupAndxResponse, sessionRespEnv, prologueEnv, Env.get, Env.set, wordCountOf,
    andxWords, andxField, defaultAndX, evalEnv]
  exact ⟨hax, htup _ (by simp), htup _ (by simp), htup _ (by simp)⟩

/-! ### RenameRequest: a nested read whose error and count are dropped -/

/-- **the dropped error of RENAME is unreachable**: `RenameRequest.Unmarshal` calls
    `c.SearchAttributes.Unmarshal(rawParametersContent[offset:offset+2])` without looking at the error or the count
    and then moves `offset` by 2.  On a two-byte window `SMB_FILE_ATTRIBUTES.Unmarshal` succeeds on any bytes and
    reports 2: nothing is hidden by the missing check, it is not a defect of the round trip. -/
theorem rename_request_unchecked_decode_total (w : Bytes) (hw : w.length = 2) :
    ∃ v, Manticore.SmbCodecs.std.dec "SMB_FILE_ATTRIBUTES" w = .ok (v, 2) := by
  match w, hw with
  | [a, b], _ => exact ⟨_, rfl⟩

/-- `RenameRequest{SearchAttributes: 0x0016, OldFileName: "A", NewFileName: "BC"}` (Marshal sets both formats to 4) -/
def renameEnv : Env :=
  [("SearchAttributes", .t ([0x16], [])), ("OldFileName", .t ([4, 1], [[0x41]])), ("NewFileName", .t ([4, 2], [[0x42, 0x43]]))]

example : cmd_RenameRequest ∈ commands := by simp [commands, chunk0, chunk1, chunk2, chunk3, chunk4]
example : MirrorLoops cmd_RenameRequest = true ∧ Mirror cmd_RenameRequest = false := by decide +kernel
example : receiverFits cmd_RenameRequest [] renameEnv = true := by decide +kernel
example : (match encodeCmd Manticore.SmbCodecs.std cmd_RenameRequest renameEnv with
    | .ok bs => (match decodeCmd Manticore.SmbCodecs.std cmd_RenameRequest [("SearchAttributes", .t ([0xFFFF], []))] bs with
      | .ok d => (cmd_RenameRequest.fields.map (·.1)).map d.get == (cmd_RenameRequest.fields.map (·.1)).map renameEnv.get
      | _ => false)
    | _ => false) = true := by decide +kernel
example : consistent Manticore.SmbCodecs.std cmd_RenameRequest renameEnv = true := by
  have hrun : runM Manticore.SmbCodecs.std cmd_RenameRequest renameEnv =
      .ok { P := [0, 0x16], D := [4, 0x41, 0, 4, 0x42, 0x43, 0], head := [], env := renameEnv } := by rfl
  have h1 : tupOk Manticore.SmbCodecs.std "SMB_FILE_ATTRIBUTES" ([0x16], []) = true := by decide +kernel
  have h2 : tupOk Manticore.SmbCodecs.std "SMB_STRING" ([4, 1], [[0x41]]) = true := by decide +kernel
  have h3 : tupOk Manticore.SmbCodecs.std "SMB_STRING" ([4, 2], [[0x42, 0x43]]) = true := by decide +kernel
  unfold consistent
  rw [hrun]
  simp [intsFit, relationsHold, cmd_RenameRequest, renameEnv, Env.get, h1, h2, h3, wordCountOf, andxWords, andxOk]

end Manticore.C04
