/-
  C08 — NTLMSSP and SPNEGO tokens are structurally exact in both directions.
  Property theorems only.  Model and spec: `Manticore/Model/C08.lean`; helper lemmas:
  `Manticore/Lemmas/C08Layout.lean`, `Manticore/Lemmas/C08Der.lean`.
-/
import Manticore.Model.C08
import Manticore.Lemmas.C08Layout
import Manticore.Lemmas.C08Der
namespace Manticore.C08
open Manticore

/-! ### NEGOTIATE / AUTHENTICATE: descriptors -/

/-- what follows the length guard of `CreateNegotiateMessage` builds a valid message from names shorter than 64 KiB -/
private theorem negotiate_descriptors_of_fit (upper utf16 : Bytes → Bytes) (domain workstation : Bytes) (unicode : Bool)
    (hd : (Spec.negotiateName upper utf16 unicode domain).length < 65536)
    (hw : (Spec.negotiateName upper utf16 unicode workstation).length < 65536) :
    Spec.validNegotiate (createNegotiate upper utf16 domain workstation unicode) unicode
      (!domain.isEmpty) (!workstation.isEmpty)
      (Spec.negotiateName upper utf16 unicode domain) (Spec.negotiateName upper utf16 unicode workstation) = true := by
  generalize hdn : Spec.negotiateName upper utf16 unicode domain = d at *
  generalize hwn : Spec.negotiateName upper utf16 unicode workstation = w at *
  have hmsg : createNegotiate upper utf16 domain workstation unicode =
      signature ++ putLe32 1 ++ putLe32 (negotiateFlags domain workstation unicode) ++
      descriptor d.length 40 ++ descriptor w.length (40 + d.length) ++ defaultVersion ++ d ++ w := by
    simp [createNegotiate, negName_eq, hdn, hwn]
  generalize hm : createNegotiate upper utf16 domain workstation unicode = msg at *
  have hD : Spec.designates msg 16 d 40 = true :=
    designates_of_layout msg (signature ++ putLe32 1 ++ putLe32 (negotiateFlags domain workstation unicode))
      (descriptor w.length (40 + d.length) ++ defaultVersion ++ d ++ w)
      (signature ++ putLe32 1 ++ putLe32 (negotiateFlags domain workstation unicode) ++
        descriptor d.length 40 ++ descriptor w.length (40 + d.length) ++ defaultVersion) w d 16 40
      (by rw [hmsg]; simp [List.append_assoc]) rfl (by rw [hmsg]) rfl hd (by omega)
  have hW : Spec.designates msg 24 w (40 + d.length) = true :=
    designates_of_layout msg (signature ++ putLe32 1 ++ putLe32 (negotiateFlags domain workstation unicode) ++ descriptor d.length 40)
      (defaultVersion ++ d ++ w)
      (signature ++ putLe32 1 ++ putLe32 (negotiateFlags domain workstation unicode) ++
        descriptor d.length 40 ++ descriptor w.length (40 + d.length) ++ defaultVersion ++ d) [] w 24 (40 + d.length)
      (by rw [hmsg]; simp [List.append_assoc]) rfl (by rw [hmsg]; simp) (by simp [signature, putLe32_length, descriptor_length, defaultVersion]; omega) hw (by omega)
  have hlen : msg.length = 40 + d.length + w.length := by
    rw [hmsg]; simp [signature, putLe32_length, descriptor_length, defaultVersion]; omega
  have hsig : msg.take 8 = signature := by rw [hmsg]; rfl
  have htype : Spec.u32Field msg 8 = 1 := by
    rw [hmsg]; rfl
  have hflags : Spec.u32Field msg 12 = (negotiateFlags domain workstation unicode).toNat := by
    rw [hmsg]
    show leNat (putLe32 _) = _
    exact leNat_putLe32 _
  simp only [Spec.validNegotiate, hD, hW, hlen, hsig, htype, hflags, beq_self_eq_true, Bool.and_true, Bool.true_and]
  cases unicode <;> cases domain <;> cases workstation <;> simp [negotiateFlags] <;> decide

/-- what follows the length guard of `CreateAuthenticateMessage` builds a valid message from fields shorter than 64 KiB -/
private theorem authenticate_descriptors_of_fit (upper utf16 : Bytes → Bytes) (flags : UInt32)
    (lm nt user domain workstation : Bytes)
    (hlm : lm.length < 65536) (hnt : nt.length < 65536)
    (hd : (Spec.authName utf16 flags domain).length < 65536)
    (hu : (Spec.authName utf16 flags user).length < 65536)
    (hw : (Spec.authName utf16 flags (upper workstation)).length < 65536) :
    Spec.validAuthenticate (createAuthenticate upper utf16 flags lm nt user domain workstation) flags lm nt
      (Spec.authName utf16 flags domain) (Spec.authName utf16 flags user)
      (Spec.authName utf16 flags (upper workstation)) = true := by
  generalize hdn : Spec.authName utf16 flags domain = d at *
  generalize hun : Spec.authName utf16 flags user = u at *
  generalize hwn : Spec.authName utf16 flags (upper workstation) = w at *
  generalize hver : (if flags &&& F_VERSION ≠ 0 then defaultVersion else zeros 8) = ver
  have hverl : ver.length = 8 := by rw [← hver]; split <;> rfl
  have hmsg : createAuthenticate upper utf16 flags lm nt user domain workstation =
      signature ++ putLe32 3 ++
      descriptor lm.length 88 ++ descriptor nt.length (88 + lm.length) ++
      descriptor d.length (88 + lm.length + nt.length) ++
      descriptor u.length (88 + lm.length + nt.length + d.length) ++
      descriptor w.length (88 + lm.length + nt.length + d.length + u.length) ++
      descriptor 0 (88 + lm.length + nt.length + d.length + u.length + w.length) ++
      putLe32 flags ++ ver ++ zeros 16 ++ lm ++ nt ++ d ++ u ++ w := by
    simp only [createAuthenticate, authNames_spec, hdn, hun, hwn, hver]
  generalize createAuthenticate upper utf16 flags lm nt user domain workstation = msg at *
  have hLM : Spec.designates msg 12 lm 88 = true :=
    designates_of_layout msg (signature ++ putLe32 3)
      (descriptor nt.length (88 + lm.length) ++
      descriptor d.length (88 + lm.length + nt.length) ++
      descriptor u.length (88 + lm.length + nt.length + d.length) ++
      descriptor w.length (88 + lm.length + nt.length + d.length + u.length) ++
      descriptor 0 (88 + lm.length + nt.length + d.length + u.length + w.length) ++
      putLe32 flags ++ ver ++ zeros 16 ++ lm ++ nt ++ d ++ u ++ w)
      (signature ++ putLe32 3 ++
      descriptor lm.length 88 ++ descriptor nt.length (88 + lm.length) ++
      descriptor d.length (88 + lm.length + nt.length) ++
      descriptor u.length (88 + lm.length + nt.length + d.length) ++
      descriptor w.length (88 + lm.length + nt.length + d.length + u.length) ++
      descriptor 0 (88 + lm.length + nt.length + d.length + u.length + w.length) ++
      putLe32 flags ++ ver ++ zeros 16) (nt ++ d ++ u ++ w) lm 12 88
      (by rw [hmsg]; try simp only [List.append_assoc]) (by len_tac) (by rw [hmsg]; try simp only [List.append_assoc])
      (by len_tac) hlm (by omega)
  have hNT : Spec.designates msg 20 nt (88 + lm.length) = true :=
    designates_of_layout msg (signature ++ putLe32 3 ++ descriptor lm.length 88)
      (descriptor d.length (88 + lm.length + nt.length) ++
      descriptor u.length (88 + lm.length + nt.length + d.length) ++
      descriptor w.length (88 + lm.length + nt.length + d.length + u.length) ++
      descriptor 0 (88 + lm.length + nt.length + d.length + u.length + w.length) ++
      putLe32 flags ++ ver ++ zeros 16 ++ lm ++ nt ++ d ++ u ++ w)
      (signature ++ putLe32 3 ++
      descriptor lm.length 88 ++ descriptor nt.length (88 + lm.length) ++
      descriptor d.length (88 + lm.length + nt.length) ++
      descriptor u.length (88 + lm.length + nt.length + d.length) ++
      descriptor w.length (88 + lm.length + nt.length + d.length + u.length) ++
      descriptor 0 (88 + lm.length + nt.length + d.length + u.length + w.length) ++
      putLe32 flags ++ ver ++ zeros 16 ++ lm) (d ++ u ++ w) nt 20 (88 + lm.length)
      (by rw [hmsg]; try simp only [List.append_assoc]) (by len_tac) (by rw [hmsg]; try simp only [List.append_assoc])
      (by len_tac) hnt (by omega)
  have hDo : Spec.designates msg 28 d (88 + lm.length + nt.length) = true :=
    designates_of_layout msg (signature ++ putLe32 3 ++ descriptor lm.length 88 ++ descriptor nt.length (88 + lm.length))
      (descriptor u.length (88 + lm.length + nt.length + d.length) ++
      descriptor w.length (88 + lm.length + nt.length + d.length + u.length) ++
      descriptor 0 (88 + lm.length + nt.length + d.length + u.length + w.length) ++
      putLe32 flags ++ ver ++ zeros 16 ++ lm ++ nt ++ d ++ u ++ w)
      (signature ++ putLe32 3 ++
      descriptor lm.length 88 ++ descriptor nt.length (88 + lm.length) ++
      descriptor d.length (88 + lm.length + nt.length) ++
      descriptor u.length (88 + lm.length + nt.length + d.length) ++
      descriptor w.length (88 + lm.length + nt.length + d.length + u.length) ++
      descriptor 0 (88 + lm.length + nt.length + d.length + u.length + w.length) ++
      putLe32 flags ++ ver ++ zeros 16 ++ lm ++ nt) (u ++ w) d 28 (88 + lm.length + nt.length)
      (by rw [hmsg]; try simp only [List.append_assoc]) (by len_tac) (by rw [hmsg]; try simp only [List.append_assoc])
      (by len_tac) hd (by omega)
  have hUs : Spec.designates msg 36 u (88 + lm.length + nt.length + d.length) = true :=
    designates_of_layout msg (signature ++ putLe32 3 ++ descriptor lm.length 88 ++ descriptor nt.length (88 + lm.length) ++
      descriptor d.length (88 + lm.length + nt.length))
      (descriptor w.length (88 + lm.length + nt.length + d.length + u.length) ++
      descriptor 0 (88 + lm.length + nt.length + d.length + u.length + w.length) ++
      putLe32 flags ++ ver ++ zeros 16 ++ lm ++ nt ++ d ++ u ++ w)
      (signature ++ putLe32 3 ++
      descriptor lm.length 88 ++ descriptor nt.length (88 + lm.length) ++
      descriptor d.length (88 + lm.length + nt.length) ++
      descriptor u.length (88 + lm.length + nt.length + d.length) ++
      descriptor w.length (88 + lm.length + nt.length + d.length + u.length) ++
      descriptor 0 (88 + lm.length + nt.length + d.length + u.length + w.length) ++
      putLe32 flags ++ ver ++ zeros 16 ++ lm ++ nt ++ d) w u 36 (88 + lm.length + nt.length + d.length)
      (by rw [hmsg]; try simp only [List.append_assoc]) (by len_tac) (by rw [hmsg]; try simp only [List.append_assoc])
      (by len_tac) hu (by omega)
  have hWs : Spec.designates msg 44 w (88 + lm.length + nt.length + d.length + u.length) = true :=
    designates_of_layout msg (signature ++ putLe32 3 ++ descriptor lm.length 88 ++ descriptor nt.length (88 + lm.length) ++
      descriptor d.length (88 + lm.length + nt.length) ++
      descriptor u.length (88 + lm.length + nt.length + d.length))
      (descriptor 0 (88 + lm.length + nt.length + d.length + u.length + w.length) ++
      putLe32 flags ++ ver ++ zeros 16 ++ lm ++ nt ++ d ++ u ++ w)
      (signature ++ putLe32 3 ++
      descriptor lm.length 88 ++ descriptor nt.length (88 + lm.length) ++
      descriptor d.length (88 + lm.length + nt.length) ++
      descriptor u.length (88 + lm.length + nt.length + d.length) ++
      descriptor w.length (88 + lm.length + nt.length + d.length + u.length) ++
      descriptor 0 (88 + lm.length + nt.length + d.length + u.length + w.length) ++
      putLe32 flags ++ ver ++ zeros 16 ++ lm ++ nt ++ d ++ u) [] w 44 (88 + lm.length + nt.length + d.length + u.length)
      (by rw [hmsg]; try simp only [List.append_assoc]) (by len_tac) (by rw [hmsg]; try simp only [List.append_assoc, List.append_nil])
      (by len_tac) hw (by omega)
  have hKey : Spec.designates msg 52 [] (88 + lm.length + nt.length + d.length + u.length + w.length) = true :=
    designates_of_layout msg (signature ++ putLe32 3 ++ descriptor lm.length 88 ++ descriptor nt.length (88 + lm.length) ++
      descriptor d.length (88 + lm.length + nt.length) ++
      descriptor u.length (88 + lm.length + nt.length + d.length) ++
      descriptor w.length (88 + lm.length + nt.length + d.length + u.length))
      (putLe32 flags ++ ver ++ zeros 16 ++ lm ++ nt ++ d ++ u ++ w)
      msg [] [] 52 (88 + lm.length + nt.length + d.length + u.length + w.length)
      (by rw [hmsg]; simp only [List.append_assoc, List.length_nil]) (by len_tac) (by simp)
      (by rw [hmsg]; len_tac) (by simp) (by omega)
  have hlen : msg.length = 88 + lm.length + nt.length + d.length + u.length + w.length := by
    rw [hmsg]; len_tac
  have hsig : msg.take 8 = signature := by
    rw [hmsg]; simp only [List.append_assoc]; exact List.take_left' rfl
  have htype : Spec.u32Field msg 8 = 3 :=
    u32Field_at msg signature _ 3 8 (by rw [hmsg]; simp only [List.append_assoc]; rfl) rfl
  have hflags : Spec.u32Field msg 60 = flags.toNat :=
    u32Field_at msg (signature ++ putLe32 3 ++
      descriptor lm.length 88 ++ descriptor nt.length (88 + lm.length) ++
      descriptor d.length (88 + lm.length + nt.length) ++
      descriptor u.length (88 + lm.length + nt.length + d.length) ++
      descriptor w.length (88 + lm.length + nt.length + d.length + u.length) ++
      descriptor 0 (88 + lm.length + nt.length + d.length + u.length + w.length))
      (ver ++ zeros 16 ++ lm ++ nt ++ d ++ u ++ w) flags 60
      (by rw [hmsg]; simp only [List.append_assoc]) (by len_tac)
  simp only [Spec.validAuthenticate, hLM, hNT, hDo, hUs, hWs, hKey, hlen, hsig, htype, hflags, beq_self_eq_true, Bool.and_true]

/-- **NEGOTIATE_MESSAGE is structurally valid, or refused (MS-NLMP 2.2.1.1).**  For all domain / workstation
    strings, both character sets and arbitrary `ToUpper` / UTF-16 encoders, `CreateNegotiateMessage` never panics and
    * when both encoded names are shorter than 64 KiB it returns a message in which signature and type are right;
      UNICODE / OEM / domain-supplied / workstation-supplied / version bits say what was asked; each descriptor has
      `Len = MaxLen = |field|`, its offset is inside the message and `msg[off : off+len]` is the field; the fields
      follow each other from byte 40 to the end of the message (so they do not overlap); a name is `utf16 s` under
      UNICODE and `upper s` under OEM;
    * otherwise — a name that a 16-bit `Len` cannot describe (`Spec.fieldsFit`) — it returns an error and no message
      (before fixes/C08-descriptor-length-guard.diff it wrote `uint16(len)`, i.e. `Len = MaxLen = 0` for 65536 bytes). -/
theorem negotiate_descriptors (upper utf16 : Bytes → Bytes) (domain workstation : Bytes) (unicode : Bool) :
    match createNegotiateMessage upper utf16 domain workstation unicode with
    | .ok msg =>
      Spec.fieldsFit [Spec.negotiateName upper utf16 unicode domain, Spec.negotiateName upper utf16 unicode workstation] = true ∧
      Spec.validNegotiate msg unicode (!domain.isEmpty) (!workstation.isEmpty)
        (Spec.negotiateName upper utf16 unicode domain) (Spec.negotiateName upper utf16 unicode workstation) = true
    | .err =>
      Spec.fieldsFit [Spec.negotiateName upper utf16 unicode domain, Spec.negotiateName upper utf16 unicode workstation] = false
    | .panic => False := by
  have hd : negName upper utf16 unicode domain = Spec.negotiateName upper utf16 unicode domain := negName_eq ..
  have hw : negName upper utf16 unicode workstation = Spec.negotiateName upper utf16 unicode workstation := negName_eq ..
  simp only [createNegotiateMessage, hd, hw]
  by_cases hlong : (Spec.negotiateName upper utf16 unicode domain).length > 65535 ∨
      (Spec.negotiateName upper utf16 unicode workstation).length > 65535
  · rw [if_pos hlong]
    show Spec.fieldsFit _ = false
    simp only [Spec.fieldsFit, List.all_cons, List.all_nil, Bool.and_true, Bool.and_eq_false_iff, decide_eq_false_iff_not]
    omega
  · rw [if_neg hlong]
    have h1 : (Spec.negotiateName upper utf16 unicode domain).length < 65536 := by omega
    have h2 : (Spec.negotiateName upper utf16 unicode workstation).length < 65536 := by omega
    exact ⟨by simp [Spec.fieldsFit, h1, h2], negotiate_descriptors_of_fit upper utf16 domain workstation unicode h1 h2⟩

/-- the repaired finding `field64k`, NEGOTIATE: a name of 64 KiB or more is refused — for every input, not only the
    former witness (a 65536-byte OEM domain, which went out under `Len = MaxLen = 0`) -/
theorem negotiate_refuses_field64k (upper utf16 : Bytes → Bytes) (domain workstation : Bytes) (unicode : Bool)
    (h : 65536 ≤ (Spec.negotiateName upper utf16 unicode domain).length ∨
         65536 ≤ (Spec.negotiateName upper utf16 unicode workstation).length) :
    createNegotiateMessage upper utf16 domain workstation unicode = .err := by
  have hd : negName upper utf16 unicode domain = Spec.negotiateName upper utf16 unicode domain := negName_eq ..
  have hw : negName upper utf16 unicode workstation = Spec.negotiateName upper utf16 unicode workstation := negName_eq ..
  simp only [createNegotiateMessage, hd, hw]
  rw [if_pos (by omega)]

/-- **AUTHENTICATE_MESSAGE is structurally valid, or refused (MS-NLMP 2.2.1.3).**  For every CHALLENGE flag word,
    all LM / NT responses and all user / domain / workstation strings, `CreateAuthenticateMessage` never panics and
    * when the five encoded fields are shorter than 64 KiB it returns a message with the signature, type 3, the flags
      echoed at byte 60; the six descriptors (LM, NT, domain, user, workstation, session key) have
      `Len = MaxLen = |field|` and designate exactly their fields, which follow each other from byte 88 to the end of
      the message; names are UTF-16LE under NTLMSSP_NEGOTIATE_UNICODE and the raw (OEM) bytes otherwise;
    * otherwise it returns an error and no message. -/
theorem authenticate_descriptors (upper utf16 : Bytes → Bytes) (flags : UInt32)
    (lm nt user domain workstation : Bytes) :
    match createAuthenticateMessage upper utf16 flags lm nt user domain workstation with
    | .ok msg =>
      Spec.fieldsFit [lm, nt, Spec.authName utf16 flags domain, Spec.authName utf16 flags user,
        Spec.authName utf16 flags (upper workstation)] = true ∧
      Spec.validAuthenticate msg flags lm nt (Spec.authName utf16 flags domain) (Spec.authName utf16 flags user)
        (Spec.authName utf16 flags (upper workstation)) = true
    | .err =>
      Spec.fieldsFit [lm, nt, Spec.authName utf16 flags domain, Spec.authName utf16 flags user,
        Spec.authName utf16 flags (upper workstation)] = false
    | .panic => False := by
  simp only [createAuthenticateMessage, authNames_spec]
  by_cases hlong : ([lm, nt, Spec.authName utf16 flags domain, Spec.authName utf16 flags user,
      Spec.authName utf16 flags (upper workstation)].any (fun field => decide (field.length > 65535))) = true
  · rw [if_pos hlong]
    show Spec.fieldsFit _ = false
    simp only [List.any_cons, List.any_nil, Bool.or_false, Bool.or_eq_true, decide_eq_true_eq] at hlong
    simp only [Spec.fieldsFit, List.all_cons, List.all_nil, Bool.and_true, Bool.and_eq_false_iff, decide_eq_false_iff_not]
    omega
  · rw [if_neg hlong]
    simp only [List.any_cons, List.any_nil, Bool.or_false, Bool.or_eq_true, decide_eq_true_eq, not_or] at hlong
    obtain ⟨h1, h2, h3, h4, h5⟩ := hlong
    refine ⟨?_, authenticate_descriptors_of_fit upper utf16 flags lm nt user domain workstation
      (by omega) (by omega) (by omega) (by omega) (by omega)⟩
    simp only [Spec.fieldsFit, List.all_cons, List.all_nil, Bool.and_true, Bool.and_eq_true, decide_eq_true_eq]
    omega

/-- the repaired finding `field64k`, AUTHENTICATE: a response or a name of 64 KiB or more is refused — for every
    input, not only the former witness (a 65536-byte OEM user name) -/
theorem authenticate_refuses_field64k (upper utf16 : Bytes → Bytes) (flags : UInt32)
    (lm nt user domain workstation : Bytes)
    (h : Spec.fieldsFit [lm, nt, Spec.authName utf16 flags domain, Spec.authName utf16 flags user,
        Spec.authName utf16 flags (upper workstation)] = false) :
    createAuthenticateMessage upper utf16 flags lm nt user domain workstation = .err := by
  have := authenticate_descriptors upper utf16 flags lm nt user domain workstation
  cases hm : createAuthenticateMessage upper utf16 flags lm nt user domain workstation with
  | ok msg => rw [hm] at this; rw [h] at this; exact absurd this.1 (by simp)
  | err => rfl
  | panic => rw [hm] at this; exact this.elim

/-- non-vacuity: the former witnesses are refused, a short name is accepted -/
example : createNegotiateMessage id id (List.replicate 65536 65) [] false = .err :=
  negotiate_refuses_field64k id id _ [] false (Or.inl (by
    have hne : List.replicate 65536 (65 : UInt8) ≠ [] := by
      intro h; have := congrArg List.length h; rw [List.length_replicate] at this; cases this
    unfold Spec.negotiateName
    rw [if_neg hne]
    show 65536 ≤ (List.replicate 65536 (65 : UInt8)).length
    rw [List.length_replicate]; exact Nat.le_refl _))
example : ∃ msg, createNegotiateMessage id id [65, 66] [] false = .ok msg := ⟨_, rfl⟩

example : (Spec.negotiateName id id true [65, 66]).length < 65536 := by decide
example : (Spec.authName id 1 [65, 66]).length < 65536 := by decide

/-! ### CHALLENGE: parse ∘ build = id -/

/-- **The two `MaxLen` fields are ignored on receipt** (MS-NLMP 2.2.1.2: "MUST be ignored on receipt"): whatever a
    sender puts into `TargetNameMaxLen` and `TargetInfoMaxLen`, the CHALLENGE parses to the content it carries. -/
theorem parse_build_challenge_any_maxlen (c : Challenge) (g0 g1 g2 : Bytes) (tnMax tiMax : Nat)
    (h : Spec.WellFormed c g0 g1) :
    parseChallenge (Spec.buildChallengeMax c g0 g1 g2 tnMax tiMax) = .ok c := by
  obtain ⟨flags, sc, rs, tn, ti, ver⟩ := c
  obtain ⟨hsc, hrs, hver, htn, hti, hoff, hv0⟩ := h
  simp only at hsc hrs hver htn hti hoff hv0
  obtain ⟨s0,s1,s2,s3,s4,s5,s6,s7, rfl⟩ := len8 sc hsc
  obtain ⟨r0,r1,r2,r3,r4,r5,r6,r7, rfl⟩ := len8 rs hrs
  obtain ⟨v0,v1,v2,v3,v4,v5,v6,v7, rfl⟩ := len8 ver hver
  generalize hH : chalHeader flags [s0,s1,s2,s3,s4,s5,s6,s7] [r0,r1,r2,r3,r4,r5,r6,r7] [v0,v1,v2,v3,v4,v5,v6,v7]
    tn.length (56 + g0.length) ti.length (56 + g0.length + tn.length + g1.length) tnMax tiMax = H
  have hd : Spec.buildChallengeMax ⟨flags, [s0,s1,s2,s3,s4,s5,s6,s7], [r0,r1,r2,r3,r4,r5,r6,r7], tn, ti, [v0,v1,v2,v3,v4,v5,v6,v7]⟩ g0 g1 g2 tnMax tiMax
      = H ++ (g0 ++ (tn ++ (g1 ++ (ti ++ g2)))) := by
    rw [← hH]; simp [Spec.buildChallengeMax, chalHeader]
  rw [hd]
  have hHl : H.length = 56 := by rw [← hH]; rfl
  generalize hd' : H ++ (g0 ++ (tn ++ (g1 ++ (ti ++ g2)))) = d
  have hlen : d.length = 56 + g0.length + tn.length + g1.length + ti.length + g2.length := by
    rw [← hd']; simp [hHl]; omega
  have rd : ∀ i, i < 56 → d.getD i 0 = H.getD i 0 := by
    intro i hi; rw [← hd']; simp [List.getD_eq_getElem?_getD, List.getElem?_append_left (by omega : i < H.length)]
  have htake : d.take 8 = signature := by rw [← hd', ← hH]; rfl
  have htype : u32At d 8 = 2 := by
    simp only [u32At, rd 8 (by omega), rd 9 (by omega), rd 10 (by omega), rd 11 (by omega)]
    rw [← hH, chalHeader_eq]; simp only [List.getD_eq_getElem?_getD, List.getElem?_cons_succ, List.getElem?_cons_zero, Option.getD_some]; decide
  have htnl : u16At d 12 = UInt16.ofNat tn.length := by
    simp only [u16At, rd 12 (by omega), rd 13 (by omega)]
    rw [← hH, chalHeader_eq]; simp only [List.getD_eq_getElem?_getD, List.getElem?_cons_succ, List.getElem?_cons_zero, Option.getD_some]; exact le16_natLe _ htn
  have htno : u32At d 16 = UInt32.ofNat (56 + g0.length) := by
    simp only [u32At, rd 16 (by omega), rd 17 (by omega), rd 18 (by omega), rd 19 (by omega)]
    rw [← hH, chalHeader_eq]; simp only [List.getD_eq_getElem?_getD, List.getElem?_cons_succ, List.getElem?_cons_zero, Option.getD_some]; exact le32_natLe _ (by omega)
  have hfl : u32At d 20 = flags := by
    simp only [u32At, rd 20 (by omega), rd 21 (by omega), rd 22 (by omega), rd 23 (by omega)]
    rw [← hH, chalHeader_eq]; simp only [List.getD_eq_getElem?_getD, List.getElem?_cons_succ, List.getElem?_cons_zero, Option.getD_some]
    have := le32_natLe flags.toNat flags.toNat_lt
    simpa using this
  have htil : u16At d 40 = UInt16.ofNat ti.length := by
    simp only [u16At, rd 40 (by omega), rd 41 (by omega)]
    rw [← hH, chalHeader_eq]; simp only [List.getD_eq_getElem?_getD, List.getElem?_cons_succ, List.getElem?_cons_zero, Option.getD_some]; exact le16_natLe _ hti
  have htio : u32At d 44 = UInt32.ofNat (56 + g0.length + tn.length + g1.length) := by
    simp only [u32At, rd 44 (by omega), rd 45 (by omega), rd 46 (by omega), rd 47 (by omega)]
    rw [← hH, chalHeader_eq]; simp only [List.getD_eq_getElem?_getD, List.getElem?_cons_succ, List.getElem?_cons_zero, Option.getD_some]; exact le32_natLe _ (by omega)
  have hTN : payloadField d (UInt16.ofNat tn.length) (UInt32.ofNat (56 + g0.length)) = .ok tn := by
    have := payloadField_ok d (H ++ g0) (g1 ++ (ti ++ g2)) tn (by rw [← hd']; simp) htn (by simp [hHl]; omega)
    simpa [hHl] using this
  have hTI : payloadField d (UInt16.ofNat ti.length) (UInt32.ofNat (56 + g0.length + tn.length + g1.length)) = .ok ti := by
    have := payloadField_ok d (H ++ g0 ++ tn ++ g1) g2 ti (by rw [← hd']; simp) hti (by simp [hHl]; omega)
    simpa [hHl, Nat.add_assoc] using this
  have hsc' : (d.drop 24).take 8 = [s0,s1,s2,s3,s4,s5,s6,s7] := by rw [← hd', ← hH, chalHeader_eq]; rfl
  have hrs' : (d.drop 32).take 8 = [r0,r1,r2,r3,r4,r5,r6,r7] := by rw [← hd', ← hH, chalHeader_eq]; rfl
  have hvr' : (d.drop 48).take 8 = [v0,v1,v2,v3,v4,v5,v6,v7] := by rw [← hd', ← hH, chalHeader_eq]; rfl
  have hvrt : versionRoundTrip [v0,v1,v2,v3,v4,v5,v6,v7] = [v0,v1,v2,v3,v4,v5,v6,v7] := by
    simp [versionRoundTrip, putLe16_le16]
  unfold parseChallenge
  rw [if_neg (by omega), if_neg (by simp [htake]), if_neg (by simp [htype])]
  simp only [htnl, htno, hfl, htil, htio, hTN, hTI, hsc', hrs', hvr', hvrt, bind, Outcome.bind, pure]
  congr 2
  by_cases hv : flags &&& F_VERSION = 0
  · rw [if_neg (by intro h; exact h.1 hv)]; exact (hv0 hv).symm
  · rw [if_pos ⟨hv, by omega⟩]

/-- **Parsing a well-formed CHALLENGE returns precisely what it carries.**  For every flag word, server
    challenge, reserved field, target name, target info (any bytes below 64 KiB each), version, and
    arbitrary filler bytes before / between / after the two payload fields: `ParseChallengeMessage` of
    the MS-NLMP 2.2.1.2 encoding gives back exactly that content (the Version only under
    NTLMSSP_NEGOTIATE_VERSION — otherwise it is all-zero on both sides). -/
theorem parse_build_challenge (c : Challenge) (g0 g1 g2 : Bytes) (h : Spec.WellFormed c g0 g1) :
    parseChallenge (Spec.buildChallenge c g0 g1 g2) = .ok c :=
  parse_build_challenge_any_maxlen c g0 g1 g2 _ _ h

example : Spec.WellFormed ⟨0x02000001, [1,2,3,4,5,6,7,8], zeros 8, [65, 0], [2, 0, 2, 0, 65, 0, 0, 0, 0, 0],
    [10, 0, 1, 2, 0, 0, 0, 15]⟩ [9] [] := by
  refine ⟨rfl, rfl, rfl, by decide, by decide, by decide, ?_⟩
  intro h; exact absurd h (by decide)

/-- **Target information pairs.**  For every AV-pair list (ids ≠ MsvAvEOL, values below 64 KiB, duplicates
    allowed) `ParseTargetInfo` of the MS-NLMP 2.2.2.1 encoding returns the map that assigns the pairs in
    order … -/
theorem parse_build_targetinfo (pairs : List (UInt16 × Bytes))
    (hwf : ∀ p ∈ pairs, p.1 ≠ 0 ∧ p.2.length < 65536) :
    parseTargetInfo (Spec.encodeAv pairs) = .ok (Spec.avMap pairs) := by
  unfold parseTargetInfo Spec.avMap
  apply parseTargetInfoLoop_encodeAv pairs _ [] _ hwf
  have : ∀ ps : List (UInt16 × Bytes), ps.length ≤ (Spec.encodeAv ps).length := by
    intro ps
    induction ps with
    | nil => simp
    | cons q qs ih => rw [encodeAv_cons]; simp [natLe2]; omega
  have := this pairs
  omega

/-- … whose association-list form is canonical (strictly increasing ids) … -/
theorem avMap_sorted (pairs : List (UInt16 × Bytes)) : Spec.Sorted (Spec.avMap pairs) := by
  unfold Spec.avMap
  have : ∀ (acc : AvMap), Spec.Sorted acc → Spec.Sorted (pairs.foldl (fun acc p => avInsert p.1 p.2 acc) acc) := by
    induction pairs with
    | nil => intro acc h; exact h
    | cons p ps ih => intro acc h; exact ih _ (avInsert_sorted _ _ _ h)
  exact this [] (by simp [Spec.Sorted])

/-- … and which gives every id the value of its **last** occurrence in the list (as a Go map does). -/
theorem avMap_lookup (pairs : List (UInt16 × Bytes)) (q : UInt16) :
    Spec.mapLookup (Spec.avMap pairs) q = Spec.avLookup pairs q := by
  unfold Spec.avMap
  have : ∀ (acc : AvMap), Spec.mapLookup (pairs.foldl (fun acc p => avInsert p.1 p.2 acc) acc) q =
      (Spec.avLookup pairs q).or (Spec.mapLookup acc q) := by
    induction pairs with
    | nil => intro acc; simp [Spec.avLookup]
    | cons p ps ih =>
      intro acc
      rw [List.foldl_cons, ih, mapLookup_avInsert]
      simp only [Spec.avLookup, List.reverse_cons, List.find?_append]
      cases hf : List.find? (fun p => decide (p.1 = q)) ps.reverse with
      | some x => simp
      | none =>
        by_cases hq : p.1 = q
        · simp [List.find?, hq]
        · simp [List.find?, hq]
  rw [this []]
  simp [Spec.mapLookup]


/-! ### DER lengths and the SPNEGO round trip -/

/-- **X.690 §8.1.3 definite lengths.**  For every length below 2^32, reading the octets the library writes
    after `0x60` (`encodeLength` with its `0x80 | n` prefix) and the octets `encoding/asn1` writes, by the
    X.690 rules, gives the length back and consumes exactly those octets. -/
theorem der_len_roundtrip (n : Nat) (hn : n < 2^32) (rest : Bytes) :
    Spec.decodeLength (gssLength n ++ rest) = some (n, rest) ∧
    Spec.decodeLength (derLen n ++ rest) = some (n, rest) := by
  by_cases h : n < 128
  · have hs := small_byte n h
    simp [gssLength, derLen, h, Spec.decodeLength, hs.1]
  · have hr := numBytes_range n (by omega) (by simpa using hn)
    rw [gssLength_long n (by omega), derLen_long n (by omega), (tag_long _ hr).2.1]
    exact ⟨decodeLength_long _ n hr (numBytes_spec n) rest, decodeLength_long _ n hr (numBytes_spec n) rest⟩

/-- the library's NegTokenInit **is** the DER (minimal definite lengths) of RFC 4178's
    `SEQUENCE { mechTypes [0] { NTLMSSP }, mechToken [2] OCTET STRING OPTIONAL }` in RFC 2743 framing -/
theorem wrap_init_eq_spec (t : Option Bytes) (ht : (t.getD []).length + 64 < 4294967296) :
    wrapInit t = Spec.gssInit t := by
  have hl : (marshalNegTokenInit t).length + 8 < 4294967296 := by
    unfold marshalNegTokenInit
    have hA : (tlv 0xA0 (tlv 0x30 ntlmOidTLV)).length = 16 := by decide
    have hB : (optOctets 0xA2 t).length ≤ (t.getD []).length + 12 := by
      cases t with
      | none => simp [optOctets]
      | some b =>
        simp only [optOctets, Option.getD_some] at ht ⊢
        have h1 := tlv_length 0x04 b (by omega)
        have h2 := tlv_length 0xA2 (tlv 0x04 b) (by omega)
        omega
    have := tlv_length 0x30 (tlv 0xA0 (tlv 0x30 ntlmOidTLV) ++ optOctets 0xA2 t) (by simp only [List.length_append, hA]; omega)
    simp only [List.length_append, hA] at this
    omega
  unfold wrapInit gssWrap Spec.gssInit
  rw [gssLength_eq_spec _ (by simp [spnegoOidTLV]; omega)]
  unfold marshalNegTokenInit
  cases t with
  | none => simp [Spec.der, optOctets, tlv_eq_spec]
  | some b => simp [Spec.der, optOctets, tlv_eq_spec]


/-
  FULL STATEMENT (not provable on this tree: see finding `spnego.empty-token`)

    theorem spnego_roundtrip (t : Option Bytes) (ht : (t.getD []).length + 64 < 2^31) :
        extractNTLMToken (wrapInit t) = .ok (t.getD [])

  (the bound 2^31 is the largest length `encoding/asn1` accepts in `parseTagAndLength`).
-/

/-- **SPNEGO round trip.**  For every non-empty token (shorter than the 2^31 bytes `encoding/asn1` can
    describe), extracting from the NegTokenInit the library builds returns exactly the token. -/
theorem spnego_roundtrip_partial (t : Bytes) (hne : t ≠ []) (ht : t.length + 64 < 2147483648) :
    extractNTLMToken (wrapInit (some t)) = .ok t := by
  have hlB := tlv_length 0x04 t (by omega)
  have hlB' := tlv_length 0xA2 (tlv 0x04 t) (by omega)
  have hA : (tlv 0xA0 (tlv 0x30 ntlmOidTLV)).length = 16 := by decide
  have hcl : (tlv 0xA0 (tlv 0x30 ntlmOidTLV) ++ optOctets 0xA2 (some t)).length ≤ t.length + 28 := by
    simp only [List.length_append, hA, optOctets]; omega
  have hin := tlv_length 0x30 (tlv 0xA0 (tlv 0x30 ntlmOidTLV) ++ optOctets 0xA2 (some t)) (by omega)
  unfold wrapInit extractNTLMToken
  rw [gssPrologue_wrap _ (by unfold marshalNegTokenInit; omega)]
  have hstruct : unmarshalStruct parseInitFields (marshalNegTokenInit (some t)) =
      some { mechTypes := [ntlmOid], reqFlags := none, mechToken := t, mechTokenMIC := [] } := by
    unfold unmarshalStruct marshalNegTokenInit
    have e : tlv 0x30 (tlv 0xA0 (tlv 0x30 ntlmOidTLV) ++ optOctets 0xA2 (some t)) =
        0x30 :: (derLen (tlv 0xA0 (tlv 0x30 ntlmOidTLV) ++ optOctets 0xA2 (some t)).length ++
          ((tlv 0xA0 (tlv 0x30 ntlmOidTLV) ++ optOctets 0xA2 (some t)) ++ [])) := by
      simp [tlv_eq]
    rw [e, parseField_plain 0x30 false 16 true parseInitFields _ [] _ (by decide) (by decide) (by decide) (by decide)
      (by omega) (parseInitFields_token t ht)]
  simp only [bind, Outcome.bind, hstruct]
  have : t.length > 0 := List.length_pos_iff.mpr hne
  simp [this]

example : extractNTLMToken (wrapInit (some [1, 2, 3])) = .ok [1, 2, 3] :=
  spnego_roundtrip_partial [1, 2, 3] (by decide) (by decide)

/-- witness for finding `spnego.empty-token`: a nil token is omitted from the NegTokenInit, an empty one
    is written as an empty OCTET STRING; in both cases `ExtractNTLMToken` reports "no NTLM token found" -/
theorem spnego_roundtrip_counterexample_empty_token :
    extractNTLMToken (wrapInit none) = .err ∧ extractNTLMToken (wrapInit (some [])) = .err := by
  constructor <;> decide


/-! ### the two parsers are total (guards of fixes C08-challenge-offset-wrap, C08-gss-header-bounds) -/

/-- no CHALLENGE bytes make `ParseChallengeMessage` panic (offset + length is compared without wrap-around) -/
theorem challenge_parse_total (d : Bytes) : parseChallenge d ≠ .panic := by
  unfold parseChallenge
  split
  · intro h; cases h
  · split
    · intro h; cases h
    · split
      · intro h; cases h
      · have h1 := payloadField_no_panic d (u16At d 12) (u32At d 16)
        have h2 := payloadField_no_panic d (u16At d 40) (u32At d 44)
        cases e1 : payloadField d (u16At d 12) (u32At d 16) with
        | panic => exact absurd e1 h1
        | err => intro h; cases h
        | ok a =>
          cases e2 : payloadField d (u16At d 40) (u32At d 44) with
          | panic => exact absurd e2 h2
          | err => intro h; cases h
          | ok b => intro h; cases h

/-- no bytes make the repo's own slicing in `ExtractNTLMToken` / `ParseNegTokenResp` panic
    (`encoding/asn1` is assumed not to panic) -/
theorem spnego_extract_total (d : Bytes) : extractNTLMToken d ≠ .panic ∧ parseNegTokenResp d ≠ .panic := by
  have hp := gssPrologue_no_panic d
  unfold extractNTLMToken parseNegTokenResp
  cases e : gssPrologue d with
  | panic => exact absurd e hp
  | err => constructor <;> (intro h; cases h)
  | ok rest =>
    simp only [bind, Outcome.bind]
    constructor
    · split
      · split
        · intro h; cases h
        · split
          · split <;> (intro h; cases h)
          · intro h; cases h
      · split
        · split <;> (intro h; cases h)
        · intro h; cases h
    · split <;> (intro h; cases h)

end Manticore.C08
