/-
  C16 — the byte positions, shifts, bounds and separators of the hand model are those of the current source.

  `Gen/ConstsC16.lean` is regenerated on every run from `ParseSIDFromBytes`, `splitDistinguishedName` and
  `GetDomainFromDistinguishedName` (tools/extract/consts_c16.go).  Each theorem restates a model function with the
  regenerated numbers in place of its literals and its list patterns.
-/
import Manticore.Model.C16
import Manticore.Lemmas.Consts
import Manticore.Gen.ConstsC16
namespace Manticore.C16
open Manticore
open Manticore.Gen
open Manticore.Consts (byteAt)

-- the six shift amounts of the identifier authority (`uint64(sidBytes[2+i]) << s`; the last term is not shifted)
theorem consts_match_model_authority (b2 b3 b4 b5 b6 b7 : UInt8) :
    authority b2 b3 b4 b5 b6 b7
      = (b2.toUInt64 <<< UInt64.ofNat ConstsC16.sid_auth0_shift) ||| (b3.toUInt64 <<< UInt64.ofNat ConstsC16.sid_auth1_shift)
        ||| (b4.toUInt64 <<< UInt64.ofNat ConstsC16.sid_auth2_shift) ||| (b5.toUInt64 <<< UInt64.ofNat ConstsC16.sid_auth3_shift)
        ||| (b6.toUInt64 <<< UInt64.ofNat ConstsC16.sid_auth4_shift) ||| b7.toUInt64 := by exact rfl

theorem consts_match_model_authority_shape :
    [ConstsC16.sid_auth0_shape, ConstsC16.sid_auth1_shape, ConstsC16.sid_auth2_shape, ConstsC16.sid_auth3_shape,
     ConstsC16.sid_auth4_shape, ConstsC16.sid_auth5_shape]
      = ["(<< (uint64 (index sidBytes (+ 2 0))) 40)", "(<< (uint64 (index sidBytes (+ 2 1))) 32)",
         "(<< (uint64 (index sidBytes (+ 2 2))) 24)", "(<< (uint64 (index sidBytes (+ 2 3))) 16)",
         "(<< (uint64 (index sidBytes (+ 2 4))) 8)", "(uint64 (index sidBytes (+ 2 5)))"] := by exact rfl

-- the sub-authority loop reads at `8 + 4·k`
theorem consts_match_model_subLoop (b : Bytes) (k n : Nat) (acc : List String) :
    subLoop b k (n + 1) acc =
      match readLe32From b (ConstsC16.sid_sub_base + ConstsC16.sid_sub_stride * k) with
      | .ok v => subLoop b (k + 1) n (acc ++ [toString v.toNat])
      | .err => .err
      | .panic => .panic := by exact rfl

-- each sub-authority is 32 bits in the byte order the source names
theorem consts_match_model_readLe32 :
    ConstsC16.sid_sub_width = 32 ∧
    readLe32From [0x10, 0x11, 0x12, 0x13, 0x14] 1
      = .ok (if ConstsC16.sid_sub_le then 0x14131211 else 0x11121314) := by decide

theorem consts_match_model_sub_shape :
    ConstsC16.sid_sub_shape = "(binary.LittleEndian.Uint32 (slice sidBytes (+ 8 (* 4 k)) _))"
      ∧ ConstsC16.sid_fits_shape = "(< (len sidBytes) (+ 8 (* 4 subAuthorityCount)))"
      ∧ ConstsC16.sid_guard_shape = "(|| (< (len sidBytes) 8) (!= (index sidBytes 0) 1))" := ⟨rfl, rfl, rfl⟩

-- a buffer that passes the length guard: which byte is the revision, which the count, which six the authority,
-- the revision value, and the bound `8 + 4·count`
theorem consts_match_model_parseSID (r c b2 b3 b4 b5 b6 b7 : UInt8) (rest : Bytes) :
    let b := r :: c :: b2 :: b3 :: b4 :: b5 :: b6 :: b7 :: rest
    parseSID b =
      if byteAt b ConstsC16.sid_guard_revIdx != UInt8.ofNat ConstsC16.sid_guard_revision then .ok ""
      else if b.length < ConstsC16.sid_fits_base + ConstsC16.sid_fits_stride * (byteAt b ConstsC16.sid_countIdx).toNat then .ok ""
      else
        match subLoop b 0 (byteAt b ConstsC16.sid_countIdx).toNat
            ["S-" ++ toString (byteAt b ConstsC16.sid_revIdx).toNat ++ "-" ++
              toString (authority (byteAt b (ConstsC16.sid_auth0_base + ConstsC16.sid_auth0_off))
                                  (byteAt b (ConstsC16.sid_auth1_base + ConstsC16.sid_auth1_off))
                                  (byteAt b (ConstsC16.sid_auth2_base + ConstsC16.sid_auth2_off))
                                  (byteAt b (ConstsC16.sid_auth3_base + ConstsC16.sid_auth3_off))
                                  (byteAt b (ConstsC16.sid_auth4_base + ConstsC16.sid_auth4_off))
                                  (byteAt b (ConstsC16.sid_auth5_base + ConstsC16.sid_auth5_off))).toNat] with
        | .ok parts => .ok ("-".intercalate parts)
        | .err => .err
        | .panic => .panic := by exact rfl

-- a buffer shorter than the guard's minimum length is "not a SID"
theorem consts_match_model_parseSID_short (b : Bytes) (h : b.length < ConstsC16.sid_guard_minLen) : parseSID b = .ok "" := by
  match b, h with
  | [], _ => rfl
  | [_], _ => rfl
  | [_, _], _ => rfl
  | [_, _, _], _ => rfl
  | [_, _, _, _], _ => rfl
  | [_, _, _, _, _], _ => rfl
  | [_, _, _, _, _, _], _ => rfl
  | [_, _, _, _, _, _, _], _ => rfl
  | _ :: _ :: _ :: _ :: _ :: _ :: _ :: _ :: _, h => exact absurd h (by simp [ConstsC16.sid_guard_minLen])

-- the texts around the numbers: `"S-%d-%d"`, `"%d"`, joined by `"-"`
theorem consts_match_model_sid_texts :
    ConstsC16.sid_headFormat = asciiBytes "S-%d-%d" ∧ ConstsC16.sid_subFormat = asciiBytes "%d"
      ∧ ConstsC16.sid_joiner = asciiBytes "-" := by decide

-- the DN functions: escape byte, separator, the `DC=` prefix (tested and trimmed), the joining and trimmed dot
theorem consts_match_model_dn :
    backslash = UInt8.ofNat ConstsC16.dn_escape ∧ comma = UInt8.ofNat ConstsC16.dn_separator
      ∧ dcPrefix = ConstsC16.dn_prefix ∧ ConstsC16.dn_trimPrefix = ConstsC16.dn_prefix
      ∧ dcPrefix.length = 3 ∧ [dot] = ConstsC16.dn_joiner ∧ [dot] = ConstsC16.dn_trimSuffix := by decide

end Manticore.C16
