/-
  C14 — Key-credential blobs round-trip and their integrity hash detects tampering.
  Property theorems only.  Model and spec: `Manticore/Model/C14.lean`; helper lemmas:
  `Manticore/Lemmas/C14Text.lean`, `Manticore/Lemmas/C14Blob.lean`.

  Everywhere `H : Bytes → Bytes` is an arbitrary hash function (SHA-256 in the library).  The only
  fact about it that the round-trip clauses use is `HashLen32 H` (digests are 32 bytes); the
  tampering clauses use nothing and *exhibit* a collision (or a message containing its own digest).
  The credential is the one `NewKeyCredential` builds: any version value, any binary identifier
  `idb` (presented as the library's own text form `fromBinaryId idb v`), any key material, device
  GUID and tick values, within `Fits` (what a 16-bit entry length and a 128-bit GUID can hold).
-/
import Manticore.Model.C14
import Manticore.Lemmas.C14Text
import Manticore.Lemmas.C14Blob
import Manticore.Lemmas.C14Total
namespace Manticore.C14
open Manticore

/-- **Entry order and layout.**  The serialisation of a fresh credential is exactly the MS-ADTS
    KEYCREDENTIALLINK_BLOB: version, then (length : uint16 LE, identifier, value) entries in
    ascending identifier order — KeyID (if any), KeyHash = `H` of the bytes of all entries after it,
    KeyMaterial (BCRYPT_RSAKEY_BLOB), KeyUsage = NGC, KeySource = AD, DeviceId (GUID packet),
    CustomKeyInformation `01 00`, last-logon and creation ticks. -/
theorem serialise_is_msadts_grammar (H : Bytes → Bytes) (hH : HashLen32 H) (v : UInt32) (idb : Bytes)
    (m : RSAKeyMaterial) (g : Guid) (t1 t2 : UInt64) (hf : Fits idb m g) :
    ∃ k, newKeyCredential H v (fromBinaryId idb v) m g t1 t2 = .ok k ∧
      k.toBytes = .ok (Spec.Cred.encode H
        { version := v.toNat, keyId := idb, bitLength := m.keySize.toNat, exponent := m.exponent.toNat,
          modulus := m.modulus, prime1 := m.prime1, prime2 := m.prime2,
          deviceId := Spec.guidPacket g.a.toNat g.b.toNat g.c.toNat g.d.toNat g.e.toNat,
          lastLogon := t1.toNat, creation := t2.toNat }) := by
  refine ⟨_, newKeyCredential_closed H v idb m g t1 t2 hf, ?_⟩
  rw [toBytes_built H hH, freshBlob_spec H hH v idb m g t1 t2 hf]
  rfl

/-- **Round trip.**  Parsing the serialisation of a fresh credential gives back every field: version,
    identifier, key hash, key material (size, exponent, modulus, both primes), usage, source, custom
    key information, device id and both timestamps — and these are the values that were put in. -/
theorem blob_roundtrip (H : Bytes → Bytes) (hH : HashLen32 H) (v : UInt32) (idb : Bytes)
    (m : RSAKeyMaterial) (g : Guid) (t1 t2 : UInt64) (hf : Fits idb m g) :
    ∃ k b k', newKeyCredential H v (fromBinaryId idb v) m g t1 t2 = .ok k ∧ k.toBytes = .ok b ∧
      KeyCredential.fromBytes {} b = .ok k' ∧ k'.fields = k.fields ∧
      k.fields =
        { version := v, identifier := fromBinaryId idb v, keyHash := H k.tailBytes,
          keySize := m.keySize, exponent := m.exponent, modulus := m.modulus, prime1 := m.prime1,
          prime2 := m.prime2, usage := 1, legacyUsage := [], source := 0, ckiVersion := 1, ckiFlags := 0,
          deviceId := g, lastLogon := t1, creation := t2 } := by
  have h32 : (H (freshTail m g t1 t2)).length = 32 := hH _
  refine ⟨_, _, _, newKeyCredential_closed H v idb m g t1 t2 hf, toBytes_built H hH v idb m g t1 t2,
    fromBytes_freshBlob v idb _ m g t1 t2 hf (by omega) (by omega), rfl, ?_⟩
  rw [builtCred_tailBytes]
  rfl

/-- **Same bytes again.**  The parsed copy serialises to the bytes it was parsed from. -/
theorem reserialise_same_bytes (H : Bytes → Bytes) (hH : HashLen32 H) (v : UInt32) (idb : Bytes)
    (m : RSAKeyMaterial) (g : Guid) (t1 t2 : UInt64) (hf : Fits idb m g) :
    ∃ k b k', newKeyCredential H v (fromBinaryId idb v) m g t1 t2 = .ok k ∧ k.toBytes = .ok b ∧
      KeyCredential.fromBytes {} b = .ok k' ∧ k'.toBytes = .ok b := by
  have h32 : (H (freshTail m g t1 t2)).length = 32 := hH _
  exact ⟨_, _, _, newKeyCredential_closed H v idb m g t1 t2 hf, toBytes_built H hH v idb m g t1 t2,
    fromBytes_freshBlob v idb _ m g t1 t2 hf (by omega) (by omega), toBytes_parsed v idb _ m g t1 t2 (by omega)⟩

/-- **Own integrity check.**  Both the fresh credential and the copy parsed from its serialisation
    pass `CheckIntegrity`. -/
theorem fresh_passes_integrity (H : Bytes → Bytes) (hH : HashLen32 H) (v : UInt32) (idb : Bytes)
    (m : RSAKeyMaterial) (g : Guid) (t1 t2 : UInt64) (hf : Fits idb m g) :
    ∃ k b k', newKeyCredential H v (fromBinaryId idb v) m g t1 t2 = .ok k ∧ k.toBytes = .ok b ∧
      KeyCredential.fromBytes {} b = .ok k' ∧ integrityOk H k = .ok true ∧ integrityOk H k' = .ok true := by
  have h32 : (H (freshTail m g t1 t2)).length = 32 := hH _
  refine ⟨_, _, _, newKeyCredential_closed H v idb m g t1 t2 hf, toBytes_built H hH v idb m g t1 t2,
    fromBytes_freshBlob v idb _ m g t1 t2 hf (by omega) (by omega), ?_, ?_⟩
  · unfold integrityOk
    rw [checkIntegrity_freshShape H (builtCred H v idb m g t1 t2) v idb zeros32 m g t1 t2 hf (by simp [zeros32])
      (by simp [zeros32]) rfl]
    simp [builtCred]
  · unfold integrityOk
    rw [checkIntegrity_freshShape H (parsedCred v idb _ m g t1 t2) v idb _ m g t1 t2 hf (by omega) (by omega) rfl]
    simp [parsedCred]

/-! ### tampering -/

/-- what the integrity check of a parsed blob `prefix ++ c'` computes, `prefix` being the part of a
    fresh serialisation up to and including its KeyHash entry -/
private theorem tampered_integrity (H : Bytes → Bytes) (v : UInt32) (idb h c' : Bytes) (k' : KeyCredential)
    (hi : idb.length ≤ 65535) (hh : h.length ≤ 65535) (hpos : 0 < h.length)
    (hparse : KeyCredential.fromBytes {} (putLe32 v ++ (idPart idb ++ (writeEntry 2 h ++ c'))) = .ok k')
    (hint : integrityOk H k' = .ok true) :
    H (coveredWalk c' c') = hashWalk c' h := by
  rw [fromBytes_blob, parseLoop_afterVersion _ idb h c' hi hh hpos] at hparse
  obtain ⟨hl, hk, hr⟩ := parseLoop_ok_walks c' _ k' c' hparse
  simp only at hk hr
  unfold integrityOk at hint
  rw [checkIntegrity_eq, computeKeyHash_eq, hashInput_raw k' v idb h c' hi hh hpos hr, hl] at hint
  simp only [Outcome.ok.injEq, beq_iff_eq] at hint
  rw [hint, hk]

/-- the serialisation of a fresh credential splits as `prefix ++ tailBytes`, the prefix ending with
    the KeyHash entry -/
private theorem fresh_split (H : Bytes → Bytes) (hH : HashLen32 H) (v : UInt32) (idb : Bytes)
    (m : RSAKeyMaterial) (g : Guid) (t1 t2 : UInt64) (hf : Fits idb m g) (k : KeyCredential) (p : Bytes)
    (hnew : newKeyCredential H v (fromBinaryId idb v) m g t1 t2 = .ok k)
    (hb : k.toBytes = .ok (p ++ k.tailBytes)) :
    k.tailBytes = freshTail m g t1 t2 ∧
      p = putLe32 v ++ (idPart idb ++ writeEntry 2 (H (freshTail m g t1 t2))) := by
  rw [newKeyCredential_closed H v idb m g t1 t2 hf] at hnew
  cases hnew
  rw [builtCred_tailBytes] at hb ⊢
  rw [toBytes_built H hH] at hb
  refine ⟨rfl, ?_⟩
  have hb' := Outcome.ok.inj hb
  unfold freshBlob at hb'
  have : putLe32 v ++ (idPart idb ++ (writeEntry 2 (H (freshTail m g t1 t2)) ++ freshTail m g t1 t2)) =
      (putLe32 v ++ (idPart idb ++ writeEntry 2 (H (freshTail m g t1 t2)))) ++ freshTail m g t1 t2 := by
    simp [List.append_assoc]
  rw [this] at hb'
  exact (List.append_cancel_right hb').symm

/-- **Tampering is detected, or a collision is exhibited.**  Take the serialisation `p ++ c` of a fresh
    credential, `c` being the entries covered by the key hash, and replace `c` by any other `c'` in
    which the entry walk meets no further KeyHash-typed entry.  If the altered blob still parses and
    passes `CheckIntegrity`, then `c` and `c'` are two different messages with the same digest. -/
theorem tamper_detected_or_collision (H : Bytes → Bytes) (hH : HashLen32 H) (v : UInt32) (idb : Bytes)
    (m : RSAKeyMaterial) (g : Guid) (t1 t2 : UInt64) (hf : Fits idb m g)
    (k : KeyCredential) (p : Bytes)
    (hnew : newKeyCredential H v (fromBinaryId idb v) m g t1 t2 = .ok k)
    (hb : k.toBytes = .ok (p ++ k.tailBytes))
    (c' : Bytes) (hne : c' ≠ k.tailBytes) (hfree : hashFree c' = true)
    (k' : KeyCredential) (hparse : KeyCredential.fromBytes {} (p ++ c') = .ok k')
    (hint : integrityOk H k' = .ok true) :
    k.tailBytes ≠ c' ∧ H k.tailBytes = H c' := by
  obtain ⟨ht, hp⟩ := fresh_split H hH v idb m g t1 t2 hf k p hnew hb
  have h32 : (H (freshTail m g t1 t2)).length = 32 := hH _
  have hparse' : KeyCredential.fromBytes {} (putLe32 v ++ (idPart idb ++ (writeEntry 2 (H (freshTail m g t1 t2)) ++ c'))) = .ok k' := by
    rw [hp] at hparse; simpa [List.append_assoc] using hparse
  have key := tampered_integrity H v idb _ c' k' hf.id (by omega) (by omega) hparse' hint
  have hw : (walkTypes c').contains 2 = false := by simpa [hashFree] using hfree
  obtain ⟨w1, w2⟩ := hashFree_walks c' c' (H (freshTail m g t1 t2)) hw
  rw [w1, w2] at key
  exact ⟨fun e => hne e.symm, by rw [ht]; exact key.symm⟩

/-- **Any alteration of the covered entries.**  With no restriction on `c'` at all: if the altered blob
    parses and passes `CheckIntegrity`, a collision of `H` is exhibited, or a message that contains
    its own digest (the case where `c'` smuggles in a second KeyHash entry: the library then compares
    the digest of `c' ++ …` with a value stored inside `c'`). -/
theorem tamper_detected_or_collision_or_selfcontained (H : Bytes → Bytes) (hH : HashLen32 H) (v : UInt32)
    (idb : Bytes) (m : RSAKeyMaterial) (g : Guid) (t1 t2 : UInt64) (hf : Fits idb m g)
    (k : KeyCredential) (p : Bytes)
    (hnew : newKeyCredential H v (fromBinaryId idb v) m g t1 t2 = .ok k)
    (hb : k.toBytes = .ok (p ++ k.tailBytes))
    (c' : Bytes) (hne : c' ≠ k.tailBytes)
    (k' : KeyCredential) (hparse : KeyCredential.fromBytes {} (p ++ c') = .ok k')
    (hint : integrityOk H k' = .ok true) :
    Collision H ∨ SelfContained H := by
  obtain ⟨ht, hp⟩ := fresh_split H hH v idb m g t1 t2 hf k p hnew hb
  have h32 : (H (freshTail m g t1 t2)).length = 32 := hH _
  have hparse' : KeyCredential.fromBytes {} (putLe32 v ++ (idPart idb ++ (writeEntry 2 (H (freshTail m g t1 t2)) ++ c'))) = .ok k' := by
    rw [hp] at hparse; simpa [List.append_assoc] using hparse
  have key := tampered_integrity H v idb _ c' k' hf.id (by omega) (by omega) hparse' hint
  rcases walk_dichotomy c' c' (H (freshTail m g t1 t2)) with ⟨w1, w2⟩ | hin
  · left
    rw [w1, w2] at key
    exact ⟨k.tailBytes, c', fun e => hne e.symm, by rw [ht]; exact key.symm⟩
  · right
    refine ⟨coveredWalk c' c', ?_⟩
    rw [key]
    exact List.IsInfix.trans hin (coveredWalk_prefix c' c').isInfix

/-- **Every single-bit corruption** of the entries covered by the key hash: bit `i` of the
    serialisation, `i` anywhere from the first covered bit to the last bit of the blob. -/
theorem bitflip_detected_or_collision_or_selfcontained (H : Bytes → Bytes) (hH : HashLen32 H) (v : UInt32)
    (idb : Bytes) (m : RSAKeyMaterial) (g : Guid) (t1 t2 : UInt64) (hf : Fits idb m g)
    (k : KeyCredential) (p : Bytes)
    (hnew : newKeyCredential H v (fromBinaryId idb v) m g t1 t2 = .ok k)
    (hb : k.toBytes = .ok (p ++ k.tailBytes))
    (i : Nat) (hlo : 8 * p.length ≤ i) (hhi : i < 8 * (p ++ k.tailBytes).length)
    (k' : KeyCredential) (hparse : KeyCredential.fromBytes {} (flipBit (p ++ k.tailBytes) i) = .ok k')
    (hint : integrityOk H k' = .ok true) :
    Collision H ∨ SelfContained H := by
  rw [flipBit_append p _ i hlo] at hparse
  have hlt : i - 8 * p.length < 8 * k.tailBytes.length := by
    rw [List.length_append] at hhi; omega
  exact tamper_detected_or_collision_or_selfcontained H hH v idb m g t1 t2 hf k p hnew hb _
    (flipBit_ne _ _ hlt) k' hparse hint

/-- **The stored hash itself.**  Replace the 32 bytes of the KeyHash value of a fresh serialisation by
    any other non-empty value (at most 65535 bytes): the blob parses, and `CheckIntegrity` fails —
    unconditionally, with no assumption on `H` at all. -/
theorem keyhash_value_tamper_detected (H : Bytes → Bytes) (v : UInt32) (idb : Bytes)
    (m : RSAKeyMaterial) (g : Guid) (t1 t2 : UInt64) (hf : Fits idb m g)
    (h' : Bytes) (hpos : 0 < h'.length) (hlen : h'.length ≤ 65535) (hne : h' ≠ H (freshTail m g t1 t2)) :
    ∃ k', KeyCredential.fromBytes {} (putLe32 v ++ (idPart idb ++ (writeEntry 2 h' ++ freshTail m g t1 t2))) = .ok k' ∧
      integrityOk H k' = .ok false := by
  refine ⟨_, fromBytes_freshBlob v idb h' m g t1 t2 hf hlen hpos, ?_⟩
  unfold integrityOk
  rw [checkIntegrity_freshShape H (parsedCred v idb h' m g t1 t2) v idb h' m g t1 t2 hf hlen hpos rfl]
  have : (H (freshTail m g t1 t2) == (parsedCred v idb h' m g t1 t2).keyHash) = false := by
    simp only [parsedCred, beq_eq_false_iff_ne]
    exact fun e => hne e.symm
  rw [this]

/-! ### a corrupted blob is rejected, never a crash

With `fixes/C07-keycredential-frombytes-bounds.diff`, `C07-rsakeymaterial-bounds.diff`,
`C07-guid-fromrawbytes-short.diff`, `C07-keycredential-binarytime-short.diff`,
`C07-keycredential-fixed-width-readers.diff` and `C07-keycredential-keyhash-walk.diff` the model has
no reachable panic branch left, so the clause "every corruption is rejected" holds outright. -/

/-- **`FromBytes` is total**: on every byte string (and every receiver) it returns a credential or an
    error. -/
theorem parse_total (k : KeyCredential) (b : Bytes) : KeyCredential.fromBytes k b ≠ .panic :=
  fromBytes_no_panic k b

/-- **`CheckIntegrity` is total**: on every credential value — parsed, built, half-initialised — it
    returns a verdict (`H` arbitrary). -/
theorem integrity_total (H : Bytes → Bytes) (k : KeyCredential) : ∃ b, integrityOk H k = .ok b := by
  obtain ⟨⟨b, k'⟩, h⟩ := checkIntegrity_ok H k
  exact ⟨b, by unfold integrityOk; rw [h]⟩

/-- **`NewKeyCredential` is total**: also outside `Fits` (key material or identifier beyond a 16-bit
    entry length: `writeEntry` still truncates the length, but the hash walk stops at an entry that
    overruns the buffer instead of slicing past it). -/
theorem new_total (H : Bytes → Bytes) (v : UInt32) (ids : Bytes) (m : RSAKeyMaterial) (g : Guid)
    (t1 t2 : UInt64) : ∃ k, newKeyCredential H v ids m g t1 t2 = .ok k :=
  newKeyCredential_ok H v ids m g t1 t2

/-- **Every single-bit corruption of the covered entries is rejected** — `FromBytes` returns an error,
    or `CheckIntegrity` returns false — unless a collision of `H` (or a message containing its own
    digest) is exhibited.  This is the full statement of the tampering clause: no hypothesis that the
    corrupted blob parses. -/
theorem bitflip_rejected_or_collision (H : Bytes → Bytes) (hH : HashLen32 H) (v : UInt32)
    (idb : Bytes) (m : RSAKeyMaterial) (g : Guid) (t1 t2 : UInt64) (hf : Fits idb m g)
    (k : KeyCredential) (p : Bytes)
    (hnew : newKeyCredential H v (fromBinaryId idb v) m g t1 t2 = .ok k)
    (hb : k.toBytes = .ok (p ++ k.tailBytes))
    (i : Nat) (hlo : 8 * p.length ≤ i) (hhi : i < 8 * (p ++ k.tailBytes).length) :
    KeyCredential.fromBytes {} (flipBit (p ++ k.tailBytes) i) = .err ∨
    (∃ k', KeyCredential.fromBytes {} (flipBit (p ++ k.tailBytes) i) = .ok k' ∧ integrityOk H k' = .ok false) ∨
    Collision H ∨ SelfContained H := by
  cases hp : KeyCredential.fromBytes {} (flipBit (p ++ k.tailBytes) i) with
  | err => left; rfl
  | panic => exact absurd hp (parse_total _ _)
  | ok k' =>
    right
    obtain ⟨b, hi⟩ := integrity_total H k'
    cases b with
    | false => left; exact ⟨k', rfl, hi⟩
    | true =>
      right
      exact bitflip_detected_or_collision_or_selfcontained H hH v idb m g t1 t2 hf k p hnew hb i hlo hhi k' hp hi

/-- an entry length beyond the end of the buffer is an error (was: `remainder[length:]` panicked) -/
theorem parse_rejects_entry_length :
    KeyCredential.fromBytes {} [0, 2, 0, 0, 0xff, 0xff, 3, 0] = .err := by
  simp [KeyCredential.fromBytes, parseLoop, le16]

/-- an empty KeySource entry is an error (was: `entryData[0]` panicked) -/
theorem parse_rejects_empty_source :
    KeyCredential.fromBytes {} [0, 2, 0, 0, 0, 0, 5, 0] = .err := by
  simp [KeyCredential.fromBytes, parseLoop, le16, applyEntry]

/-- a one-byte KeyMaterial entry is an error (was: `value[:4]` panicked in `RSAKeyMaterial.FromBytes`) -/
theorem parse_rejects_short_material :
    KeyCredential.fromBytes {} [0, 2, 0, 0, 1, 0, 3, 0] = .err := by
  simp [KeyCredential.fromBytes, parseLoop, le16, applyEntry, RSAKeyMaterial.fromBytes]

/-- a one-byte DeviceId entry is an error (was: `data[1]` panicked in `GUID.FromRawBytes`) -/
theorem parse_rejects_short_guid :
    KeyCredential.fromBytes {} [0, 2, 0, 0, 1, 0, 6, 0] = .err := by
  simp [KeyCredential.fromBytes, parseLoop, le16, applyEntry]

/-- a one-byte time entry is an error (was: `binary.LittleEndian.Uint64` panicked in `ConvertFromBinaryTime`) -/
theorem parse_rejects_short_time :
    KeyCredential.fromBytes {} [0, 2, 0, 0, 1, 0, 8, 0] = .err := by
  simp [KeyCredential.fromBytes, parseLoop, le16, applyEntry]

/-- fewer than four bytes are an error (was: `value[:4]` panicked in `KeyCredentialVersion.FromBytes`) -/
theorem parse_rejects_short_version :
    KeyCredential.fromBytes {} [0, 2, 0] = .err := by
  simp [KeyCredential.fromBytes]

/-! ### the parts -/

/-- **Identifiers.**  `ConvertToBinaryIdentifier (ConvertFromBinaryIdentifier d)` is `d`, for every
    byte string and every version value: hex for versions 0 and 1, base64 — whatever the number of
    pad characters — for all others. -/
theorem identifier_roundtrip (d : Bytes) (v : UInt32) : toBinaryId (fromBinaryId d v) v = some d :=
  toBinaryId_fromBinaryId d v

/-- **RSA key material.**  `FromBytes (ToBytes m)` recovers key size, exponent, modulus and both primes
    (any lengths below 2^32, empty primes included); and `ToBytes` is the BCRYPT_RSAKEY_BLOB layout with a 4-byte big-endian exponent. -/
theorem rsa_material_roundtrip (rk0 m : RSAKeyMaterial) (extra : Bytes)
    (hm : m.modulus.length < 2 ^ 32) (h1 : m.prime1.length < 2 ^ 32) (h2 : m.prime2.length < 2 ^ 32) :
    RSAKeyMaterial.fromBytes rk0 m.toBytes extra =
      .ok ({ keySize := m.keySize, exponent := m.exponent, modulus := m.modulus, prime1 := m.prime1,
             prime2 := m.prime2, rawBytes := m.toBytes }, false) ∧
    m.toBytes = Spec.bcryptRsaBlob m.keySize.toNat 4 m.exponent.toNat m.modulus m.prime1 m.prime2 :=
  ⟨rsa_rt rk0 m extra hm h1 h2, rsa_toBytes_spec m hm h1 h2⟩

/-- **Custom key information: both threshold ladders agree.**  A version-1 structure whose fields end on
    a field boundary (2, 3, 4, 5, 9, 19 bytes, or 19 bytes followed by EncodedExtendedCKI) and whose
    SupportsNotification byte is 0 or 1 re-serialises to the same bytes. -/
theorem cki_ladders_agree (b : Bytes) (hv : b.head? = some 1)
    (hl : b.length ∈ [2, 3, 4, 5, 9, 19] ∨ 19 < b.length) (hs : (b.getD 3 0).toNat ≤ 1) :
    (CKI.fromBytes {} b).1.toBytes = b :=
  cki_roundtrip_aux b hv hl hs

/-- **Device id.**  `FromRawBytes (ToBytes g)` is `g` for every 128-bit GUID, and `ToBytes` is the
    MS-DTYP packet layout. -/
theorem guid_roundtrip (g : Guid) (he : g.e.toNat < 2 ^ 48) (rest : Bytes) :
    Guid.fromRawBytes (g.toBytes ++ rest) = .ok g ∧
    g.toBytes = Spec.guidPacket g.a.toNat g.b.toNat g.c.toNat g.d.toNat g.e.toNat :=
  ⟨guid_rt g he rest, guid_toBytes_spec g⟩

/-- **DN-with-binary.**  `Parse (ToString (bin, dn))` returns `bin` and `dn`, for every binary value and
    every DN byte string — colons, commas, equal signs, non-UTF-8 bytes included — and `ToString` is
    the Object(DN-Binary) syntax `B:<hex digit count>:<hex>:<dn>`.  (`hlen`: a Go slice length fits
    an int.) -/
theorem dn_binary_roundtrip (bin dn : Bytes) (hlen : bin.length < 2 ^ 62) :
    dnParse (dnToString bin dn) = .ok (bin, dn) ∧ dnToString bin dn = Spec.dnBinary bin dn := by
  refine ⟨dnParse_dnToString bin dn hlen, ?_⟩
  simp [dnToString, Spec.dnBinary, colon, Nat.mul_comm]

/-! ### non-vacuity: the hypotheses are satisfiable, the conclusions are not trivial -/

/-- a "hash" with 32-byte digests -/
example : HashLen32 (fun _ => List.replicate 32 7) := fun _ => by simp
example : Fits [1, 2, 3] { keySize := 32, exponent := 65537, modulus := [0xc1, 2, 3, 5] } ⟨1, 2, 3, 4, 5⟩ :=
  ⟨by decide, by decide, by decide⟩
/-- the tampering hypotheses can all hold at once (with a constant `H` everything collides): the
    covered entries of a credential with another creation time are a valid, hash-free replacement -/
example : ∃ (c' : Bytes) (k' : KeyCredential),
    c' ≠ freshTail {} ⟨0, 0, 0, 0, 0⟩ 0 0 ∧ hashFree c' = true ∧
    KeyCredential.fromBytes {} (putLe32 0 ++ (idPart [] ++ (writeEntry 2 (List.replicate 32 7) ++ c'))) = .ok k' ∧
    integrityOk (fun _ => List.replicate 32 7) k' = .ok true := by
  have hf : Fits [] ({} : RSAKeyMaterial) ⟨0, 0, 0, 0, 0⟩ := ⟨by decide, by decide, by decide⟩
  refine ⟨freshTail {} ⟨0, 0, 0, 0, 0⟩ 0 1, _, ?_, ?_,
    fromBytes_freshBlob 0 [] (List.replicate 32 7) {} ⟨0, 0, 0, 0, 0⟩ 0 1 hf (by simp) (by simp), ?_⟩
  · intro e
    have h1 := parseLoop_freshTail {} {} ⟨0, 0, 0, 0, 0⟩ 0 1 (by decide) (by decide)
    have h0 := parseLoop_freshTail {} {} ⟨0, 0, 0, 0, 0⟩ 0 0 (by decide) (by decide)
    rw [e, h0] at h1
    have := congrArg KeyCredential.creation (Outcome.ok.inj h1)
    simp [parsedTail] at this
  · exact hashFree_freshTail {} ⟨0, 0, 0, 0, 0⟩ 0 1 (by decide)
  · unfold integrityOk
    rw [checkIntegrity_freshShape _ (parsedCred 0 [] (List.replicate 32 7) {} ⟨0, 0, 0, 0, 0⟩ 0 1) 0 []
      (List.replicate 32 7) {} ⟨0, 0, 0, 0, 0⟩ 0 1 hf (by simp) (by simp) rfl]
    simp [parsedCred]
/-- the round trip on a concrete DN containing colons -/
example : dnParse (dnToString [1, 2] [67, 78, 61, 97, 58, 98]) = .ok ([1, 2], [67, 78, 61, 97, 58, 98]) :=
  (dn_binary_roundtrip _ _ (by decide)).1
/-- version-2 identifiers of every padding class -/
example : toBinaryId (fromBinaryId [1] 0x200) 0x200 = some [1] ∧ toBinaryId (fromBinaryId [1, 2] 0x200) 0x200 = some [1, 2] ∧
    toBinaryId (fromBinaryId [1, 2, 3] 0x200) 0x200 = some [1, 2, 3] := by decide
example : fromBinaryId [1, 2, 3] 0x200 = [65, 81, 73, 68] ∧ fromBinaryId [1] 0x200 = [65, 81, 61, 61] := by decide

end Manticore.C14
