/-
  C01 — Password-hash primitives equal their reference algorithms on every input.
  Property theorems only.  Model and spec: `Manticore/Model/C01.lean`; generated MD4 kernel:
  `Manticore/Gen/Md4Kernel.lean`; helper lemmas: `Lemmas/MD4Stream.lean`, `Lemmas/Utf.lean`,
  `Lemmas/LMKey.lean`, `Lemmas/DESParity.lean`.

  The model is of the code AFTER fix `fixes/C01-md4-sum-pure.diff` (Sum pads a copy).
-/
import Manticore.Model.C01
import Manticore.Lemmas.MD4Stream
import Manticore.Lemmas.Utf
import Manticore.Lemmas.LMKey
import Manticore.Lemmas.DESParity
namespace Manticore.C01
open Manticore

/-! ## MD4 compression function: generated code = RFC 1320 -/

section Kernel
open Manticore.Gen.Md4Kernel

private theorem rol_eq_rotl (x : UInt32) (s : Nat) (h0 : 0 < s) (h1 : s < 32) :
    rol x (UInt32.ofNat s) = Spec.rotl x s := by
  apply UInt32.eq_of_toBitVec_eq
  simp only [rol, Spec.rotl, UInt32.toBitVec_or, UInt32.toBitVec_shiftLeft, UInt32.toBitVec_shiftRight,
    UInt32.toBitVec_sub, UInt32.toBitVec_ofNat]
  rw [BitVec.rotateLeft_def]
  have e1 : ((UInt32.ofNat s).toBitVec % 32).toNat = s := by
    simp [BitVec.toNat_umod]; omega
  have e2 : ((32#32 - (UInt32.ofNat s).toBitVec) % 32).toNat = 32 - s := by
    simp [BitVec.toNat_umod, BitVec.toNat_sub]; omega
  rw [BitVec.shiftLeft_eq', BitVec.ushiftRight_eq', e1, e2, Nat.mod_eq_of_lt h1]

private theorem bits3 (f g : Bool → Bool → Bool → Bool) (b c d : UInt32)
    (lhs rhs : UInt32)
    (hl : ∀ i, lhs.toBitVec.getLsbD i = f (b.toBitVec.getLsbD i) (c.toBitVec.getLsbD i) (d.toBitVec.getLsbD i))
    (hr : ∀ i, rhs.toBitVec.getLsbD i = g (b.toBitVec.getLsbD i) (c.toBitVec.getLsbD i) (d.toBitVec.getLsbD i))
    (hfg : ∀ p q r, f p q r = g p q r) : lhs = rhs := by
  apply UInt32.eq_of_toBitVec_eq
  apply BitVec.eq_of_getLsbD_eq
  intro i _
  rw [hl, hr, hfg]

/-- the extractor names the bitwise part of `ff` by its truth table (`tools/extract/md4_bitfn.go`: whatever spelling the
    Go code uses — `d ^ (b & (c ^ d))`, `(b & c) | (^b & d)`, a helper — the table 0xca regenerates `bitfn3_ca`, any other
    table another name and this file stops compiling); table 0xca is RFC 1320's `F = XY v not(X)Z` -/
private theorem ff_fn_eq_F (b c d : UInt32) : bitfn3_ca b c d = Spec.F b c d := by
  apply bits3 (fun p q r => (r ^^ (p && q)) ^^ (p && r)) (fun p q r => (p && q) || (!p && r)) b c d
  · intro i; simp [bitfn3_ca]
  · intro i
    simp only [Spec.F, UInt32.toBitVec_or, UInt32.toBitVec_and, UInt32.toBitVec_not, BitVec.getLsbD_or,
      BitVec.getLsbD_and, BitVec.getLsbD_not]
    by_cases hi : i < 32
    · simp [hi]
    · have hb : b.toBitVec.getLsbD i = false := BitVec.getLsbD_of_ge _ _ (by omega)
      have hd : d.toBitVec.getLsbD i = false := BitVec.getLsbD_of_ge _ _ (by omega)
      simp [hi, hb, hd]
  · intro p q r; cases p <;> cases q <;> cases r <;> rfl

/-- table 0xe8 (the bitwise part of `gg`, e.g. `(b & c) | (d & (b | c))`) is RFC 1320's majority `G = XY v XZ v YZ` -/
private theorem gg_fn_eq_G (b c d : UInt32) : bitfn3_e8 b c d = Spec.G b c d := by
  apply bits3 (fun p q r => ((p && q) ^^ (p && r)) ^^ (q && r)) (fun p q r => (p && q) || (p && r) || (q && r)) b c d
  · intro i; simp [bitfn3_e8]
  · intro i; simp [Spec.G]
  · intro p q r; cases p <;> cases q <;> cases r <;> rfl

/-- table 0x96 (the bitwise part of `hh`) is RFC 1320's parity `H = X xor Y xor Z` -/
private theorem hh_fn_eq_H (b c d : UInt32) : bitfn3_96 b c d = Spec.H b c d := rfl

private theorem ff_eq (x : Nat → UInt32) (a b c d : UInt32) (k s : Nat) (h0 : 0 < s) (h1 : s < 32) :
    ff a b c d (x k) (UInt32.ofNat s) = Spec.op1 x a b c d k s := by
  unfold ff Spec.op1
  rw [rol_eq_rotl _ _ h0 h1, ff_fn_eq_F]

private theorem gg_eq (x : Nat → UInt32) (a b c d : UInt32) (k s : Nat) (h0 : 0 < s) (h1 : s < 32) :
    gg a b c d (x k) (UInt32.ofNat s) = Spec.op2 x a b c d k s := by
  unfold gg Spec.op2
  rw [rol_eq_rotl _ _ h0 h1, gg_fn_eq_G]

private theorem hh_eq (x : Nat → UInt32) (a b c d : UInt32) (k s : Nat) (h0 : 0 < s) (h1 : s < 32) :
    hh a b c d (x k) (UInt32.ofNat s) = Spec.op3 x a b c d k s := by
  unfold hh Spec.op3
  rw [rol_eq_rotl _ _ h0 h1, hh_fn_eq_H]

variable (x : Nat → UInt32) (a b c d : UInt32) (k : Nat)
private theorem ff3 : ff a b c d (x k) 3 = Spec.op1 x a b c d k 3 := ff_eq x a b c d k 3 (by omega) (by omega)
private theorem ff7 : ff a b c d (x k) 7 = Spec.op1 x a b c d k 7 := ff_eq x a b c d k 7 (by omega) (by omega)
private theorem ff11 : ff a b c d (x k) 11 = Spec.op1 x a b c d k 11 := ff_eq x a b c d k 11 (by omega) (by omega)
private theorem ff19 : ff a b c d (x k) 19 = Spec.op1 x a b c d k 19 := ff_eq x a b c d k 19 (by omega) (by omega)
private theorem gg3 : gg a b c d (x k) 3 = Spec.op2 x a b c d k 3 := gg_eq x a b c d k 3 (by omega) (by omega)
private theorem gg5 : gg a b c d (x k) 5 = Spec.op2 x a b c d k 5 := gg_eq x a b c d k 5 (by omega) (by omega)
private theorem gg9 : gg a b c d (x k) 9 = Spec.op2 x a b c d k 9 := gg_eq x a b c d k 9 (by omega) (by omega)
private theorem gg13 : gg a b c d (x k) 13 = Spec.op2 x a b c d k 13 := gg_eq x a b c d k 13 (by omega) (by omega)
private theorem hh3 : hh a b c d (x k) 3 = Spec.op3 x a b c d k 3 := hh_eq x a b c d k 3 (by omega) (by omega)
private theorem hh9 : hh a b c d (x k) 9 = Spec.op3 x a b c d k 9 := hh_eq x a b c d k 9 (by omega) (by omega)
private theorem hh11 : hh a b c d (x k) 11 = Spec.op3 x a b c d k 11 := hh_eq x a b c d k 11 (by omega) (by omega)
private theorem hh15 : hh a b c d (x k) 15 = Spec.op3 x a b c d k 15 := hh_eq x a b c d k 15 (by omega) (by omega)

/-- **Generated kernel = RFC 1320 §3.4.**  The 48 assignments that the extractor translated from
    `processChunk` (with `ff/gg/hh/rol` as written in the Go file) compute, for every chaining value and
    every 16-word block, exactly the three table-driven rounds of the RFC with its F, G, H, its
    rotation amounts, word orders and additive constants.  A changed rotation constant, word index,
    round constant or auxiliary function in the Go source regenerates a different `Gen/Md4Kernel.lean`
    and this proof stops checking. -/
theorem md4_kernel_eq_rfc (st : Words4) (x : Nat → UInt32) :
    Gen.Md4Kernel.processChunk st x = Spec.compress st x := by
  simp only [Gen.Md4Kernel.processChunk, Spec.compress, Spec.round1, Spec.round2, Spec.round3, List.foldl,
    Spec.stepWith, ff3, ff7, ff11, ff19, gg3, gg5, gg9, gg13, hh3, hh9, hh11, hh15]

/-- `New()` starts from the RFC 1320 §3.3 constants, a zero bit count and 64 bytes of buffer. -/
theorem md4_new_eq_rfc : new.state = Spec.init ∧ new.count = 0 ∧ new.buffer.length = 64 := by
  refine ⟨rfl, rfl, ?_⟩; simp [new]

end Kernel

/-! ## MD4: words of a chunk -/

private theorem toWords_getD (k : Nat) : ∀ (b : Bytes), 4 * k + 4 ≤ b.length →
    (Spec.toWords b).getD k 0 = leWordAt b (4 * k) := by
  induction k with
  | zero =>
    intro b hb
    rcases b with _ | ⟨b0, _ | ⟨b1, _ | ⟨b2, _ | ⟨b3, rest⟩⟩⟩⟩ <;> simp at hb
    simp [Spec.toWords, leWordAt]
  | succ k ih =>
    intro b hb
    rcases b with _ | ⟨b0, _ | ⟨b1, _ | ⟨b2, _ | ⟨b3, rest⟩⟩⟩⟩ <;> simp at hb <;> try omega
    have hr : 4 * k + 4 ≤ rest.length := by omega
    have := ih rest hr
    have e : 4 * (k + 1) = (4 * k) + 1 + 1 + 1 + 1 := by omega
    simp only [Spec.toWords, List.getD_cons_succ, this, leWordAt, e, Nat.add_assoc]

private theorem foldl_congr_mem {α β} (f g : α → β → α) (l : List β) (h : ∀ a, ∀ b ∈ l, f a b = g a b) (a : α) :
    l.foldl f a = l.foldl g a := by
  induction l generalizing a with
  | nil => rfl
  | cons b bs ih =>
    simp only [List.foldl_cons]
    rw [h a b (by simp)]
    exact ih (fun a' b' hb' => h a' b' (by simp [hb'])) _

private theorem rounds_use_words_below_16 :
    (∀ r ∈ Spec.round1, r.1 < 16) ∧ (∀ r ∈ Spec.round2, r.1 < 16) ∧ (∀ r ∈ Spec.round3, r.1 < 16) := by
  decide

/-- the block step reads only the sixteen words X[0..15] -/
private theorem compress_congr (st : Words4) (x y : Nat → UInt32) (h : ∀ k, k < 16 → x k = y k) :
    Spec.compress st x = Spec.compress st y := by
  obtain ⟨h1, h2, h3⟩ := rounds_use_words_below_16
  unfold Spec.compress
  have e1 : ∀ t, Spec.round1.foldl (Spec.stepWith (Spec.op1 x)) t = Spec.round1.foldl (Spec.stepWith (Spec.op1 y)) t :=
    foldl_congr_mem _ _ _ (fun t r hr => by simp only [Spec.stepWith, Spec.op1, h r.1 (h1 r hr)])
  have e2 : ∀ t, Spec.round2.foldl (Spec.stepWith (Spec.op2 x)) t = Spec.round2.foldl (Spec.stepWith (Spec.op2 y)) t :=
    foldl_congr_mem _ _ _ (fun t r hr => by simp only [Spec.stepWith, Spec.op2, h r.1 (h2 r hr)])
  have e3 : ∀ t, Spec.round3.foldl (Spec.stepWith (Spec.op3 x)) t = Spec.round3.foldl (Spec.stepWith (Spec.op3 y)) t :=
    foldl_congr_mem _ _ _ (fun t r hr => by simp only [Spec.stepWith, Spec.op3, h r.1 (h3 r hr)])
  simp only [e1, e2, e3]

/-- **One chunk.**  `processChunk` on a 64-byte chunk (the only way `Write` calls it) is the RFC's block
    step on that block read as sixteen little-endian words. -/
theorem md4_process_chunk_eq_rfc (st : Words4) (chunk : Bytes) (h : chunk.length = 64) :
    processChunk st chunk = Spec.compressBlock st chunk := by
  unfold processChunk Spec.compressBlock
  rw [md4_kernel_eq_rfc]
  apply compress_congr
  intro k hk
  rw [toWords_getD k chunk (by omega), Nat.mul_comm]

private theorem blocks_length (m : Bytes) : ∀ b ∈ Spec.blocks m, b.length = 64 := by
  induction m using Spec.blocks.induct with
  | case1 m h ih =>
    intro b hb
    rw [Stream.blocks_long m h] at hb
    rcases List.mem_cons.mp hb with rfl | hb
    · simp [List.length_take]; omega
    · exact ih b hb
  | case2 m h =>
    intro b hb
    rw [Stream.blocks_short m (by omega)] at hb
    simp at hb

/-- the invariant `Lemmas/MD4Stream.Rep` holds for `New()` and the empty message -/
private theorem rep_new : Stream.Rep processChunk Gen.Md4Kernel.initState new [] := by
  refine ⟨rfl, by simp [new], ?_, ?_⟩
  · rw [Stream.absorb_short _ _ _ (by simp)]; rfl
  · rw [Stream.absorb_short _ _ _ (by simp)]; rfl

private theorem sum_of_rep (s : MD4) (m : Bytes) (h : Stream.Rep processChunk Gen.Md4Kernel.initState s m) :
    (sum s).2 = Spec.md4 m := by
  have := Stream.sum_digest processChunk Gen.Md4Kernel.initState s m h
  unfold sum
  rw [this]
  unfold Spec.md4 Spec.output digestOf
  rw [foldl_congr_mem processChunk Spec.compressBlock _
    (fun a b hb => md4_process_chunk_eq_rfc a b (blocks_length _ b hb))]
  rfl

/-! ## MD4: streaming -/

/-- **Every chunking of every message gives the RFC 1320 digest.**  Whatever the message and however it
    is cut into successive `Write` calls (including empty writes, writes that straddle block boundaries,
    lengths around the 55/56/64-byte padding boundaries), `Sum()` returns `Spec.md4` of the
    concatenation.  No bound on the total length is needed: Go's `uint64` bit counter wraps modulo
    2^64 exactly as RFC 1320 §3.2 prescribes ("only the low-order 64 bits"), so the statement — and hence
    the version restricted to totals below 2^61 bytes — holds for all lists. -/
theorem md4_stream_eq_spec (chunks : List Bytes) :
    (sum (chunks.foldl write new)).2 = Spec.md4 chunks.flatten := by
  have := Stream.writes_rep processChunk Gen.Md4Kernel.initState new [] chunks rep_new
  simp only [List.nil_append] at this
  exact sum_of_rep _ _ this

/-- the bounded form quoted in DESIGN.md §4 -/
theorem md4_stream_eq_spec_below_2_61 (chunks : List Bytes) (_h : chunks.flatten.length < 2 ^ 61) :
    (sum (chunks.foldl write new)).2 = Spec.md4 chunks.flatten := md4_stream_eq_spec chunks

/-- one-shot `md4.Sum(data)` -/
theorem md4_oneshot_eq_spec (data : Bytes) : md4Sum data = Spec.md4 data := by
  have := md4_stream_eq_spec [data]
  simpa [md4Sum] using this

/-- **Reading the digest does not change the hash** (after fix C01-md4-sum-pure): `Sum()` and `HexSum()`
    leave state, bit count and buffer exactly as they were, so every later `Write`, `Sum` and `HexSum`
    behaves as if the read had not happened. -/
theorem md4_sum_pure (s : MD4) : (sum s).1 = s ∧ (hexSum s).1 = s := ⟨rfl, rfl⟩

/-- `padding[:padLen]` in `Sum` is always in range (1 ≤ padLen ≤ 64), for every value of the counter:
    `Sum` cannot panic. -/
theorem md4_sum_padlen_bounds (c : UInt64) : 1 ≤ (padLenOf c).toNat ∧ (padLenOf c).toNat ≤ 64 := by
  have hidx : (c / 8 % 64).toNat < 64 := by
    simp only [UInt64.toNat_mod, UInt64.toNat_div, UInt64.toNat_ofNat, Nat.reducePow, Nat.reduceMod]
    omega
  unfold padLenOf
  simp only [ge_iff_le, UInt64.le_iff_toNat_le]
  generalize (c / 8 % 64) = idx at hidx ⊢
  split
  · simp only [UInt64.toNat_add, UInt64.toNat_sub, UInt64.toNat_ofNat, Nat.reducePow, Nat.reduceMod] at *
    omega
  · simp only [UInt64.toNat_sub, UInt64.toNat_ofNat, Nat.reducePow, Nat.reduceMod] at *
    omega

private theorem hex_byte : ∀ n, n < 256 →
    [Res.hexDigitByte (n / 16), Res.hexDigitByte (n % 16)] =
      [Spec.hexDigits.getD (n / 16) 0, Spec.hexDigits.getD (n % 16) 0] ∧
    [asciiLowerByte (Res.hexDigitByte (n / 16)), asciiLowerByte (Res.hexDigitByte (n % 16))] =
      [Res.hexDigitByte (n / 16), Res.hexDigitByte (n % 16)] := by
  decide +kernel

private theorem flatMap_congr_mem {α β} (l : List α) (f g : α → List β) (h : ∀ a ∈ l, f a = g a) :
    l.flatMap f = l.flatMap g := by
  induction l with
  | nil => rfl
  | cons a l ih =>
    simp only [List.flatMap_cons]
    rw [h a (by simp), ih (fun b hb => h b (by simp [hb]))]

/-- **Hex form.**  `hex.EncodeToString` (as modelled) is the lower-case two-digit hexadecimal string. -/
theorem hex_form (b : Bytes) : hexEncode b = Spec.hexString b := by
  unfold hexEncode Res.hexEncode Spec.hexString
  apply flatMap_congr_mem
  intro x _
  exact (hex_byte x.toNat x.toNat_lt).1

/-- `strings.ToLower(hex.EncodeToString(h))`, which `NTHashHex`, `LMHashToHex`, `DCC…ToHex` apply,
    changes nothing: hex digits are already lower case. -/
theorem hex_lower_form (b : Bytes) : (hexEncode b).map asciiLowerByte = Spec.hexString b := by
  rw [← hex_form]
  unfold hexEncode Res.hexEncode
  rw [List.map_flatMap]
  apply flatMap_congr_mem
  intro x _
  exact (hex_byte x.toNat x.toNat_lt).2

/-- the running hash after a history of calls has consumed exactly the writes, whatever reads were
    interleaved -/
private theorem run_eq_history (ops : List Op) :
    ∀ (s : MD4) (m : Bytes), Stream.Rep processChunk Gen.Md4Kernel.initState s m →
      run s ops = Spec.history m ops := by
  induction ops with
  | nil => intro s m _; rfl
  | cons op ops ih =>
    intro s m h
    cases op with
    | write p =>
      simp only [run, Spec.history]
      exact ih _ _ (Stream.write_rep processChunk _ s m p h)
    | sum =>
      simp only [run, Spec.history]
      rw [sum_of_rep s m h, (md4_sum_pure s).1, ih s m h]
    | hexSum =>
      simp only [run, Spec.history]
      rw [(md4_sum_pure s).2, ih s m h]
      simp only [hexSum, sum_of_rep s m h, hex_form]

/-- **Every interleaving of digest reads with writes.**  For every sequence of `Write`, `Sum` and `HexSum`
    calls on a fresh hash, each read returns the MD4 (resp. its hex form) of exactly the bytes written
    before it — reads never influence later reads or writes. -/
theorem md4_history_eq_spec (ops : List Op) : run new ops = Spec.history [] ops :=
  run_eq_history ops new [] rep_new

/-- Before the fix, `Sum` was not pure: for "abc" the receiver changed and a second read differed
    (the model of the unfixed code reproduces the digests observed on the real code:
    a448017a…729d then df6b6498…163b). -/
theorem md4_sum_pure_fails_before_fix :
    let s := write new [0x61, 0x62, 0x63]
    (sumUnfixed s).1 ≠ s ∧ (sumUnfixed (sumUnfixed s).1).2 ≠ (sumUnfixed s).2 := by
  decide +kernel

/-! ## UTF-8 / UTF-16 -/

/-- **Go strings.**  `[]rune(s)` of the RFC 3629 encoding of any sequence of Unicode scalar values —
    ASCII, BMP, non-BMP (four-byte sequences) — is that sequence. -/
theorem gostring_runes_of_utf8 (cs : List Nat) (hcs : ∀ c ∈ cs, Spec.IsScalar c) :
    runes (Spec.utf8 cs) = cs := runes_utf8 cs hcs

/-- **`EncodeUTF16LE` = RFC 2781 UTF-16, little endian**, for every valid-UTF-8 string: surrogate pairs
    from U+10000, each unit low byte first. -/
theorem utf16le_eq_spec (cs : List Nat) (hcs : ∀ c ∈ cs, Spec.IsScalar c) :
    encodeUTF16LE (Spec.utf8 cs) = Spec.utf16le cs := encodeUTF16LE_utf8 cs hcs

/-- **UTF-16LE round trip**: decoding (RFC 2781 §2.2, written independently of the encoder) what the
    library encodes gives the scalar values back — the encoder loses and reorders nothing. -/
theorem utf16le_roundtrip (cs : List Nat) (hcs : ∀ c ∈ cs, Spec.IsScalar c) :
    Spec.utf16leDecode (encodeUTF16LE (Spec.utf8 cs)) = cs := by
  rw [utf16le_eq_spec cs hcs, utf16leDecode_utf16le cs hcs]

/-! ## NT -/

/-- **NTOWFv1.**  For every valid-UTF-8 password (given by its scalar values), `NTHash` is
    MD4(UTF-16LE(password)) as defined by MS-NLMP with RFC 1320's MD4. -/
theorem nt_eq_spec (password : List Nat) (h : ∀ c ∈ password, Spec.IsScalar c) :
    ntHash (Spec.utf8 password) = Spec.ntowfv1 password := by
  unfold ntHash Spec.ntowfv1
  rw [utf16le_eq_spec password h]
  exact md4_oneshot_eq_spec _

/-- hex form of the NT hash -/
theorem nt_hex_form (password : Bytes) : ntHashHex password = Spec.hexString (ntHash password) :=
  hex_lower_form _

/-! ## LM -/

/-- **Key spread.**  The eight key bytes `LMHash` builds from a 7-byte half equal the textbook
    `str_to_key` in the seven key bits of every byte (all but bit 0). -/
theorem lm_keys_eq_str_to_key_mod_parity (half : Bytes) (h : half.length = 7) :
    (lmKey half).map (· &&& 0xFE) = (Spec.strToKey half).map (· &&& 0xFE) :=
  lmKey_strToKey_mod_parity half h

/-- **DES ignores parity bits**: keys that agree on the 56 bits selected by PC-1 (a `decide` over the
    PC-1 table shows these are exactly the bits other than bit 0 of each byte) encrypt every block alike. -/
theorem des_ignores_parity (k k' block : UInt64) (h : k &&& DES.keyMask = k' &&& DES.keyMask) :
    DES.encrypt k block = DES.encrypt k' block := DES.encrypt_ignores_parity k k' block h

private theorem isASCII_iff (s : Bytes) : isASCII s = true ↔ ∀ c ∈ s, c.toNat < 128 := by
  simp [isASCII, List.all_eq_true, UInt8.lt_iff_toNat_lt]

private theorem upper_eq (c : UInt8) : asciiUpperByte c = Spec.upperASCII c := by
  unfold asciiUpperByte Spec.upperASCII
  have e1 : (0x61 : UInt8).toNat = 97 := rfl
  have e2 : (0x7A : UInt8).toNat = 122 := rfl
  simp only [UInt8.le_iff_toNat_le, e1, e2]
  show (if 97 ≤ c.toNat ∧ c.toNat ≤ 122 then c - 0x20 else c) = if 97 ≤ c.toNat ∧ c.toNat ≤ 122 then UInt8.ofNat (c.toNat - 32) else c
  split
  · apply UInt8.toNat_inj.mp
    rw [UInt8.toNat_sub_of_le _ _ (by rw [UInt8.le_iff_toNat_le]; show 32 ≤ c.toNat; omega)]
    have : (0x20 : UInt8).toNat = 32 := rfl
    simp [this]; omega
  · rfl

private theorem lmPrepare_eq (u : Bytes → Bytes) (pw : Bytes) (h : isASCII pw = true) :
    lmPrepare u pw = (pw.map Spec.upperASCII ++ List.replicate 14 0).take 14 := by
  unfold lmPrepare goToUpper
  rw [if_pos h]
  have hm : pw.map asciiUpperByte = pw.map Spec.upperASCII := List.map_congr_left (fun c _ => upper_eq c)
  rw [hm]
  generalize pw.map Spec.upperASCII = p
  simp only
  by_cases h1 : p.length > 14
  · rw [if_pos h1, if_neg (by simp [List.length_take]; omega)]
    rw [List.take_append_of_le_length (by omega)]
  · rw [if_neg h1]
    by_cases h2 : p.length < 14
    · rw [if_pos h2, List.take_append, List.take_of_length_le (by omega), List.take_replicate]
      congr 2; omega
    · rw [if_neg h2, List.take_append_of_le_length (by omega), List.take_of_length_le (by omega)]

private theorem lmPrepare_length (u : Bytes → Bytes) (pw : Bytes) (h : isASCII pw = true) :
    (lmPrepare u pw).length = 14 := by
  rw [lmPrepare_eq u pw h]; simp [List.length_take]

/-- **LMOWFv1** for every 7-bit ASCII password (any length; longer than 14 is cut, shorter is zero-padded):
    `LMHash` equals DES("KGS!@#$%") under the two `str_to_key` keys of the upper-cased, 14-byte password —
    whatever `strings.ToUpper` would do to non-ASCII text. -/
theorem lm_eq_spec (unicodeUpper : Bytes → Bytes) (password : Bytes) (h : ∀ c ∈ password, c.toNat < 128) :
    lmHash unicodeUpper password = Spec.lmowfv1 password := by
  have ha : isASCII password = true := (isASCII_iff password).mpr h
  have hl := lmPrepare_length unicodeUpper password ha
  unfold lmHash Spec.lmowfv1
  simp only
  rw [← lmPrepare_eq unicodeUpper password ha]
  have h7 : ((lmPrepare unicodeUpper password).take 7).length = 7 := by simp [List.length_take]; omega
  have h7' : ((lmPrepare unicodeUpper password).drop 7).length = 7 := by simp [List.length_drop]; omega
  have hmagic : asciiBytes "KGS!@#$%" = lmMagic := by decide
  rw [hmagic]
  rw [DES.encryptBytes_ignores_parity _ _ lmMagic (lmKey_length _ h7) (strToKey_length _ h7)
        (lm_keys_eq_str_to_key_mod_parity _ h7),
      DES.encryptBytes_ignores_parity _ _ lmMagic (lmKey_length _ h7') (strToKey_length _ h7')
        (lm_keys_eq_str_to_key_mod_parity _ h7')]

/-- hex form of the LM hash -/
theorem lm_hex_form (u : Bytes → Bytes) (password : Bytes) :
    lmHashToHex u password = Spec.hexString (lmHash u password) := hex_lower_form _

/-! ## MS-Cache v1 (DCC) -/

/-- **DCC from an NT hash**, for every user name: if Go's `strings.ToLower` of the name is the UTF-8 of
    the platform's lower-casing `lower` of its scalar values (hypothesis `hl`; it is discharged for ASCII
    names in `dcc_eq_spec_ascii_user`), the value is MD4(NT ‖ UTF-16LE(lower(user))). -/
theorem dcc_from_nt_eq_spec (unicodeLower : Bytes → Bytes) (lower : List Nat → List Nat)
    (nt : Bytes) (user : List Nat)
    (hl : goToLower unicodeLower (Spec.utf8 user) = Spec.utf8 (lower user))
    (hs : ∀ c ∈ lower user, Spec.IsScalar c) :
    dccFromNT unicodeLower nt (Spec.utf8 user) = Spec.dcc1FromNT lower nt user := by
  unfold dccFromNT Spec.dcc1FromNT
  rw [hl, utf16le_eq_spec _ hs]
  exact md4_oneshot_eq_spec _

/-- **DCC (MS-Cache v1)** for every valid-UTF-8 password and user name (same reading of `lower`). -/
theorem dcc_eq_spec (unicodeLower : Bytes → Bytes) (lower : List Nat → List Nat)
    (password user : List Nat) (hp : ∀ c ∈ password, Spec.IsScalar c)
    (hl : goToLower unicodeLower (Spec.utf8 user) = Spec.utf8 (lower user))
    (hs : ∀ c ∈ lower user, Spec.IsScalar c) :
    dccFromPassword unicodeLower (Spec.utf8 password) (Spec.utf8 user) = Spec.dcc1 lower password user := by
  unfold dccFromPassword Spec.dcc1
  rw [nt_eq_spec password hp]
  exact dcc_from_nt_eq_spec unicodeLower lower _ user hl hs

private theorem lower_ascii_scalar (user : List Nat) (hu : ∀ c ∈ user, c < 128) :
    ∀ c ∈ user.map Spec.lowerASCIIcp, Spec.IsScalar c := by
  intro c hc
  obtain ⟨d, hd, rfl⟩ := List.mem_map.mp hc
  have hd' := hu d hd
  have eA : 'A'.toNat = 65 := rfl
  have eZ : 'Z'.toNat = 90 := rfl
  unfold Spec.lowerASCIIcp Spec.IsScalar
  rw [eA, eZ]
  split <;> omega

/-- **DCC, ASCII user names** (mixed case included): no assumption about Unicode case tables is left —
    the value is MD4(NTOWFv1(password) ‖ UTF-16LE(user with A–Z mapped to a–z)). -/
theorem dcc_eq_spec_ascii_user (unicodeLower : Bytes → Bytes) (password user : List Nat)
    (hp : ∀ c ∈ password, Spec.IsScalar c) (hu : ∀ c ∈ user, c < 128) :
    dccFromPassword unicodeLower (Spec.utf8 password) (Spec.utf8 user)
      = Spec.dcc1 (List.map Spec.lowerASCIIcp) password user :=
  dcc_eq_spec unicodeLower _ password user hp (goToLower_ascii unicodeLower user hu) (lower_ascii_scalar user hu)

/-- output forms of DCC: hex, and the hashcat line `<hex>:<lower-cased user>` -/
theorem dcc_output_forms (unicodeLower : Bytes → Bytes) (lower : List Nat → List Nat) (password user : Bytes)
    (userCps : List Nat) (hl : goToLower unicodeLower user = Spec.utf8 (lower userCps)) :
    dccFromPasswordToHex unicodeLower password user = Spec.hexString (dccFromPassword unicodeLower password user) ∧
    dccFromPasswordToHashcat unicodeLower password user
      = Spec.dccLine (dccFromPassword unicodeLower password user) (lower userCps) ∧
    dccFromNTToHex unicodeLower password user = Spec.hexString (dccFromNT unicodeLower password user) ∧
    dccFromNTToHashcat unicodeLower password user
      = Spec.dccLine (dccFromNT unicodeLower password user) (lower userCps) := by
  have hcolon : asciiBytes ":" = [0x3A] := by decide
  refine ⟨hex_lower_form _, ?_, hex_lower_form _, ?_⟩
  · unfold dccFromPasswordToHashcat dccFromPasswordToHex Spec.dccLine
    rw [hex_lower_form, hl, hcolon]
  · unfold dccFromNTToHashcat dccFromNTToHex Spec.dccLine
    rw [hex_lower_form, hl, hcolon]

/-! ## MS-Cache v2 (DCC2) — parametric in the key-derivation function -/

/-- the KDF that an interpretation of the primitive names assigns to "pbkdf2-hmac-sha1" -/
def kdfOf (I : String → List Val → Bytes) : Bytes → Bytes → Nat → Nat → Bytes :=
  fun key salt rounds dkLen => I pbkdf2Name [.bytes key, .bytes salt, .int rounds, .int dkLen]

/-- **DCC2 from an NT hash, all rounds ≥ 1**, for an arbitrary KDF: the 16 key bytes the library formats
    are `KDF(DCC1, UTF-16LE(lower(user)), rounds, 16)` with the DCC1 of the specification. -/
theorem dcc2_from_nt_eq_spec (I : String → List Val → Bytes) (unicodeLower : Bytes → Bytes)
    (lower : List Nat → List Nat) (nt : Bytes) (user : List Nat) (rounds : Nat) (_hr : 1 ≤ rounds)
    (hl : goToLower unicodeLower (Spec.utf8 user) = Spec.utf8 (lower user))
    (hs : ∀ c ∈ lower user, Spec.IsScalar c) :
    (dcc2KeyFromNT unicodeLower (Spec.utf8 user) nt rounds).evalBytes I
      = Spec.dcc2FromNT (kdfOf I) lower nt user rounds := by
  have h1 := dcc_from_nt_eq_spec unicodeLower lower nt user hl hs
  unfold dccFromNT at h1
  simp only [dcc2KeyFromNT, Res.evalBytes, Res.eval, Res.Val.toBytes, List.map_cons, List.map_nil,
    Spec.dcc2FromNT, kdfOf, hl, utf16le_eq_spec _ hs] at h1 ⊢
  rw [h1]
  rfl

/-- **DCC2 line from an NT hash**: `DCC2HashWithNTHash` returns
    `$DCC2$<rounds>#<user as given>#<hex of KDF(DCC1, UTF-16LE(lower(user)), rounds, 16)>`. -/
theorem dcc2_from_nt_line_eq_spec (I : String → List Val → Bytes) (unicodeLower : Bytes → Bytes)
    (lower : List Nat → List Nat) (nt : Bytes) (user : List Nat) (rounds : Nat) (hr : 1 ≤ rounds)
    (hl : goToLower unicodeLower (Spec.utf8 user) = Spec.utf8 (lower user))
    (hs : ∀ c ∈ lower user, Spec.IsScalar c) :
    (dcc2WithNT unicodeLower (Spec.utf8 user) nt rounds).evalBytes I
      = Spec.dcc2Line rounds (Spec.utf8 user) (Spec.dcc2FromNT (kdfOf I) lower nt user rounds) := by
  have hk := dcc2_from_nt_eq_spec I unicodeLower lower nt user rounds hr hl hs
  have hpre : asciiBytes "$DCC2$" ++ decInt (rounds : Int) ++ [0x23] ++ Spec.utf8 user ++ [0x23]
      = asciiBytes "$DCC2$" ++ asciiBytes (toString rounds) ++ asciiBytes "#" ++ Spec.utf8 user ++ asciiBytes "#" := by
    have h23 : asciiBytes "#" = [0x23] := by decide
    have hdec : decInt (rounds : Int) = asciiBytes (toString rounds) := by
      unfold decInt; rfl
    rw [h23, hdec]
  unfold dcc2WithNT Spec.dcc2Line
  simp only [Res.evalBytes, Res.eval, Res.Val.toBytes] at hk ⊢
  rw [hpre, hk, ← hex_form]
  rfl

/-- **DCC2 (MS-Cache v2), all rounds ≥ 1, every valid-UTF-8 password and user name**, for an arbitrary
    KDF in place of PBKDF2-HMAC-SHA1 (which the harness evaluates with x/crypto/pbkdf2): the hashcat
    line `DCC2Hash` / `DCC2HashWithPassword` return is
    `$DCC2$<rounds>#<user as given>#<hex of the specified value>`. -/
theorem dcc2_eq_spec (I : String → List Val → Bytes) (unicodeLower : Bytes → Bytes)
    (lower : List Nat → List Nat) (password user : List Nat) (rounds : Nat) (hr : 1 ≤ rounds)
    (hp : ∀ c ∈ password, Spec.IsScalar c)
    (hl : goToLower unicodeLower (Spec.utf8 user) = Spec.utf8 (lower user))
    (hs : ∀ c ∈ lower user, Spec.IsScalar c) :
    (dcc2WithPassword unicodeLower (Spec.utf8 user) (Spec.utf8 password) rounds).evalBytes I
      = Spec.dcc2Line rounds (Spec.utf8 user) (Spec.dcc2 (kdfOf I) lower password user rounds) := by
  unfold dcc2WithPassword
  rw [nt_eq_spec password hp]
  exact dcc2_from_nt_line_eq_spec I unicodeLower lower (Spec.ntowfv1 password) user rounds hr hl hs

/-- **DCC2, ASCII user names**: the same with the lower-casing made concrete (A–Z → a–z). -/
theorem dcc2_eq_spec_ascii_user (I : String → List Val → Bytes) (unicodeLower : Bytes → Bytes)
    (password user : List Nat) (rounds : Nat) (hr : 1 ≤ rounds)
    (hp : ∀ c ∈ password, Spec.IsScalar c) (hu : ∀ c ∈ user, c < 128) :
    (dcc2WithPassword unicodeLower (Spec.utf8 user) (Spec.utf8 password) rounds).evalBytes I
      = Spec.dcc2Line rounds (Spec.utf8 user)
          (Spec.dcc2 (kdfOf I) (List.map Spec.lowerASCIIcp) password user rounds) :=
  dcc2_eq_spec I unicodeLower _ password user rounds hr hp (goToLower_ascii unicodeLower user hu)
    (lower_ascii_scalar user hu)

/-! ## Non-vacuity: the hypotheses above are satisfiable, and the statements bite on concrete inputs -/

-- scalar sequences with ASCII, BMP and non-BMP members exist
example : ∀ c ∈ [0x41, 0xE9, 0x20AC, 0x1F600, 0x10FFFF], Spec.IsScalar c := by decide
-- an ASCII, mixed-case user name satisfies the lower-casing hypothesis with the concrete map
example : goToLower id (Spec.utf8 [0x41, 0x64, 0x4D, 0x69, 0x6E]) = Spec.utf8 ([0x41, 0x64, 0x4D, 0x69, 0x6E].map Spec.lowerASCIIcp) :=
  goToLower_ascii id _ (by decide)
-- 7-bit passwords exist, with lower-case letters that must be upper-cased
example : ∀ c ∈ ([0x70, 0x61, 0x73, 0x73] : Bytes), c.toNat < 128 := by decide
-- keys that differ only in parity bits exist and differ
example : (0x0101010101010101 : UInt64) &&& DES.keyMask = (0 : UInt64) &&& DES.keyMask ∧ (0x0101010101010101 : UInt64) ≠ 0 := by decide
-- the streaming theorem applied to a three-way cut of "abc": the digest is the RFC's test vector
example : (sum ([[0x61], [], [0x62, 0x63]].foldl write new)).2 = Spec.md4 [0x61, 0x62, 0x63] :=
  md4_stream_eq_spec _

end Manticore.C01
