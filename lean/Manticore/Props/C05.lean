/-
  C05 — SMB1 structures are emitted in the encoding MS-CIFS prescribes.
  Property theorems only.

    Props/C05/Programs.lean  what the kernel decides on the regenerated marshal programs
                             (`non_conforming_commands`, `commands_dropping_fields`, …)
    this file                what the decided predicate means for ALL field values (`conforms_sound`),
                             which nested wire types conform (`std_nested_conforms`, …) and which do
                             not (the two counterexamples), and the header algebra.

  Definitions: `Conforms`, `NestedConforms` in `Model/SmbConforms.lean`; the MS-CIFS encoder in
  `Spec/Cifs.lean`; helper lemmas in `Lemmas/SmbConforms.lean`, `Lemmas/SmbNested.lean`.
-/
import Manticore.Props.C05.Programs
import Manticore.Model.SmbCmd
import Manticore.Model.SmbCodecs
import Manticore.Spec.Cifs
import Manticore.Lemmas.SmbConforms
import Manticore.Lemmas.SmbConformsExt
import Manticore.Lemmas.SmbNested
namespace Manticore.C05
open Manticore Manticore.SmbIR Manticore.Gen.SmbCommands

/-! ## soundness of the static predicate -/

/-- **`Conforms` is sound**, in its sharpest form: the nested encoders have to agree with MS-CIFS
    only at the values the nested fields actually hold after `Marshal`, and only the clauses of
    `ConformsCore` are used.  For every command whose marshal program passes the static check, every
    codec table, and *all* field values: whenever the MS-CIFS encoder speaks (on the command as
    `Marshal` leaves it), the bytes the code emits are its bytes — outside the recorded finding
    `be:AndXOffset` (`andxOffsetBigEndian`: an AndX block whose offset has two different bytes; the AndX
    words go out high byte first, `andx_offset_big_endian_counterexample`). -/
theorem conforms_sound_at (C : Codecs) (c : Cmd) (hc : ConformsCore c = true)
    (env : Env) (bs : Bytes) (env' : Env) (sb : Bytes)
    (hn : ∀ b f typ, MStmt.sub b f typ ∈ c.marshal → ∀ v', env'.get f = some (.t v') →
      NestedConformsAt C typ v')
    (hbe : andxOffsetBigEndian c.isAndX env' = false)
    (he : encodeCmd C c env = .ok bs) (ha : envAfterMarshal C c env = .ok env')
    (hs : Spec.Cifs.encode c env' = some sb) : bs = sb :=
  conformsCore_sound_at C c hc env bs env' sb hn hbe he ha hs

/-- **`Conforms` is sound** with respect to the independent MS-CIFS encoder: a command that passes
    the kernel-decided static check, with nested encoders that conform, emits for all field values
    exactly the bytes `Spec.Cifs.encode` produces from the declared field list — `WordCount`, the AndX
    block the command holds (command, reserved, offset; outside the finding `be:AndXOffset`), the parameter fields in declaration order little-endian at their declared widths,
    `ByteCount` little-endian, the data fields.  (`Spec.Cifs.encode` is `none` where MS-CIFS has no
    encoding for the values — an integer out of range of its type, an odd parameter length, more than
    255 words or 65535 bytes, a NUL inside a NUL-terminated string — or where the program has
    conditional or repeated fields; the specification is evaluated on the command after `Marshal`
    because `SetBufferFormat` and `c.F = len(c.G)` assign fields.) -/
theorem conforms_sound (C : Codecs) (c : Cmd) (hc : Conforms c = true)
    (hn : ∀ s ∈ c.marshal, ∀ b f typ, s = .sub b f typ → NestedConforms C typ)
    (env : Env) (bs : Bytes) (env' : Env) (sb : Bytes)
    (hbe : andxOffsetBigEndian c.isAndX env' = false)
    (he : encodeCmd C c env = .ok bs) (ha : envAfterMarshal C c env = .ok env')
    (hs : Spec.Cifs.encode c env' = some sb) : bs = sb :=
  conformsCore_sound_at C c (ConformsCore_of_Conforms hc) env bs env' sb
    (fun b f typ hm v' _ => (hn _ hm b f typ rfl).at v') hbe he ha hs

/-- **No declared field is left out**: for a conforming straight-line command every declared field
    belongs to the parameter block or to the data block, so `Spec.Cifs.encode` (which places the
    fields that have a block) encodes the whole declared list. -/
theorem conforms_covers_all_fields (c : Cmd) (hc : Conforms c = true)
    (hl : (layoutM c.marshal).isSome) : ∀ ft ∈ c.fields, (Spec.Cifs.blockOf c ft.1).isSome = true := by
  intro ft hm
  simp only [Conforms, Bool.and_eq_true] at hc
  have := hc.2
  simp only [allEmitted, List.all_eq_true, List.mem_map, forall_exists_index, and_imp] at this
  exact blockOf_isSome_of_emitted c hl ft.1 (this ft.1 ft hm rfl)

/-! ## the nested wire types of the library -/

/-- **Nested types that conform**, for all values: FILETIME / SMB_TIME (two little-endian ULONGs),
    SMB_DATE (the packed little-endian word), SMB_NMPIPE_STATUS, LOCKING_ANDX_RANGE64, OEM_STRING
    (`04 bytes 00`), the dialect list (each dialect with its own `02` and terminator); and, vacuously,
    SMB_RESUME_KEY and SMB_DIRECTORY_INFORMATION, for which `Spec.Cifs.nestedEnc` gives no encoding. -/
theorem std_nested_conforms :
    ∀ typ ∈ ["FILETIME", "SMB_TIME", "SMB_DATE", "SMB_NMPIPE_STATUS", "LOCKING_ANDX_RANGE64",
      "OEM_STRING", "Dialects", "SMB_RESUME_KEY", "SMB_DIRECTORY_INFORMATION"],
      NestedConforms SmbCodecs.std typ := by
  intro typ h
  simp only [List.mem_cons, List.not_mem_nil, or_false] at h
  rcases h with rfl | rfl | rfl | rfl | rfl | rfl | rfl | rfl | rfl
  · exact SmbCodecs.filetime_conforms
  · exact SmbCodecs.smb_time_conforms
  · exact SmbCodecs.smb_date_conforms
  · exact SmbCodecs.nmpipe_status_conforms
  · exact SmbCodecs.range64_conforms
  · exact SmbCodecs.oem_string_conforms
  · exact SmbCodecs.dialects_conforms
  · exact SmbCodecs.silent_conforms _ _ SmbCodecs.resume_key_silent
  · exact SmbCodecs.silent_conforms _ _ SmbCodecs.dir_info_silent

/-- every type name other than `SMB_FILE_ATTRIBUTES` and `SMB_STRING` conforms (names outside the
    codec table have no encoder at all) -/
theorem std_nested_conforms_other (typ : String) (h1 : typ ≠ "SMB_FILE_ATTRIBUTES")
    (h2 : typ ≠ "SMB_STRING") : NestedConforms SmbCodecs.std typ := by
  by_cases h : typ ∈ ["FILETIME", "SMB_TIME", "SMB_DATE", "SMB_NMPIPE_STATUS", "LOCKING_ANDX_RANGE64",
      "OEM_STRING", "Dialects", "SMB_RESUME_KEY", "SMB_DIRECTORY_INFORMATION"]
  · exact std_nested_conforms typ h
  · simp only [List.mem_cons, List.not_mem_nil, or_false, not_or] at h
    intro v bs v' he
    simp only [SmbCodecs.std, SmbCodecs.enc] at he
    split at he <;> simp_all

/-- **SMB_STRING conforms for the buffer formats 0x01, 0x02, 0x04 and 0x05** (`fmt` is the format the
    value carries after `Marshal`): `fmt len16 bytes` for 0x01/0x05, `fmt bytes 00` for 0x02/0x04 -/
theorem smb_string_conforms (v : Tup) (bs : Bytes) (v' : Tup)
    (h : SmbCodecs.std.enc "SMB_STRING" v = .ok (bs, v')) (hf : v'.1.head? ≠ some 3)
    (sb : Bytes) (hs : Spec.Cifs.nestedEnc "SMB_STRING" v' = some sb) : bs = sb :=
  SmbCodecs.smb_string_conforms_at v' hf v bs h sb hs

/-- **SMB_STRING with buffer format 0x03 never conforms**: whatever the string, the code emits two
    bytes more than MS-CIFS (`03 len16 bytes 00` against `03 bytes 00`) -/
theorem smb_string_format3_never_conforms (v : Tup) (bs : Bytes) (v' : Tup)
    (h : SmbCodecs.std.enc "SMB_STRING" v = .ok (bs, v')) (hf : v'.1.head? = some 3)
    (sb : Bytes) (hs : Spec.Cifs.nestedEnc "SMB_STRING" v' = some sb) : bs.length = sb.length + 2 :=
  SmbCodecs.smb_string_format3_differs v bs v' h hf sb hs

/-- finding `fmt3:SMB_STRING` at a witness: "AB" in format 0x03 goes out as `03 02 00 41 42 00`,
    MS-CIFS writes `03 41 42 00` -/
theorem smb_string_format3_counterexample :
    SmbCodecs.std.enc "SMB_STRING" ([3, 0], [[0x41, 0x42]]) =
        .ok ([0x03, 0x02, 0x00, 0x41, 0x42, 0x00], ([3, 2], [[0x41, 0x42]])) ∧
      Spec.Cifs.nestedEnc "SMB_STRING" ([3, 2], [[0x41, 0x42]]) = some [0x03, 0x41, 0x42, 0x00] ∧
      ¬ NestedConforms SmbCodecs.std "SMB_STRING" := by
  refine ⟨by decide, by decide, fun h => ?_⟩
  have := h ([3, 0], [[0x41, 0x42]]) [0x03, 0x02, 0x00, 0x41, 0x42, 0x00] ([3, 2], [[0x41, 0x42]])
    (by decide) [0x03, 0x41, 0x42, 0x00] (by decide)
  exact absurd this (by decide)

/-- finding `be:SMB_FILE_ATTRIBUTES` at a witness: the attributes 0x0037 go out as `00 37`
    (big-endian), MS-CIFS writes `37 00` -/
theorem file_attributes_big_endian_counterexample :
    SmbCodecs.std.enc "SMB_FILE_ATTRIBUTES" ([0x0037], []) = .ok ([0x00, 0x37], ([0x0037], [])) ∧
      Spec.Cifs.nestedEnc "SMB_FILE_ATTRIBUTES" ([0x0037], []) = some [0x37, 0x00] ∧
      ¬ NestedConforms SmbCodecs.std "SMB_FILE_ATTRIBUTES" := by
  refine ⟨by decide, by decide, fun h => ?_⟩
  have := h ([0x0037], []) [0x00, 0x37] ([0x0037], []) (by decide) [0x37, 0x00] (by decide)
  exact absurd this (by decide)

/-- **The library's commands, all values**: a conforming command marshalled with the library's own
    nested encoders emits the MS-CIFS bytes, outside the three recorded findings — no
    `SMB_FILE_ATTRIBUTES` field, no string field left in buffer format 0x03, and no AndX offset whose
    two bytes differ. -/
theorem conforms_sound_std (c : Cmd) (hc : Conforms c = true)
    (env : Env) (bs : Bytes) (env' : Env) (sb : Bytes)
    (hattr : ∀ b f, MStmt.sub b f "SMB_FILE_ATTRIBUTES" ∉ c.marshal)
    (hfmt : ∀ b f, MStmt.sub b f "SMB_STRING" ∈ c.marshal →
      ∀ v', env'.get f = some (.t v') → v'.1.head? ≠ some 3)
    (hbe : andxOffsetBigEndian c.isAndX env' = false)
    (he : encodeCmd SmbCodecs.std c env = .ok bs) (ha : envAfterMarshal SmbCodecs.std c env = .ok env')
    (hs : Spec.Cifs.encode c env' = some sb) : bs = sb := by
  refine conformsCore_sound_at _ c (ConformsCore_of_Conforms hc) env bs env' sb ?_ hbe he ha hs
  intro b f typ hm v' hv
  by_cases h1 : typ = "SMB_FILE_ATTRIBUTES"
  · subst h1; exact absurd hm (hattr b f)
  · by_cases h2 : typ = "SMB_STRING"
    · subst h2; exact SmbCodecs.smb_string_conforms_at v' (hfmt b f hm v' hv)
    · exact (std_nested_conforms_other typ h1 h2).at v'

/-! ## beyond the straight-line fragment: loops over list fields, one optional parameter field -/

/-- **`ConformsLists` is sound**, sharpest form.  For every command whose marshal program passes the static
    check — `Conforms`, and nothing but straight-line statements and `range` loops over declared integer
    arrays / lists of a nested structure —, every codec table and *all* field values: whenever the MS-CIFS
    encoder for structures with list fields (`Spec.Cifs.encodeLists`: an array is the concatenation of its
    elements' encodings, everything else as in `Spec.Cifs.encode`) speaks on the command as `Marshal` leaves
    it, the bytes the code emits are its bytes.  The nested encoders of the non-list fields have to conform at
    the values the fields hold after `Marshal`; those of list elements on the element itself
    (`NestedConformsIn`: the loop marshals a copy, the command keeps its elements).  Outside `be:AndXOffset`. -/
theorem conforms_lists_sound_at (C : Codecs) (c : Cmd) (hc : ConformsLists c = true)
    (env : Env) (bs : Bytes) (env' : Env) (sb : Bytes)
    (hn : ∀ b f typ, MStmt.sub b f typ ∈ c.marshal → ∀ v', env'.get f = some (.t v') →
      NestedConformsAt C typ v')
    (hnl : ∀ b f typ, MStmt.forSub b f typ ∈ c.marshal → NestedConformsIn C typ)
    (hbe : andxOffsetBigEndian c.isAndX env' = false)
    (he : encodeCmd C c env = .ok bs) (ha : envAfterMarshal C c env = .ok env')
    (hs : Spec.Cifs.encodeLists c env' = some sb) : bs = sb :=
  conformsLists_sound_at C c hc env bs env' sb hn hnl hbe he ha hs

/-- **`ConformsLists` is sound** with respect to the independent MS-CIFS encoder `Spec.Cifs.encodeLists`:
    side conditions as in `conforms_sound` (nested encoders that conform; the specification evaluated on the
    command after `Marshal`; outside the finding `be:AndXOffset`). -/
theorem conforms_lists_sound (C : Codecs) (c : Cmd) (hc : ConformsLists c = true)
    (hn : ∀ b f typ, MStmt.sub b f typ ∈ c.marshal → NestedConforms C typ)
    (hnl : ∀ b f typ, MStmt.forSub b f typ ∈ c.marshal → NestedConformsIn C typ)
    (env : Env) (bs : Bytes) (env' : Env) (sb : Bytes)
    (hbe : andxOffsetBigEndian c.isAndX env' = false)
    (he : encodeCmd C c env = .ok bs) (ha : envAfterMarshal C c env = .ok env')
    (hs : Spec.Cifs.encodeLists c env' = some sb) : bs = sb :=
  conformsLists_sound_at C c hc env bs env' sb (fun b f typ hm v' _ => (hn b f typ hm).at v') hnl hbe he ha hs

/-- **`ConformsOptional` is sound**, sharpest form.  For every command whose marshal program passes the
    static check — `Conforms`, exactly one `if c.F != 0 { … }` whose body emits `F` and only `F` into the
    parameter block, no other emission of `F`, the rest straight-line or loops —, every codec table and *all*
    field values: whenever `Spec.Cifs.encodeOptional` speaks (MS-CIFS gives the request two forms, WordCount
    telling which: the declared layout without `F` when `F` is zero, the full declared layout otherwise — `F`
    at its declared width, little-endian), the bytes the code emits are its bytes. -/
theorem conforms_optional_sound_at (C : Codecs) (c : Cmd) (hc : ConformsOptional c = true)
    (env : Env) (bs : Bytes) (env' : Env) (sb : Bytes)
    (hn : ∀ b f typ, MStmt.sub b f typ ∈ c.marshal → ∀ v', env'.get f = some (.t v') →
      NestedConformsAt C typ v')
    (hnl : ∀ b f typ, MStmt.forSub b f typ ∈ c.marshal → NestedConformsIn C typ)
    (hbe : andxOffsetBigEndian c.isAndX env' = false)
    (he : encodeCmd C c env = .ok bs) (ha : envAfterMarshal C c env = .ok env')
    (hs : Spec.Cifs.encodeOptional c env' = some sb) : bs = sb :=
  conformsOptional_sound_at C c hc env bs env' sb hn hnl hbe he ha hs

/-- **`ConformsOptional` is sound** with respect to `Spec.Cifs.encodeOptional`, side conditions as in
    `conforms_sound`. -/
theorem conforms_optional_sound (C : Codecs) (c : Cmd) (hc : ConformsOptional c = true)
    (hn : ∀ b f typ, MStmt.sub b f typ ∈ c.marshal → NestedConforms C typ)
    (hnl : ∀ b f typ, MStmt.forSub b f typ ∈ c.marshal → NestedConformsIn C typ)
    (env : Env) (bs : Bytes) (env' : Env) (sb : Bytes)
    (hbe : andxOffsetBigEndian c.isAndX env' = false)
    (he : encodeCmd C c env = .ok bs) (ha : envAfterMarshal C c env = .ok env')
    (hs : Spec.Cifs.encodeOptional c env' = some sb) : bs = sb :=
  conformsOptional_sound_at C c hc env bs env' sb (fun b f typ hm v' _ => (hn b f typ hm).at v') hnl hbe he ha hs

/-- the predicates put a command inside the fragment its encoder covers: `Spec.Cifs.encodeLists` /
    `Spec.Cifs.encodeOptional` are never silent because of the *shape* of a program that passed -/
theorem conforms_ext_shapes (c : Cmd) :
    (ConformsLists c = true → Spec.Cifs.loopsOnly c.marshal = true) ∧
    (ConformsOptional c = true → (Spec.Cifs.optionalFields c.marshal).length = 1 ∧
      Spec.Cifs.loopsOnly (Spec.Cifs.withoutOptional c.marshal) = true) := by
  constructor
  · intro h
    simp only [ConformsLists, Bool.and_eq_true] at h
    exact h.1.2
  · intro h
    simp only [ConformsOptional, Bool.and_eq_true, beq_iff_eq] at h
    exact ⟨h.1.1.2, loopsOnly_withoutOptional _ _ h.1.2⟩

/-- **List elements that conform**, for all values, on the element handed to the encoder:
    LOCKING_ANDX_RANGE64; and, vacuously, SMB_DIRECTORY_INFORMATION (no MS-CIFS encoding in
    `Spec.Cifs.nestedEnc`).  By `list_element_types` these are the only nested structures a `Marshal`
    loops over. -/
theorem std_nested_list_conforms :
    ∀ typ ∈ ["LOCKING_ANDX_RANGE64", "SMB_DIRECTORY_INFORMATION"], NestedConformsIn SmbCodecs.std typ := by
  intro typ h
  simp only [List.mem_cons, List.not_mem_nil, or_false] at h
  rcases h with rfl | rfl
  · exact SmbCodecs.range64_conforms_in
  · exact SmbCodecs.silent_conforms_in _ _ SmbCodecs.dir_info_silent

private theorem std_list_hyp (c : Cmd) (hmem : c ∈ commands) :
    ∀ b f typ, MStmt.forSub b f typ ∈ c.marshal → NestedConformsIn SmbCodecs.std typ := by
  intro b f typ hm
  have h := List.all_eq_true.mp list_element_types c hmem
  have h2 := List.all_eq_true.mp h _ hm
  exact std_nested_list_conforms typ (List.contains_iff_mem.1 h2)

private theorem std_sub_hyp (c : Cmd) (env' : Env)
    (hattr : ∀ b f, MStmt.sub b f "SMB_FILE_ATTRIBUTES" ∉ c.marshal)
    (hfmt : ∀ b f, MStmt.sub b f "SMB_STRING" ∈ c.marshal →
      ∀ v', env'.get f = some (.t v') → v'.1.head? ≠ some 3) :
    ∀ b f typ, MStmt.sub b f typ ∈ c.marshal → ∀ v', env'.get f = some (.t v') →
      NestedConformsAt SmbCodecs.std typ v' := by
  intro b f typ hm v' hv
  by_cases h1 : typ = "SMB_FILE_ATTRIBUTES"
  · subst h1; exact absurd hm (hattr b f)
  · by_cases h2 : typ = "SMB_STRING"
    · subst h2; exact SmbCodecs.smb_string_conforms_at v' (hfmt b f hm v' hv)
    · exact (std_nested_conforms_other typ h1 h2).at v'

/-- **The library's commands with list fields, all values**: a regenerated command that passes `ConformsLists`,
    marshalled with the library's own nested encoders, emits the bytes of `Spec.Cifs.encodeLists` outside the
    three recorded findings (as `conforms_sound_std`). -/
theorem conforms_lists_sound_std (c : Cmd) (hmem : c ∈ commands) (hc : ConformsLists c = true)
    (env : Env) (bs : Bytes) (env' : Env) (sb : Bytes)
    (hattr : ∀ b f, MStmt.sub b f "SMB_FILE_ATTRIBUTES" ∉ c.marshal)
    (hfmt : ∀ b f, MStmt.sub b f "SMB_STRING" ∈ c.marshal →
      ∀ v', env'.get f = some (.t v') → v'.1.head? ≠ some 3)
    (hbe : andxOffsetBigEndian c.isAndX env' = false)
    (he : encodeCmd SmbCodecs.std c env = .ok bs) (ha : envAfterMarshal SmbCodecs.std c env = .ok env')
    (hs : Spec.Cifs.encodeLists c env' = some sb) : bs = sb :=
  conformsLists_sound_at _ c hc env bs env' sb (std_sub_hyp c env' hattr hfmt) (std_list_hyp c hmem) hbe he ha hs

/-- **The library's commands with an optional parameter field, all values** (as `conforms_sound_std`) -/
theorem conforms_optional_sound_std (c : Cmd) (hmem : c ∈ commands) (hc : ConformsOptional c = true)
    (env : Env) (bs : Bytes) (env' : Env) (sb : Bytes)
    (hattr : ∀ b f, MStmt.sub b f "SMB_FILE_ATTRIBUTES" ∉ c.marshal)
    (hfmt : ∀ b f, MStmt.sub b f "SMB_STRING" ∈ c.marshal →
      ∀ v', env'.get f = some (.t v') → v'.1.head? ≠ some 3)
    (hbe : andxOffsetBigEndian c.isAndX env' = false)
    (he : encodeCmd SmbCodecs.std c env = .ok bs) (ha : envAfterMarshal SmbCodecs.std c env = .ok env')
    (hs : Spec.Cifs.encodeOptional c env' = some sb) : bs = sb :=
  conformsOptional_sound_at _ c hc env bs env' sb (std_sub_hyp c env' hattr hfmt) (std_list_hyp c hmem) hbe he ha hs

/-! ## header algebra -/

/-- the AndX block of the spec and of the code agree for a command on which no block was set: the
    prologue of `Marshal` creates command 0xFF ("no further command"), reserved 0, offset 0, which is
    what MS-CIFS prescribes (before and after the call) -/
theorem andx_default_block (b : Bool) (env : Env) (h : env.get andxField = none) :
    Manticore.Spec.Cifs.andxBlock b env = some (andxBytesOf b (prologueEnv b env)) ∧
      Manticore.Spec.Cifs.andxBlock b (prologueEnv b env) = some (andxBytesOf b (prologueEnv b env)) := by
  cases b with
  | false => exact ⟨rfl, rfl⟩
  | true =>
    have hp : (prologueEnv true env).get andxField = some defaultAndX := by
      unfold prologueEnv; simp [h, Env.get_set_eq]
    unfold Spec.Cifs.andxBlock andxBytesOf
    rw [h, hp]
    exact ⟨rfl, by decide⟩

/-- **AndX blocks are command / reserved / offset**: for every AndX block a command can hold
    (`c, r < 256`, `o < 65536`), the four bytes `Marshal` puts at the head of the parameter block are
    the MS-CIFS block — AndXCommand, AndXReserved, AndXOffset little-endian — unless the two bytes of
    the offset differ (finding `be:AndXOffset`) -/
theorem andx_block_eq_spec (andx : Bool) (env : Env) (ax : Bytes)
    (hbe : andxOffsetBigEndian andx env = false) (hs : Manticore.Spec.Cifs.andxBlock andx env = some ax) :
    andxBytesOf andx env = ax :=
  (andxBlock_eq andx env env ax rfl hbe hs).1

/-- finding `be:AndXOffset` at a witness: a READ_ANDX request chained to a CLOSE (0x04) at offset 0x0102
    goes out with the AndX block `04 00 01 02`; MS-CIFS writes `04 00 02 01`.  The predicate holds of
    exactly the blocks whose offset has two different bytes, and there the two encodings always differ. -/
theorem andx_offset_big_endian_counterexample :
    let env : Env := [("FID", .n 0), ("Offset", .n 0), ("MaxCountOfBytesToReturn", .n 0),
      ("MinCountOfBytesToReturn", .n 0), ("Timeout", .n 0), ("Remaining", .n 0), (andxField, .ns [4, 0, 0x0102])]
    andxOffsetBigEndian true env = true ∧
    andxBytesOf true env = [0x04, 0x00, 0x01, 0x02] ∧
    Manticore.Spec.Cifs.andxBlock true env = some [0x04, 0x00, 0x02, 0x01] ∧
    encodeCmd SmbCodecs.std cmd_ReadAndxRequest env =
      .ok [0x0a, 0x04, 0x00, 0x01, 0x02, 0, 0, 0, 0, 0, 0, 0, 0, 0, 0, 0, 0, 0, 0, 0, 0, 0, 0] ∧
    Spec.Cifs.encode cmd_ReadAndxRequest env =
      some [0x0a, 0x04, 0x00, 0x02, 0x01, 0, 0, 0, 0, 0, 0, 0, 0, 0, 0, 0, 0, 0, 0, 0, 0, 0, 0] := by
  decide +kernel

/-- the finding is exactly the disagreement: for an AndX block within range, code and MS-CIFS differ iff
    the predicate holds -/
theorem andx_offset_differs_iff (c r o : Nat) (hc : c < 256) (hr : r < 256) (ho : o < 65536) (env : Env)
    (h : env.get andxField = some (.ns [c, r, o])) :
    (Manticore.Spec.Cifs.andxBlock true env ≠ some (andxBytesOf true env)) ↔ andxOffsetBigEndian true env = true := by
  have h1 : o / 256 % 256 = o / 256 := Nat.mod_eq_of_lt (by omega)
  unfold Spec.Cifs.andxBlock andxBytesOf andxOffsetBigEndian
  simp only [h, if_true, hc, hr, ho, and_self, Bool.true_and, natLe, List.cons_append, List.nil_append, h1,
    ne_eq, Option.some.injEq, List.cons.injEq, true_and, and_true, bne_iff_ne]
  constructor
  · intro hne heq
    apply hne
    rw [heq]
    exact ⟨rfl, rfl⟩
  · intro hne heq
    apply hne
    have := congrArg UInt8.toNat heq.1
    simp only [UInt8.toNat_ofNat'] at this
    omega

/-- **Parameter block**: `WordCount` (the number of words, AndX words included), then the AndX block
    and the parameter bytes unchanged, whenever these are an even number of bytes and at most 255
    words -/
theorem param_block_eq_spec (andx : Bool) (ax P : Bytes) (hax : ax.length = 2 * andxWords andx)
    (h1 : (ax ++ P).length % 2 = 0) (h2 : (ax ++ P).length / 2 ≤ 255) :
    paramBlock andx ax P = UInt8.ofNat ((ax ++ P).length / 2) :: (ax ++ P) :=
  paramBlock_eq_spec andx ax P hax h1 h2

/-- **Data block**: `ByteCount` as a little-endian USHORT, then the bytes, up to 65535 bytes -/
theorem data_block_eq_spec (D : Bytes) (h : D.length ≤ 65535) :
    dataBlock D = natLe 2 D.length ++ D := dataBlock_eq_spec D h

/-- each negotiated dialect carries its own format byte and terminator, for every list of names -/
theorem dialects_eq_spec (names : List Bytes) :
    Manticore.SmbCodecs.dialectsEnc names = names.flatMap (fun n => 2 :: n ++ [0]) := rfl

/-- for every list of NUL-free names the library decodes its own dialect encoding back, consuming
    all of it -/
theorem dialects_roundtrip_example :
    Manticore.SmbCodecs.dialectsDec (Manticore.SmbCodecs.dialectsEnc [[78, 84], [76, 77]]) = .ok ([[78, 84], [76, 77]], 8) := by
  decide

/-! ## non-vacuity -/

/-- the hypotheses of `conforms_sound_std` (hence of `conforms_sound_at`) are satisfiable and its
    conclusion is what one expects: a Close request, FID 0x1234 as `34 12`, the FILETIME as two
    little-endian ULONGs, `WordCount` 5, `ByteCount` 0 -/
example :
    let env : Env := [("FID", .n 0x1234), ("LastTimeModified", .t ([0x11223344, 0x55667788], []))]
    let wire : Bytes := [5, 0x34, 0x12, 0x44, 0x33, 0x22, 0x11, 0x88, 0x77, 0x66, 0x55, 0, 0]
    Conforms cmd_CloseRequest = true ∧
    (∀ b f, MStmt.sub b f "SMB_FILE_ATTRIBUTES" ∉ cmd_CloseRequest.marshal) ∧
    (∀ b f, MStmt.sub b f "SMB_STRING" ∉ cmd_CloseRequest.marshal) ∧
    encodeCmd SmbCodecs.std cmd_CloseRequest env = .ok wire ∧
    envAfterMarshal SmbCodecs.std cmd_CloseRequest env = .ok env ∧
    Spec.Cifs.encode cmd_CloseRequest env = some wire := by
  refine ⟨by decide +kernel, ?_, ?_, by decide +kernel, by decide +kernel, by decide +kernel⟩
  · intro b f h; simp [cmd_CloseRequest] at h
  · intro b f h; simp [cmd_CloseRequest] at h

/-- the hypotheses of `conforms_sound` itself (all nested types of the command conform) hold for the
    Close request -/
example : ∀ s ∈ cmd_CloseRequest.marshal, ∀ b f typ, s = .sub b f typ →
    NestedConforms SmbCodecs.std typ := by
  intro s hs b f typ he
  subst he
  simp only [cmd_CloseRequest, List.mem_cons, List.not_mem_nil, or_false, MStmt.sub.injEq,
    reduceCtorEq, false_or] at hs
  obtain ⟨_, _, rfl⟩ := hs
  exact std_nested_conforms _ (by simp)

/-- a command whose `Marshal` assigns a field (`SetBufferFormat(4)` on the directory name): the
    environment after `Marshal` differs from the one before, the string goes out as `04 41 00`, and
    the final format is not 0x03 -/
example :
    let env : Env := [("DirectoryName", .t ([0, 0], [[0x41]]))]
    let env' : Env := [("DirectoryName", .t ([4, 0], [[0x41]]))]
    let wire : Bytes := [0, 3, 0, 0x04, 0x41, 0x00]
    Conforms cmd_CheckDirectoryRequest = true ∧
    encodeCmd SmbCodecs.std cmd_CheckDirectoryRequest env = .ok wire ∧
    envAfterMarshal SmbCodecs.std cmd_CheckDirectoryRequest env = .ok env' ∧
    Spec.Cifs.encode cmd_CheckDirectoryRequest env' = some wire := by
  decide +kernel

/-! ## every clause of `ConformsCore` is needed

Toy programs that fail exactly one rule (two where the old declaration-order clause notices it as
well) and for which the conclusion of `conforms_sound` is false: the code's bytes and the MS-CIFS
bytes are both shown. -/

private def toy (fields : List (String × String)) (marshal : List MStmt) : Cmd :=
  { name := "Toy", code := "", isAndX := false, fields := fields, marshal := marshal, unmarshal := [] }

/-- `noWriteAfterEmit`: `L` goes out, then `L = len(B)` — the command after `Marshal` says 3, the
    wire said 0 -/
example :
    let c := toy [("L", "types.USHORT"), ("B", "[]types.UCHAR")]
      [.int .P 2 .le "L", .assignLen "L" "B" 2, .bytes .D "B"]
    let env : Env := [("L", .n 0), ("B", .b [1, 2, 3])]
    let env' : Env := [("L", .n 3), ("B", .b [1, 2, 3])]
    conformsFailures c = ["write after emission"] ∧
    encodeCmd SmbCodecs.std c env = .ok [1, 0, 0, 3, 0, 1, 2, 3] ∧
    envAfterMarshal SmbCodecs.std c env = .ok env' ∧
    Spec.Cifs.encode c env' = some [1, 3, 0, 3, 0, 1, 2, 3] := by
  decide +kernel

/-- order within a block: `B` before `A` -/
example :
    let c := toy [("A", "types.USHORT"), ("B", "types.USHORT")] [.int .P 2 .le "B", .int .P 2 .le "A"]
    let env : Env := [("A", .n 1), ("B", .n 2)]
    conformsFailures c = ["declaration order", "parameter block order"] ∧
    encodeCmd SmbCodecs.std c env = .ok [2, 2, 0, 1, 0, 0, 0] ∧
    envAfterMarshal SmbCodecs.std c env = .ok env ∧
    Spec.Cifs.encode c env = some [2, 1, 0, 2, 0, 0, 0] := by
  decide +kernel

/-- one field emitted into both blocks -/
example :
    let c := toy [("A", "types.USHORT")] [.int .P 2 .le "A", .int .D 2 .le "A"]
    let env : Env := [("A", .n 1)]
    conformsFailures c = ["declaration order", "data block order"] ∧
    encodeCmd SmbCodecs.std c env = .ok [1, 1, 0, 2, 0, 1, 0] ∧
    envAfterMarshal SmbCodecs.std c env = .ok env ∧
    Spec.Cifs.encode c env = some [1, 1, 0, 0, 0] := by
  decide +kernel

/-- `typedStmt`: a field declared OEM_STRING marshalled as an SMB_STRING (format 0x02 kept) -/
example :
    let c := toy [("S", "types.OEM_STRING")] [.sub .D "S" "SMB_STRING"]
    let env : Env := [("S", .t ([2, 0], [[0x41]]))]
    conformsFailures c = ["declared type of a raw/nested emission"] ∧
    encodeCmd SmbCodecs.std c env = .ok [0, 3, 0, 2, 0x41, 0] ∧
    envAfterMarshal SmbCodecs.std c env = .ok env ∧
    Spec.Cifs.encode c env = some [0, 3, 0, 4, 0x41, 0] := by
  decide +kernel

/-- `conformsStmts`: a ULONG written with two bytes -/
example :
    let c := toy [("A", "types.ULONG")] [.int .P 2 .le "A"]
    let env : Env := [("A", .n 1)]
    conformsFailures c = ["int-width/endianness or bytes ahead of the parameter block"] ∧
    encodeCmd SmbCodecs.std c env = .ok [1, 1, 0, 0, 0] ∧
    envAfterMarshal SmbCodecs.std c env = .ok env ∧
    Spec.Cifs.encode c env = some [2, 1, 0, 0, 0, 0, 0] := by
  decide +kernel

/-- `nodupNames`: a name declared twice -/
example :
    let c := toy [("A", "types.USHORT"), ("A", "types.ULONG")] [.int .P 2 .le "A", .int .P 2 .le "A"]
    let env : Env := [("A", .n 1)]
    conformsFailures c = ["duplicate declared name"] ∧
    encodeCmd SmbCodecs.std c env = .ok [2, 1, 0, 1, 0, 0, 0] ∧
    envAfterMarshal SmbCodecs.std c env = .ok env ∧
    Spec.Cifs.encode c env = some [3, 1, 0, 1, 0, 0, 0, 0, 0] := by
  decide +kernel

/-! ## non-vacuity of the extended fragments -/

/-- `conforms_lists_sound_std` is not vacuous: a LOCKING_ANDX request with one unlock and two lock ranges
    (and an AndX block whose offset bytes are equal) — `ConformsLists` holds, `Marshal` leaves the fields as they
    are, and the code's bytes are those of `Spec.Cifs.encodeLists`: WordCount 8, the AndX block, the six
    parameter fields little-endian, ByteCount 60, the three 20-byte ranges in list order -/
example :
    let r (p o l : Nat) : Tup := ([p, 0, 0, o, 0, l], [])
    let env : Env := [("FID", .n 0x1234), ("TypeOfLock", .n 0x10), ("NewOpLockLevel", .n 0), ("Timeout", .n 0x01020304),
      ("NumberOfRequestedUnlocks", .n 1), ("NumberOfRequestedLocks", .n 2),
      ("Unlocks", .ts [r 0x0a0b 1 2]), ("Locks", .ts [r 0x0c0d 3 4, r 0x0e0f 5 6]), (andxField, .ns [0x24, 0, 0x0101])]
    let rb (p0 p1 o l : UInt8) : Bytes := [p0, p1, 0, 0, 0, 0, 0, 0, o, 0, 0, 0, 0, 0, 0, 0, l, 0, 0, 0]
    let wire : Bytes := [8, 0x24, 0, 1, 1, 0x34, 0x12, 0x10, 0, 4, 3, 2, 1, 1, 0, 2, 0, 60, 0] ++
      rb 0x0b 0x0a 1 2 ++ rb 0x0d 0x0c 3 4 ++ rb 0x0f 0x0e 5 6
    cmd_LockingAndxRequest ∈ commands ∧ ConformsLists cmd_LockingAndxRequest = true ∧
    (layoutM cmd_LockingAndxRequest.marshal).isNone = true ∧
    andxOffsetBigEndian true env = false ∧
    encodeCmd SmbCodecs.std cmd_LockingAndxRequest env = .ok wire ∧
    envAfterMarshal SmbCodecs.std cmd_LockingAndxRequest env = .ok env ∧
    Spec.Cifs.encode cmd_LockingAndxRequest env = none ∧
    Spec.Cifs.encodeLists cmd_LockingAndxRequest env = some wire := by
  refine ⟨by simp [commands, chunk0, chunk1, chunk2, chunk3], by decide +kernel, by decide +kernel, by decide +kernel,
    by decide +kernel, by decide +kernel, by decide +kernel, by decide +kernel⟩

/-- an integer list: the `Setup` words of a TRANSACTION request go out little-endian one after the other,
    in the parameter block behind `SetupCount` / `Reserved3` -/
example :
    let env : Env := [("TotalParameterCount", .n 0), ("TotalDataCount", .n 0), ("MaxParameterCount", .n 0), ("MaxDataCount", .n 0),
      ("MaxSetupCount", .n 0), ("Reserved1", .n 0), ("Flags", .n 0), ("Timeout", .n 0), ("Reserved2", .n 0),
      ("ParameterCount", .n 0), ("ParameterOffset", .n 0), ("DataCount", .n 0), ("DataOffset", .n 0),
      ("SetupCount", .n 2), ("Reserved3", .n 0), ("Setup", .ns [0x0102, 0x0304]), ("Name", .t ([4, 0], [[0x41]])),
      ("Pad1", .b []), ("Trans_Parameters", .b []), ("Pad2", .b []), ("Trans_Data", .b [])]
    let wire : Bytes := [16] ++ List.replicate 26 0 ++ [2, 0, 0x02, 0x01, 0x04, 0x03] ++ [3, 0, 4, 0x41, 0]
    ConformsLists cmd_TransactionRequest = true ∧
    encodeCmd SmbCodecs.std cmd_TransactionRequest env = .ok wire ∧
    envAfterMarshal SmbCodecs.std cmd_TransactionRequest env = .ok env ∧
    Spec.Cifs.encodeLists cmd_TransactionRequest env = some wire := by
  decide +kernel

/-- `conforms_optional_sound_std` is not vacuous, in both forms: a WRITE_ANDX request with `OffsetHigh` zero
    goes out in the 12-word form, with `OffsetHigh = 0x01020304` in the 14-word form with the field last in
    the parameter block, full width, little-endian -/
example :
    let env (hi : Nat) : Env := [("FID", .n 0x1234), ("Offset", .n 0), ("Timeout", .n 0), ("WriteMode", .n 0), ("Remaining", .n 0),
      ("Reserved", .n 0), ("DataLength", .n 2), ("DataOffset", .n 0x40), ("OffsetHigh", .n hi), ("Pad", .n 0), ("Data", .b [0xAA, 0xBB])]
    let head : Bytes := [0xFF, 0, 0, 0, 0x34, 0x12, 0, 0, 0, 0, 0, 0, 0, 0, 0, 0, 0, 0, 0, 0, 2, 0, 0x40, 0]
    let tail : Bytes := [3, 0, 0, 0xAA, 0xBB]
    cmd_WriteAndxRequest ∈ commands ∧ ConformsOptional cmd_WriteAndxRequest = true ∧
    encodeCmd SmbCodecs.std cmd_WriteAndxRequest (env 0) = .ok ([12] ++ head ++ tail) ∧
    Spec.Cifs.encodeOptional cmd_WriteAndxRequest (prologueEnv true (env 0)) = some ([12] ++ head ++ tail) ∧
    envAfterMarshal SmbCodecs.std cmd_WriteAndxRequest (env 0) = .ok (prologueEnv true (env 0)) ∧
    encodeCmd SmbCodecs.std cmd_WriteAndxRequest (env 0x01020304) = .ok ([14] ++ head ++ [4, 3, 2, 1] ++ tail) ∧
    Spec.Cifs.encodeOptional cmd_WriteAndxRequest (prologueEnv true (env 0x01020304)) = some ([14] ++ head ++ [4, 3, 2, 1] ++ tail) ∧
    Spec.Cifs.encodeLists cmd_WriteAndxRequest (prologueEnv true (env 0)) = none := by
  refine ⟨by simp [commands, chunk0, chunk1, chunk2, chunk3, chunk4, chunk5, chunk6, chunk7], by decide +kernel, by decide +kernel, by decide +kernel,
    by decide +kernel, by decide +kernel, by decide +kernel, by decide +kernel⟩

/-- the optional array of WRITE_AND_CLOSE: all three reserved ULONGs or none -/
example :
    let env (r : List Nat) : Env := [("FID", .n 1), ("CountOfBytesToWrite", .n 1), ("WriteOffsetInBytes", .n 0),
      ("LastWriteTime", .t ([0, 0], [])), ("Reserved", .ns r), ("Pad", .n 0), ("Data", .b [0xAA])]
    let head : Bytes := [1, 0, 1, 0, 0, 0, 0, 0, 0, 0, 0, 0, 0, 0, 0, 0]
    ConformsOptional cmd_WriteAndCloseRequest = true ∧
    encodeCmd SmbCodecs.std cmd_WriteAndCloseRequest (env [0, 0, 0]) = .ok ([8] ++ head ++ [2, 0, 0, 0xAA]) ∧
    Spec.Cifs.encodeOptional cmd_WriteAndCloseRequest (env [0, 0, 0]) = some ([8] ++ head ++ [2, 0, 0, 0xAA]) ∧
    encodeCmd SmbCodecs.std cmd_WriteAndCloseRequest (env [0, 7, 0]) = .ok ([14] ++ head ++ [0, 0, 0, 0, 7, 0, 0, 0, 0, 0, 0, 0] ++ [2, 0, 0, 0xAA]) ∧
    Spec.Cifs.encodeOptional cmd_WriteAndCloseRequest (env [0, 7, 0]) = some ([14] ++ head ++ [0, 0, 0, 0, 7, 0, 0, 0, 0, 0, 0, 0] ++ [2, 0, 0, 0xAA]) := by
  decide +kernel

/-- the shape clause is needed: `Conforms` alone accepts `if c.B != 0 { emit A }` (it sees an emission
    of `B` in declaration order), and the code's bytes are not the MS-CIFS bytes.  (`typedLoop` is used by the
    proof only: where it fails, `Spec.Cifs.encField` has no encoding for the value and the encoder is silent.) -/
example :
    let c := toy [("A", "types.USHORT"), ("B", "types.USHORT")]
      [.int .P 2 .le "A", .ifNonZero "B" [.int .P 2 .le "A"]]
    let env : Env := [("A", .n 1), ("B", .n 2)]
    Conforms c = true ∧ ConformsOptional c = false ∧
    encodeCmd SmbCodecs.std c env = .ok [2, 1, 0, 1, 0, 0, 0] ∧
    envAfterMarshal SmbCodecs.std c env = .ok env ∧
    Spec.Cifs.encodeOptional c env = some [2, 1, 0, 2, 0, 0, 0] := by
  decide +kernel

/-! ## WriteRequest after fixes/C04-writerequest-data-block.diff -/

/-- the repaired program passes `Conforms` (it was the one entry of `non_conforming_commands`: `Data` went out ahead of
    the word count), so `conforms_sound` speaks about it; on the assignment that showed the defect the MS-CIFS encoder
    and `Marshal` now give the same bytes: five parameter words, then `BufferFormat 01, DataLength, Data` inside the data block -/
example : Conforms cmd_WriteRequest = true := by decide +kernel
example : Manticore.Spec.Cifs.encode cmd_WriteRequest
    [("FID", .n 0x1234), ("CountOfBytesToWrite", .n 2), ("WriteOffsetInBytes", .n 0),
     ("EstimateOfRemainingBytesToBeWritten", .n 0), ("Data", .t ([1, 2], [[0x61, 0x62]]))] =
    some [0x05, 0x34, 0x12, 0x02, 0x00, 0, 0, 0, 0, 0, 0, 0x05, 0x00, 0x01, 0x02, 0x00, 0x61, 0x62] := by decide +kernel

end Manticore.C05
