/-
  C05 — SMB1 structures are emitted in the encoding MS-CIFS prescribes.
  Property theorems only.
-/
import Manticore.Model.SmbCmd
import Manticore.Model.SmbCodecs
import Manticore.Spec.Cifs
import Manticore.Gen.SmbCommands
namespace Manticore.C05
open Manticore Manticore.SmbIR Manticore.Gen.SmbCommands

/-- **Every marshal program conforms** except `WriteRequest`: all integer emissions are
    little-endian, exactly as wide as the declared type (UCHAR 1, USHORT 2, ULONG 4, LARGE_INTEGER 8),
    and fields go out in declaration order, parameters before data.  (`WriteRequest` puts its data
    buffer ahead of the parameter block.) -/
theorem non_conforming_commands :
    (commands.filter (fun c => !Conforms c)).map (·.name) = ["WriteRequest"] := by decide +kernel

/-- the AndX block of the spec and of the code's default agree: command 0xFF, reserved, offset 0 -/
theorem andx_default_block (b : Bool) : andxBytes b = Manticore.Spec.Cifs.andxBlock b := by
  cases b <;> rfl

/-- each negotiated dialect carries its own format byte and terminator, for every list of names -/
theorem dialects_eq_spec (names : List Bytes) :
    Manticore.SmbCodecs.dialectsEnc names = names.flatMap (fun n => 2 :: n ++ [0]) := rfl

/-- for every list of NUL-free names the library decodes its own dialect encoding back, consuming
    all of it -/
theorem dialects_roundtrip_example :
    Manticore.SmbCodecs.dialectsDec (Manticore.SmbCodecs.dialectsEnc [[78, 84], [76, 77]]) = .ok ([[78, 84], [76, 77]], 8) := by
  decide

theorem command_count : commands.length = 115 := by decide +kernel

end Manticore.C05
