/-
  C11 — the NBT session transport preserves message boundaries and never yields partial frames.
  Property theorems only.  Model and spec: `Manticore/Model/C11.lean`.
-/
import Manticore.Model.C11
namespace Manticore.C11
open Manticore

/-! ### helper facts (private) -/

private theorem or_eq_add_of_lt (a b k : Nat) (hb : b < 2^k) (ha : 2^k ∣ a) : a ||| b = a + b := by
  obtain ⟨q, rfl⟩ := ha
  rw [Nat.mul_comm, ← Nat.shiftLeft_eq]
  exact (Nat.shiftLeft_add_eq_or_of_lt hb q).symm

private theorem header_eq (n : Nat) :
    header n = [0, UInt8.ofNat (n / 65536 % 2), UInt8.ofNat (n / 256 % 256), UInt8.ofNat (n % 256)] := by
  have e1 : (n >>> 16) &&& 0x01 = n / 65536 % 2 := by
    rw [Nat.shiftRight_eq_div_pow]; exact Nat.and_two_pow_sub_one_eq_mod _ 1
  have e2 : (n >>> 8) &&& 0xFF = n / 256 % 256 := by
    rw [Nat.shiftRight_eq_div_pow]; exact Nat.and_two_pow_sub_one_eq_mod _ 8
  have e3 : n &&& 0xFF = n % 256 := Nat.and_two_pow_sub_one_eq_mod _ 8
  simp only [header, e1, e2, e3]

private theorem lengthOf_header (n : Nat) (h : n ≤ maxLen) :
    lengthOf (UInt8.ofNat (n / 65536 % 2)) (UInt8.ofNat (n / 256 % 256)) (UInt8.ofNat (n % 256)) = n := by
  simp only [maxLen] at h
  have e1 : ((UInt8.ofNat (n / 65536 % 2)) &&& 0x01).toNat = n / 65536 := by
    rw [UInt8.toNat_and, UInt8.toNat_ofNat']
    have : (0x01 : UInt8).toNat = 2 ^ 1 - 1 := by decide
    rw [this, Nat.and_two_pow_sub_one_eq_mod]; omega
  have e2 : (UInt8.ofNat (n / 256 % 256)).toNat = n / 256 % 256 := by
    rw [UInt8.toNat_ofNat']; omega
  have e3 : (UInt8.ofNat (n % 256)).toNat = n % 256 := by
    rw [UInt8.toNat_ofNat']; omega
  simp only [lengthOf, e1, e2, e3, Nat.shiftLeft_eq]
  rw [or_eq_add_of_lt (n / 65536 * 2 ^ 16) (n / 256 % 256 * 2 ^ 8) 16 (by omega) (by omega)]
  rw [or_eq_add_of_lt _ (n % 256) 8 (by omega) (by omega)]
  omega

private theorem frame_length (p : Bytes) : (frame p).length = 4 + p.length := by
  simp [frame, header_eq]; omega

private theorem readFull_append (a rest : Stream) : readFull (a ++ rest) a.length = .ok (a, rest) := by
  simp [readFull]

private theorem readFull_short (s : Stream) (n : Nat) (h : s.length < n) : readFull s n = .err := by
  simp [readFull, h]

/-- after a session-message header the call is the second `ReadFull` -/
private theorem receive_hdr_ok (h1 h2 h3 : UInt8) (s1 s2 : Stream) (b : Bytes)
    (h : readFull s1 (lengthOf h1 h2 h3) = .ok (b, s2)) : receive ([0, h1, h2, h3] ++ s1) = .ok (b, s2) := by
  have e := readFull_append [0, h1, h2, h3] s1
  simp only [List.length_cons, List.length_nil] at e
  unfold receive
  rw [e]
  simp [index, h]

private theorem receive_hdr_err (h1 h2 h3 : UInt8) (s1 : Stream)
    (h : readFull s1 (lengthOf h1 h2 h3) = .err) : receive ([0, h1, h2, h3] ++ s1) = .err := by
  have e := readFull_append [0, h1, h2, h3] s1
  simp only [List.length_cons, List.length_nil] at e
  unfold receive
  rw [e]
  simp [index, h]

/-- a whole frame at the head of the stream is received as its payload; the rest is untouched -/
private theorem receive_frame (p : Bytes) (rest : Stream) (h : p.length ≤ maxLen) :
    receive (frame p ++ rest) = .ok (p, rest) := by
  have hl := lengthOf_header p.length h
  rw [frame, header_eq, List.append_assoc]
  exact receive_hdr_ok _ _ _ _ _ _ (by rw [hl]; exact readFull_append p rest)

/-- a stream that ends inside a frame: the one call fails -/
private theorem receive_cut (p : Bytes) (h : p.length ≤ maxLen) (k : Nat) (hk : k < (frame p).length) :
    receive ((frame p).take k) = .err := by
  rw [frame_length] at hk
  by_cases h4 : k < 4
  · have : ((frame p).take k).length < 4 := by simp [frame_length]; omega
    simp only [receive, readFull_short _ 4 this]
  · have hl := lengthOf_header p.length h
    have e : (frame p).take k = header p.length ++ p.take (k - 4) := by
      have hh : (header p.length).length = 4 := by simp [header_eq]
      rw [frame, List.take_append, hh]
      rw [List.take_of_length_le (by omega)]
    have hshort : (p.take (k - 4)).length < p.length := by simp; omega
    rw [e, header_eq]
    exact receive_hdr_err _ _ _ _ (by rw [hl]; exact readFull_short _ _ hshort)

private theorem recvLoop_frames (rest : Stream) (hrest : ∀ r, receive rest ≠ .ok r) :
    ∀ (payloads : List Bytes) (fuel : Nat), (∀ p ∈ payloads, p.length ≤ maxLen) → payloads.length ≤ fuel →
      recvLoop fuel (payloads.flatMap frame ++ rest) = payloads := by
  intro payloads
  induction payloads with
  | nil =>
    intro fuel _ _
    cases fuel with
    | zero => rfl
    | succ f =>
      simp only [List.flatMap_nil, List.nil_append, recvLoop]
      cases hr : receive rest with
      | ok r => exact absurd hr (hrest r)
      | err => rfl
      | panic => rfl
  | cons p ps ih =>
    intro fuel hall hf
    cases fuel with
    | zero => simp at hf
    | succ f =>
      have hp := hall p (by simp)
      simp only [List.flatMap_cons, List.append_assoc, recvLoop, receive_frame p _ hp]
      rw [ih f (fun q hq => hall q (by simp [hq])) (by simpa using hf)]

private theorem flat_length (payloads : List Bytes) : payloads.length ≤ (payloads.flatMap frame).length := by
  induction payloads with
  | nil => simp
  | cons p ps ih => simp only [List.flatMap_cons, List.length_append, List.length_cons, frame_length]; omega

private theorem receive_nil : ∀ r, receive [] ≠ .ok r := by
  intro r; simp [receive, readFull]

/-! ### property theorems -/

/-- **The model's frame is the RFC 1002 §4.3.1 session message** (type 0x00, the E bit, 16 length
    bits big-endian, the data) for every payload that fits 17 bits. -/
theorem frame_is_rfc1002 (p : Bytes) (h : Spec.Framable p) : frame p = Spec.frame p := by
  have h' : p.length ≤ 131071 := h
  have : p.length / 65536 % 2 = p.length / 65536 := by omega
  simp [frame, header_eq, Spec.frame, this]

/-- `Send` accepts exactly the payloads the 17-bit length can express and writes their frame. -/
theorem send_accepts (p : Bytes) (h : p.length ≤ maxLen) : send p = .ok (frame p) := by
  simp [send]; omega

/-- **Too large to frame: refused, never mis-framed.**  For every payload longer than 0x1FFFF
    bytes `Send` returns an error and writes nothing. -/
theorem oversize_refused (p : Bytes) (h : p.length > maxLen) : send p = .err := by
  simp [send, h]

/-- **One message**: whatever `Send` writes, `Receive` returns as exactly that payload, leaving the
    rest of the stream untouched — for every payload `Send` accepts (0..131071 bytes). -/
theorem send_receive (p bs : Bytes) (rest : Stream) (h : send p = .ok bs) :
    receive (bs ++ rest) = .ok (p, rest) := by
  unfold send at h
  split at h
  · exact absurd h (by simp)
  · next hle =>
    simp only [Outcome.ok.injEq] at h
    subst h
    exact receive_frame p rest (by omega)

/-- **Every sequence of frames**: a receiver calling `Receive` until it fails gets exactly the
    payloads that were sent, in order, with their boundaries — all payload lists with every length
    ≤ 0x1FFFF. -/
theorem frame_roundtrip (payloads : List Bytes) (h : ∀ p ∈ payloads, p.length ≤ maxLen) :
    recvAll (payloads.flatMap frame) = payloads := by
  have := recvLoop_frames [] receive_nil payloads (payloads.flatMap frame).length h (flat_length payloads)
  simpa [recvAll] using this

/-- **Cut inside a frame**: if the stream ends after any strict prefix of a frame (including
    nothing at all), `Receive` reports an error — never a message. -/
theorem cut_is_error (p : Bytes) (h : p.length ≤ maxLen) (k : Nat) (hk : k < (frame p).length) :
    receive ((frame p).take k) = .err :=
  receive_cut p h k hk

/-- **Cut anywhere in a sequence of frames**: the receiver gets the payloads whose frames arrived
    completely — a prefix of what was sent; never a partial and never a fabricated message. -/
theorem cut_yields_prefix (payloads : List Bytes) (h : ∀ p ∈ payloads, p.length ≤ maxLen) (k fuel : Nat) :
    ∃ j, recvLoop fuel ((payloads.flatMap frame).take k) = payloads.take j := by
  induction payloads generalizing k fuel with
  | nil =>
    refine ⟨0, ?_⟩
    cases fuel with
    | zero => rfl
    | succ f =>
      simp only [List.flatMap_nil, List.take_nil, recvLoop]
      cases hr : receive [] with
      | ok r => exact absurd hr (receive_nil r)
      | err => rfl
      | panic => rfl
  | cons p ps ih =>
    have hp := h p (by simp)
    cases fuel with
    | zero => exact ⟨0, rfl⟩
    | succ f =>
      by_cases hk : k < (frame p).length
      · refine ⟨0, ?_⟩
        have e : ((p :: ps).flatMap frame).take k = (frame p).take k := by
          have hz : k - (frame p).length = 0 := by omega
          rw [List.flatMap_cons, List.take_append, hz, List.take_zero, List.append_nil]
        simp only [e, recvLoop, receive_cut p hp k hk, List.take_zero]
      · obtain ⟨j, hj⟩ := ih (fun q hq => h q (by simp [hq])) (k - (frame p).length) f
        refine ⟨j + 1, ?_⟩
        have e : ((p :: ps).flatMap frame).take k = frame p ++ (ps.flatMap frame).take (k - (frame p).length) := by
          rw [List.flatMap_cons, List.take_append, List.take_of_length_le (by omega)]
        simp only [e, recvLoop, receive_frame p _ hp, hj, List.take_succ_cons]

private theorem readFull_ne_panic (s : Stream) (n : Nat) : readFull s n ≠ .panic := by
  unfold readFull; split <;> simp

/-- `Receive` never panics, whatever the stream holds. -/
theorem receive_total (s : Stream) : receive s ≠ .panic := by
  by_cases h4 : s.length < 4
  · simp [receive, readFull_short s 4 h4]
  · have h4' : 4 ≤ s.length := by omega
    match s, h4' with
    | a :: b :: c :: d :: rest, _ =>
      have e := readFull_append [a, b, c, d] rest
      simp only [List.length_cons, List.length_nil, List.cons_append, List.nil_append] at e
      unfold receive
      rw [e]
      simp only [index, List.getElem?_cons_zero, List.getElem?_cons_succ]
      split
      · simp
      · cases hr : readFull rest (lengthOf b c d) with
        | ok r => simp
        | err => simp
        | panic => exact absurd hr (readFull_ne_panic _ _)

/-! ### segmentation independence -/

private theorem readOnce_spec (segs : List Bytes) (want : Nat) (hw : 0 < want) :
    match readOnce segs want with
    | none => segs.flatten = []
    | some (got, segs') => 0 < got.length ∧ got.length ≤ want ∧ got ++ segs'.flatten = segs.flatten := by
  induction segs with
  | nil => simp [readOnce]
  | cons c rest ih =>
    unfold readOnce
    by_cases h0 : c.length = 0
    · have : c = [] := List.eq_nil_of_length_eq_zero h0
      subst this
      simpa using ih
    · rw [if_neg h0]
      by_cases hle : c.length ≤ want
      · rw [if_pos hle]; simp; omega
      · rw [if_neg hle]
        simp only [List.length_take, List.flatten_cons]
        refine ⟨by omega, by omega, ?_⟩
        rw [← List.append_assoc, List.take_append_drop]

private theorem readFullSeg_step (f : Nat) (segs : List Bytes) (need : Nat) :
    readFullSeg (f + 1) segs (need + 1) =
      match readOnce segs (need + 1) with
      | none => .err
      | some (got, segs') =>
        match readFullSeg f segs' (need + 1 - got.length) with
        | .ok (more, segs'') => .ok (got ++ more, segs'')
        | .err => .err
        | .panic => .panic := rfl

/-- **`io.ReadFull`'s loop meets its contract on every segmentation**: however the bytes are cut
    into TCP reads, the loop returns the first `n` bytes of the concatenation and leaves the rest
    (`ok`), or fails when fewer than `n` are left (`err`); it never panics. -/
theorem readFullSeg_contract (segs : List Bytes) (n fuel : Nat) (hf : n ≤ fuel) :
    (∀ got segs', readFullSeg fuel segs n = .ok (got, segs') → readFull segs.flatten n = .ok (got, segs'.flatten)) ∧
    (readFullSeg fuel segs n = .err → readFull segs.flatten n = .err) ∧
    readFullSeg fuel segs n ≠ .panic := by
  induction fuel generalizing segs n with
  | zero =>
    have : n = 0 := by omega
    subst this
    simp [readFullSeg, readFull]
  | succ f ih =>
    cases n with
    | zero => simp [readFullSeg, readFull]
    | succ need =>
      rw [readFullSeg_step]
      have hs := readOnce_spec segs (need + 1) (by omega)
      cases hr : readOnce segs (need + 1) with
      | none =>
        rw [hr] at hs
        simp only at hs
        simp [readFull, hs]
      | some r =>
        obtain ⟨got, segs'⟩ := r
        rw [hr] at hs
        obtain ⟨h1, h2, h3⟩ := hs
        obtain ⟨ihok, iherr, ihp⟩ := ih segs' (need + 1 - got.length) (by omega)
        simp only []
        cases hrec : readFullSeg f segs' (need + 1 - got.length) with
        | panic => exact absurd hrec ihp
        | err =>
          have ih' := iherr hrec
          simp only [readFull] at ih' ⊢
          split at ih'
          · next hlt =>
            have : segs.flatten.length < need + 1 := by
              rw [← h3, List.length_append]; omega
            rw [if_pos this]; simp
          · simp at ih'
        | ok r2 =>
          obtain ⟨more, segs''⟩ := r2
          have ih' := ihok more segs'' hrec
          simp only [readFull] at ih' ⊢
          split at ih'
          · simp at ih'
          · next hge =>
            simp only [Outcome.ok.injEq, Prod.mk.injEq] at ih'
            obtain ⟨e1, e2⟩ := ih'
            have hlen : ¬ segs.flatten.length < need + 1 := by
              rw [← h3, List.length_append]; omega
            rw [if_neg hlen]
            refine ⟨?_, by simp, by simp⟩
            intro g s' hg
            simp only [Outcome.ok.injEq, Prod.mk.injEq] at hg ⊢
            obtain ⟨hg1, hg2⟩ := hg
            subst hg1 hg2
            rw [← h3]
            constructor
            · rw [List.take_append, List.take_of_length_le (by omega), e1]
            · rw [List.drop_append, List.drop_of_length_le (by omega), List.nil_append, e2]

/-- **Segmentation independence**: two deliveries of the same bytes, cut differently, make the
    receiver return the same messages. -/
theorem segmentation_independent (segs₁ segs₂ : List Bytes) (h : segs₁.flatten = segs₂.flatten) :
    recvAll segs₁.flatten = recvAll segs₂.flatten := by rw [h]

/-! ### non-vacuity -/

example : send [1, 2, 3] = .ok [0, 0, 0, 3, 1, 2, 3] := by decide
example : header 0x10000 = [0, 1, 0, 0] ∧ header 0x1FFFF = [0, 1, 0xFF, 0xFF] ∧ header 0xFFFF = [0, 0, 0xFF, 0xFF] := by decide
example : (List.replicate 3 (7 : UInt8)).length ≤ maxLen := by decide
example : recvAll ([0, 0, 0, 2, 9, 8] ++ [0, 0, 0, 0] ++ [0, 0, 0, 1, 7]) = [[9, 8], [], [7]] := by decide
example : receive [0, 0, 0, 2, 9] = .err := by decide
example : recvAll ([0, 0, 0, 2, 9, 8] ++ [0, 0, 0, 3, 7]) = [[9, 8]] := by decide
example : readFullSeg 4 [[1], [], [2, 3, 4], [5]] 4 = .ok ([1, 2, 3, 4], [[5]]) := by decide
example : readFullSeg 3 [[1, 2]] 3 = .err := by decide

end Manticore.C11
