/-
  C06 — SMB wire data types round-trip and consume exactly their own encoding.
  Property theorems only.  Models, domains and wire sizes: `Manticore/Model/C06.lean`.

  For every type `T` the clause of the property is the theorem `T.rt`:

      Dom v → ∀ suffix, ∃ bs, encode v = ok bs ∧ |bs| = wireSize v ∧ decode (bs ++ suffix) = ok (v, wireSize v)

  i.e. `Marshal` succeeds, its output has the size the specification gives the encoding, and
  `Unmarshal` of that output followed by arbitrary trailing bytes yields the same field values and
  reports exactly the size of the encoding.  All values of the domain, all suffixes.
-/
import Manticore.Model.C06
import Manticore.Lemmas.Endian
namespace Manticore.C06
open Manticore

/-! ### helper facts (private) -/

private theorem slice_mid {α} (pre mid post : List α) :
    slice (pre ++ (mid ++ post)) pre.length (pre.length + mid.length) = .ok mid := by
  unfold slice
  rw [if_pos (by simp)]
  simp

private theorem rdLe16_at (pre : Bytes) (x y : UInt8) (post : Bytes) :
    rdLe16 (pre ++ x :: y :: post) pre.length = .ok (le16 x y) := by
  have := slice_mid pre [x, y] post
  simp only [List.cons_append, List.nil_append, List.length_cons, List.length_nil] at this
  simp [rdLe16, this]

private theorem rdBe16_at (pre : Bytes) (x y : UInt8) (post : Bytes) :
    rdBe16 (pre ++ x :: y :: post) pre.length = .ok (be16 x y) := by
  have := slice_mid pre [x, y] post
  simp only [List.cons_append, List.nil_append, List.length_cons, List.length_nil] at this
  simp [rdBe16, this]

private theorem nulIndexFrom_append (s rest : Bytes) (i : Nat) (h : (0 : UInt8) ∉ s) :
    nulIndexFrom (s ++ 0 :: rest) i = some (i + s.length) := by
  induction s generalizing i with
  | nil => simp [nulIndexFrom]
  | cons c cs ih =>
    have hc : c ≠ 0 := by intro e; subst e; simp at h
    have hcs : (0 : UInt8) ∉ cs := by intro e; exact h (by simp [e])
    simp only [List.cons_append, nulIndexFrom, if_neg hc, ih _ hcs, List.length_cons]
    congr 1; omega

private theorem len16 {α} (l : List α) (h : l.length = 16) :
    ∃ a0 a1 a2 a3 a4 a5 a6 a7 a8 a9 a10 a11 a12 a13 a14 a15,
      l = [a0, a1, a2, a3, a4, a5, a6, a7, a8, a9, a10, a11, a12, a13, a14, a15] := by
  match l, h with
  | [a0, a1, a2, a3, a4, a5, a6, a7, a8, a9, a10, a11, a12, a13, a14, a15], _ =>
    exact ⟨_, _, _, _, _, _, _, _, _, _, _, _, _, _, _, _, rfl⟩

private theorem len12 {α} (l : List α) (h : l.length = 12) :
    ∃ a0 a1 a2 a3 a4 a5 a6 a7 a8 a9 a10 a11, l = [a0, a1, a2, a3, a4, a5, a6, a7, a8, a9, a10, a11] := by
  match l, h with
  | [a0, a1, a2, a3, a4, a5, a6, a7, a8, a9, a10, a11], _ => exact ⟨_, _, _, _, _, _, _, _, _, _, _, _, rfl⟩

private theorem len4 {α} (l : List α) (h : l.length = 4) : ∃ a0 a1 a2 a3, l = [a0, a1, a2, a3] := by
  match l, h with
  | [a0, a1, a2, a3], _ => exact ⟨_, _, _, _, rfl⟩

private theorem ofNat_len (l : UInt16) (n : Nat) (h : l.toNat = n) : UInt16.ofNat n = l := by
  subst h; simp

/-! ## SMB_STRING -/
namespace SmbString

private theorem decodeCounted_spec (f : UInt8) (l : UInt16) (buf tail suffix : Bytes) (extra : Nat)
    (hl : l.toNat = buf.length) (ht : tail.length = extra) :
    decodeCounted f (f :: (putLe16 l ++ buf ++ tail) ++ suffix) extra
      = .ok (⟨f, l, buf⟩, buf.length + 3 + extra) := by
  unfold decodeCounted
  have e : f :: (putLe16 l ++ buf ++ tail) ++ suffix
      = [f] ++ l.toUInt8 :: (l >>> 8).toUInt8 :: (buf ++ (tail ++ suffix)) := by simp [putLe16]
  have e2 : f :: (putLe16 l ++ buf ++ tail) ++ suffix
      = [f, l.toUInt8, (l >>> 8).toUInt8] ++ (buf ++ (tail ++ suffix)) := by simp [putLe16]
  have hlen : (f :: (putLe16 l ++ buf ++ tail) ++ suffix).length = 3 + buf.length + extra + suffix.length := by
    simp [putLe16, ht]; omega
  rw [if_neg (by rw [hlen]; omega)]
  have h1 : rdLe16 (f :: (putLe16 l ++ buf ++ tail) ++ suffix) 1 = .ok l := by
    rw [e]; have := rdLe16_at [f] l.toUInt8 (l >>> 8).toUInt8 (buf ++ (tail ++ suffix))
    simpa [le16_bytes] using this
  rw [h1]
  simp only []
  rw [if_neg (by rw [hlen, hl]; omega)]
  have h2 : slice (f :: (putLe16 l ++ buf ++ tail) ++ suffix) 3 (3 + l.toNat) = .ok buf := by
    rw [e2, hl]; exact slice_mid [f, l.toUInt8, (l >>> 8).toUInt8] buf (tail ++ suffix)
  rw [h2, hl]

private theorem decodeTerminated_spec (f : UInt8) (buf suffix : Bytes) (hn : (0 : UInt8) ∉ buf) :
    decodeTerminated f (f :: (buf ++ [0]) ++ suffix) = .ok (⟨f, UInt16.ofNat buf.length, buf⟩, buf.length + 2) := by
  unfold decodeTerminated
  have e : (f :: (buf ++ [0]) ++ suffix).drop 1 = buf ++ 0 :: suffix := by simp
  rw [e, nulIndex, nulIndexFrom_append _ _ _ hn]
  simp only [Nat.zero_add]
  have h2 : slice (f :: (buf ++ [0]) ++ suffix) 1 (buf.length + 1) = .ok buf := by
    have := slice_mid [f] buf (0 :: suffix)
    simp only [List.length_cons, List.length_nil] at this
    rw [Nat.add_comm]; simpa using this
  rw [h2]

private theorem decode_cons (f : UInt8) (rest : Bytes) :
    decode (f :: rest) =
      if f = 1 then decodeCounted f (f :: rest) 0
      else if f = 2 then decodeTerminated f (f :: rest)
      else if f = 3 then decodeCounted f (f :: rest) 1
      else if f = 4 then decodeTerminated f (f :: rest)
      else if f = 5 then decodeCounted f (f :: rest) 0
      else .err := by
  simp [decode, index]

/-- **Marshal leaves a value of the domain unchanged** (the only field it writes, `Length`, already
    equals `len(Buffer)`). -/
theorem marshal_dom (s : V) (h : Dom s) : ∃ bs, marshal s = .ok (bs, s) := by
  obtain ⟨f, l, buf⟩ := s
  obtain ⟨hf, hle, hl, _⟩ := h
  simp only at hf hle hl
  have hof := ofNat_len l _ hl
  have hnot : ¬ buf.length > 65535 := by omega
  rcases hf with rfl | rfl | rfl | rfl | rfl <;> simp [marshal, hof, hnot]

/-- **SMB_STRING, all five buffer formats.**  Every string of the domain (0..65535 bytes, no NUL in
    the NUL-terminated formats 0x02/0x04) marshals to `wireSize` bytes and is decoded back, from in
    front of any suffix, to the same format, length and bytes, consuming exactly `wireSize`. -/
theorem rt (s : V) (h : Dom s) (suffix : Bytes) :
    ∃ bs, encode s = .ok bs ∧ bs.length = wireSize s ∧ decode (bs ++ suffix) = .ok (s, wireSize s) := by
  obtain ⟨f, l, buf⟩ := s
  obtain ⟨hf, hle, hl, hnul⟩ := h
  simp only at hf hle hl hnul
  have hof := ofNat_len l _ hl
  have hnot : ¬ buf.length > 65535 := by omega
  rcases hf with rfl | rfl | rfl | rfl | rfl
  · refine ⟨1 :: (putLe16 l ++ buf), by simp [encode, marshal, Outcome.map', hof, hnot],
      by simp [wireSize, putLe16]; omega, ?_⟩
    have := decodeCounted_spec 1 l buf [] suffix 0 hl rfl
    simp only [List.append_nil] at this
    rw [List.cons_append, decode_cons, if_pos rfl, ← List.cons_append, this]
    simp [wireSize]; omega
  · have hn := hnul (Or.inl rfl)
    refine ⟨2 :: (buf ++ [0]), by simp [encode, marshal, Outcome.map'], by simp [wireSize]; omega, ?_⟩
    rw [List.cons_append, decode_cons, if_neg (by decide), if_pos rfl, ← List.cons_append,
      decodeTerminated_spec 2 buf suffix hn, hof]
    simp [wireSize]; omega
  · refine ⟨3 :: (putLe16 l ++ buf ++ [0]), by simp [encode, marshal, Outcome.map', hof, hnot],
      by simp [wireSize, putLe16]; omega, ?_⟩
    rw [List.cons_append, decode_cons, if_neg (by decide), if_neg (by decide), if_pos rfl, ← List.cons_append,
      decodeCounted_spec 3 l buf [0] suffix 1 hl rfl]
    simp [wireSize]; omega
  · have hn := hnul (Or.inr rfl)
    refine ⟨4 :: (buf ++ [0]), by simp [encode, marshal, Outcome.map'], by simp [wireSize]; omega, ?_⟩
    rw [List.cons_append, decode_cons, if_neg (by decide), if_neg (by decide), if_neg (by decide), if_pos rfl,
      ← List.cons_append, decodeTerminated_spec 4 buf suffix hn, hof]
    simp [wireSize]; omega
  · refine ⟨5 :: (putLe16 l ++ buf), by simp [encode, marshal, Outcome.map', hof, hnot],
      by simp [wireSize, putLe16]; omega, ?_⟩
    have := decodeCounted_spec 5 l buf [] suffix 0 hl rfl
    simp only [List.append_nil] at this
    rw [List.cons_append, decode_cons, if_neg (by decide), if_neg (by decide), if_neg (by decide),
      if_neg (by decide), if_pos rfl, ← List.cons_append, this]
    simp [wireSize]; omega

end SmbString

/-! ## OEM_STRING -/
namespace OemString

/-- Marshal leaves a value of the domain unchanged (the format byte it forces is already 0x04). -/
theorem marshal_dom (s : V) (h : Dom s) : ∃ bs, marshal s = .ok (bs, s) := by
  obtain ⟨hf, hd⟩ := h
  have : ({ s with format := 4 } : V) = s := by cases s; simp_all
  unfold marshal
  rw [this]
  exact SmbString.marshal_dom s hd

/-- **OEM_STRING** (format 0x04, NUL-terminated): all NUL-free strings of 0..65535 bytes, all suffixes. -/
theorem rt (s : V) (h : Dom s) (suffix : Bytes) :
    ∃ bs, encode s = .ok bs ∧ bs.length = wireSize s ∧ decode (bs ++ suffix) = .ok (s, wireSize s) := by
  obtain ⟨hf, hd⟩ := h
  have e : ({ s with format := 4 } : V) = s := by cases s; simp_all
  obtain ⟨bs, h1, h2, h3⟩ := SmbString.rt s hd suffix
  have hw : SmbString.wireSize s = wireSize s := by simp [SmbString.wireSize, wireSize, hf]; omega
  refine ⟨bs, ?_, by rw [h2, hw], by rw [decode, h3, hw]⟩
  simpa [encode, marshal, e, SmbString.encode] using h1

end OemString

/-! ## SMB_DATE -/
namespace SmbDate

private theorem mask7 (y : UInt16) (h : y.toNat < 128) : y &&& 0x7F = y := by
  apply UInt16.toNat_inj.mp
  rw [UInt16.toNat_and]
  have : (0x7F : UInt16).toNat = 2 ^ 7 - 1 := by decide
  rw [this, Nat.and_two_pow_sub_one_eq_mod, Nat.mod_eq_of_lt (by simpa using h)]

private theorem mask4 (y : UInt8) (h : y.toNat < 16) : y &&& 0x0F = y := by
  apply UInt8.toNat_inj.mp
  rw [UInt8.toNat_and]
  have : (0x0F : UInt8).toNat = 2 ^ 4 - 1 := by decide
  rw [this, Nat.and_two_pow_sub_one_eq_mod, Nat.mod_eq_of_lt (by simpa using h)]

private theorem mask5 (y : UInt8) (h : y.toNat < 32) : y &&& 0x1F = y := by
  apply UInt8.toNat_inj.mp
  rw [UInt8.toNat_and]
  have : (0x1F : UInt8).toNat = 2 ^ 5 - 1 := by decide
  rw [this, Nat.and_two_pow_sub_one_eq_mod, Nat.mod_eq_of_lt (by simpa using h)]

/-- the three bit fields do not overlap (stated with the field widths as masks, so that it is an
    unconditional bit-vector identity) -/
private theorem fields_bits (y : UInt16) (m d : UInt8) :
    let w := ((y &&& 0x7F) <<< 9) ||| ((m &&& 0x0F).toUInt16 <<< 5) ||| (d &&& 0x1F).toUInt16
    (w &&& 0xFE00) >>> 9 = y &&& 0x7F ∧ ((w &&& 0x01E0) >>> 5).toUInt8 = m &&& 0x0F ∧
      (w &&& 0x001F).toUInt8 = d &&& 0x1F := by
  intro w
  refine ⟨?_, ?_, ?_⟩
  · apply UInt16.eq_of_toBitVec_eq
    simp only [w, UInt16.toBitVec_or, UInt16.toBitVec_shiftLeft, UInt16.toBitVec_and, UInt8.toBitVec_toUInt16,
      UInt8.toBitVec_and, UInt16.toBitVec_shiftRight, UInt16.toBitVec_ofNat, UInt8.toBitVec_ofNat]
    bv_bits16
  · apply UInt8.eq_of_toBitVec_eq
    simp only [w, UInt16.toBitVec_or, UInt16.toBitVec_shiftLeft, UInt16.toBitVec_and, UInt8.toBitVec_toUInt16,
      UInt8.toBitVec_and, UInt16.toBitVec_toUInt8, UInt16.toBitVec_shiftRight, UInt16.toBitVec_ofNat, UInt8.toBitVec_ofNat]
    bv_bits8
  · apply UInt8.eq_of_toBitVec_eq
    simp only [w, UInt16.toBitVec_or, UInt16.toBitVec_shiftLeft, UInt16.toBitVec_and, UInt8.toBitVec_toUInt16,
      UInt8.toBitVec_and, UInt16.toBitVec_toUInt8, UInt16.toBitVec_ofNat, UInt8.toBitVec_ofNat]
    bv_bits8

/-- **Every date of the domain survives packing**: years 1980..2107, months 0..15, days 0..31
    (all 65536 combinations — exactly the 16-bit words, see `smb_date_all_words`). -/
theorem unpack_pack (d : V) (h : Dom d) : unpack (pack d) = d := by
  obtain ⟨y, m, dd⟩ := d
  obtain ⟨h1, h2, h3, h4⟩ := h
  simp only at h1 h2 h3 h4
  have hy : (y - 1980).toNat < 128 := by
    rw [UInt16.toNat_sub_of_le _ _ (by rw [UInt16.le_iff_toNat_le]; simpa using h1)]
    simp; omega
  have e := fields_bits (y - 1980) m dd
  simp only [mask7 _ hy, mask4 _ h3, mask5 _ h4] at e
  obtain ⟨e1, e2, e3⟩ := e
  simp only [unpack, pack, e1, e2, e3, UInt16.sub_add_cancel]

/-- the decoder reads the first two bytes as a little-endian word, whatever follows -/
private theorem decode_word (w : UInt16) (suffix : Bytes) :
    decode (putLe16 w ++ suffix) = .ok (unpack w, 2) := by
  simp [decode, rdLe16, slice, putLe16, le16_bytes]

/-- **SMB_DATE**: all dates of the domain, all suffixes. -/
theorem rt (d : V) (h : Dom d) (suffix : Bytes) :
    ∃ bs, encode d = .ok bs ∧ bs.length = wireSize d ∧ decode (bs ++ suffix) = .ok (d, wireSize d) := by
  refine ⟨putLe16 (pack d), rfl, rfl, ?_⟩
  rw [decode_word, unpack_pack d h]; rfl

/-- every 16-bit word decodes to a date of the domain (so the domain is exactly the 65536 words) -/
theorem unpack_dom (w : UInt16) : Dom (unpack w) := by
  have hy : ((w &&& 0xFE00) >>> 9).toNat < 128 := by
    rw [UInt16.toNat_shiftRight, UInt16.toNat_and]
    have : (0xFE00 : UInt16).toNat = 65024 := by decide
    have h2 : (9 : UInt16).toNat % 16 = 9 := by decide
    rw [this, h2, Nat.shiftRight_eq_div_pow]
    have := @Nat.and_le_right w.toNat 65024
    omega
  have hm : (((w &&& 0x01E0) >>> 5).toUInt8).toNat < 16 := by
    rw [UInt16.toNat_toUInt8, UInt16.toNat_shiftRight, UInt16.toNat_and]
    have : (0x01E0 : UInt16).toNat = 480 := by decide
    have h2 : (5 : UInt16).toNat % 16 = 5 := by decide
    rw [this, h2, Nat.shiftRight_eq_div_pow]
    have := @Nat.and_le_right w.toNat 480
    omega
  have hd : ((w &&& 0x001F).toUInt8).toNat < 32 := by
    rw [UInt16.toNat_toUInt8, UInt16.toNat_and]
    have : (0x001F : UInt16).toNat = 31 := by decide
    rw [this]
    have := @Nat.and_le_right w.toNat 31
    omega
  refine ⟨?_, ?_, hm, hd⟩
  · simp only [unpack]
    rw [UInt16.toNat_add]; simp only [UInt16.reduceToNat] at *; omega
  · simp only [unpack]
    rw [UInt16.toNat_add]; simp only [UInt16.reduceToNat] at *; omega

end SmbDate

/-- **All 65536 packed dates**: packing the fields a word unpacks to gives the word back
    (bit-extensionality over all 16 bits; no sampling). -/
theorem smb_date_all_words (w : UInt16) : SmbDate.pack (SmbDate.unpack w) = w := by
  simp only [SmbDate.pack, SmbDate.unpack, UInt16.add_sub_cancel]
  apply UInt16.eq_of_toBitVec_eq
  simp only [UInt16.toBitVec_or, UInt16.toBitVec_shiftLeft, UInt16.toBitVec_and, UInt8.toBitVec_toUInt16,
    UInt16.toBitVec_toUInt8, UInt16.toBitVec_shiftRight, UInt16.toBitVec_ofNat]
  bv_bits16

/-! ## FILETIME, lock ranges, attribute word, AndX block, NTLM version: fixed layouts -/

/-- **FILETIME** wire codec: all values, all suffixes. -/
theorem FileTime.rt (t : FileTime.V) (_h : FileTime.Dom t) (suffix : Bytes) :
    ∃ bs, FileTime.encode t = .ok bs ∧ bs.length = FileTime.wireSize t ∧
      FileTime.decode (bs ++ suffix) = .ok (t, FileTime.wireSize t) := by
  refine ⟨_, rfl, rfl, ?_⟩
  simp [FileTime.decode, rdLe32, slice, putLe32, le32_bytes, FileTime.wireSize]

/-- **LOCKING_ANDX_RANGE32**: all values, all suffixes. -/
theorem Range32.rt (r : Range32.V) (_h : Range32.Dom r) (suffix : Bytes) :
    ∃ bs, Range32.encode r = .ok bs ∧ bs.length = Range32.wireSize r ∧
      Range32.decode (bs ++ suffix) = .ok (r, Range32.wireSize r) := by
  refine ⟨_, rfl, rfl, ?_⟩
  simp [Range32.decode, rdLe32, rdLe16, slice, putLe32, putLe16, le32_bytes, le16_bytes, Range32.wireSize]

/-- **LOCKING_ANDX_RANGE64**: all values, all suffixes. -/
theorem Range64.rt (r : Range64.V) (_h : Range64.Dom r) (suffix : Bytes) :
    ∃ bs, Range64.encode r = .ok bs ∧ bs.length = Range64.wireSize r ∧
      Range64.decode (bs ++ suffix) = .ok (r, Range64.wireSize r) := by
  refine ⟨_, rfl, rfl, ?_⟩
  simp [Range64.decode, rdLe32, rdLe16, slice, putLe32, putLe16, le32_bytes, le16_bytes, Range64.wireSize]

/-- **SMB_FILE_ATTRIBUTES**: all values, all suffixes. -/
theorem FileAttributes.rt (a : FileAttributes.V) (_h : FileAttributes.Dom a) (suffix : Bytes) :
    ∃ bs, FileAttributes.encode a = .ok bs ∧ bs.length = FileAttributes.wireSize a ∧
      FileAttributes.decode (bs ++ suffix) = .ok (a, FileAttributes.wireSize a) := by
  refine ⟨_, rfl, rfl, ?_⟩
  simp [FileAttributes.decode, rdBe16, slice, putBe16, be16_bytes, FileAttributes.wireSize]

/-- **AndX block**: all values, all suffixes. -/
theorem AndX.rt (a : AndX.V) (_h : AndX.Dom a) (suffix : Bytes) :
    ∃ bs, AndX.encode a = .ok bs ∧ bs.length = AndX.wireSize a ∧
      AndX.decode (bs ++ suffix) = .ok (a, AndX.wireSize a) := by
  refine ⟨_, rfl, rfl, ?_⟩
  simp [AndX.decode, rdBe16, slice, index, putBe16, be16_bytes, AndX.wireSize]

/-- **NTLM Version**: all values, all suffixes. -/
theorem Version.rt (v : Version.V) (h : Version.Dom v) (suffix : Bytes) :
    ∃ bs, Version.encode v = .ok bs ∧ bs.length = Version.wireSize v ∧
      Version.decode (bs ++ suffix) = .ok (v, Version.wireSize v) := by
  obtain ⟨a, b, c, r, n⟩ := v
  simp only [Version.Dom] at h
  match r, h with
  | [r0, r1, r2], _ =>
    refine ⟨_, rfl, rfl, ?_⟩
    simp [Version.decode, rdLe16, slice, index, putLe16, le16_bytes, Version.wireSize]

/-! ## SMB_NMPIPE_STATUS -/
namespace PipeStatus

/-
  FULL STATEMENT (not provable on this tree: finding `nmpipe_trailing`; the suite pins the
  behaviour in TestSMB_NMPIPE_STATUS_Unmarshal "Invalid data length (too long)", so it is recorded,
  not repaired):

    theorem rt (s : V) (h : Dom s) (suffix : Bytes) :
      ∃ bs, encode s = .ok bs ∧ bs.length = wireSize s ∧ decode (bs ++ suffix) = .ok (s, wireSize s)
-/

/-- **SMB_NMPIPE_STATUS, outside the finding**: all values, decoded from a buffer that ends with
    the encoding (`¬ KnownBad_nmpipe_trailing suffix`, i.e. the empty suffix). -/
theorem rt_partial (s : V) (_h : Dom s) (suffix : Bytes) (hs : ¬ KnownBad_nmpipe_trailing suffix) :
    ∃ bs, encode s = .ok bs ∧ bs.length = wireSize s ∧ decode (bs ++ suffix) = .ok (s, wireSize s) := by
  have : suffix = [] := by simpa [KnownBad_nmpipe_trailing] using hs
  subst this
  refine ⟨_, rfl, rfl, ?_⟩
  simp [decode, index, wireSize]

/-- **The finding, at a witness**: `05 81` followed by one byte `00` is rejected. -/
theorem rt_counterexample_nmpipe_trailing :
    ¬ (∀ (s : V) (suffix : Bytes), Dom s →
        ∃ bs, encode s = .ok bs ∧ bs.length = wireSize s ∧ decode (bs ++ suffix) = .ok (s, wireSize s)) := by
  intro h
  obtain ⟨bs, h1, _, h3⟩ := h ⟨5, 0x81⟩ [0] trivial
  simp only [encode, Outcome.ok.injEq] at h1
  subst h1
  exact absurd h3 (by decide)

/-- inside the finding the decoder always fails (so the finding is exactly "trailing bytes") -/
theorem trailing_is_error (s : V) (suffix : Bytes) (hs : KnownBad_nmpipe_trailing suffix) :
    decode ([s.icount, s.flags] ++ suffix) = .err := by
  have : suffix.length ≠ 0 := by
    intro e; exact hs (List.eq_nil_of_length_eq_zero e)
  simp only [decode, List.cons_append, List.nil_append, List.length_cons]
  rw [if_pos (by omega)]

end PipeStatus

/-- **All 65536 pipe-status words**: the two bytes `(ICount, Flags)` a word splits into pack back
    to the word. -/
theorem pipe_status_all_words (w : UInt16) : PipeStatus.packWord (PipeStatus.unpackWord w) = w :=
  le16_bytes w

/-- and every `(ICount, Flags)` pair is the split of its word -/
theorem pipe_status_all_pairs (s : PipeStatus.V) : PipeStatus.unpackWord (PipeStatus.packWord s) = s := by
  have := putLe16_le16 s.icount s.flags
  simp only [putLe16, List.cons.injEq, and_true] at this
  cases s
  simp only [PipeStatus.unpackWord, PipeStatus.packWord] at *
  simp [this.1, this.2]

/-! ## SMB_RESUME_KEY -/
namespace ResumeKey

/-- **SMB_RESUME_KEY, from any receiver state**: for all field values (arrays of their Go sizes),
    whatever the embedded string held before, `Marshal` leaves the receiver as `norm r`, emits 24
    bytes, and `Unmarshal` reads exactly that state back from in front of any suffix. -/
theorem rt_norm (r : V) (h : WF r) (suffix : Bytes) :
    ∃ bs, marshal r = .ok (bs, norm r) ∧ bs.length = wireSize r ∧
      decode (bs ++ suffix) = .ok (norm r, wireSize r) := by
  obtain ⟨s, res, ss, cs⟩ := r
  obtain ⟨h1, h2⟩ := h
  simp only at h1 h2
  obtain ⟨a0, a1, a2, a3, a4, a5, a6, a7, a8, a9, a10, a11, a12, a13, a14, a15, rfl⟩ := len16 ss h1
  obtain ⟨c0, c1, c2, c3, rfl⟩ := len4 cs h2
  refine ⟨5 :: 21 :: 0 :: [res, a0, a1, a2, a3, a4, a5, a6, a7, a8, a9, a10, a11, a12, a13, a14, a15, c0, c1, c2, c3],
    ?_, rfl, ?_⟩
  · simp [marshal, norm, SmbString.marshal, putLe16]
    decide
  · simp +arith [decode, SmbString.decode, SmbString.decodeCounted, index, rdLe16, slice, norm, wireSize, le16]

private theorem norm_dom (r : V) (h : Dom r) : norm r = r := by
  obtain ⟨s, res, ss, cs⟩ := r
  obtain ⟨⟨h1, h2⟩, h3⟩ := h
  simp only at h1 h2 h3
  subst h3
  simp [norm, h1, h2]

/-- **SMB_RESUME_KEY**: all values of the domain, all suffixes. -/
theorem rt (r : V) (h : Dom r) (suffix : Bytes) :
    ∃ bs, encode r = .ok bs ∧ bs.length = wireSize r ∧ decode (bs ++ suffix) = .ok (r, wireSize r) := by
  obtain ⟨bs, h1, h2, h3⟩ := rt_norm r h.1 suffix
  rw [norm_dom r h] at h1 h3
  exact ⟨bs, by simp [encode, h1, Outcome.map'], h2, h3⟩

end ResumeKey

/-! ## SMB_DIRECTORY_INFORMATION -/
namespace DirInfo

private theorem padName_len (n : Bytes) (h : n.length ≤ 12) : (padName n).length = 12 := by
  simp [padName]; omega

private theorem padName_nonul (n : Bytes) (h : (0 : UInt8) ∉ n) : (0 : UInt8) ∉ padName n := by
  simp only [padName, List.mem_append, List.mem_replicate]
  rintro (h' | ⟨_, h'⟩)
  · exact h h'
  · exact absurd h' (by decide)

/-- **SMB_DIRECTORY_INFORMATION, file names modulo space padding**: for every entry whose name has
    at most 12 bytes and no NUL (dates in the SMB_DATE domain), `Marshal` leaves the receiver as
    `norm d` (name padded with spaces to 12, embedded strings in step), emits 53 bytes, and
    `Unmarshal` reads exactly that state back from in front of any suffix, consuming 53. -/
theorem rt_norm (d : V) (h : WF d) (suffix : Bytes) :
    ∃ bs, marshal d = .ok (bs, norm d) ∧ bs.length = wireSize d ∧
      decode (bs ++ suffix) = .ok (norm d, wireSize d) := by
  obtain ⟨rk, attr, t, dt, size, fn⟩ := d
  obtain ⟨hrk, hdt, hlen, hnul⟩ := h
  simp only at hrk hdt hlen hnul
  obtain ⟨s, res, ss, cs⟩ := rk
  obtain ⟨h1, h2⟩ := hrk
  simp only at h1 h2
  obtain ⟨a0, a1, a2, a3, a4, a5, a6, a7, a8, a9, a10, a11, a12, a13, a14, a15, rfl⟩ := len16 ss h1
  obtain ⟨c0, c1, c2, c3, rfl⟩ := len4 cs h2
  have hp1 := padName_len fn.buffer hlen
  have hp2 := padName_nonul fn.buffer hnul
  have hgt : ¬ fn.buffer.length > 12 := by omega
  have hup := SmbDate.unpack_pack dt hdt
  simp only [marshal, norm, ResumeKey.norm]
  generalize padName fn.buffer = name at hp1 hp2
  obtain ⟨n0, n1, n2, n3, n4, n5, n6, n7, n8, n9, n10, n11, rfl⟩ := len12 name hp1
  simp only [List.mem_cons, List.not_mem_nil, or_false, not_or] at hp2
  obtain ⟨z0, z1, z2, z3, z4, z5, z6, z7, z8, z9, z10, z11⟩ := hp2
  refine ⟨[5, 21, 0, res, a0, a1, a2, a3, a4, a5, a6, a7, a8, a9, a10, a11, a12, a13, a14, a15, c0, c1, c2, c3, attr]
      ++ putLe32 t.low ++ putLe32 t.high ++ putLe16 (SmbDate.pack dt) ++ putLe32 size
      ++ [4, n0, n1, n2, n3, n4, n5, n6, n7, n8, n9, n10, n11, 0], ?_, ?_, ?_⟩
  · simp [ResumeKey.marshal, SmbString.marshal, OemString.marshal, FileTime.encode, SmbDate.encode, hgt, putLe16]
    decide
  · simp [putLe16, putLe32, wireSize]
  · simp +arith [decode, sliceFrom, ResumeKey.decode, SmbString.decode, SmbString.decodeCounted,
      SmbString.decodeTerminated, OemString.decode, FileTime.decode, SmbDate.decode, nulIndex, nulIndexFrom,
      index, rdLe16, rdLe32, slice, wireSize, putLe16, putLe32, le32_bytes, le16_bytes, hup,
      show le16 21 0 = 21 from by decide,
      Ne.symm z0, Ne.symm z1, Ne.symm z2, Ne.symm z3, Ne.symm z4, Ne.symm z5, Ne.symm z6, Ne.symm z7,
      Ne.symm z8, Ne.symm z9, Ne.symm z10, Ne.symm z11]

private theorem norm_dom (d : V) (h : Dom d) : norm d = d := by
  obtain ⟨rk, attr, t, dt, size, ⟨f, l, nb⟩⟩ := d
  obtain ⟨hrk, _, hf, hl, hb, _⟩ := h
  simp only at hrk hf hl hb
  subst hf hl
  have hpad : padName nb = nb := by simp [padName, hb]
  obtain ⟨s, res, ss, cs⟩ := rk
  obtain ⟨⟨h1, h2⟩, h3⟩ := hrk
  simp only at h1 h2 h3
  subst h3
  simp [norm, ResumeKey.norm, hpad, hb, h1, h2]

private theorem dom_wf (d : V) (h : Dom d) : WF d :=
  ⟨h.1.1, h.2.1, by have := h.2.2.2.2.1; omega, h.2.2.2.2.2⟩

/-- **SMB_DIRECTORY_INFORMATION**: all values of the domain (12-byte space-padded NUL-free name),
    all suffixes. -/
theorem rt (d : V) (h : Dom d) (suffix : Bytes) :
    ∃ bs, encode d = .ok bs ∧ bs.length = wireSize d ∧ decode (bs ++ suffix) = .ok (d, wireSize d) := by
  obtain ⟨bs, h1, h2, h3⟩ := rt_norm d (dom_wf d h) suffix
  rw [norm_dom d h] at h1 h3
  exact ⟨bs, by simp [encode, h1, Outcome.map'], h2, h3⟩

end DirInfo

/-! ## Parameters block -/
namespace Parameters

private theorem flat_len (l : List UInt16) : (l.flatMap putBe16).length = 2 * l.length := by
  induction l with
  | nil => rfl
  | cons x xs ih => simp [List.flatMap_cons, putBe16, ih]; omega

private theorem readWords_spec (suffix : Bytes) : ∀ (ws done : List UInt16),
    readWords ((done ++ ws).flatMap putBe16 ++ suffix) done.length ws.length = .ok ws := by
  intro ws
  induction ws with
  | nil => intro done; rfl
  | cons w ws ih =>
    intro done
    have hread : rdBe16 ((done ++ w :: ws).flatMap putBe16 ++ suffix) (done.length * 2) = .ok w := by
      have e : (done ++ w :: ws).flatMap putBe16 ++ suffix
          = done.flatMap putBe16 ++ (w >>> 8).toUInt8 :: w.toUInt8 :: (ws.flatMap putBe16 ++ suffix) := by
        simp [List.flatMap_append, putBe16]
      have hl : (done.flatMap putBe16).length = done.length * 2 := by rw [flat_len]; omega
      rw [e, ← hl, rdBe16_at, be16_bytes]
    have := ih (done ++ [w])
    simp only [List.length_append, List.length_cons, List.length_nil, List.append_assoc,
      List.cons_append, List.nil_append] at this
    simp only [readWords, List.length_cons, hread, this]

/-- **Parameters block**: every word list of 0..255 words with `WordCount` in step, all suffixes. -/
theorem rt (p : V) (h : Dom p) (suffix : Bytes) :
    ∃ bs, encode p = .ok bs ∧ bs.length = wireSize p ∧ decode (bs ++ suffix) = .ok (p, wireSize p) := by
  obtain ⟨wc, ws⟩ := p
  obtain ⟨hle, hwc⟩ := h
  simp only at hle hwc
  have hof : UInt8.ofNat ws.length = wc := by rw [← hwc]; simp
  by_cases hz : wc > 0
  · have hfl := flat_len ws
    refine ⟨wc :: ws.flatMap putBe16, by simp [encode, hof, hz],
      by simp only [wireSize, List.length_cons, hfl]; omega, ?_⟩
    have hrw := readWords_spec suffix ws []
    simp only [List.nil_append, List.length_nil] at hrw
    have hge : ¬ (ws.flatMap putBe16 ++ suffix).length < ws.length * 2 := by
      simp only [List.length_append, hfl]; omega
    simp only [decode, List.cons_append, List.length_cons, Nat.succ_ne_zero,
      if_false, index, List.getElem?_cons_zero, sliceFrom, Nat.le_add_left, if_true, List.drop_succ_cons,
      List.drop_zero, hz, hge, hwc, hrw, wireSize]
    congr 2; omega
  · have hwc0 : wc = 0 := by
      have : ¬ 0 < wc.toNat := by
        intro h; exact hz (UInt8.lt_iff_toNat_lt.mpr (by simpa using h))
      apply UInt8.toNat_inj.mp; simp; omega
    subst hwc0
    have hnil : ws = [] := List.eq_nil_of_length_eq_zero (by simpa using hwc.symm)
    subst hnil
    refine ⟨[0], by simp [encode], rfl, ?_⟩
    simp [decode, index, sliceFrom, wireSize]

end Parameters

/-! ## Data block -/
namespace Data

/-- **Data block**: every byte string of 0..65535 bytes with `ByteCount` in step, all suffixes. -/
theorem rt (d : V) (h : Dom d) (suffix : Bytes) :
    ∃ bs, encode d = .ok bs ∧ bs.length = wireSize d ∧ decode (bs ++ suffix) = .ok (d, wireSize d) := by
  obtain ⟨bc, bytes⟩ := d
  obtain ⟨hle, hbc⟩ := h
  simp only at hle hbc
  refine ⟨putLe16 bc ++ bytes, rfl, by simp [wireSize, putLe16]; omega, ?_⟩
  have hrd : rdLe16 (putLe16 bc ++ bytes ++ suffix) 0 = .ok bc := by
    simp [rdLe16, slice, putLe16, le16_bytes]
  have hsl : sliceFrom (putLe16 bc ++ bytes ++ suffix) 2 = .ok (bytes ++ suffix) := by
    simp [sliceFrom, putLe16]
  have hl0 : ¬ (putLe16 bc ++ bytes ++ suffix).length = 0 := by simp [putLe16]
  have hl2 : ¬ (putLe16 bc ++ bytes ++ suffix).length < 2 := by simp [putLe16]
  simp only [decode, if_neg hl0, if_neg hl2, hrd, hsl]
  by_cases hz : bc > 0
  · have hge : ¬ (bytes ++ suffix).length < bytes.length := by simp
    have hs := slice_mid [] bytes suffix
    simp only [List.nil_append, List.length_nil, Nat.zero_add] at hs
    simp only [if_pos hz, if_neg hge, hbc, hs, wireSize]
  · have hbc0 : bc = 0 := by
      have : ¬ 0 < bc.toNat := by
        intro h; exact hz (UInt16.lt_iff_toNat_lt.mpr (by simpa using h))
      apply UInt16.toNat_inj.mp; simp; omega
    subst hbc0
    have hnil : bytes = [] := List.eq_nil_of_length_eq_zero (by simpa using hbc.symm)
    subst hnil
    simp [wireSize]

end Data

/-! ### non-vacuity: the domains are inhabited, and the theorems compute on concrete values -/

example : SmbString.Dom ⟨1, 5, [104, 101, 108, 108, 111]⟩ := by decide
example : SmbString.Dom ⟨2, 10, [78, 84, 32, 76, 77, 32, 48, 46, 49, 50]⟩ := by decide
example : SmbString.Dom ⟨3, 0, []⟩ := by decide
example : ¬ SmbString.Dom ⟨4, 3, [65, 0, 66]⟩ := by decide
example : SmbString.decode ([5, 2, 0, 65, 66] ++ [9, 9]) = .ok (⟨5, 2, [65, 66]⟩, 5) := by decide
example : SmbString.decode [5, 10, 0, 1] = .err := by decide       -- was a panic before the repair
example : SmbString.decode [3, 2, 0, 65, 66] = .err := by decide    -- reported 6 of 5 bytes before
example : OemString.Dom ⟨4, 5, [65, 46, 84, 88, 84]⟩ := by decide
example : SmbDate.Dom ⟨1980, 0, 0⟩ ∧ SmbDate.Dom ⟨2107, 15, 31⟩ ∧ ¬ SmbDate.Dom ⟨2108, 1, 1⟩ ∧ ¬ SmbDate.Dom ⟨1979, 1, 1⟩ := by decide
example : SmbDate.encode ⟨2024, 5, 17⟩ = .ok [0xB1, 0x58] := by decide
example : ResumeKey.Dom ⟨⟨5, 21, 7 :: (List.replicate 16 1 ++ [1, 2, 3, 4])⟩, 7, List.replicate 16 1, [1, 2, 3, 4]⟩ := by decide
example : ResumeKey.WF ⟨⟨0, 0, []⟩, 0, List.replicate 16 0, List.replicate 4 0⟩ := by decide
example : DirInfo.WF ⟨⟨⟨0, 0, []⟩, 0, List.replicate 16 0, List.replicate 4 0⟩, 32, ⟨1, 2⟩, ⟨2024, 5, 17⟩, 99, ⟨0, 0, [65, 46, 84, 88, 84]⟩⟩ := by decide
example : DirInfo.Dom ⟨⟨⟨5, 21, List.replicate 21 0⟩, 0, List.replicate 16 0, List.replicate 4 0⟩, 32, ⟨1, 2⟩, ⟨2024, 5, 17⟩, 99,
    ⟨4, 12, [65, 46, 84, 88, 84, 32, 32, 32, 32, 32, 32, 32]⟩⟩ := by decide
example : Parameters.Dom ⟨2, [1, 65535]⟩ ∧ Parameters.Dom ⟨0, []⟩ ∧ ¬ Parameters.Dom ⟨3, [1]⟩ := by decide
example : Data.Dom ⟨3, [1, 2, 3]⟩ ∧ Data.Dom ⟨0, []⟩ := by decide
example : Version.Dom ⟨10, 0, 18362, [0, 0, 0], 15⟩ := by decide
example : PipeStatus.decode [5, 0x81] = .ok (⟨5, 0x81⟩, 2) ∧ PipeStatus.decode [5, 0x81, 0] = .err := by decide

end Manticore.C06
