/-
  C17 — NBNS name table keeps ownership invariants under all histories and schedules.
  Property theorems only.  Model and spec: `Manticore/Model/C17.lean`; helper lemmas: `Manticore/Lemmas/C17.lean`;
  lock facts regenerated from the source: `Manticore/Gen/NbtnsLocks.lean`.

  What is proved: everything about *histories* (any length) of the sequential model, the refinement to the
  atomic-map specification, the aliasing statement about `QueryName`'s result on the slice/heap model, the
  lock discipline of the source (extracted facts, `decide`), the correctness of the linearizability
  checker that the harness applies to recorded concurrent executions, and — `Props/C17Locks.lean` and §6
  below — that under a readers–writer lock with Go's enabling conditions EVERY interleaving of the methods'
  micro-steps, for any number of threads, is equivalent to a sequential history
  (`rwlock_mutual_exclusion`, `rwlock_serializable`, `name_table_linearizable_under_lock_discipline`).
  What is assumed (see props/C17.py, DESIGN.md §6): that `sync.RWMutex` has the enabling conditions of
  `RWLock.Lock.canAcquire` (write: nobody holds it; read: no writer holds it) and that the bodies of the Go
  methods are the micro-steps of `Model/C17Locks.lean` between the lock calls the extractor found; the Go
  memory model below that (a data race would void it — the race detector looks for one on every run).
-/
import Manticore.Lemmas.C17
import Manticore.Gen.NbtnsLocks
import Manticore.Props.C17Locks
namespace Manticore.C17
open Manticore

/-! ### 1. ownership invariant, for every history -/

/-- **Invariant, base case.**  The empty table satisfies the ownership invariant. -/
theorem inv_init : Inv init := ⟨by simp [init], by intro p hp; cases hp⟩

/-- **Invariant, step.**  Every method of the name table (register, query, release, refresh,
    conflict-marking, expiry sweep) preserves: one record per name; no record without owner; owners pairwise
    distinct; a unique name has exactly one owner. -/
theorem inv_step (s : State) (op : Op) (h : Inv s) : Inv (step s op).1 := by
  cases op with
  | register n t o past =>
    simp only [step]
    split
    · rename_i r hl
      have hr := h.2 _ (lookup_mem hl)
      split
      · rename_i hg
        split
        · exact h
        · rename_i hc
          apply inv_put h
          refine ⟨by simp, ?_, ?_⟩
          · have : o ∉ r.owners := by simpa using hc
            exact List.nodup_append.mpr ⟨hr.2.1, by simp, by
              intro a ha b hb; simp at hb; subst hb; intro e; subst e; exact this ha⟩
          · intro hu; simp [hg.1] at hu
      · split
        · exact h
        · apply inv_put h; exact ⟨by simp, by simp, by simp⟩
    · apply inv_put h; exact ⟨by simp, by simp, by simp⟩
  | query n =>
    simp only [step]
    split
    · split <;> exact h
    · exact h
  | release n o =>
    simp only [step]
    split
    · exact h
    · rename_i r hl
      have hr := h.2 _ (lookup_mem hl)
      split
      · rename_i hg
        split
        · split
          · exact inv_erase h n
          · rename_i hne
            apply inv_put h
            refine ⟨?_, ?_, ?_⟩
            · intro e; apply hne; simpa [List.isEmpty_iff] using e
            · exact hr.2.1.erase o
            · intro hu; simp [hg] at hu
        · exact h
      · split
        · split
          · exact inv_erase h n
          · exact h
        · exact h
  | refresh n o =>
    simp only [step]
    split
    · exact h
    · rename_i r hl
      split
      · apply inv_put h; exact h.2 _ (lookup_mem hl)
      · exact h
  | markConflict n =>
    simp only [step]
    split
    · exact h
    · rename_i r hl
      apply inv_put h; exact h.2 _ (lookup_mem hl)
  | clean => exact inv_filter h _

private theorem inv_run (ops : List Op) : ∀ s, Inv s → Inv (run s ops) := by
  induction ops with
  | nil => intro s h; exact h
  | cons op ops ih => intro s h; exact ih _ (inv_step s op h)

/-- **Invariant for every history.**  After any sequence of operations, of any length, starting from
    the empty table, the ownership invariant holds. -/
theorem inv_reachable (ops : List Op) : Inv (run init ops) := inv_run ops _ inv_init


/-- in every reachable table a unique name has exactly one owner -/
theorem unique_has_exactly_one_owner (ops : List Op) (n : Name) (r : Rec)
    (hl : lookup (run init ops) n = some r) (hu : r.type = .unique) : ∃ a, r.owners = [a] := by
  have hr := (inv_reachable ops).2 _ (lookup_mem hl)
  have hl1 := hr.2.2 hu
  match hro : r.owners, hl1 with
  | [a], _ => exact ⟨a, rfl⟩

/-- in every reachable table the owners of a name are pairwise distinct, and there is at least one -/
theorem owners_distinct_nonempty (ops : List Op) (n : Name) (r : Rec)
    (hl : lookup (run init ops) n = some r) : r.owners.Nodup ∧ r.owners ≠ [] :=
  let hr := (inv_reachable ops).2 _ (lookup_mem hl)
  ⟨hr.2.1, hr.1⟩

/-! ### 2. the table behaves like the atomic map of the specification -/

/-- **Refinement, one step.**  In every state satisfying the invariant, each method acts on the table
    exactly as the atomic-map specification acts on its abstraction, and returns the same result
    (a query's owner list being duplicate-free with the spec's owner set as its members). -/
theorem refines (s : State) (op : Op) (h : Inv s) :
    abs (step s op).1 = (Spec.step (abs s) op).1 ∧ OutRel (step s op).2 (Spec.step (abs s) op).2 := by
  cases op with
  | register n t o past =>
    simp only [step, Spec.step]
    have ha : abs s n = (lookup s n).map absRec := rfl
    cases hl : lookup s n with
    | none =>
      simp only [ha, hl, Option.map_none]
      refine ⟨?_, trivial⟩
      rw [abs_put]
      congr 2
      simp only [absRec, Spec.Rec.mk.injEq, true_and, and_true, List.length_cons, List.length_nil, decide_true]
      funext a; simp [Spec.single, List.contains_eq_mem]
    | some r =>
      have hr := h.2 _ (lookup_mem hl)
      simp only [ha, hl, Option.map_some]
      by_cases hg : r.type = .group ∧ t = .group
      · have hg' : (absRec r).type = .group ∧ t = .group := hg
        simp only [hg, hg', and_self, ↓reduceIte]
        by_cases hc : r.owners.contains o
        · have hc' : (absRec r).owners o = true := hc
          simp only [hc, hc', ↓reduceIte]
          exact ⟨by first | rfl | trivial, trivial⟩
        · have hc' : ¬ (absRec r).owners o = true := hc
          simp only [hc, hc', ↓reduceIte, Bool.false_eq_true]
          refine ⟨?_, trivial⟩
          rw [abs_put]
          congr 2
          simp only [absRec, Spec.Rec.mk.injEq, true_and, and_true, List.length_append, List.length_cons, List.length_nil]
          funext a; simp [Spec.insert]
      · have hg' : ¬ ((absRec r).type = .group ∧ t = .group) := hg
        simp only [hg, hg', ↓reduceIte]
        have : r.type = .unique ∨ t = .unique := by
          cases hrt : r.type <;> cases ht : t <;> simp_all
        simp only [this, ↓reduceIte]
        exact ⟨by first | rfl | trivial, trivial⟩
  | query n =>
    simp only [step, Spec.step]
    have ha : abs s n = (lookup s n).map absRec := rfl
    cases hl : lookup s n with
    | none => simp only [ha, hl, Option.map_none]; exact ⟨by first | rfl | trivial, trivial⟩
    | some r =>
      have hr := h.2 _ (lookup_mem hl)
      simp only [ha, hl, Option.map_some]
      by_cases hs : r.status = .active
      · have hs' : (absRec r).active = true := by simp [absRec, hs]
        simp only [hs, hs', ↓reduceIte]
        exact ⟨by first | rfl | trivial, rfl, hr.2.1, fun a => rfl⟩
      · have hs' : ¬ (absRec r).active = true := by simp [absRec, hs]
        simp only [hs, hs', ↓reduceIte, Bool.false_eq_true]
        exact ⟨by first | rfl | trivial, trivial⟩
  | release n o =>
    simp only [step, Spec.step]
    have ha : abs s n = (lookup s n).map absRec := rfl
    cases hl : lookup s n with
    | none => simp only [ha, hl, Option.map_none]; exact ⟨by first | rfl | trivial, trivial⟩
    | some r =>
      have hr := h.2 _ (lookup_mem hl)
      simp only [ha, hl, Option.map_some]
      by_cases hg : r.type = .group
      · simp only [hg, ↓reduceIte]
        by_cases hc : r.owners.contains o
        · have hc' : (absRec r).owners o = true := hc
          simp only [hc, hc', ↓reduceIte]
          have hmem : o ∈ r.owners := by simpa using hc
          have hlen : (r.owners.erase o).length = r.owners.length - 1 := List.length_erase_of_mem hmem
          by_cases he : (r.owners.erase o).isEmpty
          · have : (absRec r).size ≤ 1 := by
              have : (r.owners.erase o).length = 0 := by simpa [List.isEmpty_iff] using he
              simp only [absRec]; omega
            simp only [he, this, ↓reduceIte]
            exact ⟨abs_erase s n, trivial⟩
          · have : ¬ (absRec r).size ≤ 1 := by
              have : (r.owners.erase o).length ≠ 0 := by
                intro e; apply he; simpa [List.isEmpty_iff] using e
              simp only [absRec]; omega
            simp only [he, this, ↓reduceIte, Bool.false_eq_true]
            refine ⟨?_, trivial⟩
            rw [abs_put]
            congr 2
            simp only [absRec, Spec.Rec.mk.injEq, true_and, and_true, hlen]
            refine ⟨hg.symm, ?_⟩
            funext a; simp only [Spec.remove, contains_erase_nodup hr.2.1]
        · have hc' : ¬ (absRec r).owners o = true := hc
          simp only [hc, hc', ↓reduceIte, Bool.false_eq_true]
          exact ⟨by first | rfl | trivial, trivial⟩
      · have hu : r.type = .unique := by cases hrt : r.type <;> simp_all
        have hl1 := hr.2.2 hu
        simp only [hg, ↓reduceIte]
        match hro : r.owners, hl1 with
        | [o'], _ =>
          simp only
          by_cases ho : o' = o
          · have hc' : (absRec r).owners o = true := by simp [absRec, hro, ho]
            have hs : (absRec r).size ≤ 1 := by simp [absRec, hro]
            simp only [ho, hc', hs, ↓reduceIte]
            exact ⟨abs_erase s n, trivial⟩
          · have hc' : ¬ (absRec r).owners o = true := by
              simp [absRec, hro]; exact fun e => ho e.symm
            simp only [ho, hc', ↓reduceIte, Bool.false_eq_true]
            exact ⟨by first | rfl | trivial, trivial⟩
  | refresh n o =>
    simp only [step, Spec.step]
    have ha : abs s n = (lookup s n).map absRec := rfl
    cases hl : lookup s n with
    | none => simp only [ha, hl, Option.map_none]; exact ⟨by first | rfl | trivial, trivial⟩
    | some r =>
      simp only [ha, hl, Option.map_some]
      by_cases hc : r.owners.contains o
      · have hc' : (absRec r).owners o = true := hc
        simp only [hc, hc', ↓reduceIte]
        exact ⟨abs_put s n _, trivial⟩
      · have hc' : ¬ (absRec r).owners o = true := hc
        simp only [hc, hc', ↓reduceIte, Bool.false_eq_true]
        exact ⟨by first | rfl | trivial, trivial⟩
  | markConflict n =>
    simp only [step, Spec.step]
    have ha : abs s n = (lookup s n).map absRec := rfl
    cases hl : lookup s n with
    | none => simp only [ha, hl, Option.map_none]; exact ⟨by first | rfl | trivial, trivial⟩
    | some r =>
      simp only [ha, hl, Option.map_some]
      refine ⟨?_, trivial⟩
      rw [abs_put]
      rfl
  | clean =>
    simp only [step, Spec.step]
    exact ⟨abs_clean h.1, trivial⟩

/-- **Refinement, every history.**  From the empty table, the results of any sequence of calls are the
    results the atomic-map specification gives, and the final table abstracts to the spec's final map. -/
theorem refines_history (ops : List Op) :
    abs (run init ops) = Spec.run Spec.init ops ∧
    OutsRel (outputs init ops) (Spec.outputs Spec.init ops) := by
  suffices H : ∀ s, Inv s → abs (run s ops) = Spec.run (abs s) ops ∧
      OutsRel (outputs s ops) (Spec.outputs (abs s) ops) from H init inv_init
  induction ops with
  | nil => intro s _; exact ⟨rfl, trivial⟩
  | cons op ops ih =>
    intro s h
    have h1 := refines s op h
    have h2 := ih _ (inv_step s op h)
    refine ⟨?_, ?_⟩
    · simp only [run, Spec.run, List.foldl_cons] at h2 ⊢
      rw [← h1.1]
      exact h2.1
    · show OutRel _ _ ∧ OutsRel (outputs (step s op).1 ops) (Spec.outputs (Spec.step (abs s) op).1 ops)
      rw [← h1.1]
      exact ⟨h1.2, h2.2⟩

/-- **No call panics** in a reachable state (in particular `record.Owners[0]` in `ReleaseName` is in
    range: it is guarded only by the invariant, not by a length check). -/
theorem no_panic_reachable (ops : List Op) (op : Op) : (step (run init ops) op).2 ≠ .panic := by
  intro hp
  have := (refines (run init ops) op (inv_reachable ops)).2
  rw [hp] at this
  cases hs : (Spec.step (abs (run init ops)) op).2 <;> simp [OutRel] at this

/-- **Owners = registered and not released.**  Whether address `a` holds name `m` is changed by no call
    other than `a`'s own registration or release of `m` (and the expiry sweep): not by other
    addresses' calls, other names' calls, queries, refreshes or conflict-marking. -/
theorem holds_frame (s : State) (op : Op) (m : Name) (a : IP) (h : Inv s)
    (hc : op ≠ .clean) (hr : ∀ t p, op ≠ .register m t a p) (hl : op ≠ .release m a) :
    Holds (step s op).1 m a ↔ Holds s m a := by
  cases op with
  | clean => exact absurd rfl hc
  | query n =>
    simp only [step]
    split
    · split <;> exact Iff.rfl
    · exact Iff.rfl
  | markConflict n =>
    simp only [step]
    cases hlk : lookup s n with
    | none => exact Iff.rfl
    | some r =>
      simp only
      rw [holds_put]
      split
      · rename_i e; subst e; exact (holds_of_lookup hlk a).symm
      · exact Iff.rfl
  | refresh n o =>
    simp only [step]
    cases hlk : lookup s n with
    | none => exact Iff.rfl
    | some r =>
      simp only
      split
      · rw [holds_put]
        split
        · rename_i e; subst e; exact (holds_of_lookup hlk a).symm
        · exact Iff.rfl
      · exact Iff.rfl
  | register n t o past =>
    have hne : ¬ (m = n ∧ a = o) := by
      rintro ⟨rfl, rfl⟩; exact hr t past rfl
    simp only [step]
    cases hlk : lookup s n with
    | none =>
      simp only
      rw [holds_put]
      split
      · rename_i e; subst e
        have : a ≠ o := fun e => hne ⟨rfl, e⟩
        simp [this, not_holds_of_none hlk]
      · exact Iff.rfl
    | some r =>
      simp only
      split
      · split
        · exact Iff.rfl
        · rw [holds_put]
          split
          · rename_i e; subst e
            have : a ≠ o := fun e => hne ⟨rfl, e⟩
            rw [holds_of_lookup hlk]
            simp [this]
          · exact Iff.rfl
      · rename_i hg
        split
        · exact Iff.rfl
        · rename_i hu
          exfalso
          cases hrt : r.type <;> cases ht : t <;> simp_all
  | release n o =>
    have hne : ¬ (m = n ∧ a = o) := by
      rintro ⟨rfl, rfl⟩; exact hl rfl
    simp only [step]
    cases hlk : lookup s n with
    | none => exact Iff.rfl
    | some r =>
      have hrk := h.2 _ (lookup_mem hlk)
      simp only
      split
      · split
        · rename_i hg hc'
          have hmem : o ∈ r.owners := by simpa using hc'
          split
          · rename_i he
            rw [holds_erase]
            split
            · rename_i e; subst e
              have hao : a ≠ o := fun e => hne ⟨rfl, e⟩
              rw [holds_of_lookup hlk]
              have : ¬ a ∈ r.owners := by
                intro ha
                have h1 : a ∈ r.owners.erase o := (hrk.2.1.mem_erase_iff).mpr ⟨hao, ha⟩
                have h2 : r.owners.erase o = [] := by simpa [List.isEmpty_iff] using he
                rw [h2] at h1; cases h1
              simp [this]
            · exact Iff.rfl
          · rw [holds_put]
            split
            · rename_i e; subst e
              have hao : a ≠ o := fun e => hne ⟨rfl, e⟩
              rw [holds_of_lookup hlk]
              simp only
              rw [hrk.2.1.mem_erase_iff]
              simp [hao]
            · exact Iff.rfl
        · exact Iff.rfl
      · rename_i hg
        have hu : r.type = .unique := by cases hrt : r.type <;> simp_all
        have hl1 := hrk.2.2 hu
        match hro : r.owners, hl1 with
        | [o'], _ =>
          simp only
          split
          · rename_i e; subst e
            rw [holds_erase]
            split
            · rename_i e; subst e
              have hao : a ≠ o' := fun e => hne ⟨rfl, e⟩
              rw [holds_of_lookup hlk, hro]
              simp [hao]
            · exact Iff.rfl
          · exact Iff.rfl

/-- a successful registration makes the registrant a holder -/
theorem register_ok_holds (s : State) (n : Name) (t : NameType) (o : IP) (past : Bool)
    (hok : (step s (.register n t o past)).2 = .ok) : Holds (step s (.register n t o past)).1 n o := by
  simp only [step] at hok ⊢
  cases hlk : lookup s n with
  | none => simp only; rw [holds_put]; simp
  | some r =>
    simp only [hlk] at hok ⊢
    split
    · split
      · rename_i hc; exact (holds_of_lookup hlk o).mpr (by simpa using hc)
      · rw [holds_put]; simp
    · rename_i hg
      rw [if_neg hg] at hok
      split
      · rename_i hu; rw [if_pos hu] at hok; cases hok
      · rw [holds_put]; simp

/-- after a successful release the releasing address no longer holds the name -/
theorem release_ok_not_holds (s : State) (n : Name) (o : IP) (h : Inv s)
    (hok : (step s (.release n o)).2 = .ok) : ¬ Holds (step s (.release n o)).1 n o := by
  simp only [step] at hok ⊢
  cases hlk : lookup s n with
  | none => simp [hlk] at hok
  | some r =>
    have hrk := h.2 _ (lookup_mem hlk)
    simp only [hlk] at hok ⊢
    split
    · rename_i hg
      rw [if_pos hg] at hok
      split
      · split
        · rw [holds_erase]; simp
        · rw [holds_put]; simp only [↓reduceIte]
          exact fun hm => ((hrk.2.1.mem_erase_iff).mp hm).1 rfl
      · rename_i hc; rw [if_neg hc] at hok; cases hok
    · rename_i hg
      rw [if_neg hg] at hok
      split
      · rename_i o' rest hro
        simp only [hro] at hok
        split
        · rw [holds_erase]; simp
        · rename_i hne; rw [if_neg hne] at hok; cases hok
      · rename_i hro; simp only [hro] at hok; cases hok
/-- **A unique name is held by one address at a time.**  While a unique name is held by `a`, every call
    except `a`'s own release (and the expiry sweep) leaves it a unique name held by exactly `a`. -/
theorem unique_no_takeover (s : State) (op : Op) (n : Name) (r : Rec) (a : IP) (h : Inv s)
    (hlk : lookup s n = some r) (hu : r.type = .unique) (ha : a ∈ r.owners)
    (hc : op ≠ .clean) (hl : op ≠ .release n a) :
    ∃ r', lookup (step s op).1 n = some r' ∧ r'.type = .unique ∧ r'.owners = [a] := by
  have hrk := h.2 _ (lookup_mem hlk)
  have hown : r.owners = [a] := by
    have hl1 := hrk.2.2 hu
    match hro : r.owners, hl1 with
    | [o'], _ => rw [hro] at ha; simp at ha; rw [ha]
  by_cases ht : op.target = some n
  · cases op with
    | clean => exact absurd rfl hc
    | register n' t o past =>
      simp only [Op.target, Option.some.injEq] at ht; subst ht
      simp only [step, hlk]
      rw [if_neg (by simp [hu]), if_pos (Or.inl hu)]
      exact ⟨r, hlk, hu, hown⟩
    | query n' =>
      simp only [Op.target, Option.some.injEq] at ht; subst ht
      simp only [step, hlk]
      split <;> exact ⟨r, hlk, hu, hown⟩
    | release n' o =>
      simp only [Op.target, Option.some.injEq] at ht; subst ht
      have hoa : ¬ a = o := fun e => hl (by rw [e])
      simp only [step, hlk]
      rw [if_neg (by simp [hu])]
      simp only [hown, hoa, ↓reduceIte]
      exact ⟨r, hlk, hu, hown⟩
    | refresh n' o =>
      simp only [Op.target, Option.some.injEq] at ht; subst ht
      simp only [step, hlk]
      split
      · exact ⟨{ r with expired := r.refreshExpired }, by rw [lookup_put]; simp, hu, hown⟩
      · exact ⟨r, hlk, hu, hown⟩
    | markConflict n' =>
      simp only [Op.target, Option.some.injEq] at ht; subst ht
      simp only [step, hlk]
      exact ⟨{ r with status := .conflict }, by rw [lookup_put]; simp, hu, hown⟩
  · exact ⟨r, by rw [lookup_step_other s op n ht hc]; exact hlk, hu, hown⟩

/-! ### 3. `Owners` as a Go slice: the query result is a slice of its own -/

/-- **Heap model = value model.**  On well-formed heaps (which all reachable ones are) a method on the
    heap of backing arrays computes exactly the value-level method: in-place `append`, the in-place shift of
    the group release and fresh allocations never disturb another record. -/
theorem heap_refines (c : Bool) (s : HState) (op : Op) (hw : WF s) :
    WF (hstep c s op).1 ∧ view (hstep c s op).1 = (step (view s) op).1 ∧
      viewOut (hstep c s op).1.heap (hstep c s op).2 = (step (view s) op).2 :=
  let h := hstep_sim c s op hw
  ⟨h.1, h.2.1, h.2.2.1⟩

/-- for every history the heap-level table denotes the value-level table -/
theorem heap_refines_history (c : Bool) (ops : List Op) :
    WF (hrun c hinit ops) ∧ view (hrun c hinit ops) = run init ops :=
  hrun_sim c ops hinit wf_init

/-- **A query returns precisely the current owners**: the slice handed out, read at return time, is the
    owner list of the (active) name in the table at that moment. -/
theorem query_result_is_current (ops : List Op) (n : Name) (sl : Slice) (t : NameType)
    (hq : (hstep true (hrun true hinit ops) (.query n)).2 = .owners sl t) :
    ∃ r, lookup (run init ops) n = some r ∧ r.status = .active ∧ r.type = t ∧
      (hstep true (hrun true hinit ops) (.query n)).1.heap.read sl = r.owners := by
  have hs := hrun_sim true ops hinit wf_init
  have hs2 : view (hrun true hinit ops) = run init ops := hs.2
  have h := hstep_sim true (hrun true hinit ops) (.query n) hs.1
  rw [hq, hs2] at h
  have hout := h.2.2.1
  simp only [viewOut, step] at hout
  cases hl : lookup (run init ops) n with
  | none => simp [hl] at hout
  | some r =>
    simp only [hl] at hout
    by_cases ha : r.status = .active
    · simp only [ha, ↓reduceIte, Out.owners.injEq] at hout
      exact ⟨r, rfl, ha, hout.2.symm, hout.1⟩
    · simp [ha] at hout

/-- **…in a slice of its own: later table updates never change a result already returned.**
    Whatever operations follow (`ops₂`, any length), the slice returned by an earlier `QueryName` reads
    the same as when it was returned.  (Holds because `QueryName` allocates and copies — see
    `query_copies`; `alias_would_leak` shows the statement fails without the copy.) -/
theorem query_result_is_copy (ops₁ : List Op) (n : Name) (ops₂ : List Op) (sl : Slice) (t : NameType)
    (hq : (hstep true (hrun true hinit ops₁) (.query n)).2 = .owners sl t) :
    (hrun true (hstep true (hrun true hinit ops₁) (.query n)).1 ops₂).heap.read sl =
      (hstep true (hrun true hinit ops₁) (.query n)).1.heap.read sl := by
  have hs := hrun_sim true ops₁ hinit wf_init
  have hw' := (hstep_sim true _ (.query n) hs.1).1
  have hd := query_detached _ hs.1 n sl t hq
  exact read_congr (detached_hrun ops₂ _ hw' sl.arr hd)

/-- **The copy matters** (non-vacuity of the aliasing model): if `QueryName` handed out
    `record.Owners` itself, a later release would change a result already returned. -/
theorem alias_would_leak :
    ∃ (ops₁ : List Op) (n : Name) (ops₂ : List Op) (sl : Slice) (t : NameType),
      (hstep false (hrun false hinit ops₁) (.query n)).2 = .owners sl t ∧
      (hrun false (hstep false (hrun false hinit ops₁) (.query n)).1 ops₂).heap.read sl ≠
        (hstep false (hrun false hinit ops₁) (.query n)).1.heap.read sl :=
  ⟨[.register 0 .group 1 false, .register 0 .group 2 false], 0, [.release 0 1], ⟨1, 2⟩, .group,
    by decide, by decide⟩

/-! ### 4. lock discipline of the source (facts regenerated from nbtns.go on every run) -/

open Manticore.Gen.NbtnsLocks in
/-- **Every access path is locked.**  Each function of the package that touches `names` is a method of
    `NetBIOSNameServer` whose first statement takes `mu.Lock()`/`mu.RLock()`, whose second statement defers
    the matching unlock, and which contains no other (early) unlock. -/
theorem lock_discipline :
    ∀ m ∈ methods, m.touchesNames = true →
      m.isMethod = true ∧ m.locksFirst = true ∧ m.defersUnlock = true ∧ m.noEarlyUnlock = true := by
  decide

open Manticore.Gen.NbtnsLocks in
/-- a method that writes the map or a record holds the write lock, not the read lock -/
theorem writers_take_write_lock : ∀ m ∈ methods, m.writesNames = true → m.lockKind = .lock := by
  decide

open Manticore.Gen.NbtnsLocks in
/-- the six modelled methods are the ones found in the source (none missing, none extra) -/
theorem modelled_methods_are_the_source_methods :
    methods.map (·.name) =
      ["CleanExpiredNames", "MarkNameConflict", "QueryName", "RefreshName", "RegisterName", "ReleaseName"] := by
  decide

/-- `QueryName` returns `make` + `copy` of `record.Owners` (the `copyOnQuery = true` of the heap model) -/
theorem query_copies : Manticore.Gen.NbtnsLocks.queryCopies = true := by decide

/-! ### 5. the linearizability checker used on recorded concurrent executions -/

/-- **The `linz` driver op decides linearizability.**  The Wing–Gong search accepts a recorded
    concurrent history iff some real-time-respecting sequential order of its calls reproduces every
    observed result on the proved sequential model. -/
theorem linz_iff (evs : List Ev) : linz evs = true ↔ Linearizable evs := by
  unfold linz Linearizable
  rw [← lin_iff_order]
  exact ⟨search_sound _ _ _, search_complete _ _ _ (Nat.le_refl _)⟩

/-! ### 6. every interleaving under the lock discipline behaves like the atomic map -/

private theorem outsRel_no_panic : ∀ (os : List Out) (ts : List Spec.Out), OutsRel os ts → ∀ o ∈ os, o ≠ .panic
  | [], [], _, o, ho => by cases ho
  | o' :: os, t :: ts, h, o, ho => by
    rcases List.mem_cons.mp ho with rfl | ho
    · intro e; rw [e] at h; exact (by cases t <;> exact h.1 : False)
    · exact outsRel_no_panic os ts h.2 o ho
  | [], _ :: _, h, _, _ => by cases h
  | _ :: _, [], h, _, _ => by cases h

open Manticore.Gen.NbtnsLocks in
/-- **The name table is linearizable under the lock discipline of the source, for every interleaving.**
    (1) The source keeps the discipline the machine assumes: every function touching `names` is a method that
    locks first, defers the matching unlock and never unlocks early (regenerated facts), and the lock kind
    of each method is the mode of its critical section in the model (`Lock` = writer, `RLock` = reader).
    (2) Then for ANY number of threads calling ANY sequences of the six methods on a fresh table, and ANY
    complete schedule of the individual micro-steps of their bodies (RWMutex enabling conditions only; no
    fairness assumed): the concurrent history — invocation at the acquire, response at the release — is
    `Linearizable` in the sense of Herlihy–Wing w.r.t. the sequential model; explicitly, some order of all
    the calls that respects real time is a sequential history `ops` such that the final table is
    `run init ops`, satisfies the ownership invariant, abstracts to the atomic map after `ops`, every call
    returned what the atomic map returns (`OutsRel`), and no call panicked. -/
theorem name_table_linearizable_under_lock_discipline :
    ((∀ m ∈ methods, m.touchesNames = true →
        m.isMethod = true ∧ m.locksFirst = true ∧ m.defersUnlock = true ∧ m.noEarlyUnlock = true) ∧
     (∀ op : Op, (methods.find? (fun m => m.name == op.method)).map (·.lockKind) =
        some (match (critical op).mode with | .read => LockKind.rlock | .write => LockKind.lock))) ∧
    ∀ (threads : List (List Op)) (sched : List Nat), (runTable threads sched).Complete →
      Linearizable (tableEvents threads sched) ∧
      ∃ order : List RWLock.CallId,
        order.Perm (RWLock.allCalls (tableProgram threads)) ∧
        order.Pairwise (fun a b => ¬ (runTable threads sched).relTime b < (runTable threads sched).acqTime a) ∧
        (runTable threads sched).shared = run init (order.map (opAt threads)) ∧
        order.map (runTable threads sched).resultOf = (outputs init (order.map (opAt threads))).map some ∧
        Inv (runTable threads sched).shared ∧
        abs (runTable threads sched).shared = Spec.run Spec.init (order.map (opAt threads)) ∧
        OutsRel (outputs init (order.map (opAt threads))) (Spec.outputs Spec.init (order.map (opAt threads))) ∧
        (∀ id ∈ order, (runTable threads sched).resultOf id ≠ some .panic) := by
  refine ⟨⟨lock_discipline, critical_section_modes_are_the_source_lock_kinds⟩, ?_⟩
  intro threads sched hc
  obtain ⟨order, hperm, hst, hres, hrt, _⟩ := name_table_interleavings_are_sequential_histories threads sched hc
  have href := refines_history (order.map (opAt threads))
  have hget : order.map (fun id => ((runTable threads sched).resultOf id).getD .panic) =
      outputs init (order.map (opAt threads)) := by
    have := congrArg (List.map (fun o : Option Out => o.getD .panic)) hres
    simpa [List.map_map, Function.comp_def] using this
  refine ⟨⟨order.map (evOf threads (runTable threads sched)), hperm.map _, ?_, ?_⟩,
    order, hperm, hrt, hst, hres, ?_, ?_, href.2, ?_⟩
  · exact List.pairwise_map.mpr hrt
  · simp only [List.map_map, Function.comp_def, evOf]
    exact hget.symm
  · rw [hst]; exact inv_reachable _
  · rw [hst]; exact href.1
  · intro id hid e
    have hmem : some Out.panic ∈ (outputs init (order.map (opAt threads))).map some := by
      rw [← hres, ← e]; exact List.mem_map.mpr ⟨id, hid, rfl⟩
    obtain ⟨o, ho, ho'⟩ := List.mem_map.mp hmem
    cases ho'
    exact outsRel_no_panic _ _ href.2 _ ho rfl

/-! ### non-vacuity -/

example : Inv (run init [.register 0 .group 1 false, .register 0 .group 2 false, .register 1 .unique 1 true]) :=
  inv_reachable _
example : RecOk ⟨.group, .active, [1, 2], false, false⟩ := ⟨by simp, by simp, by simp⟩
example : (step (run init [.register 0 .unique 1 false]) (.register 0 .unique 2 false)).2 = .err := by decide
example : (step (run init [.register 0 .group 1 false, .register 0 .group 2 false]) (.query 0)).2
    = .owners [1, 2] .group := by decide
example : WF (hrun true hinit [.register 0 .group 1 false, .register 0 .group 2 false, .release 0 1]) :=
  (heap_refines_history true _).1
/-- a history that is linearizable only in the order opposite to invocation order -/
example : linz [⟨.query 0, .owners [1] .unique, 0, 3⟩, ⟨.register 0 .unique 1 false, .ok, 1, 2⟩] = true := by decide
/-- and one that is not linearizable: the query returned before the registration was invoked -/
example : linz [⟨.query 0, .owners [1] .unique, 0, 1⟩, ⟨.register 0 .unique 1 false, .ok, 2, 3⟩] = false := by decide

end Manticore.C17
