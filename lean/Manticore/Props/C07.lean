/-
  C07 — Every decoder is total: any input yields a value or an error, never a crash, a hang or an
  allocation out of proportion to the input.
  Property theorems only, one group per family of decoding entry points:

    * SMB command structures: the 115 regenerated unmarshal programs (the kernel decides the static
      predicate `Guarded` on them, `guarded_sound` proves the predicate sound for the semantics,
      `smb_decode_total` is the resulting theorem about every input) and the nested wire types
      (the C06 decoders: totality and `0 < consumed ≤ len(data)`);
    * every other decoding entry point that has a hand model (the models of C08–C16 and C20, with the
      repairs of fixes/C07-*.diff applied): one public theorem per entry point, `f input ≠ .panic`
      (or the stronger `∃ r, f input = .ok r` where the Go function has no error result).  Where the
      owning property file already proves it, the theorem is re-exported under the entry point's
      name; the others are proved in Lemmas/C07Total.lean and Lemmas/C14Total.lean.
    * the allocation clause, as theorems `*_alloc_bound` about every family (summary below).

  ALLOCATION — what is proved.  Size of a value: one per byte of a (byte) string field, 8 per integer
  field, summed over lists and map entries.  Where the Go code allocates by a number read from the
  input, the model has a function `…AllocOf` (or, for the SMB command IR, `allocCmd`) that follows the
  Go `make` / `append` / copy statements in their order and says what has been allocated when the
  function returns ON EVERY PATH, error returns included; the bound is proved for every input and the
  decoded value is proved no bigger than that allocation.  An "allocate by the announced count, check
  the length afterwards" defect is therefore a counterexample to the theorem (an `example` beside
  each shows the eager variant breaking the bound on a few bytes), not something invisible.

    family / entry point                         bound (L = length of the input)                theorem
    SMB commands (115, regenerated programs)     allocCmd ≤ 300·L + 154 694 on every path;      smb_decode_alloc_bound,
                                                  value ≤ initial values + the same              smb_decode_value_alloc_bound
       every make([]T, c.G) behind its guard     decided by the kernel, proved sufficient       smb_all_commands_alloc_guarded, alloc_guarded_sound
       nested decoders                           cost ≤ window + 130; value ≤ cost              std_alloc_codecs
       SMB_STRING make([]UCHAR, n)               n ≤ L; decoded buffer = n                      smb_string_alloc_bound
       Parameters / Data / Dialects              2·words < L; bytes + 2 ≤ L; Σ names ≤ L        parameters_/data_/dialects_alloc_bound
    LLMNR DecodeMessage                          48 + L + count·(L² + 32), 5·count + 12 ≤ L     llmnr_decode_message_alloc_bound
                                                  (polynomial: name compression)                 llmnr_name_alloc_bound
       RDATA make([]byte, RDLength)              reached only when RDLength bytes follow        llmnr_rdata_alloc_bound
    NBNS Unmarshal                               8·L                                            nbns_unmarshal_alloc_bound, nbns_rdata_alloc_bound,
                                                                                                 nbns_first_level_decode_alloc_bound
    NBT Receive                                  4 + 131 071 whatever is sent (FIXED CAP: the   nbt_receive_alloc_bound
                                                  body is allocated from the announced length
                                                  before it is read); a message = that buffer
    KeyCredential.FromBytes                      allocated ≤ 2·L; size ≤ 3·L + 160              key_credential_parse(_fresh)_alloc_bound
    RSAKeyMaterial / CustomKeyInformation        ≤ L (views) / ≤ L                              rsa_key_material_parse_alloc_bound, custom_key_information_alloc_bound
    DNWithBinary.Parse                           ≤ L, = size of the parsed value                dn_with_binary_parse_alloc_bound
    ConvertToBinaryIdentifier                    ≤ L                                            key_credential_identifier_alloc_bound
    version / GUID / binary time                 ≤ 20 / 40 / 24                                 key_credential_fixed_alloc_bound
    ParseTargetInfo                              stored ≤ 2·L on every path; entries ≤ L/4      ntlm_target_info_alloc_bound
    ParseChallengeMessage                        ≤ 2·L + 48                                     ntlm_challenge_parse_alloc_bound
    asn1 field / NegTokenResp / ExtractNTLMToken ≤ L / ≤ 8·L / token + 6 ≤ L                    asn1_field_, spnego_neg_token_resp_, spnego_extract_alloc_bound
    ProcessChallengeToken                        linear in the credentials, ≤ 327 811           spnego_process_challenge_alloc_bound
    pkcs7.Unpad                                  < L (a re-slice)                               pkcs7_unpad_alloc_bound
    DecodeUTF16LE                                ≤ 9·(L/2); text ≤ 3·(L/2)                      utf16_decode_alloc_bound
    GPPPDecryptBytes / Base64                    ≤ 6·L + 16 / ≤ 7·L + 32                        gpp_decrypt_bytes_/gpp_decrypt_base64_alloc_bound
    ParseSIDFromBytes                            ≤ 10·L; text ≤ 3·L + 2                         sid_alloc_bound
    GetDomainFromDistinguishedName               result ≤ L; allocated ≤ 17·L + 16              dn_domain_alloc_bound
                                                  (quadratic before the repair fixes/C07-dn-domain-quadratic.diff)
    UUID / GUID, LDAP times, IP / port / LM:NT   constants (23…64)                              uuid_guid_/ldap_time_/address_parsers_fixed_alloc_bound

  Not modelled (measured only, by the allocation audit of tools/harness/engine.go on the real code):
  the Go runtime's own overhead per object, `append` growth factors (at most 2), error values and
  `fmt` temporaries, stdlib scratch space, and the harness's allowance (256 KiB + 1 KiB per input byte).

  Termination: every model function is a total Lean definition (structural recursion, or
  well-founded recursion with a proved measure: the LLMNR/NBNS pointer walk, the key-credential
  entry walk), so "never hangs" is Lean's totality of the model; the one Go loop that can spin
  (`for offset+size <= len(blk)` with size 0) is reported by the IR semantics as a panic and
  excluded by `guarded_sound`.

  Entry points whose model is a plain total function (no `Outcome`: the Go code has no slice/index
  expression that can fail, and no error result) need no theorem: `CustomKeyInformation.FromBytes`
  (`C14.CKI.fromBytes`), `ConvertToBinaryIdentifier` (`Option`), `KeyCredentialVersion.FromBytes`
  (`C14.versionFromBytes`), the LDAP time parsers (`C15.ldapToUnix`, `C15.ldapDurationToSeconds`),
  `GetDomainFromDistinguishedName` (`C16.domainOfDN`), `ValidateDomainName` (`C09.validateName`).

  This file imports no `Manticore.Gen.*` module other than `SmbCommands`: a change in /repo that
  breaks another property's extractor cannot break this build.
-/
import Manticore.Model.SmbCmd
import Manticore.Model.SmbCodecs
import Manticore.Gen.SmbCommands
import Manticore.Props.C08
import Manticore.Props.C09
import Manticore.Props.C10
import Manticore.Props.C11
import Manticore.Props.C12
import Manticore.Props.C13
import Manticore.Props.C14
import Manticore.Props.C15
import Manticore.Props.C16
import Manticore.Props.C20
import Manticore.Lemmas.C06Total
import Manticore.Lemmas.C07Total
import Manticore.Lemmas.C14Total
import Manticore.Lemmas.SmbGuarded
import Manticore.Lemmas.SmbCodecsHonest
import Manticore.Lemmas.SmbAlloc
import Manticore.Lemmas.SmbCodecsAlloc
import Manticore.Lemmas.C07AllocNet
import Manticore.Lemmas.C07AllocKeys
import Manticore.Lemmas.C07AllocNtlm
import Manticore.Lemmas.C07AllocRest
import Manticore.Lemmas.C07AllocFixed
namespace Manticore.C07
open Manticore Manticore.SmbIR Manticore.Gen.SmbCommands

/-- **Every regenerated unmarshal program is guarded**: in each of the 115 command structures, every
    slice or index expression of `Unmarshal` is dominated by a length check on the same block that
    implies it (`Guarded`, a static predicate evaluated by the kernel on the programs extracted from
    /repo on this run).  A dropped or weakened guard anywhere makes this fail to check. -/
theorem smb_all_commands_guarded : commands.all Guarded = true := by decide +kernel

/-- the extraction saw every command structure (a vanished file would silently shrink the claim) -/
theorem smb_command_count : commands.length = 115 := by decide +kernel

/-- the envelope split (`Parameters.Unmarshal`, `Data.Unmarshal`) never panics -/
theorem smb_split_total (data : Bytes) : splitParams data ≠ .panic ∧ ∀ r, splitData r ≠ .panic := by
  constructor
  · unfold splitParams; split <;> (try split) <;> (try split) <;> simp
  · intro r
    match r with
    | [] => simp [splitData]
    | [_] => simp [splitData]
    | b0 :: b1 :: rest =>
      simp only [splitData]
      by_cases h : b0.toNat + 256 * b1.toNat > 0
      · by_cases h2 : rest.length < b0.toNat + 256 * b1.toNat <;> simp [h, h2]
      · simp [h]

/-- `utils.GetNullTerminatedUnicodeString` consumes no more than it is given -/
theorem cstr_offset_le (d : Bytes) : (cstrUnicode d).2 ≤ d.length := by
  unfold cstrUnicode; exact Nat.min_le_right _ _

/-! ### `Guarded` is sound: the kernel-decided fact about the programs is a theorem about every input

`smb_all_commands_guarded` is a statement about program *texts*.  The three theorems below turn it
into a statement about *runs*: for every input buffer (and every spare capacity behind the two
streams, every word count, every initial field assignment) the model of `Unmarshal` returns a value
or an error.  The proof (Lemmas/SmbGuarded.lean) interprets the analysis state `Known` at a run-time
state and shows each accepted statement preserves it; the only assumption is that the nested
decoders are honest, which `std_honest` discharges for the table actually used. -/

/-- **Soundness of the static predicate**: a command whose unmarshal program is `Guarded` never
    panics — on any parameter stream `P`, data stream `D`, bytes `Pext`/`Dext` behind them inside
    their backing arrays, word count and initial field values — for any codec table whose decoders
    do not panic, report no more than they were given and advance on a non-empty window
    (`HonestCodecs`, Lemmas/SmbGuarded.lean).  The model reports an endless Go loop as a panic too,
    so this is also termination of the `for offset+size <= len(blk)` loops. -/
theorem guarded_sound (C : Codecs) (hC : HonestCodecs C) (c : Cmd) (hg : Guarded c = true) :
    ∀ env0 wc P D Pext Dext, runU C c env0 wc P D Pext Dext ≠ .panic :=
  fun env0 wc P D Pext Dext => runU_no_panic C hC c hg env0 wc P D Pext Dext

/-- the codec table the command models use (`SmbCodecs.std`: the C06 decoders and `Dialects`)
    satisfies the three decoder laws -/
theorem std_honest : HonestCodecs Manticore.SmbCodecs.std := Manticore.SmbCodecs.std_honest

/-- **Every SMB command decoder is total**: for each of the 115 regenerated command structures,
    every initial field assignment and every input byte string, the model of
    `Unmarshal` (envelope split, then the extracted program with Go's slice-bounds semantics) yields
    a value or an error, never a panic. -/
theorem smb_decode_total : ∀ c ∈ Manticore.Gen.SmbCommands.commands, ∀ env0 data,
    decodeCmd Manticore.SmbCodecs.std c env0 data ≠ .panic := by
  intro c hc env0 data
  have hg : Guarded c = true := List.all_eq_true.mp smb_all_commands_guarded c hc
  unfold decodeCmd
  cases hp : splitParams data with
  | ok r =>
    obtain ⟨wc, P, rest⟩ := r
    simp only []
    cases hd : splitData rest with
    | ok r2 =>
      obtain ⟨D, Dext⟩ := r2
      exact guarded_sound _ std_honest c hg env0 wc P D _ Dext
    | err => simp
    | panic => exact absurd hd ((smb_split_total data).2 rest)
  | err => simp
  | panic => exact absurd hp (smb_split_total data).1

/-- non-vacuity: a concrete regenerated command satisfies the hypothesis of `guarded_sound` -/
example : Guarded cmd_CloseRequest = true := by decide
example : cmd_CloseRequest ∈ commands := by simp [commands, chunk0]

/-- the predicate is not trivially true, and what it rules out is real: a read with no guard in
    front is rejected, and that program does panic on an empty parameter stream -/
example : Guarded { (default : Cmd) with unmarshal := [.readInt .P 2 .le "FID"] } = false := by decide
example : runU Manticore.SmbCodecs.std { (default : Cmd) with unmarshal := [.readInt .P 2 .le "FID"] } [] 0 [] []
    = .panic := by decide
/-! The soundness proof found three statements where the predicate accepted a program that the
    semantics can drive into a panic; the predicate was tightened (Model/SmbCmd.lean) and all 115
    regenerated programs still pass.  One witness per repair: the program is now rejected, and it
    does panic (or hang) on the given input. -/

/-- (1) `whileFitsSub` with a zero-size window never advances: Go would loop forever -/
example : Guarded { (default : Cmd) with unmarshal := [.whileFitsSub .D "X" "Dialects" 0] } = false := by decide
example : runU Manticore.SmbCodecs.std { (default : Cmd) with unmarshal := [.whileFitsSub .D "X" "Dialects" 0] }
    [("X", .ts [])] 0 [] [] = .panic := by decide

/-- (2) `readArr3` assigns its field, so a guard stated in terms of that field no longer holds -/
private def witnessArr3 : Cmd := { (default : Cmd) with unmarshal :=
  [.guard .D (.lit 12), .guard .P (.flen "R"), .readArr3 .D "R", .readBytes .P "X" (.flen "R")] }
example : Guarded witnessArr3 = false := by decide
example : runU Manticore.SmbCodecs.std witnessArr3 [("R", .b [])] 0 [] (List.replicate 12 0) = .panic := by decide

/-- (3) a nested decoder whose error is not checked leaves `bytesRead` as it was, so
    `offset += bytesRead` may jump past the end -/
private def witnessUnchecked : Cmd := { (default : Cmd) with unmarshal :=
  [.readSub .D "S" "SMB_STRING" none false true true, .guard .P (.lit 3),
   .readSub .P "A" "SMB_NMPIPE_STATUS" (some 3) false false true, .advanceRead, .readRest .P "X"] }
example : Guarded witnessUnchecked = false := by decide
example : runU Manticore.SmbCodecs.std witnessUnchecked [] 0 [0, 0, 0] [2, 65, 65, 65, 65, 0] = .panic := by decide

/-! ### nested wire types: every C06 decoder is total (Lemmas/C06Total.lean)

For each type: `Unmarshal` never panics, and a success reports a byte count `k` with
`0 < k ≤ len(data)`. -/
open Manticore.C06 in
/-- `SMB_STRING.Unmarshal` never panics -/
theorem smb_string_decode_total (b : Bytes) : SmbString.decode b ≠ .panic := SmbString.decode_total b
open Manticore.C06 in
/-- `SMB_STRING.Unmarshal` reports between 1 and `len(data)` bytes -/
theorem smb_string_decode_bounded (b : Bytes) (v : SmbString.V) (k : Nat) (h : SmbString.decode b = .ok (v, k)) :
    0 < k ∧ k ≤ b.length := ⟨SmbString.decode_pos b v k h, SmbString.decode_bounded b v k h⟩
open Manticore.C06 in
/-- `OEM_STRING.Unmarshal` never panics -/
theorem oem_string_decode_total (b : Bytes) : OemString.decode b ≠ .panic := OemString.decode_total b
open Manticore.C06 in
/-- `OEM_STRING.Unmarshal` reports between 1 and `len(data)` bytes -/
theorem oem_string_decode_bounded (b : Bytes) (v : OemString.V) (k : Nat) (h : OemString.decode b = .ok (v, k)) :
    0 < k ∧ k ≤ b.length := ⟨OemString.decode_pos b v k h, OemString.decode_bounded b v k h⟩
open Manticore.C06 in
/-- `SMB_DATE.Unmarshal` never panics -/
theorem smb_date_decode_total (b : Bytes) : SmbDate.decode b ≠ .panic := SmbDate.decode_total b
open Manticore.C06 in
/-- `SMB_DATE.Unmarshal` reports between 1 and `len(data)` bytes -/
theorem smb_date_decode_bounded (b : Bytes) (v : SmbDate.V) (k : Nat) (h : SmbDate.decode b = .ok (v, k)) :
    0 < k ∧ k ≤ b.length := ⟨SmbDate.decode_pos b v k h, SmbDate.decode_bounded b v k h⟩
open Manticore.C06 in
/-- `FILETIME.Unmarshal` (also `SMB_TIME`) never panics -/
theorem filetime_decode_total (b : Bytes) : FileTime.decode b ≠ .panic := FileTime.decode_total b
open Manticore.C06 in
/-- `FILETIME.Unmarshal` reports between 1 and `len(data)` bytes -/
theorem filetime_decode_bounded (b : Bytes) (v : FileTime.V) (k : Nat) (h : FileTime.decode b = .ok (v, k)) :
    0 < k ∧ k ≤ b.length := ⟨FileTime.decode_pos b v k h, FileTime.decode_bounded b v k h⟩
open Manticore.C06 in
/-- `LOCKING_ANDX_RANGE32.Unmarshal` never panics -/
theorem range32_decode_total (b : Bytes) : Range32.decode b ≠ .panic := Range32.decode_total b
open Manticore.C06 in
/-- `LOCKING_ANDX_RANGE32.Unmarshal` reports between 1 and `len(data)` bytes -/
theorem range32_decode_bounded (b : Bytes) (v : Range32.V) (k : Nat) (h : Range32.decode b = .ok (v, k)) :
    0 < k ∧ k ≤ b.length := ⟨Range32.decode_pos b v k h, Range32.decode_bounded b v k h⟩
open Manticore.C06 in
/-- `LOCKING_ANDX_RANGE64.Unmarshal` never panics -/
theorem range64_decode_total (b : Bytes) : Range64.decode b ≠ .panic := Range64.decode_total b
open Manticore.C06 in
/-- `LOCKING_ANDX_RANGE64.Unmarshal` reports between 1 and `len(data)` bytes -/
theorem range64_decode_bounded (b : Bytes) (v : Range64.V) (k : Nat) (h : Range64.decode b = .ok (v, k)) :
    0 < k ∧ k ≤ b.length := ⟨Range64.decode_pos b v k h, Range64.decode_bounded b v k h⟩
open Manticore.C06 in
/-- `SMB_NMPIPE_STATUS.Unmarshal` never panics -/
theorem pipe_status_decode_total (b : Bytes) : PipeStatus.decode b ≠ .panic := PipeStatus.decode_total b
open Manticore.C06 in
/-- `SMB_NMPIPE_STATUS.Unmarshal` reports between 1 and `len(data)` bytes -/
theorem pipe_status_decode_bounded (b : Bytes) (v : PipeStatus.V) (k : Nat) (h : PipeStatus.decode b = .ok (v, k)) :
    0 < k ∧ k ≤ b.length := ⟨PipeStatus.decode_pos b v k h, PipeStatus.decode_bounded b v k h⟩
open Manticore.C06 in
/-- `SMB_RESUME_KEY.Unmarshal` never panics -/
theorem resume_key_decode_total (b : Bytes) : ResumeKey.decode b ≠ .panic := ResumeKey.decode_total b
open Manticore.C06 in
/-- `SMB_RESUME_KEY.Unmarshal` reports between 1 and `len(data)` bytes -/
theorem resume_key_decode_bounded (b : Bytes) (v : ResumeKey.V) (k : Nat) (h : ResumeKey.decode b = .ok (v, k)) :
    0 < k ∧ k ≤ b.length := ⟨ResumeKey.decode_pos b v k h, ResumeKey.decode_bounded b v k h⟩
open Manticore.C06 in
/-- `SMB_FILE_ATTRIBUTES.Unmarshal` never panics -/
theorem file_attributes_decode_total (b : Bytes) : FileAttributes.decode b ≠ .panic := FileAttributes.decode_total b
open Manticore.C06 in
/-- `SMB_FILE_ATTRIBUTES.Unmarshal` reports between 1 and `len(data)` bytes -/
theorem file_attributes_decode_bounded (b : Bytes) (v : FileAttributes.V) (k : Nat)
    (h : FileAttributes.decode b = .ok (v, k)) : 0 < k ∧ k ≤ b.length :=
  ⟨FileAttributes.decode_pos b v k h, FileAttributes.decode_bounded b v k h⟩
open Manticore.C06 in
/-- `SMB_DIRECTORY_INFORMATION.Unmarshal` never panics -/
theorem dir_info_decode_total (b : Bytes) : DirInfo.decode b ≠ .panic := DirInfo.decode_total b
open Manticore.C06 in
/-- `SMB_DIRECTORY_INFORMATION.Unmarshal` reports between 1 and `len(data)` bytes -/
theorem dir_info_decode_bounded (b : Bytes) (v : DirInfo.V) (k : Nat) (h : DirInfo.decode b = .ok (v, k)) :
    0 < k ∧ k ≤ b.length := ⟨DirInfo.decode_pos b v k h, DirInfo.decode_bounded b v k h⟩
open Manticore.C06 in
/-- the AndX block's `Unmarshal` never panics -/
theorem andx_decode_total (b : Bytes) : AndX.decode b ≠ .panic := AndX.decode_total b
open Manticore.C06 in
/-- the AndX block's `Unmarshal` reports between 1 and `len(data)` bytes -/
theorem andx_decode_bounded (b : Bytes) (v : AndX.V) (k : Nat) (h : AndX.decode b = .ok (v, k)) :
    0 < k ∧ k ≤ b.length := ⟨AndX.decode_pos b v k h, AndX.decode_bounded b v k h⟩
open Manticore.C06 in
/-- `Parameters.Unmarshal` never panics -/
theorem parameters_decode_total (b : Bytes) : Parameters.decode b ≠ .panic := Parameters.decode_total b
open Manticore.C06 in
/-- `Parameters.Unmarshal` reports between 1 and `len(data)` bytes -/
theorem parameters_decode_bounded (b : Bytes) (v : Parameters.V) (k : Nat) (h : Parameters.decode b = .ok (v, k)) :
    0 < k ∧ k ≤ b.length := ⟨Parameters.decode_pos b v k h, Parameters.decode_bounded b v k h⟩
open Manticore.C06 in
/-- `Data.Unmarshal` never panics -/
theorem data_decode_total (b : Bytes) : Data.decode b ≠ .panic := Data.decode_total b
open Manticore.C06 in
/-- `Data.Unmarshal` reports between 1 and `len(data)` bytes -/
theorem data_decode_bounded (b : Bytes) (v : Data.V) (k : Nat) (h : Data.decode b = .ok (v, k)) :
    0 < k ∧ k ≤ b.length := ⟨Data.decode_pos b v k h, Data.decode_bounded b v k h⟩
open Manticore.C06 in
/-- the NTLM `Version.Unmarshal` never panics -/
theorem version_decode_total (b : Bytes) : Version.decode b ≠ .panic := Version.decode_total b
open Manticore.C06 in
/-- the NTLM `Version.Unmarshal` reports between 1 and `len(data)` bytes -/
theorem version_decode_bounded (b : Bytes) (v : Version.V) (k : Nat) (h : Version.decode b = .ok (v, k)) :
    0 < k ∧ k ≤ b.length := ⟨Version.decode_pos b v k h, Version.decode_bounded b v k h⟩
/-- `Dialects.Unmarshal` never panics -/
theorem dialects_decode_total (b : Bytes) : Manticore.SmbCodecs.dialectsDec b ≠ .panic :=
  Manticore.SmbCodecs.dialectsDec_total b
/-- `Dialects.Unmarshal` reports at most `len(data)` bytes, and at least one unless `data` is empty -/
theorem dialects_decode_bounded (b : Bytes) (v : List Bytes) (k : Nat)
    (h : Manticore.SmbCodecs.dialectsDec b = .ok (v, k)) : k ≤ b.length ∧ (b ≠ [] → 0 < k) :=
  ⟨Manticore.SmbCodecs.dialectsDec_bounded b v k h, Manticore.SmbCodecs.dialectsDec_pos b v k h⟩

/-! ### allocation, SMB commands: the cost of a run is linear in the input (Lemmas/SmbAlloc.lean)

`allocCmd C A c env0 data` (Model/SmbAlloc.lean) adds up what the model of `Unmarshal` materialises —
envelope, every field stored, every `make`, every nested decoder's `make` — statement by statement
in the order of the Go code and **on every path**: a run that ends in an error has paid for what
it allocated before the failing check.  `makeInts f g` (`c.F = make([]T, c.G)`) costs `8·c.G` where
it stands.  The static predicate `AllocGuarded` says that each such statement stands directly behind
the guard `len(blk) < offset + w·int(c.G)` (`w ≥ 1`) and that every loop consumes input; the kernel
decides it on the regenerated programs, `alloc_guarded_sound` proves it sufficient, and the value
returned is no bigger than the cost (`smb_decode_value_alloc_bound`). -/

/-- **no regenerated unmarshal program allocates by an unchecked announced count**: in all 115
    command structures every `make([]T, c.G)` stands directly behind a guard comparing `w·c.G`
    (`w ≥ 1`) with what is left of the block, every counted loop reads elements of non-zero width and
    every loop over nested values has a non-zero window.  A `make` moved in front of its guard makes
    this fail to check. -/
theorem smb_all_commands_alloc_guarded : commands.all AllocGuarded = true := by decide +kernel

/-- the cost table of the nested decoders (`SmbCodecs.stdAlloc`; `SMB_STRING.Unmarshal`'s
    `make([]UCHAR, s.Length)` through `SmbString.allocOf`) satisfies the two laws: a decoder allocates
    at most its window plus 130 bytes, and returns no more than it allocated -/
theorem std_alloc_codecs : AllocCodecs Manticore.SmbCodecs.std Manticore.SmbCodecs.stdAlloc 130 :=
  Manticore.SmbCodecs.std_alloc

/-- **soundness of `AllocGuarded`**: the cost of decoding any input with an accepted program — failing
    runs included — is at most `slope·len(data) + const`, the two numbers computed from the program
    text (`Cmd.allocSlope`, `Cmd.allocConst`), for any honest codec table with a lawful cost table -/
theorem alloc_guarded_sound (C : Codecs) (hC : HonestCodecs C) (A : String → Bytes → Nat) (a0 : Nat)
    (hA : AllocCodecs C A a0) (c : Cmd) (hg : AllocGuarded c = true) :
    ∀ env0 data, allocCmd C A c env0 data ≤ c.allocSlope a0 * data.length + c.allocConst a0 :=
  fun env0 data => allocCmd_le C hC A a0 hA c hg env0 data

/-- the constants of the 115 regenerated programs: at most 300 bytes per input byte
    (`LockingAndxRequest`: two loops over 20-byte ranges) and 154 694 bytes besides (of which 153 600
    = 300 × the 512-byte backing array of the parameter stream, 1 022 the envelope) -/
theorem smb_alloc_constants : commands.all (fun c => decide (c.allocSlope 130 ≤ 300 ∧ c.allocConst 130 ≤ 154694)) = true := by
  decide +kernel

/-- **allocation, every SMB command decoder**: for each of the 115 regenerated command structures,
    every initial field assignment and every input, what the model of `Unmarshal` allocates — on
    every path, error returns included — is at most `300·len(data) + 154694` bytes -/
theorem smb_decode_alloc_bound : ∀ c ∈ Manticore.Gen.SmbCommands.commands, ∀ env0 data,
    allocCmd Manticore.SmbCodecs.std Manticore.SmbCodecs.stdAlloc c env0 data ≤ 300 * data.length + 154694 := by
  intro c hc env0 data
  have hg : AllocGuarded c = true := List.all_eq_true.mp smb_all_commands_alloc_guarded c hc
  have hk := List.all_eq_true.mp smb_alloc_constants c hc
  simp only [decide_eq_true_eq] at hk
  have h := alloc_guarded_sound _ std_honest _ 130 std_alloc_codecs c hg env0 data
  have h2 := Nat.mul_le_mul_right data.length hk.1
  omega

/-- **the decoded value is no bigger than what was allocated for it**: a successful `Unmarshal`
    returns field values of total size (`envSize`: one per byte, 8 per integer, summed over lists)
    at most that of the receiver's initial values plus `300·len(data) + 154694`.  `KeysNodup env0`: no
    field name is listed twice (Go field names are distinct). -/
theorem smb_decode_value_alloc_bound : ∀ c ∈ Manticore.Gen.SmbCommands.commands, ∀ env0 data env,
    KeysNodup env0 → decodeCmd Manticore.SmbCodecs.std c env0 data = .ok env →
    envSize env ≤ envSize env0 + 300 * data.length + 154694 := by
  intro c hc env0 data env hn h
  have h1 := decodeCmd_value_le _ _ 130 std_alloc_codecs c env0 env data hn h
  have h2 := smb_decode_alloc_bound c hc env0 data
  omega

/-- non-vacuity: a concrete command is accepted, a program with the `make` in front of its guard is
    not, and that program's cost is not bounded by the input: 8·255 bytes for a two-byte block -/
example : AllocGuarded cmd_TransactionRequest = true := by decide
private def witnessEagerMake : Cmd := { (default : Cmd) with unmarshal :=
  [.guard .P (.lit 1), .readU8 .P "N", .advance (.lit 1), .makeInts "X" "N", .guard .P (.mul 2 (.fint "N")),
   .forCountInt .P 2 .le "X" "N"] }
example : AllocGuarded witnessEagerMake = false := by decide
example : allocU Manticore.SmbCodecs.std Manticore.SmbCodecs.stdAlloc witnessEagerMake [] 1 [255, 0] [] = 2048 := by decide
example : runU Manticore.SmbCodecs.std witnessEagerMake [] 1 [255, 0] [] = .err := by decide
example : KeysNodup [("FID", .n 0), ("X", .b [])] := by unfold KeysNodup; decide

/-- `SMB_STRING.Unmarshal` (also `OEM_STRING`): the `make([]UCHAR, n)` it reaches is no bigger than
    the input, and the decoded buffer is exactly that allocation -/
theorem smb_string_alloc_bound (b : Bytes) :
    Manticore.C06.SmbString.allocOf b ≤ b.length ∧
    ∀ v k, Manticore.C06.SmbString.decode b = .ok (v, k) → v.buffer.length = Manticore.C06.SmbString.allocOf b :=
  ⟨Manticore.C06.SmbString.allocOf_le b, fun v k h => Manticore.C06.SmbString.decode_alloc b v k h⟩
/-- `Parameters.Unmarshal`: `make([]uint16, WordCount)` only when twice as many bytes follow the count -/
theorem parameters_alloc_bound (b : Bytes) (v : Manticore.C06.Parameters.V) (k : Nat)
    (h : Manticore.C06.Parameters.decode b = .ok (v, k)) : 2 * v.words.length < b.length :=
  Manticore.C06.Parameters.decode_alloc b v k h
/-- `Data.Unmarshal`: the bytes are a piece of the input behind the two-byte count -/
theorem data_alloc_bound (b : Bytes) (v : Manticore.C06.Data.V) (k : Nat)
    (h : Manticore.C06.Data.decode b = .ok (v, k)) : v.bytes.length + 2 ≤ b.length :=
  Manticore.C06.Data.decode_alloc b v k h
/-- `Dialects.Unmarshal`: the names are disjoint pieces of the input -/
theorem dialects_alloc_bound (b : Bytes) (names : List Bytes) (k : Nat)
    (h : Manticore.SmbCodecs.dialectsDec b = .ok (names, k)) : (names.map List.length).sum ≤ b.length := by
  have := Manticore.SmbCodecs.dialectsDecAux_size _ _ _ _ _ _ h
  simpa using this

/-! ### NTLMSSP and SPNEGO tokens (models of C08) -/

/-- `ntlm.ParseChallengeMessage` never panics (with fixes/C08-challenge-offset-wrap.diff) -/
theorem ntlm_challenge_parse_total (d : Bytes) : Manticore.C08.parseChallenge d ≠ .panic :=
  Manticore.C08.challenge_parse_total d
/-- `ntlm.ParseTargetInfo` never panics -/
theorem ntlm_target_info_total (ti : Bytes) : Manticore.C08.parseTargetInfo ti ≠ .panic :=
  Manticore.C07T.targetInfo_no_panic ti
/-- `spnego.ExtractNTLMToken` never panics (with fixes/C08-gss-header-bounds.diff) -/
theorem spnego_extract_total (d : Bytes) : Manticore.C08.extractNTLMToken d ≠ .panic :=
  (Manticore.C08.spnego_extract_total d).1
/-- `spnego.ParseNegTokenResp` never panics -/
theorem spnego_neg_token_resp_total (d : Bytes) : Manticore.C08.parseNegTokenResp d ≠ .panic :=
  (Manticore.C08.spnego_extract_total d).2
/-- `AuthContext.ProcessChallengeToken` never panics, whatever the server's token and the
    credentials (`upper`, `utf16`: `strings.ToUpper` / UTF-16 encoding as arbitrary functions) -/
theorem spnego_process_challenge_total (upper utf16 : Bytes → Bytes) (token user domain ws lm nt : Bytes) :
    Manticore.C08.processChallengeToken upper utf16 token user domain ws lm nt ≠ .panic :=
  Manticore.C07T.processChallenge_no_panic upper utf16 token user domain ws lm nt

/-! #### allocation (Model/C08Alloc.lean, Lemmas/C07AllocNtlm.lean) -/

/-- **allocation, `ntlm.ParseTargetInfo`**: what the loop stores into its map — 8 + the value length per
    executed `result[avId] = targetInfo[offset:offset+int(avLen)]`, on every path, both error returns
    included (`parseTargetInfoAllocOf`) — is at most `2·len(ti)`; a returned map has at most
    `len(ti)/4` entries (four bytes of framing each) and is no bigger than what was stored (a
    repeated key overwrites) -/
theorem ntlm_target_info_alloc_bound (ti : Bytes) :
    Manticore.C08.parseTargetInfoAllocOf ti ≤ 2 * ti.length ∧
    ∀ m, Manticore.C08.parseTargetInfo ti = .ok m →
      Manticore.C08.avMapSize m ≤ Manticore.C08.parseTargetInfoAllocOf ti ∧ m.length * 4 ≤ ti.length :=
  ⟨Manticore.C07A.Ntlm.parseTargetInfoAllocOf_le ti, fun m h => Manticore.C07A.Ntlm.parseTargetInfo_alloc ti m h⟩
/-- **allocation, `ntlm.ParseChallengeMessage`** (no `make`: the two variable fields are slice
    expressions behind the 64-bit offset+length guard): target name and target info each fit in the
    input and in 16 bits, the three arrays have 8 bytes, `challengeSize c ≤ 2·len(d) + 48` (the two
    fields may alias the same bytes) -/
theorem ntlm_challenge_parse_alloc_bound (d : Bytes) (c : Manticore.C08.Challenge) (h : Manticore.C08.parseChallenge d = .ok c) :
    c.targetName.length ≤ d.length ∧ c.targetName.length ≤ 65535 ∧
    c.targetInfo.length ≤ d.length ∧ c.targetInfo.length ≤ 65535 ∧
    c.serverChallenge.length = 8 ∧ c.reserved.length = 8 ∧ c.version.length = 8 ∧
    Manticore.C08.challengeSize c ≤ 2 * d.length + 48 :=
  Manticore.C07A.Ntlm.parseChallenge_alloc_bound d c h
/-- the content copy of one `encoding/asn1` field (`parseField`: the announced length once "data
    truncated" has been passed, 0 on every earlier return) never exceeds the input -/
theorem asn1_field_alloc_bound (e : Option Nat) (utag : Nat) (comp : Bool) (b : Bytes) :
    Manticore.C08.parseFieldAllocOf e utag comp b ≤ b.length :=
  Manticore.C07A.Ntlm.parseFieldAllocOf_le e utag comp b
/-- **allocation, `spnego.ParseNegTokenResp`**: the three variable fields and six bytes of framing fit in
    the input; `negTokenRespSize r ≤ 8·len(d)` (one `int` per OID content byte) -/
theorem spnego_neg_token_resp_alloc_bound (d : Bytes) (r : Manticore.C08.NegTokenResp)
    (h : Manticore.C08.parseNegTokenResp d = .ok r) :
    r.supportedMech.length + r.responseToken.length + r.mechListMIC.length + 6 ≤ d.length ∧
    Manticore.C08.negTokenRespSize r ≤ 8 * d.length :=
  Manticore.C07A.Ntlm.parseNegTokenResp_alloc_bound d r h
/-- **allocation, `spnego.ExtractNTLMToken`**: the token is a proper piece of the input -/
theorem spnego_extract_alloc_bound (d t : Bytes) (h : Manticore.C08.extractNTLMToken d = .ok t) :
    0 < t.length ∧ t.length + 6 ≤ d.length :=
  Manticore.C07A.Ntlm.extractNTLMToken_alloc_bound d t h
/-- **allocation, `AuthContext.ProcessChallengeToken`**: the authenticate token built from a decoded
    challenge is linear in the credentials and responses (coefficient 0 in the server's token) and
    never exceeds 327811 bytes (the `len(field) > 0xFFFF` guards of the builder) -/
theorem spnego_process_challenge_alloc_bound (upper utf16 : Bytes → Bytes) (token user domain ws lm nt out : Bytes)
    (h : Manticore.C08.processChallengeToken upper utf16 token user domain ws lm nt = .ok out) :
    out.length ≤ lm.length + nt.length + ((utf16 domain).length + domain.length) +
        ((utf16 user).length + user.length) + ((utf16 (upper ws)).length + (upper ws).length) + 136 ∧
    out.length ≤ 327811 :=
  Manticore.C07A.Ntlm.processChallengeToken_alloc_bound upper utf16 token user domain ws lm nt out h

/-! ### LLMNR packets (model of C09) -/

/-- `llmnr.DecodeMessage` (header, questions, the three record sections) never panics -/
theorem llmnr_decode_message_total (data : Bytes) : Manticore.C09.decodeMessage data ≠ .panic :=
  Manticore.C09.decode_never_panics data
/-- `llmnr.DecodeDomainName` never panics, for every buffer and every (non-negative) offset; the
    recursion through compression pointers is well-founded (each pointer goes strictly backwards), so
    it also terminates.  Negative offsets are refused before anything is read
    (fixes/C07-llmnr-negative-offset.diff; campaign only — the model's offsets are naturals). -/
theorem llmnr_decode_name_total (data : Bytes) (off : Nat) : Manticore.C09.decodeName data off ≠ .panic :=
  Manticore.C09.decodeName_no_panic data off
/-- **allocation**: a decoded name has at most `(off+1)·|data|` bytes and costs at most
    `3·|data| + off·(off+4)·|data|` bytes of string data — polynomial in the input, no
    amplification through pointer loops -/
theorem llmnr_name_alloc_bound (data : Bytes) (off : Nat) (name : Bytes) (next cost : Nat)
    (h : Manticore.C09.decodeNameC data off = .ok (name, next, cost)) :
    name.length ≤ (off + 1) * data.length ∧ cost ≤ 3 * data.length + off * ((off + 4) * data.length) :=
  Manticore.C09.name_alloc_bound data off name next cost h

/-! ### NBNS packets and NetBIOS names (model of C10), NBT session frames (model of C11) -/

/-- `NBTNSPacket.Unmarshal` never panics -/
theorem nbns_unmarshal_total (data : Bytes) : Manticore.C10.unmarshal data ≠ .panic :=
  Manticore.C10.unmarshal_never_panics data
/-- `nbtns.FirstLevelDecode` never panics -/
theorem nbns_first_level_decode_total (e : Bytes) : Manticore.C10.firstLevelDecode e ≠ .panic :=
  Manticore.C10.l1_decode_never_panics e
/-- `NBTTransport.Receive` never panics, whatever bytes the peer sends and wherever the stream ends -/
theorem nbt_receive_total (s : Manticore.C11.Stream) : Manticore.C11.receive s ≠ .panic :=
  Manticore.C11.receive_total s

/-! ### allocation, network decoders (Model/NetAlloc.lean, Lemmas/C07AllocNet.lean) -/

/-- **allocation, `llmnr.DecodeMessage`**: the decoded message (`Message.size`: 48 for the header,
    per question its name + 16, per record its name + 32 + its RDATA) is at most
    `48 + len(data) + count·(len(data)² + 32)` with `5·count + 12 ≤ len(data)` — polynomial (cubic at
    worst) in the input, not linear: name compression lets every record point at the same long
    name and each decoded name is a fresh string (`llmnr_name_alloc_bound`). -/
theorem llmnr_decode_message_alloc_bound (data : Bytes) (m : Manticore.C09.Message)
    (h : Manticore.C09.decodeMessage data = .ok m) :
    m.size ≤ 48 + data.length + m.count * (data.length * data.length + 32) ∧ 5 * m.count + 12 ≤ data.length :=
  Manticore.C09.decodeMessage_size data m h
/-- `llmnr.DecodeResourceRecord`: `rr.RData = make([]byte, rr.RDLength)` is reached, for every input
    and offset, only when that many bytes follow the ten fixed ones; a decoded record's RDATA is
    exactly that allocation -/
theorem llmnr_rdata_alloc_bound (data : Bytes) (off : Nat) :
    (Manticore.C09.rdataAllocOf data off + off + 10 ≤ data.length ∨ Manticore.C09.rdataAllocOf data off = 0) ∧
    ∀ r off', Manticore.C09.decodeRR data off = .ok (r, off') →
      ∃ nx, off < nx ∧ r.rdata.length = Manticore.C09.rdataAllocOf data nx :=
  ⟨Manticore.C09.rdataAllocOf_le data off, fun r off' h => (Manticore.C09.decodeRR_size data off r off' h).2.2.2⟩
/-- the clause is not vacuous: with the `make` in front of the "truncated rdata" check an 11-byte
    input costs 65535 bytes -/
example : Manticore.C09.rdataAllocEager [0, 0, 1, 0, 1, 0, 0, 0, 0, 0xff, 0xff] 1 = 65535 := by decide
example : Manticore.C09.rdataAllocOf [0, 0, 1, 0, 1, 0, 0, 0, 0, 0xff, 0xff] 1 = 0 := by decide

/-- **allocation, `NBTNSPacket.Unmarshal`**: the decoded packet (header 48, per question name +
    scope + 16, per record name + scope + 32 + RDATA) is at most eight times the input -/
theorem nbns_unmarshal_alloc_bound (data : Bytes) (n : Nat) (p : Manticore.C10.Packet)
    (h : Manticore.C10.unmarshal data = .ok (n, p)) : p.size ≤ 8 * data.length :=
  Manticore.C10.unmarshal_size data n p h
/-- the `rr.RData = make([]byte, rr.RDLength)` of `unmarshalRRs` is reached only when that many bytes
    follow; a decoded record's RDATA is exactly that allocation -/
theorem nbns_rdata_alloc_bound (data : Bytes) (off : Nat) :
    (Manticore.C10.rdataAllocOf data off + off + 10 ≤ data.length ∨ Manticore.C10.rdataAllocOf data off = 0) ∧
    ∀ r off', Manticore.C10.unmarshalRR data off = .ok (r, off') →
      ∃ nx, off < nx ∧ r.rdata.length = Manticore.C10.rdataAllocOf data nx :=
  ⟨Manticore.C10.rdataAllocOf_le data off, fun r off' h => (Manticore.C10.unmarshalRR_size data off r off' h).2.2.2⟩
/-- a decoded NetBIOS name: name and scope together are at least 16 bytes shorter than the encoded text -/
theorem nbns_first_level_decode_alloc_bound (enc : Bytes) (n : Manticore.C10.NBName)
    (h : Manticore.C10.firstLevelDecode enc = .ok n) : n.size + 16 ≤ enc.length :=
  Manticore.C10.firstLevelDecode_size enc n h

/-- **allocation, `NBTTransport.Receive`**: the frame body is allocated from the 17-bit LENGTH field
    of the four header bytes BEFORE it is read (`buffer := make([]byte, length)`), so what `Receive`
    allocates is bounded by the field's range — 4 + 131071 bytes — and not by what the peer sends:
    "in proportion to the input" holds here only as this fixed cap (four bytes `00 01 ff ff` cost
    131075).  A message that is returned is exactly that buffer and did arrive. -/
theorem nbt_receive_alloc_bound (s : Manticore.C11.Stream) :
    Manticore.C11.receiveAllocOf s ≤ 131075 ∧
    ∀ m s', Manticore.C11.receive s = .ok (m, s') → m.length + 4 = Manticore.C11.receiveAllocOf s ∧ m.length + 4 ≤ s.length :=
  ⟨Manticore.C11.receiveAllocOf_le s, fun m s' h => Manticore.C11.receive_alloc s m s' h⟩
/-- the cap is reached by four bytes -/
example : Manticore.C11.receiveAllocOf [0, 1, 0xff, 0xff] = 131075 := by decide

/-! ### PKCS#7, GPP cpasswords, UTF-16 text (models of C12) -/

/-- `pkcs7.Unpad` never panics -/
theorem pkcs7_unpad_total (buf : Bytes) : Manticore.C12.PKCS7.unpad buf ≠ .panic :=
  Manticore.C12.pkcs7_unpad_total buf
/-- `pkcs7.Unpad` returns a proper prefix of its input -/
theorem pkcs7_unpad_bounded (buf m : Bytes) (h : Manticore.C12.PKCS7.unpad buf = .ok m) : m.length < buf.length := by
  obtain ⟨p, h1, _, hb⟩ := (Manticore.C12.PKCS7.unpad_ok_iff buf m).mp h
  rw [hb]; simp; omega
/-- `gppp.GPPPDecryptBytes` never panics, for every ciphertext and every block function in place of
    AES (with fixes/C12-gppp-odd-length.diff) -/
theorem gpp_decrypt_bytes_total (D : Bytes → Bytes) (c : Bytes) : Manticore.C12.GPP.decryptBytes D c ≠ .panic :=
  Manticore.C12.gpp_decrypt_total D c
/-- `gppp.GPPPDecryptBase64` never panics, for every string -/
theorem gpp_decrypt_base64_total (D : Bytes → Bytes) (s : Bytes) : Manticore.C12.GPP.decryptBase64 D s ≠ .panic :=
  Manticore.C07T.decryptBase64_no_panic D s
/-- `utf16.DecodeUTF16LE` returns a string for every byte string, odd lengths included
    (with fixes/C07-utf16-odd-length.diff: it used to index one past the end) -/
theorem utf16_decode_total (b : Bytes) : ∃ s, Manticore.C12.GPP.decodeUTF16LE b = .ok s :=
  Manticore.C07T.decodeUTF16LE_ok b
/-- `DecodeUTF16LE` reads exactly `len(b)/2` code units (its one allocation is `make([]uint16, len(b)/2)`) -/
theorem utf16_decode_units (b : Bytes) (us : List UInt16) (h : Manticore.C12.GPP.unitsLE b = .ok us) :
    us.length = b.length / 2 := (Manticore.C12.GPP.unitsLE_length b us h).symm

/-! #### allocation (Model/C12Alloc.lean, Lemmas/C07AllocRest.lean) -/

/-- **allocation, `pkcs7.Unpad`**: a re-slice of its input, nothing is allocated -/
theorem pkcs7_unpad_alloc_bound (buf m : Bytes) (h : Manticore.C12.PKCS7.unpad buf = .ok m) : m.length < buf.length :=
  Manticore.C07A.Rest.pkcs7_unpad_alloc_bound buf m h
/-- **allocation, `utf16.DecodeUTF16LE`**: `make([]uint16, len(b)/2)`, the rune slice of `utf16.Decode`
    and the returned string (`utf16AllocOf`) are at most 9 bytes per code unit on every input; the
    string is at most 3 bytes per code unit (attained: U+20AC) -/
theorem utf16_decode_alloc_bound (b : Bytes) :
    Manticore.C12.GPP.utf16AllocOf b ≤ 9 * (b.length / 2) ∧
    ∀ s, Manticore.C12.GPP.decodeUTF16LE b = .ok s →
      s.length ≤ Manticore.C12.GPP.utf16AllocOf b ∧ s.length ≤ 3 * (b.length / 2) :=
  ⟨Manticore.C07A.Rest.utf16AllocOf_le b, fun s h => Manticore.C07A.Rest.decodeUTF16LE_alloc_bound b s h⟩
/-- **allocation, `gppp.GPPPDecryptBytes`**: the IV, `plaintext := make([]byte, len(ciphertext))` and the
    UTF-16 decoding behind `Unpad` (`gppBytesAllocOf`) are at most `6·len(c) + 16` on every input and for
    every block function in place of AES; the result is no bigger -/
theorem gpp_decrypt_bytes_alloc_bound (D : Bytes → Bytes) (c : Bytes) :
    Manticore.C12.GPP.gppBytesAllocOf D c ≤ 6 * c.length + 16 ∧
    ∀ s, Manticore.C12.GPP.decryptBytes D c = .ok s →
      s.length ≤ Manticore.C12.GPP.gppBytesAllocOf D c ∧ s.length ≤ 3 * (c.length / 2) :=
  ⟨Manticore.C07A.Rest.gppBytesAllocOf_le D c, fun s h => Manticore.C07A.Rest.decryptBytes_alloc_bound D c s h⟩
/-- **allocation, `gppp.GPPPDecryptBase64`**: re-padding, the base64 buffer (made before a character is
    looked at: `len/4·3`) and `GPPPDecryptBytes` behind a successful decode (`gppAllocOf`) are at most
    `7·len(s) + 32` on every input; the result is no bigger, and `8·len(result) ≤ 9·len(s) + 18` -/
theorem gpp_decrypt_base64_alloc_bound (D : Bytes → Bytes) (s : Bytes) :
    Manticore.C12.GPP.gppAllocOf D s ≤ 7 * s.length + 32 ∧
    ∀ r, Manticore.C12.GPP.decryptBase64 D s = .ok r →
      r.length ≤ Manticore.C12.GPP.gppAllocOf D s ∧ 8 * r.length ≤ 9 * s.length + 18 :=
  ⟨Manticore.C07A.Rest.gppAllocOf_le D s, fun r h => Manticore.C07A.Rest.decryptBase64_alloc_bound D s r h⟩

/-! ### UUID and GUID readers (models of C13) -/

/-- `(*UUID).Unmarshal` never panics -/
theorem uuid_unmarshal_total (m : Bytes) : Manticore.C13.unmarshal m ≠ .panic := Manticore.C07T.uuid_unmarshal_no_panic m
/-- `(*UUIDv1).Unmarshal` never panics -/
theorem uuid_v1_unmarshal_total (m : Bytes) : Manticore.C13.v1Unmarshal m ≠ .panic := Manticore.C07T.v1Unmarshal_no_panic m
/-- `(*UUIDv2).Unmarshal` never panics -/
theorem uuid_v2_unmarshal_total (m : Bytes) : Manticore.C13.v2Unmarshal m ≠ .panic := Manticore.C07T.v2Unmarshal_no_panic m
/-- `(*UUIDv8).Unmarshal` never panics -/
theorem uuid_v8_unmarshal_total (m : Bytes) : Manticore.C13.v8Unmarshal m ≠ .panic := Manticore.C07T.v8Unmarshal_no_panic m
/-- `(*UUIDv1).FromBytes`, `(*UUIDv2).FromBytes`, `(*UUIDv8).FromBytes` never panic -/
theorem uuid_from_bytes_total (m : Bytes) :
    Manticore.C13.v1FromBytes m ≠ .panic ∧ Manticore.C13.v2FromBytes m ≠ .panic ∧ Manticore.C13.v8FromBytes m ≠ .panic :=
  ⟨Manticore.C07T.v1FromBytes_no_panic m, Manticore.C07T.v2FromBytes_no_panic m, Manticore.C07T.v8FromBytes_no_panic m⟩
/-- `(*UUID).FromString` never panics -/
theorem uuid_from_string_total (s : Bytes) : Manticore.C13.uuidFromString s ≠ .panic := Manticore.C07T.uuidFromString_no_panic s
/-- `(*UUIDv1).FromString`, `(*UUIDv2).FromString`, `(*UUIDv8).FromString` never panic -/
theorem uuid_versions_from_string_total (s : Bytes) :
    Manticore.C13.v1FromString s ≠ .panic ∧ Manticore.C13.v2FromString s ≠ .panic ∧ Manticore.C13.v8FromString s ≠ .panic :=
  ⟨Manticore.C07T.v1FromString_no_panic s, Manticore.C07T.v2FromString_no_panic s, Manticore.C07T.v8FromString_no_panic s⟩
/-- `(*GUID).FromRawBytes` returns a GUID for every byte string (the nil GUID below 16 bytes; with
    fixes/C07-guid-fromrawbytes-short.diff: it used to index past the end) -/
theorem guid_from_raw_bytes_total (b : Bytes) : ∃ g, Manticore.C13.fromRawBytes b = .ok g :=
  let ⟨g, h, _⟩ := (Manticore.C13.fromRaw_total b).1; ⟨g, h⟩
/-- `guid.FromFormatN/D/B/P/X` never panic (with fixes/C13-guid-strict-dbp.diff) -/
theorem guid_parse_total (F : Manticore.C13.Fmt) (s : Bytes) : Manticore.C13.parse F s ≠ .panic :=
  Manticore.C13.guid_parse_never_panics F s
/-- `guid.FromString` never panics -/
theorem guid_from_string_total (s : Bytes) : Manticore.C13.fromString s ≠ .panic :=
  Manticore.C13.fromString_never_panics s

/-- **allocation, UUID / GUID readers**: every result is a structure of fixed-width fields whatever the
    length of the input (31, 30, 46, 23, 40 bytes: 8 per integer field, one per array byte) -/
theorem uuid_guid_fixed_alloc_bound :
    (∀ m u, Manticore.C13.unmarshal m = .ok u → Manticore.C07A.Fixed.uuidSize u = 31) ∧
    (∀ s u, Manticore.C13.uuidFromString s = .ok u → Manticore.C07A.Fixed.uuidSize u = 31) ∧
    (∀ m v, Manticore.C13.v1Unmarshal m = .ok v → Manticore.C07A.Fixed.v1Size v = 30) ∧
    (∀ m v, Manticore.C13.v1FromBytes m = .ok v → Manticore.C07A.Fixed.v1Size v = 30) ∧
    (∀ s v, Manticore.C13.v1FromString s = .ok v → Manticore.C07A.Fixed.v1Size v = 30) ∧
    (∀ m v, Manticore.C13.v2Unmarshal m = .ok v → Manticore.C07A.Fixed.v2Size v = 46) ∧
    (∀ m v, Manticore.C13.v2FromBytes m = .ok v → Manticore.C07A.Fixed.v2Size v = 46) ∧
    (∀ s v, Manticore.C13.v2FromString s = .ok v → Manticore.C07A.Fixed.v2Size v = 46) ∧
    (∀ m v, Manticore.C13.v8Unmarshal m = .ok v → Manticore.C07A.Fixed.v8Size v = 23) ∧
    (∀ m v, Manticore.C13.v8FromBytes m = .ok v → Manticore.C07A.Fixed.v8Size v = 23) ∧
    (∀ s v, Manticore.C13.v8FromString s = .ok v → Manticore.C07A.Fixed.v8Size v = 23) ∧
    (∀ b g, Manticore.C13.fromRawBytes b = .ok g → Manticore.C07A.Fixed.guidSize g = 40) ∧
    (∀ F s g, Manticore.C13.parse F s = .ok g → Manticore.C07A.Fixed.guidSize g = 40) ∧
    (∀ s g, Manticore.C13.fromString s = .ok g → Manticore.C07A.Fixed.guidSize g = 40) :=
  Manticore.C07A.Fixed.c13_fixed_alloc_bound

/-! ### key-credential blobs (models of C14 and C15) -/

/-- `KeyCredential.FromBytes` never panics: entry lengths beyond the buffer, empty or short entries,
    blobs under four bytes are errors (with fixes/C07-keycredential-frombytes-bounds.diff) -/
theorem key_credential_parse_total (k : Manticore.C14.KeyCredential) (b : Bytes) :
    Manticore.C14.KeyCredential.fromBytes k b ≠ .panic := Manticore.C14.parse_total k b
/-- `KeyCredential.CheckIntegrity` / `ComputeKeyHash` return on every credential value (the entry walk
    stops at an entry that overruns the buffer: fixes/C07-keycredential-keyhash-walk.diff), `H` arbitrary -/
theorem key_credential_integrity_total (H : Bytes → Bytes) (k : Manticore.C14.KeyCredential) :
    ∃ b, Manticore.C14.integrityOk H k = .ok b := Manticore.C14.integrity_total H k
/-- `NewKeyCredential` returns for every key material, also beyond a 16-bit entry length -/
theorem key_credential_new_total (H : Bytes → Bytes) (v : UInt32) (ids : Bytes) (m : Manticore.C14.RSAKeyMaterial)
    (g : Manticore.C14.Guid) (t1 t2 : UInt64) : ∃ k, Manticore.C14.newKeyCredential H v ids m g t1 t2 = .ok k :=
  Manticore.C14.new_total H v ids m g t1 t2
/-- `RSAKeyMaterial.FromBytes` returns (a value, or the receiver with an error) on every byte string
    (with fixes/C07-rsakeymaterial-bounds.diff) -/
theorem rsa_key_material_parse_total (rk : Manticore.C14.RSAKeyMaterial) (v e : Bytes) :
    ∃ r, Manticore.C14.RSAKeyMaterial.fromBytes rk v e = .ok r := Manticore.C14.rsa_fromBytes_ok rk v e
/-- the parsed modulus and primes are sub-slices of the input: 24 header bytes plus their lengths fit in it -/
theorem rsa_key_material_parse_bounded (rk r : Manticore.C14.RSAKeyMaterial) (v e : Bytes)
    (h : Manticore.C14.RSAKeyMaterial.fromBytes rk v e = .ok (r, false)) :
    r.rawBytes = v ∧ 24 + r.modulus.length + r.prime1.length + r.prime2.length ≤ v.length :=
  Manticore.C14.rsa_fromBytes_bounded rk r v e h
/-- `DNWithBinary.Parse` never panics -/
theorem dn_with_binary_parse_total (raw : Bytes) : Manticore.C14.dnParse raw ≠ .panic := Manticore.C14.dnParse_no_panic raw
/-- `DNWithBinary.Parse`: the binary value (two hex characters per byte) and the DN fit in the input -/
theorem dn_with_binary_parse_bounded (raw bin dn : Bytes) (h : Manticore.C14.dnParse raw = .ok (bin, dn)) :
    2 * bin.length + dn.length ≤ raw.length := Manticore.C14.dnParse_bounded raw bin dn h
/-- `utils.ConvertFromBinaryTime` returns a time for every byte string (tick 0 below 8 bytes; with
    fixes/C07-keycredential-binarytime-short.diff) -/
theorem key_credential_time_total (raw : Bytes) : ∃ t, Manticore.C15.convertFromBinaryTime raw = .ok t :=
  Manticore.C07T.convertFromBinaryTime_ok raw
/-- the GUID reader used for the DeviceId entry (the C14 copy of the model) -/
theorem key_credential_device_id_total (d : Bytes) : ∃ g, Manticore.C14.Guid.fromRawBytes d = .ok g :=
  Manticore.C14.guid_fromRawBytes_ok d

/-! #### allocation (Model/C14Alloc.lean, Lemmas/C07AllocKeys.lean) -/

/-- **allocation, `KeyCredential.FromBytes`**: what the entry loop allocates — the identifier text, the
    legacy-usage string, the two copies inside the custom key information; every other field is a view
    of the blob or a number — summed over all entries reached, replaced results and the failing entry
    included (`kcAllocOf`), is at most `2·len(b)`; a decoded credential's allocated part is no bigger,
    and its whole size grows by at most `3·len(b)` -/
theorem key_credential_parse_alloc_bound (k : Manticore.C14.KeyCredential) (b : Bytes) :
    Manticore.C14.kcAllocOf k b ≤ 2 * b.length ∧
    ∀ k', Manticore.C14.KeyCredential.fromBytes k b = .ok k' →
      k'.owned ≤ k.owned + Manticore.C14.kcAllocOf k b ∧ k'.size + 8 ≤ k.size + 3 * b.length :=
  Manticore.C07A.Keys.keyCredential_fromBytes_alloc_bound k b
/-- the same from a fresh credential: `size ≤ 3·len(b) + 160` -/
theorem key_credential_parse_fresh_alloc_bound (b : Bytes) (k' : Manticore.C14.KeyCredential)
    (h : Manticore.C14.KeyCredential.fromBytes {} b = .ok k') :
    k'.size ≤ 3 * b.length + 160 ∧ k'.owned ≤ Manticore.C14.kcAllocOf {} b ∧ Manticore.C14.kcAllocOf {} b ≤ 2 * b.length :=
  Manticore.C07A.Keys.keyCredential_fromBytes_alloc_bound_zero b k' h
/-- **allocation, `RSAKeyMaterial.FromBytes`** (no `make`: modulus and primes are slice views behind the
    64-bit sum check; `rsaAllocOf` = the bytes they span, what a copying variant would cost): at most
    `len(v)` on every input; a parsed value's three fields are exactly that, its size at most `2·len(v)` -/
theorem rsa_key_material_parse_alloc_bound (rk r : Manticore.C14.RSAKeyMaterial) (v e : Bytes) (flag : Bool)
    (h : Manticore.C14.RSAKeyMaterial.fromBytes rk v e = .ok (r, flag)) :
    Manticore.C14.rsaAllocOf v ≤ v.length ∧
    (flag = false → r.modulus.length + r.prime1.length + r.prime2.length = Manticore.C14.rsaAllocOf v ∧
      r.size ≤ 2 * v.length) ∧
    (flag = true → Manticore.C14.rsaAllocOf v = 0 ∧ r.size ≤ rk.size + v.length) :=
  Manticore.C07A.Keys.rsa_fromBytes_alloc_bound rk r v e flag h
/-- **allocation, `CustomKeyInformation.FromBytes`**: `Reserved = make([]byte, 10)` and
    `EncodedExtendedCKI = make([]byte, RawBytesSize-19)` (`ckiAllocOf`) are at most `len(b)` on every
    input, and exactly what a fresh receiver owns afterwards -/
theorem custom_key_information_alloc_bound (c : Manticore.C14.CKI) (b : Bytes) :
    Manticore.C14.ckiAllocOf b ≤ b.length ∧
    (c.fromBytes b).1.owned ≤ c.owned + Manticore.C14.ckiAllocOf b ∧
    (c.owned = 0 → (c.fromBytes b).1.owned = Manticore.C14.ckiAllocOf b) ∧
    (c.fromBytes b).1.size ≤ c.size + 2 * b.length :=
  Manticore.C07A.Keys.cki_fromBytes_alloc_bound c b
/-- **allocation, `DNWithBinary.Parse`**: the announced size is only compared, never used as a length;
    `hex.DecodeString` makes `len(hex)/2` bytes and `string(parts[3])` copies the DN behind the
    comparison (`dnAllocOf`): at most `len(raw)` on every input, and exactly the size of a parsed value -/
theorem dn_with_binary_parse_alloc_bound (raw : Bytes) :
    Manticore.C14.dnAllocOf raw ≤ raw.length ∧
    ∀ bin dn, Manticore.C14.dnParse raw = .ok (bin, dn) →
      Manticore.C14.dnSize (bin, dn) = Manticore.C14.dnAllocOf raw ∧ Manticore.C14.dnSize (bin, dn) ≤ raw.length :=
  Manticore.C07A.Keys.dnParse_alloc_bound raw
/-- the clause is not vacuous: allocating by the announced size in front of the comparison costs
    2 000 000 000 bytes for these 17 -/
example : Manticore.C14.dnAllocEager (asciiBytes "B:4000000000:00:x") = 2000000000 := by decide
/-- **allocation, `ConvertToBinaryIdentifier`**: the hex / base64 output buffer is no longer than the text -/
theorem key_credential_identifier_alloc_bound (s : Bytes) (v : UInt32) :
    Manticore.C14.toBinaryIdAllocOf s v ≤ s.length ∧
    ∀ b, Manticore.C14.toBinaryId s v = some b → b.length ≤ Manticore.C14.toBinaryIdAllocOf s v ∧ b.length ≤ s.length :=
  Manticore.C07A.Keys.toBinaryId_alloc_bound s v
/-- fixed-size results of the key-credential readers: version (at most 20), GUID (40), binary time (24) -/
theorem key_credential_fixed_alloc_bound :
    (∀ b, Manticore.C14.versionSize (Manticore.C14.versionFromBytes b) ≤ 20) ∧
    (∀ d g, Manticore.C14.Guid.fromRawBytes d = .ok g → g.size = 40) ∧
    (∀ raw t, Manticore.C15.convertFromBinaryTime raw = .ok t → Manticore.C14.kcTimeSize t = 24) :=
  ⟨fun b => (Manticore.C07A.Keys.versionFromBytes_alloc_bound b).1,
   fun d g h => Manticore.C07A.Keys.guid_fromRawBytes_alloc_bound d g h,
   fun raw t h => (Manticore.C07A.Keys.convertFromBinaryTime_alloc_bound raw t h).1⟩

/-! ### SIDs (model of C16) -/

/-- binary SIDs (re-exported from C16): total on every byte string -/
theorem sid_total (b : Bytes) : ∃ s, Manticore.C16.parseSID b = .ok s := Manticore.C16.sid_total b


/-- **allocation, `ParseSIDFromBytes`**: the slice slots, the `Sprintf` texts and the joined string
    (`sidAllocOf`; nothing in front of the `len < 8+4·count` check) are at most `10·len(b)` on every
    input; the text is at most `3·len(b) + 2` characters -/
theorem sid_alloc_bound (b : Bytes) :
    Manticore.C16.sidAllocOf b ≤ 10 * b.length ∧
    ∀ s, Manticore.C16.parseSID b = .ok s → s.length ≤ Manticore.C16.sidAllocOf b ∧ s.length ≤ 3 * b.length + 2 :=
  ⟨Manticore.C07A.Rest.sidAllocOf_le b, fun s h => Manticore.C07A.Rest.parseSID_alloc_bound b s h⟩
/-- **allocation, `GetDomainFromDistinguishedName`**: the result is no longer than the input, and what is allocated
    on the way (one header per part, the bytes written to the builder) is at most `17·len + 16`.  Before the repair
    (`domain += … + "."` once per `DC=` part) it was quadratic — `dnAllocConcat`, 136 bytes of strings for 16 copies of
    `DC=,` — and measured so on the real code (68 MB for 40 000 bytes). -/
theorem dn_domain_alloc_bound (dn : Bytes) :
    (Manticore.C16.domainOfDN dn).length ≤ dn.length ∧
    Manticore.C16.dnAllocOf dn ≤ 17 * dn.length + 16 :=
  ⟨Manticore.C07A.Rest.domainOfDN_alloc_bound dn, Manticore.C07A.Rest.dnAllocOf_le dn⟩
/-- **allocation, LDAP time parsers and the binary time**: one integer / one time value -/
theorem ldap_time_fixed_alloc_bound :
    (∀ s, Manticore.C07A.Fixed.int64Size (Manticore.C15.ldapToUnix s) = 8) ∧
    (∀ s, Manticore.C07A.Fixed.int64Size (Manticore.C15.ldapDurationToSeconds s) = 8) ∧
    (∀ raw t, Manticore.C15.convertFromBinaryTime raw = .ok t → Manticore.C07A.Fixed.kcTimeSize t = 24) :=
  Manticore.C07A.Fixed.c15_fixed_alloc_bound

/-! ### addresses, port ranges, LM:NT credentials (models of C20) -/

/-- `ip.NewIPv4FromString` returns (an address or nil) for every string (with fixes/C20-ipv4-parse.diff) -/
theorem ipv4_parse_total (s : Bytes) : ∃ r, Manticore.C20.parseIPv4 s = .ok r := Manticore.C20.ipv4_parse_total s
/-- `ip.NewIPv6FromString` returns (an address or nil) for every string -/
theorem ipv6_parse_total (s : Bytes) : ∃ r, Manticore.C20.parseIPv6 s = .ok r := Manticore.C20.ipv6_parse_total s
/-- `ip.NewTCPPortRangeFromString` never panics -/
theorem port_range_parse_total (s : Bytes) : Manticore.C20.parsePortRange s ≠ .panic := Manticore.C20.port_parse_total s
/-- `credentials.ParseLMNTHashes` never panics -/
theorem lmnt_parse_total (s : Bytes) : Manticore.C20.parseLMNT s ≠ .panic := Manticore.C20.lmnt_total s

/-- **allocation, address / port-range / LM:NT parsers**: fixed-size results (an IPv4 at most 40, an
    IPv6 at most 64, a port range two integers — the ports in between are never materialised —, two
    hashes of 0 or 32 characters) -/
theorem address_parsers_fixed_alloc_bound :
    (∀ s r, Manticore.C20.parseIPv4 s = .ok r → Manticore.C07A.Fixed.ipv4Size r ≤ 40) ∧
    (∀ s r, Manticore.C20.parseIPv6 s = .ok r → Manticore.C07A.Fixed.ipv6Size r ≤ 64) ∧
    (∀ s r, Manticore.C20.parsePortRange s = .ok r → Manticore.C07A.Fixed.portRangeSize r = 16) ∧
    (∀ s r, Manticore.C20.parseLMNT s = .ok r → Manticore.C07A.Fixed.lmntSize r ≤ 64) :=
  Manticore.C07A.Fixed.c20_fixed_alloc_bound

/-! ### non-vacuity: the former crash inputs are now values or errors of the models -/

example : Manticore.C12.GPP.decodeUTF16LE [0x41] = .ok [] := by decide
example : Manticore.C14.KeyCredential.fromBytes {} [0, 2, 0, 0, 0xff, 0xff, 3, 0] = .err :=
  Manticore.C14.parse_rejects_entry_length
example : Manticore.C15.convertFromBinaryTime [1] = .ok (.at 0 (-11644473600) 0) := by decide
example : Manticore.C13.fromRawBytes [1] = .ok ⟨0, 0, 0, 0, 0⟩ := by decide

end Manticore.C07
