/-
  C07 — Every decoder is total: any input yields a value or an error, never a crash.
  Property theorems only.  This file covers the SMB command decoders (the 115 regenerated
  unmarshal programs: the kernel decides the static predicate `Guarded` on them, `guarded_sound`
  proves the predicate sound for the semantics, `smb_decode_total` is the resulting theorem about
  every input) and the nested wire types (C06 decoders); the other decoding entry points are proved
  total in the property files of their own models and re-exported here.
-/
import Manticore.Model.SmbCmd
import Manticore.Model.SmbCodecs
import Manticore.Gen.SmbCommands
import Manticore.Props.C16
import Manticore.Lemmas.C06Total
import Manticore.Lemmas.SmbGuarded
import Manticore.Lemmas.SmbCodecsHonest
namespace Manticore.C07
open Manticore Manticore.SmbIR Manticore.Gen.SmbCommands

/-- **Every regenerated unmarshal program is guarded**: in each of the 115 command structures, every
    slice or index expression of `Unmarshal` is dominated by a length check on the same block that
    implies it (`Guarded`, a static predicate evaluated by the kernel on the programs extracted from
    /repo on this run).  A dropped or weakened guard anywhere makes this fail to check. -/
theorem smb_all_commands_guarded : commands.all Guarded = true := by decide +kernel

/-- the extraction saw every command structure (a vanished file would silently shrink the claim) -/
theorem smb_command_count : commands.length = 115 := by decide +kernel

/-- the envelope split (`Parameters.Unmarshal`, `Data.Unmarshal`) never panics -/
theorem smb_split_total (data : Bytes) : splitParams data ≠ .panic ∧ ∀ r, splitData r ≠ .panic := by
  constructor
  · unfold splitParams; split <;> (try split) <;> (try split) <;> simp
  · intro r
    match r with
    | [] => simp [splitData]
    | [_] => simp [splitData]
    | b0 :: b1 :: rest =>
      simp only [splitData]
      by_cases h : b0.toNat + 256 * b1.toNat > 0
      · by_cases h2 : rest.length < b0.toNat + 256 * b1.toNat <;> simp [h, h2]
      · simp [h]

/-- `utils.GetNullTerminatedUnicodeString` consumes no more than it is given -/
theorem cstr_offset_le (d : Bytes) : (cstrUnicode d).2 ≤ d.length := by
  unfold cstrUnicode; exact Nat.min_le_right _ _

/-! ### `Guarded` is sound: the kernel-decided fact about the programs is a theorem about every input

`smb_all_commands_guarded` is a statement about program *texts*.  The three theorems below turn it
into a statement about *runs*: for every input buffer (and every spare capacity behind the two
streams, every word count, every initial field assignment) the model of `Unmarshal` returns a value
or an error.  The proof (Lemmas/SmbGuarded.lean) interprets the analysis state `Known` at a run-time
state and shows each accepted statement preserves it; the only assumption is that the nested
decoders are honest, which `std_honest` discharges for the table actually used. -/

/-- **Soundness of the static predicate**: a command whose unmarshal program is `Guarded` never
    panics — on any parameter stream `P`, data stream `D`, bytes `Pext`/`Dext` behind them inside
    their backing arrays, word count and initial field values — for any codec table whose decoders
    do not panic, report no more than they were given and advance on a non-empty window
    (`HonestCodecs`, Lemmas/SmbGuarded.lean).  The model reports an endless Go loop as a panic too,
    so this is also termination of the `for offset+size <= len(blk)` loops. -/
theorem guarded_sound (C : Codecs) (hC : HonestCodecs C) (c : Cmd) (hg : Guarded c = true) :
    ∀ env0 wc P D Pext Dext, runU C c env0 wc P D Pext Dext ≠ .panic :=
  fun env0 wc P D Pext Dext => runU_no_panic C hC c hg env0 wc P D Pext Dext

/-- the codec table the command models use (`SmbCodecs.std`: the C06 decoders and `Dialects`)
    satisfies the three decoder laws -/
theorem std_honest : HonestCodecs Manticore.SmbCodecs.std := Manticore.SmbCodecs.std_honest

/-- **Every SMB command decoder is total**: for each of the 115 regenerated command structures,
    every initial field assignment and every input byte string, the model of
    `Unmarshal` (envelope split, then the extracted program with Go's slice-bounds semantics) yields
    a value or an error, never a panic. -/
theorem smb_decode_total : ∀ c ∈ Manticore.Gen.SmbCommands.commands, ∀ env0 data,
    decodeCmd Manticore.SmbCodecs.std c env0 data ≠ .panic := by
  intro c hc env0 data
  have hg : Guarded c = true := List.all_eq_true.mp smb_all_commands_guarded c hc
  unfold decodeCmd
  cases hp : splitParams data with
  | ok r =>
    obtain ⟨wc, P, rest⟩ := r
    simp only []
    cases hd : splitData rest with
    | ok r2 =>
      obtain ⟨D, Dext⟩ := r2
      exact guarded_sound _ std_honest c hg env0 wc P D _ Dext
    | err => simp
    | panic => exact absurd hd ((smb_split_total data).2 rest)
  | err => simp
  | panic => exact absurd hp (smb_split_total data).1

/-- non-vacuity: a concrete regenerated command satisfies the hypothesis of `guarded_sound` -/
example : Guarded cmd_CloseRequest = true := by decide
example : cmd_CloseRequest ∈ commands := by simp [commands, chunk0]

/-- the predicate is not trivially true, and what it rules out is real: a read with no guard in
    front is rejected, and that program does panic on an empty parameter stream -/
example : Guarded { (default : Cmd) with unmarshal := [.readInt .P 2 .le "FID"] } = false := by decide
example : runU Manticore.SmbCodecs.std { (default : Cmd) with unmarshal := [.readInt .P 2 .le "FID"] } [] 0 [] []
    = .panic := by decide
/-! The soundness proof found three statements where the predicate accepted a program that the
    semantics can drive into a panic; the predicate was tightened (Model/SmbCmd.lean) and all 115
    regenerated programs still pass.  One witness per repair: the program is now rejected, and it
    does panic (or hang) on the given input. -/

/-- (1) `whileFitsSub` with a zero-size window never advances: Go would loop forever -/
example : Guarded { (default : Cmd) with unmarshal := [.whileFitsSub .D "X" "Dialects" 0] } = false := by decide
example : runU Manticore.SmbCodecs.std { (default : Cmd) with unmarshal := [.whileFitsSub .D "X" "Dialects" 0] }
    [("X", .ts [])] 0 [] [] = .panic := by decide

/-- (2) `readArr3` assigns its field, so a guard stated in terms of that field no longer holds -/
private def witnessArr3 : Cmd := { (default : Cmd) with unmarshal :=
  [.guard .D (.lit 12), .guard .P (.flen "R"), .readArr3 .D "R", .readBytes .P "X" (.flen "R")] }
example : Guarded witnessArr3 = false := by decide
example : runU Manticore.SmbCodecs.std witnessArr3 [("R", .b [])] 0 [] (List.replicate 12 0) = .panic := by decide

/-- (3) a nested decoder whose error is not checked leaves `bytesRead` as it was, so
    `offset += bytesRead` may jump past the end -/
private def witnessUnchecked : Cmd := { (default : Cmd) with unmarshal :=
  [.readSub .D "S" "SMB_STRING" none false true true, .guard .P (.lit 3),
   .readSub .P "A" "SMB_NMPIPE_STATUS" (some 3) false false true, .advanceRead, .readRest .P "X"] }
example : Guarded witnessUnchecked = false := by decide
example : runU Manticore.SmbCodecs.std witnessUnchecked [] 0 [0, 0, 0] [2, 65, 65, 65, 65, 0] = .panic := by decide

/-! ### nested wire types: every C06 decoder is total (Lemmas/C06Total.lean)

For each type: `Unmarshal` never panics, and a success reports a byte count `k` with
`0 < k ≤ len(data)`. -/
open Manticore.C06 in
/-- `SMB_STRING.Unmarshal` never panics -/
theorem smb_string_decode_total (b : Bytes) : SmbString.decode b ≠ .panic := SmbString.decode_total b
open Manticore.C06 in
/-- `SMB_STRING.Unmarshal` reports between 1 and `len(data)` bytes -/
theorem smb_string_decode_bounded (b : Bytes) (v : SmbString.V) (k : Nat) (h : SmbString.decode b = .ok (v, k)) :
    0 < k ∧ k ≤ b.length := ⟨SmbString.decode_pos b v k h, SmbString.decode_bounded b v k h⟩
open Manticore.C06 in
/-- `OEM_STRING.Unmarshal` never panics -/
theorem oem_string_decode_total (b : Bytes) : OemString.decode b ≠ .panic := OemString.decode_total b
open Manticore.C06 in
/-- `OEM_STRING.Unmarshal` reports between 1 and `len(data)` bytes -/
theorem oem_string_decode_bounded (b : Bytes) (v : OemString.V) (k : Nat) (h : OemString.decode b = .ok (v, k)) :
    0 < k ∧ k ≤ b.length := ⟨OemString.decode_pos b v k h, OemString.decode_bounded b v k h⟩
open Manticore.C06 in
/-- `SMB_DATE.Unmarshal` never panics -/
theorem smb_date_decode_total (b : Bytes) : SmbDate.decode b ≠ .panic := SmbDate.decode_total b
open Manticore.C06 in
/-- `SMB_DATE.Unmarshal` reports between 1 and `len(data)` bytes -/
theorem smb_date_decode_bounded (b : Bytes) (v : SmbDate.V) (k : Nat) (h : SmbDate.decode b = .ok (v, k)) :
    0 < k ∧ k ≤ b.length := ⟨SmbDate.decode_pos b v k h, SmbDate.decode_bounded b v k h⟩
open Manticore.C06 in
/-- `FILETIME.Unmarshal` (also `SMB_TIME`) never panics -/
theorem filetime_decode_total (b : Bytes) : FileTime.decode b ≠ .panic := FileTime.decode_total b
open Manticore.C06 in
/-- `FILETIME.Unmarshal` reports between 1 and `len(data)` bytes -/
theorem filetime_decode_bounded (b : Bytes) (v : FileTime.V) (k : Nat) (h : FileTime.decode b = .ok (v, k)) :
    0 < k ∧ k ≤ b.length := ⟨FileTime.decode_pos b v k h, FileTime.decode_bounded b v k h⟩
open Manticore.C06 in
/-- `LOCKING_ANDX_RANGE32.Unmarshal` never panics -/
theorem range32_decode_total (b : Bytes) : Range32.decode b ≠ .panic := Range32.decode_total b
open Manticore.C06 in
/-- `LOCKING_ANDX_RANGE32.Unmarshal` reports between 1 and `len(data)` bytes -/
theorem range32_decode_bounded (b : Bytes) (v : Range32.V) (k : Nat) (h : Range32.decode b = .ok (v, k)) :
    0 < k ∧ k ≤ b.length := ⟨Range32.decode_pos b v k h, Range32.decode_bounded b v k h⟩
open Manticore.C06 in
/-- `LOCKING_ANDX_RANGE64.Unmarshal` never panics -/
theorem range64_decode_total (b : Bytes) : Range64.decode b ≠ .panic := Range64.decode_total b
open Manticore.C06 in
/-- `LOCKING_ANDX_RANGE64.Unmarshal` reports between 1 and `len(data)` bytes -/
theorem range64_decode_bounded (b : Bytes) (v : Range64.V) (k : Nat) (h : Range64.decode b = .ok (v, k)) :
    0 < k ∧ k ≤ b.length := ⟨Range64.decode_pos b v k h, Range64.decode_bounded b v k h⟩
open Manticore.C06 in
/-- `SMB_NMPIPE_STATUS.Unmarshal` never panics -/
theorem pipe_status_decode_total (b : Bytes) : PipeStatus.decode b ≠ .panic := PipeStatus.decode_total b
open Manticore.C06 in
/-- `SMB_NMPIPE_STATUS.Unmarshal` reports between 1 and `len(data)` bytes -/
theorem pipe_status_decode_bounded (b : Bytes) (v : PipeStatus.V) (k : Nat) (h : PipeStatus.decode b = .ok (v, k)) :
    0 < k ∧ k ≤ b.length := ⟨PipeStatus.decode_pos b v k h, PipeStatus.decode_bounded b v k h⟩
open Manticore.C06 in
/-- `SMB_RESUME_KEY.Unmarshal` never panics -/
theorem resume_key_decode_total (b : Bytes) : ResumeKey.decode b ≠ .panic := ResumeKey.decode_total b
open Manticore.C06 in
/-- `SMB_RESUME_KEY.Unmarshal` reports between 1 and `len(data)` bytes -/
theorem resume_key_decode_bounded (b : Bytes) (v : ResumeKey.V) (k : Nat) (h : ResumeKey.decode b = .ok (v, k)) :
    0 < k ∧ k ≤ b.length := ⟨ResumeKey.decode_pos b v k h, ResumeKey.decode_bounded b v k h⟩
open Manticore.C06 in
/-- `SMB_FILE_ATTRIBUTES.Unmarshal` never panics -/
theorem file_attributes_decode_total (b : Bytes) : FileAttributes.decode b ≠ .panic := FileAttributes.decode_total b
open Manticore.C06 in
/-- `SMB_FILE_ATTRIBUTES.Unmarshal` reports between 1 and `len(data)` bytes -/
theorem file_attributes_decode_bounded (b : Bytes) (v : FileAttributes.V) (k : Nat)
    (h : FileAttributes.decode b = .ok (v, k)) : 0 < k ∧ k ≤ b.length :=
  ⟨FileAttributes.decode_pos b v k h, FileAttributes.decode_bounded b v k h⟩
open Manticore.C06 in
/-- `SMB_DIRECTORY_INFORMATION.Unmarshal` never panics -/
theorem dir_info_decode_total (b : Bytes) : DirInfo.decode b ≠ .panic := DirInfo.decode_total b
open Manticore.C06 in
/-- `SMB_DIRECTORY_INFORMATION.Unmarshal` reports between 1 and `len(data)` bytes -/
theorem dir_info_decode_bounded (b : Bytes) (v : DirInfo.V) (k : Nat) (h : DirInfo.decode b = .ok (v, k)) :
    0 < k ∧ k ≤ b.length := ⟨DirInfo.decode_pos b v k h, DirInfo.decode_bounded b v k h⟩
open Manticore.C06 in
/-- the AndX block's `Unmarshal` never panics -/
theorem andx_decode_total (b : Bytes) : AndX.decode b ≠ .panic := AndX.decode_total b
open Manticore.C06 in
/-- the AndX block's `Unmarshal` reports between 1 and `len(data)` bytes -/
theorem andx_decode_bounded (b : Bytes) (v : AndX.V) (k : Nat) (h : AndX.decode b = .ok (v, k)) :
    0 < k ∧ k ≤ b.length := ⟨AndX.decode_pos b v k h, AndX.decode_bounded b v k h⟩
open Manticore.C06 in
/-- `Parameters.Unmarshal` never panics -/
theorem parameters_decode_total (b : Bytes) : Parameters.decode b ≠ .panic := Parameters.decode_total b
open Manticore.C06 in
/-- `Parameters.Unmarshal` reports between 1 and `len(data)` bytes -/
theorem parameters_decode_bounded (b : Bytes) (v : Parameters.V) (k : Nat) (h : Parameters.decode b = .ok (v, k)) :
    0 < k ∧ k ≤ b.length := ⟨Parameters.decode_pos b v k h, Parameters.decode_bounded b v k h⟩
open Manticore.C06 in
/-- `Data.Unmarshal` never panics -/
theorem data_decode_total (b : Bytes) : Data.decode b ≠ .panic := Data.decode_total b
open Manticore.C06 in
/-- `Data.Unmarshal` reports between 1 and `len(data)` bytes -/
theorem data_decode_bounded (b : Bytes) (v : Data.V) (k : Nat) (h : Data.decode b = .ok (v, k)) :
    0 < k ∧ k ≤ b.length := ⟨Data.decode_pos b v k h, Data.decode_bounded b v k h⟩
open Manticore.C06 in
/-- the NTLM `Version.Unmarshal` never panics -/
theorem version_decode_total (b : Bytes) : Version.decode b ≠ .panic := Version.decode_total b
open Manticore.C06 in
/-- the NTLM `Version.Unmarshal` reports between 1 and `len(data)` bytes -/
theorem version_decode_bounded (b : Bytes) (v : Version.V) (k : Nat) (h : Version.decode b = .ok (v, k)) :
    0 < k ∧ k ≤ b.length := ⟨Version.decode_pos b v k h, Version.decode_bounded b v k h⟩
/-- `Dialects.Unmarshal` never panics -/
theorem dialects_decode_total (b : Bytes) : Manticore.SmbCodecs.dialectsDec b ≠ .panic :=
  Manticore.SmbCodecs.dialectsDec_total b
/-- `Dialects.Unmarshal` reports at most `len(data)` bytes, and at least one unless `data` is empty -/
theorem dialects_decode_bounded (b : Bytes) (v : List Bytes) (k : Nat)
    (h : Manticore.SmbCodecs.dialectsDec b = .ok (v, k)) : k ≤ b.length ∧ (b ≠ [] → 0 < k) :=
  ⟨Manticore.SmbCodecs.dialectsDec_bounded b v k h, Manticore.SmbCodecs.dialectsDec_pos b v k h⟩

/-- binary SIDs (re-exported from C16): total on every byte string -/
theorem sid_total (b : Bytes) : ∃ s, Manticore.C16.parseSID b = .ok s := Manticore.C16.sid_total b

end Manticore.C07
