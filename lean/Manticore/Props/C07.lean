/-
  C07 — Every decoder is total: any input yields a value or an error, never a crash.
  Property theorems only.  This file covers the SMB command decoders (the 115 regenerated
  unmarshal programs); the other decoding entry points are proved total in the property files of
  their own models and re-exported here.
-/
import Manticore.Model.SmbCmd
import Manticore.Model.SmbCodecs
import Manticore.Gen.SmbCommands
import Manticore.Props.C16
namespace Manticore.C07
open Manticore Manticore.SmbIR Manticore.Gen.SmbCommands

/-- **Every regenerated unmarshal program is guarded**: in each of the 115 command structures, every
    slice or index expression of `Unmarshal` is dominated by a length check on the same block that
    implies it (`Guarded`, a static predicate evaluated by the kernel on the programs extracted from
    /repo on this run).  A dropped or weakened guard anywhere makes this fail to check. -/
theorem smb_all_commands_guarded : commands.all Guarded = true := by decide +kernel

/-- the extraction saw every command structure (a vanished file would silently shrink the claim) -/
theorem smb_command_count : commands.length = 115 := by decide +kernel

/-- the envelope split (`Parameters.Unmarshal`, `Data.Unmarshal`) never panics -/
theorem smb_split_total (data : Bytes) : splitParams data ≠ .panic ∧ ∀ r, splitData r ≠ .panic := by
  constructor
  · unfold splitParams; split <;> (try split) <;> (try split) <;> simp
  · intro r
    match r with
    | [] => simp [splitData]
    | [_] => simp [splitData]
    | b0 :: b1 :: rest =>
      simp only [splitData]
      by_cases h : b0.toNat + 256 * b1.toNat > 0
      · by_cases h2 : rest.length < b0.toNat + 256 * b1.toNat <;> simp [h, h2]
      · simp [h]

/-- `utils.GetNullTerminatedUnicodeString` consumes no more than it is given -/
theorem cstr_offset_le (d : Bytes) : (cstrUnicode d).2 ≤ d.length := by
  unfold cstrUnicode; exact Nat.min_le_right _ _

/-- binary SIDs (re-exported from C16): total on every byte string -/
theorem sid_total (b : Bytes) : ∃ s, Manticore.C16.parseSID b = .ok s := Manticore.C16.sid_total b

end Manticore.C07
