/-
  C20 — the separators, part counts, `ParseUint` bases and widths, shifts, masks, port bounds, format strings and the
  two regular expressions of the hand model are those of the current source.  `Gen/ConstsC20.lean` is regenerated on
  every run from network/ip/{ipv4,ipv6,tcp_port}.go and windows/credentials/credentials.go
  (tools/extract/consts_c20.go).
-/
import Manticore.Model.C20
import Manticore.Gen.ConstsC20
namespace Manticore.C20
open Manticore
open Manticore.Gen

-- the one-byte separators
theorem consts_match_model_separators :
    [slashB] = ConstsC20.v4_sepMask ∧ [dotB] = ConstsC20.v4_sepOctets ∧ [colonB] = ConstsC20.v6_sep ∧ [dashB] = ConstsC20.port_sep
      ∧ [colonB] = ConstsC20.lmnt_sep ∧ [colonB] = ConstsC20.lmnt_contains ∧ [colonB] = ConstsC20.lmnt_prepend := by decide

-- the regular expression literals the model transliterates
theorem consts_match_model_regexps :
    ConstsC20.port_regexp = portRangeRegexp ∧ ConstsC20.lmnt_regexp = lmntRegexp := ⟨rfl, rfl⟩

-- the format strings of `String`, `CIDRAddress`, `CIDRMask` and `TCPPortRange.String`
theorem consts_match_model_formats :
    ConstsC20.v4_format = asciiBytes "%d.%d.%d.%d/%d" ∧ ConstsC20.v4_formatAddress = ConstsC20.v4_format
      ∧ ConstsC20.v4_formatMask = ConstsC20.v4_format ∧ ConstsC20.port_format = asciiBytes "%d-%d" := by decide

-- `strconv.ParseUint(octets[i], 10, 8)`
theorem consts_match_model_octet (x : Bytes) :
    octet x =
    (
    (parseUint ConstsC20.v4_o0_base ConstsC20.v4_o0_bits x).map UInt8.ofNat) := by exact rfl

-- the four octets are parsed alike, from `octets[0]`…`octets[3]` of `parts[0]`
theorem consts_match_model_octets_alike :
    [ConstsC20.v4_o1_base, ConstsC20.v4_o2_base, ConstsC20.v4_o3_base] = [ConstsC20.v4_o0_base, ConstsC20.v4_o0_base, ConstsC20.v4_o0_base]
      ∧ [ConstsC20.v4_o1_bits, ConstsC20.v4_o2_bits, ConstsC20.v4_o3_bits] = [ConstsC20.v4_o0_bits, ConstsC20.v4_o0_bits, ConstsC20.v4_o0_bits] := by
  decide

-- `NewIPv4FromString`: part counts, which part is what, base and width of the mask, the mask bound
theorem consts_match_model_parseIPv4 (s : Bytes) :
    parseIPv4 s =
    (
      let parts := splitOn slashB s
      if parts.length = ConstsC20.v4_parts then do
        let p1 ← index parts ConstsC20.v4_mask_idx
        match parseUint ConstsC20.v4_mask_base ConstsC20.v4_mask_bits p1 with
        | none => pure none
        | some maskBits =>
          if maskBits > ConstsC20.v4_maskMax then pure none else do
          let p0 ← index parts ConstsC20.v4_octetsFrom_idx
          let octets := splitOn dotB p0
          if octets.length ≠ ConstsC20.v4_octets then pure none else do
          let o0 ← index octets ConstsC20.v4_o0_idx
          match octet o0 with
          | none => pure none
          | some a => do
          let o1 ← index octets ConstsC20.v4_o1_idx
          match octet o1 with
          | none => pure none
          | some b => do
          let o2 ← index octets ConstsC20.v4_o2_idx
          match octet o2 with
          | none => pure none
          | some c => do
          let o3 ← index octets ConstsC20.v4_o3_idx
          match octet o3 with
          | none => pure none
          | some d => pure (some ⟨a, b, c, d, UInt8.ofNat maskBits⟩)
      else pure none) := by exact rfl

-- `ToUInt32`
theorem consts_match_model_toUInt32 (i : IPv4) :
    toUInt32 i =
    (
      (i.a.toUInt32 <<< UInt32.ofNat ConstsC20.v4_toU32_sa) ||| (i.b.toUInt32 <<< UInt32.ofNat ConstsC20.v4_toU32_sb) ||| (i.c.toUInt32 <<< UInt32.ofNat ConstsC20.v4_toU32_sc) ||| i.d.toUInt32) := by exact rfl

-- `uint32(0xFFFFFFFF) << (32 - MaskBits)` in `ComputeMask`
theorem consts_match_model_maskOf (m : UInt8) :
    maskOf m =
    (
    goShl32 (UInt32.ofNat ConstsC20.v4_cm_mask_ones) (UInt8.ofNat ConstsC20.v4_cm_mask_width - m)) := by exact rfl

-- `ComputeMask`
theorem consts_match_model_computeMask (i : IPv4) :
    computeMask i =
    (
      let masked := toUInt32 i &&& maskOf i.m
      ⟨((masked >>> UInt32.ofNat ConstsC20.v4_cm_a_shift) &&& UInt32.ofNat ConstsC20.v4_cm_a_mask).toUInt8, ((masked >>> UInt32.ofNat ConstsC20.v4_cm_b_shift) &&& UInt32.ofNat ConstsC20.v4_cm_b_mask).toUInt8,
       ((masked >>> UInt32.ofNat ConstsC20.v4_cm_c_shift) &&& UInt32.ofNat ConstsC20.v4_cm_c_mask).toUInt8, (masked &&& UInt32.ofNat ConstsC20.v4_cm_d_mask).toUInt8, i.m⟩) := by exact rfl

-- `IsInSubnet` builds the same mask as `ComputeMask`; operator nesting of the IPv4 expressions
theorem consts_match_model_v4_shapes :
    [ConstsC20.v4_sub_mask_ones, ConstsC20.v4_sub_mask_width] = [ConstsC20.v4_cm_mask_ones, ConstsC20.v4_cm_mask_width]
      ∧ [ConstsC20.v4_toU32_shape, ConstsC20.v4_cm_mask_shape, ConstsC20.v4_cm_masked_shape, ConstsC20.v4_sub_mask_shape,
         ConstsC20.v4_sub_shape, ConstsC20.v4_range_shape]
        = ["(| (| (| (<< (uint32 i.A) 24) (<< (uint32 i.B) 16)) (<< (uint32 i.C) 8)) (uint32 i.D))",
           "(<< (uint32 4294967295) (- 32 i.MaskBits))", "(& n mask)", "(<< (uint32 4294967295) (- 32 subnet.MaskBits))",
           "(== (& (i.ToUInt32) mask) (& (subnet.ToUInt32) mask))",
           "(&& (>= (i.ToUInt32) (start.ToUInt32)) (<= (i.ToUInt32) (end.ToUInt32)))"] := ⟨by decide, rfl⟩

-- `strconv.ParseUint(parts[i], 16, 16)`
theorem consts_match_model_group (x : Bytes) :
    group x =
    (
    (parseUint ConstsC20.v6_g0_base ConstsC20.v6_g0_bits x).map UInt16.ofNat) := by exact rfl

theorem consts_match_model_groups_alike :
    [ConstsC20.v6_g1_base, ConstsC20.v6_g2_base, ConstsC20.v6_g3_base, ConstsC20.v6_g4_base, ConstsC20.v6_g5_base, ConstsC20.v6_g6_base,
     ConstsC20.v6_g7_base] = List.replicate 7 ConstsC20.v6_g0_base
      ∧ [ConstsC20.v6_g1_bits, ConstsC20.v6_g2_bits, ConstsC20.v6_g3_bits, ConstsC20.v6_g4_bits, ConstsC20.v6_g5_bits, ConstsC20.v6_g6_bits,
         ConstsC20.v6_g7_bits] = List.replicate 7 ConstsC20.v6_g0_bits := by decide

-- `NewIPv6FromString`: the number of groups and which part is which
theorem consts_match_model_parseIPv6 (s : Bytes) :
    parseIPv6 s =
    (
      let parts := splitOn colonB s
      if parts.length = ConstsC20.v6_parts then do
        let p0 ← index parts ConstsC20.v6_g0_idx
        match group p0 with
        | none => pure none
        | some a => do
        let p1 ← index parts ConstsC20.v6_g1_idx
        match group p1 with
        | none => pure none
        | some b => do
        let p2 ← index parts ConstsC20.v6_g2_idx
        match group p2 with
        | none => pure none
        | some c => do
        let p3 ← index parts ConstsC20.v6_g3_idx
        match group p3 with
        | none => pure none
        | some d => do
        let p4 ← index parts ConstsC20.v6_g4_idx
        match group p4 with
        | none => pure none
        | some e => do
        let p5 ← index parts ConstsC20.v6_g5_idx
        match group p5 with
        | none => pure none
        | some f => do
        let p6 ← index parts ConstsC20.v6_g6_idx
        match group p6 with
        | none => pure none
        | some g => do
        let p7 ← index parts ConstsC20.v6_g7_idx
        match group p7 with
        | none => pure none
        | some h => pure (some ⟨a, b, c, d, e, f, g, h⟩)
      else pure none) := by exact rfl

-- `ToUInt128`
theorem consts_match_model_toUInt128 (i : IPv6) :
    toUInt128 i =
    (
      ((i.a.toUInt64 <<< UInt64.ofNat ConstsC20.v6_high_sa) ||| (i.b.toUInt64 <<< UInt64.ofNat ConstsC20.v6_high_sb) ||| (i.c.toUInt64 <<< UInt64.ofNat ConstsC20.v6_high_sc) ||| i.d.toUInt64,
       (i.e.toUInt64 <<< UInt64.ofNat ConstsC20.v6_low_sa) ||| (i.f.toUInt64 <<< UInt64.ofNat ConstsC20.v6_low_sb) ||| (i.g.toUInt64 <<< UInt64.ofNat ConstsC20.v6_low_sc) ||| i.h.toUInt64)) := by exact rfl

theorem consts_match_model_v6_shapes :
    [ConstsC20.v6_high_shape, ConstsC20.v6_low_shape, ConstsC20.v6_range_shape]
      = ["(| (| (| (<< (uint64 i.A) 48) (<< (uint64 i.B) 32)) (<< (uint64 i.C) 16)) (uint64 i.D))",
         "(| (| (| (<< (uint64 i.E) 48) (<< (uint64 i.F) 32)) (<< (uint64 i.G) 16)) (uint64 i.H))",
         "(&& (|| (> (index ip 0) (index startIP 0)) (&& (== (index ip 0) (index startIP 0)) (>= (index ip 1) (index startIP 1)))) (|| (< (index ip 0) (index endIP 0)) (&& (== (index ip 0) (index endIP 0)) (<= (index ip 1) (index endIP 1)))))"] := rfl

-- `NewTCPPortRangeFromString`: part count, base 10 and width 16, the bounds 65535 and the defaults 0 and 65535
theorem consts_match_model_parsePortRange (s : Bytes) :
    parsePortRange s =
    (
      if !portRangeMatch s then .err else
      let parts := splitOn dashB s
      if parts.length = ConstsC20.port_parts then do
        let p0 ← index parts ConstsC20.port_start_idx
        let p1 ← index parts ConstsC20.port_end_idx
        let p0 := trimSpace p0
        let p1 := trimSpace p1
        let start ←
          if p0.length > 0 then
            match parseUint ConstsC20.port_start_base ConstsC20.port_start_bits p0 with
            | none => Outcome.err
            | some v => if v > ConstsC20.port_startMax then Outcome.err else pure v
          else pure ConstsC20.port_startDefault
        let stop ←
          if p1.length > 0 then
            match parseUint ConstsC20.port_end_base ConstsC20.port_end_bits p1 with
            | none => Outcome.err
            | some v => if v > ConstsC20.port_endMax then Outcome.err else pure v
          else pure ConstsC20.port_endDefault
        pure (UInt16.ofNat start, UInt16.ofNat stop)
      else .err) := by exact rfl

theorem consts_match_model_port_trim : [ConstsC20.port_trim0, ConstsC20.port_trim1] = [ConstsC20.port_start_idx, ConstsC20.port_end_idx] := by
  decide

-- `ParseLMNTHashes`: which part is which hash and the hash length
theorem consts_match_model_lmntCore (t : Bytes) :
    lmntCore t =
    (
      if !hashesMatch t then .err else
      let t := if !containsByte colonB t then colonB :: t else t
      let parts := splitOn colonB t
      do
        let lm ← index parts ConstsC20.lmnt_parts_lm
        let nt ← index parts ConstsC20.lmnt_parts_nt
        let lm := if lm.length ≠ ConstsC20.lmnt_lmLen then [] else lm
        let nt := if nt.length ≠ ConstsC20.lmnt_ntLen then [] else nt
        pure (lm, nt)) := by exact rfl

end Manticore.C20
