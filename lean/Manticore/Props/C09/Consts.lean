/-
  C09 — the limits, pointer masks, header size and field offsets of the hand model are those of the current source.
  `Gen/ConstsC09.lean` is regenerated on every run from network/llmnr (tools/extract/consts_c09.go).
-/
import Manticore.Model.C09
import Manticore.Gen.ConstsC09
namespace Manticore.C09
open Manticore
open Manticore.Gen

-- the package constants and their uses agree
theorem consts_match_model_package_constants :
    ConstsC09.validate_nameMax = ConstsC09.maxDomainLength ∧ ConstsC09.encode_total_max = ConstsC09.maxDomainLength
      ∧ ConstsC09.validate_labelMax = ConstsC09.maxLabelLength ∧ ConstsC09.encode_labelMax = ConstsC09.maxLabelLength
      ∧ ConstsC09.decode_isPointer_mask = ConstsC09.labelPointer ∧ ConstsC09.decode_isPointer_value = ConstsC09.labelPointer
      ∧ ConstsC09.message_minLen = ConstsC09.headerSize ∧ ConstsC09.message_firstOffset = ConstsC09.headerSize
      := by decide

-- the RFC 1035 limits of the specification are the package's limits
theorem consts_match_model_spec_limits (l : Spec.DNS.Label) (n : Spec.DNS.Name) :
    (Spec.DNS.ValidLabel l ↔ 1 ≤ l.length ∧ l.length ≤ ConstsC09.maxLabelLength)
      ∧ (Spec.DNS.ValidName n ↔ (∀ l ∈ n, Spec.DNS.ValidLabel l) ∧ (Spec.DNS.nameWire n).length ≤ ConstsC09.maxDomainLength) :=
  ⟨Iff.rfl, Iff.rfl⟩

-- `ValidateDomainName`
theorem consts_match_model_validateName (name : Bytes) :
    validateName name =
      if name.length > ConstsC09.validate_nameMax then false
      else (splitDots name).all (fun l => !(l.length > ConstsC09.validate_labelMax)) := by exact rfl

-- `EncodeDomainName`, one label
theorem consts_match_model_encodeLabels (l : Bytes) (ls : List Bytes) (buf : Bytes) :
    encodeLabels (l :: ls) buf =
      if l.length = ConstsC09.encode_emptyLabel then .err
      else if l.length > ConstsC09.encode_labelMax then .err
      else encodeLabels ls (buf ++ UInt8.ofNat l.length :: l) := by exact rfl

-- `EncodeDomainName`: the two spellings of the root, its encoding, the total-length check, the terminator
theorem consts_match_model_encodeName (name : Bytes) :
    encodeName name =
      if name = [] ∨ name = [dot] then .ok ConstsC09.encode_rootBytes
      else
        match encodeLabels (splitDots name) [] with
        | .ok buf =>
          if buf.length + ConstsC09.encode_total_plus > ConstsC09.encode_total_max then .err
          else .ok (buf ++ [UInt8.ofNat ConstsC09.encode_terminator_zero])
        | .err => .err
        | .panic => .panic := by exact rfl

theorem consts_match_model_encodeName_shape :
    ConstsC09.encode_rootNames = ["", "."] ∧ ConstsC09.encode_total_shape = "(> (+ (len buf) 1) 255)"
      ∧ ConstsC09.encode_lengthByte_shape = "(append buf (byte (len label)))" := ⟨rfl, rfl, rfl⟩

-- the compression pointer: 14-bit mask on a 16-bit big-endian read
theorem consts_match_model_ptrOf (b0 b1 : UInt8) :
    ptrOf b0 b1 = (be16 b0 b1 &&& UInt16.ofNat ConstsC09.decode_pointerMask).toNat
      ∧ ConstsC09.decode_pointer_le = false ∧ ConstsC09.decode_pointer_width = 16 := ⟨rfl, rfl, rfl⟩

-- `DecodeDomainName`, one turn of the loop: end-of-name byte, pointer test, bytes a pointer needs, bytes a pointer
-- consumes
theorem consts_match_model_decodeName_step (data : Bytes) (start curr : Nat) (labels : List Bytes) (cost : Nat) :
    go data start curr labels cost =
      if h : data.length ≤ curr then .err
      else
        if data[curr]'(by omega) = UInt8.ofNat ConstsC09.decode_endLabel then
          if labels = [] then .ok ([dot], curr + 1, cost)
          else .ok (joinDots labels, curr + 1, cost + (joinDots labels).length)
        else if data[curr]'(by omega) &&& UInt8.ofNat ConstsC09.decode_isPointer_mask = UInt8.ofNat ConstsC09.decode_isPointer_value then
          if h1 : data.length ≤ curr + ConstsC09.decode_pointerNeeds then .err
          else
            if _hp : start ≤ ptrOf (data[curr]'(by omega)) (data[curr+1]'(by
                have : ConstsC09.decode_pointerNeeds = 1 := by exact rfl
                omega)) then .err
            else
              match go data (ptrOf (data[curr]'(by omega)) (data[curr+1]'(by
                            have : ConstsC09.decode_pointerNeeds = 1 := by exact rfl
                            omega)))
                            (ptrOf (data[curr]'(by omega)) (data[curr+1]'(by
                            have : ConstsC09.decode_pointerNeeds = 1 := by exact rfl
                            omega))) [] 0 with
              | .ok (suffix, _, c) =>
                if labels = [] then .ok (suffix, curr + ConstsC09.decode_afterPointer, cost + c)
                else if suffix = [dot] then
                  .ok (joinDots labels, curr + ConstsC09.decode_afterPointer, cost + c + (joinDots labels).length)
                else .ok (joinDots labels ++ dot :: suffix, curr + ConstsC09.decode_afterPointer,
                          cost + c + (joinDots labels).length + (joinDots labels ++ dot :: suffix).length)
              | .err => .err
              | .panic => .panic
        else if data.length < curr + 1 + (data[curr]'(by omega)).toNat then .err
        else go data start (curr + 1 + (data[curr]'(by omega)).toNat)
               (labels ++ [(data.drop (curr + 1)).take (data[curr]'(by omega)).toNat])
               (cost + (data[curr]'(by omega)).toNat) := by
  rw [go]; exact rfl

theorem consts_match_model_decodeName_shape :
    [ConstsC09.decode_isPointer_shape, ConstsC09.decode_pointerNeeds_shape, ConstsC09.decode_pointer_shape,
     ConstsC09.decode_pointerGuard_shape, ConstsC09.decode_labelFits_shape]
      = ["(== (& length 192) 192)", "(>= (+ curr 1) (len data))", "(int (& (binary.BigEndian.Uint16 (slice data curr _)) 16383))",
         "(>= pointer start)", "(> (+ curr length) (len data))"] := by exact rfl

-- `DecodeQuestion`: the four fixed bytes, big-endian 16-bit reads at +0 and +2
theorem consts_match_model_decodeQuestion (data : Bytes) (offset : Nat) :
    decodeQuestion data offset =
      match decodeName data offset with
      | .ok (name, off) =>
        if off + ConstsC09.question_needs > data.length then .err
        else
          match readBe16 data off, readBe16 data (off + ConstsC09.question_step0) with
          | .ok t, .ok c => .ok ({ name := name, qtype := t, qclass := c }, off + (ConstsC09.question_step0 + ConstsC09.question_step1))
          | .err, _ => .err
          | _, .err => .err
          | _, _ => .panic
      | .err => .err
      | .panic => .panic := by exact rfl

-- `DecodeResourceRecord`: the ten fixed bytes and the running offsets 2, 4, 8, 10
theorem consts_match_model_decodeRR (data : Bytes) (offset : Nat) :
    decodeRR data offset =
      match decodeName data offset with
      | .ok (name, off) =>
        if off + ConstsC09.rr_needs > data.length then .err
        else
          match readBe16 data off, readBe16 data (off + ConstsC09.rr_step0),
                readBe32 data (off + (ConstsC09.rr_step0 + ConstsC09.rr_step1)),
                readBe16 data (off + (ConstsC09.rr_step0 + ConstsC09.rr_step1 + ConstsC09.rr_step2)) with
          | .ok t, .ok c, .ok ttl, .ok rdl =>
            let fixed := ConstsC09.rr_step0 + ConstsC09.rr_step1 + ConstsC09.rr_step2 + ConstsC09.rr_step3
            if off + fixed + rdl.toNat > data.length then .err
            else
              match slice data (off + fixed) (off + fixed + rdl.toNat) with
              | .ok rd => .ok ({ name := name, rtype := t, rclass := c, ttl := ttl, rdlength := rdl, rdata := rd },
                              off + fixed + rdl.toNat)
              | .err => .err
              | .panic => .panic
          | _, _, _, _ => .panic
      | .err => .err
      | .panic => .panic := by exact rfl

-- every multi-byte field of the codec is big-endian, of the widths the model reads and writes, in the model's order
theorem consts_match_model_byte_order :
    ConstsC09.question_type_le = false ∧ ConstsC09.question_class_le = false ∧ ConstsC09.rr_anyLittle = false
      ∧ ConstsC09.message_anyLittle = false
      ∧ ConstsC09.question_widths = [16, 16] ∧ ConstsC09.rr_widths = [16, 16, 32, 16]
      ∧ readBe16 [0x12, 0x34] 0 = .ok 0x1234 ∧ readBe32 [0x12, 0x34, 0x56, 0x78] 0 = .ok 0x12345678 := by decide

theorem consts_match_model_encode_order :
    ConstsC09.question_encode = ["16b:q.Type", "16b:q.Class"]
      ∧ ConstsC09.rr_encode = ["16b:rr.Type", "16b:rr.Class", "32b:rr.TTL", "16b:rr.RDLength"]
      ∧ ConstsC09.message_encode = ["16b:m.ID", "16b:m.Flags", "16b:m.QDCount", "16b:m.ANCount", "16b:m.NSCount", "16b:m.ARCount"] :=
  ⟨rfl, rfl, rfl⟩

-- `DecodeMessage`: minimum length, the six header offsets, where the sections start
theorem consts_match_model_decodeMessage (data : Bytes) :
    decodeMessage data =
      if data.length < ConstsC09.message_minLen then .err
      else
        match readBe16 data ConstsC09.message_off0, readBe16 data ConstsC09.message_off1, readBe16 data ConstsC09.message_off2,
              readBe16 data ConstsC09.message_off3, readBe16 data ConstsC09.message_off4, readBe16 data ConstsC09.message_off5 with
        | .ok id, .ok fl, .ok qd, .ok an, .ok ns, .ok ar =>
          match decodeMany decodeQuestion data qd.toNat ConstsC09.message_firstOffset with
          | .ok (qs, o1) =>
            match decodeMany decodeRR data an.toNat o1 with
            | .ok (as, o2) =>
              match decodeMany decodeRR data ns.toNat o2 with
              | .ok (nss, o3) =>
                match decodeMany decodeRR data ar.toNat o3 with
                | .ok (ars, _) =>
                  .ok { hdr := { id := id, flags := fl, qdcount := qd, ancount := an, nscount := ns, arcount := ar },
                        questions := qs, answers := as, authority := nss, additional := ars }
                | .err => .err
                | .panic => .panic
              | .err => .err
              | .panic => .panic
            | .err => .err
            | .panic => .panic
          | .err => .err
          | .panic => .panic
        | _, _, _, _, _, _ => .panic := by exact rfl

end Manticore.C09
