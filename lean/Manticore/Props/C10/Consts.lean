/-
  C10 — the first-level encoding constants, the label limits and the packet layout of the hand model are those of the
  current source.  `Gen/ConstsC10.lean` is regenerated on every run from network/netbios/nbtns/name.go and packet.go
  (tools/extract/consts_c10.go).  Each theorem restates a model function with the regenerated numbers in place of its
  literals.
-/
import Manticore.Model.C10
import Manticore.Gen.ConstsC10
namespace Manticore.C10
open Manticore
open Manticore.Gen

-- the package constants and their uses agree; 32 = 2·16
theorem consts_match_model_package_constants :
    ConstsC10.validate_nameMax = ConstsC10.nameLength ∧ ConstsC10.encode_nameBuf = ConstsC10.nameLength
      ∧ ConstsC10.encode_padUntil = ConstsC10.nameLength ∧ ConstsC10.encode_loopUntil = ConstsC10.nameLength
      ∧ ConstsC10.decode_outBuf = ConstsC10.nameLength ∧ ConstsC10.decode_loopUntil = ConstsC10.nameLength
      ∧ ConstsC10.encode_outBuf = ConstsC10.encodedNameLength ∧ ConstsC10.decode_encodedLen = ConstsC10.encodedNameLength
      ∧ ConstsC10.encodedNameLength = 2 * ConstsC10.nameLength
      ∧ ConstsC10.encode_hi_add = ConstsC10.asciiA ∧ ConstsC10.encode_lo_add = ConstsC10.asciiA
      ∧ ConstsC10.decode_high_sub = ConstsC10.asciiA ∧ ConstsC10.decode_low_sub = ConstsC10.asciiA
      ∧ ConstsC10.append_total_max = ConstsC10.maxEncodedNameLength
      ∧ space = UInt8.ofNat ConstsC10.encode_padByte ∧ [space] = ConstsC10.decode_trim
      ∧ [dot] = ConstsC10.encode_scopeJoin ∧ [dot] = ConstsC10.decode_splitAt ∧ ConstsC10.decode_split_n = 2
      ∧ [ConstsC10.decode_high_mul, ConstsC10.decode_low_mul, ConstsC10.decode_low_plus] = [2, 2, 1] := by decide

-- `Validate`: the name limit
theorem consts_match_model_validate (n : NBName) :
    validate n =
    (
      !(n.name.length > ConstsC10.validate_nameMax) && (n.scope.isEmpty || isValidDomainName n.scope)) := by exact rfl

-- `FirstLevelEncode`: nibble shift, masks and the letter offset
theorem consts_match_model_encByte (b : UInt8) :
    encByte b =
    (
    [((b >>> UInt8.ofNat ConstsC10.encode_hi_shift) &&& UInt8.ofNat ConstsC10.encode_hi_mask) + UInt8.ofNat ConstsC10.encode_hi_add, (b &&& UInt8.ofNat ConstsC10.encode_lo_mask) + UInt8.ofNat ConstsC10.encode_lo_add]) := by exact rfl

-- `FirstLevelEncode`: padding length
theorem consts_match_model_pad16 (name : Bytes) :
    pad16 name =
    (
    name ++ List.replicate (ConstsC10.encode_padUntil - name.length) space) := by exact rfl

theorem consts_match_model_encode_shape :
    ConstsC10.encode_hi_shape = "(+ (& (>> (index name i) 4) 15) 65)" ∧ ConstsC10.encode_lo_shape = "(+ (& (index name i) 15) 65)"
      ∧ ConstsC10.decode_combine_shape = "(| (<< high 4) low)" := ⟨rfl, rfl, rfl⟩

-- `FirstLevelDecode`, one pair: letter offset, the nibble bound, the shift
theorem consts_match_model_decPairs (hi lo : UInt8) (rest : Bytes) :
    decPairs (hi :: lo :: rest) =
      if hi - UInt8.ofNat ConstsC10.decode_high_sub > UInt8.ofNat ConstsC10.decode_highMax
          || lo - UInt8.ofNat ConstsC10.decode_low_sub > UInt8.ofNat ConstsC10.decode_lowMax then .err
      else
        match decPairs rest with
        | .ok d => .ok ((((hi - UInt8.ofNat ConstsC10.decode_high_sub) <<< UInt8.ofNat ConstsC10.decode_combine_shift)
                          ||| (lo - UInt8.ofNat ConstsC10.decode_low_sub)) :: d)
        | .err => .err
        | .panic => .panic := by exact rfl

-- `FirstLevelDecode`: the encoded length
theorem consts_match_model_firstLevelDecode (encoded : Bytes) :
    firstLevelDecode encoded =
    (
      if (splitFirstDot encoded).1.length ≠ ConstsC10.decode_encodedLen then .err
      else
        match decPairs (splitFirstDot encoded).1 with
        | .ok d => .ok { name := trimRight d, scope := (splitFirstDot encoded).2.getD [] }
        | .err => .err
        | .panic => .panic) := by exact rfl

-- `isValidDomainName`: label length limits, the character ranges, the hyphen at the edges
theorem consts_match_model_partOk (p : Bytes) :
    partOk p =
      (!(p.length == ConstsC10.domain_part_min || p.length > ConstsC10.domain_part_max) && p.all ldh
        && !(p.head? == some hyphen) && !(p.getLast? == some hyphen)) := by exact rfl

theorem consts_match_model_ldh (c : UInt8) :
    ConstsC10.domain_charRanges = [97, 122, 65, 90, 48, 57, 45] ∧ ConstsC10.domain_edge = ["-", "-"]
      ∧ ldh c = ((97 ≤ c && c ≤ 122) || (65 ≤ c && c ≤ 90) || (48 ≤ c && c ≤ 57) || c == 45)
      ∧ ConstsC10.domain_char_shape
          = "(! (|| (|| (|| (&& (>= c 97) (<= c 122)) (&& (>= c 65) (<= c 90))) (&& (>= c 48) (<= c 57))) (== c 45)))"
      ∧ ConstsC10.domain_part_shape = "(|| (== (len part) 0) (> (len part) 63))" := ⟨rfl, rfl, rfl, rfl, rfl⟩

-- `appendEncodedName`, one label
theorem consts_match_model_appendLabels (l : Bytes) (ls : List Bytes) (buf : Bytes) :
    appendLabels (l :: ls) buf =
      if l.length = ConstsC10.append_label_min ∨ l.length > ConstsC10.append_label_max then .err
      else appendLabels ls (buf ++ UInt8.ofNat l.length :: l) := by exact rfl

-- `appendEncodedName`: the wire-length check and the terminator
theorem consts_match_model_appendEncodedName (buf encoded : Bytes) :
    appendEncodedName buf encoded =
    (
      if encoded.length + ConstsC10.append_total_plus > ConstsC10.append_total_max then .err
      else
        match appendLabels (splitDots encoded) buf with
        | .ok b => .ok (b ++ [UInt8.ofNat ConstsC10.append_terminator_zero])
        | .err => .err
        | .panic => .panic) := by exact rfl

-- `readEncodedName`, one turn of the loop: the end byte and the label limit
theorem consts_match_model_readEncodedName (data : Bytes) (offset : Nat) (labels : List Bytes) :
    readEncodedName data offset labels =
    (
      if h : data.length ≤ offset then .err
      else
        if (data[offset]'(by omega)) = UInt8.ofNat ConstsC10.read_end then .ok (joinDots labels, offset + 1)
        else if (data[offset]'(by omega)).toNat > ConstsC10.read_labelMax then .err
        else if offset + 1 + (data[offset]'(by omega)).toNat > data.length then .err
        else readEncodedName data (offset + 1 + (data[offset]'(by omega)).toNat)
               (labels ++ [(data.drop (offset + 1)).take (data[offset]'(by omega)).toNat])) := by rw [readEncodedName]; exact rfl

theorem consts_match_model_name_shapes :
    [ConstsC10.append_total_shape, ConstsC10.append_label_shape, ConstsC10.read_fits_shape, ConstsC10.rr_rdataFits_shape]
      = ["(> (+ (len encoded) 2) 255)", "(|| (== (len label) 0) (> (len label) 63))", "(> (+ offset labelLen) (len data))",
         "(> (+ offset (int rr.RDLength)) (len data))"] := rfl

-- `data[off:off+2]` / `data[off:off+4]` read big-endian
theorem consts_match_model_byte_order :
    ConstsC10.packet_anyLittle = false ∧ ConstsC10.rr_widths = [16, 16, 32, 16]
      ∧ rd16 [0x12, 0x34, 0x56] 0 = .ok 0x1234 ∧ rd32 [0x12, 0x34, 0x56, 0x78, 0x9A] 0 = .ok 0x12345678 := by decide

-- one question of `Unmarshal`: fixed size and offsets
theorem consts_match_model_unmarshalQ (data : Bytes) (offset : Nat) :
    unmarshalQ data offset =
    (
      match readEncodedName data offset [] with
      | .ok (enc, next) =>
        match firstLevelDecode enc with
        | .ok name =>
          if next + ConstsC10.question_needs > data.length then .err
          else
            match rd16 data next, rd16 data (next + ConstsC10.question_class_lo) with
            | .ok t, .ok c => .ok ({ name := name, qtype := t, qclass := c }, next + ConstsC10.question_advance)
            | _, _ => .panic
        | .err => .err
        | .panic => .panic
      | .err => .err
      | .panic => .panic) := by exact rfl

-- one resource record of `unmarshalRRs`: fixed size and offsets
theorem consts_match_model_unmarshalRR (data : Bytes) (offset : Nat) :
    unmarshalRR data offset =
    (
      match readEncodedName data offset [] with
      | .ok (enc, next) =>
        match firstLevelDecode enc with
        | .ok name =>
          if next + ConstsC10.rr_needs > data.length then .err
          else
            match rd16 data next, rd16 data (next + ConstsC10.rr_class_lo), rd32 data (next + ConstsC10.rr_ttl_lo), rd16 data (next + ConstsC10.rr_rdlength_lo) with
            | .ok t, .ok c, .ok ttl, .ok rdl =>
              if next + ConstsC10.rr_advance + rdl.toNat > data.length then .err
              else
                match slice data (next + ConstsC10.rr_advance) (next + ConstsC10.rr_advance + rdl.toNat) with
                | .ok rd => .ok ({ name := name, rtype := t, rclass := c, ttl := ttl, rdlength := rdl, rdata := rd },
                                next + ConstsC10.rr_advance + rdl.toNat)
                | .err => .err
                | .panic => .panic
            | _, _, _, _ => .panic
        | .err => .err
        | .panic => .panic
      | .err => .err
      | .panic => .panic) := by exact rfl

-- the slice ends of the fixed fields are start + width
theorem consts_match_model_field_ends :
    [ConstsC10.question_type_hi, ConstsC10.question_class_hi - ConstsC10.question_class_lo] = [2, 2]
      ∧ [ConstsC10.rr_type_hi, ConstsC10.rr_class_hi - ConstsC10.rr_class_lo, ConstsC10.rr_ttl_hi - ConstsC10.rr_ttl_lo,
         ConstsC10.rr_rdlength_hi - ConstsC10.rr_rdlength_lo] = [2, 2, 4, 2]
      ∧ [ConstsC10.packet_h0_hi - ConstsC10.packet_h0_lo, ConstsC10.packet_h1_hi - ConstsC10.packet_h1_lo,
         ConstsC10.packet_h2_hi - ConstsC10.packet_h2_lo, ConstsC10.packet_h3_hi - ConstsC10.packet_h3_lo,
         ConstsC10.packet_h4_hi - ConstsC10.packet_h4_lo, ConstsC10.packet_h5_hi - ConstsC10.packet_h5_lo] = [2, 2, 2, 2, 2, 2] := by decide

-- `Unmarshal`: minimum length, the six header offsets, where the sections start
theorem consts_match_model_unmarshal (data : Bytes) :
    unmarshal data =
    (
      if data.length < ConstsC10.packet_minLen then .err
      else
        match rd16 data ConstsC10.packet_h0_lo, rd16 data ConstsC10.packet_h1_lo, rd16 data ConstsC10.packet_h2_lo, rd16 data ConstsC10.packet_h3_lo, rd16 data ConstsC10.packet_h4_lo, rd16 data ConstsC10.packet_h5_lo with
        | .ok id, .ok fl, .ok qd, .ok an, .ok ns, .ok ar =>
          match unmarshalMany unmarshalQ data qd.toNat ConstsC10.packet_firstOffset with
          | .ok (qs, o1) =>
            match unmarshalMany unmarshalRR data an.toNat o1 with
            | .ok (as, o2) =>
              match unmarshalMany unmarshalRR data ns.toNat o2 with
              | .ok (nss, o3) =>
                match unmarshalMany unmarshalRR data ar.toNat o3 with
                | .ok (ars, _) =>
                  .ok (data.length,
                       { hdr := { id := id, flags := fl, questions := qd, answers := an, authority := ns, additional := ar },
                         questions := qs, answers := as, authority := nss, additional := ars })
                | .err => .err
                | .panic => .panic
              | .err => .err
              | .panic => .panic
            | .err => .err
            | .panic => .panic
          | .err => .err
          | .panic => .panic
        | _, _, _, _, _, _ => .panic) := by exact rfl

theorem consts_match_model_marshal_order :
    ConstsC10.packet_encode
      = ["16b:p.Header.TransactionID@buf[0:2]", "16b:p.Header.Flags@buf[2:4]", "16b:p.Header.Questions@buf[4:6]",
         "16b:p.Header.Answers@buf[6:8]", "16b:p.Header.Authority@buf[8:10]", "16b:p.Header.Additional@buf[10:12]", "16b:q.Type", "16b:q.Class",
         "16b:rr.Type", "16b:rr.Class", "32b:rr.TTL", "16b:rr.RDLength"] := rfl

end Manticore.C10
