/-
  C11 — the header layout, the 17-bit length arithmetic and the limits of the hand model are those of the current
  source.  `Gen/ConstsC11.lean` is regenerated on every run from `NBTTransport.Send` / `Receive`
  (tools/extract/consts_c11.go).
-/
import Manticore.Model.C11
import Manticore.Gen.ConstsC11
namespace Manticore.C11
open Manticore
open Manticore.Gen

-- `maxSessionMessageLength`, the bound `Send` compares with, and the specification's bound
theorem consts_match_model_maxLen :
    maxLen = ConstsC11.maxLen ∧ ConstsC11.send_limit = ConstsC11.maxLen ∧ (∀ p, Spec.Framable p ↔ p.length ≤ ConstsC11.maxLen) :=
  ⟨rfl, rfl, fun _ => Iff.rfl⟩

-- `Send`: refuses above the limit, otherwise writes header ++ payload
theorem consts_match_model_send (payload : Bytes) :
    send payload = if payload.length > ConstsC11.send_limit then .err else .ok (header payload.length ++ payload) := by exact rfl

-- the four header bytes: message type, then shift and mask of each length byte
theorem consts_match_model_header (n : Nat) :
    header n = [UInt8.ofNat ConstsC11.sessionMessage,
                UInt8.ofNat ((n >>> ConstsC11.send_b1_shift) &&& ConstsC11.send_b1_mask),
                UInt8.ofNat ((n >>> ConstsC11.send_b2_shift) &&& ConstsC11.send_b2_mask),
                UInt8.ofNat (n &&& ConstsC11.send_b3_mask)] := by exact rfl

theorem consts_match_model_header_shape :
    [ConstsC11.send_type_shape, ConstsC11.send_b1_shape, ConstsC11.send_b2_shape, ConstsC11.send_b3_shape, ConstsC11.send_packet_shape]
      = ["(append header (byte netbios.SESSION_MESSAGE))", "(append header (byte (& (>> length 16) 1)))",
         "(append header (byte (& (>> length 8) 255)))", "(append header (byte (& length 255)))", "(append header data)"] := by exact rfl

-- `Receive`: extension-bit mask and the two shifts of the length
theorem consts_match_model_lengthOf (h1 h2 h3 : UInt8) :
    lengthOf h1 h2 h3
      = ((h1 &&& UInt8.ofNat ConstsC11.recv_len_mask).toNat <<< ConstsC11.recv_len_shift1)
          ||| (h2.toNat <<< ConstsC11.recv_len_shift2) ||| h3.toNat := by exact rfl

theorem consts_match_model_lengthOf_shape :
    ConstsC11.recv_len_shape
      = "(| (| (<< (int (& (index header 1) 1)) 16) (<< (int (index header 2)) 8)) (int (index header 3)))" := by exact rfl

-- `Receive`: header size, which header byte is the type and which three the length, the accepted type
theorem consts_match_model_receive (s : Stream) :
    receive s =
      match readFull s ConstsC11.recv_headerSize with
      | .ok (hdr, s1) =>
        match index hdr ConstsC11.recv_typeIdx, index hdr ConstsC11.recv_len_i1, index hdr ConstsC11.recv_len_i2,
              index hdr ConstsC11.recv_len_i3 with
        | .ok messageType, .ok h1, .ok h2, .ok h3 =>
          let length := lengthOf h1 h2 h3
          if messageType ≠ UInt8.ofNat ConstsC11.recv_type then .err
          else
            match readFull s1 length with
            | .ok (buffer, s2) => .ok (buffer, s2)
            | .err => .err
            | .panic => .panic
        | .panic, _, _, _ => .panic
        | _, .panic, _, _ => .panic
        | _, _, .panic, _ => .panic
        | _, _, _, .panic => .panic
        | _, _, _, _ => .err
      | .err => .err
      | .panic => .panic := by exact rfl

end Manticore.C11
