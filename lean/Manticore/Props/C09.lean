/-
  C09 — LLMNR codec round-trips and agrees with an independent RFC 1035 codec.
  Property theorems only.  Model (the Go code with fixes/C09-*.diff applied): `Manticore/Model/C09.lean`;
  specification (RFC 1035 grammar, serializer with every admissible pointer placement, reader):
  `Manticore/Spec/DNS.lean`; helper lemmas: `Manticore/Lemmas/DNS.lean`, `Manticore/Lemmas/C09.lean`.

  Termination: `C09.go` (the loop and the self-call of `DecodeDomainName`) is a well-founded
  definition with measure `(start, len − curr)`; Lean's acceptance of it is the proof that decoding
  terminates on every input, and it uses exactly the guard `pointer >= start → error`
  (`pointer_must_go_back` states that guard as a theorem).
-/
import Manticore.Model.C09
import Manticore.Lemmas.DNS
import Manticore.Lemmas.C09
namespace Manticore.C09
open Manticore Manticore.Spec.DNS

/-! ### names -/

/-- **Name encoding is RFC 1035 §3.1.**  For every valid name (labels of 1..63 bytes without a dot,
    at most 255 octets on the wire) `EncodeDomainName` of its text form is the sequence of
    length-prefixed labels closed by the zero octet. -/
theorem encodeName_spec (n : Name) (hv : ValidName n) : encodeName (text n) = .ok (nameWire n) :=
  encodeName_spec' n hv

/-- the empty string is accepted as a second spelling of the root name -/
theorem encodeName_empty_is_root : encodeName [] = .ok [0] ∧ encodeName (text []) = .ok [0] := by
  constructor <;> simp [encodeName, text]

private theorem encodeLabels_ok (ls : List Bytes) : ∀ (buf out : Bytes), encodeLabels ls buf = .ok out →
    (∀ l ∈ ls, ValidLabel l) ∧ out = buf ++ labelsWire ls := by
  induction ls with
  | nil => intro buf out h; simp only [encodeLabels, Outcome.ok.injEq] at h; subst h; simp [labelsWire]
  | cons l ls ih =>
    intro buf out h
    simp only [encodeLabels] at h
    split at h
    · cases h
    · split at h
      · cases h
      · obtain ⟨h1, h2⟩ := ih _ _ h
        refine ⟨?_, ?_⟩
        · intro x hx
          simp only [List.mem_cons] at hx
          rcases hx with rfl | hx
          · exact ⟨by omega, by omega⟩
          · exact h1 x hx
        · rw [h2, labelsWire_cons]; simp [List.append_assoc]

/-- **Strictness of the encoder.**  Whatever `EncodeDomainName` emits is the RFC 1035 form of a valid
    name — the one its argument denotes.  In particular empty labels ("a..b", "a."), labels over 63
    bytes and names over 255 octets are refused, and "." is the root. -/
theorem encodeName_sound (s w : Bytes) (h : encodeName s = .ok w) :
    ValidName (nameOfText s) ∧ w = nameWire (nameOfText s) := by
  unfold encodeName at h
  unfold nameOfText
  split at h
  · rename_i hroot
    simp only [Outcome.ok.injEq] at h; subst h
    rw [if_pos hroot]
    exact ⟨⟨⟨by simp, by simp [nameWire, labelsWire]⟩, by simp⟩, by simp [nameWire, labelsWire]⟩
  · rename_i hroot
    rw [if_neg hroot]
    split at h
    · rename_i buf hb
      split at h
      · cases h
      · rename_i hlen
        simp only [Outcome.ok.injEq] at h; subst h
        obtain ⟨hv, hbuf⟩ := encodeLabels_ok _ _ _ hb
        simp only [List.nil_append] at hbuf
        subst hbuf
        refine ⟨⟨⟨hv, ?_⟩, splitDots_nodot_pieces s⟩, rfl⟩
        simp only [nameWire, List.length_append, List.length_cons, List.length_nil]; omega
    · cases h
    · cases h

/-- **Name decoding agrees with the RFC 1035 reader**, pointers included: wherever the reader finds
    a name (no dot inside a label) at an offset, `DecodeDomainName` returns its text and the same
    next offset. -/
theorem decodeName_agrees_with_spec (data : Bytes) (off : Nat) (n : Name) (next : Nat)
    (h : parseName data off = .ok (n, next)) (hnd : NoDots n) : decodeName data off = .ok (text n, next) :=
  decodeName_agrees data off n next h hnd

/-! ### messages -/

/-- **The encoder emits the uncompressed RFC 1035 message**: header with the four counts, then the
    question, answer, authority and additional sections. -/
theorem encode_eq_spec (m : Spec.DNS.Message) (hv : ValidMessage m) : encodeMessage (toModel m) = .ok (plain m) :=
  encode_eq_spec' m hv

/-- `Encode` ignores the count fields of the header and `RDLength`: they are recomputed. -/
theorem encode_ignores_counts (mm : Message) : encodeMessage mm = encodeMessage (canon mm) := by
  have hr : ∀ (rs : List RR) (p : Bytes), encodeAll encodeRR (rs.map canonRR) p = encodeAll encodeRR rs p := by
    intro rs
    induction rs with
    | nil => intro p; rfl
    | cons r rs ih =>
      intro p
      have : encodeRR (canonRR r) = encodeRR r := by simp [encodeRR, canonRR]
      simp only [List.map_cons, encodeAll, this]
      cases encodeRR r <;> simp [ih]
  simp only [encodeMessage, canon, List.length_map, hr]

/-- **Agreement with the RFC 1035 reader on every input.**  Whatever byte string the reader accepts
    as a message (compressed or not, with trailing bytes or not; no dot inside a label),
    `DecodeMessage` decodes to the same header, questions and records in all four sections. -/
theorem decode_agrees_with_spec (data : Bytes) (m : Spec.DNS.Message) (h : parse data = .ok m) (hnd : MsgNoDots m) :
    decodeMessage data = .ok (toModel m) :=
  decodeMessage_agrees data m h hnd

/-- **The library decodes the independent codec's output, for every placement of compression
    pointers.**  For every valid message, every admissible choice `pl` of pointers (to a whole earlier
    name, to any suffix of one, to an earlier pointer — chains —, to a root octet) and any trailing
    bytes, `DecodeMessage` returns exactly the content: header, questions, answers, authority and
    additional records. -/
theorem model_parses_spec (m : Spec.DNS.Message) (hv : ValidMessage m) (pl : Nat → Choice) (w : Bytes)
    (h : serialize pl m = some w) (e : Bytes) : decodeMessage (w ++ e) = .ok (toModel m) :=
  decode_agrees_with_spec _ m (parse_serialize pl m hv.1 w h e) hv.2

/-- **Round trip in every section.**  For every valid message (all ids and flag words, 0..65535
    entries per section, all types/classes/TTLs, RDATA of 0..65535 bytes) `Encode` succeeds and
    `DecodeMessage` of the bytes returns an equal header and equal questions, answers, authority and
    additional records. -/
theorem roundtrip (m : Spec.DNS.Message) (hv : ValidMessage m) :
    ∃ w, encodeMessage (toModel m) = .ok w ∧ decodeMessage w = .ok (toModel m) := by
  refine ⟨plain m, encode_eq_spec m hv, ?_⟩
  have := model_parses_spec m hv (fun _ => none) (plain m) (serialize_plain m) []
  simpa using this

/-- the same for a Go message whose count fields and RDLength fields hold anything: decoding the
    encoding returns the message with those fields recomputed -/
theorem roundtrip_any_counts (mm : Message) (m : Spec.DNS.Message) (hv : ValidMessage m) (hc : canon mm = toModel m) :
    ∃ w, encodeMessage mm = .ok w ∧ decodeMessage w = .ok (canon mm) := by
  rw [encode_ignores_counts, hc]
  exact roundtrip m hv

/-- **The independent RFC 1035 reader parses the library's output to the same content.** -/
theorem spec_parses_model (m : Spec.DNS.Message) (hv : ValidMessage m) (w : Bytes)
    (h : encodeMessage (toModel m) = .ok w) : parse w = .ok m := by
  rw [encode_eq_spec m hv] at h
  simp only [Outcome.ok.injEq] at h; subst h
  have := parse_serialize (fun _ => none) m hv.1 (plain m) (serialize_plain m) []
  simpa using this

/-! ### pointers must point strictly backwards; no panic; allocation -/

/-- **Pointers that do not point strictly backwards are rejected** (loop level): whenever the
    cursor of `DecodeDomainName` stands on a compression pointer whose target is not before the start
    of the name being decoded — forward, to itself, or back into the name's own labels — the result
    is an error, whatever was collected so far. -/
theorem pointer_must_go_back (data : Bytes) (start curr : Nat) (labels : List Bytes) (cost : Nat)
    (h1 : curr + 1 < data.length) (hp : data[curr] &&& 0xC0 = 0xC0)
    (ht : start ≤ ptrOf data[curr] data[curr + 1]) : go data start curr labels cost = .err :=
  go_pointer_not_back data start curr labels cost h1 hp ht

/-- the same at the level of `DecodeDomainName`: a name made of any literal labels followed by a
    pointer whose 14-bit target is not before the first octet of the name is refused -/
theorem pointer_must_go_back_name (pre : Bytes) (ls : Name) (hv : ∀ l ∈ ls, ValidLabel l) (b c : UInt8) (rest : Bytes)
    (hb : 192 ≤ b.toNat) (ht : pre.length ≤ (b.toNat - 192) * 256 + c.toNat) :
    decodeName (pre ++ labelsWire ls ++ b :: c :: rest) pre.length = .err := by
  have hdrop : (pre ++ labelsWire ls ++ b :: c :: rest).drop pre.length = labelsWire ls ++ b :: c :: rest := by
    simp [List.append_assoc]
  have hne : b ≠ 0 := by intro e; subst e; simp at hb
  have hr : readLabels (labelsWire ls ++ b :: c :: rest) pre.length
      = .ok (ls, .ptr (pre.length + (labelsWire ls).length) ((b.toNat - 192) * 256 + c.toNat)) := by
    rw [readLabels_labels ls hv, readLabels.eq_2, if_neg hne, if_neg (by omega), if_neg (by omega)]
    simp
  obtain ⟨⟨c', hc'⟩, b', c2, r, hat, hb', htv⟩ := go_walk _ pre.length _ pre.length _ [] 0 hdrop hr
  have hlt : pre.length < (pre ++ labelsWire ls ++ b :: c :: rest).length := by simp; omega
  simp only [decodeName, decodeNameC, if_neg (show ¬ (pre ++ labelsWire ls ++ b :: c :: rest).length ≤ pre.length by omega),
    hc', tailPos, List.nil_append]
  rw [go_at_ptr _ _ _ _ _ b' c2 r hat hb', ← htv, if_pos ht]

/-- **No input makes `DecodeMessage` panic**: every slice and index expression of the model is in
    range on every byte string. -/
theorem decode_never_panics (data : Bytes) : decodeMessage data ≠ .panic :=
  decodeMessage_never_panics_aux data

/-- no input and offset make `DecodeDomainName` panic -/
theorem decodeName_no_panic (data : Bytes) (off : Nat) : decodeName data off ≠ .panic :=
  decodeName_never_panics data off

private theorem hopBound_le (L : Nat) : ∀ s, hopBound s L ≤ s * ((s + 4) * L) := by
  intro s
  induction s with
  | zero => simp [hopBound]
  | succ s ih =>
    have h1 : s * ((s + 4) * L) ≤ s * ((s + 1 + 4) * L) :=
      Nat.mul_le_mul_left s (Nat.mul_le_mul_right L (by omega))
    have h2 : (s + 1) * ((s + 1 + 4) * L) = s * ((s + 1 + 4) * L) + (s + 1 + 4) * L := by
      rw [Nat.succ_mul]
    have h3 : (s + 5) * L = (s + 1 + 4) * L := by rfl
    simp only [hopBound]
    omega

/-- **Allocation bound for names.**  Decoding the name at offset `off` of `data` returns at most
    `(off+1)·|data|` bytes of text and allocates at most `3·|data| + off·(off+4)·|data|` bytes of
    string data (label copies, joins, concatenations) — every pointer hop goes strictly backwards, so
    there are at most `off` hops, each re-copying a suffix no longer than the text bound.  Without
    pointers (off = the name's own offset, no hop taken) the cost is at most `3·|data|`. -/
theorem name_alloc_bound (data : Bytes) (off : Nat) (name : Bytes) (next cost : Nat)
    (h : decodeNameC data off = .ok (name, next, cost)) :
    name.length ≤ (off + 1) * data.length ∧ cost ≤ 3 * data.length + off * ((off + 4) * data.length) := by
  unfold decodeNameC at h
  split at h
  · cases h
  · rename_i hlt
    obtain ⟨h1, h2⟩ := go_bound data off off [] 0 name next cost h
    have h3 := hopBound_le data.length off
    simp only [labelsWeight] at h1 h2
    rw [Nat.succ_mul]
    omega

/-! ### non-vacuity -/

/-- `wpad.local A IN?` answered with two records whose owner names repeat the question's -/
private def exampleMsg : Spec.DNS.Message :=
  { id := 0x1234, flags := 0x8000,
    qd := [{ name := [[119, 112, 97, 100], [108, 111, 99, 97, 108]], qtype := 1, qclass := 1 }],
    an := [{ name := [[119, 112, 97, 100], [108, 111, 99, 97, 108]], rtype := 1, rclass := 1, ttl := 30, rdata := [10, 0, 0, 1] }],
    ns := [{ name := [[108, 111, 99, 97, 108]], rtype := 2, rclass := 1, ttl := 30, rdata := [] }],
    ar := [{ name := [], rtype := 41, rclass := 512, ttl := 0, rdata := [] }] }

example : ValidMessage exampleMsg := by decide
example : ValidName [[119, 112, 97, 100], [108, 111, 99, 97, 108]] := by decide
example : text [[119, 112, 97, 100], [108, 111, 99, 97, 108]] = [119, 112, 97, 100, 46, 108, 111, 99, 97, 108] := by decide
example : encodeName [97, 46, 46, 98] = .err := by decide                       -- "a..b"
example : encodeName [97, 46] = .err := by decide                               -- "a."
example : encodeName [46] = .ok [0] := by decide                                -- "."
example : (encodeMessage (toModel exampleMsg)).isOk = true := by decide

/-- a message serialized with every pointer class: to a whole earlier name, to a pointer (chain), to a
    suffix inside an earlier name after a literal label, and to a root octet -/
private def exMsg2 : Spec.DNS.Message :=
  { id := 1, flags := 0x8000,
    qd := [{ name := [[119, 112, 97, 100], [108, 111, 99, 97, 108]], qtype := 1, qclass := 1 }],
    an := [{ name := [[119, 112, 97, 100], [108, 111, 99, 97, 108]], rtype := 1, rclass := 1, ttl := 30, rdata := [10, 0, 0, 1] }],
    ns := [{ name := [[119, 112, 97, 100], [108, 111, 99, 97, 108]], rtype := 2, rclass := 1, ttl := 30, rdata := [] }],
    ar := [{ name := [[120], [108, 111, 99, 97, 108]], rtype := 41, rclass := 512, ttl := 0, rdata := [] },
           { name := [[120]], rtype := 41, rclass := 512, ttl := 0, rdata := [] }] }

private def exPl : Nat → Choice
  | 1 => some (0, 12)    -- whole name: the question's name
  | 2 => some (0, 28)    -- the pointer just written (chain)
  | 3 => some (1, 17)    -- one literal label, then the suffix "local" inside the question's name
  | 4 => some (1, 23)    -- one literal label, then a pointer to the root octet of the question's name
  | _ => none

private def exWire2 : Bytes :=
  [0, 1, 128, 0, 0, 1, 0, 1, 0, 1, 0, 2, 4, 119, 112, 97, 100, 5, 108, 111, 99, 97, 108, 0, 0, 1, 0, 1,
   192, 12, 0, 1, 0, 1, 0, 0, 0, 30, 0, 4, 10, 0, 0, 1,
   192, 28, 0, 2, 0, 1, 0, 0, 0, 30, 0, 0,
   1, 120, 192, 17, 0, 41, 2, 0, 0, 0, 0, 0, 0, 0,
   1, 120, 192, 23, 0, 41, 2, 0, 0, 0, 0, 0, 0, 0]

private theorem exWire2_is_serialization : serialize exPl exMsg2 = some exWire2 := by
  simp [serialize, exPl, exMsg2, exWire2, putEntries, putName, qEntry, rEntry, header, questionTail, rrTail, putBe16,
    putBe32, priorOccurrence, parseName, readLabels, nameWire, labelsWire, labelWire, ptrBytes]
  decide

example : ValidMessage exMsg2 := by decide
example : decodeMessage exWire2 = .ok (toModel exMsg2) := by
  simpa using model_parses_spec exMsg2 (by decide) exPl exWire2 exWire2_is_serialization []
/-- a pointer to itself, a forward pointer, a pointer back into the name's own first label -/
example : decodeName [192, 0] 0 = .err := pointer_must_go_back_name [] [] (by simp) 192 0 [] (by decide) (by decide)
example : decodeName [0, 0, 192, 5, 0, 0] 2 = .err :=
  pointer_must_go_back_name [0, 0] [] (by simp) 192 5 [0, 0] (by decide) (by decide)
example : decodeName [1, 97, 192, 0] 0 = .err :=
  pointer_must_go_back_name [] [[97]] (by decide) 192 0 [] (by decide) (by decide)

end Manticore.C09
