/-
  C20 — Address, port-range and hash-credential parsers match standard semantics.
  Property theorems only.  Model and spec: `Manticore/Model/C20.lean`; helper lemmas:
  `Manticore/Lemmas/C20{Text,Bits,Trim,Lmnt,Port}.lean`.

  The model is of the repository tree with `fixes/C20-*.diff` applied.  On the unpatched tree the
  same statements are false (witnesses in KNOWN_FINDINGS.txt, "fixed:" lines).
-/
import Manticore.Lemmas.C20Text
import Manticore.Lemmas.C20Bits
import Manticore.Lemmas.C20Trim
import Manticore.Lemmas.C20Lmnt
import Manticore.Lemmas.C20Port
namespace Manticore.C20
open Manticore

/-! ### IPv4 -/

private theorem octet_dec (a : UInt8) : octet (dec a.toNat) = some a := by
  unfold octet dec
  rw [parseUint_showNum 10 8 a.toNat (by omega) (by omega) (by have := a.toNat_lt; omega)]
  simp

/-- **Print → parse (IPv4 / CIDR).**  For every address and every prefix length 0..32 the text
    `IPv4.String()` prints (`a.b.c.d/m`) is parsed back by `NewIPv4FromString` to the same value. -/
theorem ipv4_print_parse (i : IPv4) (hm : i.m.toNat ≤ 32) :
    parseIPv4 (printIPv4 i) = .ok (some i) := by
  obtain ⟨a, b, c, d, m⟩ := i
  simp only at hm
  have hs : splitOn slashB (printIPv4 ⟨a, b, c, d, m⟩) =
      [dec a.toNat ++ [dotB] ++ dec b.toNat ++ [dotB] ++ dec c.toNat ++ [dotB] ++ dec d.toNat, dec m.toNat] := by
    unfold printIPv4
    simp only [List.append_assoc, List.cons_append, List.nil_append]
    have := splitOn_append slashB (dec a.toNat ++ dotB :: (dec b.toNat ++ dotB :: (dec c.toNat ++ dotB :: dec d.toNat))) (dec m.toNat)
      (by
        intro x hx
        simp only [List.mem_append, List.mem_cons] at hx
        rcases hx with hx | rfl | hx | rfl | hx | rfl | hx
        · exact dec_no _ _ (by simp [slashB]) x hx
        · decide
        · exact dec_no _ _ (by simp [slashB]) x hx
        · decide
        · exact dec_no _ _ (by simp [slashB]) x hx
        · decide
        · exact dec_no _ _ (by simp [slashB]) x hx)
    simp only [List.append_assoc, List.cons_append] at this
    rw [this, splitOn_no_sep _ _ (dec_no _ _ (by simp [slashB]))]
  have hd : splitOn dotB (dec a.toNat ++ [dotB] ++ dec b.toNat ++ [dotB] ++ dec c.toNat ++ [dotB] ++ dec d.toNat) =
      [dec a.toNat, dec b.toNat, dec c.toNat, dec d.toNat] := by
    simp only [List.append_assoc, List.cons_append, List.nil_append]
    rw [splitOn_append _ _ _ (dec_no _ _ (by simp [dotB])), splitOn_append _ _ _ (dec_no _ _ (by simp [dotB])),
      splitOn_append _ _ _ (dec_no _ _ (by simp [dotB])), splitOn_no_sep _ _ (dec_no _ _ (by simp [dotB]))]
  have hmask : parseUint 10 8 (dec m.toNat) = some m.toNat :=
    parseUint_showNum 10 8 m.toNat (by omega) (by omega) (by have := m.toNat_lt; omega)
  unfold parseIPv4
  simp only [hs, List.length_cons, List.length_nil, index, List.getElem?_cons_succ, List.getElem?_cons_zero,
    Outcome.bind_ok, hmask, hd, octet_dec, Outcome.pure_eq]
  simp [hm]

/-- **Totality of the IPv4 parser.**  `NewIPv4FromString` returns (a value or `nil`) on every byte
    string: no index expression can go out of range.  (Unpatched: `"1/2"` panics.) -/
theorem ipv4_parse_total (s : Bytes) : ∃ r, parseIPv4 s = .ok r := by
  unfold parseIPv4
  generalize splitOn slashB s = parts
  by_cases h : parts.length = 2
  · match parts, h with
    | [p0, p1], _ =>
      simp only [List.length_cons, List.length_nil, index, List.getElem?_cons_succ, List.getElem?_cons_zero,
        Outcome.bind_ok, if_true, Outcome.pure_eq]
      generalize splitOn dotB p0 = octets
      split
      · exact ⟨_, rfl⟩
      · split
        · exact ⟨_, rfl⟩
        · by_cases h4 : octets.length = 4
          · match octets, h4 with
            | [o0, o1, o2, o3], _ =>
              simp only [List.length_cons, List.length_nil, List.getElem?_cons_succ, List.getElem?_cons_zero,
                Outcome.bind_ok, ne_eq, not_true_eq_false, if_false]
              repeat (first | exact ⟨_, rfl⟩ | split)
          · simp only [ne_eq, h4, not_false_eq_true, if_true]
            exact ⟨_, rfl⟩
  · simp only [h, if_false, Outcome.pure_eq]
    exact ⟨_, rfl⟩

/-- `ToUInt32` is the number the dotted quad denotes: a·2²⁴ + b·2¹⁶ + c·2⁸ + d. -/
theorem ipv4_value_spec (i : IPv4) :
    (toUInt32 i).toNat = Spec.v4 i.a.toNat i.b.toNat i.c.toNat i.d.toNat := toUInt32_toNat i

/-- **Network mask.**  For every address and every prefix length p ≤ 32, `ComputeMask` (and hence
    `CIDRMask()`, which prints it) is the address with its low 32 − p bits cleared, and keeps p. -/
theorem mask_spec (i : IPv4) (hm : i.m.toNat ≤ 32) :
    (toUInt32 (computeMask i)).toNat
        = Spec.network (Spec.v4 i.a.toNat i.b.toNat i.c.toNat i.d.toNat) i.m.toNat
      ∧ (computeMask i).m = i.m := by
  refine ⟨?_, rfl⟩
  unfold computeMask
  simp only [toUInt32_bytes, and_maskOf_toNat _ _ hm, toUInt32_toNat, Spec.network]

/-- **Subnet membership.**  For all addresses and every prefix length p ≤ 32 of the subnet,
    `ip.IsInSubnet(net)` holds exactly when the two addresses agree on their first p bits
    (the subnet argument need not be a network address).
    (Unpatched: the test was `ip & net == net`, which ignores p.) -/
theorem subnet_spec (i net : IPv4) (hm : net.m.toNat ≤ 32) :
    isInSubnet i net = true ↔
      Spec.sameSubnet (Spec.v4 i.a.toNat i.b.toNat i.c.toNat i.d.toNat)
        (Spec.v4 net.a.toNat net.b.toNat net.c.toNat net.d.toNat) net.m.toNat := by
  unfold isInSubnet Spec.sameSubnet
  rw [beq_iff_eq, ← UInt32.toNat_inj, and_maskOf_toNat _ _ hm, and_maskOf_toNat _ _ hm, toUInt32_toNat, toUInt32_toNat]
  have hp : 0 < 2 ^ (32 - net.m.toNat) := Nat.pow_pos (by omega)
  constructor
  · intro h; exact Nat.eq_of_mul_eq_mul_right hp h
  · intro h; rw [h]

/-- **Range test.**  `IsInRange` / `IPv4Range.Contains` is `start ≤ ip ≤ end` on the numbers the
    addresses denote. -/
theorem range_spec (i start stop : IPv4) :
    isInRange i start stop = true ↔
      Spec.v4 start.a.toNat start.b.toNat start.c.toNat start.d.toNat ≤ Spec.v4 i.a.toNat i.b.toNat i.c.toNat i.d.toNat ∧
      Spec.v4 i.a.toNat i.b.toNat i.c.toNat i.d.toNat ≤ Spec.v4 stop.a.toNat stop.b.toNat stop.c.toNat stop.d.toNat := by
  unfold isInRange
  simp only [Bool.and_eq_true, decide_eq_true_eq, ge_iff_le, UInt32.le_iff_toNat_le, toUInt32_toNat]

/-! ### IPv6 -/

private theorem group_hex (a : UInt16) : group (hex a.toNat) = some a := by
  unfold group hex
  rw [parseUint_showNum 16 16 a.toNat (by omega) (by omega) (by have := a.toNat_lt; omega)]
  simp

/-- **Print → parse (IPv6).**  For every address the text `IPv6.String()` prints (eight lower-case
    hexadecimal groups) is parsed back by `NewIPv6FromString` to the same value. -/
theorem ipv6_print_parse (i : IPv6) : parseIPv6 (printIPv6 i) = .ok (some i) := by
  obtain ⟨a, b, c, d, e, f, g, h⟩ := i
  have hc : ∀ n, ∀ x ∈ hex n, x ≠ colonB := fun n => hex_no n colonB (by simp [colonB])
  have hs : splitOn colonB (printIPv6 ⟨a, b, c, d, e, f, g, h⟩) =
      [hex a.toNat, hex b.toNat, hex c.toNat, hex d.toNat, hex e.toNat, hex f.toNat, hex g.toNat, hex h.toNat] := by
    unfold printIPv6
    simp only [List.append_assoc, List.cons_append, List.nil_append]
    rw [splitOn_append _ _ _ (hc _), splitOn_append _ _ _ (hc _), splitOn_append _ _ _ (hc _),
      splitOn_append _ _ _ (hc _), splitOn_append _ _ _ (hc _), splitOn_append _ _ _ (hc _),
      splitOn_append _ _ _ (hc _), splitOn_no_sep _ _ (hc _)]
  unfold parseIPv6
  simp only [hs, List.length_cons, List.length_nil, index, List.getElem?_cons_succ, List.getElem?_cons_zero,
    Outcome.bind_ok, group_hex, Outcome.pure_eq]
  simp

/-- **Totality of the IPv6 parser.** -/
theorem ipv6_parse_total (s : Bytes) : ∃ r, parseIPv6 s = .ok r := by
  unfold parseIPv6
  generalize splitOn colonB s = parts
  by_cases h : parts.length = 8
  · match parts, h with
    | [p0, p1, p2, p3, p4, p5, p6, p7], _ =>
      simp only [List.length_cons, List.length_nil, index, List.getElem?_cons_succ, List.getElem?_cons_zero,
        Outcome.bind_ok, if_true, Outcome.pure_eq]
      repeat (first | exact ⟨_, rfl⟩ | split)
  · simp only [h, if_false, Outcome.pure_eq]
    exact ⟨_, rfl⟩

/-- `ToUInt128`: the pair (high, low) is the 128-bit number whose base-65536 digits are the groups. -/
theorem ipv6_value_spec (i : IPv6) :
    (toUInt128 i).1.toNat * 2^64 + (toUInt128 i).2.toNat = Spec.v6 (i.groups.map (·.toNat)) :=
  toUInt128_value i

/-- **IPv6 range test.**  The lexicographic comparison of the (high, low) pairs is the order of
    the 128-bit numbers: `IsInRange` / `IPv6Range.Contains` is `start ≤ ip ≤ end`. -/
theorem ipv6_range_spec (i start stop : IPv6) :
    isInRange6 i start stop = true ↔
      Spec.v6 (start.groups.map (·.toNat)) ≤ Spec.v6 (i.groups.map (·.toNat)) ∧
      Spec.v6 (i.groups.map (·.toNat)) ≤ Spec.v6 (stop.groups.map (·.toNat)) := by
  rw [← toUInt128_value, ← toUInt128_value, ← toUInt128_value]
  unfold isInRange6
  have h1 := (toUInt128 i).1.toNat_lt; have h2 := (toUInt128 i).2.toNat_lt
  have h3 := (toUInt128 start).1.toNat_lt; have h4 := (toUInt128 start).2.toNat_lt
  have h5 := (toUInt128 stop).1.toNat_lt; have h6 := (toUInt128 stop).2.toNat_lt
  simp only [Bool.and_eq_true, Bool.or_eq_true, decide_eq_true_eq, beq_iff_eq, gt_iff_lt, ge_iff_le,
    UInt64.lt_iff_toNat_lt, UInt64.le_iff_toNat_le, ← UInt64.toNat_inj]
  omega

/-- **IPv6 "subnet" test.**  The `IPv6` type carries no prefix length; `IsInSubnet` is membership
    in the /128 subnet, i.e. equality of the 128-bit numbers. -/
theorem ipv6_subnet_spec (i net : IPv6) :
    isInSubnet6 i net = true ↔ Spec.v6 (i.groups.map (·.toNat)) = Spec.v6 (net.groups.map (·.toNat)) := by
  rw [← toUInt128_value, ← toUInt128_value]
  unfold isInSubnet6
  have h1 := (toUInt128 i).1.toNat_lt; have h2 := (toUInt128 i).2.toNat_lt
  have h3 := (toUInt128 net).1.toNat_lt; have h4 := (toUInt128 net).2.toNat_lt
  simp only [Bool.and_eq_true, beq_iff_eq, ← UInt64.toNat_inj]
  omega

/-! ### TCP port ranges -/

private theorem trimSpace_dec_padded (n : Nat) (w1 w2 : Bytes) (h1 : ReWs w1) (h2 : ReWs w2) :
    trimSpace (w1 ++ dec n ++ w2) = dec n := by
  rw [trimSpace_pad h1.ws h2.ws]
  apply trimSpace_core
  · intro c hc
    have := head_dec n [] c (by simpa using hc)
    rw [isDigit_iff] at this
    refine ⟨by omega, ?_⟩
    apply eq_false_of_not; rw [isAsciiSpace_iff]; omega
  · intro c hc
    have hm : c ∈ dec n := List.mem_of_getLast? hc
    have := dec_all_digits n c hm
    rw [isDigit_iff] at this
    refine ⟨by omega, ?_⟩
    apply eq_false_of_not; rw [isAsciiSpace_iff]; omega

private theorem ws_no_dash (w : Bytes) (h : ReWs w) : ∀ c ∈ w, c ≠ dashB := by
  intro c hc e; subst e
  have := h _ hc
  revert this; decide

/-- **Port ranges with the white space the pattern allows.**  For all 16-bit `a`, `b` and all
    strings `w₁..w₄` of pattern white space (`[\t\n\f\r ]*`), `w₁ a w₂ - w₃ b w₄` (numbers in
    decimal) parses to `(a, b)`.  (Unpatched: any non-empty `wᵢ` made `ParseUint` fail.) -/
theorem port_parse_padded (a b : UInt16) (w1 w2 w3 w4 : Bytes)
    (h1 : ReWs w1) (h2 : ReWs w2) (h3 : ReWs w3) (h4 : ReWs w4) :
    parsePortRange (w1 ++ dec a.toNat ++ w2 ++ [dashB] ++ w3 ++ dec b.toNat ++ w4) = .ok (a, b) := by
  have ha := a.toNat_lt
  have hb := b.toNat_lt
  have hm := portRangeMatch_padded a.toNat b.toNat (by omega) (by omega) w1 w2 w3 w4 h1 h2 h3 h4
  have hnd : ∀ n, ∀ c ∈ dec n, c ≠ dashB := fun n => dec_no n dashB (by simp [dashB])
  have hs : splitOn dashB (w1 ++ dec a.toNat ++ w2 ++ [dashB] ++ w3 ++ dec b.toNat ++ w4)
      = [w1 ++ dec a.toNat ++ w2, w3 ++ dec b.toNat ++ w4] := by
    have e : w1 ++ dec a.toNat ++ w2 ++ [dashB] ++ w3 ++ dec b.toNat ++ w4
        = (w1 ++ dec a.toNat ++ w2) ++ dashB :: (w3 ++ dec b.toNat ++ w4) := by simp
    rw [e, splitOn_append, splitOn_no_sep]
    · intro c hc
      simp only [List.mem_append] at hc
      rcases hc with (hc | hc) | hc
      · exact ws_no_dash _ h3 c hc
      · exact hnd _ c hc
      · exact ws_no_dash _ h4 c hc
    · intro c hc
      simp only [List.mem_append] at hc
      rcases hc with (hc | hc) | hc
      · exact ws_no_dash _ h1 c hc
      · exact hnd _ c hc
      · exact ws_no_dash _ h2 c hc
  have hpa : parseUint 10 16 (dec a.toNat) = some a.toNat := parseUint_showNum 10 16 _ (by omega) (by omega) (by omega)
  have hpb : parseUint 10 16 (dec b.toNat) = some b.toNat := parseUint_showNum 10 16 _ (by omega) (by omega) (by omega)
  have hla : (dec a.toNat).length > 0 := List.length_pos_iff.mpr (dec_ne_nil _)
  have hlb : (dec b.toNat).length > 0 := List.length_pos_iff.mpr (dec_ne_nil _)
  unfold parsePortRange
  rw [hm, hs]
  simp only [Bool.not_true, Bool.false_eq_true, if_false, List.length_cons, List.length_nil, index,
    List.getElem?_cons_succ, List.getElem?_cons_zero, Outcome.bind_ok, trimSpace_dec_padded _ _ _ h1 h2,
    trimSpace_dec_padded _ _ _ h3 h4, hla, hlb, hpa, hpb, if_true]
  have e1 : ¬ a.toNat > 65535 := by omega
  have e2 : ¬ b.toNat > 65535 := by omega
  simp [e1, e2]

/-- **Print → parse (port ranges).**  For all port pairs, the text `TCPPortRange.String()` prints
    parses back to the same pair. -/
theorem port_print_parse (a b : UInt16) : parsePortRange (printPortRange a b) = .ok (a, b) := by
  have := port_parse_padded a b [] [] [] [] (by simp [ReWs]) (by simp [ReWs]) (by simp [ReWs]) (by simp [ReWs])
  simpa [printPortRange] using this

/-- **Totality of the port-range parser.** -/
theorem port_parse_total (s : Bytes) : parsePortRange s ≠ .panic := by
  unfold parsePortRange
  split
  · intro h; cases h
  · generalize splitOn dashB s = parts
    by_cases h : parts.length = 2
    · match parts, h with
      | [p0, p1], _ =>
        simp only [List.length_cons, List.length_nil, index, List.getElem?_cons_succ, List.getElem?_cons_zero,
          Outcome.bind_ok, if_true]
        intro h
        simp only [bind, Outcome.bind, pure] at h
        repeat (first | contradiction | split at h)
    · rw [if_neg h]; intro h; cases h

/-! ### `LM:NT` hash specifications -/

/-- **What `ParseLMNTHashes` computes.**  On every byte string the result is the reading
    (`Spec.lmnt`) of the string with surrounding white space removed: `lm:nt` ↦ (lm, nt);
    `nt` and `:nt` ↦ ("", nt); the empty string ↦ ("", ""); anything else is an error.
    In particular a hash is either returned intact or the call fails — it is never dropped. -/
theorem lmnt_spec (s : Bytes) :
    parseLMNT s = match Spec.lmnt (trimSpace s) with
      | some r => .ok r
      | none => .err := lmnt_spec_core (trimSpace s)

/-- **White space does not matter.**  For every string `s` and all white-space strings `ws₁`,
    `ws₂` (concatenations of encodings of Unicode white-space runes), `ws₁ ++ s ++ ws₂` is parsed
    exactly as `s` is.  (Unpatched: `" lm:nt "` gave two empty hashes and no error.) -/
theorem lmnt_trim_invariant (s ws1 ws2 : Bytes) (h1 : Spec.Ws ws1) (h2 : Spec.Ws ws2) :
    parseLMNT (ws1 ++ s ++ ws2) = parseLMNT s := by
  unfold parseLMNT
  rw [trimSpace_pad h1 h2]

/-- **Letter case does not matter.**  Two strings that differ only in the case of ASCII letters
    are parsed to results that differ only in the case of ASCII letters (same verdict, same
    hashes in the same slots). -/
theorem lmnt_case_invariant (s t : Bytes) (h : s.map Spec.lower = t.map Spec.lower) :
    (parseLMNT s).map' lowerPair = (parseLMNT t).map' lowerPair := by
  rw [← parseLMNT_lower, ← parseLMNT_lower, h]

private theorem hex_plain (a : UInt8) (h : isHex a = true) : a.toNat < 128 ∧ isAsciiSpace a = false := by
  rw [isHex_iff] at h
  refine ⟨by omega, ?_⟩
  apply eq_false_of_not; rw [isAsciiSpace_iff]; omega

private theorem hash_ne_nil (h : Bytes) (hh : Spec.IsHash h) : h ≠ [] := by
  intro e; subst e; simp [Spec.IsHash] at hh

private theorem hash_core (h : Bytes) (hh : Spec.IsHash h) (rest : Bytes) :
    ∀ a ∈ (h ++ rest).head?, a.toNat < 128 ∧ isAsciiSpace a = false := by
  intro a ha
  match h, hh with
  | c :: r, hh =>
    have e : c = a := by simpa using ha
    rw [← e]
    exact hex_plain c (hh.2 c (by simp))
  | [], hh => exact absurd rfl (hash_ne_nil _ hh)

private theorem hash_last (h : Bytes) (hh : Spec.IsHash h) (pre : Bytes) :
    ∀ a ∈ (pre ++ h).getLast?, a.toNat < 128 ∧ isAsciiSpace a = false := by
  intro a ha
  have hm : a ∈ h := by
    rw [Option.mem_def, List.getLast?_eq_head?_reverse, List.reverse_append] at ha
    match hr : h.reverse with
    | [] => rw [List.reverse_eq_nil_iff] at hr; exact absurd hr (hash_ne_nil _ hh)
    | x :: t =>
      rw [hr] at ha
      have e : x = a := by simpa using ha
      have : x ∈ h.reverse := by rw [hr]; simp
      rw [← e]; simpa using this
  exact hex_plain a (hh.2 a hm)

/-- **A valid pair is never dropped.**  For all valid hashes `lm`, `nt` (32 hexadecimal digits of
    either case) and all white-space paddings, `ws₁ lm:nt ws₂` parses to exactly `(lm, nt)`. -/
theorem lmnt_never_drops_valid (lm nt ws1 ws2 : Bytes) (hl : Spec.IsHash lm) (hn : Spec.IsHash nt)
    (h1 : Spec.Ws ws1) (h2 : Spec.Ws ws2) :
    parseLMNT (ws1 ++ (lm ++ colonB :: nt) ++ ws2) = .ok (lm, nt) := by
  rw [lmnt_trim_invariant _ _ _ h1 h2, lmnt_spec]
  have hc : trimSpace (lm ++ colonB :: nt) = lm ++ colonB :: nt :=
    trimSpace_core _ (hash_core lm hl _) (by
      have := hash_last nt hn (lm ++ [colonB])
      simpa using this)
  rw [hc]
  have hlm := (isHash_spec lm).mpr hl
  have hnt := (isHash_spec nt).mpr hn
  have hll := hl.1
  have e32 : List.take 32 (lm ++ colonB :: nt) = lm := by rw [← hll]; exact List.take_left' rfl
  have d32 : List.drop 32 (lm ++ colonB :: nt) = colonB :: nt := by rw [← hll]; exact List.drop_left' rfl
  have d33 : List.drop 33 (lm ++ colonB :: nt) = nt := by
    have : List.drop 33 (lm ++ colonB :: nt) = List.drop 1 (List.drop 32 (lm ++ colonB :: nt)) := by rw [List.drop_drop]
    rw [this, d32]; rfl
  have hnot : isHash (lm ++ colonB :: nt) = false := by
    apply eq_false_of_not; intro h
    have := isHash_length _ h
    simp [hl.1, hn.1] at this
  have hhead : ((lm ++ colonB :: nt).head? == some colonB) = false := by
    match lm, hl with
    | c :: r, hl' =>
      apply eq_false_of_not; intro e
      exact isHex_ne_colon c (hl'.2 c (by simp)) (by simpa using e)
    | [], hl' => exact absurd rfl (hash_ne_nil _ hl')
  have hemp : (lm ++ colonB :: nt).isEmpty = false := by cases lm <;> rfl
  unfold Spec.lmnt
  rw [hemp, hnot, hhead, e32, d32, d33, hlm, hnt]
  simp

/-- **A lone hash is the NT hash**, with or without the leading colon, under any padding. -/
theorem lmnt_nt_only (nt ws1 ws2 : Bytes) (hn : Spec.IsHash nt) (h1 : Spec.Ws ws1) (h2 : Spec.Ws ws2) :
    parseLMNT (ws1 ++ nt ++ ws2) = .ok ([], nt) ∧ parseLMNT (ws1 ++ (colonB :: nt) ++ ws2) = .ok ([], nt) := by
  have hnt := (isHash_spec nt).mpr hn
  have hne := hash_ne_nil nt hn
  constructor
  · rw [lmnt_trim_invariant _ _ _ h1 h2, lmnt_spec]
    have hc : trimSpace nt = nt :=
      trimSpace_core _ (by simpa using hash_core nt hn []) (by simpa using hash_last nt hn [])
    rw [hc]
    have hemp : nt.isEmpty = false := by cases nt with
      | nil => exact absurd rfl hne
      | cons _ _ => rfl
    unfold Spec.lmnt
    rw [hemp, hnt]; rfl
  · rw [lmnt_trim_invariant _ _ _ h1 h2, lmnt_spec]
    have hc : trimSpace (colonB :: nt) = colonB :: nt :=
      trimSpace_core _ (by simp; decide) (by
        have := hash_last nt hn [colonB]
        simpa using this)
    rw [hc]
    have hnot : isHash (colonB :: nt) = false := by
      apply eq_false_of_not; intro h
      have := isHash_length _ h
      simp [hn.1] at this
    unfold Spec.lmnt
    simp [hnot, hnt]

/-- **Totality.**  `ParseLMNTHashes` never panics: whenever the pattern accepts, the split has at
    least two parts. -/
theorem lmnt_total (s : Bytes) : parseLMNT s ≠ .panic := lmntCore_total (trimSpace s)

/-! ### non-vacuity: the hypotheses are satisfiable and the statements bite -/

/-- "192.168.1.0/24" -/
example : parseIPv4 [49, 57, 50, 46, 49, 54, 56, 46, 49, 46, 48, 47, 50, 52] = .ok (some ⟨192, 168, 1, 0, 24⟩) := by decide
example : printIPv4 ⟨192, 168, 1, 0, 24⟩ = [49, 57, 50, 46, 49, 54, 56, 46, 49, 46, 48, 47, 50, 52] := by decide
/-- "1/2" (panicked before the patch) -/
example : parseIPv4 [49, 47, 50] = .ok none := by decide
/-- 10.0.0.1 is in 10.0.0.2/8; 255.255.255.255 is not in 10.0.0.0/8 (both were wrong before the patch) -/
example : isInSubnet ⟨10, 0, 0, 1, 8⟩ ⟨10, 0, 0, 2, 8⟩ = true := by decide
example : isInSubnet ⟨255, 255, 255, 255, 8⟩ ⟨10, 0, 0, 0, 8⟩ = false := by decide
example : computeMask ⟨192, 168, 1, 17, 20⟩ = ⟨192, 168, 0, 0, 20⟩ := by decide
example : computeMask ⟨192, 168, 1, 17, 0⟩ = ⟨0, 0, 0, 0, 0⟩ := by decide
/-- "80 - 90" -/
example : parsePortRange [56, 48, 32, 45, 32, 57, 48] = .ok (80, 90) := by decide
example : ReWs [32, 9, 10] := by
  intro c hc; simp at hc; rcases hc with rfl | rfl | rfl <;> decide
example : Spec.Ws [32, 0xC2, 0xA0, 0xE2, 0x80, 0x8A] :=
  .one _ _ (by decide) (.two _ _ _ (by decide) (.three _ _ _ _ (by decide) .nil))
example : Spec.IsHash (List.replicate 32 (97 : UInt8)) := by
  refine ⟨by decide, ?_⟩
  intro c hc; rw [List.eq_of_mem_replicate hc]; decide
/-- " " ++ 32×"a" ++ ":" ++ 32×"B" ++ "\n" -/
example : parseLMNT ([32] ++ List.replicate 32 97 ++ [58] ++ List.replicate 32 66 ++ [10])
    = .ok (List.replicate 32 97, List.replicate 32 66) := by decide
/-- a 31-digit hash is rejected, not dropped -/
example : parseLMNT (List.replicate 31 97 ++ [58] ++ List.replicate 32 66) = .err := by decide

end Manticore.C20
