/-
  C08 — the NTLMSSP signature, message types, negotiate flags, message layouts, target-info framing and SPNEGO object
  identifiers of the hand model are those of the current source.  `Gen/ConstsC08.lean` is regenerated on every run from
  network/smb/smb_v10/spnego (tools/extract/consts_c08.go).
-/
import Manticore.Model.C08
import Manticore.Gen.ConstsC08
namespace Manticore.C08
open Manticore
open Manticore.Gen

-- `NTLM_SIGNATURE` and the twelve negotiate flags the model names
theorem consts_match_model_signature_and_flags :
    signature = ConstsC08.signature
      ∧ [F_UNICODE, F_OEM, F_REQUEST_TARGET, F_NTLM, F_DOMAIN_SUPPLIED, F_WORKSTATION_SUPPLIED, F_ALWAYS_SIGN, F_ESS, F_TARGET_INFO, F_VERSION,
         F_128, F_56]
        = [UInt32.ofNat ConstsC08.flagUnicode, UInt32.ofNat ConstsC08.flagOem, UInt32.ofNat ConstsC08.flagRequestTarget, UInt32.ofNat ConstsC08.flagNtlm,
           UInt32.ofNat ConstsC08.flagDomainSupplied, UInt32.ofNat ConstsC08.flagWorkstationSupplied, UInt32.ofNat ConstsC08.flagAlwaysSign,
           UInt32.ofNat ConstsC08.flagEss, UInt32.ofNat ConstsC08.flagTargetInfo, UInt32.ofNat ConstsC08.flagVersion, UInt32.ofNat ConstsC08.flag128,
           UInt32.ofNat ConstsC08.flag56] := by decide

-- the flag word of `CreateNegotiateMessage`: the eight flags always set, then one flag per condition
theorem consts_match_model_negotiateFlags (domain workstation : Bytes) (unicode : Bool) :
    negotiateFlags domain workstation unicode =
      (let f0 := ConstsC08.neg_baseFlags.foldl (fun (a : UInt32) x => a ||| UInt32.ofNat x) 0
       let f1 := if unicode then f0 ||| UInt32.ofNat ConstsC08.neg_unicode_flag else f0 ||| UInt32.ofNat ConstsC08.neg_oem_flag
       let f2 := if domain ≠ [] then f1 ||| UInt32.ofNat ConstsC08.neg_domain_flag else f1
       if workstation ≠ [] then f2 ||| UInt32.ofNat ConstsC08.neg_workstation_flag else f2) := by
  cases unicode <;> by_cases hd : domain = [] <;> by_cases hw : workstation = [] <;> simp [negotiateFlags, hd, hw] <;> decide

-- `CreateNegotiateMessage`: message type 1 and the 40-byte header after which the payload starts
theorem consts_match_model_createNegotiate (upper utf16 : Bytes → Bytes) (domain workstation : Bytes) (unicode : Bool) :
    createNegotiate upper utf16 domain workstation unicode =
    (
      let d := negName upper utf16 unicode domain
      let w := negName upper utf16 unicode workstation
      signature ++ putLe32 (UInt32.ofNat ConstsC08.msgNegotiate) ++ putLe32 (negotiateFlags domain workstation unicode) ++
        descriptor d.length ConstsC08.neg_headerSize ++ descriptor w.length (ConstsC08.neg_headerSize + d.length) ++ defaultVersion ++ d ++ w) := by exact rfl

-- `CreateAuthenticateMessage`: message type 3, the 88-byte header, 8 zero bytes for an absent version, the 16-byte MIC
theorem consts_match_model_createAuthenticate (upper utf16 : Bytes → Bytes) (flags : UInt32) (lm nt : Bytes) (user domain workstation : Bytes) :
    createAuthenticate upper utf16 flags lm nt user domain workstation =
    (
      let n := authNames upper utf16 flags user domain workstation
      let lmOff := ConstsC08.auth_headerSize
      let ntOff := lmOff + lm.length
      let domOff := ntOff + nt.length
      let userOff := domOff + n.domain.length
      let wsOff := userOff + n.user.length
      let keyOff := wsOff + n.workstation.length
      signature ++ putLe32 (UInt32.ofNat ConstsC08.msgAuthenticate) ++
        descriptor lm.length lmOff ++ descriptor nt.length ntOff ++ descriptor n.domain.length domOff ++
        descriptor n.user.length userOff ++ descriptor n.workstation.length wsOff ++ descriptor 0 keyOff ++
        putLe32 flags ++
        (if flags &&& F_VERSION ≠ 0 then defaultVersion else zeros ConstsC08.auth_zeroVersion) ++
        zeros ConstsC08.auth_mic ++
        lm ++ nt ++ n.domain ++ n.user ++ n.workstation) := by exact rfl

-- `CreateNegotiateMessage`: the length guard in front of the writes (a descriptor length is a 16-bit number)
theorem consts_match_model_createNegotiateMessage (upper utf16 : Bytes → Bytes) (domain workstation : Bytes) (unicode : Bool) :
    createNegotiateMessage upper utf16 domain workstation unicode =
    (
      let d := negName upper utf16 unicode domain
      let w := negName upper utf16 unicode workstation
      if d.length > ConstsC08.neg_maxDomain ∨ w.length > ConstsC08.neg_maxWorkstation then .err
      else .ok (createNegotiate upper utf16 domain workstation unicode)) := by exact rfl

-- `CreateAuthenticateMessage`: the length guard over the five payload fields
theorem consts_match_model_createAuthenticateMessage (upper utf16 : Bytes → Bytes) (flags : UInt32) (lm nt : Bytes) (user domain workstation : Bytes) :
    createAuthenticateMessage upper utf16 flags lm nt user domain workstation =
    (
      let n := authNames upper utf16 flags user domain workstation
      if [lm, nt, n.domain, n.user, n.workstation].any (fun field => field.length > ConstsC08.auth_maxField) then .err
      else .ok (createAuthenticate upper utf16 flags lm nt user domain workstation)) := by exact rfl

-- the shape of the two length guards: which lengths are compared, and that the AUTHENTICATE guard ranges over exactly
-- the five fields the model lists, in the model's order
theorem consts_match_model_length_guards :
    ConstsC08.neg_lengthGuard_shape = "(|| (> (len domainBytes) 65535) (> (len workstationBytes) 65535))"
      ∧ ConstsC08.auth_guardedFields = ["lmResponse", "ntResponse", "domainBytes", "usernameBytes", "workstationBytes"] := ⟨rfl, rfl⟩

-- the order and widths of everything the two builders write, and how the payload offsets follow one another
theorem consts_match_model_message_orders :
    ConstsC08.neg_puts
        = ["32l:uint32(NTLM_NEGOTIATE)", "32l:flags", "16l:uint16(len(domainBytes))", "16l:uint16(len(domainBytes))", "32l:uint32(domainOffset)",
           "16l:uint16(len(workstationBytes))", "16l:uint16(len(workstationBytes))", "32l:uint32(workstationOffset)"]
      ∧ ConstsC08.auth_puts
        = ["32l:uint32(NTLM_AUTHENTICATE)", "16l:uint16(len(lmResponse))", "16l:uint16(len(lmResponse))", "32l:uint32(lmResponseOffset)",
           "16l:uint16(len(ntResponse))", "16l:uint16(len(ntResponse))", "32l:uint32(ntResponseOffset)", "16l:uint16(len(domainBytes))",
           "16l:uint16(len(domainBytes))", "32l:uint32(domainOffset)", "16l:uint16(len(usernameBytes))", "16l:uint16(len(usernameBytes))",
           "32l:uint32(usernameOffset)", "16l:uint16(len(workstationBytes))", "16l:uint16(len(workstationBytes))",
           "32l:uint32(workstationOffset)", "16l:uint16(len(sessionKey))", "16l:uint16(len(sessionKey))", "32l:uint32(sessionKeyOffset)", "32l:flags"]
      ∧ ConstsC08.auth_offset_shapes
        = ["headerSize", "(+ lmResponseOffset (len lmResponse))", "(+ ntResponseOffset (len ntResponse))", "(+ domainOffset (len domainBytes))",
           "(+ usernameOffset (len usernameBytes))", "(+ workstationOffset (len workstationBytes))"]
      ∧ [ConstsC08.neg_domainOffset_shape, ConstsC08.neg_workstationOffset_shape] = ["headerSize", "(+ domainOffset (len domainBytes))"]
      ∧ ConstsC08.auth_version_shape = "(!= (& flags 33554432) 0)" := ⟨rfl, rfl, rfl, rfl, rfl⟩

-- `ParseChallengeMessage`: minimum length 56, message type 2, and the offset of every field
theorem consts_match_model_parseChallenge (d : Bytes) :
    parseChallenge d =
    (
      if d.length < ConstsC08.ch_minLen then .err
      else if d.take ConstsC08.ch_signature_hi ≠ signature then .err
      else if u32At d ConstsC08.ch_type_lo ≠ UInt32.ofNat ConstsC08.ch_typeWant then .err
      else do
        let tn ← payloadField d (u16At d ConstsC08.ch_tnLen_lo) (u32At d ConstsC08.ch_tnOff_lo)
        let flags := u32At d ConstsC08.ch_flags_lo
        let ti ← payloadField d (u16At d ConstsC08.ch_tiLen_lo) (u32At d ConstsC08.ch_tiOff_lo)
        let ver := if flags &&& F_VERSION ≠ 0 ∧ d.length ≥ ConstsC08.ch_versionGuard_minLen then versionRoundTrip ((d.drop ConstsC08.ch_version_lo).take ConstsC08.ch_versionLen) else zeros 8
        pure { flags := flags, serverChallenge := (d.drop ConstsC08.ch_serverChallenge_lo).take (ConstsC08.ch_serverChallenge_hi - ConstsC08.ch_serverChallenge_lo), reserved := (d.drop ConstsC08.ch_reserved_lo).take (ConstsC08.ch_reserved_hi - ConstsC08.ch_reserved_lo),
               targetName := tn, targetInfo := ti, version := ver }) := by exact rfl

-- `ParseChallengeMessage`: field widths (2-byte lengths, 4-byte offsets and words, 8-byte blocks), little-endian reads, the
-- version flag tested, the two payload guards
theorem consts_match_model_challenge_layout :
    [ConstsC08.ch_signature_lo, ConstsC08.ch_type_hi - ConstsC08.ch_type_lo, ConstsC08.ch_tnLen_hi - ConstsC08.ch_tnLen_lo,
     ConstsC08.ch_tnOff_hi - ConstsC08.ch_tnOff_lo, ConstsC08.ch_flags_hi - ConstsC08.ch_flags_lo, ConstsC08.ch_tiLen_hi - ConstsC08.ch_tiLen_lo,
     ConstsC08.ch_tiOff_hi - ConstsC08.ch_tiOff_lo, ConstsC08.ch_version_hi - ConstsC08.ch_version_lo] = [0, 4, 2, 4, 4, 2, 4, 8]
      ∧ ConstsC08.ch_anyBig = false ∧ ConstsC08.msgChallenge = ConstsC08.ch_typeWant
      ∧ F_VERSION = UInt32.ofNat ConstsC08.ch_versionGuard_flag ∧ ConstsC08.ch_versionGuard_zero = 0
      ∧ ConstsC08.ch_tnGuard_shape
          = "(&& (> targetNameLen 0) (<= (+ (uint64 targetNameOffset) (uint64 targetNameLen)) (uint64 (len data))))"
      ∧ ConstsC08.ch_tiGuard_shape
          = "(&& (> targetInfoLen 0) (<= (+ (uint64 targetInfoOffset) (uint64 targetInfoLen)) (uint64 (len data))))" :=
  ⟨by decide, rfl, rfl, by decide, rfl, rfl, rfl⟩

-- `ParseTargetInfo`: a 4-byte AV header (id at [0:2], length at [2:4], little-endian: the model's pattern
-- `i0 :: i1 :: l0 :: l1 :: body`), `MsvAvEOL` = 0 ends the list and is not stored; the AV ids
theorem consts_match_model_targetInfo :
    [ConstsC08.ti_need, ConstsC08.ti_id_hi, ConstsC08.ti_len_lo, ConstsC08.ti_len_hi, ConstsC08.ti_advance, ConstsC08.avEOL] = [4, 2, 2, 4, 4, 0]
      ∧ ConstsC08.ti_anyBig = false ∧ ConstsC08.avIds = List.range 11
      ∧ ConstsC08.ti_store_shape = "(!= avId 0)" ∧ ConstsC08.ti_stop_shape = "(== avId 0)"
      ∧ parseTargetInfo [1, 0, 1, 0, 0x41, 0, 0, 0, 0] = .ok [(1, [0x41])] := ⟨by decide, rfl, by decide, rfl, rfl, by decide⟩

-- the SPNEGO and NTLMSSP object identifiers
theorem consts_match_model_oids :
    spnegoOid = ConstsC08.spnegoOid ∧ ntlmOid = ConstsC08.ntlmOid := by decide

end Manticore.C08
