/-
  C14 — the entry type codes, the version constants, the RSA blob header, the CustomKeyInformation ladder and the entry
  framing of the hand model are those of the current source.  `Gen/ConstsC14.lean` is regenerated on every run from
  windows/keycredential (tools/extract/consts_c14.go).
-/
import Manticore.Model.C14
import Manticore.Gen.ConstsC14
namespace Manticore.C14
open Manticore
open Manticore.Gen

-- the entry identifiers of the specification are the package's `KeyCredentialEntryType_*`; `FromBytes` switches on them in
-- this order
theorem consts_match_model_entry_types :
    [Spec.idKeyID, Spec.idKeyHash, Spec.idKeyMaterial, Spec.idKeyUsage, Spec.idKeySource, Spec.idDeviceId, Spec.idCustomKeyInformation]
      = [UInt8.ofNat ConstsC14.entry1, UInt8.ofNat ConstsC14.entry2, UInt8.ofNat ConstsC14.entry3, UInt8.ofNat ConstsC14.entry4,
         UInt8.ofNat ConstsC14.entry5, UInt8.ofNat ConstsC14.entry6, UInt8.ofNat ConstsC14.entry7]
      ∧ ConstsC14.kc_caseOrder
        = ["key.KeyCredentialEntryType_KeyID", "key.KeyCredentialEntryType_KeyHash", "key.KeyCredentialEntryType_KeyMaterial",
           "key.KeyCredentialEntryType_KeyUsage", "key.KeyCredentialEntryType_KeySource", "key.KeyCredentialEntryType_DeviceId",
           "key.KeyCredentialEntryType_CustomKeyInformation", "key.KeyCredentialEntryType_KeyApproximateLastLogonTimeStamp",
           "key.KeyCredentialEntryType_KeyCreationTime"] := ⟨by decide, rfl⟩

-- identifiers are hex for `KeyCredentialVersion_0` and `_1`, base64 otherwise
theorem consts_match_model_isHexVersion (v : UInt32) :
    isHexVersion v = (v == UInt32.ofNat ConstsC14.version0 || v == UInt32.ofNat ConstsC14.version1)
      ∧ ConstsC14.id_fromCases = ["key.KeyCredentialVersion_0", "key.KeyCredentialVersion_1", "key.KeyCredentialVersion_2"]
      ∧ ConstsC14.id_hexCase = ["hex.EncodeToString(keyIdentifier)"] ∧ ConstsC14.version2 = 0x200 := ⟨rfl, rfl, rfl, rfl⟩

-- the blob magic "RSA1", read and written
theorem consts_match_model_rsa_magic : magicRSA1 = ConstsC14.rsa_magic ∧ magicRSA1 = ConstsC14.rsa_magicOut := by decide

-- `RSAKeyMaterial.FromBytes`: the 24-byte header, the offsets of its five fields, where the body starts, the exponent shift
theorem consts_match_model_rsa_fromBytes (rk : RSAKeyMaterial) (value _extra : Bytes) :
    RSAKeyMaterial.fromBytes rk value _extra =
    (
      let rk := { rk with rawBytes := value }
      if value.length < ConstsC14.rsa_minLen then .ok (rk, true)
      else if value.take ConstsC14.rsa_blobType_hi != magicRSA1 then .ok (rk, true)
      else
        let rk := { rk with keySize := le32At value ConstsC14.rsa_keySize_lo }
        let eSize := (le32At value ConstsC14.rsa_eSize_lo).toNat
        let mSize := (le32At value ConstsC14.rsa_mSize_lo).toNat
        let p1Size := (le32At value ConstsC14.rsa_p1Size_lo).toNat
        let p2Size := (le32At value ConstsC14.rsa_p2Size_lo).toNat
        if eSize + mSize + p1Size + p2Size > value.length - ConstsC14.rsa_fits_header then .ok (rk, true)
        else
          let e := ((value.drop ConstsC14.rsa_bodyOffset).take eSize).foldl (fun (acc : UInt32) x => (acc <<< UInt32.ofNat ConstsC14.rsa_exponent_shift) ||| x.toUInt32) 0
          let o1 := ConstsC14.rsa_bodyOffset + eSize
          .ok ({ rk with exponent := e, modulus := (value.drop o1).take mSize,
                         prime1 := (value.drop (o1 + mSize)).take p1Size,
                         prime2 := (value.drop (o1 + mSize + p1Size)).take p2Size }, false)) := by exact rfl

-- `RSAKeyMaterial.ToBytes`: the exponent is written in four bytes
theorem consts_match_model_rsa_toBytes (rk : RSAKeyMaterial) :
    RSAKeyMaterial.toBytes rk =
    (
      magicRSA1 ++ putLe32 rk.keySize ++ putLe32 (UInt32.ofNat ConstsC14.rsa_exponentBytes) ++ putLe32 (UInt32.ofNat rk.modulus.length) ++
        putLe32 (UInt32.ofNat rk.prime1.length) ++ putLe32 (UInt32.ofNat rk.prime2.length) ++
        putBe32 rk.exponent ++ rk.modulus ++ rk.prime1 ++ rk.prime2) := by exact rfl

-- `RSAKeyMaterial`: every header field is a little-endian 32-bit word of width 4, the exponent is written big-endian; the
-- order in which `ToBytes` appends
theorem consts_match_model_rsa_layout :
    [ConstsC14.rsa_keySize_hi - ConstsC14.rsa_keySize_lo, ConstsC14.rsa_eSize_hi - ConstsC14.rsa_eSize_lo, ConstsC14.rsa_mSize_hi - ConstsC14.rsa_mSize_lo,
     ConstsC14.rsa_p1Size_hi - ConstsC14.rsa_p1Size_lo, ConstsC14.rsa_p2Size_hi - ConstsC14.rsa_p2Size_lo] = [4, 4, 4, 4, 4]
      ∧ ConstsC14.rsa_p2Size_hi = ConstsC14.rsa_minLen
      ∧ ConstsC14.rsa_encode = ["32l:rk.KeySize", "32b:rk.Exponent", "32l:uint32(len(b_exponent))", "32l:uint32(len(rk.Modulus))", "32l:0",
                                "32l:uint32(len(b_prime1))", "32l:0", "32l:uint32(len(b_prime2))"]
      ∧ ConstsC14.rsa_appends = ["b_blobType+b_keySize", "data+b_exponentSize", "data+b_modulusSize", "data+b_prime1Size", "data+b_prime2Size",
                                 "data+b_exponent", "data+rk.Modulus", "data+b_prime1", "data+b_prime2"]
      ∧ ConstsC14.rsa_fits_shape
          = "(> (+ (+ (+ (uint64 exponentSize) (uint64 modulusSize)) (uint64 prime1Size)) (uint64 prime2Size)) (uint64 (- (len value) 24)))"
      ∧ ConstsC14.rsa_exponent_shape = "(| (<< rk.Exponent 8) (uint32 (index value (+ offset i))))" := ⟨by decide, rfl, rfl, rfl, rfl, rfl⟩

-- `CustomKeyInformation.FromBytes`: the version, the length ladder 3, 4, 5, 9, 19, >19 and where each field is read
theorem consts_match_model_cki_fromBytes (c : CKI) (blob : Bytes) :
    CKI.fromBytes c blob =
    (
      let n := blob.length
      let c := { c with rawBytes := blob, rawBytesSize := n }
      match blob with
      | v :: f :: rest =>
        let c := { c with version := v.toNat }
        if v != UInt8.ofNat ConstsC14.cki_version then (c, true)
        else
          let c := { c with flags := f }
          if n < ConstsC14.cki_volume_atLeast then (c, false) else
          let c := { c with volumeType := blob.getD ConstsC14.cki_volumeIdx 0 }
          if n < ConstsC14.cki_notify_atLeast then (c, false) else
          let c := { c with supportsNotification := blob.getD ConstsC14.cki_notifyIdx_idx 0 != 0 }
          if n < ConstsC14.cki_fek_atLeast then (c, false) else
          let c := { c with fekKeyVersion := blob.getD ConstsC14.cki_fekIdx 0 }
          if n < ConstsC14.cki_strength_atLeast then (c, false) else
          let c := { c with strength := le32At blob ConstsC14.cki_strengthAt_lo }
          if n < ConstsC14.cki_reserved_atLeast then (c, false) else
          let c := { c with reserved := (blob.drop ConstsC14.cki_reservedAt_lo).take ConstsC14.cki_reservedLen }
          if n ≤ ConstsC14.cki_extended_above then (c, false) else
          ({ c with extended := rest.drop (ConstsC14.cki_extendedAt_lo - ConstsC14.cki_minLen) }, false)
      | _ => (c, true)) := by exact rfl

-- the ladder of `CustomKeyInformation.FromBytes` is consistent: each step starts where the previous one ended; the first two
-- bytes are version and flags (the model's pattern `v :: f :: rest`)
theorem consts_match_model_cki_ladder :
    [ConstsC14.cki_volume_above, ConstsC14.cki_notify_above, ConstsC14.cki_fek_above, ConstsC14.cki_strength_above, ConstsC14.cki_reserved_above,
     ConstsC14.cki_extended_above]
      = [ConstsC14.cki_minLen, ConstsC14.cki_volume_atLeast, ConstsC14.cki_notify_atLeast, ConstsC14.cki_fek_atLeast, ConstsC14.cki_strength_atLeast,
         ConstsC14.cki_reserved_atLeast]
      ∧ [ConstsC14.cki_minLen, ConstsC14.cki_versionIdx, ConstsC14.cki_flagsIdx, ConstsC14.cki_notifyIdx_zero] = [2, 0, 1, 0]
      ∧ ConstsC14.cki_strengthAt_hi = ConstsC14.cki_strengthAt_lo + 4 ∧ ConstsC14.cki_reservedAt_hi = ConstsC14.cki_reservedAt_lo + ConstsC14.cki_reservedLen
      ∧ ConstsC14.cki_extendedLen_minus = ConstsC14.cki_extendedAt_lo := by decide

-- the `switch entryType.Value` of `KeyCredential.FromBytes`: the nine type codes and the minimum lengths 16, 8, 8
theorem consts_match_model_applyEntry (k : KeyCredential) (t : UInt8) (data extra : Bytes) :
    applyEntry k t data extra =
    (
      if t = UInt8.ofNat ConstsC14.entry1 then .ok { k with identifier := fromBinaryId data k.version }
      else if t = UInt8.ofNat ConstsC14.entry2 then .ok { k with keyHash := data }
      else if t = UInt8.ofNat ConstsC14.entry3 then
        match k.material.fromBytes data extra with
        | .ok (m, false) => .ok { k with material := m }
        | .ok (_, true) => .err
        | .err => .err
        | .panic => .panic
      else if t = UInt8.ofNat ConstsC14.entry4 then
        match data with
        | [u] => .ok { k with usage := u }
        | _ => .ok { k with legacyUsage := data }
      else if t = UInt8.ofNat ConstsC14.entry5 then
        match data with
        | s :: _ => .ok { k with source := s }
        | [] => .err
      else if t = UInt8.ofNat ConstsC14.entry6 then
        if data.length < ConstsC14.kc_deviceMin then .err else
        match Guid.fromRawBytes data with
        | .ok g => .ok { k with deviceId := g }
        | .err => .err
        | .panic => .panic
      else if t = UInt8.ofNat ConstsC14.entry7 then .ok { k with cki := (k.cki.fromBytes data).1 }
      else if t = UInt8.ofNat ConstsC14.entry8 then
        if data.length < ConstsC14.kc_lastLogonMin then .err else
        match readTicks data with
        | .ok x => .ok { k with lastLogon := x }
        | .err => .err
        | .panic => .panic
      else if t = UInt8.ofNat ConstsC14.entry9 then
        if data.length < ConstsC14.kc_creationMin then .err else
        match readTicks data with
        | .ok x => .ok { k with creation := x }
        | .err => .err
        | .panic => .panic
      else .ok k) := by exact rfl

-- the entry framing: a 4-byte version, then while more than 3 bytes remain a little-endian 16-bit length at [0:2], the type at
-- [2], 3 header bytes (the model's patterns `v0 :: v1 :: v2 :: v3 :: rest` and `l0 :: l1 :: t :: x :: rest'`); a one-byte usage, a source of
-- at least one byte
theorem consts_match_model_entry_framing :
    [ConstsC14.kc_minLen, ConstsC14.kc_loopAbove, ConstsC14.kc_length_hi, ConstsC14.kc_typeIdx, ConstsC14.kc_header_size, ConstsC14.kc_usageLen,
     ConstsC14.kc_sourceMin] = [4, 3, 2, 2, 3, 1, 1]
      ∧ ConstsC14.kc_length_le = true
      ∧ ConstsC14.kc_write_shape = "(binary.Write buffer binary.LittleEndian (uint16 (len data)))"
      ∧ (versionFromBytes [1, 2, 3, 4, 5]).2 = ConstsC14.kc_minLen := ⟨by decide, rfl, rfl, by decide⟩

end Manticore.C14
