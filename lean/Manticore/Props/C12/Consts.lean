/-
  C12 — the PKCS#7 bounds, the CMAC constants, the RC4 bounds, the GPP key and the base64 re-padding arithmetic of the
  hand model are those of the current source.  `Gen/ConstsC12.lean` is regenerated on every run from crypto/pkcs7,
  crypto/cmac, crypto/rc4 and crypto/gppp (tools/extract/consts_c12.go).
-/
import Manticore.Model.C12
import Manticore.Gen.ConstsC12
namespace Manticore.C12
open Manticore
open Manticore.Gen

open PKCS7 in
-- `pkcs7.Pad`: the smallest block size
theorem consts_match_model_pkcs7_pad (buffer : Bytes) (blockSize : UInt8) :
    PKCS7.pad buffer blockSize =
    (
      if blockSize < UInt8.ofNat ConstsC12.pad_minBlock then .err
      else
        let padLen := blockSize.toNat - buffer.length % blockSize.toNat
        .ok (buffer ++ List.replicate padLen (UInt8.ofNat padLen))) := by exact rfl

-- one turn of the constant-time loop of `Unpad`: which byte is compared (`buffer[len(buffer)-1-i]`)
theorem consts_match_model_pkcs7_unpadLoop (buffer : Bytes) (padLen : UInt8) (n i : Nat) (good : Bool) :
    PKCS7.unpadLoop buffer padLen (n + 1) i good =
      if buffer.length < ConstsC12.unpad_b_back + i then .panic
      else
        match index buffer (buffer.length - ConstsC12.unpad_b_back - i) with
        | .ok b =>
          let outOfRange := decide (padLen.toNat ≤ i)
          let equal := padLen == b
          PKCS7.unpadLoop buffer padLen n (i + 1) (good && (if outOfRange then true else equal))
        | .err => .err
        | .panic => .panic := by exact rfl

open PKCS7 in
-- `pkcs7.Unpad`: the empty-buffer test, the last byte, the 255 cap of the loop, the lower bound 1 of the padding length
theorem consts_match_model_pkcs7_unpad (buffer : Bytes) :
    PKCS7.unpad buffer =
    (
      if buffer.length = ConstsC12.unpad_empty then .err
      else
        match index buffer (buffer.length - ConstsC12.unpad_last_back) with
        | .ok padLen =>
          let blockSize := if ConstsC12.unpad_blockSize > buffer.length then buffer.length else ConstsC12.unpad_blockSize
          match unpadLoop buffer padLen blockSize 0 true with
          | .ok good =>
            let good := good && decide (ConstsC12.unpad_minPad_min ≤ padLen.toNat) && decide (padLen.toNat ≤ buffer.length)
            if good != true then .err
            else if buffer.length < padLen.toNat then .panic
            else slice buffer 0 (buffer.length - padLen.toNat)
          | .err => .err
          | .panic => .panic
        | .err => .err
        | .panic => .panic) := by exact rfl

-- the 0/1 integers of crypto/subtle in `Unpad` (`good := 1`, `Select(outOfRange, 1, equal)`, `good != 1`) and the
-- operator nesting of its expressions
theorem consts_match_model_pkcs7_shapes :
    [ConstsC12.unpad_goodInit, ConstsC12.unpad_select_whenOut, ConstsC12.unpad_goodWant] = [1, 1, 1]
      ∧ [ConstsC12.pad_len_shape, ConstsC12.pad_append_shape, ConstsC12.unpad_b_shape, ConstsC12.unpad_minPad_shape,
         ConstsC12.unpad_maxPad_shape, ConstsC12.unpad_result_shape]
        = ["(- (int blockSize) (% (len buffer) (int blockSize)))", "(append buffer (byte padLen))",
           "(index buffer (- (- (len buffer) 1) i))", "(subtle.ConstantTimeLessOrEq 1 (int padLen))",
           "(subtle.ConstantTimeLessOrEq (int padLen) (len buffer))", "(slice buffer _ (- (len buffer) (int padLen)))"] :=
  ⟨by decide, rfl⟩

-- `cmac.shift1`, one byte: the carry bit and the shift
theorem consts_match_model_cmac_shift1 (x : UInt8) (xs : Bytes) :
    CMAC.shift1 (x :: xs) =
      (((x <<< UInt8.ofNat ConstsC12.shift1_by) ||| (CMAC.shift1 xs).2) :: (CMAC.shift1 xs).1, x >>> UInt8.ofNat ConstsC12.shift1_carry) := by
  exact rfl

-- `k[n-1] ^= r`
theorem consts_match_model_cmac_xorLast {n : Nat} (v : CMAC.Block n) (r : UInt8) :
    CMAC.xorLast v r =
      if h : 0 < n then
        v.set (n - ConstsC12.new_k1Last_back)
          (v[n - ConstsC12.new_k1Last_back]'(by have : ConstsC12.new_k1Last_back = 1 := rfl; omega) ^^^ r)
          (by have : ConstsC12.new_k1Last_back = 1 := rfl; omega)
      else v := by
  exact rfl

open CMAC in
-- `cmac.New`: the two accepted block sizes and their R constants
theorem consts_match_model_cmac_new (n : Nat) (E : CMAC.Block n → CMAC.Block n) :
    CMAC.new n E =
    (
      if n = ConstsC12.block64 ∨ n = ConstsC12.block128 then
        let r : UInt8 := if n = ConstsC12.block64 then UInt8.ofNat ConstsC12.r64 else UInt8.ofNat ConstsC12.r128
        let l := E zero
        let s1 := shift1V l
        let k1 := if s1.2 != 0 then xorLast s1.1 r else s1.1
        let s2 := shift1V k1
        let k2 := if s2.2 != 0 then xorLast s2.1 r else s2.1
        .ok ⟨k1, k2, zero, zero, 0⟩
      else .panic) := by exact rfl

-- the specification's R_b (SP 800-38B §5.3) equals the package's constants; `BlockSize()` is the 128-bit size; both
-- subkeys are adjusted in their last byte
theorem consts_match_model_cmac_Rb (n : Nat) :
    CMAC.Spec.Rb n = (if n = ConstsC12.block64 then ConstsC12.r64 else ConstsC12.r128)
      ∧ ConstsC12.blockSize = ConstsC12.block128 ∧ ConstsC12.new_k2Last_back = ConstsC12.new_k1Last_back
      ∧ ConstsC12.new_rOf = ["r64", "r128"]
      ∧ [ConstsC12.new_k1_shape, ConstsC12.new_k2_shape, ConstsC12.shift1_shape]
        = ["(!= (shift1 d.k1 d.k1) 0)", "(!= (shift1 d.k1 d.k2) 0)", "(| (<< (index src i) 1) b)"] := ⟨rfl, rfl, rfl, rfl, rfl⟩

-- `NewRC4WithKey`: the accepted key lengths
theorem consts_match_model_rc4_newWithKey (key : Bytes) :
    RC4.newWithKey key =
      if h : key.length < ConstsC12.rc4_key_min ∨ key.length > ConstsC12.rc4_key_max then .err
      else .ok ⟨RC4.ksa key (by
        have : ConstsC12.rc4_key_min = 1 := rfl
        omega), 0, 0⟩ := by exact rfl

-- the table size of the two loops of `NewRC4WithKey` is the model's S-box size; the key-scheduling update
theorem consts_match_model_rc4_table :
    ConstsC12.rc4_init = 256 ∧ ConstsC12.rc4_ksa = 256 ∧ (RC4.identity).size = ConstsC12.rc4_init
      ∧ ConstsC12.rc4_key_shape = "(|| (< k 1) (> k 256))"
      ∧ ConstsC12.rc4_j_shape = "(+ (index c.s i) (index key (% i k)))" := ⟨rfl, rfl, rfl, rfl, rfl⟩

-- `GPPP_AES_KEY` is the key published in MS-GPPREF 2.2.1.1.4
theorem consts_match_model_gpp_key : ConstsC12.gpp_key = GPP.Spec.msKey := by decide

open GPP Prim in
-- the base64 re-padding of `GPPPDecryptBase64`
theorem consts_match_model_gpp_repad (s : Bytes) :
    GPP.repad s =
    (
      let pad := s.length % ConstsC12.gpp_padMod
      if pad = ConstsC12.gpp_pad1 then s.take (s.length - ConstsC12.gpp_cut_n)
      else if pad = ConstsC12.gpp_pad2 ∨ pad = ConstsC12.gpp_pad3 then s ++ List.replicate (ConstsC12.gpp_repeat_from - pad) 61
      else s) := by exact rfl

-- `GPPPDecryptBytes` / `GPPPEncrypt`: block size and zero IV come from `aes.BlockSize` (16, the model's block size), the key
-- is `GPPP_AES_KEY`, the padding character is `=`, the UTF-16 length check is `% 2 != 0`
theorem consts_match_model_gpp_shapes :
    [ConstsC12.gpp_dec_iv_shape, ConstsC12.gpp_dec_multiple_shape, ConstsC12.gpp_dec_key_shape, ConstsC12.gpp_enc_iv_shape,
     ConstsC12.gpp_enc_pad_shape, ConstsC12.gpp_enc_key_shape]
      = ["(make []byte aes.BlockSize)", "(!= (% (len ciphertext) aes.BlockSize) 0)", "(aes.NewCipher GPPP_AES_KEY)",
         "(make []byte aes.BlockSize)", "(pkcs7.Pad plaintextBytes aes.BlockSize)", "(aes.NewCipher GPPP_AES_KEY)"]
      ∧ ConstsC12.gpp_padChar = [61] ∧ [ConstsC12.gpp_dec_even_mod, ConstsC12.gpp_dec_even_rem] = [2, 0]
      ∧ GPP.zeroIV.length = ConstsC12.blockSize := ⟨rfl, by decide, by decide, by decide⟩

end Manticore.C12
