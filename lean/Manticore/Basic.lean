/-
  Shared vocabulary of every model: byte strings, the three-valued outcome of a Go call
  (value / error / panic), Go slice expressions with their bounds checks, and the hex
  syntax of the line protocol.  Core Lean only.
-/
namespace Manticore

abbrev Bytes := List UInt8

/-- Result of running a Go function: a value, a returned `error`, or a run-time panic. -/
inductive Outcome (α : Type) where
  | ok (a : α)
  | err
  | panic
  deriving Repr, DecidableEq, Inhabited

namespace Outcome
def bind {α β} (x : Outcome α) (f : α → Outcome β) : Outcome β :=
  match x with
  | ok a => f a
  | err => err
  | panic => panic
instance : Monad Outcome where
  pure := ok
  bind := bind
def map' {α β} (f : α → β) : Outcome α → Outcome β
  | ok a => ok (f a)
  | err => err
  | panic => panic
def isPanic {α} : Outcome α → Bool
  | panic => true
  | _ => false
def isOk {α} : Outcome α → Bool
  | ok _ => true
  | _ => false
@[simp] theorem bind_ok {α β} (a : α) (f : α → Outcome β) : (ok a >>= f) = f a := rfl
@[simp] theorem bind_err {α β} (f : α → Outcome β) : ((err : Outcome α) >>= f) = err := rfl
@[simp] theorem bind_panic {α β} (f : α → Outcome β) : ((panic : Outcome α) >>= f) = panic := rfl
@[simp] theorem pure_eq {α} (a : α) : (pure a : Outcome α) = ok a := rfl
end Outcome

/-- Go `b[lo:hi]` on a slice whose capacity equals its length: panics unless `lo ≤ hi ≤ len`. -/
def slice (b : List α) (lo hi : Nat) : Outcome (List α) :=
  if lo ≤ hi ∧ hi ≤ b.length then .ok ((b.drop lo).take (hi - lo)) else .panic

/-- Go `b[lo:]`. -/
def sliceFrom (b : List α) (lo : Nat) : Outcome (List α) :=
  if lo ≤ b.length then .ok (b.drop lo) else .panic

/-- Go `b[i]`. -/
def index (b : List α) (i : Nat) : Outcome α :=
  match b[i]? with
  | some x => .ok x
  | none => .panic

/-! ### little / big endian -/

def le16 (b0 b1 : UInt8) : UInt16 := b0.toUInt16 ||| (b1.toUInt16 <<< 8)
def be16 (b0 b1 : UInt8) : UInt16 := b1.toUInt16 ||| (b0.toUInt16 <<< 8)
def le32 (b0 b1 b2 b3 : UInt8) : UInt32 :=
  b0.toUInt32 ||| (b1.toUInt32 <<< 8) ||| (b2.toUInt32 <<< 16) ||| (b3.toUInt32 <<< 24)
def be32 (b0 b1 b2 b3 : UInt8) : UInt32 := le32 b3 b2 b1 b0

def putLe16 (x : UInt16) : Bytes := [x.toUInt8, (x >>> 8).toUInt8]
def putBe16 (x : UInt16) : Bytes := [(x >>> 8).toUInt8, x.toUInt8]
def putLe32 (x : UInt32) : Bytes :=
  [x.toUInt8, (x >>> 8).toUInt8, (x >>> 16).toUInt8, (x >>> 24).toUInt8]
def putBe32 (x : UInt32) : Bytes :=
  [(x >>> 24).toUInt8, (x >>> 16).toUInt8, (x >>> 8).toUInt8, x.toUInt8]
def putLe64 (x : UInt64) : Bytes :=
  [x.toUInt8, (x >>> 8).toUInt8, (x >>> 16).toUInt8, (x >>> 24).toUInt8,
   (x >>> 32).toUInt8, (x >>> 40).toUInt8, (x >>> 48).toUInt8, (x >>> 56).toUInt8]
def putBe64 (x : UInt64) : Bytes := (putLe64 x).reverse

/-- little-endian natural number of a byte list (any length) -/
def leNat : Bytes → Nat
  | [] => 0
  | b :: bs => b.toNat + 256 * leNat bs
/-- big-endian natural number of a byte list (any length) -/
def beNat (b : Bytes) : Nat := b.foldl (fun acc x => acc * 256 + x.toNat) 0

/-- `n` little-endian bytes of a natural number (truncating) -/
def natLe : Nat → Nat → Bytes
  | 0, _ => []
  | n+1, x => UInt8.ofNat (x % 256) :: natLe n (x / 256)
def natBe (n x : Nat) : Bytes := (natLe n x).reverse

/-! ### hex syntax of the line protocol -/

def hexDigit (n : Nat) : Char :=
  if n < 10 then Char.ofNat (48 + n) else Char.ofNat (87 + n)

def hexOfByte (b : UInt8) : List Char := [hexDigit (b.toNat / 16), hexDigit (b.toNat % 16)]

/-- lower-case hex; the empty byte string is written `-` so that it stays one token -/
def toHex (b : Bytes) : String :=
  if b.isEmpty then "-" else String.ofList (b.flatMap hexOfByte)

def hexVal (c : Char) : Option Nat :=
  if '0' ≤ c ∧ c ≤ '9' then some (c.toNat - 48)
  else if 'a' ≤ c ∧ c ≤ 'f' then some (c.toNat - 87)
  else if 'A' ≤ c ∧ c ≤ 'F' then some (c.toNat - 55)
  else none

def fromHexChars : List Char → Option Bytes
  | [] => some []
  | [_] => none
  | a :: b :: rest => do
    let x ← hexVal a
    let y ← hexVal b
    let r ← fromHexChars rest
    pure (UInt8.ofNat (x * 16 + y) :: r)

def fromHex (s : String) : Option Bytes :=
  if s == "-" then some [] else fromHexChars s.toList

/-- canonical rendering of an outcome whose value is already a string -/
def showOutcome (o : Outcome String) : String :=
  match o with
  | .ok s => "ok " ++ s
  | .err => "err"
  | .panic => "panic"

def asciiBytes (s : String) : Bytes := s.toList.map (fun c => UInt8.ofNat c.toNat)
def asciiString (b : Bytes) : String := String.ofList (b.map (fun x => Char.ofNat x.toNat))

end Manticore

namespace Manticore
def le64 (b0 b1 b2 b3 b4 b5 b6 b7 : UInt8) : UInt64 :=
  b0.toUInt64 ||| (b1.toUInt64 <<< 8) ||| (b2.toUInt64 <<< 16) ||| (b3.toUInt64 <<< 24) |||
  (b4.toUInt64 <<< 32) ||| (b5.toUInt64 <<< 40) ||| (b6.toUInt64 <<< 48) ||| (b7.toUInt64 <<< 56)
def be64 (b0 b1 b2 b3 b4 b5 b6 b7 : UInt8) : UInt64 := le64 b7 b6 b5 b4 b3 b2 b1 b0
end Manticore
