/-
  Which field gives the length (or count) of which buffer (or list), per command structure, as the
  library's structures are documented to be used: PINNED expectations, written down once from the pinned
  tree and reviewed, not regenerated.  `Props/C04.lean` proves that the unmarshal programs extracted from
  /repo on this run read every buffer with exactly these lengths; the round-trip specification and the
  case generator use THIS table, so a decoder that starts sizing a buffer with another field is exhibited
  with a concrete message instead of being absorbed into the notion of "consistent".
-/
import Manticore.Model.SmbIR
namespace Manticore.Spec.SmbRelations
open Manticore.SmbIR

/-- (command, buffer or list field, its length / count); `padLen…`: the arithmetic behind a padding length -/
def relations : List (String × String × Expr) := [
  ("IoctlRequest", "Pad1", (.fint "ParameterOffset")),
  ("IoctlRequest", "Parameters", (.fint "ParameterCount")),
  ("IoctlRequest", "Pad2", (.fint "DataOffset")),
  ("IoctlRequest", "Data", (.fint "DataCount")),
  ("IoctlResponse", "Pad1", (.fint "ParameterOffset")),
  ("IoctlResponse", "Parameters", (.fint "ParameterCount")),
  ("IoctlResponse", "Pad2", (.fint "DataOffset")),
  ("IoctlResponse", "Data", (.fint "DataCount")),
  ("LockingAndxRequest", "Unlocks", (.fint "NumberOfRequestedUnlocks")),
  ("LockingAndxRequest", "Locks", (.fint "NumberOfRequestedLocks")),
  ("NegotiateResponse", "Challenge", (.fint "ChallengeLength")),
  ("NtTransactRequest", "Pad1", (.fint "ParameterOffset")),
  ("NtTransactRequest", "NT_Trans_Parameters", (.fint "ParameterCount")),
  ("NtTransactRequest", "Pad2", (.fint "DataOffset")),
  ("NtTransactRequest", "NT_Trans_Data", (.fint "DataCount")),
  ("NtTransactSecondaryRequest", "Pad1", (.fint "ParameterOffset")),
  ("NtTransactSecondaryRequest", "NT_Trans_Parameters", (.fint "ParameterCount")),
  ("NtTransactSecondaryRequest", "Pad2", (.fint "DataOffset")),
  ("NtTransactSecondaryRequest", "NT_Trans_Data", (.fint "DataCount")),
  ("ReadMpxResponse", "Pad", (.lit 1)),
  ("ReadMpxResponse", "Data", (.fint "DataLength")),
  ("SessionSetupAndxRequest", "OEMPassword", (.fint "OEMPasswordLen")),
  ("SessionSetupAndxRequest", "UnicodePassword", (.fint "UnicodePasswordLen")),
  -- Pad: UnicodePasswordLen rounded up to an even number of bytes
  ("SessionSetupAndxRequest", "padLen", (.fint "UnicodePasswordLen")),
  ("SessionSetupAndxRequest", "padLen:roundUp", .pad),
  ("SessionSetupAndxRequest", "Pad", .pad),
  -- Pad: one byte when the strings would otherwise start at an odd offset ((len(P)+3)%2 == 1), none otherwise
  ("SessionSetupAndxResponse", "padLen", (.lit 0)),
  ("SessionSetupAndxResponse", "padLen:ifPOdd", (.lit 1)),
  ("SessionSetupAndxResponse", "Pad", .pad),
  ("Transaction2Request", "Pad1", (.fint "ParameterOffset")),
  ("Transaction2Request", "Trans2_Parameters", (.fint "ParameterCount")),
  ("Transaction2Request", "Pad2", (.fint "DataOffset")),
  ("Transaction2Request", "Trans2_Data", (.fint "DataCount")),
  ("Transaction2SecondaryRequest", "Pad1", (.fint "ParameterOffset")),
  ("Transaction2SecondaryRequest", "Trans2_Parameters", (.fint "ParameterCount")),
  ("Transaction2SecondaryRequest", "Pad2", (.fint "DataOffset")),
  ("Transaction2SecondaryRequest", "Trans2_Data", (.fint "DataCount")),
  ("TransactionRequest", "Setup", (.fint "SetupCount")),
  ("TransactionRequest", "Pad1", (.fint "ParameterOffset")),
  ("TransactionRequest", "Trans_Parameters", (.fint "ParameterCount")),
  ("TransactionRequest", "Pad2", (.fint "DataOffset")),
  ("TransactionRequest", "Trans_Data", (.fint "DataCount")),
  ("TransactionSecondaryRequest", "Pad1", (.fint "ParameterOffset")),
  ("TransactionSecondaryRequest", "Trans2_Parameters", (.fint "ParameterCount")),
  ("TransactionSecondaryRequest", "Pad2", (.fint "DataOffset")),
  ("TransactionSecondaryRequest", "Trans2_Data", (.fint "DataCount")),
  ("TreeConnectAndxRequest", "Password", (.fint "PasswordLength")),
  ("TreeConnectAndxRequest", "Pad", (.lit 1)),
  ("WriteAndCloseRequest", "Data", (.fint "CountOfBytesToWrite")),
  ("WriteAndxRequest", "Data", (.fint "DataLength")),
  ("WriteMpxRequest", "Pad", (.fint "DataOffset")),
  ("WriteMpxRequest", "Buffer", (.fint "DataLength")),
  ("WriteRawRequest", "Pad", (.fint "DataLength")),
  ("WriteRawRequest", "Data", (.fint "DataLength"))
]

end Manticore.Spec.SmbRelations
