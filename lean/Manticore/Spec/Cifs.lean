/-
  What MS-CIFS prescribes for the encoding of a command structure, written from the rules of the
  specification (2.2.1 data types, 2.2.3.2/2.2.3.3 parameter and data blocks, 2.2.3.4 batched
  messages) over the *declared* field list of a structure — independent of the extracted Marshal
  programs, which only tell which declared fields live in the parameter block and which in the
  data block.
-/
import Manticore.Model.SmbCmd
namespace Manticore.Spec.Cifs
open Manticore Manticore.SmbIR

/-- MS-CIFS 2.2.1.x: how each declared field type is laid out -/
inductive FieldEnc
  | uint (w : Nat)              -- UCHAR/USHORT/ULONG/LARGE_INTEGER: w bytes, little-endian
  | bytes                       -- UCHAR[]: the bytes as they are
  | uintArr (w : Nat)           -- USHORT[]/ULONG[]: each little-endian
  | nested (typ : String)       -- a structure of 2.2.1.4 (dates, times, strings, attributes)
  | nestedList (typ : String)
  deriving Repr, DecidableEq

def fieldEnc (t : String) : Option FieldEnc :=
  match SmbIR.typeWidth t with
  | some w => some (.uint w)
  | none =>
    if t == "[]types.UCHAR" || (t.startsWith "[" && t.endsWith "]types.UCHAR") then some .bytes
    else if t.startsWith "[" && t.endsWith "]types.USHORT" then some (.uintArr 2)
    else if t.startsWith "[" && t.endsWith "]types.ULONG" then some (.uintArr 4)
    else if t.startsWith "[]types." then some (.nestedList (t.drop 8).toString)
    else if t.startsWith "types." then some (.nested (t.drop 6).toString)
    else if t == "dialects.Dialects" then some (.nested "Dialects")
    else none

/-- MS-CIFS encoding of the nested structures (2.2.1.4): every integer little-endian; buffer
    formats 0x01/0x05 = format byte, USHORT length, bytes; 0x02/0x03/0x04 = format byte,
    null-terminated string; each dialect carries its own 0x02 and terminator -/
def nestedEnc (typ : String) (v : Tup) : Option Bytes :=
  match typ, v with
  | "FILETIME", ([lo, hi], []) => some (natLe 4 lo ++ natLe 4 hi)
  | "SMB_TIME", ([lo, hi], []) => some (natLe 4 lo ++ natLe 4 hi)   -- declared as an 8-byte FILETIME alias here
  | "SMB_DATE", ([y, m, d], []) => if 1980 ≤ y ∧ y < 2108 ∧ m < 16 ∧ d < 32 then some (natLe 2 ((y - 1980) * 512 + m * 32 + d)) else none
  | "SMB_FILE_ATTRIBUTES", ([a], []) => some (natLe 2 a)
  | "SMB_NMPIPE_STATUS", ([i, f], []) => some [UInt8.ofNat i, UInt8.ofNat f]
  | "LOCKING_ANDX_RANGE64", ([p, pad, oh, ol, lh, ll], []) =>
    some (natLe 2 p ++ natLe 2 pad ++ natLe 4 oh ++ natLe 4 ol ++ natLe 4 lh ++ natLe 4 ll)
  | "SMB_STRING", ([fmt, _], [buf]) =>
    if fmt = 1 ∨ fmt = 5 then (if buf.length < 65536 then some (UInt8.ofNat fmt :: natLe 2 buf.length ++ buf) else none)
    else if fmt = 2 ∨ fmt = 3 ∨ fmt = 4 then (if buf.all (· != 0) then some (UInt8.ofNat fmt :: buf ++ [0]) else none)
    else none
  | "OEM_STRING", ([_, _], [buf]) => if buf.all (· != 0) then some (4 :: buf ++ [0]) else none
  | "Dialects", ([], names) =>
    if names.all (fun n => n.all (· != 0)) then some (names.flatMap (fun n => 2 :: n ++ [0])) else none
  | _, _ => none

def encField (t : String) (v : Val) : Option Bytes :=
  match fieldEnc t, v with
  | some (.uint w), .n x => if x < 256 ^ w then some (natLe w x) else none
  | some .bytes, .b bs => some bs
  | some (.uintArr w), .ns xs => if xs.all (· < 256 ^ w) then some (xs.flatMap (natLe w)) else none
  | some (.nested typ), .t tv => nestedEnc typ tv
  | some (.nestedList typ), .ts tvs => (tvs.mapM (nestedEnc typ)).map List.flatten
  | _, _ => none

/-- which declared fields the structure puts in the parameter block / data block -/
def blockOf (c : Cmd) (f : String) : Option Blk :=
  (c.marshal.filterMap emittedField).find? (·.2 == f) |>.map (·.1)

def encBlock (c : Cmd) (env : Env) (b : Blk) : Option Bytes :=
  (c.fields.filter (fun (f, _) => blockOf c f == some b)).foldlM
    (fun acc (f, t) => do
      let v ← env.get f
      let bs ← encField t v
      pure (acc ++ bs)) []

/-- MS-CIFS 2.2.3.4: an AndX command's parameter block starts with AndXCommand (UCHAR; 0xFF = no
    further command), AndXReserved (UCHAR) and AndXOffset (USHORT, little-endian like every integer of
    the protocol; 0 when there is no next command).  The values are those of the AndX block the command
    holds (`SmbIR.andxField`); a command holding none announces "no further command".  `none` where the
    values do not fit their fields. -/
def andxBlock (andx : Bool) (env : Env) : Option Bytes :=
  if andx then
    match env.get andxField with
    | none => some [0xFF, 0x00, 0x00, 0x00]
    | some (.ns [c, r, o]) =>
      if c < 256 ∧ r < 256 ∧ o < 65536 then some ([UInt8.ofNat c, UInt8.ofNat r] ++ natLe 2 o) else none
    | some _ => none
  else some []

/-- `WordCount, Words, ByteCount (LE), Bytes`; `none` where MS-CIFS has no encoding for these values
    (odd parameter length, more than 255 words or 65535 bytes, values out of range, conditional
    fields) — the property is then silent -/
def encode (c : Cmd) (env : Env) : Option Bytes := do
  let p ← encBlock c env .P
  let d ← encBlock c env .D
  let ax ← andxBlock c.isAndX env
  let pw := ax ++ p
  if pw.length % 2 = 1 ∨ pw.length / 2 > 255 ∨ d.length > 65535 then none
  else if (layoutM c.marshal).isNone then none      -- conditional / repeated fields: not covered by this encoder
  else pure (UInt8.ofNat (pw.length / 2) :: pw ++ natLe 2 d.length ++ d)

/-- straight-line except for loops over list fields (arrays of integers or of 2.2.1.4 structures): no field is
    emitted under a condition and nothing goes ahead of the parameter block -/
def loopsOnly : List MStmt → Bool
  | [] => true
  | .ifNonZero _ _ :: _ | .ifNonZeroArr _ _ :: _ | .ifWordCount _ _ :: _ | .subHead _ _ :: _ | .zeros _ _ :: _ => false
  | _ :: r => loopsOnly r

/-- the same rules for the structures whose `Marshal` loops over a list field: an array is the concatenation of its
    elements' encodings in order (`encField` on `.uintArr` / `.nestedList`), everything else as in `encode`.
    `conforms_sound` does not reach these commands (their programs are not straight-line); the implementation is
    compared with this encoder on generated values only. -/
def encodeLists (c : Cmd) (env : Env) : Option Bytes := do
  let p ← encBlock c env .P
  let d ← encBlock c env .D
  let ax ← andxBlock c.isAndX env
  let pw := ax ++ p
  if pw.length % 2 = 1 ∨ pw.length / 2 > 255 ∨ d.length > 65535 then none
  else if !loopsOnly c.marshal then none
  else pure (UInt8.ofNat (pw.length / 2) :: pw ++ natLe 2 d.length ++ d)

/-- the optional trailing parameter field of a structure (`OffsetHigh` of the 14-word WRITE_ANDX and WRITE_RAW
    requests, the 12-word form of WRITE_AND_CLOSE): the single field the program emits under "is non-zero" -/
def optionalFields : List MStmt → List String
  | [] => []
  | .ifNonZero f _ :: r | .ifNonZeroArr f _ :: r => f :: optionalFields r
  | _ :: r => optionalFields r

def withoutOptional : List MStmt → List MStmt
  | [] => []
  | .ifNonZero _ _ :: r | .ifNonZeroArr _ _ :: r => withoutOptional r
  | s :: r => s :: withoutOptional r

def isZeroVal : Val → Bool
  | .n x => x == 0
  | .ns xs => xs.all (· == 0)
  | _ => false

/-- MS-CIFS gives these requests two forms, with and without the optional field (WordCount tells which).  A sender
    has to use the long form to carry a non-zero value; for a zero value this encoder pins the short form, which is
    what the implementation chooses (the long form with a zero field would conform as well).  When the field is
    present it is laid out like any other declared field: full declared width, little-endian. -/
def encodeOptional (c : Cmd) (env : Env) : Option Bytes := do
  let opt := optionalFields c.marshal
  if opt.length != 1 ∨ !loopsOnly (withoutOptional c.marshal) then none else
  let f ← opt.head?
  let v ← env.get f
  let fields := if isZeroVal v then c.fields.filter (·.1 != f) else c.fields
  let enc (b : Blk) : Option Bytes :=
    (fields.filter (fun (g, _) => blockOf c g == some b)).foldlM
      (fun acc (g, t) => do pure (acc ++ (← encField t (← env.get g)))) []
  let p ← enc .P
  let d ← enc .D
  let ax ← andxBlock c.isAndX env
  let pw := ax ++ p
  if pw.length % 2 = 1 ∨ pw.length / 2 > 255 ∨ d.length > 65535 then none
  else pure (UInt8.ofNat (pw.length / 2) :: pw ++ natLe 2 d.length ++ d)

end Manticore.Spec.Cifs
