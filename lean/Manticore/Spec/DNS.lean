/-
  RFC 1035 §3.1, §4.1: the wire grammar of DNS messages, written from the standard and independent of
  any Go code.  Shared by C09 (LLMNR, RFC 4795 uses this format unchanged) and C10 (NBNS, RFC 1002
  §4.2 uses it with first-level-encoded names).

  * a **name** is a list of labels (the root name is the empty list); a label is 1..63 octets; the
    wire form of a name is at most 255 octets;
  * `nameWire` / `plain` serialize without compression;
  * `serialize pl` serializes with compression: for the i-th name of the message the choice `pl i`
    is either "no pointer" or "k literal labels, then a pointer to offset t", allowed whenever the
    RFC reading of the bytes emitted so far at offset `t` is the remaining suffix (a *prior
    occurrence*, §4.1.4) — this covers pointers to whole names, to any suffix of an earlier name, to
    an earlier pointer (chains) and to a root octet;
  * `parse` is the reader: a pointer must refer to a *prior* occurrence, i.e. its target lies before
    the start of the label sequence that contains it (otherwise `Reject.pointer`); length octets
    0x40..0xBF are reserved; a name longer than 255 octets is rejected.
  Core Lean only.
-/
import Manticore.Basic
namespace Manticore.Spec.DNS
open Manticore

abbrev Label := Bytes
abbrev Name := List Label

structure Question where
  name : Name
  qtype : UInt16
  qclass : UInt16
  deriving DecidableEq, Repr

structure RR where
  name : Name
  rtype : UInt16
  rclass : UInt16
  ttl : UInt32
  rdata : Bytes
  deriving DecidableEq, Repr

structure Message where
  id : UInt16
  flags : UInt16
  qd : List Question
  an : List RR
  ns : List RR
  ar : List RR
  deriving DecidableEq, Repr

/-! ### uncompressed wire form -/

def labelWire (l : Label) : Bytes := UInt8.ofNat l.length :: l
def labelsWire (n : Name) : Bytes := n.flatMap labelWire
def nameWire (n : Name) : Bytes := labelsWire n ++ [0]

def ValidLabel (l : Label) : Prop := 1 ≤ l.length ∧ l.length ≤ 63
def ValidName (n : Name) : Prop := (∀ l ∈ n, ValidLabel l) ∧ (nameWire n).length ≤ 255

instance (l : Label) : Decidable (ValidLabel l) := by unfold ValidLabel; exact inferInstance
instance (n : Name) : Decidable (ValidName n) := by unfold ValidName; exact inferInstance

def questionTail (q : Question) : Bytes := putBe16 q.qtype ++ putBe16 q.qclass
def rrTail (r : RR) : Bytes :=
  putBe16 r.rtype ++ putBe16 r.rclass ++ putBe32 r.ttl ++ putBe16 (UInt16.ofNat r.rdata.length) ++ r.rdata

def header (m : Message) : Bytes :=
  putBe16 m.id ++ putBe16 m.flags ++ putBe16 (UInt16.ofNat m.qd.length) ++ putBe16 (UInt16.ofNat m.an.length)
    ++ putBe16 (UInt16.ofNat m.ns.length) ++ putBe16 (UInt16.ofNat m.ar.length)

/-- the message without any compression -/
def plain (m : Message) : Bytes :=
  header m ++ m.qd.flatMap (fun q => nameWire q.name ++ questionTail q)
    ++ m.an.flatMap (fun r => nameWire r.name ++ rrTail r)
    ++ m.ns.flatMap (fun r => nameWire r.name ++ rrTail r)
    ++ m.ar.flatMap (fun r => nameWire r.name ++ rrTail r)

def ValidRR (r : RR) : Prop := ValidName r.name ∧ r.rdata.length ≤ 65535
def ValidMessage (m : Message) : Prop :=
  (∀ q ∈ m.qd, ValidName q.name) ∧ (∀ r ∈ m.an, ValidRR r) ∧ (∀ r ∈ m.ns, ValidRR r) ∧ (∀ r ∈ m.ar, ValidRR r)
  ∧ m.qd.length ≤ 65535 ∧ m.an.length ≤ 65535 ∧ m.ns.length ≤ 65535 ∧ m.ar.length ≤ 65535

instance (r : RR) : Decidable (ValidRR r) := by unfold ValidRR; exact inferInstance
instance (m : Message) : Decidable (ValidMessage m) := by unfold ValidMessage; exact inferInstance

/-! ### reader -/

inductive Reject where
  | truncated   -- the data ends inside a name / a fixed field / RDATA
  | reserved    -- a length octet 0x40..0xBF
  | pointer     -- a compression pointer that does not refer to a prior occurrence
  | tooLong     -- the expanded name exceeds 255 octets
  deriving DecidableEq, Repr

/-- how a run of literal labels ends -/
inductive Tail where
  | root (pos : Nat)            -- a zero octet at `pos`
  | ptr (pos target : Nat)      -- a two-octet pointer at `pos`
  deriving DecidableEq, Repr

/-- read literal labels from `rest` (= the message from offset `pos` on) up to the zero octet or the
    pointer that ends them -/
def readLabels : (rest : Bytes) → (pos : Nat) → Except Reject (List Label × Tail)
  | [], _ => .error .truncated
  | b :: rest, pos =>
    if b = 0 then .ok ([], .root pos)
    else if b.toNat < 64 then
      if rest.length < b.toNat then .error .truncated
      else
        match readLabels (rest.drop b.toNat) (pos + 1 + b.toNat) with
        | .ok (ls, t) => .ok (rest.take b.toNat :: ls, t)
        | .error e => .error e
    else if b.toNat < 192 then .error .reserved
    else
      match rest.head? with
      | none => .error .truncated
      | some c => .ok ([], .ptr pos ((b.toNat - 192) * 256 + c.toNat))
termination_by rest => rest.length
decreasing_by simp; omega

/-- the name that starts at offset `off`, and the offset just after it (after the first pointer
    when there is one).  A pointer must refer to a prior occurrence: `target < off`. -/
def parseName (data : Bytes) (off : Nat) : Except Reject (Name × Nat) :=
  match readLabels (data.drop off) off with
  | .error e => .error e
  | .ok (ls, .root p) => .ok (ls, p + 1)
  | .ok (ls, .ptr p t) =>
    if _h : t < off then
      match parseName data t with
      | .ok (s, _) => .ok (ls ++ s, p + 2)
      | .error e => .error e
    else .error .pointer
termination_by off

def parseNameChecked (data : Bytes) (off : Nat) : Except Reject (Name × Nat) :=
  match parseName data off with
  | .ok (n, next) => if (nameWire n).length ≤ 255 then .ok (n, next) else .error .tooLong
  | .error e => .error e

def parseQuestion (data : Bytes) (off : Nat) : Except Reject (Question × Nat) :=
  match parseNameChecked data off with
  | .error e => .error e
  | .ok (n, p) =>
    match data.drop p with
    | t0 :: t1 :: c0 :: c1 :: _ => .ok ({ name := n, qtype := be16 t0 t1, qclass := be16 c0 c1 }, p + 4)
    | _ => .error .truncated

def parseRR (data : Bytes) (off : Nat) : Except Reject (RR × Nat) :=
  match parseNameChecked data off with
  | .error e => .error e
  | .ok (n, p) =>
    match data.drop p with
    | t0 :: t1 :: c0 :: c1 :: l0 :: l1 :: l2 :: l3 :: r0 :: r1 :: rest =>
      if rest.length < (be16 r0 r1).toNat then .error .truncated
      else .ok ({ name := n, rtype := be16 t0 t1, rclass := be16 c0 c1, ttl := be32 l0 l1 l2 l3,
                  rdata := rest.take (be16 r0 r1).toNat }, p + 10 + (be16 r0 r1).toNat)
    | _ => .error .truncated

/-- `n` consecutive entries starting at `off` -/
def parseMany {α} (f : Bytes → Nat → Except Reject (α × Nat)) (data : Bytes) : Nat → Nat → Except Reject (List α × Nat)
  | 0, off => .ok ([], off)
  | n+1, off =>
    match f data off with
    | .error e => .error e
    | .ok (x, p) =>
      match parseMany f data n p with
      | .ok (xs, q) => .ok (x :: xs, q)
      | .error e => .error e

/-- the four sections, `nq`/`na`/`nn`/`nr` entries each, starting behind the 12-octet header -/
def parseSections (data : Bytes) (id flags : UInt16) (nq na nn nr : Nat) : Except Reject Message :=
  match parseMany parseQuestion data nq 12 with
  | .error e => .error e
  | .ok (qd, o1) =>
    match parseMany parseRR data na o1 with
    | .error e => .error e
    | .ok (an, o2) =>
      match parseMany parseRR data nn o2 with
      | .error e => .error e
      | .ok (ns, o3) =>
        match parseMany parseRR data nr o3 with
        | .error e => .error e
        | .ok (ar, _) => .ok { id := id, flags := flags, qd := qd, an := an, ns := ns, ar := ar }

/-- a whole message (bytes after the last announced record are ignored) -/
def parse (data : Bytes) : Except Reject Message :=
  match data with
  | i0 :: i1 :: f0 :: f1 :: q0 :: q1 :: a0 :: a1 :: n0 :: n1 :: r0 :: r1 :: _ =>
    parseSections data (be16 i0 i1) (be16 f0 f1) (be16 q0 q1).toNat (be16 a0 a1).toNat (be16 n0 n1).toNat (be16 r0 r1).toNat
  | _ => .error .truncated

/-! ### serializer with compression -/

/-- the two octets of a pointer to offset `t < 2^14` -/
def ptrBytes (t : Nat) : Bytes := [UInt8.ofNat (192 + t / 256), UInt8.ofNat (t % 256)]

/-- `none`: the name is written out in full; `some (k, t)`: `k` literal labels, then a pointer to `t` -/
abbrev Choice := Option (Nat × Nat)

/-- offset `t` of the bytes emitted so far is a prior occurrence of the label sequence `s` -/
def priorOccurrence (out : Bytes) (t : Nat) (s : Name) : Bool :=
  match parseName out t with
  | .ok (s', _) => decide (s' = s)
  | .error _ => false

/-- append name `n` to `out`; `none` when the requested pointer is not permitted -/
def putName (out : Bytes) (n : Name) : Choice → Option Bytes
  | none => some (out ++ nameWire n)
  | some (k, t) =>
    if k ≤ n.length ∧ t < out.length ∧ t < 16384 ∧ priorOccurrence out t (n.drop k) = true
    then some (out ++ labelsWire (n.take k) ++ ptrBytes t) else none

/-- entries (name, fixed part) appended one after the other; the i-th name of the message uses `pl i` -/
def putEntries (pl : Nat → Choice) : List (Name × Bytes) → (idx : Nat) → (out : Bytes) → Option Bytes
  | [], _, out => some out
  | (n, tail) :: es, i, out =>
    match putName out n (pl i) with
    | none => none
    | some o => putEntries pl es (i + 1) (o ++ tail)

def qEntry (q : Question) : Name × Bytes := (q.name, questionTail q)
def rEntry (r : RR) : Name × Bytes := (r.name, rrTail r)

/-- every message the grammar allows for `m`: one per admissible placement of pointers -/
def serialize (pl : Nat → Choice) (m : Message) : Option Bytes :=
  match putEntries pl (m.qd.map qEntry) 0 (header m) with
  | none => none
  | some o1 =>
    match putEntries pl (m.an.map rEntry) m.qd.length o1 with
    | none => none
    | some o2 =>
      match putEntries pl (m.ns.map rEntry) (m.qd.length + m.an.length) o2 with
      | none => none
      | some o3 => putEntries pl (m.ar.map rEntry) (m.qd.length + m.an.length + m.ns.length) o3

end Manticore.Spec.DNS
