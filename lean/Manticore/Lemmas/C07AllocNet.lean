/-
  C07, allocation clause for the network decoders: NBT session frames (C11), NBNS packets (C10),
  LLMNR messages (C09).  Definitions in Model/NetAlloc.lean.  Core Lean only.
-/
import Manticore.Model.NetAlloc
import Manticore.Lemmas.C09
import Manticore.Lemmas.C10
import Manticore.Lemmas.SmbCodecsAlloc
namespace Manticore.C11
open Manticore

theorem lengthOf_le (h1 h2 h3 : UInt8) : lengthOf h1 h2 h3 ≤ maxLen := by
  unfold lengthOf maxLen
  have a1 : (h1 &&& 0x01).toNat ≤ 1 := by
    rw [UInt8.toNat_and]; exact Nat.and_le_right
  have a2 := h2.toNat_lt
  have a3 := h3.toNat_lt
  have b1 : (h1 &&& 0x01).toNat <<< 16 < 2 ^ 17 := by rw [Nat.shiftLeft_eq]; omega
  have b2 : h2.toNat <<< 8 < 2 ^ 17 := by rw [Nat.shiftLeft_eq]; omega
  have b3 : h3.toNat < 2 ^ 17 := by omega
  have := Nat.or_lt_two_pow (Nat.or_lt_two_pow b1 b2) b3
  omega

/-- `Receive` allocates at most 4 + 131071 bytes whatever the stream holds -/
theorem receiveAllocOf_le (s : Stream) : receiveAllocOf s ≤ 4 + maxLen := by
  unfold receiveAllocOf
  split
  · split
    · rename_i mt h1 h2 h3 _ _ _ _
      split
      · omega
      · have := lengthOf_le h1 h2 h3; omega
    · omega
  · omega

theorem readFull_ok {s : Stream} {n : Nat} {b : Bytes} {s' : Stream} (h : readFull s n = .ok (b, s')) :
    b.length = n ∧ s'.length + n = s.length := by
  unfold readFull at h
  split at h
  · cases h
  · simp only [Outcome.ok.injEq, Prod.mk.injEq] at h
    obtain ⟨rfl, rfl⟩ := h
    simp only [List.length_take, List.length_drop]; omega

/-- a received message is exactly the buffer that was allocated, and it did arrive -/
theorem receive_alloc (s : Stream) (m : Bytes) (s' : Stream) (h : receive s = .ok (m, s')) :
    m.length + 4 = receiveAllocOf s ∧ m.length + 4 ≤ s.length := by
  unfold receive at h
  unfold receiveAllocOf
  split at h
  · rename_i hdr s1 h4
    simp only [h4]
    obtain ⟨_, hs1⟩ := readFull_ok h4
    split at h
    · rename_i mt h1 h2 h3 e0 e1 e2 e3
      simp only [e0, e1, e2, e3]
      simp only at h
      split at h
      · cases h
      · rename_i hmt
        rw [if_neg hmt]
        split at h
        · rename_i buffer s2 hb
          simp only [Outcome.ok.injEq, Prod.mk.injEq] at h
          obtain ⟨rfl, rfl⟩ := h
          obtain ⟨hl, hs2⟩ := readFull_ok hb
          omega
        · cases h
        · cases h
    all_goals cases h
  · cases h
  · cases h

end Manticore.C11

namespace Manticore.C10
open Manticore
open Manticore.C09 (labelsWeight labelsWeight_append joinDots_length_le)

/-- `readEncodedName` consumes at least the terminator, stays inside the packet, and the text it
    returns is no longer than what it consumed (plus the labels it was entered with) -/
theorem readEncodedName_bound (data : Bytes) (offset : Nat) (labels : List Bytes) :
    ∀ (enc : Bytes) (next : Nat), readEncodedName data offset labels = .ok (enc, next) →
      offset < next ∧ next ≤ data.length ∧ enc.length + offset + 1 ≤ labelsWeight labels + next := by
  fun_induction readEncodedName data offset labels with
  | case1 => intro enc next h; cases h
  | case2 offset labels hlt h0 =>
    intro enc next h
    simp only [Outcome.ok.injEq, Prod.mk.injEq] at h
    obtain ⟨rfl, rfl⟩ := h
    have := (joinDots_length_le labels).1
    omega
  | case3 => intro enc next h; cases h
  | case4 => intro enc next h; cases h
  | case5 offset labels hlt h0 h63 hfit ih =>
    intro enc next h
    obtain ⟨i1, i2, i3⟩ := ih enc next h
    rw [labelsWeight_append] at i3
    simp only [List.length_take, List.length_drop] at i3
    omega

theorem decPairs_length : ∀ (l d : Bytes), decPairs l = .ok d → 2 * d.length = l.length
  | [], d, h => by simp only [decPairs, Outcome.ok.injEq] at h; rw [← h]; rfl
  | [_], d, h => by simp [decPairs] at h
  | hi :: lo :: rest, d, h => by
    simp only [decPairs] at h
    split at h
    · cases h
    · split at h
      · rename_i d' hd
        simp only [Outcome.ok.injEq] at h; rw [← h]
        have := decPairs_length rest d' hd
        simp only [List.length_cons]; omega
      · cases h
      · cases h

theorem splitFirstDot_length (b : Bytes) :
    (splitFirstDot b).1.length + ((splitFirstDot b).2.getD []).length ≤ b.length := by
  induction b with
  | nil => simp [splitFirstDot]
  | cons c r ih =>
    simp only [splitFirstDot]
    split
    · simp
    · simp only [List.length_cons]; omega

/-- a decoded NetBIOS name: at most 16 name bytes, and a scope no longer than the encoded text -/
theorem firstLevelDecode_size (enc : Bytes) (n : NBName) (h : firstLevelDecode enc = .ok n) :
    n.size + 16 ≤ enc.length := by
  unfold firstLevelDecode at h
  split at h
  · cases h
  · rename_i h32
    split at h
    · rename_i d hd
      simp only [Outcome.ok.injEq] at h
      rw [← h]
      have h1 := decPairs_length _ d hd
      have h2 := trimRight_length_le d
      have h3 := splitFirstDot_length enc
      simp only [NBName.size]
      have : (splitFirstDot enc).1.length = 32 := by simpa using h32
      omega
    · cases h
    · cases h

theorem rd16_ok_inv {data : Bytes} {off : Nat} {v : UInt16} (h : rd16 data off = .ok v) : off + 2 ≤ data.length := by
  unfold rd16 at h
  split at h
  · rename_i hs; exact (C06.slice_length hs).2.2
  all_goals cases h

/-- a question: at least 5 bytes consumed, size at most what was consumed plus the two integers -/
theorem unmarshalQ_size (data : Bytes) (off : Nat) (q : Question) (off' : Nat)
    (h : unmarshalQ data off = .ok (q, off')) :
    off + 5 ≤ off' ∧ off' ≤ data.length ∧ q.size + off ≤ off' + 16 := by
  unfold unmarshalQ at h
  split at h
  · rename_i enc next hr
    obtain ⟨r1, r2, r3⟩ := readEncodedName_bound data off [] enc next hr
    simp only [labelsWeight] at r3
    split at h
    · rename_i name hn
      have hs := firstLevelDecode_size enc name hn
      split at h
      · cases h
      · split at h
        · simp only [Outcome.ok.injEq, Prod.mk.injEq] at h
          obtain ⟨rfl, rfl⟩ := h
          simp only [Question.size]
          omega
        · cases h
    · cases h
    · cases h
  · cases h
  · cases h

/-- `rr.RData = make([]byte, rr.RDLength)` is reached only when that many bytes follow the fixed fields -/
theorem rdataAllocOf_le (data : Bytes) (next : Nat) : rdataAllocOf data next + next + 10 ≤ data.length ∨ rdataAllocOf data next = 0 := by
  unfold rdataAllocOf
  split
  · exact Or.inr rfl
  · split
    · split
      · exact Or.inr rfl
      · exact Or.inl (by omega)
    · exact Or.inr rfl

/-- a resource record: at least 11 bytes consumed, size at most what was consumed plus the four
    integers; the RDATA is exactly the `make` -/
theorem unmarshalRR_size (data : Bytes) (off : Nat) (r : RR) (off' : Nat)
    (h : unmarshalRR data off = .ok (r, off')) :
    off + 11 ≤ off' ∧ off' ≤ data.length ∧ r.size + off ≤ off' + 32 ∧
    ∃ next, off < next ∧ r.rdata.length = rdataAllocOf data next := by
  unfold unmarshalRR at h
  split at h
  · rename_i enc next hr
    obtain ⟨r1, r2, r3⟩ := readEncodedName_bound data off [] enc next hr
    simp only [labelsWeight] at r3
    split at h
    · rename_i name hn
      have hs := firstLevelDecode_size enc name hn
      split at h
      · cases h
      · rename_i hfix
        split at h
        · rename_i t c ttl rdl _ _ _ hrdl
          split at h
          · cases h
          · rename_i hfit
            split at h
            · rename_i rd hrd
              simp only [Outcome.ok.injEq, Prod.mk.injEq] at h
              obtain ⟨rfl, rfl⟩ := h
              have hl := (C06.slice_length hrd).1
              refine ⟨by omega, by omega, by simp only [RR.size]; omega, next, r1, ?_⟩
              simp only [rdataAllocOf, if_neg hfix, hrdl, if_neg hfit]
              omega
            · cases h
            · cases h
        · cases h
    · cases h
    · cases h
  · cases h
  · cases h

/-- a section: every entry consumed at least `step` bytes, and the sizes add up to what was
    consumed plus `c` per entry -/
theorem unmarshalMany_size {α} (dec : Bytes → Nat → Outcome (α × Nat)) (sz : α → Nat) (data : Bytes) (step c : Nat)
    (hdec : ∀ off x off', dec data off = .ok (x, off') → off + step ≤ off' ∧ off' ≤ data.length ∧ sz x + off ≤ off' + c) :
    ∀ (n off : Nat) (xs : List α) (o : Nat), unmarshalMany dec data n off = .ok (xs, o) →
      off + step * xs.length ≤ o ∧ (xs.map sz).sum + off ≤ o + c * xs.length ∧ o ≤ max off data.length
  | 0, off, xs, o, h => by
    simp only [unmarshalMany, Outcome.ok.injEq, Prod.mk.injEq] at h
    obtain ⟨rfl, rfl⟩ := h; simp; omega
  | n+1, off, xs, o, h => by
    simp only [unmarshalMany] at h
    split at h
    · rename_i x off1 hx
      obtain ⟨d1, d2, d3⟩ := hdec off x off1 hx
      split at h
      · rename_i xs' o' hm
        simp only [Outcome.ok.injEq, Prod.mk.injEq] at h
        obtain ⟨rfl, rfl⟩ := h
        obtain ⟨m1, m2, m3⟩ := unmarshalMany_size dec sz data step c hdec n off1 xs' o' hm
        simp only [List.length_cons, List.map_cons, List.sum_cons, Nat.mul_succ]
        exact ⟨by omega, by omega, by omega⟩
      · cases h
      · cases h
    · cases h
    · cases h

/-- **`NBTNSPacket.Unmarshal`**: the decoded packet (header, every name, scope and RDATA, 8 per
    integer field) is at most eight times the input -/
theorem unmarshal_size (data : Bytes) (n : Nat) (p : Packet) (h : unmarshal data = .ok (n, p)) :
    p.size ≤ 8 * data.length := by
  unfold unmarshal at h
  split at h
  · cases h
  · rename_i h12
    split at h
    · rename_i id fl qd an ns ar _ _ _ _ _ _
      have hq := unmarshalMany_size unmarshalQ Question.size data 5 16
        (fun off x off' hx => unmarshalQ_size data off x off' hx)
      have hr := unmarshalMany_size unmarshalRR RR.size data 5 32
        (fun off x off' hx => by obtain ⟨a, b, c, _⟩ := unmarshalRR_size data off x off' hx; exact ⟨by omega, b, c⟩)
      split at h
      · rename_i qs o1 h1
        obtain ⟨a1, a2, a3⟩ := hq _ _ _ _ h1
        split at h
        · rename_i as o2 h2
          obtain ⟨b1, b2, b3⟩ := hr _ _ _ _ h2
          split at h
          · rename_i nss o3 h3
            obtain ⟨c1, c2, c3⟩ := hr _ _ _ _ h3
            split at h
            · rename_i ars o4 h4
              obtain ⟨d1, d2, d3⟩ := hr _ _ _ _ h4
              simp only [Outcome.ok.injEq, Prod.mk.injEq] at h
              obtain ⟨_, rfl⟩ := h
              simp only [Packet.size]
              omega
            · cases h
            · cases h
          · cases h
          · cases h
        · cases h
        · cases h
      · cases h
      · cases h
    · cases h

end Manticore.C10

namespace Manticore.C09
open Manticore

/-- the name decoder moves forward and stays inside the message -/
theorem go_next (data : Bytes) (start curr : Nat) (labels : List Bytes) (cost : Nat) :
    ∀ (name : Bytes) (next cost' : Nat), go data start curr labels cost = .ok (name, next, cost') →
      curr < next ∧ next ≤ data.length := by
  fun_induction go data start curr labels cost with
  | case1 => intro name next cost' h; cases h
  | case2 start curr cost hlt h0 =>
    intro name next cost' h
    simp only [Outcome.ok.injEq, Prod.mk.injEq] at h
    obtain ⟨rfl, rfl, rfl⟩ := h; omega
  | case3 start curr labels cost hlt h0 hne =>
    intro name next cost' h
    simp only [Outcome.ok.injEq, Prod.mk.injEq] at h
    obtain ⟨rfl, rfl, rfl⟩ := h; omega
  | case4 => intro name next cost' h; cases h
  | case5 => intro name next cost' h; cases h
  | case6 start curr cost hlt h0 hp hlt1 hback suffix fst c hrec ih =>
    intro name next cost' h
    simp only [Outcome.ok.injEq, Prod.mk.injEq] at h
    obtain ⟨rfl, rfl, rfl⟩ := h; omega
  | case7 start curr labels cost hlt h0 hp hlt1 hback fst c hne hrec ih =>
    intro name next cost' h
    simp only [Outcome.ok.injEq, Prod.mk.injEq] at h
    obtain ⟨rfl, rfl, rfl⟩ := h; omega
  | case8 start curr labels cost hlt h0 hp hlt1 hback suffix fst c hrec hne hnd ih =>
    intro name next cost' h
    simp only [Outcome.ok.injEq, Prod.mk.injEq] at h
    obtain ⟨rfl, rfl, rfl⟩ := h; omega
  | case9 => intro name next cost' h; cases h
  | case10 => intro name next cost' h; cases h
  | case11 => intro name next cost' h; cases h
  | case12 start curr labels cost hlt h0 hp hlen ih =>
    intro name next cost' h
    obtain ⟨i1, i2⟩ := ih _ _ _ h
    omega

/-- `DecodeDomainName`: forward, inside the message, and a text of at most `len(data)²` bytes
    (every compression pointer goes strictly backwards: at most `offset` hops, each adding at most
    `len(data)` bytes) -/
theorem decodeName_size (data : Bytes) (off : Nat) (name : Bytes) (next : Nat)
    (h : decodeName data off = .ok (name, next)) :
    off < next ∧ next ≤ data.length ∧ name.length ≤ data.length * data.length := by
  unfold decodeName decodeNameC at h
  split at h
  · rename_i n nx c hc
    simp only [Outcome.ok.injEq, Prod.mk.injEq] at h
    obtain ⟨rfl, rfl⟩ := h
    split at hc
    · cases hc
    · rename_i hlt
      obtain ⟨g1, g2⟩ := go_next data off off [] 0 _ _ _ hc
      obtain ⟨b1, _⟩ := go_bound data off off [] 0 _ _ _ hc
      simp only [labelsWeight, Nat.zero_add] at b1
      refine ⟨g1, g2, ?_⟩
      have h1 : off * data.length ≤ (data.length - 1) * data.length := Nat.mul_le_mul_right _ (by omega)
      rw [Nat.sub_mul, Nat.one_mul] at h1
      have h2 : data.length ≤ data.length * data.length := Nat.le_mul_of_pos_left _ (by omega)
      omega
  · cases h
  · cases h

theorem decodeQuestion_size (data : Bytes) (off : Nat) (q : Question) (off' : Nat)
    (h : decodeQuestion data off = .ok (q, off')) :
    off + 5 ≤ off' ∧ off' ≤ data.length ∧ q.size + off ≤ off' + (data.length * data.length + 32) := by
  unfold decodeQuestion at h
  split at h
  · rename_i name nx hn
    obtain ⟨n1, n2, n3⟩ := decodeName_size data off name nx hn
    split at h
    · cases h
    · split at h
      · simp only [Outcome.ok.injEq, Prod.mk.injEq] at h
        obtain ⟨rfl, rfl⟩ := h
        simp only [Question.size]; omega
      all_goals cases h
  · cases h
  · cases h

/-- `rr.RData = make([]byte, rr.RDLength)` is reached only when that many bytes follow the fixed fields -/
theorem rdataAllocOf_le (data : Bytes) (off : Nat) : rdataAllocOf data off + off + 10 ≤ data.length ∨ rdataAllocOf data off = 0 := by
  unfold rdataAllocOf
  split
  · exact Or.inr rfl
  · split
    · split
      · exact Or.inr rfl
      · exact Or.inl (by omega)
    · exact Or.inr rfl

theorem decodeRR_size (data : Bytes) (off : Nat) (r : RR) (off' : Nat)
    (h : decodeRR data off = .ok (r, off')) :
    off + 11 ≤ off' ∧ off' ≤ data.length ∧ r.size + off ≤ off' + (data.length * data.length + 32) ∧
    ∃ nx, off < nx ∧ r.rdata.length = rdataAllocOf data nx := by
  unfold decodeRR at h
  split at h
  · rename_i name nx hn
    obtain ⟨n1, n2, n3⟩ := decodeName_size data off name nx hn
    split at h
    · cases h
    · rename_i hfix
      split at h
      · rename_i t c ttl rdl _ _ _ hrdl
        split at h
        · cases h
        · rename_i hfit
          split at h
          · rename_i rd hrd
            simp only [Outcome.ok.injEq, Prod.mk.injEq] at h
            obtain ⟨rfl, rfl⟩ := h
            have hl := (C06.slice_length hrd).1
            refine ⟨by omega, by omega, by simp only [RR.size]; omega, nx, n1, ?_⟩
            simp only [rdataAllocOf, if_neg hfix, hrdl, if_neg hfit]
            omega
          · cases h
          · cases h
      · cases h
  · cases h
  · cases h

theorem decodeMany_size {α} (dec : Bytes → Nat → Outcome (α × Nat)) (sz : α → Nat) (data : Bytes) (step c : Nat)
    (hdec : ∀ off x off', dec data off = .ok (x, off') → off + step ≤ off' ∧ off' ≤ data.length ∧ sz x + off ≤ off' + c) :
    ∀ (n off : Nat) (xs : List α) (o : Nat), decodeMany dec data n off = .ok (xs, o) →
      off + step * xs.length ≤ o ∧ (xs.map sz).sum + off ≤ o + c * xs.length ∧ o ≤ max off data.length
  | 0, off, xs, o, h => by
    simp only [decodeMany, Outcome.ok.injEq, Prod.mk.injEq] at h
    obtain ⟨rfl, rfl⟩ := h; simp; omega
  | n+1, off, xs, o, h => by
    simp only [decodeMany] at h
    split at h
    · rename_i x off1 hx
      obtain ⟨d1, d2, d3⟩ := hdec off x off1 hx
      split at h
      · rename_i xs' o' hm
        simp only [Outcome.ok.injEq, Prod.mk.injEq] at h
        obtain ⟨rfl, rfl⟩ := h
        obtain ⟨m1, m2, m3⟩ := decodeMany_size dec sz data step c hdec n off1 xs' o' hm
        simp only [List.length_cons, List.map_cons, List.sum_cons, Nat.mul_succ]
        exact ⟨by omega, by omega, by omega⟩
      · cases h
      · cases h
    · cases h
    · cases h

/-- **`llmnr.DecodeMessage`**: the decoded message is at most the input plus, per question or
    record, one name of at most `len(data)²` bytes and four integers; there are at most
    `(len(data) − 12)/5` of them.  Polynomial, not linear: DNS name compression lets every record
    point at the same long name, and each decoded name is a fresh string. -/
theorem decodeMessage_size (data : Bytes) (m : Message) (h : decodeMessage data = .ok m) :
    m.size ≤ 48 + data.length + m.count * (data.length * data.length + 32) ∧ 5 * m.count + 12 ≤ data.length := by
  unfold decodeMessage at h
  split at h
  · cases h
  · rename_i h12
    split at h
    · rename_i id fl qd an ns ar _ _ _ _ _ _
      have hq := decodeMany_size decodeQuestion Question.size data 5 (data.length * data.length + 32)
        (fun off x off' hx => decodeQuestion_size data off x off' hx)
      have hr := decodeMany_size decodeRR RR.size data 5 (data.length * data.length + 32)
        (fun off x off' hx => by obtain ⟨a, b, c, _⟩ := decodeRR_size data off x off' hx; exact ⟨by omega, b, c⟩)
      split at h
      · rename_i qs o1 h1
        obtain ⟨a1, a2, a3⟩ := hq _ _ _ _ h1
        split at h
        · rename_i as o2 h2
          obtain ⟨b1, b2, b3⟩ := hr _ _ _ _ h2
          split at h
          · rename_i nss o3 h3
            obtain ⟨c1, c2, c3⟩ := hr _ _ _ _ h3
            split at h
            · rename_i ars o4 h4
              obtain ⟨d1, d2, d3⟩ := hr _ _ _ _ h4
              simp only [Outcome.ok.injEq] at h
              subst h
              simp only [Message.size, Message.count]
              generalize data.length * data.length + 32 = C at *
              refine ⟨?_, by omega⟩
              simp only [Nat.add_mul]
              have e1 := Nat.mul_comm C qs.length
              have e2 := Nat.mul_comm C as.length
              have e3 := Nat.mul_comm C nss.length
              have e4 := Nat.mul_comm C ars.length
              omega
            · cases h
            · cases h
          · cases h
          · cases h
        · cases h
        · cases h
      · cases h
      · cases h
    · cases h

end Manticore.C09
