/-
  C12 helper lemmas — PKCS#7: the and-accumulating constant-time loop of `Unpad` says exactly
  "the last padLen bytes all equal padLen" (adapted from DESIGN-appendix-sketches §K).
-/
import Manticore.Model.C12
namespace Manticore.C12.PKCS7
open Manticore

theorem index_eq {α} (b : List α) (i : Nat) (x : α) (h : b[i]? = some x) : index b i = .ok x := by
  simp [index, h]

/-- the loop never indexes out of range and computes the conjunction over the positions it visits -/
theorem unpadLoop_spec (buf : Bytes) (l : UInt8) : ∀ (n i : Nat) (good : Bool), i + n ≤ buf.length →
    ∃ g, unpadLoop buf l n i good = .ok g ∧
      (g = true ↔ (good = true ∧ ∀ k, i ≤ k → k < i + n → k < l.toNat → buf[buf.length - 1 - k]? = some l)) := by
  intro n
  induction n with
  | zero =>
    intro i good _
    refine ⟨good, rfl, ?_⟩
    constructor
    · intro h; exact ⟨h, fun k h1 h2 => by omega⟩
    · intro h; exact h.1
  | succ n ih =>
    intro i good h
    have hlt : buf.length - 1 - i < buf.length := by omega
    have hidx : buf[buf.length - 1 - i]? = some buf[buf.length - 1 - i] := List.getElem?_eq_getElem hlt
    obtain ⟨g, hg, hiff⟩ := ih (i + 1)
      (good && (if decide (l.toNat ≤ i) then true else l == buf[buf.length - 1 - i])) (by omega)
    refine ⟨g, ?_, ?_⟩
    · rw [unpadLoop, if_neg (by omega), index_eq _ _ _ hidx]
      exact hg
    · rw [hiff]
      constructor
      · rintro ⟨hgood, hall⟩
        simp only [Bool.and_eq_true] at hgood
        refine ⟨hgood.1, ?_⟩
        intro k h1 h2 h3
        by_cases hk : k = i
        · subst hk
          have := hgood.2
          simp only [show ¬ l.toNat ≤ k by omega, decide_false, Bool.false_eq_true, if_false,
            beq_iff_eq] at this
          rw [hidx, this]
        · exact hall k (by omega) (by omega) h3
      · rintro ⟨hgood, hall⟩
        refine ⟨?_, fun k h1 h2 h3 => hall k (by omega) (by omega) h3⟩
        simp only [Bool.and_eq_true, hgood, true_and]
        by_cases hli : l.toNat ≤ i
        · simp [hli]
        · have := hall i (by omega) (by omega) (by omega)
          rw [hidx] at this
          simp only [hli, decide_false, Bool.false_eq_true, if_false, beq_iff_eq]
          exact (Option.some.inj this).symm

/-- "the last p bytes are all l" as a decomposition of the buffer -/
theorem tail_all_iff (buf : Bytes) (l : UInt8) (p : Nat) (hp : p ≤ buf.length) :
    (∀ k, k < p → buf[buf.length - 1 - k]? = some l) ↔
      buf = buf.take (buf.length - p) ++ List.replicate p l := by
  constructor
  · intro h
    apply List.ext_getElem?
    intro j
    by_cases hj : j < buf.length - p
    · rw [List.getElem?_append_left (by simp; omega), List.getElem?_take_of_lt hj]
    · rw [List.getElem?_append_right (by simp; omega)]
      simp only [List.length_take, Nat.min_eq_left (Nat.sub_le _ _)]
      by_cases hj2 : j < buf.length
      · have := h (buf.length - 1 - j) (by omega)
        rw [show buf.length - 1 - (buf.length - 1 - j) = j by omega] at this
        rw [this, List.getElem?_replicate, if_pos (by omega)]
      · rw [List.getElem?_eq_none (by omega), List.getElem?_replicate, if_neg (by omega)]
  · intro h k hk
    rw [h]
    rw [List.getElem?_append_right (by simp; omega)]
    simp only [List.length_append, List.length_take, List.length_replicate,
      Nat.min_eq_left (Nat.sub_le _ _)]
    rw [List.getElem?_replicate, if_pos (by omega)]

/-- closed form of `Unpad` on a non-empty buffer whose last byte is `l` -/
theorem unpad_closed (buf : Bytes) (l : UInt8) (hl : buf[buf.length - 1]? = some l) :
    unpad buf =
      if 1 ≤ l.toNat ∧ l.toNat ≤ buf.length ∧ buf = buf.take (buf.length - l.toNat) ++ List.replicate l.toNat l
      then .ok (buf.take (buf.length - l.toNat)) else .err := by
  have hne : buf.length ≠ 0 := by
    intro h; rw [List.getElem?_eq_none (by omega)] at hl; cases hl
  have hl255 := l.toNat_lt
  obtain ⟨g, hg, hiff⟩ := unpadLoop_spec buf l (if 255 > buf.length then buf.length else 255) 0 true
    (by split <;> omega)
  have hall : 1 ≤ l.toNat → l.toNat ≤ buf.length →
      (g = true ↔ buf = buf.take (buf.length - l.toNat) ++ List.replicate l.toNat l) := by
    intro h1 h2
    rw [hiff, ← tail_all_iff buf l l.toNat h2]
    constructor
    · rintro ⟨_, h⟩ k hk
      exact h k (by omega) (by split <;> omega) hk
    · intro h
      exact ⟨rfl, fun k _ _ h3 => h k h3⟩
  have hG : (g && decide (1 ≤ l.toNat) && decide (l.toNat ≤ buf.length)) = true ↔
      (1 ≤ l.toNat ∧ l.toNat ≤ buf.length ∧ buf = buf.take (buf.length - l.toNat) ++ List.replicate l.toNat l) := by
    simp only [Bool.and_eq_true, decide_eq_true_eq]
    constructor
    · rintro ⟨⟨hg', h1⟩, h2⟩; exact ⟨h1, h2, (hall h1 h2).mp hg'⟩
    · rintro ⟨h1, h2, h3⟩; exact ⟨⟨(hall h1 h2).mpr h3, h1⟩, h2⟩
  unfold unpad
  rw [if_neg hne, index_eq _ _ _ hl]
  simp only [hg]
  by_cases hC : (1 ≤ l.toNat ∧ l.toNat ≤ buf.length ∧ buf = buf.take (buf.length - l.toNat) ++ List.replicate l.toNat l)
  · have hGt := hG.mpr hC
    rw [if_pos hC]
    simp only [hGt, bne_self_eq_false, Bool.false_eq_true, if_false]
    rw [if_neg (by omega)]
    simp [slice]
  · have hGf : (g && decide (1 ≤ l.toNat) && decide (l.toNat ≤ buf.length)) = false := by
      cases h : (g && decide (1 ≤ l.toNat) && decide (l.toNat ≤ buf.length))
      · rfl
      · exact absurd (hG.mp h) hC
    rw [if_neg hC]
    simp [hGf]

theorem unpad_nil : unpad [] = .err := rfl

/-- `Unpad` returns `m` exactly on `m ‖ p × byte(p)` with 1 ≤ p ≤ 255 -/
theorem unpad_ok_iff (buf m : Bytes) : unpad buf = .ok m ↔ Spec.Valid buf m := by
  constructor
  · intro h
    cases hb : buf.length with
    | zero =>
      have : buf = [] := List.length_eq_zero_iff.mp hb
      subst this; cases h
    | succ k =>
      have hlt : buf.length - 1 < buf.length := by omega
      have hl := List.getElem?_eq_getElem hlt
      rw [unpad_closed buf _ hl] at h
      split at h
      next hc =>
        cases h
        refine ⟨buf[buf.length - 1].toNat, hc.1, ?_, ?_⟩
        · have := buf[buf.length - 1].toNat_lt; omega
        · rw [UInt8.ofNat_toNat]; exact hc.2.2
      · cases h
  · rintro ⟨p, hp1, hp2, rfl⟩
    have hlen : (m ++ List.replicate p (UInt8.ofNat p)).length = m.length + p := by simp
    have hl : (m ++ List.replicate p (UInt8.ofNat p))[(m ++ List.replicate p (UInt8.ofNat p)).length - 1]?
        = some (UInt8.ofNat p) := by
      rw [hlen, List.getElem?_append_right (by omega), List.getElem?_replicate, if_pos (by omega)]
    have htn : (UInt8.ofNat p).toNat = p := by simp [UInt8.toNat_ofNat']; omega
    rw [unpad_closed _ _ hl, htn, hlen]
    have ht : (m ++ List.replicate p (UInt8.ofNat p)).take (m.length + p - p) = m := by
      rw [Nat.add_sub_cancel, List.take_left']; rfl
    rw [ht, if_pos ⟨hp1, by omega, rfl⟩]

theorem unpad_no_panic (buf : Bytes) : unpad buf ≠ .panic := by
  cases hb : buf.length with
  | zero =>
    have : buf = [] := List.length_eq_zero_iff.mp hb
    subst this; intro h; cases h
  | succ k =>
    have hlt : buf.length - 1 < buf.length := by omega
    rw [unpad_closed buf _ (List.getElem?_eq_getElem hlt)]
    split <;> intro h <;> cases h

/-- the executable specification decides `Valid` -/
theorem spec_unpad_iff (buf m : Bytes) : Spec.unpad buf = some m ↔ Spec.Valid buf m := by
  unfold Spec.unpad
  cases hg : buf.getLast? with
  | none =>
    have : buf = [] := List.getLast?_eq_none_iff.mp hg
    subst this
    simp only [false_iff, reduceCtorEq]
    rintro ⟨p, hp1, _, h⟩
    have := congrArg List.length h
    simp at this; omega
  | some l =>
    rw [List.getLast?_eq_getElem?] at hg
    have hall : ((buf.drop (buf.length - l.toNat)).all (· == l)) = true ↔
        buf.drop (buf.length - l.toNat) = List.replicate (buf.length - (buf.length - l.toNat)) l := by
      rw [List.eq_replicate_iff]
      simp [List.all_eq_true]
    simp only
    constructor
    · intro h
      split at h
      next hc =>
        cases h
        obtain ⟨h1, h2, h3⟩ := hc
        have hl := l.toNat_lt
        refine ⟨l.toNat, h1, by omega, ?_⟩
        rw [UInt8.ofNat_toNat]
        have := hall.mp h3
        rw [show buf.length - (buf.length - l.toNat) = l.toNat by omega] at this
        rw [← this, List.take_append_drop]
      · cases h
    · rintro ⟨p, hp1, hp2, rfl⟩
      have hlen : (m ++ List.replicate p (UInt8.ofNat p)).length = m.length + p := by simp
      have hl : l = UInt8.ofNat p := by
        rw [hlen, List.getElem?_append_right (by omega), List.getElem?_replicate, if_pos (by omega)] at hg
        exact (Option.some.inj hg).symm
      have htn : l.toNat = p := by rw [hl]; simp [UInt8.toNat_ofNat']; omega
      rw [htn, hlen, Nat.add_sub_cancel]
      rw [if_pos]
      · simp
      · refine ⟨hp1, by omega, ?_⟩
        rw [List.drop_left', hl]
        · simp
        · rfl

end Manticore.C12.PKCS7
