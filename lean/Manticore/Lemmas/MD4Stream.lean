/-
  Streaming MD4 buffer logic (Model/C01 `writeWith`, `sumWith`) = "absorb the padded message block by
  block", for an ARBITRARY compression function and an arbitrary initial state, with the 64-bit bit
  counter wrapping as in Go (no bound on the message length is needed: the counter is only ever used
  modulo 2^64 and modulo 64 bytes).  Adapted from DESIGN-appendix-sketches.md §A.
-/
import Manticore.Model.C01
namespace Manticore.C01.Stream
open Manticore Manticore.C01

variable (compress : Words4 → Bytes → Words4)

theorem absorb_short (st : Words4) (m : Bytes) (h : m.length < 64) : absorb compress st m = (st, m) := by
  rw [absorb]; simp; omega

theorem absorb_long (st : Words4) (m : Bytes) (h : 64 ≤ m.length) :
    absorb compress st m = absorb compress (compress st (m.take 64)) (m.drop 64) := by
  rw [absorb]; simp [h]

theorem absorb_leftover_lt (st : Words4) (m : Bytes) : (absorb compress st m).2.length < 64 := by
  induction st, m using absorb.induct compress with
  | case1 st m h ih => rw [absorb_long compress st m h]; exact ih
  | case2 st m h => rw [absorb_short compress st m (by omega)]; simp; omega

theorem absorb_leftover_len (st : Words4) (m : Bytes) : (absorb compress st m).2.length = m.length % 64 := by
  induction st, m using absorb.induct compress with
  | case1 st m h ih =>
    rw [absorb_long compress st m h, ih]; simp [List.length_drop]; omega
  | case2 st m h => rw [absorb_short compress st m (by omega)]; simp; omega

theorem absorb_append (st : Words4) (a b : Bytes) :
    absorb compress st (a ++ b) =
      absorb compress (absorb compress st a).1 ((absorb compress st a).2 ++ b) := by
  induction st, a using absorb.induct compress with
  | case1 st a h ih =>
    have h' : 64 ≤ (a ++ b).length := by simp; omega
    rw [absorb_long compress st (a ++ b) h', absorb_long compress st a h]
    have t : (a ++ b).take 64 = a.take 64 := by
      rw [List.take_append_of_le_length h]
    have d : (a ++ b).drop 64 = a.drop 64 ++ b := by
      rw [List.drop_append_of_le_length h]
    rw [t, d]; exact ih
  | case2 st a h => rw [absorb_short compress st a (by omega)]

theorem blocks_long (m : Bytes) (h : 64 ≤ m.length) : Spec.blocks m = m.take 64 :: Spec.blocks (m.drop 64) := by
  rw [Spec.blocks]; simp [h]

theorem blocks_short (m : Bytes) (h : m.length < 64) : Spec.blocks m = [] := by
  rw [Spec.blocks]; simp; omega

/-- absorbing a whole number of blocks = folding the compression function over the blocks -/
theorem absorb_eq_foldl_blocks (st : Words4) (m : Bytes) :
    (absorb compress st m).1 = (Spec.blocks m).foldl compress st := by
  induction st, m using absorb.induct compress with
  | case1 st m h ih =>
    rw [absorb_long compress st m h, ih, blocks_long m h]; rfl
  | case2 st m h =>
    rw [absorb_short compress st m (by omega), blocks_short m (by omega)]; rfl

theorem copyAt_len (buf : Bytes) (off : Nat) (src : Bytes) (h : off + src.length ≤ buf.length) :
    (copyAt buf off src).length = buf.length := by
  simp [copyAt, List.length_take, List.length_drop]; omega

theorem copyAt_take (buf : Bytes) (off : Nat) (src : Bytes) (h : off ≤ buf.length) :
    (copyAt buf off src).take (off + src.length) = buf.take off ++ src := by
  simp [copyAt]
  rw [← List.append_assoc, List.take_append_of_le_length (by simp [List.length_take]; omega)]
  rw [List.take_of_length_le (by simp [List.length_take]; omega)]

/-- representation invariant: the running hash `s` (started from chaining value `i0`) has consumed
    exactly the message `m` -/
structure Rep (i0 : Words4) (s : MD4) (m : Bytes) : Prop where
  cnt : s.count.toNat = 8 * m.length % 2 ^ 64
  len : s.buffer.length = 64
  st : s.state = (absorb compress i0 m).1
  pend : s.buffer.take (m.length % 64) = (absorb compress i0 m).2

theorem write_rep (i0 : Words4) (s : MD4) (m p : Bytes) (h : Rep compress i0 s m) :
    Rep compress i0 (writeWith compress s p) (m ++ p) := by
  obtain ⟨hc, hl, hs, hp⟩ := h
  have hk := absorb_leftover_len compress i0 m
  have hlt := absorb_leftover_lt compress i0 m
  have happ := absorb_append compress i0 m p
  generalize hst : (absorb compress i0 m).1 = st at *
  generalize hpd : (absorb compress i0 m).2 = pend at *
  have hbuffered : (((s.count + UInt64.ofNat p.length * 8) / 8 - UInt64.ofNat p.length) % 64).toNat = pend.length := by
    rw [hk]
    simp only [UInt64.toNat_mod, UInt64.toNat_sub, UInt64.toNat_div, UInt64.toNat_add, UInt64.toNat_mul,
      UInt64.toNat_ofNat', UInt64.toNat_ofNat, hc, Nat.reducePow, Nat.reduceMod]
    omega
  have hcount : (s.count + UInt64.ofNat p.length * 8).toNat = 8 * (m ++ p).length % 2 ^ 64 := by
    simp only [UInt64.toNat_add, UInt64.toNat_mul, UInt64.toNat_ofNat', UInt64.toNat_ofNat, hc,
      List.length_append, Nat.reducePow, Nat.reduceMod]
    omega
  unfold writeWith
  simp only [hbuffered, hs]
  by_cases hrem : 64 - pend.length ≤ p.length
  · -- at least one block completes
    simp only [hrem, if_true]
    have hlen : 64 ≤ (pend ++ p).length := by simp; omega
    have htake : (pend ++ p).take 64 = pend ++ p.take (64 - pend.length) := by
      rw [List.take_append]
      congr 1
      rw [List.take_of_length_le (by omega)]
    have hdrop : (pend ++ p).drop 64 = p.drop (64 - pend.length) := by
      rw [List.drop_append]
      rw [List.drop_of_length_le (by omega)]; simp
    have hbuf1 : copyAt s.buffer pend.length (p.take (64 - pend.length)) = pend ++ p.take (64 - pend.length) := by
      unfold copyAt
      have hp' : s.buffer.take pend.length = pend := by rw [hk]; exact hp
      rw [hp']
      have : (s.buffer.drop (pend.length + (p.take (64 - pend.length)).length)) = [] := by
        apply List.drop_of_length_le
        simp [List.length_take]; omega
      rw [this]; simp
    rw [hbuf1]
    have hab : absorb compress i0 (m ++ p) =
        absorb compress (compress st (pend ++ p.take (64 - pend.length))) (p.drop (64 - pend.length)) := by
      rw [happ, absorb_long compress st (pend ++ p) hlen, htake, hdrop]
    have hr_lt := absorb_leftover_lt compress (compress st (pend ++ p.take (64 - pend.length))) (p.drop (64 - pend.length))
    have hr_len := absorb_leftover_len compress i0 (m ++ p)
    refine ⟨hcount, ?_, ?_, ?_⟩
    · show (copyAt _ 0 _).length = 64
      rw [copyAt_len]
      · simp [List.length_take]; omega
      · simp [List.length_take]; omega
    · show _ = (absorb compress i0 (m ++ p)).1
      rw [hab]
    · show (copyAt _ 0 _).take _ = (absorb compress i0 (m ++ p)).2
      rw [hab] at hr_len ⊢
      rw [← hr_len]
      have := copyAt_take (pend ++ p.take (64 - pend.length)) 0
        (absorb compress (compress st (pend ++ p.take (64 - pend.length))) (p.drop (64 - pend.length))).2 (by omega)
      simpa using this
  · -- everything stays buffered
    simp only [hrem, if_false]
    have hshort : (pend ++ p).length < 64 := by simp; omega
    have hab : absorb compress i0 (m ++ p) = (st, pend ++ p) := by
      rw [happ, absorb_short compress st (pend ++ p) hshort]
    refine ⟨hcount, ?_, ?_, ?_⟩
    · show (copyAt _ _ _).length = 64
      rw [copyAt_len] <;> omega
    · show _ = (absorb compress i0 (m ++ p)).1
      rw [hab]
    · show (copyAt _ _ _).take _ = (absorb compress i0 (m ++ p)).2
      rw [hab]
      have hmod : (m ++ p).length % 64 = pend.length + p.length := by
        simp; omega
      rw [hmod, copyAt_take _ _ _ (by omega)]
      have hp' : s.buffer.take pend.length = pend := by rw [hk]; exact hp
      rw [hp']

/-- every chunking: the invariant holds after any sequence of writes -/
theorem writes_rep (i0 : Words4) (s : MD4) (m : Bytes) (chunks : List Bytes) (h : Rep compress i0 s m) :
    Rep compress i0 (chunks.foldl (writeWith compress) s) (m ++ chunks.flatten) := by
  induction chunks generalizing s m with
  | nil => simpa using h
  | cons c cs ih =>
    have := ih (writeWith compress s c) (m ++ c) (write_rep compress i0 s m c h)
    simpa [List.flatten, List.append_assoc] using this

/-! ### Sum -/

/-- `padLen` as Go computes it in wrapping `uint64` arithmetic is the number of padding bytes
    RFC 1320 asks for, always between 1 and 64 — so `padding[:padLen]` never panics -/
theorem padLenOf_toNat (c : UInt64) (L : Nat) (hc : c.toNat = 8 * L % 2 ^ 64) :
    (padLenOf c).toNat = 1 + (119 - L % 64) % 64 := by
  have hidx : (c / 8 % 64).toNat = L % 64 := by
    simp only [UInt64.toNat_mod, UInt64.toNat_div, UInt64.toNat_ofNat, hc, Nat.reducePow, Nat.reduceMod]
    omega
  unfold padLenOf
  simp only [ge_iff_le, UInt64.le_iff_toNat_le, hidx]
  split
  · simp only [UInt64.toNat_add, UInt64.toNat_sub, hidx, UInt64.toNat_ofNat, Nat.reducePow, Nat.reduceMod] at *
    omega
  · simp only [UInt64.toNat_sub, hidx, UInt64.toNat_ofNat, Nat.reducePow, Nat.reduceMod] at *
    omega

theorem padding_take (k : Nat) (hk' : k ≤ 63) :
    padding.take (1 + k) = 0x80 :: List.replicate k 0 := by
  unfold padding
  rw [Nat.add_comm, List.take_succ_cons, List.take_replicate, Nat.min_eq_left hk']

theorem putLe64_eq_natLe (c : UInt64) : putLe64 c = natLe 8 c.toNat := by
  have h : ∀ k : Nat, k < 64 → (c >>> UInt64.ofNat k).toUInt8 = UInt8.ofNat (c.toNat / 2 ^ k % 256) := by
    intro k hk
    apply UInt8.toNat_inj.mp
    simp only [UInt64.toNat_toUInt8, UInt64.toNat_shiftRight, UInt64.toNat_ofNat', UInt8.toNat_ofNat',
      Nat.shiftRight_eq_div_pow]
    have : k % 2 ^ 64 % 64 = k := by omega
    rw [this]; omega
  have h0 : c.toUInt8 = UInt8.ofNat (c.toNat % 256) := by
    apply UInt8.toNat_inj.mp; simp
  simp only [putLe64, natLe, Nat.div_div_eq_div_mul]
  have h8 : (c >>> 8).toUInt8 = UInt8.ofNat (c.toNat / 2 ^ 8 % 256) := h 8 (by omega)
  have h16 : (c >>> 16).toUInt8 = UInt8.ofNat (c.toNat / 2 ^ 16 % 256) := h 16 (by omega)
  have h24 : (c >>> 24).toUInt8 = UInt8.ofNat (c.toNat / 2 ^ 24 % 256) := h 24 (by omega)
  have h32 : (c >>> 32).toUInt8 = UInt8.ofNat (c.toNat / 2 ^ 32 % 256) := h 32 (by omega)
  have h40 : (c >>> 40).toUInt8 = UInt8.ofNat (c.toNat / 2 ^ 40 % 256) := h 40 (by omega)
  have h48 : (c >>> 48).toUInt8 = UInt8.ofNat (c.toNat / 2 ^ 48 % 256) := h 48 (by omega)
  have h56 : (c >>> 56).toUInt8 = UInt8.ofNat (c.toNat / 2 ^ 56 % 256) := h 56 (by omega)
  rw [h0, h8, h16, h24, h32, h40, h48, h56]

/-- the digest `Sum` returns for a hash that has consumed `m` is the chaining value after absorbing the
    RFC-padded message -/
theorem sum_digest (i0 : Words4) (s : MD4) (m : Bytes) (h : Rep compress i0 s m) :
    (sumWith compress s).2 = digestOf ((Spec.blocks (m ++ Spec.pad m.length)).foldl compress i0) := by
  have hc := h.cnt
  have hpl := padLenOf_toNat s.count m.length hc
  have h1 := write_rep compress i0 s m (padding.take (padLenOf s.count).toNat) h
  have h2 := write_rep compress i0 _ _ (putLe64 s.count) h1
  unfold sumWith
  simp only
  rw [h2.st, hpl, padding_take _ (by omega), putLe64_eq_natLe, hc, absorb_eq_foldl_blocks]
  unfold Spec.pad
  simp [List.append_assoc]

end Manticore.C01.Stream
