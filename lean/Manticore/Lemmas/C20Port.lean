/-
  Lemmas about decimal port numbers and the port-range pattern (C20).
-/
import Manticore.Lemmas.C20Text
import Manticore.Lemmas.C20Trim
namespace Manticore.C20
open Manticore

theorem digitChar_toNat (d : Nat) (h : d < 10) : (digitChar d).toNat = 48 + d := by
  unfold digitChar
  rw [if_pos h]
  simp only [UInt8.toNat_ofNat']
  omega

theorem isDigit_iff (c : UInt8) : isDigit c = true ↔ 48 ≤ c.toNat ∧ c.toNat ≤ 57 := by
  simp only [isDigit, Bool.and_eq_true, decide_eq_true_eq, UInt8.le_iff_toNat_le]
  simp only [UInt8.toNat_ofNat, Nat.reducePow, Nat.reduceMod]

theorem inR_iff (lo hi c : UInt8) : inR lo hi c = true ↔ lo.toNat ≤ c.toNat ∧ c.toNat ≤ hi.toNat := by
  simp only [inR, Bool.and_eq_true, decide_eq_true_eq, UInt8.le_iff_toNat_le]

theorem dec_1 (n : Nat) (h : n < 10) : dec n = [digitChar n] := by
  unfold dec showNum
  rw [lsd_step 10 (by omega), if_pos h]; rfl

theorem dec_2 (n : Nat) (h1 : 10 ≤ n) (h : n < 100) : dec n = [digitChar (n / 10), digitChar (n % 10)] := by
  unfold dec showNum
  rw [lsd_step 10 (by omega), if_neg (by omega), lsd_step 10 (by omega), if_pos (by omega)]; rfl

theorem dec_3 (n : Nat) (h1 : 100 ≤ n) (h : n < 1000) :
    dec n = [digitChar (n / 10 / 10), digitChar (n / 10 % 10), digitChar (n % 10)] := by
  unfold dec showNum
  rw [lsd_step 10 (by omega), if_neg (by omega), lsd_step 10 (by omega), if_neg (by omega),
    lsd_step 10 (by omega), if_pos (by omega)]; rfl

theorem dec_4 (n : Nat) (h1 : 1000 ≤ n) (h : n < 10000) :
    dec n = [digitChar (n / 10 / 10 / 10), digitChar (n / 10 / 10 % 10), digitChar (n / 10 % 10), digitChar (n % 10)] := by
  unfold dec showNum
  rw [lsd_step 10 (by omega), if_neg (by omega), lsd_step 10 (by omega), if_neg (by omega),
    lsd_step 10 (by omega), if_neg (by omega), lsd_step 10 (by omega), if_pos (by omega)]; rfl

theorem dec_5 (n : Nat) (h1 : 10000 ≤ n) (h : n < 100000) :
    dec n = [digitChar (n / 10 / 10 / 10 / 10), digitChar (n / 10 / 10 / 10 % 10), digitChar (n / 10 / 10 % 10),
      digitChar (n / 10 % 10), digitChar (n % 10)] := by
  unfold dec showNum
  rw [lsd_step 10 (by omega), if_neg (by omega), lsd_step 10 (by omega), if_neg (by omega),
    lsd_step 10 (by omega), if_neg (by omega), lsd_step 10 (by omega), if_neg (by omega),
    lsd_step 10 (by omega), if_pos (by omega)]; rfl

theorem lit_toNat : (48 : UInt8).toNat = 48 ∧ (49 : UInt8).toNat = 49 ∧ (50 : UInt8).toNat = 50 ∧ (51 : UInt8).toNat = 51
    ∧ (52 : UInt8).toNat = 52 ∧ (53 : UInt8).toNat = 53 ∧ (54 : UInt8).toNat = 54 ∧ (57 : UInt8).toNat = 57 := by decide

/-- every 16-bit number prints to a string the pattern's number alternation accepts -/
theorem isPortNum_dec (n : Nat) (h : n < 65536) : isPortNum (dec n) = true := by
  obtain ⟨l48, l49, l50, l51, l52, l53, l54, l57⟩ := lit_toNat
  by_cases h1 : n < 10
  · rw [dec_1 n h1]
    simp only [isPortNum, inR_iff, digitChar_toNat n h1, l48, l57]; omega
  by_cases h2 : n < 100
  · rw [dec_2 n (by omega) h2]
    simp only [isPortNum, inR_iff, isDigit_iff, Bool.and_eq_true, digitChar_toNat (n / 10) (by omega),
      digitChar_toNat (n % 10) (by omega), l49, l57]; omega
  by_cases h3 : n < 1000
  · rw [dec_3 n (by omega) h3]
    simp only [isPortNum, inR_iff, isDigit_iff, Bool.and_eq_true, digitChar_toNat (n / 10 / 10) (by omega),
      digitChar_toNat (n / 10 % 10) (by omega), digitChar_toNat (n % 10) (by omega), l49, l57]; omega
  by_cases h4 : n < 10000
  · rw [dec_4 n (by omega) h4]
    simp only [isPortNum, inR_iff, isDigit_iff, Bool.and_eq_true, digitChar_toNat (n / 10 / 10 / 10) (by omega),
      digitChar_toNat (n / 10 / 10 % 10) (by omega),
      digitChar_toNat (n / 10 % 10) (by omega), digitChar_toNat (n % 10) (by omega), l49, l57]; omega
  · rw [dec_5 n (by omega) (by omega)]
    simp only [isPortNum, inR_iff, isDigit_iff, Bool.and_eq_true, Bool.or_eq_true, beq_iff_eq, ← UInt8.toNat_inj,
      digitChar_toNat (n / 10 / 10 / 10 / 10) (by omega), digitChar_toNat (n / 10 / 10 / 10 % 10) (by omega),
      digitChar_toNat (n / 10 / 10 % 10) (by omega),
      digitChar_toNat (n / 10 % 10) (by omega), digitChar_toNat (n % 10) (by omega),
      l48, l49, l50, l51, l52, l53, l54]
    omega

theorem dropWhile_app (p : UInt8 → Bool) (w X : Bytes) (hw : ∀ c ∈ w, p c = true) (hX : ∀ c ∈ X.head?, p c = false) :
    (w ++ X).dropWhile p = X := by
  induction w with
  | nil =>
    cases X with
    | nil => rfl
    | cons x r => simp [hX x (by simp)]
  | cons a w ih =>
    simp only [List.cons_append, List.dropWhile, hw a (by simp)]
    exact ih (fun c hc => hw c (by simp [hc]))

theorem takeWhile_app (p : UInt8 → Bool) (w X : Bytes) (hw : ∀ c ∈ w, p c = true) (hX : ∀ c ∈ X.head?, p c = false) :
    (w ++ X).takeWhile p = w := by
  induction w with
  | nil =>
    cases X with
    | nil => rfl
    | cons x r => simp [hX x (by simp)]
  | cons a w ih =>
    simp only [List.cons_append, List.takeWhile, hw a (by simp)]
    rw [ih (fun c hc => hw c (by simp [hc]))]

theorem isReSpace_iff (c : UInt8) : isReSpace c = true ↔
    c.toNat = 9 ∨ c.toNat = 10 ∨ c.toNat = 12 ∨ c.toNat = 13 ∨ c.toNat = 32 := by
  simp only [isReSpace, Bool.or_eq_true, beq_iff_eq, ← UInt8.toNat_inj]
  simp only [UInt8.toNat_ofNat, Nat.reducePow, Nat.reduceMod, or_assoc]

theorem dec_all_digits (n : Nat) : ∀ c ∈ dec n, isDigit c = true := by
  intro c hc
  obtain ⟨d, hd, rfl⟩ := showNum_mem 10 n (by omega) c hc
  rw [isDigit_iff, digitChar_toNat d hd]; omega

theorem dec_ne_nil (n : Nat) : dec n ≠ [] := by
  unfold dec showNum
  have := lsd_ne_nil 10 n
  cases h : lsd 10 n with
  | nil => exact absurd h this
  | cons a t => simp

/-- white space in the sense of the pattern's `\s` -/
def ReWs (w : Bytes) : Prop := ∀ c ∈ w, isReSpace c = true

theorem ReWs.ws {w : Bytes} (h : ReWs w) : Spec.Ws w := by
  induction w with
  | nil => exact .nil
  | cons a w ih =>
    refine .one a w ?_ (ih (fun c hc => h c (by simp [hc])))
    have := h a (by simp)
    rw [isReSpace_iff] at this; rw [isAsciiSpace_iff]; omega

theorem digit_not_space (c : UInt8) (h : isDigit c = true) : isReSpace c = false := by
  apply eq_false_of_not; rw [isReSpace_iff]; rw [isDigit_iff] at h; omega
theorem space_not_digit (c : UInt8) (h : isReSpace c = true) : isDigit c = false := by
  apply eq_false_of_not; rw [isDigit_iff]; rw [isReSpace_iff] at h; omega

/-- head of `dec n ++ X` is a digit -/
theorem head_dec (n : Nat) (X : Bytes) : ∀ c ∈ (dec n ++ X).head?, isDigit c = true := by
  intro c hc
  match hd : dec n with
  | [] => exact absurd hd (dec_ne_nil n)
  | a :: t =>
    rw [hd] at hc; simp at hc; subst hc
    exact dec_all_digits n a (by rw [hd]; simp)

/-- head of `w ++ dash :: X` (w spaces) is not a digit -/
theorem head_ws_dash (w X : Bytes) (hw : ReWs w) : ∀ c ∈ (w ++ dashB :: X).head?, isDigit c = false := by
  intro c hc
  cases w with
  | nil => simp at hc; subst hc; decide
  | cons a w => simp at hc; subst hc; exact space_not_digit _ (hw _ (by simp))

theorem head_ws (w : Bytes) (hw : ReWs w) : ∀ c ∈ w.head?, isDigit c = false := by
  intro c hc
  cases w with
  | nil => simp at hc
  | cons a w => simp at hc; subst hc; exact space_not_digit _ (hw _ (by simp))

theorem portRangeMatch_padded (a b : Nat) (ha : a < 65536) (hb : b < 65536) (w1 w2 w3 w4 : Bytes)
    (h1 : ReWs w1) (h2 : ReWs w2) (h3 : ReWs w3) (h4 : ReWs w4) :
    portRangeMatch (w1 ++ dec a ++ w2 ++ [dashB] ++ w3 ++ dec b ++ w4) = true := by
  unfold portRangeMatch
  simp only [List.append_assoc, List.cons_append, List.nil_append]
  have e1 : (w1 ++ (dec a ++ (w2 ++ dashB :: (w3 ++ (dec b ++ w4))))).dropWhile isReSpace
      = dec a ++ (w2 ++ dashB :: (w3 ++ (dec b ++ w4))) :=
    dropWhile_app _ _ _ h1 (fun c hc => digit_not_space c (head_dec a _ c hc))
  rw [e1]
  have e2 : (dec a ++ (w2 ++ dashB :: (w3 ++ (dec b ++ w4)))).takeWhile isDigit = dec a :=
    takeWhile_app _ _ _ (dec_all_digits a) (head_ws_dash w2 _ h2)
  have e3 : (dec a ++ (w2 ++ dashB :: (w3 ++ (dec b ++ w4)))).dropWhile isDigit = w2 ++ dashB :: (w3 ++ (dec b ++ w4)) :=
    dropWhile_app _ _ _ (dec_all_digits a) (head_ws_dash w2 _ h2)
  have e4 : (w2 ++ dashB :: (w3 ++ (dec b ++ w4))).dropWhile isReSpace = dashB :: (w3 ++ (dec b ++ w4)) :=
    dropWhile_app _ _ _ h2 (fun c hc => by simp at hc; subst hc; decide)
  rw [e2, e3, e4]
  have e5 : (w3 ++ (dec b ++ w4)).dropWhile isReSpace = dec b ++ w4 :=
    dropWhile_app _ _ _ h3 (fun c hc => digit_not_space c (head_dec b _ c hc))
  have e6 : (dec b ++ w4).takeWhile isDigit = dec b := takeWhile_app _ _ _ (dec_all_digits b) (head_ws w4 h4)
  have e7 : (dec b ++ w4).dropWhile isDigit = w4 := dropWhile_app _ _ _ (dec_all_digits b) (head_ws w4 h4)
  have e8 : w4.dropWhile isReSpace = [] := by
    have := dropWhile_app isReSpace w4 [] h4 (by simp)
    simpa using this
  simp only [beq_self_eq_true, if_true, e5, e6, e7, e8, isPortNum_dec a ha, isPortNum_dec b hb]
  rfl
end Manticore.C20
