/-
  Helper lemmas for C13: from bit patterns to numbers — the values of little/big-endian compositions,
  the 128-bit number of 16 bytes, and what `UUIDv1.Unmarshal` extracts in terms of the input bytes.
-/
import Manticore.Lemmas.C13Fields
import Manticore.Lemmas.C13Text
set_option linter.unusedSimpArgs false
namespace Manticore.C13
open Manticore

theorem or_eq_add_of_lt (a b k : Nat) (hb : b < 2^k) (ha : 2^k ∣ a) : a ||| b = a + b := by
  obtain ⟨q, rfl⟩ := ha
  rw [Nat.mul_comm, ← Nat.shiftLeft_eq]
  exact (Nat.shiftLeft_add_eq_or_of_lt hb q).symm

theorem and_255 (n : Nat) : n &&& 255 = n % 256 := Nat.and_two_pow_sub_one_eq_mod n 8

theorem le64_toNat (b0 b1 b2 b3 b4 b5 b6 b7 : UInt8) :
    (le64 b0 b1 b2 b3 b4 b5 b6 b7).toNat =
      b0.toNat + b1.toNat * 2^8 + b2.toNat * 2^16 + b3.toNat * 2^24 + b4.toNat * 2^32 + b5.toNat * 2^40 +
      b6.toNat * 2^48 + b7.toNat * 2^56 := by
  have h0 := b0.toNat_lt; have h1 := b1.toNat_lt; have h2 := b2.toNat_lt; have h3 := b3.toNat_lt
  have h4 := b4.toNat_lt; have h5 := b5.toNat_lt; have h6 := b6.toNat_lt; have h7 := b7.toNat_lt
  simp only [le64, UInt64.toNat_or, UInt64.toNat_shiftLeft, UInt8.toNat_toUInt64, Nat.shiftLeft_eq]
  simp only [UInt64.toNat_ofNat, Nat.reducePow, Nat.reduceMod] at *
  rw [Nat.mod_eq_of_lt (by omega), Nat.mod_eq_of_lt (by omega), Nat.mod_eq_of_lt (by omega),
    Nat.mod_eq_of_lt (by omega), Nat.mod_eq_of_lt (by omega), Nat.mod_eq_of_lt (by omega), Nat.mod_eq_of_lt (by omega)]
  rw [Nat.or_comm b0.toNat, or_eq_add_of_lt (b1.toNat * 256) b0.toNat 8 (by omega) (by omega)]
  rw [Nat.or_comm _ (b2.toNat * 65536), or_eq_add_of_lt (b2.toNat * 65536) _ 16 (by omega) (by omega)]
  rw [Nat.or_comm _ (b3.toNat * 16777216), or_eq_add_of_lt (b3.toNat * 16777216) _ 24 (by omega) (by omega)]
  rw [Nat.or_comm _ (b4.toNat * 4294967296), or_eq_add_of_lt (b4.toNat * 4294967296) _ 32 (by omega) (by omega)]
  rw [Nat.or_comm _ (b5.toNat * 1099511627776), or_eq_add_of_lt (b5.toNat * 1099511627776) _ 40 (by omega) (by omega)]
  rw [Nat.or_comm _ (b6.toNat * 281474976710656), or_eq_add_of_lt (b6.toNat * 281474976710656) _ 48 (by omega) (by omega)]
  rw [Nat.or_comm _ (b7.toNat * 72057594037927936), or_eq_add_of_lt (b7.toNat * 72057594037927936) _ 56 (by omega) (by omega)]
  omega

theorem le32_toNat (b0 b1 b2 b3 : UInt8) :
    (le32 b0 b1 b2 b3).toNat = b0.toNat + b1.toNat * 2^8 + b2.toNat * 2^16 + b3.toNat * 2^24 := by
  have h0 := b0.toNat_lt; have h1 := b1.toNat_lt; have h2 := b2.toNat_lt; have h3 := b3.toNat_lt
  simp only [le32, UInt32.toNat_or, UInt32.toNat_shiftLeft, UInt8.toNat_toUInt32, Nat.shiftLeft_eq]
  simp only [UInt32.toNat_ofNat, Nat.reducePow, Nat.reduceMod] at *
  rw [Nat.mod_eq_of_lt (by omega), Nat.mod_eq_of_lt (by omega), Nat.mod_eq_of_lt (by omega)]
  rw [Nat.or_comm b0.toNat, or_eq_add_of_lt (b1.toNat * 256) b0.toNat 8 (by omega) (by omega)]
  rw [Nat.or_comm _ (b2.toNat * 65536), or_eq_add_of_lt (b2.toNat * 65536) _ 16 (by omega) (by omega)]
  rw [Nat.or_comm _ (b3.toNat * 16777216), or_eq_add_of_lt (b3.toNat * 16777216) _ 24 (by omega) (by omega)]
  omega

theorem le16_toNat (b0 b1 : UInt8) : (le16 b0 b1).toNat = b0.toNat + b1.toNat * 2^8 := by
  have h0 := b0.toNat_lt; have h1 := b1.toNat_lt
  simp only [le16, UInt16.toNat_or, UInt16.toNat_shiftLeft, UInt8.toNat_toUInt16, Nat.shiftLeft_eq]
  simp only [UInt16.toNat_ofNat, Nat.reducePow, Nat.reduceMod] at *
  rw [Nat.mod_eq_of_lt (by omega)]
  rw [Nat.or_comm b0.toNat, or_eq_add_of_lt (b1.toNat * 256) b0.toNat 8 (by omega) (by omega)]
  omega
theorem be32_toNat (a b c d : UInt8) :
    (be32 a b c d).toNat = a.toNat * 2^24 + b.toNat * 2^16 + c.toNat * 2^8 + d.toNat := by
  rw [be32, le32_toNat]; omega

theorem be16_toNat (a b : UInt8) : (be16 a b).toNat = a.toNat * 2^8 + b.toNat := by
  have : be16 a b = le16 b a := rfl
  rw [this, le16_toNat]; omega

/-! ### nibbles of a byte -/

theorem hiNibble_toNat : ∀ b : UInt8, ((b &&& 0xF0) >>> 4).toNat = b.toNat / 16 := by byte_decide
theorem loNibble_toNat : ∀ b : UInt8, (b &&& 0x0F).toNat = b.toNat % 16 := by byte_decide
/-! ### the 128-bit number of 16 bytes -/

theorem number16 (b0 b1 b2 b3 b4 b5 b6 b7 b8 b9 b10 b11 b12 b13 b14 b15 : UInt8) :
    RFC4122.number [b0,b1,b2,b3,b4,b5,b6,b7,b8,b9,b10,b11,b12,b13,b14,b15] =
      b0.toNat * 2^120 + b1.toNat * 2^112 + b2.toNat * 2^104 + b3.toNat * 2^96 + b4.toNat * 2^88 + b5.toNat * 2^80 +
      b6.toNat * 2^72 + b7.toNat * 2^64 + b8.toNat * 2^56 + b9.toNat * 2^48 + b10.toNat * 2^40 + b11.toNat * 2^32 +
      b12.toNat * 2^24 + b13.toNat * 2^16 + b14.toNat * 2^8 + b15.toNat := by
  simp only [RFC4122.number, beNat, List.foldl_cons, List.foldl_nil]
  omega

end Manticore.C13
