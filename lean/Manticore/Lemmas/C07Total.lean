/-
  C07 helper lemmas: totality of the hand models of decoders for which the owning property file
  states no totality theorem of its own (it is not that property's subject).  Built on the public
  theorems of those files.  Core Lean only; no `Manticore.Gen.*` import.
-/
import Manticore.Props.C08
import Manticore.Props.C12
import Manticore.Props.C13
import Manticore.Props.C15
namespace Manticore.C07T
open Manticore

/-! ### C08: `ParseTargetInfo`, `ProcessChallengeToken` -/

theorem targetInfoLoop_no_panic : ∀ (fuel : Nat) (rest : Bytes) (acc : C08.AvMap),
    C08.parseTargetInfoLoop fuel rest acc ≠ .panic
  | 0, _, _ => by simp [C08.parseTargetInfoLoop]
  | fuel + 1, rest, acc => by
    unfold C08.parseTargetInfoLoop
    split
    · simp
    · simp
    · simp
    · simp
    · simp only []
      split
      · simp
      · split
        · simp
        · exact targetInfoLoop_no_panic fuel _ _

theorem targetInfo_no_panic (ti : Bytes) : C08.parseTargetInfo ti ≠ .panic :=
  targetInfoLoop_no_panic _ _ _

theorem processChallenge_no_panic (upper utf16 : Bytes → Bytes) (token user domain workstation lm nt : Bytes) :
    C08.processChallengeToken upper utf16 token user domain workstation lm nt ≠ .panic := by
  unfold C08.processChallengeToken
  have h1 := (C08.spnego_extract_total token).2
  have h2 := (C08.spnego_extract_total token).1
  cases hr : C08.parseNegTokenResp token with
  | panic => exact absurd hr h1
  | err => simp [bind, Outcome.bind]
  | ok resp =>
    simp only [bind, Outcome.bind]
    split
    · simp
    · cases he : C08.extractNTLMToken token with
      | panic => exact absurd he h2
      | err => simp
      | ok inner =>
        simp only []
        cases hc : C08.parseChallenge inner with
        | panic => exact absurd hc (C08.challenge_parse_total inner)
        | err => simp
        | ok c =>
          have hm : ∀ x, C08.createAuthenticateMessage upper utf16 c.flags lm nt user domain workstation = x → x ≠ .panic := by
            intro x hx
            simp only [C08.createAuthenticateMessage] at hx
            split at hx <;> (subst hx; simp)
          cases hcm : C08.createAuthenticateMessage upper utf16 c.flags lm nt user domain workstation with
          | panic => exact absurd rfl (hm _ hcm)
          | err => simp [hcm]
          | ok m => simp [hcm, pure]

/-! ### C12: `DecodeUTF16LE`, `GPPPDecryptBase64` -/

theorem decodeUTF16LE_ok (b : Bytes) : ∃ s, C12.GPP.decodeUTF16LE b = .ok s := by
  obtain ⟨us, hus⟩ := C12.GPP.unitsLE_ok b
  refine ⟨C12.Prim.stringOfRunes (C12.Prim.utf16Decode us), ?_⟩
  simp [C12.GPP.decodeUTF16LE, hus]

theorem decryptBase64_no_panic (D : Bytes → Bytes) (s : Bytes) : C12.GPP.decryptBase64 D s ≠ .panic := by
  unfold C12.GPP.decryptBase64
  split
  · exact C12.gpp_decrypt_total D _
  · simp

/-! ### C13: the binary and text readers of UUID / UUIDv1 / UUIDv2 / UUIDv8 -/

theorem uuid_unmarshal_no_panic (m : Bytes) : C13.unmarshal m ≠ .panic := by
  by_cases h : m.length < 16
  · rw [(C13.uuid_unmarshal_total m).2 h]; simp
  · obtain ⟨u, hu⟩ := (C13.uuid_unmarshal_total m).1 (by omega)
    rw [hu]; simp

theorem v1Unmarshal_no_panic (m : Bytes) : C13.v1Unmarshal m ≠ .panic := by
  unfold C13.v1Unmarshal
  split
  · simp
  · cases h : C13.unmarshal m with
    | panic => exact absurd h (uuid_unmarshal_no_panic m)
    | err => simp
    | ok u => simp only []; split <;> simp

theorem v2Unmarshal_no_panic (m : Bytes) : C13.v2Unmarshal m ≠ .panic := by
  unfold C13.v2Unmarshal
  split
  · simp
  · cases h : C13.unmarshal m with
    | panic => exact absurd h (uuid_unmarshal_no_panic m)
    | err => simp
    | ok u => simp only []; split <;> simp

theorem v8Unmarshal_no_panic (m : Bytes) : C13.v8Unmarshal m ≠ .panic := by
  unfold C13.v8Unmarshal
  split
  · simp
  · cases h : C13.unmarshal m with
    | panic => exact absurd h (uuid_unmarshal_no_panic m)
    | err => simp
    | ok u => simp only []; split <;> simp

theorem v1FromBytes_no_panic (m : Bytes) : C13.v1FromBytes m ≠ .panic := by
  unfold C13.v1FromBytes; split
  · simp
  · exact v1Unmarshal_no_panic m
theorem v2FromBytes_no_panic (m : Bytes) : C13.v2FromBytes m ≠ .panic := by
  unfold C13.v2FromBytes; split
  · simp
  · exact v2Unmarshal_no_panic m
theorem v8FromBytes_no_panic (m : Bytes) : C13.v8FromBytes m ≠ .panic := by
  unfold C13.v8FromBytes; split
  · simp
  · exact v8Unmarshal_no_panic m

theorem textTo16_no_panic (l : Bool) (s : Bytes) : C13.textTo16 l s ≠ .panic := by
  unfold C13.textTo16
  split
  · simp
  · simp only []
    split
    · simp
    · unfold C13.ofOpt; split <;> simp

theorem uuidFromString_no_panic (s : Bytes) : C13.uuidFromString s ≠ .panic := by
  unfold C13.uuidFromString
  cases h : C13.textTo16 false s with
  | panic => exact absurd h (textTo16_no_panic _ _)
  | err => simp
  | ok m => exact uuid_unmarshal_no_panic m

theorem v1FromString_no_panic (s : Bytes) : C13.v1FromString s ≠ .panic := by
  unfold C13.v1FromString
  cases h : C13.textTo16 true s with
  | panic => exact absurd h (textTo16_no_panic _ _)
  | err => simp
  | ok m => exact v1FromBytes_no_panic m

theorem v2FromString_no_panic (s : Bytes) : C13.v2FromString s ≠ .panic := by
  unfold C13.v2FromString
  cases h : C13.textTo16 true s with
  | panic => exact absurd h (textTo16_no_panic _ _)
  | err => simp
  | ok m => exact v2FromBytes_no_panic m

theorem v8FromString_no_panic (s : Bytes) : C13.v8FromString s ≠ .panic := by
  unfold C13.v8FromString
  cases h : C13.textTo16 true s with
  | panic => exact absurd h (textTo16_no_panic _ _)
  | err => simp
  | ok m => exact v8FromBytes_no_panic m

/-! ### C15: `ConvertFromBinaryTime` -/

theorem convertFromBinaryTime_ok (raw : Bytes) : ∃ t, C15.convertFromBinaryTime raw = .ok t := by
  unfold C15.convertFromBinaryTime
  split
  · simp only []; split <;> exact ⟨_, rfl⟩
  · exact ⟨_, rfl⟩

end Manticore.C07T
