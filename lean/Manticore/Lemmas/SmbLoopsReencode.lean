/-
  C04 helper lemmas for the loop fragment, re-encoding: `runMStmts_again` (Lemmas/SmbReencode.lean) over the
  programs `layoutML` accepts — a second run of the marshal program, on field values that agree with what the
  first run left behind, produces the same bytes (a `range` loop runs over the same list).
-/
import Manticore.Lemmas.SmbReencode
import Manticore.Lemmas.SmbLoops
namespace Manticore.SmbIR
open Manticore

theorem runMStmts_againL {C : Codecs} {T F : String → Prop} (hF : LawfulFmt C F)
    (andx : Bool) (stmts : List MStmt) :
    ∀ (m : List Slot) (s s' t : MState) (fs : List String),
      layoutML stmts = some m → stableM stmts = true → reencodableM stmts = true →
      (∀ ty ∈ fmtTypesM stmts, F ty) → (∀ g ∈ lenFieldsM stmts, g ∈ fs) →
      runMStmts C andx s stmts = .ok s' →
      (∀ sl ∈ m, SlotFit C T s'.env sl) → (∀ sl ∈ m, sl.field ∈ fs) →
      Agree fs t.env s'.env →
      ∃ t', runMStmts C andx t stmts = .ok t' ∧ Agree fs t'.env s'.env ∧
        t'.P = t.P ++ layoutBytes C s'.env (m.filter (·.blk == .P)) ∧
        t'.D = t.D ++ layoutBytes C s'.env (m.filter (·.blk == .D)) ∧ t'.head = t.head := by
  induction stmts with
  | nil =>
    intro m s s' t fs hl _ _ _ _ _ _ _ hag
    simp only [layoutML, Option.some.injEq] at hl; subst hl
    exact ⟨t, by rw [runMStmts], hag, by simp [layoutBytes_nil], by simp [layoutBytes_nil], rfl⟩
  | cons st r ih =>
    intro m s s' t fs hl hst hre hFt hlen hrun hfit hmem hag
    obtain ⟨hfragL, m', hl', hm⟩ := layoutML_cons hl
    rw [runMStmts] at hrun
    cases h1 : runMStmt C andx s st <;> simp [h1] at hrun
    rename_i s1
    rw [stableM, Bool.and_eq_true] at hst
    cases hfragL with
    | forInt b w e f =>
      simp only [MStmt.slotsL, List.nil_append, List.cons_append] at hm; subst hm
      have hre' : reencodableM r = true := by simpa [reencodableM] using hre
      have hFt' : ∀ ty ∈ fmtTypesM r, F ty := by simpa [fmtTypesM] using hFt
      have hlen' : ∀ g ∈ lenFieldsM r, g ∈ fs := by simpa [lenFieldsM] using hlen
      obtain ⟨xs, hx, _⟩ := hfit (.ints b w e f none) (List.mem_cons_self ..)
      have htx : t.env.get f = some (.ns xs) := by rw [hag f (hmem (.ints b w e f none) (List.mem_cons_self ..)), hx]
      have ht1 : runMStmt C andx t (.forInt b w e f) = .ok (t.app b (xs.flatMap (intBytes w e))) := by
        rw [runMStmt]; simp [htx]
      obtain ⟨t', hr, hag', hP, hD, hH⟩ := ih m' s1 s' (t.app b (xs.flatMap (intBytes w e))) fs hl' hst.2 hre' hFt' hlen' hrun
        (fun sl h => hfit sl (List.mem_cons_of_mem _ h)) (fun sl h => hmem sl (List.mem_cons_of_mem _ h))
        (by cases b <;> exact hag)
      obtain ⟨g1, g2⟩ := layout_step C s'.env b (.ints b w e f none) rfl m' t _ t' (xs.flatMap (intBytes w e)) rfl rfl hP hD
        (by simp [slotBytes, hx])
      exact ⟨t', by rw [runMStmts, ht1]; exact hr, hag', g1, g2, by rw [hH]; cases b <;> rfl⟩
    | forSub b f ty =>
      simp only [MStmt.slotsL, List.nil_append, List.cons_append] at hm; subst hm
      have hre' : reencodableM r = true := by simpa [reencodableM] using hre
      have hFt' : ∀ ty ∈ fmtTypesM r, F ty := by simpa [fmtTypesM] using hFt
      have hlen' : ∀ g ∈ lenFieldsM r, g ∈ fs := by simpa [lenFieldsM] using hlen
      obtain ⟨vs, hx, _, _⟩ := hfit (.subs b f ty none none) (List.mem_cons_self ..)
      have htx : t.env.get f = some (.ts vs) := by rw [hag f (hmem (.subs b f ty none none) (List.mem_cons_self ..)), hx]
      -- the first run went through the same loop over the same list
      have hsx : s.env.get f = some (.ts vs) := by
        have hst1 := hst.1; simp only [emittedField] at hst1
        have := runMStmts_frameL C andx r m' s1 s' hl' hrun f hst1
        rw [hx] at this
        rw [runMStmt] at h1
        split at h1
        · rename_i vs0 hvs0
          obtain ⟨bs0, _, hs1⟩ := bind_ok' h1
          cases hs1
          have h2 : (s.app b bs0).env.get f = some (.ts vs) := this.symm
          have h3 : (s.app b bs0).env = s.env := by cases b <;> rfl
          rw [h3] at h2; exact h2
        · cases h1
      rw [runMStmt, hsx] at h1
      obtain ⟨bs, hfo, hs1⟩ := bind_ok' h1
      have ht1 : runMStmt C andx t (.forSub b f ty) = .ok (t.app b bs) := by
        rw [runMStmt, htx]
        show (do let bs ← vs.foldlM (fun acc v => do let (x, _) ← C.enc ty v; pure (acc ++ x)) []; pure (t.app b bs)) = _
        rw [hfo]; rfl
      obtain ⟨hbs, _⟩ := forSub_fold C ty vs [] bs hfo
      simp only [List.nil_append] at hbs
      obtain ⟨t', hr, hag', hP, hD, hH⟩ := ih m' s1 s' (t.app b bs) fs hl' hst.2 hre' hFt' hlen' hrun
        (fun sl h => hfit sl (List.mem_cons_of_mem _ h)) (fun sl h => hmem sl (List.mem_cons_of_mem _ h))
        (by cases b <;> exact hag)
      obtain ⟨g1, g2⟩ := layout_step C s'.env b (.subs b f ty none none) rfl m' t _ t' bs rfl rfl hP hD
        (by rw [slotBytes_subs C s'.env b f ty none none vs hx, hbs])
      exact ⟨t', by rw [runMStmts, ht1]; exact hr, hag', g1, g2, by rw [hH]; cases b <;> rfl⟩
    | ifNonZero f b w e =>
      simp only [MStmt.slotsL, List.nil_append, List.cons_append] at hm; subst hm
      have hre' : reencodableM r = true := by simpa [reencodableM] using hre
      have hFt' : ∀ ty ∈ fmtTypesM r, F ty := by simpa [fmtTypesM] using hFt
      have hlen' : ∀ g ∈ lenFieldsM r, g ∈ fs := by simpa [lenFieldsM] using hlen
      obtain ⟨x, hx, _⟩ := hfit (.opt b w e f none) (List.mem_cons_self ..)
      have htx : t.env.get f = some (.n x) := by rw [hag f (hmem (.opt b w e f none) (List.mem_cons_self ..)), hx]
      have ht1 : runMStmt C andx t (.ifNonZero f [.int b w e f]) = .ok (t.app b (if x = 0 then [] else intBytes w e x)) := by
        rw [runMStmt]
        simp only [getN, htx, Outcome.bind_ok]
        by_cases hx0 : x = 0
        · subst hx0
          cases b <;> simp [MState.app]
        · have hne : (x != 0) = true := by simpa using hx0
          simp [hne, hx0, runMStmts, runMStmt, getN, htx]
      obtain ⟨t', hr, hag', hP, hD, hH⟩ := ih m' s1 s' (t.app b (if x = 0 then [] else intBytes w e x)) fs hl' hst.2 hre' hFt' hlen' hrun
        (fun sl h => hfit sl (List.mem_cons_of_mem _ h)) (fun sl h => hmem sl (List.mem_cons_of_mem _ h))
        (by cases b <;> exact hag)
      obtain ⟨g1, g2⟩ := layout_step C s'.env b (.opt b w e f none) rfl m' t _ t' (if x = 0 then [] else intBytes w e x) rfl rfl hP hD
        (by simp [slotBytes, hx])
      exact ⟨t', by rw [runMStmts, ht1]; exact hr, hag', g1, g2, by rw [hH]; cases b <;> rfl⟩
    | ifNonZeroArr f b w e =>
      simp only [MStmt.slotsL, List.nil_append, List.cons_append] at hm; subst hm
      have hre' : reencodableM r = true := by simpa [reencodableM] using hre
      have hFt' : ∀ ty ∈ fmtTypesM r, F ty := by simpa [fmtTypesM] using hFt
      have hlen' : ∀ g ∈ lenFieldsM r, g ∈ fs := by simpa [lenFieldsM] using hlen
      obtain ⟨xs, hx, _⟩ := hfit (.optInts b w e f 0 none) (List.mem_cons_self ..)
      have htx : t.env.get f = some (.ns xs) := by rw [hag f (hmem (.optInts b w e f 0 none) (List.mem_cons_self ..)), hx]
      have ht1 : runMStmt C andx t (.ifNonZeroArr f [.forInt b w e f]) =
          .ok (t.app b (if xs.any (· != 0) then xs.flatMap (intBytes w e) else [])) := by
        rw [runMStmt]
        simp only [htx]
        by_cases hany : xs.any (· != 0) = true
        · simp [hany, runMStmts, runMStmt, htx]
        · simp only [hany, Bool.false_eq_true, ↓reduceIte]
          cases b <;> simp [MState.app]
      obtain ⟨t', hr, hag', hP, hD, hH⟩ := ih m' s1 s' (t.app b (if xs.any (· != 0) then xs.flatMap (intBytes w e) else [])) fs
        hl' hst.2 hre' hFt' hlen' hrun
        (fun sl h => hfit sl (List.mem_cons_of_mem _ h)) (fun sl h => hmem sl (List.mem_cons_of_mem _ h))
        (by cases b <;> exact hag)
      obtain ⟨g1, g2⟩ := layout_step C s'.env b (.optInts b w e f 0 none) rfl m' t _ t'
        (if xs.any (· != 0) then xs.flatMap (intBytes w e) else []) rfl rfl hP hD
        (by simp [slotBytes, hx])
      exact ⟨t', by rw [runMStmts, ht1]; exact hr, hag', g1, g2, by rw [hH]; cases b <;> rfl⟩
    | frag hfrag =>
    cases hfrag <;> simp only [MStmt.slotsL, List.nil_append, List.cons_append] at hm <;> subst hm
    case int b w e f =>
      have hre' : reencodableM r = true := by simpa [reencodableM] using hre
      have hFt' : ∀ ty ∈ fmtTypesM r, F ty := by simpa [fmtTypesM] using hFt
      have hlen' : ∀ g ∈ lenFieldsM r, g ∈ fs := by simpa [lenFieldsM] using hlen
      obtain ⟨x, hx, _⟩ := hfit (.int b w e f) (List.mem_cons_self ..)
      have htx : t.env.get f = some (.n x) := by rw [hag f (hmem (.int b w e f) (List.mem_cons_self ..)), hx]
      have ht1 : runMStmt C andx t (.int b w e f) = .ok (t.app b (intBytes w e x)) := by
        rw [runMStmt]; simp [getN, htx]
      obtain ⟨t', hr, hag', hP, hD, hH⟩ := ih m' s1 s' (t.app b (intBytes w e x)) fs hl' hst.2 hre' hFt' hlen' hrun
        (fun sl h => hfit sl (List.mem_cons_of_mem _ h)) (fun sl h => hmem sl (List.mem_cons_of_mem _ h))
        (by cases b <;> exact hag)
      obtain ⟨g1, g2⟩ := layout_step C s'.env b (.int b w e f) rfl m' t _ t' (intBytes w e x) rfl rfl hP hD
        (by simp [slotBytes, hx])
      exact ⟨t', by rw [runMStmts, ht1]; exact hr, hag', g1, g2, by rw [hH]; cases b <;> rfl⟩
    case quad b w e f =>
      have hre' : reencodableM r = true := by simpa [reencodableM] using hre
      have hFt' : ∀ ty ∈ fmtTypesM r, F ty := by simpa [fmtTypesM] using hFt
      have hlen' : ∀ g ∈ lenFieldsM r, g ∈ fs := by simpa [lenFieldsM] using hlen
      obtain ⟨x, hx, _⟩ := hfit (.int b w e f) (List.mem_cons_self ..)
      have htx : t.env.get f = some (.n x) := by rw [hag f (hmem (.int b w e f) (List.mem_cons_self ..)), hx]
      have ht1 : runMStmt C andx t (.quad b w e f) = .ok (t.app b (intBytes w e x)) := by
        rw [runMStmt]; simp [getN, htx]
      obtain ⟨t', hr, hag', hP, hD, hH⟩ := ih m' s1 s' (t.app b (intBytes w e x)) fs hl' hst.2 hre' hFt' hlen' hrun
        (fun sl h => hfit sl (List.mem_cons_of_mem _ h)) (fun sl h => hmem sl (List.mem_cons_of_mem _ h))
        (by cases b <;> exact hag)
      obtain ⟨g1, g2⟩ := layout_step C s'.env b (.int b w e f) rfl m' t _ t' (intBytes w e x) rfl rfl hP hD
        (by simp [slotBytes, hx])
      exact ⟨t', by rw [runMStmts, ht1]; exact hr, hag', g1, g2, by rw [hH]; cases b <;> rfl⟩
    case u8 b f =>
      have hre' : reencodableM r = true := by simpa [reencodableM] using hre
      have hFt' : ∀ ty ∈ fmtTypesM r, F ty := by simpa [fmtTypesM] using hFt
      have hlen' : ∀ g ∈ lenFieldsM r, g ∈ fs := by simpa [lenFieldsM] using hlen
      obtain ⟨x, hx, _⟩ := hfit (.u8 b f) (List.mem_cons_self ..)
      have htx : t.env.get f = some (.n x) := by rw [hag f (hmem (.u8 b f) (List.mem_cons_self ..)), hx]
      have ht1 : runMStmt C andx t (.u8 b f) = .ok (t.app b [UInt8.ofNat x]) := by
        rw [runMStmt]; simp [getN, htx]
      obtain ⟨t', hr, hag', hP, hD, hH⟩ := ih m' s1 s' (t.app b [UInt8.ofNat x]) fs hl' hst.2 hre' hFt' hlen' hrun
        (fun sl h => hfit sl (List.mem_cons_of_mem _ h)) (fun sl h => hmem sl (List.mem_cons_of_mem _ h))
        (by cases b <;> exact hag)
      obtain ⟨g1, g2⟩ := layout_step C s'.env b (.u8 b f) rfl m' t _ t' [UInt8.ofNat x] rfl rfl hP hD
        (by simp [slotBytes, hx])
      exact ⟨t', by rw [runMStmts, ht1]; exact hr, hag', g1, g2, by rw [hH]; cases b <;> rfl⟩
    case bytes b f =>
      have hre' : reencodableM r = true := by simpa [reencodableM] using hre
      have hFt' : ∀ ty ∈ fmtTypesM r, F ty := by simpa [fmtTypesM] using hFt
      have hlen' : ∀ g ∈ lenFieldsM r, g ∈ fs := by simpa [lenFieldsM] using hlen
      obtain ⟨bs, hx⟩ := hfit (.bytes b f none) (List.mem_cons_self ..)
      have htx : t.env.get f = some (.b bs) := by rw [hag f (hmem (.bytes b f none) (List.mem_cons_self ..)), hx]
      have ht1 : runMStmt C andx t (.bytes b f) = .ok (t.app b bs) := by
        rw [runMStmt]; simp [htx]
      obtain ⟨t', hr, hag', hP, hD, hH⟩ := ih m' s1 s' (t.app b bs) fs hl' hst.2 hre' hFt' hlen' hrun
        (fun sl h => hfit sl (List.mem_cons_of_mem _ h)) (fun sl h => hmem sl (List.mem_cons_of_mem _ h))
        (by cases b <;> exact hag)
      obtain ⟨g1, g2⟩ := layout_step C s'.env b (.bytes b f none) rfl m' t _ t' bs rfl rfl hP hD
        (by simp [slotBytes, hx])
      exact ⟨t', by rw [runMStmts, ht1]; exact hr, hag', g1, g2, by rw [hH]; cases b <;> rfl⟩
    case arr b f =>
      have hre' : reencodableM r = true := by simpa [reencodableM] using hre
      have hFt' : ∀ ty ∈ fmtTypesM r, F ty := by simpa [fmtTypesM] using hFt
      have hlen' : ∀ g ∈ lenFieldsM r, g ∈ fs := by simpa [lenFieldsM] using hlen
      obtain ⟨bs, hx⟩ := hfit (.arr b f) (List.mem_cons_self ..)
      have htx : t.env.get f = some (.b bs) := by rw [hag f (hmem (.arr b f) (List.mem_cons_self ..)), hx]
      have ht1 : runMStmt C andx t (.arr b f) = .ok (t.app b bs) := by
        rw [runMStmt]; simp [htx]
      obtain ⟨t', hr, hag', hP, hD, hH⟩ := ih m' s1 s' (t.app b bs) fs hl' hst.2 hre' hFt' hlen' hrun
        (fun sl h => hfit sl (List.mem_cons_of_mem _ h)) (fun sl h => hmem sl (List.mem_cons_of_mem _ h))
        (by cases b <;> exact hag)
      obtain ⟨g1, g2⟩ := layout_step C s'.env b (.arr b f) rfl m' t _ t' bs rfl rfl hP hD
        (by simp [slotBytes, hx])
      exact ⟨t', by rw [runMStmts, ht1]; exact hr, hag', g1, g2, by rw [hH]; cases b <;> rfl⟩
    case sub b f ty =>
      have hre' : reencodableM r = true := by simpa [reencodableM] using hre
      have hFt' : ∀ ty ∈ fmtTypesM r, F ty := by simpa [fmtTypesM] using hFt
      have hlen' : ∀ g ∈ lenFieldsM r, g ∈ fs := by simpa [lenFieldsM] using hlen
      obtain ⟨v, bs, hx, henc, _⟩ := hfit (.sub b f ty none) (List.mem_cons_self ..)
      have htx : t.env.get f = some (.t v) := by rw [hag f (hmem (.sub b f ty none) (List.mem_cons_self ..)), hx]
      have ht1 : runMStmt C andx t (.sub b f ty) = .ok { (t.app b bs) with env := t.env.set f (.t v) } := by
        rw [runMStmt]; simp [htx, henc]
      obtain ⟨t', hr, hag', hP, hD, hH⟩ := ih m' s1 s' { (t.app b bs) with env := t.env.set f (.t v) } fs hl' hst.2
        hre' hFt' hlen' hrun
        (fun sl h => hfit sl (List.mem_cons_of_mem _ h)) (fun sl h => hmem sl (List.mem_cons_of_mem _ h))
        (hag.set_same f (.t v) hx)
      obtain ⟨g1, g2⟩ := layout_step C s'.env b (.sub b f ty none) rfl m' t _ t' bs
        (by cases b <;> rfl) (by cases b <;> rfl) hP hD (by simp [slotBytes, hx, henc])
      exact ⟨t', by rw [runMStmts, ht1]; exact hr, hag', g1, g2, by rw [hH]; cases b <;> rfl⟩
    case setFmt f k =>
      -- the statement that follows is the `Marshal` of the same field
      cases r with
      | nil => simp [reencodableM] at hre
      | cons st2 r' =>
        cases st2 <;> simp only [reencodableM, Bool.false_and, Bool.and_eq_true, beq_iff_eq,
          decide_eq_true_eq, Bool.false_eq_true] at hre
        rename_i b g ty
        obtain ⟨⟨rfl, hk⟩, hre'⟩ := hre
        have hFty : F ty := hFt ty (by simp [fmtTypesM])
        have hFt' : ∀ ty ∈ fmtTypesM (.sub b f ty :: r'), F ty := by
          intro x hx; exact hFt x (by simp only [fmtTypesM, List.mem_append]; exact Or.inr hx)
        have hlen' : ∀ g ∈ lenFieldsM (.sub b f ty :: r'), g ∈ fs := by simpa [lenFieldsM] using hlen
        -- first run: `SetBufferFormat`, then `Marshal`, then nothing touches the field
        rw [runMStmt] at h1
        split at h1 <;> try cases h1
        rename_i v0 hv0
        have hrun2 := hrun
        rw [runMStmts] at hrun2
        cases h2 : runMStmt C andx { s with env := s.env.set f (.t (C.setFmt k v0)) } (.sub b f ty) <;>
          simp [h2] at hrun2
        rename_i s2
        rw [runMStmt] at h2
        simp only [Env.get_set_self] at h2
        cases he : C.enc ty (C.setFmt k v0) <;> simp [he] at h2
        rename_i pr
        obtain ⟨bs, v''⟩ := pr
        obtain ⟨hfrag2, m'', hl'', hm''⟩ := layoutML_cons hl'
        have hst2 := hst.2
        rw [stableM, Bool.and_eq_true] at hst2
        have hfr : s'.env.get f = s2.env.get f :=
          runMStmts_frameL C andx r' m'' s2 s' hl'' hrun2 f (by simpa [emittedField] using hst2.1)
        have hs2 : s2.env.get f = some (.t v'') := by subst h2; cases b <;> simp [Env.get_set_self]
        have hfmt : C.setFmt k v'' = v'' := hF.fmt ty k v0 bs v'' hFty hk he
        -- second run
        have hfm : f ∈ fs := by
          simp only [MStmt.slotsL, List.nil_append, List.cons_append] at hm''
          exact hmem (.sub b f ty none) (by rw [hm'']; exact List.mem_cons_self ..)
        have htx : t.env.get f = some (.t v'') := by rw [hag f hfm, hfr, hs2]
        have ht1 : runMStmt C andx t (.setFmt f k) = .ok { t with env := t.env.set f (.t v'') } := by
          rw [runMStmt]; simp [htx, hfmt]
        obtain ⟨t', hr, hag', hP, hD, hH⟩ := ih m { s with env := s.env.set f (.t (C.setFmt k v0)) } s'
          { t with env := t.env.set f (.t v'') } fs hl' hst.2 hre' hFt' hlen' hrun hfit hmem
          (hag.set_same f (.t v'') (by rw [hfr, hs2]))
        exact ⟨t', by rw [runMStmts, ht1]; exact hr, hag', hP, hD, hH⟩
    case assignLen f g w =>
      simp only [reencodableM, Bool.and_eq_true, bne_iff_ne, ne_eq, List.all_eq_true] at hre
      obtain ⟨⟨hfg, hnomod⟩, hre'⟩ := hre
      have hFt' : ∀ ty ∈ fmtTypesM r, F ty := by simpa [fmtTypesM] using hFt
      have hlen' : ∀ g ∈ lenFieldsM r, g ∈ fs := fun x hx => hlen x (by simp [lenFieldsM, hx])
      have hf : f ∈ fs := hlen f (by simp [lenFieldsM])
      have hg : g ∈ fs := hlen g (by simp [lenFieldsM])
      have hnf : r.all (fun st => st.modifies != some f) = true := by
        simp only [List.all_eq_true, bne_iff_ne, ne_eq]; exact fun st hs => (hnomod st hs).1
      have hng : r.all (fun st => st.modifies != some g) = true := by
        simp only [List.all_eq_true, bne_iff_ne, ne_eq]; exact fun st hs => (hnomod st hs).2
      have hff := runMStmts_frameL C andx r m s1 s' hl' hrun f hnf
      have hfg' := runMStmts_frameL C andx r m s1 s' hl' hrun g hng
      -- what the first run computed: the length of the buffer `g` holds, which no later statement changes
      have key : ∃ n, s.env.get g = s1.env.get g ∧ s1.env.get f = some (.n n) ∧
          ∀ t0 : MState, t0.env.get g = s.env.get g →
            runMStmt C andx t0 (.assignLen f g w) = .ok { t0 with env := t0.env.set f (.n n) } := by
        rw [runMStmt] at h1
        split at h1 <;> try cases h1
        all_goals
          rename_i xs hxs
          refine ⟨xs.length % 256 ^ w, ?_, by simp [Env.get_set_self], ?_⟩
          · simp [Env.get_set_ne _ _ _ _ (Ne.symm hfg)]
          · intro t0 ht0; rw [runMStmt, ht0, hxs]
      obtain ⟨n, hgs, hfs1, hstep⟩ := key
      have htg : t.env.get g = s.env.get g := by rw [hag g hg, hfg', ← hgs]
      have ht1 := hstep t htg
      obtain ⟨t', hr, hag', hP, hD, hH⟩ := ih m s1 s' { t with env := t.env.set f (.n n) } fs hl' hst.2 hre' hFt'
        hlen' hrun hfit hmem (hag.set_same f (.n n) (by rw [hff, hfs1]))
      exact ⟨t', by rw [runMStmts, ht1]; exact hr, hag', hP, hD, hH⟩

/-- a marshal program of the re-encodable shape that emits nothing is empty -/
theorem layoutML_nil_reencodable : ∀ (stmts : List MStmt), layoutML stmts = some [] → reencodableM stmts = true →
    lenFieldsM stmts = [] → stmts = []
  | [], _, _, _ => rfl
  | st :: r, hl, hre, hlen => by
    exfalso
    obtain ⟨hfragL, m', hl', hm⟩ := layoutML_cons hl
    cases hfragL with
    | forInt b w e f => simp [MStmt.slotsL] at hm
    | forSub b f t => simp [MStmt.slotsL] at hm
    | ifNonZero f b w e => simp [MStmt.slotsL] at hm
    | ifNonZeroArr f b w e => simp [MStmt.slotsL] at hm
    | frag hfrag =>
    cases hfrag <;> simp only [MStmt.slotsL, List.nil_append, List.cons_append] at hm <;> try cases hm
    · -- setFmt
      cases r with
      | nil => simp [reencodableM] at hre
      | cons st2 r' =>
        cases st2 <;> simp only [reencodableM, Bool.false_and, Bool.false_eq_true] at hre
        obtain ⟨_, m'', _, hm''⟩ := layoutML_cons hl'
        simp [MStmt.slotsL] at hm''
    · simp [lenFieldsM] at hlen

end Manticore.SmbIR
