/-
  Helper lemmas for C02: response shapes, the verifier on `proof ‖ blob`, AV-pair lists, hashcat line
  splitting, and a concrete interpretation of the primitives (non-vacuity of the laws assumed).
-/
import Manticore.Lemmas.C02Bits
namespace Manticore.C02
open Manticore Manticore.RExpr

theorem len16 (l : Bytes) (h : l.length = 16) :
    ∃ a0 a1 a2 a3 a4 a5 a6 a7 a8 a9 a10 a11 a12 a13 a14 a15, l = [a0,a1,a2,a3,a4,a5,a6,a7,a8,a9,a10,a11,a12,a13,a14,a15] := by
  match l, h with
  | [a0,a1,a2,a3,a4,a5,a6,a7,a8,a9,a10,a11,a12,a13,a14,a15], _ => exact ⟨a0,a1,a2,a3,a4,a5,a6,a7,a8,a9,a10,a11,a12,a13,a14,a15, rfl⟩

theorem response16_eq (a0 a1 a2 a3 a4 a5 a6 a7 a8 a9 a10 a11 a12 a13 a14 a15 : UInt8) (chal : Bytes) :
    response16 [a0,a1,a2,a3,a4,a5,a6,a7,a8,a9,a10,a11,a12,a13,a14,a15] chal =
      .ok (des3 [a0,a1,a2,a3,a4,a5,a6] [a7,a8,a9,a10,a11,a12,a13] [a14,a15,0,0,0,0,0] chal) := rfl

theorem v1Hash_eq (a0 a1 a2 a3 a4 a5 a6 a7 a8 a9 a10 a11 a12 a13 a14 a15 : UInt8) (chal : Bytes) :
    v1Hash [a0,a1,a2,a3,a4,a5,a6,a7,a8,a9,a10,a11,a12,a13,a14,a15] chal =
      .ok (des3 [a0,a1,a2,a3,a4,a5,a6] [a7,a8,a9,a10,a11,a12,a13] [a14,a15,0,0,0,0,0] chal) := by
  simp [v1Hash, zeros]

theorem leNat_putLe64 (x : UInt64) : leNat (putLe64 x) = x.toNat := by
  simp [putLe64, leNat, UInt64.toNat_toUInt8, UInt64.toNat_shiftRight]
  have := x.toNat_lt
  omega

theorem len8' (l : Bytes) (h : l.length = 8) : ∃ a0 a1 a2 a3 a4 a5 a6 a7, l = [a0,a1,a2,a3,a4,a5,a6,a7] := by
  match l, h with
  | [a0,a1,a2,a3,a4,a5,a6,a7], _ => exact ⟨a0,a1,a2,a3,a4,a5,a6,a7, rfl⟩

theorem ntowfv2_eq_spec (pw user domain : Bytes) : ntowfv2 pw user domain = Spec.ntowfv2 pw user domain := rfl

theorem verify_of_shape (P : Prims) (hL : Spec.HmacLen P) (pw user domain sc blob : Bytes) :
    Spec.verify P pw user domain sc
      (P.hmacMd5 (eval P (Spec.ntowfv2 pw user domain)) (sc ++ blob) ++ blob) = true := by
  have h16 := hL (eval P (Spec.ntowfv2 pw user domain)) (sc ++ blob)
  simp only [Spec.verify, Bool.and_eq_true, decide_eq_true_eq, beq_iff_eq]
  refine ⟨by simp [h16], ?_⟩
  rw [List.take_left' h16, List.drop_left' h16]

theorem avList_eol : Spec.avList [0, 0, 0, 0] = true := by decide

theorem avList_one_pair (d : Bytes) (hd : d.length ≤ 65535) :
    Spec.avList (putLe16 0x0002 ++ putLe16 (UInt16.ofNat d.length) ++ d ++ [0, 0, 0, 0]) = true := by
  have hlen : ((UInt16.ofNat d.length).toUInt8).toNat + 256 * ((UInt16.ofNat d.length >>> 8).toUInt8).toNat = d.length := by
    simp [UInt16.toNat_toUInt8, UInt16.toNat_shiftRight, UInt16.toNat_ofNat']; omega
  have h2 : ((0x0002 : UInt16).toUInt8).toNat + 256 * (((0x0002 : UInt16) >>> 8).toUInt8).toNat = 2 := by decide
  simp only [Spec.avList, putLe16, List.cons_append, List.nil_append, List.length_cons, List.length_append, Spec.avListLoop, h2, hlen]
  rw [if_neg (by decide), if_neg (by simp)]
  rw [List.drop_left]
  simp

theorem hexVal_colon : Spec.hexVal 58 = none := by decide

theorem unhex_no_colon : ∀ (s b : Bytes), Spec.unhex s = some b → (58 : UInt8) ∉ s
  | [], _, _ => by simp
  | [_], _, h => by simp [Spec.unhex] at h
  | x :: y :: rest, b, h => by
    simp only [Spec.unhex, bind, Option.bind] at h
    cases hx : Spec.hexVal x with
    | none => simp [hx] at h
    | some vx =>
      cases hy : Spec.hexVal y with
      | none => simp [hx, hy] at h
      | some vy =>
        cases hr : Spec.unhex rest with
        | none => simp [hx, hy, hr] at h
        | some r =>
          have ih := unhex_no_colon rest r hr
          intro hm
          simp only [List.mem_cons] at hm
          rcases hm with e | e | e
          · rw [← e, hexVal_colon] at hx; cases hx
          · rw [← e, hexVal_colon] at hy; cases hy
          · exact ih e

theorem splitOn_no_sep (sep : UInt8) : ∀ (a : Bytes), sep ∉ a → Spec.splitOn sep a = [a]
  | [], _ => rfl
  | c :: rest, h => by
    have hc : c ≠ sep := fun e => h (by simp [e])
    have hr : sep ∉ rest := fun e => h (by simp [e])
    simp [Spec.splitOn, splitOn_no_sep sep rest hr, hc]

theorem splitOn_ne_nil (sep : UInt8) : ∀ (l : Bytes), Spec.splitOn sep l ≠ []
  | [] => by simp [Spec.splitOn]
  | c :: rest => by
    simp only [Spec.splitOn]
    cases Spec.splitOn sep rest with
    | nil => simp
    | cons cur more => simp only []; split <;> simp

theorem splitOn_append (sep : UInt8) : ∀ (a rest : Bytes), sep ∉ a →
    Spec.splitOn sep (a ++ sep :: rest) = a :: Spec.splitOn sep rest
  | [], rest, _ => by
    simp only [List.nil_append, Spec.splitOn]
    cases h : Spec.splitOn sep rest with
    | nil => exact absurd h (splitOn_ne_nil sep rest)
    | cons cur more => simp
  | c :: a, rest, h => by
    have hc : c ≠ sep := fun e => h (by simp [e])
    have hr : sep ∉ a := fun e => h (by simp [e])
    simp [Spec.splitOn, splitOn_append sep a rest hr, hc]

def hexNib (n : UInt8) : UInt8 := if n < 10 then 48 + n else 87 + n
def hexEnc : Bytes → Bytes
  | [] => []
  | x :: xs => hexNib (x >>> 4) :: hexNib (x &&& 15) :: hexEnc xs

theorem hexNib_byte (x : UInt8) :
    Spec.hexVal (hexNib (x >>> 4)) = some (x >>> 4) ∧ Spec.hexVal (hexNib (x &&& 15)) = some (x &&& 15) ∧
    ((x >>> 4) <<< 4 ||| (x &&& 15)) = x := by
  have : ∀ n : Fin 256, Spec.hexVal (hexNib ((UInt8.ofNat n.val) >>> 4)) = some ((UInt8.ofNat n.val) >>> 4) ∧
      Spec.hexVal (hexNib ((UInt8.ofNat n.val) &&& 15)) = some ((UInt8.ofNat n.val) &&& 15) ∧
      (((UInt8.ofNat n.val) >>> 4) <<< 4 ||| ((UInt8.ofNat n.val) &&& 15)) = UInt8.ofNat n.val := by decide +kernel
  have h := this ⟨x.toNat, x.toNat_lt⟩
  simpa using h

theorem unhex_hexEnc (b : Bytes) : Spec.unhex (hexEnc b) = some b := by
  induction b with
  | nil => rfl
  | cons x xs ih =>
    have hx := hexNib_byte x
    simp only [hexEnc, Spec.unhex, hx.1, hx.2.1, ih, bind, Option.bind, pure, hx.2.2]

def demoPrims : Prims :=
  { md4 := fun _ => zeros 16, upper := id, utf16le := id, hex := hexEnc,
    hmacMd5 := fun _ _ => zeros 16, des := fun _ _ => zeros 8, des7 := fun _ _ => zeros 8 }


end Manticore.C02
